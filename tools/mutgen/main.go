// mutgen: a small syntactic mutation generator for the anchored code of the properties.
// usage: mutgen <repo> <anchor-ranges.json>   → JSON lines {file, start, end, repl, op, func, line, props}
// Mutants are byte-range replacements (no reformatting), restricted to functions that overlap an anchored line range.
package main

import (
	"encoding/json"
	"fmt"
	"go/ast"
	"go/parser"
	"go/token"
	"os"
	"path/filepath"
	"sort"
	"strconv"
)

type mutant struct {
	File  string   `json:"file"`
	Start int      `json:"start"`
	End   int      `json:"end"`
	Repl  string   `json:"repl"`
	Op    string   `json:"op"`
	Func  string   `json:"func"`
	Line  int      `json:"line"`
	Props []string `json:"props"`
}

var binSwap = map[token.Token]string{
	token.EQL: "!=", token.NEQ: "==", token.LSS: "<=", token.LEQ: "<", token.GTR: ">=", token.GEQ: ">",
	token.LAND: "||", token.LOR: "&&", token.ADD: "-", token.SUB: "+",
}

func main() {
	repo, rangesFile := os.Args[1], os.Args[2]
	var ranges map[string][][]any
	b, _ := os.ReadFile(rangesFile)
	json.Unmarshal(b, &ranges)
	files := make([]string, 0, len(ranges))
	for f := range ranges {
		files = append(files, f)
	}
	sort.Strings(files)
	enc := json.NewEncoder(os.Stdout)
	for _, f := range files {
		fset := token.NewFileSet()
		path := filepath.Join(repo, f)
		src, err := os.ReadFile(path)
		if err != nil {
			continue
		}
		af, err := parser.ParseFile(fset, path, src, 0)
		if err != nil {
			fmt.Fprintln(os.Stderr, err)
			continue
		}
		for _, d := range af.Decls {
			fd, ok := d.(*ast.FuncDecl)
			if !ok || fd.Body == nil {
				continue
			}
			l0, l1 := fset.Position(fd.Pos()).Line, fset.Position(fd.End()).Line
			propSet := map[string]bool{}
			for _, r := range ranges[f] {
				a, bb := int(r[0].(float64))-8, int(r[1].(float64))+8
				if a <= l1 && l0 <= bb {
					propSet[r[2].(string)] = true
				}
			}
			if len(propSet) == 0 {
				continue
			}
			var props []string
			for p := range propSet {
				props = append(props, p)
			}
			sort.Strings(props)
			name := fd.Name.Name
			if fd.Recv != nil && len(fd.Recv.List) > 0 {
				name = string(src[fset.Position(fd.Recv.List[0].Type.Pos()).Offset:fset.Position(fd.Recv.List[0].Type.End()).Offset]) + "." + name
			}
			emit := func(p, e token.Pos, repl, op string) {
				enc.Encode(mutant{f, fset.Position(p).Offset, fset.Position(e).Offset, repl, op, name, fset.Position(p).Line, props})
			}
			text := func(n ast.Node) string { return string(src[fset.Position(n.Pos()).Offset:fset.Position(n.End()).Offset]) }
			ast.Inspect(fd.Body, func(n ast.Node) bool {
				switch x := n.(type) {
				case *ast.BinaryExpr:
					if r, ok := binSwap[x.Op]; ok {
						if x.Op == token.ADD {
							// string concatenation: `-` does not compile; cheap filter on literals
							if bl, ok := x.X.(*ast.BasicLit); ok && bl.Kind == token.STRING {
								break
							}
							if bl, ok := x.Y.(*ast.BasicLit); ok && bl.Kind == token.STRING {
								break
							}
						}
						emit(x.OpPos, x.OpPos+token.Pos(len(x.Op.String())), r, "swap "+x.Op.String()+" -> "+r)
					}
				case *ast.IfStmt:
					emit(x.Cond.Pos(), x.Cond.End(), "!("+text(x.Cond)+")", "negate if-condition")
				case *ast.ForStmt:
					if x.Cond != nil {
						emit(x.Cond.Pos(), x.Cond.End(), "("+text(x.Cond)+") && false", "loop never entered")
					}
				case *ast.IncDecStmt:
					if x.Tok == token.INC {
						emit(x.TokPos, x.TokPos+2, "--", "++ -> --")
					} else {
						emit(x.TokPos, x.TokPos+2, "++", "-- -> ++")
					}
				case *ast.BasicLit:
					if x.Kind == token.INT {
						if v, err := strconv.ParseInt(x.Value, 0, 64); err == nil {
							emit(x.Pos(), x.End(), strconv.FormatInt(v+1, 10), "int literal +1")
							if v != 0 {
								emit(x.Pos(), x.End(), strconv.FormatInt(v-1, 10), "int literal -1")
							}
						}
					}
				case *ast.Ident:
					if x.Name == "true" {
						emit(x.Pos(), x.End(), "false", "true -> false")
					} else if x.Name == "false" {
						emit(x.Pos(), x.End(), "true", "false -> true")
					}
				case *ast.ExprStmt:
					if _, ok := x.X.(*ast.CallExpr); ok {
						emit(x.Pos(), x.End(), "", "delete call statement")
					}
				case *ast.AssignStmt:
					if x.Tok == token.ASSIGN || x.Tok == token.ADD_ASSIGN || x.Tok == token.SUB_ASSIGN {
						emit(x.Pos(), x.End(), "", "delete assignment")
					}
				case *ast.BranchStmt:
					if x.Tok == token.BREAK && x.Label == nil {
						emit(x.Pos(), x.End(), "continue", "break -> continue")
					} else if x.Tok == token.CONTINUE && x.Label == nil {
						emit(x.Pos(), x.End(), "break", "continue -> break")
					}
				case *ast.ReturnStmt:
					// `return err` / `return x, err` → `return nil` forms are type dependent; only the boolean / nil-able single result
					if len(x.Results) == 1 {
						if id, ok := x.Results[0].(*ast.Ident); ok && id.Name == "nil" {
							break
						}
					}
				}
				return true
			})
		}
	}
}
