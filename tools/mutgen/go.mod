module mutgen

go 1.23
