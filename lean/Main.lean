import Driver.Dispatch
/-!
Line-protocol driver: `echomodel <property>` reads one case per line on stdin and prints
the model's observation for it, one line per case.
-/

partial def loop (h : IO.FS.Stream) (out : IO.FS.Stream) (f : String → String) : IO Unit := do
  let line ← h.getLine
  if line.isEmpty then return ()
  let l := (line.dropEndWhile (fun c => c == '\n' || c == '\r')).toString
  out.putStrLn (f l)
  loop h out f

def main (args : List String) : IO UInt32 := do
  match args with
  | [p] =>
    match dispatch p with
    | some f =>
      let out ← IO.getStdout
      loop (← IO.getStdin) out f
      out.flush
      return 0
    | none => IO.eprintln s!"unknown property {p}"; return 2
  | _ => IO.eprintln "usage: echomodel <property>"; return 2
