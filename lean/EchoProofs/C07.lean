import EchoModel.C07
/-!
# C07 — theorems about the error-handling model

All statements are for EVERY error tree (any depth, any codes, any message kinds), every
panic value, every method / Debug / Recover configuration, every state the handler left the
response in.

The property's rule is written down independently of the handler's control flow
(`ruleSource`, `ruleDoc`): "the code and message of the HTTP error, or of the HTTP error it
directly carries as internal error; otherwise 500 with a generic message; a JSON document, or
nothing for HEAD".  The theorems say that the model of `DefaultHTTPErrorHandler` / `Recover` /
`ServeHTTP` produces exactly that, exactly once.
-/
namespace C07

/-! ## the rule, stated on its own -/

/-- code and message of an error value that IS an `*HTTPError` -/
def own : Err → Option (Nat × Msg)
  | .http c m => some (c, m)
  | .httpI c m _ => some (c, m)
  | _ => none

/-- the error an `*HTTPError` directly carries in `Internal` -/
def internalOf : Err → Option Err
  | .httpI _ _ i => some i
  | _ => none

/-- whose code and message the client must get: the HTTP error's, or those of the HTTP error
    it *directly* carries; `none` = not an HTTP error → 500 generic -/
def ruleSource (e : Err) : Option (Nat × Msg) :=
  match own e with
  | none => none
  | some cm =>
    match (internalOf e).bind own with
    | some cm' => some cm'
    | none => some cm

def ruleCode (e : Err) : Nat :=
  match ruleSource e with
  | some (c, _) => c
  | none => 500

/-- the JSON document the client must get (non-HEAD) -/
def ruleDoc (debug : Bool) (e : Err) : Doc :=
  let dbg := if debug then some (canon (errorAtoms e)) else none
  match ruleSource e with
  | none => .message (.statusText 500) dbg                 -- generic message
  | some (_, .str t) => .message (.atom t) dbg
  | some (c, .dflt) => .message (.statusText c) dbg
  | some (_, .err t) => .message (.atom t) none
  | some (_, .marsh j) => .doc j
  | some (_, .other j) => .doc j
  | some (_, .nil) => .null                               -- no message: the JSON document `null`

theorem effective_eq_ruleSource (e : Err) : effective e = ruleSource e := by
  cases e with
  | plain t => rfl
  | wrap t i => rfl
  | http c m => rfl
  | httpI c m i => cases i <;> rfl

/-- what one invocation of the handler does to an uncommitted response -/
theorem handle_uncommitted (debug head : Bool) (o : Out) (e : Err) (h : o.committed = false) :
    handle debug head o e =
      { calls := o.calls ++ [ruleCode e],
        docs := if head then o.docs else o.docs ++ [ruleDoc debug e],
        committed := true } := by
  unfold handle ruleCode ruleDoc
  rw [effective_eq_ruleSource]
  simp only [h, Bool.false_eq_true, if_false]
  cases hs : ruleSource e with
  | none => cases head <;> simp [shape]
  | some cm =>
    obtain ⟨c, m⟩ := cm
    cases head <;> cases m <;> simp [shape]

/-- **the handler adds nothing to a committed response** -/
theorem handle_committed (debug head : Bool) (o : Out) (e : Err) (h : o.committed = true) :
    handle debug head o e = o := by
  simp [handle, h]

theorem handle_commits (debug head : Bool) (o : Out) (e : Err) :
    (handle debug head o e).committed = true := by
  by_cases h : o.committed = true
  · rw [handle_committed _ _ _ _ h]; exact h
  · rw [handle_uncommitted _ _ _ _ (by simpa using h)]

/-- **C07_handler_idempotent** — a second invocation (an outer middleware that calls
    `c.Error(err)` and also returns the error; `Recover` returning the error after the handler
    ran) changes nothing, whatever error it is given. -/
theorem C07_handler_idempotent (debug head : Bool) (o : Out) (e e' : Err) :
    handle debug head (handle debug head o e) e' = handle debug head o e :=
  handle_committed _ _ _ _ (handle_commits _ _ _ _)

theorem chainError_eq (c : Case) (o : Out) (e : Err) :
    chainError c o e = handle c.debug c.head o e := by
  unfold chainError
  cases c.double
  · rfl
  · exact C07_handler_idempotent _ _ _ _ _

/-- the error that reaches the handler, if the request does not crash -/
def raisedErr : Raise → Option Err
  | .returned e => some e
  | .panicked v => recoverErr v

/-- does the panic leave `ServeHTTP`? -/
def crashes (c : Case) : Bool :=
  match c.raise with
  | .returned _ => false
  | .panicked v => !c.recover || (recoverErr v).isNone

/-- `serve` in closed form: whichever way the error travels (returned; panic → Recover →
    `c.Error`; panic → Recover → returned; with or without the double-handling middleware)
    the response is the one single invocation of the handler produces. -/
theorem serve_eq (c : Case) :
    serve c =
      if crashes c then .crashed
      else match raisedErr c.raise with
        | some e => .response (handle c.debug c.head (applyPre c.pre) e)
        | none => .crashed := by
  obtain ⟨debug, head, recover, disableEH, double, pre, raise⟩ := c
  cases raise with
  | returned e => simp [serve, crashes, raisedErr, chainError_eq]
  | panicked v =>
    cases recover
    · simp [serve, crashes]
    · cases hv : recoverErr v with
      | none => simp [serve, crashes, hv]
      | some e =>
        cases disableEH <;> simp [serve, crashes, raisedErr, hv, chainError_eq]

/-- did the handler function commit the response before it failed? -/
def preCommitted : Pre → Bool
  | .nothing => false
  | .jsonBad _ => false
  | _ => true

theorem applyPre_committed (p : Pre) : (applyPre p).committed = preCommitted p := by
  cases p <;> rfl

/-- **C07_one_response** — a request whose handler returns an error or panics (recovered)
    yields exactly one response: the underlying writer receives exactly one `WriteHeader`
    call, the response ends committed; if the handler had already committed a response, that
    response is left exactly as it was (nothing is added). -/
theorem C07_one_response (c : Case) (o : Out) (h : serve c = .response o) :
    o.calls.length = 1 ∧ o.committed = true ∧
    (preCommitted c.pre = true → o = applyPre c.pre) := by
  rw [serve_eq] at h
  split at h
  · exact absurd h (by simp)
  · split at h
    · rename_i e he
      simp only [Outcome.response.injEq] at h
      subst h
      refine ⟨?_, handle_commits _ _ _ _, ?_⟩
      · by_cases hp : preCommitted c.pre = true
        · rw [handle_committed _ _ _ _ (by rw [applyPre_committed]; exact hp)]
          cases hpre : c.pre <;> simp_all [preCommitted, applyPre]
        · rw [handle_uncommitted _ _ _ _ (by rw [applyPre_committed]; simpa using hp)]
          cases hpre : c.pre <;> simp_all [preCommitted, applyPre]
      · intro hp
        exact handle_committed _ _ _ _ (by rw [applyPre_committed]; exact hp)
    · exact absurd h (by simp)

/-- **C07_code_message** — if the handler had not committed anything, the client gets the
    status and the document the rule demands: the code and message of the HTTP error or of
    the HTTP error it directly carries, else 500 with the generic message; nothing else. -/
theorem C07_code_message (c : Case) (o : Out) (e : Err) (h : serve c = .response o)
    (he : raisedErr c.raise = some e) (hp : preCommitted c.pre = false) :
    o.calls = [ruleCode e] ∧ o.docs = (if c.head then [] else [ruleDoc c.debug e]) := by
  rw [serve_eq] at h
  split at h
  · exact absurd h (by simp)
  · rw [he] at h
    simp only [Outcome.response.injEq] at h
    subst h
    rw [handle_uncommitted _ _ _ _ (by rw [applyPre_committed]; exact hp)]
    cases hpre : c.pre <;> simp_all [preCommitted, applyPre]

/-- **C07_head_empty** — for HEAD the error handler never writes a body: the documents are
    exactly those the handler function itself had written before. -/
theorem C07_head_empty (c : Case) (o : Out) (h : serve c = .response o) (hh : c.head = true) :
    o.docs = (applyPre c.pre).docs := by
  rw [serve_eq] at h
  split at h
  · exact absurd h (by simp)
  · split at h
    · simp only [Outcome.response.injEq] at h
      subst h
      by_cases hc : (applyPre c.pre).committed = true
      · rw [handle_committed _ _ _ _ hc]
      · rw [handle_uncommitted _ _ _ _ (by simpa using hc)]; simp [hh]
    · exact absurd h (by simp)

/-! ## no leak -/

/-- atoms visible in a body document -/
def docAtoms : Doc → List Atom
  | .pre => []
  | .message (.atom t) dbg => t :: dbg.getD []
  | .message (.statusText _) dbg => dbg.getD []
  | .doc j => [j]
  | .null => []

/-- the atoms the rule makes public: those of the message of the effective HTTP error -/
def publicAtoms (e : Err) : List Atom :=
  match ruleSource e with
  | some (_, m) => msgAtoms m
  | none => []

/-- texts of non-HTTP errors anywhere in the value (plain errors, `%w` wrappers) -/
def plainTexts : Err → List Atom
  | .plain t => [t]
  | .wrap t i => t :: plainTexts i
  | .http _ _ => []
  | .httpI _ _ i => plainTexts i

theorem ruleDoc_atoms_nodebug (e : Err) : ∀ a ∈ docAtoms (ruleDoc false e), a ∈ publicAtoms e := by
  intro a ha
  unfold ruleDoc publicAtoms at *
  cases hs : ruleSource e with
  | none => simp [hs, docAtoms] at ha
  | some cm =>
    obtain ⟨c, m⟩ := cm
    cases m <;> simp_all [docAtoms, msgAtoms]

/-- **C07_no_leak (non-interference form)** — with Debug off the response is a function of
    the effective code and message alone: two error values that agree on `ruleSource` —
    however different their internal errors, wrappers and texts are — produce the same
    response. -/
theorem C07_no_leak_noninterference (head : Bool) (o : Out) (e₁ e₂ : Err)
    (h : ruleSource e₁ = ruleSource e₂) :
    handle false head o e₁ = handle false head o e₂ := by
  by_cases hc : o.committed = true
  · rw [handle_committed _ _ _ _ hc, handle_committed _ _ _ _ hc]
  · have hc : o.committed = false := by simpa using hc
    rw [handle_uncommitted _ _ _ _ hc, handle_uncommitted _ _ _ _ hc]
    simp [ruleCode, ruleDoc, h]

/-- **C07_no_leak** — with Debug off, every atom in what the error handler wrote is an atom
    of the message of the effective HTTP error; in particular the text of a non-HTTP error
    (plain, wrapped, internal, at any depth; also a non-error panic value) never appears,
    unless the application itself put the same text into that message. -/
theorem C07_no_leak (c : Case) (o : Out) (e : Err) (h : serve c = .response o)
    (he : raisedErr c.raise = some e) (hd : c.debug = false) :
    ∀ d ∈ o.docs, d ∉ (applyPre c.pre).docs → ∀ a ∈ docAtoms d, a ∈ publicAtoms e := by
  rw [serve_eq] at h
  split at h
  · exact absurd h (by simp)
  · rw [he] at h
    simp only [Outcome.response.injEq] at h
    subst h
    intro d hdm hnew a ha
    by_cases hc : (applyPre c.pre).committed = true
    · rw [handle_committed _ _ _ _ hc] at hdm; exact absurd hdm hnew
    · rw [handle_uncommitted _ _ _ _ (by simpa using hc)] at hdm
      simp only at hdm
      split at hdm
      · exact absurd hdm hnew
      · simp only [List.mem_append, List.mem_singleton] at hdm
        rcases hdm with hdm | hdm
        · exact absurd hdm hnew
        · subst hdm
          rw [hd] at ha
          exact ruleDoc_atoms_nodebug e a ha

theorem C07_no_leak_plain (c : Case) (o : Out) (e : Err) (h : serve c = .response o)
    (he : raisedErr c.raise = some e) (hd : c.debug = false) (t : Atom)
    (_ht : t ∈ plainTexts e) (hfresh : t ∉ publicAtoms e) :
    ∀ d ∈ o.docs, d ∉ (applyPre c.pre).docs → t ∉ docAtoms d := by
  intro d hdm hnew hmem
  exact hfresh (C07_no_leak c o e h he hd d hdm hnew t hmem)

/-- a non-HTTP error (plain, wrapped — even around an HTTPError — or a non-error panic
    value) makes nothing public at all -/
theorem publicAtoms_nonHTTP (e : Err) (h : own e = none) : publicAtoms e = [] := by
  unfold publicAtoms ruleSource; simp [h]

/-! ## panics, and going on serving -/

/-- **C07_recovered** — with Recover installed every panic value except
    `http.ErrAbortHandler` yields a response (the panic does not leave `ServeHTTP`), and it
    is the very response a handler *returning* the corresponding error would have produced. -/
theorem C07_recovered (c : Case) (v : PanicVal) (hr : c.recover = true) (hv : v ≠ .abort)
    (hraise : c.raise = .panicked v) :
    ∃ e, recoverErr v = some e ∧
      serve c = serve { c with raise := .returned e } ∧ ∃ o, serve c = .response o := by
  cases v with
  | abort => exact absurd rfl hv
  | error e =>
    refine ⟨e, rfl, ?_, ?_⟩ <;> simp [serve_eq, crashes, raisedErr, hraise, hr, recoverErr]
  | str t =>
    refine ⟨.plain t, rfl, ?_, ?_⟩ <;> simp [serve_eq, crashes, raisedErr, hraise, hr, recoverErr]
  | int t =>
    refine ⟨.plain t, rfl, ?_, ?_⟩ <;> simp [serve_eq, crashes, raisedErr, hraise, hr, recoverErr]
  | struct t =>
    refine ⟨.plain t, rfl, ?_, ?_⟩ <;> simp [serve_eq, crashes, raisedErr, hraise, hr, recoverErr]

/-- **C07_returned_never_crashes** — a returned error always yields a response. -/
theorem C07_returned_never_crashes (c : Case) (e : Err) (h : c.raise = .returned e) :
    ∃ o, serve c = .response o := by
  simp [serve_eq, crashes, raisedErr, h]

/-- a non-error panic value gets the generic 500 and nothing of its text -/
theorem C07_panic_value_generic (c : Case) (t : Atom) (o : Out)
    (hraise : c.raise = .panicked (.str t) ∨ c.raise = .panicked (.int t) ∨
              c.raise = .panicked (.struct t))
    (h : serve c = .response o) (hp : preCommitted c.pre = false) :
    o.calls = [500] ∧
    o.docs = (if c.head then [] else
      [.message (.statusText 500) (if c.debug then some [t] else none)]) := by
  have he : raisedErr c.raise = some (.plain t) := by
    rcases hraise with h | h | h <;> simp [h, raisedErr, recoverErr]
  have := C07_code_message c o (.plain t) h he hp
  simpa [ruleCode, ruleDoc, ruleSource, own, errorAtoms, canon, insertSorted] using this

/-- **C07_requests_independent** — in a sequence of requests through one Echo every request
    gets the response it would get alone, whatever failed before it (errors, recovered panics,
    crashes).  In the model this holds by construction (`serveAll` is a `map`: the model has no
    state that outlives a request); the claim about the real code — where a pooled context IS
    reused — is the correspondence run on sequences. -/
theorem C07_requests_independent (cs : List Case) (i : Nat) (h : i < cs.length) :
    (serveAll cs)[i]? = some (serve cs[i]) := by
  simp [serveAll, h]

theorem C07_sequence_all_answered (cs : List Case)
    (h : ∀ c ∈ cs, crashes c = false) : ∀ o ∈ serveAll cs, ∃ r, o = .response r := by
  intro o ho
  simp only [serveAll, List.mem_map] at ho
  obtain ⟨c, hc, rfl⟩ := ho
  rw [serve_eq, h c hc]
  simp only [Bool.false_eq_true, if_false]
  cases hr : raisedErr c.raise with
  | some e => exact ⟨_, rfl⟩
  | none =>
    have := h c hc
    cases hraise : c.raise with
    | returned e => simp [raisedErr, hraise] at hr
    | panicked v => simp [crashes, hraise, raisedErr] at this hr; simp [hr] at this

/-! ## non-vacuity -/

/-- one level of Internal only: 400 carrying 409 carrying 418 → the client gets 409 -/
example : ruleCode (.httpI 400 (.str 1) (.httpI 409 (.str 2) (.http 418 (.str 3)))) = 409 := by decide
/-- `%w` around an HTTPError is not an HTTPError → 500 generic -/
example : ruleCode (.wrap 9 (.http 403 (.str 1))) = 500 ∧
    ruleDoc false (.wrap 9 (.http 403 (.str 1))) = .message (.statusText 500) none := by decide
/-- a full request: panic(err) under Recover with the double-handling middleware, Debug on -/
example : serve ⟨true, false, true, true, true, .jsonBad 201,
      .panicked (.error (.httpI 400 (.str 7) (.httpI 404 (.str 8) (.plain 9))))⟩
    = .response ⟨[404], [.message (.atom 8) (some [7, 8, 9])], true⟩ := by decide
/-- the same with Debug off: atom 9 (the internal plain error) and 7 are gone -/
example : serve ⟨false, false, true, true, true, .jsonBad 201,
      .panicked (.error (.httpI 400 (.str 7) (.httpI 404 (.str 8) (.plain 9))))⟩
    = .response ⟨[404], [.message (.atom 8) none], true⟩ := by decide
/-- committed before the error: nothing added -/
example : serve ⟨true, false, false, false, true, .wrote 201, .returned (.plain 5)⟩
    = .response ⟨[201], [.pre], true⟩ := by decide
/-- the hypotheses of `C07_no_leak_plain` are met: 9 is a plain text, not public -/
example : (9 : Nat) ∈ plainTexts (.httpI 400 (.str 7) (.httpI 404 (.str 8) (.plain 9))) ∧
    (9 : Nat) ∉ publicAtoms (.httpI 400 (.str 7) (.httpI 404 (.str 8) (.plain 9))) := by decide
/-- an HTTPError without a message carrying a plain internal error: `null`, nothing of atom 9
    (the input class of the seeded mutation `case nil: message = he.Error()`) -/
example : serve ⟨false, false, true, false, false, .nothing, .returned (.httpI 502 .nil (.plain 9))⟩
    = .response ⟨[502], [.null], true⟩ := by decide
example : serve ⟨true, false, true, false, false, .nothing,
      .returned (.httpI 400 (.str 1) (.httpI 409 .nil (.plain 9)))⟩
    = .response ⟨[409], [.null], true⟩ := by decide
/-- three failing requests in a row (panic, returned error, panic): each gets its own response -/
example : serveAll [⟨false, false, true, false, false, .nothing, .panicked (.str 1)⟩,
                    ⟨false, false, true, false, false, .nothing, .returned (.http 404 (.str 2))⟩,
                    ⟨false, false, true, false, false, .nothing, .panicked (.int 3)⟩]
    = [.response ⟨[500], [.message (.statusText 500) none], true⟩,
       .response ⟨[404], [.message (.atom 2) none], true⟩,
       .response ⟨[500], [.message (.statusText 500) none], true⟩] := by decide
/-- crashes: no Recover, or the abort sentinel -/
example : serve ⟨false, false, false, false, false, .nothing, .panicked (.str 1)⟩ = .crashed := by decide
example : serve ⟨false, false, true, false, false, .nothing, .panicked .abort⟩ = .crashed := by decide

end C07
