import EchoModel.C07
/-!
# C07 — theorems about the error-handling model

All statements are for EVERY error tree (any depth, any codes, any message kinds), every
panic value, every method / Debug / Recover configuration, every state the handler left the
response in.

The property's rule is written down independently of the handler's control flow
(`ruleSource`, `ruleDoc`): "the code and message of the HTTP error, or of the HTTP error it
directly carries as internal error; otherwise 500 with a generic message; a JSON document, or
nothing for HEAD".  The theorems say that the model of `DefaultHTTPErrorHandler` / `Recover` /
`ServeHTTP` produces exactly that, exactly once.
-/
namespace C07

/-! ## the rule, stated on its own -/

/-- code and message of an error value that IS an `*HTTPError` -/
def own : Err → Option (Nat × Msg)
  | .http c m => some (c, m)
  | .httpI c m _ => some (c, m)
  | _ => none

/-- the error an `*HTTPError` directly carries in `Internal` -/
def internalOf : Err → Option Err
  | .httpI _ _ i => some i
  | _ => none

/-- whose code and message the client must get: the HTTP error's, or those of the HTTP error
    it *directly* carries; `none` = not an HTTP error → 500 generic -/
def ruleSource (e : Err) : Option (Nat × Msg) :=
  match own e with
  | none => none
  | some cm =>
    match (internalOf e).bind own with
    | some cm' => some cm'
    | none => some cm

def ruleCode (e : Err) : Nat :=
  match ruleSource e with
  | some (c, _) => c
  | none => 500

/-- the JSON document the client must get (non-HEAD) -/
def ruleDoc (debug : Bool) (e : Err) : Doc :=
  let dbg := if debug then some (canon (errorAtoms e)) else none
  match ruleSource e with
  | none => .message (.statusText 500) dbg                 -- generic message
  | some (_, .str t) => .message (.atom t) dbg
  | some (c, .dflt) => .message (.statusText c) dbg
  | some (_, .err t) => .message (.atom t) none
  | some (_, .marsh j) => .doc j
  | some (_, .other j) => .doc j
  | some (_, .nil) => .null                               -- no message: the JSON document `null`

theorem effective_eq_ruleSource (e : Err) : effective e = ruleSource e := by
  cases e with
  | plain t => rfl
  | wrap t i => rfl
  | http c m => rfl
  | httpI c m i => cases i <;> rfl

/-- what one invocation of the handler does to an uncommitted response -/
theorem handle_uncommitted (debug head : Bool) (o : Out) (e : Err) (h : o.committed = false) :
    handle debug head o e =
      { calls := o.calls ++ [ruleCode e],
        docs := if head then o.docs else o.docs ++ [ruleDoc debug e],
        committed := true } := by
  unfold handle ruleCode ruleDoc
  rw [effective_eq_ruleSource]
  simp only [h, Bool.false_eq_true, if_false]
  cases hs : ruleSource e with
  | none => cases head <;> simp [shape]
  | some cm =>
    obtain ⟨c, m⟩ := cm
    cases head <;> cases m <;> simp [shape]

/-- **the handler adds nothing to a committed response** -/
theorem handle_committed (debug head : Bool) (o : Out) (e : Err) (h : o.committed = true) :
    handle debug head o e = o := by
  simp [handle, h]

theorem handle_commits (debug head : Bool) (o : Out) (e : Err) :
    (handle debug head o e).committed = true := by
  by_cases h : o.committed = true
  · rw [handle_committed _ _ _ _ h]; exact h
  · rw [handle_uncommitted _ _ _ _ (by simpa using h)]

/-- **C07_handler_idempotent** — a second invocation (an outer middleware that calls
    `c.Error(err)` and also returns the error; `Recover` returning the error after the handler
    ran) changes nothing, whatever error it is given. -/
theorem C07_handler_idempotent (debug head : Bool) (o : Out) (e e' : Err) :
    handle debug head (handle debug head o e) e' = handle debug head o e :=
  handle_committed _ _ _ _ (handle_commits _ _ _ _)

/-! ## the middleware chain in closed form -/

/-- the innermost `Recover` layer whose Skipper does not skip (layers innermost first) -/
def firstCatcher : List Layer → Option RecCfg
  | [] => none
  | .recover cfg :: ls => if cfg.skip then firstCatcher ls else some cfg
  | .callsError _ :: ls => firstCatcher ls

/-- the error the client must be told about: `none` = the panic leaves `ServeHTTP`;
    `some none` = a `LogErrorFunc` returned nil (the application swallowed the error);
    `some (some e)` = `e` — the returned error itself, the recovered panic value as an error, or
    what the catching Recover's `LogErrorFunc` put in its place -/
def finalErr (inner : List Layer) : Raise → Option (Option Err)
  | .returned e => some (some e)
  | .panicked v =>
    match recoverErr v, firstCatcher inner with
    | some e, some cfg => some (logged cfg.logFn e)
    | _, _ => none

theorem climb_returning_none (debug head : Bool) (ls : List Layer) (o : Out) :
    climb debug head ls (o, .returning none) = (o, .returning none) := by
  induction ls with
  | nil => rfl
  | cons l ls ih => cases l <;> simpa [climb, layerStep] using ih

/-- a returned error: however many middlewares report it through `c.Error` on its way up,
    the response is the one a single invocation of the handler produces -/
theorem finish_climb_returning (debug head : Bool) (ls : List Layer) (o : Out) (e : Err) :
    finish debug head (climb debug head ls (o, .returning (some e)))
      = .response (handle debug head o e) := by
  induction ls generalizing o with
  | nil => rfl
  | cons l ls ih =>
    cases l with
    | recover cfg => simpa [climb, layerStep] using ih o
    | callsError ret =>
      cases ret
      · simp [climb, layerStep, climb_returning_none, finish]
      · simp only [climb, layerStep, if_true]
        rw [ih, C07_handler_idempotent]

theorem finish_climb_panicking (debug head : Bool) (ls : List Layer) (o : Out) (v : PanicVal) :
    finish debug head (climb debug head ls (o, .panicking v)) =
      match finalErr ls (.panicked v) with
      | none => .crashed
      | some none => .response o
      | some (some e) => .response (handle debug head o e) := by
  induction ls with
  | nil => cases hv : recoverErr v <;> simp [climb, finish, finalErr, firstCatcher, hv]
  | cons l ls ih =>
    cases l with
    | callsError ret => simpa [climb, layerStep, finalErr, firstCatcher] using ih
    | recover cfg =>
      cases hs : cfg.skip with
      | true => simpa [climb, layerStep, finalErr, firstCatcher, hs] using ih
      | false =>
        cases hv : recoverErr v with
        | none =>
          simp only [climb, layerStep, hs, hv, Bool.false_eq_true, if_false, finalErr]
          rw [ih]; simp [finalErr, hv]
        | some e =>
          simp only [climb, layerStep, hs, hv, Bool.false_eq_true, if_false, finalErr, firstCatcher]
          cases hl : logged cfg.logFn e with
          | none => simp [climb_returning_none, finish]
          | some e' =>
            cases cfg.disableEH
            · simp [climb_returning_none, finish]
            · simp [finish_climb_returning]

/-- does the panic leave `ServeHTTP`? -/
def crashes (c : Case) : Bool := (finalErr c.layers.reverse c.raise).isNone

/-- `serve` in closed form: whichever way the error travels (returned; panic → some Recover →
    `c.Error`; panic → Recover → returned; past skipped Recover instances; through middlewares
    that report it with `c.Error` themselves) the response is the one single invocation of
    the handler produces, for the one error `finalErr` names. -/
theorem serve_eq (c : Case) :
    serve c =
      match finalErr c.layers.reverse c.raise with
      | none => .crashed
      | some none => .response (applyPre c.pre)
      | some (some e) => .response (handle c.debug c.head (applyPre c.pre) e) := by
  unfold serve
  cases hr : c.raise with
  | returned e => simp [start, finish_climb_returning, finalErr]
  | panicked v => simp only [start]; rw [finish_climb_panicking]

/-- **C07_returned_ignores_middleware** — for a returned error neither the number, the kind,
    the configuration nor the position of the middlewares matters. -/
theorem C07_returned_ignores_middleware (c : Case) (e : Err) (h : c.raise = .returned e) :
    serve c = .response (handle c.debug c.head (applyPre c.pre) e) := by
  rw [serve_eq, h]; rfl

/-- did the handler function commit the response before it failed? -/
def preCommitted : Pre → Bool
  | .nothing => false
  | .jsonBad _ => false
  | .commitAborted _ => false
  | _ => true

theorem applyPre_committed (p : Pre) : (applyPre p).committed = preCommitted p := by
  cases p <;> rfl

/-- `e` is the error the chain ends up reporting for this request -/
def Reported (c : Case) (e : Err) : Prop := finalErr c.layers.reverse c.raise = some (some e)

theorem serve_reported {c : Case} {e : Err} (he : Reported c e) :
    serve c = .response (handle c.debug c.head (applyPre c.pre) e) := by
  rw [serve_eq, he]

theorem out_of_reported {c : Case} {e : Err} {o : Out} (he : Reported c e)
    (h : serve c = .response o) : o = handle c.debug c.head (applyPre c.pre) e := by
  rw [serve_reported he] at h
  exact (Outcome.response.inj h).symm

/-- **C07_one_response** — a request whose handler returns an error or panics (recovered by
    some Recover instance in the chain) yields exactly one response: the underlying writer
    receives exactly one `WriteHeader` call, the response ends committed; if the handler had
    already committed a response, that response is left exactly as it was (nothing is added) —
    for every middleware chain. -/
theorem C07_one_response (c : Case) (o : Out) (e : Err) (he : Reported c e)
    (h : serve c = .response o) :
    o.calls.length = 1 ∧ o.committed = true ∧
    (preCommitted c.pre = true → o = applyPre c.pre) := by
  have ho := out_of_reported he h
  subst ho
  refine ⟨?_, handle_commits _ _ _ _, ?_⟩
  · by_cases hp : preCommitted c.pre = true
    · rw [handle_committed _ _ _ _ (by rw [applyPre_committed]; exact hp)]
      cases hpre : c.pre <;> simp_all [preCommitted, applyPre]
    · rw [handle_uncommitted _ _ _ _ (by rw [applyPre_committed]; simpa using hp)]
      cases hpre : c.pre <;> simp_all [preCommitted, applyPre]
  · intro hp
    exact handle_committed _ _ _ _ (by rw [applyPre_committed]; exact hp)

/-- **C07_code_message** — if the handler had not committed anything, the client gets the
    status and the document the rule demands: the code and message of the HTTP error or of
    the HTTP error it directly carries, else 500 with the generic message; nothing else. -/
theorem C07_code_message (c : Case) (o : Out) (e : Err) (h : serve c = .response o)
    (he : Reported c e) (hp : preCommitted c.pre = false) :
    o.calls = [ruleCode e] ∧ o.docs = (if c.head then [] else [ruleDoc c.debug e]) := by
  have ho := out_of_reported he h
  subst ho
  rw [handle_uncommitted _ _ _ _ (by rw [applyPre_committed]; exact hp)]
  cases hpre : c.pre <;> simp_all [preCommitted, applyPre]

/-- **C07_head_empty** — for HEAD the error handler never writes a body: the documents are
    exactly those the handler function itself had written before. -/
theorem C07_head_empty (c : Case) (o : Out) (h : serve c = .response o) (hh : c.head = true) :
    o.docs = (applyPre c.pre).docs := by
  rw [serve_eq] at h
  split at h
  · exact absurd h (by simp)
  · simp only [Outcome.response.injEq] at h; subst h; rfl
  · simp only [Outcome.response.injEq] at h
    subst h
    by_cases hc : (applyPre c.pre).committed = true
    · rw [handle_committed _ _ _ _ hc]
    · rw [handle_uncommitted _ _ _ _ (by simpa using hc)]; simp [hh]

/-- **C07_swallowed** — the one way to get no error response out of a recovered panic is a
    `LogErrorFunc` that returns nil ("the centralized HTTPErrorHandler will not be called"):
    then the response is left exactly as the handler function left it. -/
theorem C07_swallowed (c : Case) (h : finalErr c.layers.reverse c.raise = some none) :
    serve c = .response (applyPre c.pre) := by
  rw [serve_eq, h]

/-! ## no leak -/

/-- atoms visible in a body document -/
def docAtoms : Doc → List Atom
  | .pre => []
  | .message (.atom t) dbg => t :: dbg.getD []
  | .message (.statusText _) dbg => dbg.getD []
  | .doc j => [j]
  | .null => []

/-- the atoms the rule makes public: those of the message of the effective HTTP error -/
def publicAtoms (e : Err) : List Atom :=
  match ruleSource e with
  | some (_, m) => msgAtoms m
  | none => []

/-- texts of non-HTTP errors anywhere in the value (plain errors, `%w` wrappers) -/
def plainTexts : Err → List Atom
  | .plain t => [t]
  | .wrap t i => t :: plainTexts i
  | .http _ _ => []
  | .httpI _ _ i => plainTexts i

theorem ruleDoc_atoms_nodebug (e : Err) : ∀ a ∈ docAtoms (ruleDoc false e), a ∈ publicAtoms e := by
  intro a ha
  unfold ruleDoc publicAtoms at *
  cases hs : ruleSource e with
  | none => simp [hs, docAtoms] at ha
  | some cm =>
    obtain ⟨c, m⟩ := cm
    cases m <;> simp_all [docAtoms, msgAtoms]

/-- **C07_no_leak (non-interference form)** — with Debug off the response is a function of
    the effective code and message alone: two error values that agree on `ruleSource` —
    however different their internal errors, wrappers and texts are — produce the same
    response. -/
theorem C07_no_leak_noninterference (head : Bool) (o : Out) (e₁ e₂ : Err)
    (h : ruleSource e₁ = ruleSource e₂) :
    handle false head o e₁ = handle false head o e₂ := by
  by_cases hc : o.committed = true
  · rw [handle_committed _ _ _ _ hc, handle_committed _ _ _ _ hc]
  · have hc : o.committed = false := by simpa using hc
    rw [handle_uncommitted _ _ _ _ hc, handle_uncommitted _ _ _ _ hc]
    simp [ruleCode, ruleDoc, h]

/-- **C07_no_leak** — with Debug off, every atom in what the error handler wrote is an atom
    of the message of the effective HTTP error; in particular the text of a non-HTTP error
    (plain, wrapped, internal, at any depth; also a non-error panic value) never appears,
    unless the application itself put the same text into that message. -/
theorem C07_no_leak (c : Case) (o : Out) (e : Err) (h : serve c = .response o)
    (he : Reported c e) (hd : c.debug = false) :
    ∀ d ∈ o.docs, d ∉ (applyPre c.pre).docs → ∀ a ∈ docAtoms d, a ∈ publicAtoms e := by
  have ho := out_of_reported he h
  subst ho
  intro d hdm hnew a ha
  by_cases hc : (applyPre c.pre).committed = true
  · rw [handle_committed _ _ _ _ hc] at hdm; exact absurd hdm hnew
  · rw [handle_uncommitted _ _ _ _ (by simpa using hc)] at hdm
    simp only at hdm
    split at hdm
    · exact absurd hdm hnew
    · simp only [List.mem_append, List.mem_singleton] at hdm
      rcases hdm with hdm | hdm
      · exact absurd hdm hnew
      · subst hdm
        rw [hd] at ha
        exact ruleDoc_atoms_nodebug e a ha

theorem C07_no_leak_plain (c : Case) (o : Out) (e : Err) (h : serve c = .response o)
    (he : Reported c e) (hd : c.debug = false) (t : Atom)
    (_ht : t ∈ plainTexts e) (hfresh : t ∉ publicAtoms e) :
    ∀ d ∈ o.docs, d ∉ (applyPre c.pre).docs → t ∉ docAtoms d := by
  intro d hdm hnew hmem
  exact hfresh (C07_no_leak c o e h he hd d hdm hnew t hmem)

/-- a non-HTTP error (plain, wrapped — even around an HTTPError — or a non-error panic
    value) makes nothing public at all -/
theorem publicAtoms_nonHTTP (e : Err) (h : own e = none) : publicAtoms e = [] := by
  unfold publicAtoms ruleSource; simp [h]

/-- **C07_no_special_error_value** — the handler has no favourite error values: ANY two
    non-HTTP errors (`context.Canceled`, `io.EOF`, a `%w` chain around an HTTPError, a driver
    error, …) get the same response when Debug is off — 500 with the generic message on an
    uncommitted response — and nothing at all is skipped or special-cased. -/
theorem C07_no_special_error_value (head : Bool) (o : Out) (e₁ e₂ : Err)
    (h₁ : own e₁ = none) (h₂ : own e₂ = none) :
    handle false head o e₁ = handle false head o e₂ ∧
    (o.committed = false →
      (handle false head o e₁).calls = o.calls ++ [500] ∧
      (handle false head o e₁).docs
        = if head then o.docs else o.docs ++ [.message (.statusText 500) none]) := by
  have r₁ : ruleSource e₁ = none := by unfold ruleSource; simp [h₁]
  have r₂ : ruleSource e₂ = none := by unfold ruleSource; simp [h₂]
  refine ⟨C07_no_leak_noninterference head o e₁ e₂ (r₁.trans r₂.symm), ?_⟩
  intro hc
  rw [handle_uncommitted _ _ _ _ hc]
  simp [ruleCode, ruleDoc, r₁]

/-! ## panics, and going on serving -/

/-- the Recover instance that catches is configured like `middleware.Recover()` as far as the
    error is concerned: `LogErrorFunc` unset or returning its argument -/
def keepsError : LogFn → Bool
  | .unset | .same => true
  | _ => false

/-- **C07_recovered** — if some Recover instance in the chain does not skip the request (and
    keeps the error), every panic value except `http.ErrAbortHandler` yields a response (the
    panic does not leave `ServeHTTP`), and it is the very response a handler *returning* the
    corresponding error would have produced. -/
theorem C07_recovered (c : Case) (v : PanicVal) (cfg : RecCfg)
    (hcatch : firstCatcher c.layers.reverse = some cfg) (hk : keepsError cfg.logFn = true)
    (hv : v ≠ .abort) (hraise : c.raise = .panicked v) :
    ∃ e, recoverErr v = some e ∧
      serve c = serve { c with raise := .returned e } ∧ ∃ o, serve c = .response o := by
  have hrec : ∃ e, recoverErr v = some e := by
    cases v with
    | abort => exact absurd rfl hv
    | error e => exact ⟨e, rfl⟩
    | str t => exact ⟨.plain t, rfl⟩
    | int t => exact ⟨.plain t, rfl⟩
    | struct t => exact ⟨.plain t, rfl⟩
  obtain ⟨e, hre⟩ := hrec
  have hl : logged cfg.logFn e = some e := by
    cases hf : cfg.logFn <;> simp_all [keepsError, logged]
  have hfin : finalErr c.layers.reverse c.raise = some (some e) := by
    simp [hraise, finalErr, hre, hcatch, hl]
  refine ⟨e, hre, ?_, ?_⟩
  · rw [serve_reported hfin, C07_returned_ignores_middleware { c with raise := .returned e } e rfl]
  · exact ⟨_, serve_reported hfin⟩

/-- **C07_logErrorFunc_replaces** — when the catching Recover's `LogErrorFunc` returns another
    error, the client is told about THAT error (by the same rule), not about the panic value. -/
theorem C07_logErrorFunc_replaces (c : Case) (v : PanicVal) (cfg : RecCfg) (e' : Err)
    (hcatch : firstCatcher c.layers.reverse = some cfg) (hf : cfg.logFn = .replace e')
    (hv : v ≠ .abort) (hraise : c.raise = .panicked v) :
    serve c = .response (handle c.debug c.head (applyPre c.pre) e') := by
  have hrec : ∃ e, recoverErr v = some e := by
    cases v with
    | abort => exact absurd rfl hv
    | error e => exact ⟨e, rfl⟩
    | str t => exact ⟨.plain t, rfl⟩
    | int t => exact ⟨.plain t, rfl⟩
    | struct t => exact ⟨.plain t, rfl⟩
  obtain ⟨e, hre⟩ := hrec
  have hfin : finalErr c.layers.reverse c.raise = some (some e') := by
    simp [hraise, finalErr, hre, hcatch, hf, logged]
  exact serve_reported hfin

/-- **C07_unrecovered_crashes** — a panic leaves `ServeHTTP` exactly when it is the abort
    sentinel or every Recover instance in the chain skips the request (none installed
    included). -/
theorem C07_unrecovered_crashes (c : Case) (v : PanicVal) (hraise : c.raise = .panicked v) :
    serve c = .crashed ↔ (v = .abort ∨ firstCatcher c.layers.reverse = none) := by
  rw [serve_eq, hraise]
  cases hre : recoverErr v with
  | none =>
    have : v = .abort := by cases v <;> simp_all [recoverErr]
    subst this
    simp [finalErr, recoverErr]
  | some e =>
    have hne : v ≠ .abort := by intro h; subst h; simp [recoverErr] at hre
    cases hc : firstCatcher c.layers.reverse with
    | none => simp [finalErr, hre, hc]
    | some cfg =>
      simp only [finalErr, hre, hc]
      cases logged cfg.logFn e <;> simp [hne]

/-- **C07_returned_never_crashes** — a returned error always yields a response. -/
theorem C07_returned_never_crashes (c : Case) (e : Err) (h : c.raise = .returned e) :
    ∃ o, serve c = .response o :=
  ⟨_, C07_returned_ignores_middleware c e h⟩

/-- a non-error panic value gets the generic 500 and nothing of its text -/
theorem C07_panic_value_generic (c : Case) (t : Atom) (o : Out) (cfg : RecCfg)
    (hraise : c.raise = .panicked (.str t) ∨ c.raise = .panicked (.int t) ∨
              c.raise = .panicked (.struct t))
    (hcatch : firstCatcher c.layers.reverse = some cfg) (hk : keepsError cfg.logFn = true)
    (h : serve c = .response o) (hp : preCommitted c.pre = false) :
    o.calls = [500] ∧
    o.docs = (if c.head then [] else
      [.message (.statusText 500) (if c.debug then some [t] else none)]) := by
  have hl : logged cfg.logFn (.plain t) = some (.plain t) := by
    cases hf : cfg.logFn <;> simp_all [keepsError, logged]
  have he : Reported c (.plain t) := by
    unfold Reported
    rcases hraise with h | h | h <;> simp [h, finalErr, recoverErr, hcatch, hl]
  have := C07_code_message c o (.plain t) h he hp
  simpa [ruleCode, ruleDoc, ruleSource, own, errorAtoms, canon, insertSorted] using this

/-! ## hand-overs to `Echo.HTTPErrorHandler` -/

theorem layerStep_travel (debug head : Bool) (l : Layer) (o : Out) (t : Travel) :
    (layerStep debug head l (o, t)).2 = (layerTravel l t).1 := by
  cases l with
  | recover cfg =>
    cases t with
    | returning e => rfl
    | panicking v =>
      simp only [layerStep, layerTravel]
      split
      · rfl
      · split
        · rfl
        · split
          · rfl
          · split <;> rfl
  | callsError ret =>
    cases t with
    | panicking v => rfl
    | returning e => cases e <;> rfl

/-- `climbCount` follows the same travel as `climb` -/
theorem climb_travel (debug head : Bool) (ls : List Layer) (o : Out) (t : Travel) :
    (climb debug head ls (o, t)).2 = (climbCount ls t).1 := by
  induction ls generalizing o t with
  | nil => rfl
  | cons l ls ih =>
    simp only [climb, climbCount]
    have h := layerStep_travel debug head l o t
    generalize layerStep debug head l (o, t) = x at h
    obtain ⟨o', t'⟩ := x
    simp only at h
    rw [ih, h]

theorem climbCount_returning_none (ls : List Layer) :
    climbCount ls (.returning none) = (.returning none, 0) := by
  induction ls with
  | nil => rfl
  | cons l ls ih => cases l <;> simp [climbCount, layerTravel, ih]

/-- an error the chain returns is handed over at least once: by a reporting middleware on the
    way, or by `ServeHTTP` at the end -/
theorem climbCount_returning_some (ls : List Layer) (e : Err) :
    (climbCount ls (.returning (some e))).1 = .returning (some e) ∨
    ((climbCount ls (.returning (some e))).1 = .returning none ∧
      1 ≤ (climbCount ls (.returning (some e))).2) := by
  induction ls with
  | nil => exact Or.inl rfl
  | cons l ls ih =>
    cases l with
    | recover cfg =>
      simp only [climbCount, layerTravel, Nat.zero_add]
      exact ih
    | callsError ret =>
      cases ret
      · simp [climbCount, layerTravel, climbCount_returning_none]
      · simp only [climbCount, layerTravel, if_true]
        rcases ih with h | ⟨h1, h2⟩
        · exact Or.inl h
        · exact Or.inr ⟨h1, Nat.le_add_right 1 _⟩

theorem handOvers_returning (ls : List Layer) (e : Err) :
    1 ≤ countAtEnd (climbCount ls (.returning (some e))) := by
  generalize hx : climbCount ls (.returning (some e)) = x
  obtain ⟨t, n⟩ := x
  rcases climbCount_returning_some ls e with h | ⟨h1, h2⟩
  · rw [hx] at h; simp only at h; subst h; simp [countAtEnd]
  · rw [hx] at h1 h2; simp only at h1 h2; subst h1; simpa [countAtEnd] using h2

/-- **C07_handed_over** — whenever an error is to be reported (returned, or recovered and not
    swallowed by a `LogErrorFunc`), `Echo.HTTPErrorHandler` is invoked at least once; when the
    panic leaves `ServeHTTP` or the error is swallowed, it is not invoked on behalf of a
    Recover instance or of `ServeHTTP` at all. -/
theorem C07_handed_over (c : Case) (e : Err) (he : Reported c e) : 1 ≤ handOvers c := by
  unfold Reported at he
  unfold handOvers
  cases hr : c.raise with
  | returned e' => simpa [start] using handOvers_returning c.layers.reverse e'
  | panicked v =>
    rw [hr] at he
    simp only [start]
    generalize c.layers.reverse = ls at he
    induction ls with
    | nil => cases hv : recoverErr v <;> simp [finalErr, firstCatcher, hv] at he
    | cons l ls ih =>
      cases l with
      | callsError ret =>
        simp only [finalErr, firstCatcher] at he ih
        simpa [climbCount, layerTravel] using ih he
      | recover cfg =>
        cases hs : cfg.skip with
        | true =>
          simp only [finalErr, firstCatcher, hs, if_true] at he ih
          simpa [climbCount, layerTravel, hs] using ih he
        | false =>
          cases hv : recoverErr v with
          | none => simp [finalErr, hv] at he
          | some e0 =>
            simp only [finalErr, firstCatcher, hs, hv, Bool.false_eq_true, if_false,
              Option.some.injEq] at he
            simp only [climbCount, layerTravel, hs, hv, he, Bool.false_eq_true, if_false]
            cases cfg.disableEH
            · simp [climbCount_returning_none, countAtEnd]
            · simpa using handOvers_returning ls e

/-- **C07_serveHTTP_hands_over_once** — in a chain without reporting middlewares (Recover
    instances only, any number, any configuration) the handler is invoked exactly once for a
    reported error: by `ServeHTTP` for a returned one, by the catching Recover (`c.Error`) or —
    with DisableErrorHandler — by `ServeHTTP` for a recovered one. -/
theorem C07_serveHTTP_hands_over_once (c : Case) (e : Err) (he : Reported c e)
    (hrec : ∀ l ∈ c.layers, ∃ cfg, l = .recover cfg) : handOvers c = 1 := by
  have hrec' : ∀ l ∈ c.layers.reverse, ∃ cfg, l = .recover cfg := by
    intro l hl; exact hrec l (List.mem_reverse.mp hl)
  unfold Reported at he
  unfold handOvers
  generalize c.layers.reverse = ls at he hrec'
  have ret : ∀ (ls : List Layer) (e' : Err), (∀ l ∈ ls, ∃ cfg, l = .recover cfg) →
      climbCount ls (.returning (some e')) = (.returning (some e'), 0) := by
    intro ls e' h
    induction ls with
    | nil => rfl
    | cons l ls ih =>
      obtain ⟨cfg, rfl⟩ := h l (List.mem_cons_self)
      simp only [climbCount, layerTravel, Nat.zero_add]
      exact ih (fun l hl => h l (List.mem_cons_of_mem _ hl))
  cases hr : c.raise with
  | returned e' => simp [start, ret ls e' hrec', countAtEnd]
  | panicked v =>
    rw [hr] at he
    simp only [start]
    induction ls with
    | nil => cases hv : recoverErr v <;> simp [finalErr, firstCatcher, hv] at he
    | cons l ls ih =>
      obtain ⟨cfg, rfl⟩ := hrec' l (List.mem_cons_self)
      have hls : ∀ l ∈ ls, ∃ cfg, l = .recover cfg := fun l hl => hrec' l (List.mem_cons_of_mem _ hl)
      cases hs : cfg.skip with
      | true =>
        simp only [finalErr, firstCatcher, hs, if_true] at he ih
        simpa [climbCount, layerTravel, hs] using ih hls he
      | false =>
        cases hv : recoverErr v with
        | none => simp [finalErr, hv] at he
        | some e0 =>
          simp only [finalErr, firstCatcher, hs, hv, Bool.false_eq_true, if_false,
            Option.some.injEq] at he
          simp only [climbCount, layerTravel, hs, hv, he, Bool.false_eq_true, if_false]
          cases cfg.disableEH
          · simp [climbCount_returning_none, countAtEnd]
          · simp [ret ls e hls, countAtEnd]

/-- **C07_panic_inside_commit** — a panic raised inside the commit step of the handler's own
    response write (panicking before-hook, status code the writer refuses) under a Recover that
    keeps the error is answered exactly like the same panic raised before the handler touched
    the response: one response, 500 + generic message for a non-HTTP value. -/
theorem C07_panic_inside_commit (c : Case) (k : Nat) (hpre : c.pre = .commitAborted k) :
    serve c = serve { c with pre := .nothing } := by
  rw [serve_eq, serve_eq, hpre]
  rfl

/-- **C07_flush_unsupported** — the failing code flushed an underlying writer that has neither
    `Flush` nor `FlushError` (echo under `http.TimeoutHandler`, a plain wrapper): `Response.Flush`
    has committed with 200 and then panicked.  Whatever the code was going to do next,
    * under a Recover that does not skip the request and keeps the error the client gets exactly
      that one committed, empty 200 response — the error handler adds nothing, in particular the
      text of the flush panic does not reach the client, Debug or not;
    * and when no Recover instance catches (none, or all skipping) the panic leaves `ServeHTTP`. -/
theorem C07_flush_unsupported (c : Case) (t : Atom) (hpre : c.pre = .flushUnsupported t) :
    (∀ cfg, firstCatcher c.layers.reverse = some cfg → keepsError cfg.logFn = true →
      serve (flushPanics c) = .response { calls := [200], docs := [], committed := true }) ∧
    (firstCatcher c.layers.reverse = none → serve (flushPanics c) = .crashed) := by
  have hfp : flushPanics c = { c with raise := .panicked (.error (.plain t)) } := by
    simp [flushPanics, hpre]
  constructor
  · intro cfg hcatch hk
    obtain ⟨e, hre, hs, _⟩ := C07_recovered (flushPanics c) (.error (.plain t)) cfg
      (by rw [hfp]; exact hcatch) hk (by simp) (by rw [hfp])
    simp only [recoverErr, Option.some.injEq] at hre
    subst hre
    rw [hs, C07_returned_ignores_middleware _ (.plain t) rfl]
    simp [hfp, hpre, applyPre, handle]
  · intro hnone
    rw [serve_eq, hfp]
    simp [finalErr, recoverErr, hnone]

/-- **C07_requests_independent** — in a sequence of requests through one Echo every request
    gets the response it would get alone, whatever failed before it (errors, recovered panics,
    crashes).  In the model this holds by construction (`serveAll` is a `map`: the model has no
    state that outlives a request); the claim about the real code — where a pooled context IS
    reused and package-level error values exist — is the correspondence run on sequences. -/
theorem C07_requests_independent (cs : List Case) (i : Nat) (h : i < cs.length) :
    (serveAll cs)[i]? = some (serve cs[i]) := by
  simp [serveAll, h]

theorem C07_sequence_all_answered (cs : List Case)
    (h : ∀ c ∈ cs, crashes c = false) : ∀ o ∈ serveAll cs, ∃ r, o = .response r := by
  intro o ho
  simp only [serveAll, List.mem_map] at ho
  obtain ⟨c, hc, rfl⟩ := ho
  have hcr := h c hc
  rw [serve_eq]
  cases hf : finalErr c.layers.reverse c.raise with
  | none => simp [crashes, hf] at hcr
  | some x => cases x <;> exact ⟨_, rfl⟩

/-! ## non-vacuity -/

/-- the chain used by most examples: an outer middleware that reports and returns the error,
    `Recover` with DisableErrorHandler inside it -/
def chainA : List Layer := [.callsError true, .recover ⟨false, true, .unset⟩]
/-- plain `middleware.Recover()` -/
def chainR : List Layer := [.recover ⟨false, false, .unset⟩]

/-- one level of Internal only: 400 carrying 409 carrying 418 → the client gets 409 -/
example : ruleCode (.httpI 400 (.str 1) (.httpI 409 (.str 2) (.http 418 (.str 3)))) = 409 := by decide
/-- `%w` around an HTTPError is not an HTTPError → 500 generic -/
example : ruleCode (.wrap 9 (.http 403 (.str 1))) = 500 ∧
    ruleDoc false (.wrap 9 (.http 403 (.str 1))) = .message (.statusText 500) none := by decide
/-- a full request: panic(err) under Recover with the double-handling middleware, Debug on -/
example : serve ⟨true, false, chainA, .jsonBad 201,
      .panicked (.error (.httpI 400 (.str 7) (.httpI 404 (.str 8) (.plain 9))))⟩
    = .response ⟨[404], [.message (.atom 8) (some [7, 8, 9])], true⟩ := by decide
/-- the same with Debug off: atom 9 (the internal plain error) and 7 are gone -/
example : serve ⟨false, false, chainA, .jsonBad 201,
      .panicked (.error (.httpI 400 (.str 7) (.httpI 404 (.str 8) (.plain 9))))⟩
    = .response ⟨[404], [.message (.atom 8) none], true⟩ := by decide
/-- committed before the error: nothing added -/
example : serve ⟨true, false, [.callsError true], .wrote 201, .returned (.plain 5)⟩
    = .response ⟨[201], [.pre], true⟩ := by decide
/-- the hypotheses of `C07_no_leak_plain` are met: 9 is a plain text, not public -/
example : (9 : Nat) ∈ plainTexts (.httpI 400 (.str 7) (.httpI 404 (.str 8) (.plain 9))) ∧
    (9 : Nat) ∉ publicAtoms (.httpI 400 (.str 7) (.httpI 404 (.str 8) (.plain 9))) := by decide
/-- an HTTPError without a message carrying a plain internal error: `null`, nothing of atom 9
    (the input class of the seeded mutation `case nil: message = he.Error()`) -/
example : serve ⟨false, false, chainR, .nothing, .returned (.httpI 502 .nil (.plain 9))⟩
    = .response ⟨[502], [.null], true⟩ := by decide
example : serve ⟨true, false, chainR, .nothing,
      .returned (.httpI 400 (.str 1) (.httpI 409 .nil (.plain 9)))⟩
    = .response ⟨[409], [.null], true⟩ := by decide
/-- three failing requests in a row (panic, returned error, panic): each gets its own response -/
example : serveAll [⟨false, false, chainR, .nothing, .panicked (.str 1)⟩,
                    ⟨false, false, chainR, .nothing, .returned (.http 404 (.str 2))⟩,
                    ⟨false, false, chainR, .nothing, .panicked (.int 3)⟩]
    = [.response ⟨[500], [.message (.statusText 500) none], true⟩,
       .response ⟨[404], [.message (.atom 2) none], true⟩,
       .response ⟨[500], [.message (.statusText 500) none], true⟩] := by decide
/-- the input class of the seeded "shared sentinel" mutation: request 1 returns
    `ErrInternalServerError.SetInternal(<HTTPError 400>)` (answered 400), request 2 a plain
    error: it must get the generic 500 -/
example : serveAll [⟨false, false, [], .nothing, .returned (.httpI 500 .dflt (.http 400 (.str 1)))⟩,
                    ⟨false, false, [], .nothing, .returned (.plain 2)⟩]
    = [.response ⟨[400], [.message (.atom 1) none], true⟩,
       .response ⟨[500], [.message (.statusText 500) none], true⟩] := by decide
/-- crashes: no Recover, a Recover that skips, or the abort sentinel -/
example : serve ⟨false, false, [], .nothing, .panicked (.str 1)⟩ = .crashed := by decide
example : serve ⟨false, false, [.callsError true, .recover ⟨true, false, .unset⟩], .nothing,
    .panicked (.str 1)⟩ = .crashed := by decide
example : serve ⟨false, false, chainR, .nothing, .panicked .abort⟩ = .crashed := by decide
/-- two Recover instances: the inner one skips, the outer one catches -/
example : serve ⟨false, false, [.recover ⟨false, false, .unset⟩, .recover ⟨true, false, .unset⟩],
    .nothing, .panicked (.int 4)⟩ = .response ⟨[500], [.message (.statusText 500) none], true⟩ := by
  decide
/-- `LogErrorFunc` replaces the error: panic("boom") is answered with the 503 it returned … -/
example : serve ⟨false, false, [.recover ⟨false, false, .replace (.http 503 (.str 6))⟩], .nothing,
    .panicked (.str 1)⟩ = .response ⟨[503], [.message (.atom 6) none], true⟩ := by decide
/-- … also when Recover hands it back to an outer middleware that reports it itself … -/
example : serve ⟨false, false, [.callsError false, .recover ⟨false, true, .replace (.http 503 (.str 6))⟩],
    .nothing, .panicked (.str 1)⟩ = .response ⟨[503], [.message (.atom 6) none], true⟩ := by decide
/-- … and swallows it when it returns nil -/
example : serve ⟨false, false, [.recover ⟨false, false, .swallow⟩], .nothing, .panicked (.str 1)⟩
    = .response {} := by decide
/-- hand-overs: returned error through two reporting middlewares (the inner one returns it,
    the outer one too) = 2 × c.Error + ServeHTTP; a recovered panic under Recover() = 1 -/
example : handOvers ⟨false, false, [.callsError true, .callsError true], .nothing, .returned (.plain 1)⟩ = 3 ∧
    handOvers ⟨false, false, chainR, .nothing, .panicked (.str 1)⟩ = 1 ∧
    handOvers ⟨false, false, [.recover ⟨false, false, .swallow⟩], .nothing, .panicked (.str 1)⟩ = 0 := by
  decide
/-- `c.NoContent(0)` on a writer that refuses the code, under Recover(): 500 + generic JSON -/
example : serve ⟨false, false, chainR, .commitAborted 0, .panicked (.str 3)⟩
    = .response ⟨[500], [.message (.statusText 500) none], true⟩ := by decide
/-- the hypotheses of `C07_recovered` / `C07_panic_value_generic` are met -/
example : serve (flushPanics ⟨true, false, chainR, .flushUnsupported 9019, .returned (.http 418 (.str 1))⟩)
    = .response { calls := [200], docs := [], committed := true } ∧
  serve (flushPanics ⟨false, false, [], .flushUnsupported 9019, .returned (.http 418 (.str 1))⟩) = .crashed ∧
  serve (flushPanics ⟨false, false, [.recover ⟨false, false, .replace (.http 503 (.str 6))⟩], .flushUnsupported 9019,
    .panicked (.str 2)⟩) = .response { calls := [200], docs := [], committed := true } := by decide

example : firstCatcher (chainA.reverse) = some ⟨false, true, .unset⟩ ∧
    keepsError (LogFn.unset) = true := by decide
/-- `context.Canceled` (a plain error with a reserved atom) is not special -/
example : handle false false {} (.plain 9001) = handle false false {} (.plain 7) := by decide

end C07
