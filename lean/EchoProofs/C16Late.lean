import EchoProofs.C16Ext
/-!
# C16 — round 8: a root that is not there (yet)

`Echo.Static`, `Group.Static` and `MustSubFS` on echo's default file system make an `os.DirFS(root)`
— a string — whether or not `root` exists at that moment (`subFS`).  The model (`staticDirD`, the
open mode `.dirfs`, `servedTree`) says:

* while the root is not a directory NOTHING is served (no file, no listing, no redirect), whatever
  the rest of the tree holds — in particular files of the same name in the working directory;
* as soon as it is one, the route behaves as over any validating `fs.FS` rooted there, so every
  containment and serving theorem applies;
* whether the root existed at `echo.New()`, at the registration or at an earlier request has no
  influence: the handlers see the tree of the moment the request is served (`servedTree`).

WHEN the tree is read is a choice written into the model (`servedTree := atRequest`), validated by
the correspondence run (the harness creates / removes the directory between the four moments and
sends the whole history); the theorems draw the consequences.
-/
namespace C16

/-- **C16_missing_root_serves_nothing** — `Static` / `StaticFS(MustSubFS(default, root))` with a root
    that is not a directory (missing, or a regular file): every request, whatever its path, is refused
    (404, or 500 for an undecodable path); no content is returned. -/
theorem C16_missing_root_serves_nothing (f : Faults) (t : Tree) (rs : List Str) (star urlPath : Str)
    (h : ∀ d, look t rs ≠ .dir d) :
    (staticDirD f t rs star urlPath).2 = .error500 ∨ (staticDirD f t rs star urlPath).2 = .notFound404 := by
  unfold staticDirD
  split
  · rename_i d hd; exact absurd hd (h d)
  · split
    · exact .inl rfl
    · exact .inr rfl

/-- **C16_present_root** — once the root is a directory the handler is `staticDirF` over it -/
theorem C16_present_root (f : Faults) (t : Tree) (rs : List Str) (star urlPath : Str) (d : List Str)
    (h : look t rs = .dir d) : staticDirD f t rs star urlPath = staticDirF f t rs star urlPath := by
  unfold staticDirD
  simp [h]

/-- **C16_staticDirD_serves_inside** — whatever the state of the root: a file that is served is a node
    below the root, reached through real elements only -/
theorem C16_staticDirD_serves_inside (f : Faults) (t : Tree) (rs : List Str) (star urlPath : Str) (id : Nat)
    (h : (staticDirD f t rs star urlPath).2 = .file id) :
    ∃ L, (∀ s ∈ L, Normal s) ∧ look t (rs ++ L) = .file id := by
  cases hl : look t rs with
  | dir d =>
    rw [C16_present_root f t rs star urlPath d hl] at h
    exact C16_fs_serves_inside t rs star urlPath id (.inl (C16_fsF_serves_inside f t rs star urlPath id h))
  | notExist =>
    rcases C16_missing_root_serves_nothing f t rs star urlPath (by intro d; rw [hl]; exact fun e => nomatch e) with h' | h' <;>
      rw [h'] at h <;> cases h
  | invalid =>
    rcases C16_missing_root_serves_nothing f t rs star urlPath (by intro d; rw [hl]; exact fun e => nomatch e) with h' | h' <;>
      rw [h'] at h <;> cases h
  | file i =>
    rcases C16_missing_root_serves_nothing f t rs star urlPath (by intro d; rw [hl]; exact fun e => nomatch e) with h' | h' <;>
      rw [h'] at h <;> cases h

/-- the File helpers on a narrowed default file system (`e.Filesystem = MustSubFS(e.Filesystem, root)`;
    `e.File`, `c.File`, `c.Attachment` …): nothing is found while the root is not a directory -/
theorem C16_dirfs_missing_root (f : Faults) (t : Tree) (rs : List Str) (file : Str)
    (h : ∀ d, look t rs ≠ .dir d) : (fsFileF f .dirfs t rs file).2 = .notFound404 := by
  have ho : openBy .dirfs t rs file = .notExist := by
    cases hl : look t rs with
    | dir d => exact absurd hl (h d)
    | notExist => simp [openBy, hl]
    | invalid => simp [openBy, hl]
    | file i => simp [openBy, hl]
  unfold fsFileF
  rw [ho]

/-- ... and with the root in place they are the helpers over an `fs.FS` rooted there -/
theorem C16_dirfs_present_root (f : Faults) (t : Tree) (rs : List Str) (file : Str) (d : List Str)
    (h : look t rs = .dir d) : fsFileF f .dirfs t rs file = fsFileF f .io t rs file := by
  have ho : ∀ n, openBy .dirfs t rs n = openBy .io t rs n := by
    intro n; simp [openBy, h]
  unfold fsFileF
  simp only [ho]

/-! ## the tree over time -/

/-- **C16_tree_read_at_request** — two histories of the directory that agree on the moment the request
    is served give the same tree to every handler: whether the root existed at `echo.New()`, when the
    route was registered / the middleware constructed, or at an earlier request is irrelevant -/
theorem C16_tree_read_at_request (base : Tree) (l l' : Late) (he : l.entries = l'.entries)
    (hp : l.present.atRequest = l'.present.atRequest) :
    servedTree (treeAt base l) = servedTree (treeAt base l') := by
  simp [servedTree, treeAt, he, hp]

/-- **C16_root_created_later** — a directory that is there when the request is served is seen with all
    its content, whenever it was created -/
theorem C16_root_created_later (base : Tree) (l : Late) (h : l.present.atRequest = true) :
    servedTree (treeAt base l) = base ++ l.entries := by
  simp [servedTree, treeAt, h]

/-- **C16_root_removed** — a directory that is gone when the request is served is not seen, even if it
    was there at every earlier moment -/
theorem C16_root_removed (base : Tree) (l : Late) (h : l.present.atRequest = false) :
    servedTree (treeAt base l) = base := by
  simp [servedTree, treeAt, h]

/-- **C16_late_root_serves_clean_path** — the positive clause for a root created after the route was
    registered (or after an earlier request was refused): a request naming an existing regular file
    under the root by its clean path is served exactly that file, for EVERY history of the directory
    before the request. -/
theorem C16_late_root_serves_clean_path (base : Tree) (l : Late) (rs F d : List Str) (id : Nat)
    (urlPath : Str) (lead : Bool)
    (hnow : l.present.atRequest = true)
    (hroot : look (base ++ l.entries) rs = .dir d)
    (hF : ∀ s ∈ F, Normal s) (hne : F ≠ []) (hpct : '%' ∉ joinSep '/' F)
    (hutf : utf8Valid ((joinSep '/' F).map Char.toNat) = true)
    (hfile : look (base ++ l.entries) (rs ++ F) = .file id) :
    staticDirD noFaults (servedTree (treeAt base l)) rs ((if lead then ['/'] else []) ++ joinSep '/' F) urlPath =
      ([joinSep '/' F, joinSep '/' F], .file id) := by
  rw [C16_root_created_later base l hnow, C16_present_root _ _ _ _ _ d hroot, C16_staticDirF_noFaults]
  exact C16_serves_clean_path_fs _ rs F id urlPath lead hF hne hpct hutf hfile

/-- **C16_absent_root_serves_nothing** — while the directory is not there (never created, not yet
    created, removed again) nothing is served from anywhere else, whatever the history: the files of
    the working directory with the same names stay unreachable -/
theorem C16_absent_root_serves_nothing (f : Faults) (base : Tree) (l : Late) (rs : List Str) (star urlPath : Str)
    (hnow : l.present.atRequest = false) (hroot : ∀ d, look base rs ≠ .dir d) :
    (staticDirD f (servedTree (treeAt base l)) rs star urlPath).2 = .error500 ∨
    (staticDirD f (servedTree (treeAt base l)) rs star urlPath).2 = .notFound404 := by
  rw [C16_root_removed base l hnow]
  exact C16_missing_root_serves_nothing f base rs star urlPath hroot

/-! ## non-vacuity -/

section Examples

private def S8 (s : String) : Str := s.toList

/-- the working directory holds `secret.txt`; `late/` comes later and has a file of the same name -/
private def base8 : Tree := [(S8 "public", .dir), (S8 "public/a.txt", .file 1), (S8 "secret.txt", .file 2)]
private def late8 (a b c d : Bool) : Late :=
  ⟨⟨a, b, c, d⟩, [(S8 "late", .dir), (S8 "late/secret.txt", .file 7), (S8 "late/l.txt", .file 8)]⟩

-- `e.Static("/assets", "late")` registered while `late` is missing; the directory is created afterwards
example : staticDirD noFaults (servedTree (treeAt base8 (late8 false false true true))) [S8 "late"] (S8 "/secret.txt") (S8 "/assets/secret.txt")
      = ([S8 "secret.txt", S8 "secret.txt"], .file 7) ∧
    -- not yet there: refused — NOT the working directory's secret.txt (file 2)
    staticDirD noFaults (servedTree (treeAt base8 (late8 false false false false))) [S8 "late"] (S8 "/secret.txt") (S8 "/assets/secret.txt")
      = ([S8 "secret.txt"], .notFound404) ∧
    -- there at registration, removed before the request
    staticDirD noFaults (servedTree (treeAt base8 (late8 true true true false))) [S8 "late"] (S8 "/l.txt") (S8 "/assets/l.txt")
      = ([S8 "l.txt"], .notFound404) ∧
    -- a root that is a regular file: not even `.` is found
    staticDirD noFaults base8 [S8 "public", S8 "a.txt"] (S8 "") (S8 "/assets/") = ([S8 "."], .notFound404) ∧
    staticDirD noFaults base8 [S8 "nope"] (S8 "/%zz") (S8 "/assets/%zz") = ([], .error500) ∧
    fsFileF noFaults .dirfs base8 [S8 "nope"] (S8 "secret.txt") = ([S8 "secret.txt"], .notFound404) ∧
    fsFileF noFaults .dirfs (servedTree (treeAt base8 (late8 false false false true))) [S8 "late"] (S8 "l.txt") = ([S8 "l.txt"], .file 8) := by
  decide +kernel

example : ∀ d, look base8 [S8 "late"] ≠ .dir d := by
  have : look base8 [S8 "late"] = .notExist := by decide +kernel
  intro d; rw [this]; exact fun e => nomatch e
example : look (base8 ++ (late8 false false true true).entries) [S8 "late"] = .dir [S8 "late"] ∧
    look (base8 ++ (late8 false false true true).entries) ([S8 "late"] ++ [S8 "l.txt"]) = .file 8 := by decide +kernel

end Examples

end C16
