import EchoProofs.C10Parse6
/-!
# C10 — the extractor theorems with the concrete `net.ParseIP`

`EchoProofs/C10.lean` proves the C10 theorems for an ARBITRARY `parse : Str → Option IP`; its
`C10_valid_literal` needs the contract `ParseContract parse`, which the harness used to check on
the tokens of every run.  Here `parse := parseIP` (the model of `net.ParseIP`, tied to the real
function by the correspondence run):

* `parseIP_contract` — the contract is now a THEOREM (it needs the IPv6 round trip);
* `C10P_*` — the headline theorems restated for `parseIP`;
* `C10P_xff_from_header`, `C10P_realip_from_header`, `C10P_result_denotes` — what the abstract
  version cannot say: an answer taken from a header is a text that `parseIP` accepts, it denotes
  exactly the address the decisive header entry denotes, that address has 16 bytes and its
  canonical text (`IP.String`) parses back to it; when the X-Forwarded-For scan stops at an
  untrusted hop the answer IS that canonical text.
-/
namespace C10

/-- the contract assumed by `C10_valid_literal`, proved for the concrete parser -/
theorem parseIP_contract : ParseContract parseIP where
  string_parses := fun s ip h => by rw [parseIP_ipString_parse s ip h]; rfl
  no_space := parseIP_no_space

variable (cfg : Cfg)

/-! ## the headline theorems, instantiated -/

/-- **C10P_valid_literal** — with the real parser and no side condition: if the peer address is
    a valid IP literal, so is the reported client address (every extractor, configuration, request). -/
theorem C10P_valid_literal (e : Ext) (req : Req) (hd : (parseIP (peerOf req.remoteAddr)).isSome = true) :
    (parseIP (realIPCtx e cfg parseIP req)).isSome = true :=
  C10_valid_literal cfg parseIP parseIP_contract e req hd

/-- **C10P_realip** — X-Real-IP contract -/
theorem C10P_realip (req : Req) (h : extractRealIP cfg parseIP req ≠ peerOf req.remoteAddr) :
    trust cfg (parseD parseIP (peerOf req.remoteAddr)) = true ∧
    (∃ ip, parseIP (stripBrackets (req.realIP.headD [])) = some ip) ∧
    extractRealIP cfg parseIP req = stripBrackets (req.realIP.headD []) :=
  C10_realip cfg parseIP req h

theorem C10P_realip_untrusted_peer (req req' : Req) (hra : req.remoteAddr = req'.remoteAddr)
    (hu : trust cfg (parseD parseIP (peerOf req.remoteAddr)) = false) :
    extractRealIP cfg parseIP req = extractRealIP cfg parseIP req' ∧
    extractRealIP cfg parseIP req = peerOf req.remoteAddr :=
  C10_realip_untrusted_peer cfg parseIP req req' hra hu

/-- **C10P_xff_suffix** — X-Forwarded-For prefix independence -/
theorem C10P_xff_suffix (d : Str) (pre pre' suf : List Str) (e : Str)
    (hsuf : ∀ t ∈ suf, TrustedTok cfg parseIP t) (he : Decisive cfg parseIP e) :
    xffList cfg parseIP d (pre ++ e :: suf) = xffList cfg parseIP d (pre' ++ e :: suf) :=
  C10_xff_suffix cfg parseIP d pre pre' suf e hsuf he

/-- **C10P_xff_suffix_requests** — the same at the level of requests -/
theorem C10P_xff_suffix_requests (req req' : Req) (pre pre' suf : List Str) (e : Str)
    (hra : req.remoteAddr = req'.remoteAddr) (hne : req.xff ≠ []) (hne' : req'.xff ≠ [])
    (h : entries req.xff (peerOf req.remoteAddr) = pre ++ e :: suf)
    (h' : entries req'.xff (peerOf req'.remoteAddr) = pre' ++ e :: suf)
    (hsuf : ∀ t ∈ suf, TrustedTok cfg parseIP t) (he : Decisive cfg parseIP e) :
    extractXFF cfg parseIP req = extractXFF cfg parseIP req' :=
  C10_xff_suffix_requests cfg parseIP req req' pre pre' suf e hra hne hne' h h' hsuf he

theorem C10P_xff_unparsable (d : Str) (pre suf : List Str) (e : Str)
    (hsuf : ∀ t ∈ suf, TrustedTok cfg parseIP t) (he : parseIP (norm e) = none) :
    xffList cfg parseIP d (pre ++ e :: suf) = d :=
  C10_xff_unparsable cfg parseIP d pre suf e hsuf he

theorem C10P_xff_rightmost_untrusted (d : Str) (pre suf : List Str) (e : Str) (ip : IP)
    (hsuf : ∀ t ∈ suf, TrustedTok cfg parseIP t) (he : parseIP (norm e) = some ip)
    (hu : trust cfg ip = false) :
    xffList cfg parseIP d (pre ++ e :: suf) = ipString ip :=
  C10_xff_rightmost_untrusted cfg parseIP d pre suf e ip hsuf he hu

theorem C10P_xff_untrusted_peer (req : Req) (he : Decisive cfg parseIP (peerOf req.remoteAddr)) :
    extractXFF cfg parseIP req = peerOf req.remoteAddr ∨
    ∃ ip, parseIP (norm (peerOf req.remoteAddr)) = some ip ∧ extractXFF cfg parseIP req = ipString ip :=
  C10_xff_untrusted_peer cfg parseIP req he

theorem C10P_xff_all_trusted (d : Str) (ips : List Str) (h : ∀ t ∈ ips, TrustedTok cfg parseIP t) :
    xffList cfg parseIP d ips = trimSpace (norm (ips.headD [])) :=
  C10_xff_all_trusted cfg parseIP d ips h

/-! ## concrete consequences of the rejection lemmas for the extractors -/

/-- an X-Forwarded-For entry carrying a zone, white space inside the (trimmed, unbracketed)
    text, a port, or any other byte outside `[0-9a-fA-F.:]` is an unparsable hop: if every hop
    to its right is trusted the answer is the peer address -/
theorem C10P_xff_bad_entry (d : Str) (pre suf : List Str) (e : Str) (c : Char)
    (hsuf : ∀ t ∈ suf, TrustedTok cfg parseIP t) (hc : c ∈ norm e) (hbad : okChar c = false) :
    xffList cfg parseIP d (pre ++ e :: suf) = d :=
  C10P_xff_unparsable cfg d pre suf e hsuf (parseIP_bad_char (norm e) c hc hbad)

/-- an X-Real-IP value with such a byte is never used -/
theorem C10P_realip_bad_header (req : Req) (c : Char) (hc : c ∈ stripBrackets (req.realIP.headD []))
    (hbad : okChar c = false) : extractRealIP cfg parseIP req = peerOf req.remoteAddr := by
  cases hcmp : decide (extractRealIP cfg parseIP req = peerOf req.remoteAddr) with
  | true => exact of_decide_eq_true hcmp
  | false =>
    obtain ⟨_, ⟨ip, hp⟩, _⟩ := C10P_realip cfg req (of_decide_eq_false hcmp)
    rw [parseIP_bad_char _ c hc hbad] at hp; cases hp

/-! ## the valid-literal rule, end to end -/

/-- where a stopped scan takes its answer from -/
theorem scan_some (d : Str) (ts : List Str) (r : Str) (h : scan cfg parseIP d ts = some r) :
    r = d ∨ ∃ t ∈ ts, ∃ ip, parseIP (norm t) = some ip ∧ trust cfg ip = false ∧ r = ipString ip := by
  induction ts with
  | nil => simp [scan] at h
  | cons t ts ih =>
    simp only [scan] at h
    split at h
    · cases h; exact .inl rfl
    · rename_i ip hp
      split at h
      · rcases ih h with h' | ⟨t', ht', ip', h1, h2, h3⟩
        · exact .inl h'
        · exact .inr ⟨t', by simp [ht'], ip', h1, h2, h3⟩
      · cases h; rename_i hu
        exact .inr ⟨t, by simp, ip, hp, by simpa using hu, rfl⟩

/-- **C10P_xff_from_header** — when the X-Forwarded-For extractor answers something other than
    the peer address, there is an entry `t` of the hop list (header entries, peer last) whose
    normalised text `parseIP` accepts as an address `ip`, and the ANSWER PARSES TO THAT SAME
    ADDRESS.  Either `ip` is the right-most untrusted hop and the answer is its canonical text
    `IP.String`, or every hop is trusted and the answer is the (normalised) left-most entry. -/
theorem C10P_xff_from_header (req : Req) (h : extractXFF cfg parseIP req ≠ peerOf req.remoteAddr) :
    ∃ t ∈ entries req.xff (peerOf req.remoteAddr), ∃ ip,
      parseIP (norm t) = some ip ∧ parseIP (extractXFF cfg parseIP req) = some ip ∧
      ((trust cfg ip = false ∧ extractXFF cfg parseIP req = ipString ip) ∨
       ((∀ t' ∈ entries req.xff (peerOf req.remoteAddr), TrustedTok cfg parseIP t') ∧
         extractXFF cfg parseIP req = norm t)) := by
  simp only [extractXFF, xffOf] at h ⊢
  split at h
  · exact absurd rfl h
  · rename_i hne
    rw [if_neg hne] at *
    unfold xffList at h ⊢
    cases hs : scan cfg parseIP (peerOf req.remoteAddr) (entries req.xff (peerOf req.remoteAddr)).reverse with
    | some r =>
      rw [hs] at h
      simp only at h ⊢
      rcases scan_some cfg _ _ r hs with hr | ⟨t, ht, ip, hp, hu, hr⟩
      · exact absurd hr h
      · refine ⟨t, by simpa using ht, ip, hp, ?_, .inl ⟨hu, hr⟩⟩
        rw [hr]; exact parseIP_ipString_parse _ ip hp
    | none =>
      simp only
      have hall := scan_none cfg parseIP _ _ hs
      have hall' : ∀ t' ∈ entries req.xff (peerOf req.remoteAddr), TrustedTok cfg parseIP t' :=
        fun t' ht' => hall t' (by simpa using ht')
      cases he : entries req.xff (peerOf req.remoteAddr) with
      | nil => simp [entries] at he
      | cons t ts =>
        rw [he] at hall'
        obtain ⟨ip, hp, _⟩ := hall' t (by simp)
        have hns : trimSpace (norm t) = norm t := parseIP_no_space _ (by simp [hp])
        simp only [List.headD_cons, hns]
        exact ⟨t, by simp, ip, hp, hp, .inr ⟨hall', rfl⟩⟩

/-- **C10P_realip_from_header** — when the X-Real-IP extractor answers something other than the
    peer address, the answer is the (bracket-stripped) header text, `parseIP` accepts it, it
    consists of hex digits, dots and colons only, and the canonical text of the address it
    denotes parses back to that address. -/
theorem C10P_realip_from_header (req : Req) (h : extractRealIP cfg parseIP req ≠ peerOf req.remoteAddr) :
    ∃ ip, parseIP (extractRealIP cfg parseIP req) = some ip ∧
      extractRealIP cfg parseIP req = stripBrackets (req.realIP.headD []) ∧
      (∀ c ∈ extractRealIP cfg parseIP req, okChar c = true) ∧
      ip.length = 16 ∧ parseIP (ipString ip) = some ip := by
  obtain ⟨_, ⟨ip, hp⟩, hr⟩ := C10P_realip cfg req h
  rw [hr]
  exact ⟨ip, hp, rfl, parseIP_chars _ ip hp, parseIP_length _ ip hp, parseIP_ipString_parse _ ip hp⟩

/-- **C10P_result_denotes** — every extractor, configuration and request: an answer that is not
    literally the peer address is a text `parseIP` accepts; the address it denotes has 16 bytes
    and is the one its canonical text denotes (valid-literal rule, end to end, no hypothesis). -/
theorem C10P_result_denotes (e : Ext) (req : Req) (h : realIPCtx e cfg parseIP req ≠ peerOf req.remoteAddr) :
    ∃ ip, parseIP (realIPCtx e cfg parseIP req) = some ip ∧ ip.length = 16 ∧
      parseIP (ipString ip) = some ip ∧ (∀ c ∈ realIPCtx e cfg parseIP req, okChar c = true) := by
  cases e with
  | direct => exact absurd rfl h
  | realIP =>
    obtain ⟨ip, hp, _, hc, hl, hs⟩ := C10P_realip_from_header cfg req h
    exact ⟨ip, hp, hl, hs, hc⟩
  | xff =>
    obtain ⟨_, _, ip, _, hp, _⟩ := C10P_xff_from_header cfg req h
    exact ⟨ip, hp, parseIP_length _ ip hp, parseIP_ipString_parse _ ip hp, parseIP_chars _ ip hp⟩

/-! ## non-vacuity: concrete requests through the concrete parser -/

section Examples

-- trusted peer, valid header: the header text is the answer, and it is an accepted literal
example : extractRealIP defaultCfg parseIP ⟨"10.0.0.1:80".toList, ["[2001:db8::1]".toList], []⟩ = "2001:db8::1".toList ∧
    extractRealIP defaultCfg parseIP ⟨"10.0.0.1:80".toList, ["[2001:db8::1]".toList], []⟩ ≠ peerOf "10.0.0.1:80".toList := by
  decide

-- a zone, a leading zero, a port, white space inside: the header is not used
example : extractRealIP defaultCfg parseIP ⟨"10.0.0.1:80".toList, ["fe80::1%eth0".toList], []⟩ = "10.0.0.1".toList ∧
    extractRealIP defaultCfg parseIP ⟨"10.0.0.1:80".toList, ["8.8.8.08".toList], []⟩ = "10.0.0.1".toList ∧
    extractRealIP defaultCfg parseIP ⟨"10.0.0.1:80".toList, ["8.8.8.8:53".toList], []⟩ = "10.0.0.1".toList ∧
    extractRealIP defaultCfg parseIP ⟨"10.0.0.1:80".toList, [" 8.8.8.8".toList], []⟩ = "10.0.0.1".toList := by decide

-- X-Forwarded-For: the right-most untrusted hop, in canonical form (upper case, long zero run, mapped form)
example : extractXFF defaultCfg parseIP ⟨"[::1]:80".toList, [], ["evil, 2001:DB8:0:0:0:0:0:A , 10.0.0.2".toList, "[fd00::1]".toList]⟩
    = "2001:db8::a".toList := by decide
example : extractXFF defaultCfg parseIP ⟨"10.0.0.1:80".toList, [], ["1.1.1.1, ::ffff:8.8.8.8".toList]⟩ = "8.8.8.8".toList := by decide

-- prefix independence, with its hypotheses discharged for the concrete parser
example :
    Decisive defaultCfg parseIP " 8.8.8.8".toList ∧
    (∀ t ∈ ["[10.0.0.2]".toList, "fe80::1".toList], TrustedTok defaultCfg parseIP t) ∧
    xffList defaultCfg parseIP "fe80::1".toList (["evil".toList, "::1".toList] ++ " 8.8.8.8".toList :: ["[10.0.0.2]".toList, "fe80::1".toList])
      = "8.8.8.8".toList := by
  refine ⟨.inr ⟨v4 8 8 8 8, by decide, by decide⟩, ?_, by decide⟩
  intro t ht
  simp only [List.mem_cons, List.not_mem_nil, or_false] at ht
  rcases ht with rfl | rfl
  · exact ⟨v4 10 0 0 2, by decide, by decide⟩
  · exact ⟨[0xfe, 0x80, 0, 0, 0, 0, 0, 0, 0, 0, 0, 0, 0, 0, 0, 1], by decide, by decide⟩

-- an entry with a leading zero / a zone / a fifth field is an unparsable hop: the peer is the answer
example : extractXFF defaultCfg parseIP ⟨"10.0.0.1:80".toList, [], ["8.8.8.8, 010.0.0.2".toList]⟩ = "10.0.0.1".toList ∧
    extractXFF defaultCfg parseIP ⟨"10.0.0.1:80".toList, [], ["8.8.8.8, fe80::1%eth0".toList]⟩ = "10.0.0.1".toList ∧
    extractXFF defaultCfg parseIP ⟨"10.0.0.1:80".toList, [], ["8.8.8.8, 10.0.0.2.1".toList]⟩ = "10.0.0.1".toList := by decide

-- C10P_xff_from_header is not vacuous: an answer that differs from the peer
example : extractXFF defaultCfg parseIP ⟨"10.0.0.1:80".toList, [], ["8.8.8.8".toList]⟩ ≠ peerOf "10.0.0.1:80".toList := by decide

end Examples

end C10
