import EchoModel.C12
/-!
# C12 — nothing but the cookie and the configured lookup locations decides (round 8)

A request says many things about itself besides the CSRF cookie and the token: fetch metadata
(`Sec-Fetch-Site: same-origin`), `Origin`, `Referer`, `X-Requested-With`, credentials of another scheme,
forwarding headers, a method override, query parameters and body fields of the application, other cookies.
For a configuration inside the property's quantifier (header / query / form sources) the decision of the
middleware is a function of

* the method, the random source,
* the cookies carrying the CSRF cookie's name,
* the header values under the header sources' (canonical) names,
* the query values under the query AND form sources' names (`Request.Form` holds the query values too),
* the body values under the form sources' names,

and of nothing else: `C12_ambient_irrelevant` — `serve` gives the same result on the request and on its
projection to these parts; `C12_same_projection` — two requests with the same projection are decided alike.
What the model's `Req` does not contain at all (Host, RemoteAddr, TLS, protocol version) can not influence
`serve` by construction; that the real middleware ignores it too is what the correspondence run checks
(a third of all requests carry such ambient facts).
-/
namespace C12

/-- the sources the property quantifies over -/
def inQuantifier : Extractor → Bool
  | .header _ _ => true
  | .query _ => true
  | .form _ => true
  | _ => false

/-- `k` is the (canonical) name of a header source -/
def keepHeader (c : Cfg) (k : Str) : Bool :=
  c.extractors.any fun e => match e with
    | .header n _ => n == k
    | _ => false

/-- `k` is the name of a query source or of a form source -/
def keepQuery (c : Cfg) (k : Str) : Bool :=
  c.extractors.any fun e => match e with
    | .query n => n == k
    | .form n => n == k
    | _ => false

/-- `k` is the name of a form source -/
def keepForm (c : Cfg) (k : Str) : Bool :=
  c.extractors.any fun e => match e with
    | .form n => n == k
    | _ => false

/-- the part of a request the configuration looks at -/
def project (c : Cfg) (r : Req) : Req :=
  { r with
    cookies := r.cookies.filter (fun p => p.1 = c.cookieName)
    headers := r.headers.filter (fun p => keepHeader c p.1)
    query := r.query.filter (fun p => keepQuery c p.1)
    form := r.form.filter (fun p => keepForm c p.1) }

theorem valuesOf_filter (keep : Str → Bool) (k : Str) (hk : keep k = true) (l : List (Str × Str)) :
    valuesOf k (l.filter (fun p => keep p.1)) = valuesOf k l := by
  unfold valuesOf
  rw [List.filter_filter]
  congr 1
  apply List.filter_congr
  intro p _
  by_cases h : p.1 = k
  · simp [h, hk]
  · simp [h]

theorem findCookie_filter (name : Str) (cs : List (Str × Str)) :
    findCookie name (cs.filter (fun p => p.1 = name)) = findCookie name cs := by
  induction cs with
  | nil => rfl
  | cons ck cs ih =>
    by_cases h : ck.1 = name
    · simp [List.filter, h, findCookie]
    · simp [List.filter, h, findCookie, ih]

theorem extract_project (c : Cfg) (r : Req) (e : Extractor) (he : e ∈ c.extractors) (hq : inQuantifier e = true) :
    extract (project c r) e = extract r e := by
  cases e with
  | header n p =>
    have hk : keepHeader c n = true := by
      unfold keepHeader; rw [List.any_eq_true]; exact ⟨_, he, by simp⟩
    have h1 : valuesOf n (project c r).headers = valuesOf n r.headers := valuesOf_filter (keepHeader c) n hk _
    simp only [extract, h1]
  | query n =>
    have hk : keepQuery c n = true := by
      unfold keepQuery; rw [List.any_eq_true]; exact ⟨_, he, by simp⟩
    have h1 : valuesOf n (project c r).query = valuesOf n r.query := valuesOf_filter (keepQuery c) n hk _
    simp only [extract, h1]
  | form n =>
    have hk : keepQuery c n = true := by
      unfold keepQuery; rw [List.any_eq_true]; exact ⟨_, he, by simp⟩
    have hf : keepForm c n = true := by
      unfold keepForm; rw [List.any_eq_true]; exact ⟨_, he, by simp⟩
    have h1 : valuesOf n (project c r).query = valuesOf n r.query := valuesOf_filter (keepQuery c) n hk _
    have h2 : valuesOf n (project c r).form = valuesOf n r.form := valuesOf_filter (keepForm c) n hf _
    have h3 : (project c r).multipart = r.multipart := rfl
    have h4 : (project c r).method = r.method := rfl
    have h5 : formValues (project c r) n = formValues r n := by
      unfold formValues
      rw [h1, h2, h3, h4]
    simp only [extract, h5]
  | param n => simp [inQuantifier] at hq
  | cookie n => simp [inQuantifier] at hq

theorem validate_project (c : Cfg) (r : Req) (token : Str) (es : List Extractor) :
    (∀ e ∈ es, e ∈ c.extractors ∧ inQuantifier e = true) →
    ∀ st, validate token (project c r) es st = validate token r es st := by
  induction es with
  | nil => intro _ st; rfl
  | cons e es ih =>
    intro h st
    have he := h e (List.mem_cons_self ..)
    have hes : ∀ e' ∈ es, e' ∈ c.extractors ∧ inQuantifier e' = true :=
      fun e' h' => h e' (List.mem_cons_of_mem _ h')
    simp only [validate]
    rw [extract_project c r e he.1 he.2]
    cases extract r e with
    | none => exact ih hes _
    | some toks =>
      simp only
      split
      · rfl
      · exact ih hes _

/-- **ambient facts are irrelevant**: for a configuration whose sources are header / query / form
    sources, the middleware decides the request exactly as it decides its projection to the CSRF cookie
    and the configured lookup locations — whatever other headers, query parameters, body fields and
    cookies the request carries -/
theorem C12_ambient_irrelevant (c : Cfg) (hq : ∀ e ∈ c.extractors, inQuantifier e = true) (r : Req) :
    serve c (project c r) = serve c r := by
  have htok : tokenOf c (project c r) = tokenOf c r := by
    simp only [tokenOf, project]
    rw [findCookie_filter]
  have hm : (project c r).method = r.method := rfl
  unfold serve
  rw [htok, hm]
  cases tokenOf c r with
  | none => rfl
  | some token =>
    simp only
    rw [validate_project c r token c.extractors (fun e he => ⟨he, hq e he⟩)]

/-- two requests that agree on method, random source, CSRF cookie and the configured lookup locations
    are decided alike -/
theorem C12_same_projection (c : Cfg) (hq : ∀ e ∈ c.extractors, inQuantifier e = true) (r r' : Req)
    (h : project c r = project c r') : serve c r = serve c r' := by
  rw [← C12_ambient_irrelevant c hq r, ← C12_ambient_irrelevant c hq r', h]

/-! ## instance: the witness of C12-r8-3 and its neighbours -/

/-- `header:X-CSRF-Token` (canonical key), cookie `_csrf`, length 32 -/
def cfgAmb : Cfg :=
  { tokenLength := 32, extractors := [.header (lit "X-Csrf-Token") [], .query (lit "csrf")], cookieName := lit "_csrf" }

/-- a POST with the CSRF cookie, a wrong token, and everything a same-origin browser request says about itself -/
def reqAmb : Req :=
  { method := lit "POST"
    cookies := [(lit "session", lit "s"), (lit "_csrf", lit "Tok")]
    headers := [(lit "Sec-Fetch-Site", lit "same-origin"), (lit "Origin", lit "http://example.com"),
      (lit "X-Requested-With", lit "XMLHttpRequest"), (lit "X-Csrf-Token", lit "tok"),
      (lit "X-Http-Method-Override", lit "GET")]
    query := [(lit "_method", lit "GET")]
    form := []
    rnd := [] }

example : ∀ e ∈ cfgAmb.extractors, inQuantifier e = true := by decide
example : (project cfgAmb reqAmb).cookies = [(lit "_csrf", lit "Tok")] ∧
    (project cfgAmb reqAmb).headers = [(lit "X-Csrf-Token", lit "tok")] ∧ (project cfgAmb reqAmb).query = [] := by decide
example : serve cfgAmb reqAmb = .rejected 403 := by decide
/-- without the ambient facts: the same refusal -/
example : serve cfgAmb (project cfgAmb reqAmb) = .rejected 403 := by decide

end C12
