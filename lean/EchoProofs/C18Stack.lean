import EchoProofs.C18
/-!
# C18 — several stores, several limiter instances on one request path

Theorems about `chainAllow` / `stepC` / `runC` (`EchoModel/C18.lean`, round 4): a process with any
number of `RateLimiterMemoryStore`s and routes whose handlers sit behind a *chain* of
`RateLimiterWithConfig` instances (group + route, two on one route, two instances on one store).

* `C18_chain_middleware` — the handler runs iff every instance of the chain admitted, in order;
  the first refusal answers 429 and nothing behind it is consulted; stores that are not
  consulted are not touched.
* `C18_chain_projection` — the decisions any one store takes during a run are exactly the
  decisions a store of its own takes on the calls it received: neither the other stores of the
  process nor the instances stacked around it have any say.
* `C18_window_chain` — hence the per-identifier bound `burst + rate·(d + 1 ns)` of `C18_window`
  holds for every store of every chain on its own: a strict limiter on a route bounds the
  route's handler whatever a coarse limiter in front of it does.
-/
namespace C18

variable {α : Type} [DecidableEq α]

/-! ## one request through a chain -/

theorem chainAllow_ran (cs : Nat → Cfg) (chain : List Nat) (id : α) (t : Nat) :
    ∀ sts : Nat → Store α,
      ((chainAllow cs sts chain id t).2.1 = true →
        (chainAllow cs sts chain id t).2.2 = chain.map (fun k => (k, true))) ∧
      ((chainAllow cs sts chain id t).2.1 = false →
        ∃ pre k post, chain = pre ++ k :: post ∧
          (chainAllow cs sts chain id t).2.2 = pre.map (fun k => (k, true)) ++ [(k, false)]) := by
  induction chain with
  | nil => intro sts; simp [chainAllow]
  | cons k ks ih =>
    intro sts
    simp only [chainAllow]
    by_cases h : (allow (cs k) (sts k) id t).2 = true
    · simp only [h, ite_true, List.map_cons, List.cons.injEq, true_and]
      obtain ⟨ih1, ih2⟩ := ih (setStore sts k (allow (cs k) (sts k) id t).1)
      refine ⟨ih1, ?_⟩
      intro hf
      obtain ⟨pre, j, post, hc, hl⟩ := ih2 hf
      exact ⟨k :: pre, j, post, by simp [hc], by simp [hl]⟩
    · simp only [h]
      refine ⟨by simp, ?_⟩
      intro _
      exact ⟨[], k, ks, rfl, rfl⟩

theorem chainAllow_untouched (cs : Nat → Cfg) (chain : List Nat) (id : α) (t : Nat) (j : Nat) :
    ∀ sts : Nat → Store α, j ∉ (chainAllow cs sts chain id t).2.2.map (·.1) →
      (chainAllow cs sts chain id t).1 j = sts j := by
  induction chain with
  | nil => intro sts _; rfl
  | cons k ks ih =>
    intro sts hj
    simp only [chainAllow] at hj ⊢
    by_cases h : (allow (cs k) (sts k) id t).2 = true
    · simp only [h, ite_true, List.map_cons, List.mem_cons, not_or] at hj ⊢
      rw [ih _ hj.2]
      simp [setStore, hj.1]
    · simp only [h] at hj ⊢
      simp only [Bool.false_eq_true, ite_false, List.map_cons, List.map_nil, List.mem_cons,
        List.not_mem_nil, or_false] at hj
      simp [setStore, hj]

/-- **C18_chain_middleware** — one request (not skipped, identifier extracted) behind a chain of
    `RateLimiterWithConfig` instances: the handler runs (200) iff every instance of the chain, in
    registration order, was consulted and admitted; otherwise the answer is 429, the instances up
    to the first refusal were consulted and nothing behind it; a store that was not consulted is
    exactly as before; with a `BeforeFunc` every instance that was reached called it once. -/
theorem C18_chain_middleware (cs : Nat → Cfg) (b : Bool) (sts : Nat → Store α) (e : EvC α)
    (h : e.kind = .http) :
    ((stepC cs b sts e).2.ran = true ↔
      (chainAllow cs sts e.chain e.id e.t).2.2 = e.chain.map (fun k => (k, true))) ∧
    ((stepC cs b sts e).2.ran = true → (stepC cs b sts e).2.status = 200) ∧
    ((stepC cs b sts e).2.ran = false → (stepC cs b sts e).2.status = 429 ∧
      ∃ pre k post, e.chain = pre ++ k :: post ∧
        (chainAllow cs sts e.chain e.id e.t).2.2 = pre.map (fun k => (k, true)) ++ [(k, false)]) ∧
    (∀ j, j ∉ (chainAllow cs sts e.chain e.id e.t).2.2.map (·.1) → (stepC cs b sts e).1 j = sts j) ∧
    (stepC cs b sts e).2.before = (if b then (chainAllow cs sts e.chain e.id e.t).2.2.length else 0) := by
  obtain ⟨h1, h2⟩ := chainAllow_ran cs e.chain e.id e.t sts
  simp only [stepC, h]
  refine ⟨⟨h1, ?_⟩, ?_, ?_, ?_, ?_⟩
  · intro hl
    cases hr : (chainAllow cs sts e.chain e.id e.t).2.1 with
    | true => rfl
    | false =>
      obtain ⟨pre, k, post, hc, hl'⟩ := h2 hr
      rw [hl', hc] at hl
      have := congrArg List.length hl
      simp at this
      have hl2 := congrArg (fun l => l.drop pre.length) hl
      simp at hl2
  · intro hr; simp [hr]
  · intro hr
    exact ⟨by simp [hr], h2 hr⟩
  · intro j hj
    exact chainAllow_untouched cs e.chain e.id e.t j sts hj
  · trivial

/-! ## projection on one store -/

/-- which stores an event consults, in order, with their decisions -/
def logC (cs : Nat → Cfg) (sts : Nat → Store α) (e : EvC α) : List (Nat × Bool) :=
  match e.kind with
  | .http => (chainAllow cs sts e.chain e.id e.t).2.2
  | .direct =>
    match e.chain with
    | k :: _ => [(k, (allow (cs k) (sts k) e.id e.t).2)]
    | [] => []
  | _ => []

/-- the calls of one event that went to store `k`, as `((instant, identifier), decision)` -/
def callsK (k : Nat) (e : EvC α) (log : List (Nat × Bool)) : List ((Nat × α) × Bool) :=
  (log.filter (fun p => p.1 = k)).map (fun p => ((e.t, e.id), p.2))

/-- everything store `k` was asked during a run, with what it answered -/
def traceC (cs : Nat → Cfg) (b : Bool) (k : Nat) : (Nat → Store α) → List (EvC α) → List ((Nat × α) × Bool)
  | _, [] => []
  | sts, e :: es => callsK k e (logC cs sts e) ++ traceC cs b k (stepC cs b sts e).1 es

/-- no call of the run has an out-of-order `AllowN` reading -/
def NoSkewC : List (EvC α) → Prop
  | [] => True
  | e :: es => (∀ tb, e.kind ≠ .directAt tb) ∧ NoSkewC es

theorem decisions_append (c : Cfg) (a b : List (Nat × α)) : ∀ st : Store α,
    decisions c st (a ++ b) = decisions c st a ++ decisions c (after c st a) b := by
  induction a with
  | nil => intro st; rfl
  | cons e a ih => intro st; simp [decisions, after, ih]

theorem after_append (c : Cfg) (a b : List (Nat × α)) : ∀ st : Store α,
    after c st (a ++ b) = after c (after c st a) b := by
  induction a with
  | nil => intro st; rfl
  | cons e a ih => intro st; simp [after, ih]

theorem admittedIn_append (c : Cfg) (id : α) (t1 t2 : Nat) (a b : List (Nat × α)) : ∀ st : Store α,
    admittedIn c id t1 t2 st (a ++ b) =
      admittedIn c id t1 t2 st a + admittedIn c id t1 t2 (after c st a) b := by
  induction a with
  | nil => intro st; simp [admittedIn, after]
  | cons e a ih => intro st; simp [admittedIn, after, ih, Nat.add_assoc]

/-- the calls a chain makes to store `k` are answered as by a store run on them alone, and
    leave store `k` in the state that run ends in -/
theorem chainAllow_proj (cs : Nat → Cfg) (k : Nat) (chain : List Nat) (id : α) (t : Nat) :
    ∀ sts : Nat → Store α,
      let tr := ((chainAllow cs sts chain id t).2.2.filter (fun p => p.1 = k)).map
        (fun p => (((t, id) : Nat × α), p.2))
      decisions (cs k) (sts k) (tr.map (·.1)) = tr.map (·.2) ∧
      after (cs k) (sts k) (tr.map (·.1)) = (chainAllow cs sts chain id t).1 k := by
  induction chain with
  | nil => intro sts; simp [chainAllow, decisions, after]
  | cons j js ih =>
    intro sts
    simp only [chainAllow]
    by_cases h : (allow (cs j) (sts j) id t).2 = true
    · simp only [h, ite_true]
      have ih' := ih (setStore sts j (allow (cs j) (sts j) id t).1)
      simp only at ih'
      by_cases hk : j = k
      · subst hk
        simp only [List.filter_cons, decide_true, ite_true, List.map_cons, decisions, after, h,
          List.cons.injEq, true_and]
        have hs : setStore sts j (allow (cs j) (sts j) id t).1 j = (allow (cs j) (sts j) id t).1 := by
          simp [setStore]
        rw [hs] at ih'
        exact ih'
      · have hs : setStore sts j (allow (cs j) (sts j) id t).1 k = sts k := by
          simp [setStore, Ne.symm hk]
        rw [hs] at ih'
        simp only [List.filter_cons, hk, decide_false]
        exact ih'
    · simp only [h]
      by_cases hk : j = k
      · subst hk
        have hf : (allow (cs j) (sts j) id t).2 = false := by simpa using h
        simp [decisions, after, setStore, hf]
      · simp [decisions, after, setStore, hk, Ne.symm hk]

/-- one event, projected on store `k` -/
theorem stepC_proj (cs : Nat → Cfg) (b : Bool) (k : Nat) (sts : Nat → Store α) (e : EvC α)
    (hns : ∀ tb, e.kind ≠ .directAt tb) :
    decisions (cs k) (sts k) ((callsK k e (logC cs sts e)).map (·.1)) = (callsK k e (logC cs sts e)).map (·.2) ∧
    after (cs k) (sts k) ((callsK k e (logC cs sts e)).map (·.1)) = (stepC cs b sts e).1 k := by
  obtain ⟨t, kind, id, chain⟩ := e
  cases kind with
  | http =>
    simp only [callsK, logC, stepC]
    exact chainAllow_proj cs k chain id t sts
  | httpErr =>
    simp only [callsK, logC, stepC]
    cases chain <;> simp [decisions, after]
  | httpSkip => simp [callsK, logC, stepC, decisions, after]
  | directAt tb => exact absurd rfl (hns tb)
  | direct =>
    cases chain with
    | nil => simp [callsK, logC, stepC, decisions, after]
    | cons j js =>
      simp only [callsK, logC, stepC]
      by_cases hk : j = k
      · subst hk
        simp [decisions, after, setStore]
      · simp [decisions, after, setStore, hk, Ne.symm hk]

/-- **C18_chain_projection** — in a process with any number of stores and any stacking of
    limiter instances, the decisions store `k` takes during a run are exactly the decisions
    `RateLimiterMemoryStore.Allow` takes when the calls store `k` received are made to a store
    of its own, and its state afterwards is that store's state.  So everything proved for one
    store (`C18_window`, `C18_independent`, `C18_refusal_store`, `C18_expiry_one_burst`) holds
    for every store of the process on its own call history. -/
theorem C18_chain_projection (cs : Nat → Cfg) (b : Bool) (k : Nat) (es : List (EvC α)) :
    ∀ sts : Nat → Store α, NoSkewC es →
      decisions (cs k) (sts k) ((traceC cs b k sts es).map (·.1)) = (traceC cs b k sts es).map (·.2) := by
  induction es with
  | nil => intro sts _; rfl
  | cons e es ih =>
    intro sts hns
    obtain ⟨h1, h2⟩ := stepC_proj cs b k sts e hns.1
    simp only [traceC, List.map_append, decisions_append, h1, h2]
    rw [ih _ hns.2]

/-! ## the bound for a handler behind a chain -/

/-- number of requests of `id` with instant in `[t1,t2]` that reached a handler whose chain
    contains a limiter on store `k` -/
def ranVia (cs : Nat → Cfg) (b : Bool) (k : Nat) (id : α) (t1 t2 : Nat) :
    (Nat → Store α) → List (EvC α) → Nat
  | _, [] => 0
  | sts, e :: es =>
    (if e.kind = .http ∧ k ∈ e.chain ∧ e.id = id ∧ (stepC cs b sts e).2.ran = true ∧ t1 ≤ e.t ∧ e.t ≤ t2
      then 1 else 0) + ranVia cs b k id t1 t2 (stepC cs b sts e).1 es

theorem zip_fst_snd {β γ : Type} (tr : List (β × γ)) : (tr.map (·.1)).zip (tr.map (·.2)) = tr := by
  induction tr with
  | nil => rfl
  | cons p tr ih => simp [List.zip_cons_cons, ih]

theorem admittedIn_replicate_pos (c : Cfg) (id : α) (t t1 t2 : Nat) (h1 : t1 ≤ t) (h2 : t ≤ t2)
    (tr : List ((Nat × α) × Bool)) (st : Store α)
    (hdec : decisions c st (tr.map (·.1)) = tr.map (·.2))
    (hmem : ((t, id), true) ∈ tr) :
    1 ≤ admittedIn c id t1 t2 st (tr.map (·.1)) := by
  rw [admittedIn_eq_count, hdec]
  rw [zip_fst_snd]
  apply List.length_pos_of_mem (a := ((t, id), true))
  simp only [List.mem_filter, decide_eq_true_eq]
  exact ⟨hmem, by simp [h1, h2]⟩

theorem ranVia_le (cs : Nat → Cfg) (b : Bool) (k : Nat) (id : α) (t1 t2 : Nat) (es : List (EvC α)) :
    ∀ sts : Nat → Store α, NoSkewC es →
      ranVia cs b k id t1 t2 sts es ≤
        admittedIn (cs k) id t1 t2 (sts k) ((traceC cs b k sts es).map (·.1)) := by
  induction es with
  | nil => intro sts _; simp [ranVia, traceC, admittedIn]
  | cons e es ih =>
    intro sts hns
    obtain ⟨h1, h2⟩ := stepC_proj cs b k sts e hns.1
    simp only [ranVia, traceC, List.map_append, admittedIn_append, h2]
    have ih' := ih (stepC cs b sts e).1 hns.2
    by_cases hc : e.kind = .http ∧ k ∈ e.chain ∧ e.id = id ∧ (stepC cs b sts e).2.ran = true ∧ t1 ≤ e.t ∧ e.t ≤ t2
    · rw [if_pos hc]
      obtain ⟨hk, hmem, hid, hran, ht1, ht2⟩ := hc
      have hlog := (C18_chain_middleware cs b sts e hk).1.mp hran
      have hin : ((e.t, id), true) ∈ callsK k e (logC cs sts e) := by
        simp only [callsK, logC, hk, hlog, List.mem_map, List.mem_filter, decide_eq_true_eq]
        exact ⟨(k, true), ⟨⟨k, hmem, rfl⟩, rfl⟩, by simp [hid]⟩
      have := admittedIn_replicate_pos (cs k) id e.t t1 t2 ht1 ht2 _ (sts k) h1 hin
      omega
    · rw [if_neg hc]; omega

/-- instants of the events never go back -/
def MonoEvC : Nat → List (EvC α) → Prop
  | _, [] => True
  | now, e :: es => now ≤ e.t ∧ MonoEvC e.t es

theorem mono_callsK (k : Nat) (e : EvC α) (log : List (Nat × Bool)) (rest : List (Nat × α)) (now : Nat)
    (h1 : now ≤ e.t) (h2 : Mono e.t rest) : Mono now ((callsK k e log).map (·.1) ++ rest) := by
  unfold callsK
  induction log generalizing now with
  | nil => simp only [List.filter_nil, List.map_nil, List.nil_append]
           cases rest with
           | nil => trivial
           | cons x xs => exact ⟨Nat.le_trans h1 h2.1, h2.2⟩
  | cons p log ih =>
    simp only [List.filter_cons]
    split
    · simp only [List.map_cons, List.cons_append]
      exact ⟨h1, ih e.t (Nat.le_refl _)⟩
    · exact ih now h1

theorem mono_traceC (cs : Nat → Cfg) (b : Bool) (k : Nat) (es : List (EvC α)) :
    ∀ (sts : Nat → Store α) (now : Nat), MonoEvC now es → Mono now ((traceC cs b k sts es).map (·.1)) := by
  induction es with
  | nil => intro _ _ _; trivial
  | cons e es ih =>
    intro sts now hm
    simp only [traceC, List.map_append]
    exact mono_callsK k e _ _ now hm.1 (ih _ e.t hm.2)

/-- **C18_window_chain** — any number of stores (all constructed at `t0`), any mix of direct
    calls and requests over routes with any chains of limiter instances, on a clock that never
    goes back: for every store `k` with `ExpiresIn·rate ≥ burst`, every identifier and every
    interval `[t1,t2]`, the handlers whose chain contains a limiter on store `k` ran at most
    `burst_k + rate_k·(t2 − t1 + 1 ns)` times for that identifier — whatever the other limiters
    of the chain and the other stores of the process did. -/
theorem C18_window_chain (cs : Nat → Cfg) (b : Bool) (k : Nat)
    (hexp : (cs k).full ≤ (((cs k).expiresIn * (cs k).rateNum : Nat) : Int))
    (t0 : Nat) (es : List (EvC α)) (hm : MonoEvC 0 es) (hns : NoSkewC es) (id : α) (t1 t2 : Nat) :
    ranVia cs b k id t1 t2 (fun _ => Store.init t0) es * (cs k).scale
      ≤ (cs k).burst * (cs k).scale + (cs k).rateNum * (t2 - t1 + 1) := by
  have h1 := ranVia_le cs b k id t1 t2 es (fun _ => Store.init t0) hns
  have h2 := C18_window (cs k) hexp t0 _ (mono_traceC cs b k es (fun _ => Store.init t0) 0 hm) id t1 t2
  exact Nat.le_trans (Nat.mul_le_mul_right _ h1) h2

/-! ## a denied request costs nothing (round 6)

`rate.Limiter.AllowN` changes the limiter only when it admits (`reserveN` with `maxFutureReserve = 0`
does not book anything for a refused request), and the middleware does nothing else on a denial
than answering 429: however often an identifier is refused, its allowance refills as if those
requests had never been made. -/

theorem allowN_refused (c : Cfg) (b : Bucket) (t : Nat) (h : (allowN c b t).2 = false) :
    (allowN c b t).1 = b := by
  rcases allowN_spec c b t with ⟨hok, _⟩ | ⟨_, hb, _⟩
  · rw [hok] at h; cases h
  · exact hb

/-- **C18_denied_free** — a request that the middleware refuses (429, handler not run) leaves the
    level of EVERY identifier's bucket, the refused one included, at every later instant exactly
    where it was: refusals cannot prolong a refusal. -/
theorem C18_denied_free (c : Cfg) (hexp : c.full ≤ ((c.expiresIn * c.rateNum : Nat) : Int))
    (st : Store α) (now : Nat) (hinv : Inv c st now) (id : α) (t : Nat)
    (hden : (step c st ⟨t, .http, id⟩).2.ran = false) (i : α) (τ : Nat) (hτ : t ≤ τ) :
    (step c st ⟨t, .http, id⟩).2.status = 429 ∧
    level c ((step c st ⟨t, .http, id⟩).1.visitors i) τ = level c (st.visitors i) τ := by
  obtain ⟨hran, hst, h429, _⟩ := (C18_middleware c st t id).1
  rw [hran] at hden
  refine ⟨h429 hden, ?_⟩
  rw [hst, allow_level c hexp st now hinv id t i τ hτ]
  simp [hden]

/-- the instants of a bucket history that were admitted -/
def admittedOnly (c : Cfg) : Bucket → List Nat → List Nat
  | _, [] => []
  | b, t :: ts =>
    if (allowN c b t).2 then t :: admittedOnly c (allowN c b t).1 ts else admittedOnly c (allowN c b t).1 ts

/-- **C18_denied_free_history** — for one identifier's bucket and ANY arrival pattern: the
    requests that were admitted are admitted just the same when the refused requests between them
    are left out, and the bucket ends in the same state.  (With `C18_independent_bucket` /
    `C18_chain_projection` this is a statement about every identifier of every store.) -/
theorem C18_denied_free_history (c : Cfg) (ts : List Nat) : ∀ b : Bucket,
    bucketRun c b (admittedOnly c b ts) = (admittedOnly c b ts).map (fun _ => true) ∧
    (admittedOnly c b ts).length = ((bucketRun c b ts).filter (· = true)).length := by
  induction ts with
  | nil => intro b; simp [admittedOnly, bucketRun]
  | cons t ts ih =>
    intro b
    by_cases h : (allowN c b t).2 = true
    · simp only [admittedOnly, h, ite_true, bucketRun, List.map_cons, List.filter_cons, decide_true,
        List.length_cons]
      obtain ⟨h1, h2⟩ := ih (allowN c b t).1
      exact ⟨by rw [h1], by rw [h2]⟩
    · have hf : (allowN c b t).2 = false := by simpa using h
      simp only [admittedOnly, hf, Bool.false_eq_true, ite_false, bucketRun, List.filter_cons,
        decide_false]
      rw [allowN_refused c b t hf]
      exact ih b

/-- rate 1/s, burst 2: two admitted and three refused at t = 0, back at 1.5 s: admitted -/
example : bucketRun (mkCfg ⟨1, 1, 2, 0⟩) (fresh (mkCfg ⟨1, 1, 2, 0⟩)) [0, 0, 0, 0, 0, 1500000000] =
    [true, true, false, false, false, true] := by decide
example : (runC (fun _ => mkCfg ⟨1, 1, 2, 0⟩) false (fun _ => Store.init 0)
    [⟨0, .http, 7, [0]⟩, ⟨0, .http, 7, [0]⟩, ⟨0, .http, 7, [0]⟩, ⟨0, .http, 7, [0]⟩, ⟨0, .http, 7, [0]⟩,
     ⟨1500000000, .http, 7, [0]⟩]).map (·.status) = [200, 200, 429, 429, 429, 200] := by decide

/-! ## non-vacuity: a coarse limiter on the group, a strict one on the route -/

def cfgCoarse : Cfg := mkCfg ⟨100, 1, 100, 0⟩
def cfgStrict : Cfg := mkCfg ⟨1, 1, 2, 0⟩
def twoStores : Nat → Cfg := fun k => if k = 0 then cfgCoarse else cfgStrict

/-- five requests of one identifier at one instant over the route behind [coarse, strict]: two
    reach the handler; then over a route with two instances on the coarse store -/
def histStacked : List (EvC Nat) :=
  [⟨0, .http, 7, [0, 1]⟩, ⟨0, .http, 7, [0, 1]⟩, ⟨0, .http, 7, [0, 1]⟩, ⟨0, .http, 7, [0, 1]⟩,
   ⟨0, .http, 7, [0, 1]⟩, ⟨0, .http, 7, [0, 0]⟩, ⟨0, .httpErr, 7, [0, 1]⟩, ⟨0, .httpSkip, 7, [0, 1]⟩]

example : runC twoStores true (fun _ => Store.init 0) histStacked =
    [⟨true, 200, 2⟩, ⟨true, 200, 2⟩, ⟨false, 429, 2⟩, ⟨false, 429, 2⟩, ⟨false, 429, 2⟩,
     ⟨true, 200, 2⟩, ⟨false, 403, 1⟩, ⟨true, 200, 0⟩] := by decide

example : (traceC twoStores true 1 (fun _ => Store.init 0) histStacked).map (·.2) =
    [true, true, false, false, false] := by decide

example : ranVia twoStores true 1 7 0 0 (fun _ => Store.init 0) histStacked = 2 ∧
    MonoEvC 0 histStacked ∧ NoSkewC histStacked ∧
    (twoStores 1).full ≤ (((twoStores 1).expiresIn * (twoStores 1).rateNum : Nat) : Int) := by
  refine ⟨by decide, ?_, ?_, by decide⟩
  · simp [MonoEvC, histStacked]
  · simp [NoSkewC, histStacked]

end C18
