import EchoModel.C10
/-!
# C10 — one Echo instance over time: replaced extractors, order of requests

`runSteps` is the model of an application that serves requests and re-assigns
`Echo.IPExtractor` in between.  The theorems say that a served request is answered by the
extractor installed LAST and by nothing else: not by an extractor installed earlier (pooled or
long-lived contexts must not remember one), not by other requests served before, after or —
since the answer is a function of the request alone — at the same time.
-/
namespace C10

variable (parse : Str → Option IP)

theorem runSteps_serves (st : Ext × Cfg) (reqs : List Req) :
    runSteps parse st (reqs.map Step.serve) = reqs.map (realIPCtx st.1 st.2 parse) := by
  induction reqs with
  | nil => rfl
  | cons r rest ih => simp [runSteps, ih]

theorem runSteps_append (st : Ext × Cfg) (pre : List Step) (e : Ext) (cfg : Cfg) (rest : List Step) :
    runSteps parse st (pre ++ Step.setExtractor e cfg :: rest) =
      runSteps parse st pre ++ runSteps parse (e, cfg) rest := by
  induction pre generalizing st with
  | nil => simp [runSteps]
  | cons s r ih =>
    cases s with
    | setExtractor e' cfg' => simp [runSteps, ih]
    | serve q => simp [runSteps, ih]

/-- **C10_replace_extractor** — for every history `pre` (any requests, any earlier extractors) and
    every request list: after `e.IPExtractor = (e, cfg)` each request is answered by exactly that
    extractor; nothing of the history survives. -/
theorem C10_replace_extractor (st : Ext × Cfg) (pre : List Step) (e : Ext) (cfg : Cfg) (reqs : List Req) :
    runSteps parse st (pre ++ Step.setExtractor e cfg :: reqs.map Step.serve) =
      runSteps parse st pre ++ reqs.map (realIPCtx e cfg parse) := by
  rw [runSteps_append, runSteps_serves]

/-- **C10_requests_independent** — the answers to a batch of requests in another order are the same
    answers in that order: no request influences another one (the sequential content of "concurrent
    calls of one extractor give each request its own answer"). -/
theorem C10_requests_independent (st : Ext × Cfg) (l l' : List Req) (h : l.Perm l') :
    (runSteps parse st (l.map Step.serve)).Perm (runSteps parse st (l'.map Step.serve)) := by
  rw [runSteps_serves, runSteps_serves]
  exact h.map _

/-- replacing the X-Forwarded-For extractor by the direct one: from then on no header matters -/
theorem C10_replace_by_direct (st : Ext × Cfg) (pre : List Step) (cfg : Cfg) (reqs : List Req) :
    runSteps parse st (pre ++ Step.setExtractor .direct cfg :: reqs.map Step.serve) =
      runSteps parse st pre ++ reqs.map (fun r => peerOf r.remoteAddr) := by
  rw [C10_replace_extractor]
  rfl

/-! ## non-vacuity -/

private def exP (s : Str) : Option IP :=
  if s = "10.0.0.1".toList then some [10, 0, 0, 1]
  else if s = "8.8.8.8".toList then some [8, 8, 8, 8]
  else none

private def rq : Req := ⟨"10.0.0.1:80".toList, [], ["8.8.8.8".toList]⟩

-- XFF (defaults) answers with the forwarded address; after the application switched private-network
-- trust off, or installed the direct extractor, the same request is answered with the peer
example : runSteps exP (.xff, defaultCfg)
    [.serve rq, .setExtractor .xff ⟨true, true, false, []⟩, .serve rq, .setExtractor .direct defaultCfg, .serve rq] =
    ["8.8.8.8".toList, "10.0.0.1".toList, "10.0.0.1".toList] := by decide

end C10
