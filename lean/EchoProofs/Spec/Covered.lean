import EchoProofs.C02
import EchoProofs.C03
/-!
# Catch-all not-found routes cover their prefix (layer L1)

A `RouteNotFound` route with pattern `s*` (literal text, then the wildcard) makes the reference search
dispatch EVERY request whose path starts with `s`, whatever the method: the literal descent follows `s`
(the derivative always contains the entry), and at the end of `s` the wildcard step finds either a real
handler for the method or the not-found record (`search_nf_any`).  A `RouteNotFound` route with the
literal pattern `s` makes the request for exactly `s` end in a dispatch as well: the end position is
reached with no best position recorded, so either a handler hits, or the position is remembered and
`finish` dispatches to its not-found record (`search_nf_exact`).  `route_covered` is the corollary for
`route`: such requests never get the router's own 404 / 405 / OPTIONS answer.
-/
namespace Router.Spec
open Router (Str routeNotFound)
open C02 (IsHit orElse_isHit_left orElse_isHit_right)

theorem findNF_isSome_of_mem {es : List Entry} {e : Entry} (he : e ∈ es) (hm : e.method = routeNotFound) :
    (findNF es).isSome = true := by
  unfold findNF
  rw [List.find?_isSome]
  exact ⟨e, he, by simpa using hm⟩

/-- the wildcard step at a position where a not-found route ends with `*`: always a hit -/
theorem anyStep_nf_hit (m : Str) (r : R) (path : Str) (vals : List Str) (best : Best) (e : Entry)
    (hmem : ([Tok.any], e) ∈ r) (hm : e.method = routeNotFound) : IsHit (anyStep m r path vals best) := by
  unfold anyStep
  simp only [deriv_ne_nil_of_mem hmem, Bool.false_eq_true, if_false]
  have he : e ∈ ends (deriv .any r) := mem_ends.mpr (mem_deriv.mpr hmem)
  unfold stepAny
  cases hf : findM (ends (deriv .any r)) m with
  | some e' => exact ⟨e', _, rfl⟩
  | none =>
    simp only
    have hs := findNF_isSome_of_mem he hm
    cases hn : findNF (ends (deriv .any r)) with
    | some e' => exact ⟨e', _, rfl⟩
    | none => rw [hn] at hs; simp at hs

/-- **(a)** a not-found route `s*` dispatches every path that starts with `s`, for every method -/
theorem search_nf_any (m : Str) : ∀ (fuel : Nat) (r : R) (path : Str) (vals : List Str) (best : Best)
    (s : Str) (e : Entry), (s.map Tok.lit ++ [.any], e) ∈ r → e.method = routeNotFound → AnyLastR r →
    s <+: path → s.length + 1 < fuel → IsHit (search m fuel r path vals best) := by
  intro fuel
  induction fuel with
  | zero => intro r path vals best s e _ _ _ _ h; omega
  | succ fuel ih =>
    intro r path vals best s e hmem hm hal hpre hlen
    simp only [search]
    generalize stepEnd m (ends r) path best = s1
    obtain ⟨e1, b1⟩ := s1
    cases e1 with
    | some e1 => exact ⟨e1, vals, rfl⟩
    | none =>
      simp only
      cases s with
      | nil =>
        apply orElse_isHit_right
        intro b2
        apply orElse_isHit_right
        intro b3
        exact anyStep_nf_hit m r path vals b3 e (by simpa using hmem) hm
      | cons c s' =>
        obtain ⟨q, rfl⟩ := hpre
        apply orElse_isHit_left
        simp only [List.map_cons, List.cons_append] at hmem
        simp only [List.cons_append, litStep, deriv_ne_nil_of_mem hmem, Bool.false_eq_true, if_false]
        exact ih _ _ _ _ s' e (mem_deriv.mpr hmem) hm (anyLastR_deriv hal) (List.prefix_append _ _)
          (by simp only [List.length_cons] at hlen; omega)

/-- the outcome "hit, or miss with a remembered position that has a not-found record" -/
def Covered (x : Res × Best) : Prop :=
  IsHit x ∨ (x.1 = .miss ∧ ∃ b, x.2 = some b ∧ (findNF b).isSome = true)

theorem paramStep_best_some (m : Str) (fuel : Nat) (r : R) (path : Str) (vals : List Str) (b : List Entry) :
    (paramStep (fun r' rest vals' b => search m fuel r' rest vals' b) r path vals (some b)).2 = some b := by
  unfold paramStep
  split
  · rfl
  · exact search_best_some _ _ _ _ _ _

theorem anyStep_best_some (m : Str) (r : R) (path : Str) (vals : List Str) (b : List Entry) :
    (anyStep m r path vals (some b)).2 = some b := by
  unfold anyStep
  split
  · rfl
  · exact stepAny_best_some _ _ _ _ _

theorem covered_of_best {x : Res × Best} {b : List Entry} (hb : x.2 = some b) (hnf : (findNF b).isSome = true) :
    Covered x := by
  obtain ⟨res, bx⟩ := x
  simp only at hb
  subst hb
  cases res with
  | hit e v => exact Or.inl ⟨e, v, rfl⟩
  | miss => exact Or.inr ⟨rfl, b, rfl, hnf⟩

/-- **(b)** a not-found route with the literal pattern `s`: the request for exactly `s`, started with no
    remembered position, hits, or misses with a remembered position that has a not-found record -/
theorem search_nf_exact (m : Str) : ∀ (fuel : Nat) (r : R) (s : Str) (vals : List Str) (e : Entry),
    (s.map Tok.lit, e) ∈ r → e.method = routeNotFound → s.length < fuel →
    Covered (search m fuel r s vals none) := by
  intro fuel
  induction fuel with
  | zero => intro r s vals e _ _ h; omega
  | succ fuel ih =>
    intro r s vals e hmem hm hlen
    simp only [search]
    -- what the later alternatives do once a position is remembered
    have hrest : ∀ (path : Str) (b : List Entry), (findNF b).isSome = true →
        Covered (orElse (paramStep (fun r' rest vals' b => search m fuel r' rest vals' b) r path vals (some b))
          fun best => anyStep m r path vals best) := by
      intro path b hnf
      exact covered_of_best (orElse_best_some (paramStep_best_some _ _ _ _ _ _) (anyStep_best_some _ _ _ _ _)) hnf
    cases s with
    | nil =>
      have he : e ∈ ends r := mem_ends.mpr (by simpa using hmem)
      have hnf := findNF_isSome_of_mem he hm
      unfold stepEnd
      simp only [List.isEmpty_nil, if_true]
      by_cases hh : isHandler (ends r) = true
      · simp only [hh, if_true, Option.isNone_none]
        cases hf : findM (ends r) m with
        | some e' => exact Or.inl ⟨e', vals, rfl⟩
        | none =>
          simp only
          apply covered_of_best (b := ends r) _ hnf
          apply orElse_best_some
          · rfl
          · exact orElse_best_some (paramStep_best_some _ _ _ _ _ _) (anyStep_best_some _ _ _ _ _)
      · simp only [hh, Bool.false_eq_true, if_false]
        cases hn : findNF (ends r) with
        | some e' => exact Or.inl ⟨e', vals, rfl⟩
        | none => rw [hn] at hnf; simp at hnf
    | cons c s' =>
      simp only [List.map_cons] at hmem
      have hstep : stepEnd m (ends r) (c :: s') none = (none, none) := by
        simp [stepEnd]
      rw [hstep]
      simp only [litStep, deriv_ne_nil_of_mem hmem, Bool.false_eq_true, if_false]
      have hrec := ih (deriv (.lit c) r) s' vals e (mem_deriv.mpr hmem) hm
        (by simp only [List.length_cons] at hlen; omega)
      generalize search m fuel (deriv (.lit c) r) s' vals none = x at hrec
      rcases hrec with ⟨e', v, hx⟩ | ⟨hx, b, hb, hnf⟩
      · exact Or.inl (orElse_isHit_left ⟨e', v, hx⟩)
      · obtain ⟨res, bx⟩ := x
        simp only at hx hb
        subst hx hb
        exact hrest _ b hnf

/-- **(c)** a request under a catch-all not-found route is always dispatched to a registered route, whatever
    its method: the reference router never answers it with its own 404, 405 or OPTIONS response -/
theorem route_covered (es : List Entry) (hal : ∀ e ∈ es, anyLast e.toks = true) (e : Entry) (he : e ∈ es)
    (hm : e.method = routeNotFound) (s path : Str)
    (h : (e.toks = s.map Tok.lit ++ [.any] ∧ s <+: path) ∨ (e.toks = s.map Tok.lit ∧ path = s)) (m : Str) :
    ∃ e' vals, route es m path = .dispatch e' vals := by
  unfold route
  have hmem : (e.toks, e) ∈ initial es := List.mem_map.mpr ⟨e, he, rfl⟩
  have halr : AnyLastR (initial es) := by
    intro x hx
    obtain ⟨e0, he0, rfl⟩ := List.mem_map.mp hx
    exact hal e0 he0
  have hb := bound_ge_of_mem hmem
  rcases h with ⟨ht, hpre⟩ | ⟨ht, rfl⟩
  · rw [ht] at hmem hb
    obtain ⟨e', v, hx⟩ := search_nf_any m (bound (initial es) + 1) (initial es) path [] none s e hmem hm halr
      hpre (by simp at hb; omega)
    generalize search m (bound (initial es) + 1) (initial es) path [] none = x at hx
    obtain ⟨res, b⟩ := x
    simp only at hx
    subst hx
    exact ⟨e', v, rfl⟩
  · rw [ht] at hmem hb
    have hc := search_nf_exact m (bound (initial es) + 1) (initial es) path [] e hmem hm (by simp at hb; omega)
    generalize search m (bound (initial es) + 1) (initial es) path [] none = x at hc
    rcases hc with ⟨e', v, hx⟩ | ⟨hx, b, hb', hnf⟩
    · obtain ⟨res, b⟩ := x
      simp only at hx
      subst hx
      exact ⟨e', v, rfl⟩
    · obtain ⟨res, bx⟩ := x
      simp only at hx hb'
      subst hx hb'
      cases hn : findNF b with
      | none => rw [hn] at hnf; simp at hnf
      | some e' => exact ⟨e', e'.pnames.map (fun _ => []), by simp [finish, hn]⟩

end Router.Spec
