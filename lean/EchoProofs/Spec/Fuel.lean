import EchoModel.RouterSpec
import EchoProofs.Spec.Basics
/-!
# The fuel of the reference search is irrelevant once it exceeds the longest residual

`depth r` = length of the longest residual.  Every recursive call of `search` works on a
derivative, whose residuals are one token shorter, so any fuel above `depth r` gives the
same result (`search_fuel`).  This lets later proofs talk about "enough fuel" only.
-/
namespace Router.Spec
open Router (Str)

/-- every residual has at most `d` tokens -/
def DepthLe (r : R) (d : Nat) : Prop := ∀ x ∈ r, x.1.length ≤ d

theorem depthLe_deriv {r : R} {d : Nat} (t : Tok) (h : DepthLe r (d + 1)) : DepthLe (deriv t r) d := by
  intro ⟨ts, e⟩ hx
  have := h _ (mem_deriv.mp hx)
  simpa using this

theorem depthLe_zero_deriv {r : R} (t : Tok) (h : DepthLe r 0) : deriv t r = [] := by
  cases hd : deriv t r with
  | nil => rfl
  | cons x xs =>
    obtain ⟨ts, e⟩ := x
    have hm : (ts, e) ∈ deriv t r := by rw [hd]; simp
    have := h _ (mem_deriv.mp hm)
    simp at this

theorem depthLe_mono {r : R} {d d' : Nat} (h : DepthLe r d) (hle : d ≤ d') : DepthLe r d' :=
  fun x hx => Nat.le_trans (h x hx) hle

theorem depthLe_bound (r : R) : DepthLe r (bound r) := fun ⟨_, _⟩ hx => bound_ge_of_mem hx

/-- **fuel irrelevance** -/
theorem search_fuel (m : Str) : ∀ (d : Nat) (f f' : Nat) (r : R) (path : Str) (vals : List Str) (best : Best),
    DepthLe r d → d < f → d < f' → search m f r path vals best = search m f' r path vals best := by
  intro d
  induction d with
  | zero =>
    intro f f' r path vals best hd hf hf'
    obtain ⟨f, rfl⟩ : ∃ k, f = k + 1 := ⟨f - 1, by omega⟩
    obtain ⟨f', rfl⟩ : ∃ k, f' = k + 1 := ⟨f' - 1, by omega⟩
    simp only [search, litStep, paramStep, anyStep, depthLe_zero_deriv _ hd, List.isEmpty_nil, if_true,
      or_true]
  | succ d ih =>
    intro f f' r path vals best hd hf hf'
    obtain ⟨f, rfl⟩ : ∃ k, f = k + 1 := ⟨f - 1, by omega⟩
    obtain ⟨f', rfl⟩ : ∃ k, f' = k + 1 := ⟨f' - 1, by omega⟩
    have hrec : ∀ (t : Tok) (p : Str) (v : List Str) (b : Best),
        search m f (deriv t r) p v b = search m f' (deriv t r) p v b :=
      fun t p v b => ih f f' (deriv t r) p v b (depthLe_deriv t hd) (by omega) (by omega)
    simp only [search, litStep, paramStep, hrec]

/-- any two fuels above the bound agree; in particular `route` could use any such fuel -/
theorem search_fuel_bound (m : Str) (f : Nat) (r : R) (path : Str) (vals : List Str) (best : Best)
    (hf : bound r < f) : search m f r path vals best = search m (bound r + 1) r path vals best :=
  search_fuel m (bound r) f (bound r + 1) r path vals best (depthLe_bound r) hf (by omega)

end Router.Spec
