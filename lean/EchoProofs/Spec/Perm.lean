import EchoModel.RouterSpec
/-!
# The reference search does not depend on the order of the route table

`search_perm`: permuting the residual set (and the remembered best entries) does not change
the result, provided no two entries share tokens and method (`Uniq`).
-/
namespace Router.Spec
open Router

/-- no two residuals with the same remaining tokens and the same method -/
def Uniq (r : R) : Prop :=
  r.Pairwise (fun a b => ¬ (a.1 = b.1 ∧ a.2.method = b.2.method))

/-- no two entries with the same method -/
def UniqE (es : List Entry) : Prop := es.Pairwise (fun a b => a.method ≠ b.method)

theorem find?_perm_unique {α} (p : α → Bool) {l l' : List α} (h : l.Perm l')
    (hu : l.Pairwise (fun a b => ¬ (p a = true ∧ p b = true))) : l.find? p = l'.find? p := by
  induction h with
  | nil => rfl
  | cons x _ ih =>
    rw [List.pairwise_cons] at hu
    simp only [List.find?_cons]
    split
    · rfl
    · exact ih hu.2
  | swap x y l =>
    rw [List.pairwise_cons, List.pairwise_cons] at hu
    have hxy := hu.1 x (by simp)
    simp only [List.find?_cons]
    cases hx : p x <;> cases hy : p y <;> simp_all
  | trans h₁ _ ih₁ ih₂ =>
    rw [ih₁ hu]
    exact ih₂ (h₁.pairwise hu (fun h => by intro ⟨a, b⟩; exact h ⟨b, a⟩))

theorem Uniq.perm {r r' : R} (h : r.Perm r') (hu : Uniq r) : Uniq r' :=
  h.pairwise hu (fun hxy => by intro ⟨a, b⟩; exact hxy ⟨a.symm, b.symm⟩)

theorem UniqE.perm {a b : List Entry} (h : a.Perm b) (hu : UniqE a) : UniqE b :=
  h.pairwise hu (fun hxy => by intro e; exact hxy e.symm)

theorem deriv_perm (t : Tok) {r r' : R} (h : r.Perm r') : (deriv t r).Perm (deriv t r') :=
  h.filterMap _

theorem ends_perm {r r' : R} (h : r.Perm r') : (ends r).Perm (ends r') := h.filterMap _

theorem uniq_deriv (t : Tok) {r : R} (hu : Uniq r) : Uniq (deriv t r) := by
  unfold Uniq deriv
  refine List.Pairwise.filterMap _ ?_ hu
  intro a a' hR b hb b' hb'
  obtain ⟨ts, e⟩ := a
  obtain ⟨ts', e'⟩ := a'
  cases ts with
  | nil => simp at hb
  | cons t1 rest =>
    cases ts' with
    | nil => simp at hb'
    | cons t2 rest' =>
      by_cases h1 : t1 = t <;> by_cases h2 : t2 = t <;> simp [h1, h2] at hb hb'
      subst hb hb' h1 h2
      intro ⟨hrest, hm⟩
      exact hR ⟨by simp at hrest; simp [hrest], hm⟩

theorem uniq_ends {r : R} (hu : Uniq r) : UniqE (ends r) := by
  unfold Uniq at hu
  unfold UniqE Spec.ends
  refine List.Pairwise.filterMap _ ?_ hu
  intro a a' hR b hb b' hb'
  obtain ⟨ts, e⟩ := a
  obtain ⟨ts', e'⟩ := a'
  cases ts with
  | cons _ _ => simp at hb
  | nil =>
    cases ts' with
    | cons _ _ => simp at hb'
    | nil =>
      simp at hb hb'
      subst hb hb'
      intro hm
      exact hR ⟨rfl, hm⟩

theorem isHandler_perm {a b : List Entry} (h : a.Perm b) : isHandler a = isHandler b :=
  h.any_eq

theorem findM_perm {a b : List Entry} (h : a.Perm b) (hu : UniqE a) (m : Str) :
    findM a m = findM b m := by
  unfold findM
  split
  · rfl
  · apply find?_perm_unique _ h
    refine hu.imp ?_
    intro x y hne ⟨hx, hy⟩
    simp only [decide_eq_true_eq] at hx hy
    exact hne (hx.trans hy.symm)

theorem findNF_perm {a b : List Entry} (h : a.Perm b) (hu : UniqE a) : findNF a = findNF b := by
  unfold findNF
  apply find?_perm_unique _ h
  refine hu.imp ?_
  intro x y hne ⟨hx, hy⟩
  simp only [decide_eq_true_eq] at hx hy
  exact hne (hx.trans hy.symm)

/-- the remembered best entries agree up to order (and have unique methods) -/
def BRel : Best → Best → Prop
  | none, none => True
  | some a, some b => a.Perm b ∧ UniqE a
  | _, _ => False

theorem BRel.isNone {b b' : Best} (h : BRel b b') : b.isNone = b'.isNone := by
  cases b <;> cases b' <;> simp_all [BRel]

/-- results agree: same hit (entry and values) and best entries up to order -/
def RRel (x y : Res × Best) : Prop := x.1 = y.1 ∧ BRel x.2 y.2

theorem stepEnd_perm (m : Str) {en en' : List Entry} (h : en.Perm en') (hu : UniqE en)
    (path : Str) {best best' : Best} (hb : BRel best best') :
    (stepEnd m en path best).1 = (stepEnd m en' path best').1 ∧
    BRel (stepEnd m en path best).2 (stepEnd m en' path best').2 := by
  unfold stepEnd
  rw [← isHandler_perm h, ← findM_perm h hu, ← findNF_perm h hu, ← hb.isNone]
  split
  · split
    · refine ⟨rfl, ?_⟩
      split
      · exact ⟨h, hu⟩
      · exact hb
    · exact ⟨rfl, hb⟩
  · exact ⟨rfl, hb⟩

theorem stepAny_perm (m : Str) {ea ea' : List Entry} (h : ea.Perm ea') (hu : UniqE ea)
    (path : Str) (vals : List Str) {best best' : Best} (hb : BRel best best') :
    RRel (stepAny m ea path vals best) (stepAny m ea' path vals best') := by
  unfold stepAny RRel
  rw [← findM_perm h hu, ← findNF_perm h hu, ← hb.isNone]
  have hb2 : BRel (if best.isNone then some ea else best) (if best.isNone then some ea' else best') := by
    split
    · exact ⟨h, hu⟩
    · exact hb
  cases findM ea m with
  | some e => exact ⟨rfl, hb⟩
  | none =>
    simp only
    cases findNF ea with
    | some e => exact ⟨rfl, hb2⟩
    | none => exact ⟨rfl, hb2⟩

theorem isEmpty_perm {α} {a b : List α} (h : a.Perm b) : a.isEmpty = b.isEmpty := by
  cases a <;> cases b <;> simp_all

theorem orElse_rel {x x' : Res × Best} {k k' : Best → Res × Best} (hx : RRel x x')
    (hk : ∀ {b b' : Best}, BRel b b' → RRel (k b) (k' b')) : RRel (orElse x k) (orElse x' k') := by
  obtain ⟨res, b⟩ := x
  obtain ⟨res', b'⟩ := x'
  obtain ⟨hr, hb⟩ := hx
  simp only at hr hb
  subst hr
  cases res with
  | hit e v => exact ⟨rfl, hb⟩
  | miss => exact hk hb

/-- **the search is invariant under permutation of the residual set** -/
theorem search_perm (m : Str) (fuel : Nat) : ∀ {r r' : R}, r.Perm r' → Uniq r →
    ∀ (path : Str) (vals : List Str) {best best' : Best}, BRel best best' →
      RRel (search m fuel r path vals best) (search m fuel r' path vals best') := by
  induction fuel with
  | zero => intro r r' _ _ path vals best best' hb; exact ⟨rfl, hb⟩
  | succ fuel ih =>
    intro r r' h hu path vals best best' hb
    simp only [search]
    have hend := stepEnd_perm m (ends_perm h) (uniq_ends hu) path hb
    generalize stepEnd m (ends r) path best = s1 at hend
    generalize stepEnd m (ends r') path best' = s1' at hend
    obtain ⟨e1, b1⟩ := s1
    obtain ⟨e1', b1'⟩ := s1'
    simp only at hend
    obtain ⟨he, hb1⟩ := hend
    subst he
    cases e1 with
    | some e => exact ⟨rfl, hb1⟩
    | none =>
      simp only
      apply orElse_rel
      · -- (2)
        unfold litStep
        cases path with
        | nil => exact ⟨rfl, hb1⟩
        | cons c rest =>
          simp only
          rw [← isEmpty_perm (deriv_perm (.lit c) h)]
          split
          · exact ⟨rfl, hb1⟩
          · exact ih (deriv_perm _ h) (uniq_deriv _ hu) rest vals hb1
      · intro b2 b2' hb2
        apply orElse_rel
        · -- (3)
          unfold paramStep
          rw [← isEmpty_perm (deriv_perm .param h), ← (deriv_perm .param h).all_eq]
          split
          · exact ⟨rfl, hb2⟩
          · exact ih (deriv_perm _ h) (uniq_deriv _ hu) _ _ hb2
        · intro b3 b3' hb3
          unfold anyStep
          rw [← isEmpty_perm (deriv_perm .any h)]
          split
          · exact ⟨rfl, hb3⟩
          · exact stepAny_perm m (ends_perm (deriv_perm _ h)) (uniq_ends (uniq_deriv _ hu)) path vals hb3

end Router.Spec
