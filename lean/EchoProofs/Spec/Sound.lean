import EchoModel.RouterSpec
import EchoModel.RouterInv
import EchoProofs.Spec.Basics
/-!
# Soundness of the reference search

Whatever the search dispatches to really matches the path: substituting the values for the
markers of the pattern gives back the path (`search_sound`); and the entries remembered as
`best` (for 405 / custom 404) also match the path (`search_best_covers`).
-/
namespace Router.Spec
open Router (Str routeNotFound)

/-- substitute values for the markers of a token list; `none` when the arity differs -/
def inst : List Tok → List Str → Option Str
  | [], [] => some []
  | [], _ :: _ => none
  | .lit c :: ts, vs => (inst ts vs).map (c :: ·)
  | .param :: ts, v :: vs => (inst ts vs).map (v ++ ·)
  | .any :: ts, v :: vs => (inst ts vs).map (v ++ ·)
  | .param :: _, [] => none
  | .any :: _, [] => none

/-- a named parameter that is followed by more pattern text holds no `/` -/
def SlashFree : List Tok → List Str → Prop
  | .lit _ :: ts, vs => SlashFree ts vs
  | .param :: ts, v :: vs => (ts ≠ [] → '/' ∉ v) ∧ SlashFree ts vs
  | .any :: ts, _ :: vs => SlashFree ts vs
  | _, _ => True

theorem inst_length {ts : List Tok} {vs : List Str} {p : Str} (h : inst ts vs = some p) :
    vs.length = arity ts := by
  induction ts generalizing vs p with
  | nil => cases vs <;> simp_all [inst, arity]
  | cons t ts ih =>
    cases t with
    | lit c =>
      simp only [inst, Option.map_eq_some_iff] at h
      obtain ⟨q, hq, _⟩ := h
      simpa [arity] using ih hq
    | param =>
      cases vs with
      | nil => simp [inst] at h
      | cons v vs =>
        simp only [inst, Option.map_eq_some_iff] at h
        obtain ⟨q, hq, _⟩ := h
        simpa [arity] using ih hq
    | any =>
      cases vs with
      | nil => simp [inst] at h
      | cons v vs =>
        simp only [inst, Option.map_eq_some_iff] at h
        obtain ⟨q, hq, _⟩ := h
        simpa [arity] using ih hq

/-- `e` is in the residual set with tokens that, instantiated with `w`, give `path` -/
def Witness (r : R) (path : Str) (e : Entry) (w : List Str) : Prop :=
  ∃ ts, (ts, e) ∈ r ∧ inst ts w = some path ∧ SlashFree ts w

theorem orElse_hit {x : Res × Best} {k : Best → Res × Best} {e : Entry} {v : List Str}
    (h : (orElse x k).1 = .hit e v) : x.1 = .hit e v ∨ (x.1 = .miss ∧ (k x.2).1 = .hit e v) := by
  obtain ⟨res, b⟩ := x
  cases res with
  | hit e' v' => left; simpa [orElse] using h
  | miss => right; exact ⟨rfl, by simpa [orElse] using h⟩

theorem paramValue_prefix (leaf : Bool) (path : Str) :
    paramValue leaf path ++ path.drop (paramValue leaf path).length = path := by
  unfold paramValue
  split
  · simp
  · have h1 : path.takeWhile (· ≠ '/') = path.take (path.takeWhile (· ≠ '/')).length := by
      rw [List.takeWhile_eq_take_findIdx_not]
      simp
    conv => lhs; arg 1; rw [h1]
    exact List.take_append_drop _ _

theorem takeWhile_no_slash (path : Str) : '/' ∉ path.takeWhile (· ≠ '/') := by
  induction path with
  | nil => simp
  | cons c rest ih =>
    simp only [List.takeWhile_cons]
    split
    · rename_i hc
      simp only [List.mem_cons, not_or]
      exact ⟨fun h => by simp [← h] at hc, ih⟩
    · simp

/-- **soundness of the search**: a hit is an entry of the residual set whose remaining
    tokens, instantiated with exactly the values added since, rebuild the remaining path. -/
theorem search_sound (m : Str) : ∀ (fuel : Nat) (r : R) (path : Str) (vals : List Str) (best : Best)
    (e : Entry) (v : List Str), (search m fuel r path vals best).1 = .hit e v →
    ∃ w, v = vals ++ w ∧ Witness r path e w := by
  intro fuel
  induction fuel with
  | zero => intro r path vals best e v h; simp [search] at h
  | succ fuel ih =>
    intro r path vals best e v h
    simp only [search] at h
    -- (1)
    have hend : ∀ e1 b1, stepEnd m (ends r) path best = (some e1, b1) → path = [] ∧ e1 ∈ ends r := by
      intro e1 b1 hs
      unfold stepEnd at hs
      split at hs
      · rename_i hp
        have hp' : path = [] := by cases path <;> simp_all
        refine ⟨hp', ?_⟩
        split at hs
        · simp only [Prod.mk.injEq] at hs
          exact (findM_some hs.1).1
        · simp only [Prod.mk.injEq] at hs
          exact (findNF_some hs.1).1
      · simp at hs
    generalize hs1 : stepEnd m (ends r) path best = s1 at h
    obtain ⟨e1, b1⟩ := s1
    cases e1 with
    | some e1 =>
      simp only [Res.hit.injEq] at h
      obtain ⟨rfl, rfl⟩ := h
      obtain ⟨hp, hmem⟩ := hend _ _ hs1
      subst hp
      exact ⟨[], by simp, [], mem_ends.mp hmem, rfl, trivial⟩
    | none =>
      simp only at h
      rcases orElse_hit h with h2 | ⟨_, h⟩
      · -- (2) literal
        unfold litStep at h2
        cases path with
        | nil => simp at h2
        | cons c rest =>
          simp only at h2
          split at h2
          · simp at h2
          · obtain ⟨w, hv, ts, hmem, hi, hsf⟩ := ih _ _ _ _ _ _ h2
            exact ⟨w, hv, .lit c :: ts, mem_deriv.mp hmem, by simp [inst, hi], hsf⟩
      · rcases orElse_hit h with h3 | ⟨_, h⟩
        · -- (3) parameter
          unfold paramStep at h3
          split at h3
          · simp at h3
          · simp only at h3
            obtain ⟨w, hv, ts, hmem, hi, hsf⟩ := ih _ _ _ _ _ _ h3
            refine ⟨paramValue ((deriv .param r).all (·.1.isEmpty)) path :: w, by simp [hv],
              .param :: ts, mem_deriv.mp hmem, ?_, ?_, hsf⟩
            · simp only [inst, hi, Option.map_some]
              rw [paramValue_prefix]
            · intro hts
              have hleaf : (deriv .param r).all (·.1.isEmpty) = false := by
                cases hall : (deriv .param r).all (·.1.isEmpty) with
                | false => rfl
                | true =>
                  have := List.all_eq_true.mp hall _ hmem
                  simp at this
                  exact absurd this hts
              simp only [paramValue, hleaf, Bool.false_eq_true, if_false]
              exact takeWhile_no_slash path
        · -- (4) wildcard
          unfold anyStep at h
          split at h
          · simp at h
          · unfold stepAny at h
            have hfin : ∀ e', e' ∈ ends (deriv .any r) → Witness r path e' [path] := by
              intro e' he'
              exact ⟨[.any], mem_deriv.mp (mem_ends.mp he'), by simp [inst], trivial⟩
            split at h
            · rename_i e' hf
              simp only [Res.hit.injEq] at h
              obtain ⟨rfl, rfl⟩ := h
              exact ⟨[path], rfl, hfin _ (findM_some hf).1⟩
            · simp only at h
              split at h
              · rename_i e' hf
                simp only [Res.hit.injEq] at h
                obtain ⟨rfl, rfl⟩ := h
                exact ⟨[path], rfl, hfin _ (findNF_some hf).1⟩
              · simp at h

/-- the pattern of `e` (its residual tokens in `r`) matches `path` for some values -/
def Covers (r : R) (path : Str) (e : Entry) : Prop := ∃ w, Witness r path e w

theorem orElse_best {x : Res × Best} {k : Best → Res × Best} :
    (orElse x k).2 = x.2 ∨ (orElse x k).2 = (k x.2).2 := by
  obtain ⟨res, b⟩ := x
  cases res with
  | hit e v => left; rfl
  | miss => right; rfl

/-- the remembered best entries either were handed in or match the path -/
theorem search_best_covers (m : Str) : ∀ (fuel : Nat) (r : R) (path : Str) (vals : List Str)
    (best : Best) (b : List Entry), (search m fuel r path vals best).2 = some b →
    best = some b ∨ ∀ e ∈ b, Covers r path e := by
  intro fuel
  induction fuel with
  | zero => intro r path vals best b h; left; simpa [search] using h
  | succ fuel ih =>
    intro r path vals best b h
    simp only [search] at h
    -- (1): the best after stepEnd is the old one or the entries ending here (then path = [])
    have hend : (stepEnd m (ends r) path best).2 = best ∨
        ((stepEnd m (ends r) path best).2 = some (ends r) ∧ path = []) := by
      unfold stepEnd
      split
      · rename_i hp
        split
        · split
          · right; exact ⟨rfl, by cases path <;> simp_all⟩
          · left; rfl
        · left; rfl
      · left; rfl
    have hcov_end : path = [] → ∀ e ∈ ends r, Covers r path e := by
      intro hp e he
      subst hp
      exact ⟨[], [], mem_ends.mp he, rfl, trivial⟩
    generalize hs1 : stepEnd m (ends r) path best = s1 at h hend
    obtain ⟨e1, b1⟩ := s1
    simp only at hend
    -- it suffices to show the claim relative to b1
    have key : b1 = some b ∨ (∀ e ∈ b, Covers r path e) → best = some b ∨ ∀ e ∈ b, Covers r path e := by
      rintro (hb | hc)
      · rcases hend with h1 | ⟨h1, hp⟩
        · left; rw [← h1]; exact hb
        · right
          rw [h1] at hb
          simp only [Option.some.injEq] at hb
          subst hb
          exact hcov_end hp
      · right; exact hc
    apply key
    cases e1 with
    | some e1 => left; simpa using h
    | none =>
      simp only at h
      -- lift a "covers in the derivative" to "covers in r"
      have lift_lit : ∀ c rest, path = c :: rest → ∀ e, Covers (deriv (.lit c) r) rest e → Covers r path e := by
        rintro c rest rfl e ⟨w, ts, hmem, hi, hsf⟩
        exact ⟨w, .lit c :: ts, mem_deriv.mp hmem, by simp [inst, hi], hsf⟩
      have lift_param : ∀ e, Covers (deriv .param r)
          (path.drop (paramValue ((deriv .param r).all (·.1.isEmpty)) path).length) e → Covers r path e := by
        rintro e ⟨w, ts, hmem, hi, hsf⟩
        refine ⟨paramValue ((deriv .param r).all (·.1.isEmpty)) path :: w, .param :: ts,
          mem_deriv.mp hmem, ?_, ?_, hsf⟩
        · simp only [inst, hi, Option.map_some]
          rw [paramValue_prefix]
        · intro hts
          have hleaf : (deriv .param r).all (·.1.isEmpty) = false := by
            cases hall : (deriv .param r).all (·.1.isEmpty) with
            | false => rfl
            | true =>
              have := List.all_eq_true.mp hall _ hmem
              simp at this
              exact absurd this hts
          simp only [paramValue, hleaf, Bool.false_eq_true, if_false]
          exact takeWhile_no_slash path
      -- step (2)
      have h2 : (litStep (fun r' rest b => search m fuel r' rest vals b) r path b1).2 = some b →
          b1 = some b ∨ ∀ e ∈ b, Covers r path e := by
        intro hb
        unfold litStep at hb
        cases path with
        | nil => left; simpa using hb
        | cons c rest =>
          simp only at hb
          split at hb
          · left; simpa using hb
          · rcases ih _ _ _ _ _ hb with h | h
            · left; exact h
            · right; intro e he; exact lift_lit c rest rfl e (h e he)
      have h3 : ∀ b2, (paramStep (fun r' rest vals' b => search m fuel r' rest vals' b) r path vals b2).2 = some b →
          b2 = some b ∨ ∀ e ∈ b, Covers r path e := by
        intro b2 hb
        unfold paramStep at hb
        split at hb
        · left; simpa using hb
        · simp only at hb
          rcases ih _ _ _ _ _ hb with h | h
          · left; exact h
          · right; intro e he; exact lift_param e (h e he)
      have h4 : ∀ b3, (anyStep m r path vals b3).2 = some b →
          b3 = some b ∨ ∀ e ∈ b, Covers r path e := by
        intro b3 hb
        unfold anyStep at hb
        split at hb
        · left; simpa using hb
        · unfold stepAny at hb
          have hfin : ∀ e', e' ∈ ends (deriv .any r) → Covers r path e' := by
            intro e' he'
            exact ⟨[path], [.any], mem_deriv.mp (mem_ends.mp he'), by simp [inst], trivial⟩
          have hnew : (if b3.isNone then some (ends (deriv .any r)) else b3) = some b →
              b3 = some b ∨ ∀ e ∈ b, Covers r path e := by
            intro hb'
            split at hb'
            · right
              simp only [Option.some.injEq] at hb'
              subst hb'
              exact hfin
            · left; exact hb'
          split at hb
          · left; simpa using hb
          · simp only at hb
            split at hb
            · exact hnew (by simpa using hb)
            · exact hnew (by simpa using hb)
      -- combine along the orElse chain
      rcases orElse_best (x := litStep (fun r' rest b => search m fuel r' rest vals b) r path b1)
        (k := fun best => orElse (paramStep (fun r' rest vals' b => search m fuel r' rest vals' b) r path vals best)
          fun best => anyStep m r path vals best) with hx | hx
      · rw [hx] at h; exact h2 h
      · rw [hx] at h
        generalize hb2 : (litStep (fun r' rest b => search m fuel r' rest vals b) r path b1).2 = b2 at h h2
        rcases orElse_best (x := paramStep (fun r' rest vals' b => search m fuel r' rest vals' b) r path vals b2)
          (k := fun best => anyStep m r path vals best) with hy | hy
        · rw [hy] at h
          rcases h3 b2 h with h | h
          · exact h2 h
          · right; exact h
        · rw [hy] at h
          generalize hb3 : (paramStep (fun r' rest vals' b => search m fuel r' rest vals' b) r path vals b2).2 = b3 at h
          rcases h4 b3 h with h | h
          · subst h
            rcases h3 b2 hb3 with h | h
            · exact h2 h
            · right; exact h
          · right; exact h

end Router.Spec
