import EchoModel.RouterSpec
import EchoProofs.Spec.Perm
/-!
# Basic facts about the reference search: fuel, residual sets, lookups
-/
namespace Router.Spec
open Router

theorem mem_deriv {t : Tok} {r : R} {ts : List Tok} {e : Entry} :
    (ts, e) ∈ deriv t r ↔ (t :: ts, e) ∈ r := by
  unfold deriv
  simp only [List.mem_filterMap]
  constructor
  · rintro ⟨⟨ts', e'⟩, hmem, h⟩
    cases ts' with
    | nil => simp at h
    | cons t' rest =>
      by_cases ht : t' = t
      · simp [ht] at h
        obtain ⟨rfl, rfl⟩ := h
        subst ht
        exact hmem
      · simp [ht] at h
  · intro h
    exact ⟨(t :: ts, e), h, by simp⟩

theorem mem_ends {r : R} {e : Entry} : e ∈ ends r ↔ ([], e) ∈ r := by
  unfold ends
  simp only [List.mem_filterMap]
  constructor
  · rintro ⟨⟨ts, e'⟩, hmem, h⟩
    cases ts with
    | nil => simp at h; subst h; exact hmem
    | cons _ _ => simp at h
  · intro h
    exact ⟨([], e), h, by simp⟩

theorem deriv_ne_nil_of_mem {t : Tok} {r : R} {ts : List Tok} {e : Entry}
    (h : (t :: ts, e) ∈ r) : (deriv t r).isEmpty = false := by
  have := mem_deriv.mpr h
  cases hd : deriv t r with
  | nil => rw [hd] at this; simp at this
  | cons _ _ => rfl

theorem bound_ge_of_mem {r : R} {ts : List Tok} {e : Entry} (h : (ts, e) ∈ r) :
    ts.length ≤ bound r := by
  unfold bound
  induction r with
  | nil => simp at h
  | cons x xs ih =>
    simp only [List.map_cons, List.sum_cons]
    rcases List.mem_cons.mp h with rfl | h'
    · simp
    · have := ih h'
      omega

/-- a real method found among entries really is in the list and has that method -/
theorem findM_some {es : List Entry} {m : Str} {e : Entry} (h : findM es m = some e) :
    e ∈ es ∧ e.method = m ∧ m ≠ routeNotFound := by
  unfold findM at h
  split at h
  · simp at h
  · rename_i hne
    refine ⟨List.mem_of_find?_eq_some h, ?_, hne⟩
    have := List.find?_some h
    simpa using this

theorem findNF_some {es : List Entry} {e : Entry} (h : findNF es = some e) :
    e ∈ es ∧ e.method = routeNotFound := by
  unfold findNF at h
  refine ⟨List.mem_of_find?_eq_some h, ?_⟩
  have := List.find?_some h
  simpa using this

theorem findM_isSome_of_mem {es : List Entry} {m : Str} {e : Entry} (he : e ∈ es)
    (hm : e.method = m) (hne : m ≠ routeNotFound) : ∃ e', findM es m = some e' := by
  unfold findM
  simp only [hne, if_false]
  cases h : es.find? (·.method = m) with
  | some e' => exact ⟨e', rfl⟩
  | none =>
    rw [List.find?_eq_none] at h
    exact absurd (by simpa using hm) (h e he)

/-- with unique methods, the lookup returns exactly the entry one knows to be there -/
theorem findM_eq_of_mem {es : List Entry} {m : Str} {e : Entry} (hu : UniqE es) (he : e ∈ es)
    (hm : e.method = m) (hne : m ≠ routeNotFound) : findM es m = some e := by
  obtain ⟨e', h⟩ := findM_isSome_of_mem he hm hne
  obtain ⟨he', hm', _⟩ := findM_some h
  rw [h]
  by_cases hne' : e' = e
  · rw [hne']
  · exfalso
    unfold UniqE at hu
    rcases List.mem_iff_getElem.mp he with ⟨i, hi, rfl⟩
    rcases List.mem_iff_getElem.mp he' with ⟨j, hj, rfl⟩
    have hij : i ≠ j := fun h => hne' (by subst h; rfl)
    rw [List.pairwise_iff_getElem] at hu
    rcases Nat.lt_or_gt_of_ne hij with hlt | hgt
    · exact hu i j hi hj hlt (hm.trans hm'.symm)
    · exact hu j i hj hi hgt (hm'.trans hm.symm)

theorem isHandler_of_mem {es : List Entry} {e : Entry} (he : e ∈ es)
    (hne : e.method ≠ routeNotFound) : isHandler es = true := by
  unfold isHandler
  simp only [List.any_eq_true]
  exact ⟨e, he, by simpa using hne⟩

/-- `*` is the last token of every residual -/
def anyLast : List Tok → Bool
  | [] => true
  | .any :: ts => ts.isEmpty
  | _ :: ts => anyLast ts

def AnyLastR (r : R) : Prop := ∀ x ∈ r, anyLast x.1 = true

theorem anyLastR_deriv {t : Tok} {r : R} (h : AnyLastR r) : AnyLastR (deriv t r) := by
  intro ⟨ts, e⟩ hx
  have := h _ (mem_deriv.mp hx)
  cases t <;> simp_all [anyLast]

end Router.Spec
