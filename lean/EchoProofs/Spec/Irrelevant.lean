import EchoModel.RouterSpec
import EchoProofs.Spec.Fuel
/-!
# Residuals that cannot matter for a given path

A residual whose remaining tokens are all literal and spell a text other than the rest of the request path, or are a
literal text that is not a prefix of the rest of the path followed by `*`, never contributes to the reference search
for that path: not to a match, not to the remembered best position, not even to the "does some pattern continue
here" tests — whereever it stands in the residual set.

* `Irr path ts`   — the token list `ts` is irrelevant for (the rest of the path) `path`
* `Drop path r r'` — `r'` is `r` with some irrelevant residuals left out (anywhere)
* `search_irrelevant` — `Drop path r r' → search m fuel r path vals best = search m fuel r' path vals best`
* `route_drop` — the same for `route` (the two sides use different fuel: `search_fuel_bound`)
-/
namespace Router.Spec
open Router (Str)

/-- the remaining tokens `ts` cannot match `path`, and this is decided by literal text alone: `ts` spells a text
    different from `path`, or a text that is not a prefix of `path` followed by the wildcard -/
def Irr (path : Str) (ts : List Tok) : Prop :=
  (∃ s : Str, ts = s.map Tok.lit ∧ s ≠ path) ∨ (∃ s : Str, ts = s.map Tok.lit ++ [Tok.any] ∧ ¬ s <+: path)

/-- `r'` is `r` with some residuals that are irrelevant for `path` left out -/
inductive Drop (path : Str) : R → R → Prop
  | nil : Drop path [] []
  | keep (x : List Tok × Entry) {r r' : R} : Drop path r r' → Drop path (x :: r) (x :: r')
  | drop {x : List Tok × Entry} {r r' : R} : Irr path x.1 → Drop path r r' → Drop path (x :: r) r'

theorem Drop.refl (path : Str) : ∀ r : R, Drop path r r
  | [] => .nil
  | x :: r => .keep x (Drop.refl path r)

theorem Drop.append {path : Str} {a a' b b' : R} (ha : Drop path a a') (hb : Drop path b b') :
    Drop path (a ++ b) (a' ++ b') := by
  induction ha with
  | nil => exact hb
  | keep x _ ih => exact .keep x ih
  | drop hx _ ih => exact .drop hx ih

theorem Drop.of_irr {path : Str} : ∀ {c : R}, (∀ x ∈ c, Irr path x.1) → Drop path c []
  | [], _ => .nil
  | x :: _, h => .drop (h x List.mem_cons_self) (Drop.of_irr fun y hy => h y (List.mem_cons_of_mem _ hy))

theorem Drop.trans {path : Str} {a b c : R} (h1 : Drop path a b) (h2 : Drop path b c) : Drop path a c := by
  induction h1 generalizing c with
  | nil => exact h2
  | keep x _ ih =>
    cases h2 with
    | keep _ h => exact .keep x (ih h)
    | drop hx h => exact .drop hx (ih h)
  | drop hx _ ih => exact .drop hx (ih h2)

theorem Drop.nil_left {path : Str} {r' : R} (h : Drop path [] r') : r' = [] := by
  cases h; rfl

theorem Drop.bound_le {path : Str} {r r' : R} (h : Drop path r r') : bound r' ≤ bound r := by
  induction h with
  | nil => exact Nat.le_refl _
  | keep x _ ih => simp only [bound, List.map_cons, List.sum_cons] at ih ⊢; omega
  | drop _ _ ih => simp only [bound, List.map_cons, List.sum_cons] at ih ⊢; omega

/-- leaving out by a Boolean test: every residual that fails the test is irrelevant -/
theorem Drop.filter {path : Str} (keep : List Tok × Entry → Bool) : ∀ (r : R),
    (∀ x ∈ r, keep x = false → Irr path x.1) → Drop path r (r.filter keep)
  | [], _ => .nil
  | x :: r, h => by
    have ih := Drop.filter keep r (fun y hy => h y (List.mem_cons_of_mem _ hy))
    cases hk : keep x with
    | true => simp only [List.filter_cons, hk, if_true]; exact .keep x ih
    | false =>
      simp only [List.filter_cons, hk, Bool.false_eq_true, if_false]
      exact .drop (h x List.mem_cons_self hk) ih

/-! ### what irrelevant token lists look like -/

/-- an irrelevant token list does not end here when the path does -/
theorem Irr.ne_nil {ts : List Tok} (h : Irr [] ts) : ts ≠ [] := by
  rintro rfl
  rcases h with ⟨s, hs, hne⟩ | ⟨s, hs, _⟩
  · cases s with
    | nil => exact hne rfl
    | cons _ _ => simp at hs
  · simp at hs

/-- an irrelevant token list starts with a literal (if it starts at all) -/
theorem Irr.head_lit {path : Str} {t : Tok} {ts : List Tok} (h : Irr path (t :: ts)) : ∃ c, t = .lit c := by
  rcases h with ⟨s, hs, _⟩ | ⟨s, hs, hp⟩
  · cases s with
    | nil => simp at hs
    | cons c s => simp only [List.map_cons, List.cons.injEq] at hs; exact ⟨c, hs.1⟩
  · cases s with
    | nil => exact absurd List.nil_prefix hp
    | cons c s => simp only [List.map_cons, List.cons_append, List.cons.injEq] at hs; exact ⟨c, hs.1⟩

/-- following the next byte of the path keeps an irrelevant token list irrelevant -/
theorem Irr.tail {c : Char} {rest : Str} {ts : List Tok} (h : Irr (c :: rest) (.lit c :: ts)) : Irr rest ts := by
  rcases h with ⟨s, hs, hne⟩ | ⟨s, hs, hp⟩
  · cases s with
    | nil => simp at hs
    | cons d s =>
      simp only [List.map_cons, List.cons.injEq, Tok.lit.injEq] at hs
      obtain ⟨hd, rfl⟩ := hs
      subst hd
      exact Or.inl ⟨s, rfl, fun h => hne (by rw [h])⟩
  · cases s with
    | nil => exact absurd List.nil_prefix hp
    | cons d s =>
      simp only [List.map_cons, List.cons_append, List.cons.injEq, Tok.lit.injEq] at hs
      obtain ⟨hd, rfl⟩ := hs
      subst hd
      exact Or.inr ⟨s, rfl, fun h => hp (List.cons_prefix_cons.mpr ⟨rfl, h⟩)⟩

/-! ### `deriv` / `ends` on a residual set with irrelevant residuals left out -/

theorem deriv_cons_eq (t : Tok) (ts : List Tok) (e : Entry) (r : R) :
    deriv t ((t :: ts, e) :: r) = (ts, e) :: deriv t r := by
  simp [deriv]

theorem deriv_cons_ne {t t' : Tok} (h : t' ≠ t) (ts : List Tok) (e : Entry) (r : R) :
    deriv t ((t' :: ts, e) :: r) = deriv t r := by
  simp [deriv, h]

theorem deriv_cons_nil (t : Tok) (e : Entry) (r : R) : deriv t (([], e) :: r) = deriv t r := by
  simp [deriv]

theorem Drop.deriv_lit {c : Char} {rest : Str} {r r' : R} (h : Drop (c :: rest) r r') :
    Drop rest (deriv (.lit c) r) (deriv (.lit c) r') := by
  induction h with
  | nil => exact .nil
  | keep x _ ih =>
    obtain ⟨ts, e⟩ := x
    cases ts with
    | nil => rw [deriv_cons_nil, deriv_cons_nil]; exact ih
    | cons t ts =>
      by_cases ht : t = .lit c
      · subst ht; rw [deriv_cons_eq, deriv_cons_eq]; exact .keep _ ih
      · rw [deriv_cons_ne ht, deriv_cons_ne ht]; exact ih
  | @drop x _ _ hx _ ih =>
    obtain ⟨ts, e⟩ := x
    cases ts with
    | nil => rw [deriv_cons_nil]; exact ih
    | cons t ts =>
      by_cases ht : t = .lit c
      · subst ht; rw [deriv_cons_eq]; exact .drop (Irr.tail hx) ih
      · rw [deriv_cons_ne ht]; exact ih

/-- the irrelevant residuals do not continue with a marker -/
theorem Drop.deriv_marker {path : Str} {t : Tok} (ht : ∀ c, t ≠ .lit c) {r r' : R} (h : Drop path r r') :
    deriv t r = deriv t r' := by
  induction h with
  | nil => rfl
  | keep x _ ih =>
    obtain ⟨ts, e⟩ := x
    cases ts with
    | nil => rw [deriv_cons_nil, deriv_cons_nil]; exact ih
    | cons t' ts =>
      by_cases h' : t' = t
      · subst h'; rw [deriv_cons_eq, deriv_cons_eq, ih]
      · rw [deriv_cons_ne h', deriv_cons_ne h']; exact ih
  | @drop x _ _ hx _ ih =>
    obtain ⟨ts, e⟩ := x
    cases ts with
    | nil => rw [deriv_cons_nil]; exact ih
    | cons t' ts =>
      obtain ⟨c, hc⟩ := Irr.head_lit hx
      have h' : t' ≠ t := fun h => ht c (h ▸ hc)
      rw [deriv_cons_ne h']; exact ih

/-- at the end of the path no irrelevant residual ends -/
theorem Drop.ends_eq {r r' : R} (h : Drop [] r r') : ends r = ends r' := by
  induction h with
  | nil => rfl
  | keep x _ ih => simp only [ends, List.filterMap_cons] at ih ⊢; rw [ih]
  | @drop x _ _ hx _ ih =>
    obtain ⟨ts, e⟩ := x
    cases ts with
    | nil => exact absurd rfl (Irr.ne_nil hx)
    | cons t ts => simp only [ends, List.filterMap_cons, List.isEmpty_cons] at ih ⊢; exact ih

/-! ### the search -/

/-- nothing is found in the empty residual set, and nothing is remembered -/
theorem search_empty (m : Str) : ∀ (fuel : Nat) (path : Str) (vals : List Str) (best : Best),
    search m fuel [] path vals best = (.miss, best)
  | 0, _, _, _ => rfl
  | fuel + 1, path, vals, best => by
    have he : stepEnd m (ends []) path best = (none, best) := by
      simp only [stepEnd, ends, List.filterMap_nil, isHandler, List.any_nil, findNF, List.find?_nil]
      split <;> simp
    simp only [search, he, litStep, paramStep, anyStep, deriv, List.filterMap_nil, List.isEmpty_nil, if_true,
      or_true]
    cases path <;> rfl

/-- the literal step without its "does some pattern continue with this byte" test (the search in the empty residual
    set misses and remembers nothing) -/
theorem litStep_search (m : Str) (fuel : Nat) (r : R) (path : Str) (vals : List Str) (best : Best) :
    litStep (fun r' rest b => search m fuel r' rest vals b) r path best =
      match path with
      | c :: rest => search m fuel (deriv (.lit c) r) rest vals best
      | [] => (.miss, best) := by
  cases path with
  | nil => rfl
  | cons c rest =>
    simp only [litStep]
    cases hd : deriv (.lit c) r with
    | nil => simp only [List.isEmpty_nil, if_true, search_empty]
    | cons _ _ => simp only [List.isEmpty_cons, Bool.false_eq_true, if_false]

/-- **residuals that are irrelevant for the path can be left out of the residual set, whereever they stand**: the
    search gives the same result and remembers the same best position -/
theorem search_irrelevant (m : Str) : ∀ (fuel : Nat) {r r' : R} (path : Str) (vals : List Str) (best : Best),
    Drop path r r' → search m fuel r path vals best = search m fuel r' path vals best := by
  intro fuel
  induction fuel with
  | zero => intro r r' path vals best _; rfl
  | succ fuel ih =>
    intro r r' path vals best h
    have hE : stepEnd m (ends r) path best = stepEnd m (ends r') path best := by
      cases path with
      | nil => rw [Drop.ends_eq h]
      | cons c rest => simp only [stepEnd, List.isEmpty_cons, Bool.false_eq_true, if_false]
    have hL : ∀ b, litStep (fun r' rest b => search m fuel r' rest vals b) r path b =
        litStep (fun r' rest b => search m fuel r' rest vals b) r' path b := by
      intro b
      rw [litStep_search, litStep_search]
      cases path with
      | nil => rfl
      | cons c rest => exact ih rest vals b (Drop.deriv_lit h)
    have hP : deriv .param r = deriv .param r' := Drop.deriv_marker (fun c hc => by cases hc) h
    have hA : deriv .any r = deriv .any r' := Drop.deriv_marker (fun c hc => by cases hc) h
    simp only [search, hE, hL, paramStep, anyStep, hP, hA]

/-- the same for `route`: entries whose token lists are irrelevant for the path do not change the outcome -/
theorem route_drop {es es' : List Entry} {path : Str} (h : Drop path (initial es) (initial es')) (m : Str) :
    route es m path = route es' m path := by
  unfold route
  rw [search_irrelevant m _ path [] none h]
  rw [search_fuel_bound m (bound (initial es) + 1) (initial es') path [] none
    (Nat.lt_succ_of_le (Drop.bound_le h))]

end Router.Spec
