import EchoModel.RouterSpec
import EchoProofs.Spec.Basics
/-!
# Two requests that differ only in the method

The search inspects the method only at the positions where it also records `best`.  So the
searches for two methods `m` and `m'` run in lock step until the first such position `X`:
if the search for `m` fails altogether, then `best = X` for it, and the search for `m'`
either hits right at `X` (when `X` has a route for `m'`) or goes on exactly like the one for `m`
(`search_sim`).  This is what makes the Allow header truthful and independent of the method.
-/
namespace Router.Spec
open Router (Str routeNotFound)

theorem stepEnd_best_some (m : Str) (en : List Entry) (path : Str) (b : List Entry) :
    (stepEnd m en path (some b)).2 = some b := by
  unfold stepEnd
  split
  · split <;> rfl
  · rfl

theorem stepAny_best_some (m : Str) (ea : List Entry) (path : Str) (vals : List Str) (b : List Entry) :
    (stepAny m ea path vals (some b)).2 = some b := by
  unfold stepAny
  split
  · rfl
  · simp only [Option.isNone_some, Bool.false_eq_true, if_false]
    split <;> rfl

theorem orElse_best_some {x : Res × Best} {k : Best → Res × Best} {b : List Entry}
    (hx : x.2 = some b) (hk : (k (some b)).2 = some b) : (orElse x k).2 = some b := by
  obtain ⟨res, bx⟩ := x
  simp only at hx
  subst hx
  cases res with
  | hit e v => rfl
  | miss => exact hk

/-- once a best position is recorded it is never replaced -/
theorem search_best_some (m : Str) : ∀ (fuel : Nat) (r : R) (path : Str) (vals : List Str)
    (b : List Entry), (search m fuel r path vals (some b)).2 = some b := by
  intro fuel
  induction fuel with
  | zero => intros; rfl
  | succ fuel ih =>
    intro r path vals b
    simp only [search]
    have h1 := stepEnd_best_some m (ends r) path b
    generalize stepEnd m (ends r) path (some b) = s1 at h1
    obtain ⟨e1, b1⟩ := s1
    simp only at h1
    subst h1
    cases e1 with
    | some e => rfl
    | none =>
      simp only
      apply orElse_best_some
      · unfold litStep
        cases path with
        | nil => rfl
        | cons c rest =>
          simp only
          split
          · rfl
          · exact ih _ _ _ _
      · apply orElse_best_some
        · unfold paramStep
          split
          · rfl
          · exact ih _ _ _ _
        · unfold anyStep
          split
          · rfl
          · exact stepAny_best_some _ _ _ _ _

/-- relation between the results of the searches for `m` (left, assumed to fail) and `m'` -/
def Sim (m' : Str) (x x' : Res × Best) : Prop :=
  x.1 = .miss →
    (x.2 = none → x'.1 = .miss ∧ x'.2 = none) ∧
    (∀ b, x.2 = some b →
      ((∃ e ∈ b, e.method = m') → m' ≠ routeNotFound → ∃ e' v, x'.1 = .hit e' v ∧ e'.method = m') ∧
      (x'.1 = .miss → x'.2 = some b))

theorem orElse_sim {m' : Str} {x x' : Res × Best} {k k' : Best → Res × Best}
    (hx : Sim m' x x')
    (hk : ∀ b, (k (some b)).2 = some b) (hk' : ∀ b, (k' (some b)).2 = some b)
    (hnone : Sim m' (k none) (k' none)) : Sim m' (orElse x k) (orElse x' k') := by
  obtain ⟨res, bx⟩ := x
  obtain ⟨res', bx'⟩ := x'
  intro hmiss
  cases res with
  | hit e v => simp [orElse] at hmiss
  | miss =>
    have hx' := hx rfl
    simp only at hx'
    cases bx with
    | none =>
      obtain ⟨hr', hb'⟩ := hx'.1 rfl
      subst hr' hb'
      exact hnone hmiss
    | some b =>
      have hB := hx'.2 b rfl
      have hfin : (orElse (Res.miss, some b) k).2 = some b := hk b
      refine ⟨fun h => by rw [hfin] at h; simp at h, ?_⟩
      intro b0 hb0
      rw [hfin] at hb0
      simp only [Option.some.injEq] at hb0
      subst hb0
      constructor
      · intro hex hne
        obtain ⟨e', v, hh, hm⟩ := hB.1 hex hne
        subst hh
        exact ⟨e', v, rfl, hm⟩
      · intro hmiss'
        cases res' with
        | hit e v => simp [orElse] at hmiss'
        | miss =>
          have hbx : bx' = some b := hB.2 rfl
          subst hbx
          exact hk' b

theorem sim_of_eq {m' : Str} {x : Res × Best} (hb : x.2 = none) : Sim m' x x := by
  intro hmiss
  refine ⟨fun _ => ⟨hmiss, hb⟩, ?_⟩
  intro b hb'
  rw [hb] at hb'
  simp at hb'

theorem stepAny_sim (m m' : Str) (ea : List Entry) (path : Str) (vals : List Str) :
    Sim m' (stepAny m ea path vals none) (stepAny m' ea path vals none) := by
  intro hmiss
  unfold stepAny at hmiss ⊢
  cases hm : findM ea m with
  | some e => simp [hm] at hmiss
  | none =>
    simp only [hm, Option.isNone_none, if_true] at hmiss ⊢
    cases hnf : findNF ea with
    | some e => simp [hnf] at hmiss
    | none =>
      simp only
      refine ⟨fun h => by simp at h, ?_⟩
      intro b hb
      simp only [Option.some.injEq] at hb
      subst hb
      constructor
      · rintro ⟨e, he, hme⟩ hne
        obtain ⟨e', hf⟩ := findM_isSome_of_mem he hme hne
        simp only [hf]
        exact ⟨e', _, rfl, (findM_some hf).2.1⟩
      · intro h
        cases hm' : findM ea m' with
        | some e => simp [hm'] at h
        | none => simp [hm']

/-- **lock-step lemma**: from an empty best, the search for `m'` simulates a failing search for `m` -/
theorem search_sim (m m' : Str) : ∀ (fuel : Nat) (r : R) (path : Str) (vals : List Str),
    Sim m' (search m fuel r path vals none) (search m' fuel r path vals none) := by
  intro fuel
  induction fuel with
  | zero => intro r path vals; exact sim_of_eq rfl
  | succ fuel ih =>
    intro r path vals
    simp only [search]
    -- the rest of the chain after (1), as continuations of `best`
    have hchain_some : ∀ (mm : Str) (b : List Entry),
        (orElse (litStep (fun r' rest b => search mm fuel r' rest vals b) r path (some b)) fun best =>
          orElse (paramStep (fun r' rest vals' b => search mm fuel r' rest vals' b) r path vals best) fun best =>
            anyStep mm r path vals best).2 = some b := by
      intro mm b
      apply orElse_best_some
      · unfold litStep
        cases path with
        | nil => rfl
        | cons c rest =>
          simp only
          split
          · rfl
          · exact search_best_some _ _ _ _ _ _
      · apply orElse_best_some
        · unfold paramStep
          split
          · rfl
          · exact search_best_some _ _ _ _ _ _
        · unfold anyStep
          split
          · rfl
          · exact stepAny_best_some _ _ _ _ _
    have hchain_none :
        Sim m' (orElse (litStep (fun r' rest b => search m fuel r' rest vals b) r path none) fun best =>
                  orElse (paramStep (fun r' rest vals' b => search m fuel r' rest vals' b) r path vals best) fun best =>
                    anyStep m r path vals best)
               (orElse (litStep (fun r' rest b => search m' fuel r' rest vals b) r path none) fun best =>
                  orElse (paramStep (fun r' rest vals' b => search m' fuel r' rest vals' b) r path vals best) fun best =>
                    anyStep m' r path vals best) := by
      apply orElse_sim
      · unfold litStep
        cases path with
        | nil => exact sim_of_eq rfl
        | cons c rest =>
          simp only
          split
          · exact sim_of_eq rfl
          · exact ih _ _ _
      · intro b
        apply orElse_best_some
        · unfold paramStep
          split
          · rfl
          · exact search_best_some _ _ _ _ _ _
        · unfold anyStep
          split
          · rfl
          · exact stepAny_best_some _ _ _ _ _
      · intro b
        apply orElse_best_some
        · unfold paramStep
          split
          · rfl
          · exact search_best_some _ _ _ _ _ _
        · unfold anyStep
          split
          · rfl
          · exact stepAny_best_some _ _ _ _ _
      · apply orElse_sim
        · unfold paramStep
          split
          · exact sim_of_eq rfl
          · exact ih _ _ _
        · intro b
          unfold anyStep
          split
          · rfl
          · exact stepAny_best_some _ _ _ _ _
        · intro b
          unfold anyStep
          split
          · rfl
          · exact stepAny_best_some _ _ _ _ _
        · unfold anyStep
          split
          · exact sim_of_eq rfl
          · exact stepAny_sim _ _ _ _ _
    -- (1)
    unfold stepEnd
    by_cases hp : path.isEmpty = true
    · simp only [hp, if_true]
      by_cases hh : isHandler (ends r) = true
      · simp only [hh, if_true, Option.isNone_none]
        cases hm : findM (ends r) m with
        | some e => intro hmiss; simp at hmiss
        | none =>
          simp only
          intro hmiss
          have hfin := hchain_some m (ends r)
          refine ⟨fun h => by rw [hfin] at h; simp at h, ?_⟩
          intro b hb
          rw [hfin] at hb
          simp only [Option.some.injEq] at hb
          subst hb
          constructor
          · rintro ⟨e, he, hme⟩ hne
            obtain ⟨e', hf⟩ := findM_isSome_of_mem he hme hne
            simp only [hf]
            exact ⟨e', vals, rfl, (findM_some hf).2.1⟩
          · intro hmiss'
            cases hm' : findM (ends r) m' with
            | some e => simp [hm'] at hmiss'
            | none =>
              simp only
              exact hchain_some m' (ends r)
      · simp only [hh, Bool.false_eq_true, if_false]
        cases hnf : findNF (ends r) with
        | some e => intro hmiss; simp at hmiss
        | none => exact hchain_none
    · simp only [hp, Bool.false_eq_true, if_false]
      exact hchain_none

end Router.Spec
