import EchoProofs.C09
/-!
# C09 — precedence and 400 for EVERY leaf the walk reaches (nested / embedded / pointer structs)

`C09_precedence` / `C09_400` (EchoProofs.C09) speak about top-level fields.  Here a leaf is
addressed by a path of field indices (`List Nat`) through nested `Fields`:

* `leafAt fs a`   — the scalar leaf (meta, element kind) the address `a` denotes in the TYPE;
* `valAt vs a`    — what the VALUE holds there (`none` as soon as a struct on the way is a nil pointer);
* `reach src fs vs a` — the walk of `bindData src` gets to that leaf: the leaf is exported and exists,
  and every struct-typed field on the way is one the walk DESCENDS into for this source
  (`walks`): an exported plain struct WITHOUT a tag for `src` (embedded or not), or an exported
  EMBEDDED pointer to struct without a tag for `src` that is not nil.  Nothing else is descended:
  a struct field that carries a tag for `src` is handed to the unmarshaler path (leaf; for an
  ordinary struct: error as soon as the key is sent, untouched otherwise), an unexported field is
  skipped, a NAMED pointer-to-struct field is never descended (its kind is `Ptr`, not `Struct`),
  a nil embedded pointer is skipped (`Elem()` of nil cannot be set) — the walk never allocates a
  struct pointer in order to descend.

Reachability is PER SOURCE (the tag that blocks the descent is the tag of the source at hand).

Headline theorems
* `bindF_leaf` — one source: a reached leaf gets `stepLeaf`, its text was convertible; a leaf
  that is NOT reached is literally unchanged; reachability (for every source) is not altered.
* `bind_ok_steps` — a successful `Bind` (body not json/xml) IS path-step ; query-step ; form-step.
* `C09_precedence_nested_gen` — every leaf, every address: each of the three steps is applied
  exactly if the leaf is reached for that source (`stepIf`).
* `C09_precedence_nested` — reached for all three sources (`reach3`): the formula of `C09_precedence`.
* `C09_400_nested` — malformed text for a leaf in a source that reaches it: never success;
  `C09_400_nested_exact` — with net/http data (every key has a value) the status is exactly 400.
* `C09_unreached_untouched`, `reach_named_ptr`, `reach_nil_ptr`, `reach_tagged_struct` — what is NOT reached.
* `C09_precedence_top_of_nested`, `C09_400_top_of_nested` — the top-level theorems are the case `[i]`.

Scope (nothing is weakened silently)
* The statement with the three-step formula needs the leaf to be reached by ALL three walks
  (`reach3`).  It is FALSE without that: `B struct { K string `query:"k" form:"k"` } `form:"b"``
  — the form walk treats `B` as a leaf, so `K` keeps the query value although the form carries `k`
  (example below, replayed on the real code).  The general statement `…_gen` covers these leaves too.
* "pointer-to-struct fields are allocated and descended" does NOT describe bind.go: only an EMBEDDED,
  already allocated pointer is descended; a named `*struct` is never descended, a nil one never
  allocated by the walk (a TAGGED `*struct` is allocated and then rejected with 400 — `setField`).
  Proved: `reach_named_ptr`, `reach_nil_ptr`, `C09_unreached_untouched`.
* Slices / arrays / maps of structs are `Shape.other` in the model (no fields to address): bind.go
  never descends into them (kind is not `Struct`) and answers "unknown type" when they are tagged
  and the key is sent.  Leaves that are not `Shape.scalar` (pointer to scalar, slice, unmarshaler,
  file) are addressed by the mask theorems of EchoProofs.C09 only, as before.
-/
namespace C09
open C08 (Elem SVal FVal structElem structElems zeroOf parseElem multiParse)

/-! ## addresses -/

/-- the fields of a struct-typed field -/
def sub : Shape → Fields
  | .struct fs => fs
  | .ptrStruct fs => fs
  | _ => .nil

/-- `bindData src` descends into this struct-typed field (given that its value is a struct, i.e.
    not a nil pointer): exported, no tag for `src`, and — for a pointer — embedded -/
def walks (src : Src) (m : FMeta) : Shape → Bool
  | .struct _ => m.exported && (m.tags.get src == [])
  | .ptrStruct _ => m.exported && m.anonymous && (m.tags.get src == [])
  | _ => false

/-- the scalar leaf an address denotes in the type -/
def leafAt : Fields → List Nat → Option (FMeta × Elem)
  | _, [] => none
  | fs, [i] =>
    match fieldAt fs i with
    | some (m, .scalar e) => some (m, e)
    | _ => none
  | fs, i :: j :: rest =>
    match fieldAt fs i with
    | some (_, s) => leafAt (sub s) (j :: rest)
    | none => none

/-- the value at an address -/
def valAt : List Val → List Nat → Option Val
  | _, [] => none
  | vs, [i] => vs[i]?
  | vs, i :: j :: rest =>
    match vs[i]? with
    | some (.struct vs') => valAt vs' (j :: rest)
    | _ => none

/-- the walk of `bindData src` reaches the leaf at this address -/
def reach (src : Src) : Fields → List Val → List Nat → Bool
  | _, _, [] => false
  | fs, vs, [i] =>
    match fieldAt fs i with
    | some (m, .scalar _) => m.exported && decide (i < vs.length)
    | _ => false
  | fs, vs, i :: j :: rest =>
    match fieldAt fs i, vs[i]? with
    | some (m, s), some (.struct vs') => walks src m s && reach src (sub s) vs' (j :: rest)
    | _, _ => false

/-- reached by all three sources of `Bind` -/
def reach3 (fs : Fields) (vs : List Val) (a : List Nat) : Bool :=
  reach .param fs vs a && reach .query fs vs a && reach .form fs vs a

/-- a source step that is applied only if the leaf is reached -/
def stepIf (b : Bool) (e : Elem) (tag : List Char) (data : Data) (cur : Option Val) : Option Val :=
  if b then stepLeaf e tag data cur else cur

theorem fieldAt_nil (i : Nat) : fieldAt .nil i = none := by simp [fieldAt]

theorem leafAt_nil : ∀ a : List Nat, leafAt .nil a = none
  | [] => rfl
  | [i] => by simp [leafAt, fieldAt]
  | i :: j :: rest => by simp [leafAt, fieldAt]

theorem leafAt_one (fs : Fields) (i : Nat) (m : FMeta) (e : Elem) :
    leafAt fs [i] = some (m, e) ↔ fieldAt fs i = some (m, .scalar e) := by
  simp only [leafAt]
  constructor
  · intro h
    split at h
    · rename_i m' e' hf
      simp only [Option.some.injEq, Prod.mk.injEq] at h
      rw [hf, h.1, h.2]
    · cases h
  · intro h
    rw [h]

theorem valAt_one (vs : List Val) (i : Nat) : valAt vs [i] = vs[i]? := rfl

theorem reach_one (src : Src) (fs : Fields) (vs : List Val) (i : Nat) (m : FMeta) (e : Elem)
    (hf : fieldAt fs i = some (m, .scalar e)) :
    reach src fs vs [i] = (m.exported && decide (i < vs.length)) := by
  simp only [reach, hf]

/-! ## one field of the walk -/

theorem bindF_get (src : Src) (data files : Data) :
    ∀ (fs : Fields) (vs : List Val) (i : Nat) (m : FMeta) (s : Shape) (v : Val),
      fieldAt fs i = some (m, s) → vs[i]? = some v → (bindF src data files fs vs).2 = none →
      (bindF src data files fs vs).1[i]? = some (bindS src data files m s v).1
      ∧ (bindS src data files m s v).2 = none
  | .nil, _, _, _, _, _, h, _, _ => by simp [fieldAt] at h
  | .cons m0 s0 rest, [], i, m, s, v, _, hv, _ => by simp at hv
  | .cons m0 s0 rest, v0 :: vs, 0, m, s, v, h, hv, hok => by
    simp only [fieldAt, Option.some.injEq, Prod.mk.injEq] at h
    obtain ⟨rfl, rfl⟩ := h
    simp only [List.getElem?_cons_zero, Option.some.injEq] at hv
    subst hv
    unfold bindF at hok ⊢
    cases hb : bindS src data files m0 s0 v0 with
    | mk v' er =>
      rw [hb] at hok
      cases er with
      | some er => simp at hok
      | none => simp
  | .cons m0 s0 rest, v0 :: vs, i + 1, m, s, v, h, hv, hok => by
    unfold bindF at hok ⊢
    cases hb : bindS src data files m0 s0 v0 with
    | mk v' er =>
      rw [hb] at hok
      cases er with
      | some er => simp at hok
      | none =>
        have ih := bindF_get src data files rest vs i m s v (by simpa [fieldAt] using h)
          (by simpa using hv) (by simpa using hok)
        simpa using ih

theorem bindS_unexported (src : Src) (data files : Data) (m : FMeta) (s : Shape) (v : Val)
    (h : m.exported = false) : bindS src data files m s v = (v, none) := by
  cases s <;> cases v <;> simp [bindS, h]

theorem walks_struct {src : Src} {m : FMeta} {fs : Fields} (h : walks src m (.struct fs) = true) :
    m.exported = true ∧ m.tags.get src = [] := by
  simpa [walks] using h

theorem walks_ptrStruct {src : Src} {m : FMeta} {fs : Fields} (h : walks src m (.ptrStruct fs) = true) :
    m.exported = true ∧ m.anonymous = true ∧ m.tags.get src = [] := by
  simpa [walks, and_assoc] using h

/-- where the walk descends, the field's step IS the walk over its fields -/
theorem bindS_walk (src : Src) (data files : Data) (m : FMeta) (s : Shape) (vs' : List Val)
    (hw : walks src m s = true) :
    bindS src data files m s (.struct vs')
      = (.struct (bindF src data files (sub s) vs').1, (bindF src data files (sub s) vs').2) := by
  cases s with
  | struct fs =>
    obtain ⟨h1, h2⟩ := walks_struct hw
    simp [bindS, h1, h2, sub]
  | ptrStruct fs =>
    obtain ⟨h1, h2, h3⟩ := walks_ptrStruct hw
    simp [bindS, h1, h2, h3, sub]
  | _ => simp [walks] at hw

theorem fileStep_structShape (files : Data) (t : List Char) (s : Shape) (v : Val)
    (hs : (∃ fs, s = .struct fs) ∨ (∃ fs, s = .ptrStruct fs)) : fileStep files t s v = none := by
  rcases hs with ⟨fs, rfl⟩ | ⟨fs, rfl⟩ <;> (unfold fileStep; split <;> rfl)

/-- a struct-typed field handed to the tagged path: success means nothing was written -/
theorem taggedStep_structShape (src : Src) (data files : Data) (m : FMeta) (s : Shape) (v : Val)
    (hs : (∃ fs, s = .struct fs) ∨ (∃ fs, s = .ptrStruct fs))
    (hok : (taggedStep src data files m s v).2 = none) : (taggedStep src data files m s v).1 = v := by
  unfold taggedStep at hok ⊢
  rw [fileStep_structShape files _ s v hs] at hok ⊢
  cases hl : lookup data (m.tags.get src) with
  | none => rfl
  | some values =>
    simp only [hl] at hok ⊢
    rcases hs with ⟨fs, rfl⟩ | ⟨fs, rfl⟩
    · simp only at hok
      unfold setField at hok
      cases values <;> simp at hok
    · simp only at hok
      unfold setField at hok
      cases values <;> simp at hok

/-- where the walk does not descend, a successful step leaves a struct-typed field as it was -/
theorem bindS_nowalk (src : Src) (data files : Data) (m : FMeta) (s : Shape) (v : Val)
    (hs : (∃ fs, s = .struct fs) ∨ (∃ fs, s = .ptrStruct fs))
    (hnw : ∀ vs', v = .struct vs' → walks src m s = false)
    (hok : (bindS src data files m s v).2 = none) : (bindS src data files m s v).1 = v := by
  by_cases hexp : m.exported = false
  · rw [bindS_unexported src data files m s v hexp]
  have hexp' := exported_true hexp
  have ht := fun h => taggedStep_structShape src data files m s v hs h
  rcases hs with ⟨fs, rfl⟩ | ⟨fs, rfl⟩
  · cases v with
    | struct vs' =>
      have hw := hnw vs' rfl
      have htag : m.tags.get src ≠ [] := by
        intro h; simp [walks, hexp', h] at hw
      unfold bindS at hok ⊢
      simp only [hexp', htag] at hok ⊢
      by_cases ha : m.anonymous = true
      · simp [ha, htag] at hok
      · simp only [ha] at hok ⊢
        simpa using ht (by simpa using hok)
    | leaf x =>
      unfold bindS at hok ⊢
      simp only [hexp'] at hok ⊢
      by_cases htag : m.tags.get src = []
      · simp [htag]
      · simp only [htag] at hok ⊢
        simpa using ht (by simpa using hok)
    | nilStruct =>
      unfold bindS at hok ⊢
      simp only [hexp'] at hok ⊢
      by_cases htag : m.tags.get src = []
      · simp [htag]
      · simp only [htag] at hok ⊢
        simpa using ht (by simpa using hok)
    | other =>
      unfold bindS at hok ⊢
      simp only [hexp'] at hok ⊢
      by_cases htag : m.tags.get src = []
      · simp [htag]
      · simp only [htag] at hok ⊢
        simpa using ht (by simpa using hok)
  · cases v with
    | struct vs' =>
      have hw := hnw vs' rfl
      unfold bindS at hok ⊢
      simp only [hexp'] at hok ⊢
      by_cases ha : m.anonymous = true
      · have htag : m.tags.get src ≠ [] := by
          intro h; simp [walks, hexp', h, ha] at hw
        simp [ha, htag] at hok ⊢
      · simp only [ha] at hok ⊢
        by_cases htag : m.tags.get src = []
        · simp [htag]
        · simp only [htag] at hok ⊢
          simpa using ht (by simpa using hok)
    | leaf x =>
      unfold bindS at hok ⊢
      simp only [hexp'] at hok ⊢
      by_cases ha : m.anonymous = true
      · simp [ha]
      · simp only [ha] at hok ⊢
        by_cases htag : m.tags.get src = []
        · simp [htag]
        · simp only [htag] at hok ⊢
          simpa using ht (by simpa using hok)
    | nilStruct =>
      unfold bindS at hok ⊢
      simp only [hexp'] at hok ⊢
      by_cases ha : m.anonymous = true
      · simp [ha]
      · simp only [ha] at hok ⊢
        by_cases htag : m.tags.get src = []
        · simp [htag]
        · simp only [htag] at hok ⊢
          simpa using ht (by simpa using hok)
    | other =>
      unfold bindS at hok ⊢
      simp only [hexp'] at hok ⊢
      by_cases ha : m.anonymous = true
      · simp [ha]
      · simp only [ha] at hok ⊢
        by_cases htag : m.tags.get src = []
        · simp [htag]
        · simp only [htag] at hok ⊢
          simpa using ht (by simpa using hok)

/-! ## one source, every leaf -/

theorem getElem?_none_of_bindF (src : Src) (data files : Data) (fs : Fields) (vs : List Val) (i : Nat)
    (h : vs[i]? = none) : (bindF src data files fs vs).1[i]? = none := by
  rw [List.getElem?_eq_none_iff] at h ⊢
  rw [bindF_length]; exact h

/-- **one source, every leaf** — if the walk over a source succeeds then, for every address that
    denotes a scalar leaf in the type:
    (1) if the walk reaches it, it holds `stepLeaf` of what it held, and its text was convertible;
    (2) if the walk does not reach it, it is exactly what it was;
    (3) which leaves which source reaches is unchanged (no pointer is allocated or cleared). -/
theorem bindF_leaf (src : Src) (data files : Data) :
    ∀ (a : List Nat) (fs : Fields) (vs : List Val) (m : FMeta) (e : Elem),
      leafAt fs a = some (m, e) → (bindF src data files fs vs).2 = none →
      (reach src fs vs a = true →
        valAt (bindF src data files fs vs).1 a = stepLeaf e (m.tags.get src) data (valAt vs a)
        ∧ ¬ badIn e (m.tags.get src) data)
      ∧ (reach src fs vs a = false → valAt (bindF src data files fs vs).1 a = valAt vs a)
      ∧ (∀ src', reach src' fs (bindF src data files fs vs).1 a = reach src' fs vs a)
  | [], fs, vs, m, e, hl, _ => by simp [leafAt] at hl
  | [i], fs, vs, m, e, hl, hok => by
    have hf := (leafAt_one fs i m e).1 hl
    refine ⟨?_, ?_, ?_⟩
    · intro hr
      rw [reach_one src fs vs i m e hf] at hr
      simp only [Bool.and_eq_true, decide_eq_true_eq] at hr
      exact bindF_top src data files fs vs i m e hf hr.1 hr.2 hok
    · intro hr
      rw [reach_one src fs vs i m e hf] at hr
      simp only [valAt_one]
      cases hv : vs[i]? with
      | none => exact getElem?_none_of_bindF src data files fs vs i hv
      | some v =>
        have hi : i < vs.length := by
          have := List.getElem?_eq_some_iff.1 hv
          exact this.1
        have hexp : m.exported = false := by
          cases hh : m.exported with
          | false => rfl
          | true => simp [hh, hi] at hr
        obtain ⟨h1, _⟩ := bindF_get src data files fs vs i m (.scalar e) v hf hv hok
        rw [h1, bindS_unexported src data files m _ v hexp]
    · intro src'
      rw [reach_one src' fs _ i m e hf, reach_one src' fs vs i m e hf, bindF_length]
  | i :: j :: rest, fs, vs, m, e, hl, hok => by
    simp only [leafAt] at hl
    cases hfa : fieldAt fs i with
    | none => simp [hfa] at hl
    | some ms =>
      obtain ⟨mi, s⟩ := ms
      simp only [hfa] at hl
      have hs : (∃ fs', s = .struct fs') ∨ (∃ fs', s = .ptrStruct fs') := by
        cases s with
        | struct fs' => exact Or.inl ⟨fs', rfl⟩
        | ptrStruct fs' => exact Or.inr ⟨fs', rfl⟩
        | _ => simp [sub, leafAt_nil] at hl
      cases hv : vs[i]? with
      | none =>
        have hv' := getElem?_none_of_bindF src data files fs vs i hv
        simp only [reach, valAt, hfa, hv, hv']
        simp
      | some v =>
        obtain ⟨h1, h2⟩ := bindF_get src data files fs vs i mi s v hfa hv hok
        by_cases hdesc : (∃ vs', v = .struct vs') ∧ walks src mi s = true
        · obtain ⟨⟨vs', rfl⟩, hw⟩ := hdesc
          rw [bindS_walk src data files mi s vs' hw] at h1 h2
          simp only at h1 h2
          obtain ⟨ih1, ih2, ih3⟩ := bindF_leaf src data files (j :: rest) (sub s) vs' m e hl h2
          simp only [reach, valAt, hfa, hv, h1, hw, Bool.true_and]
          refine ⟨ih1, ih2, ?_⟩
          intro src'
          rw [ih3 src']
        · have hnw : ∀ vs', v = .struct vs' → walks src mi s = false := by
            intro vs' hvs
            cases hh : walks src mi s with
            | false => rfl
            | true => exact absurd ⟨⟨vs', hvs⟩, hh⟩ hdesc
          have hsame := bindS_nowalk src data files mi s v hs hnw h2
          rw [hsame] at h1
          have hnr : reach src fs vs (i :: j :: rest) = false := by
            simp only [reach, hfa, hv]
            cases v with
            | struct vs' => simp [hnw vs' rfl]
            | _ => rfl
          refine ⟨?_, ?_, ?_⟩
          · intro hr; rw [hnr] at hr; cases hr
          · intro _
            simp only [valAt, hv, h1]
          · intro src'
            simp only [reach, hfa, hv, h1]

/-- one source on a struct destination, every leaf -/
theorem bindData_leaf (src : Src) (data files : Data) (fs : Fields) (vs : List Val) (a : List Nat)
    (m : FMeta) (e : Elem) (hl : leafAt fs a = some (m, e)) (w : DVal)
    (hok : bindData src data files (.struct fs) (.struct vs) = (w, none)) :
    ∃ vs', w = .struct vs'
      ∧ (∀ src', reach src' fs vs' a = reach src' fs vs a)
      ∧ valAt vs' a = stepIf (reach src fs vs a) e (m.tags.get src) data (valAt vs a)
      ∧ (reach src fs vs a = true → ¬ badIn e (m.tags.get src) data) := by
  unfold bindData at hok
  by_cases hd : data = [] ∧ files = []
  · obtain ⟨hd1, hd2⟩ := hd
    subst hd1
    simp only [hd2, and_self, if_true, Prod.mk.injEq] at hok
    refine ⟨vs, hok.1.symm, fun _ => rfl, ?_, fun _ => not_badIn_nil _ _⟩
    unfold stepIf
    rw [stepLeaf_nil]; simp
  · simp only [hd, if_false, Prod.mk.injEq] at hok
    obtain ⟨h1, h2, h3⟩ := bindF_leaf src data files a fs vs m e hl hok.2
    refine ⟨_, hok.1.symm, h3, ?_, fun hr => (h1 hr).2⟩
    unfold stepIf
    cases hr : reach src fs vs a with
    | true => simpa using (h1 hr).1
    | false => simpa using h2 hr

/-! ## Bind = path step ; query step ; form step -/

theorem bindData_nil (src : Src) (d : Dest) (v : DVal) : bindData src [] [] d v = (v, none) := by
  simp [bindData]

theorem pair_ok {α : Type} (res : α × Option Err) (v' : α) (h : (res.1, statusOf res.2) = (v', Status.ok)) :
    res = (v', none) := by
  obtain ⟨a, b⟩ := res
  simp only [Prod.mk.injEq] at h
  rw [(statusOf_ok b).1 h.2, h.1]

/-- a successful body step that is not json/xml IS the form walk over `formOf r` -/
theorem bindBody_ok_form (d : Dest) (v : DVal) (r : BindReq) (hnd : ¬ decoded r) (v' : DVal)
    (h : bindBody d v r = (v', .ok)) :
    ∃ files, bindData .form (formOf r) files d v = (v', none) := by
  unfold bindBody at h
  unfold formOf
  unfold decoded at hnd
  by_cases hb : r.hasBody = false
  · simp only [hb, if_true, Prod.mk.injEq] at h ⊢
    exact ⟨[], by rw [bindData_nil, h.1]⟩
  · have hb' : r.hasBody = true := by cases hh : r.hasBody <;> simp_all
    simp only [hb', Bool.true_eq_false, if_false] at h ⊢
    by_cases h1 : mediaType r.ctype = mJSON
    · exact absurd ⟨hb', Or.inl h1⟩ hnd
    · by_cases h2 : mediaType r.ctype = mXML ∨ mediaType r.ctype = mTextXML
      · exact absurd ⟨hb', Or.inr h2⟩ hnd
      · simp only [h1, h2, if_false] at h ⊢
        by_cases h3 : mediaType r.ctype = mForm
        · simp only [h3, if_true] at h ⊢
          by_cases hq : r.queryOK = false
          · simp [hq] at h
          have hq' : r.queryOK = true := by cases hh : r.queryOK <;> simp_all
          simp only [hq', Bool.true_eq_false, if_false] at h ⊢
          by_cases h4 : bodyFormMethods.contains r.method = true
          · simp only [h4, if_true] at h ⊢
            cases hfb : r.formBody with
            | none => simp [hfb] at h
            | some body =>
              simp only [hfb] at h ⊢
              exact ⟨[], pair_ok _ _ h⟩
          · simp only [h4, Bool.false_eq_true, if_false] at h ⊢
            exact ⟨[], pair_ok _ _ h⟩
        · simp only [h3, if_false] at h ⊢
          by_cases h5 : mediaType r.ctype = mMultipart
          · simp only [h5, if_true] at h ⊢
            by_cases hq : r.queryOK = false
            · simp [hq] at h
            have hq' : r.queryOK = true := by cases hh : r.queryOK <;> simp_all
            simp only [hq', Bool.true_eq_false, if_false] at h ⊢
            cases hmp : r.multipart with
            | none => simp [hmp] at h
            | some body =>
              simp only [hmp] at h ⊢
              exact ⟨r.files, pair_ok _ _ h⟩
          · simp [h5] at h

/-- **a successful `Bind`** (body not handed to encoding/json|xml) is exactly: the path walk, then
    the query walk over `queryOf r` (empty unless GET/DELETE/HEAD), then the form walk over
    `formOf r` — each of them successful — for every destination -/
theorem bind_ok_steps (d : Dest) (v : DVal) (r : BindReq) (hnd : ¬ decoded r) (v' : DVal)
    (h : bind d v r = (v', .ok)) :
    ∃ v1 v2 files, bindData .param r.params [] d v = (v1, none)
      ∧ bindData .query (queryOf r) [] d v1 = (v2, none)
      ∧ bindData .form (formOf r) files d v2 = (v', none) := by
  unfold bind at h
  simp only at h
  cases h1 : bindData .param r.params [] d v with
  | mk v1 e1 =>
    rw [h1] at h
    cases e1 with
    | some er => cases er <;> simp [statusOf] at h
    | none =>
      simp only at h
      unfold queryOf
      by_cases hq : queryMethods.contains r.method = true
      · simp only [hq, if_true] at h ⊢
        cases h2 : bindData .query r.query [] d v1 with
        | mk v2 e2 =>
          rw [h2] at h
          cases e2 with
          | some er => cases er <;> simp [statusOf] at h
          | none =>
            simp only at h
            obtain ⟨files, h3⟩ := bindBody_ok_form d v2 r hnd v' h
            exact ⟨v1, v2, files, rfl, h2, h3⟩
      · simp only [hq, Bool.false_eq_true, if_false] at h ⊢
        obtain ⟨files, h3⟩ := bindBody_ok_form d v1 r hnd v' h
        exact ⟨v1, v1, files, rfl, bindData_nil _ _ _, h3⟩

/-! ## the headline theorems -/

/-- **C09_precedence_nested_gen** — every address that denotes a scalar leaf, at any depth, through
    plain, embedded and pointer structs: if `Bind` succeeds (body not json/xml) the leaf holds
    path → query → form applied in this order, EACH STEP EXACTLY IF THE WALK OF THAT SOURCE REACHES
    THE LEAF (`reach`, evaluated on the destination as it was before `Bind`); a source that does
    not reach it leaves it alone; and no source that reaches it carried a malformed text for it. -/
theorem C09_precedence_nested_gen (fs : Fields) (vs : List Val) (r : BindReq) (a : List Nat) (m : FMeta)
    (e : Elem) (hl : leafAt fs a = some (m, e)) (hnd : ¬ decoded r) (v' : DVal)
    (h : bind (.struct fs) (.struct vs) r = (v', .ok)) :
    ∃ vs', v' = .struct vs'
      ∧ valAt vs' a = stepIf (reach .form fs vs a) e m.tags.form (formOf r)
                        (stepIf (reach .query fs vs a) e m.tags.query (queryOf r)
                          (stepIf (reach .param fs vs a) e m.tags.param r.params (valAt vs a)))
      ∧ (reach .param fs vs a = true → ¬ badIn e m.tags.param r.params)
      ∧ (reach .query fs vs a = true → ¬ badIn e m.tags.query (queryOf r))
      ∧ (reach .form fs vs a = true → ¬ badIn e m.tags.form (formOf r))
      ∧ (∀ src, reach src fs vs' a = reach src fs vs a) := by
  obtain ⟨w1, w2, files, s1, s2, s3⟩ := bind_ok_steps _ _ r hnd v' h
  obtain ⟨vs1, rfl, r1, c1, d1⟩ := bindData_leaf .param r.params [] fs vs a m e hl w1 s1
  obtain ⟨vs2, rfl, r2, c2, d2⟩ := bindData_leaf .query (queryOf r) [] fs vs1 a m e hl w2 s2
  obtain ⟨vs3, rfl, r3, c3, d3⟩ := bindData_leaf .form (formOf r) files fs vs2 a m e hl v' s3
  refine ⟨vs3, rfl, ?_, d1, ?_, ?_, ?_⟩
  · rw [c3, c2, c1, r2, r1, r1]; rfl
  · intro hr; exact d2 (by rw [r1]; exact hr)
  · intro hr; exact d3 (by rw [r2, r1]; exact hr)
  · intro src; rw [r3, r2, r1]

theorem reach3_iff (fs : Fields) (vs : List Val) (a : List Nat) :
    reach3 fs vs a = true ↔ reach .param fs vs a = true ∧ reach .query fs vs a = true ∧ reach .form fs vs a = true := by
  simp [reach3, and_assoc]

/-- **C09_precedence_nested** — for every leaf the walk reaches (for the three sources of `Bind`),
    at any depth: after a successful `Bind` (body not json/xml) it holds exactly what the formula
    of `C09_precedence` says — the LAST of path → query (GET/DELETE/HEAD) → form body that carries
    a key for its tag wins, else the previous value — and none of the applied sources carried a
    malformed text for it. -/
theorem C09_precedence_nested (fs : Fields) (vs : List Val) (r : BindReq) (a : List Nat) (m : FMeta)
    (e : Elem) (hl : leafAt fs a = some (m, e)) (hr : reach3 fs vs a = true)
    (hnd : ¬ decoded r) (v' : DVal) (h : bind (.struct fs) (.struct vs) r = (v', .ok)) :
    ∃ vs', v' = .struct vs'
      ∧ valAt vs' a = stepLeaf e m.tags.form (formOf r)
                        (stepLeaf e m.tags.query (queryOf r)
                          (stepLeaf e m.tags.param r.params (valAt vs a)))
      ∧ ¬ badIn e m.tags.param r.params ∧ ¬ badIn e m.tags.query (queryOf r)
      ∧ ¬ badIn e m.tags.form (formOf r) := by
  obtain ⟨hp, hq, hf⟩ := (reach3_iff fs vs a).1 hr
  obtain ⟨vs', a1, a2, a3, a4, a5, _⟩ := C09_precedence_nested_gen fs vs r a m e hl hnd v' h
  refine ⟨vs', a1, ?_, a3 hp, a4 hq, a5 hf⟩
  rw [a2, hp, hq, hf]; rfl

/-- **C09_400_nested** — never bound in silence, at any depth: a malformed text for a scalar leaf in
    ANY applied source whose walk reaches the leaf makes `Bind` fail, whatever the other sources
    carry and whatever else the destination contains -/
theorem C09_400_nested (fs : Fields) (vs : List Val) (r : BindReq) (a : List Nat) (m : FMeta) (e : Elem)
    (hl : leafAt fs a = some (m, e)) (hnd : ¬ decoded r)
    (hbad : (reach .param fs vs a = true ∧ badIn e m.tags.param r.params)
      ∨ (reach .query fs vs a = true ∧ badIn e m.tags.query (queryOf r))
      ∨ (reach .form fs vs a = true ∧ badIn e m.tags.form (formOf r))) :
    (bind (.struct fs) (.struct vs) r).2 ≠ .ok := by
  intro hok
  obtain ⟨_, _, _, d1, d2, d3, _⟩ := C09_precedence_nested_gen fs vs r a m e hl hnd
    (bind (.struct fs) (.struct vs) r).1 (by rw [← hok])
  rcases hbad with hb | hb | hb
  · exact d1 hb.1 hb.2
  · exact d2 hb.1 hb.2
  · exact d3 hb.1 hb.2

/-! ## the top-level theorems are the case `[i]` -/

theorem reach3_one (fs : Fields) (vs : List Val) (i : Nat) (m : FMeta) (e : Elem)
    (hf : fieldAt fs i = some (m, .scalar e)) (hexp : m.exported = true) (hi : i < vs.length) :
    reach3 fs vs [i] = true := by
  simp [reach3, reach_one _ fs vs i m e hf, hexp, hi]

/-- `C09_precedence` re-derived from `C09_precedence_nested` at the address `[i]` -/
theorem C09_precedence_top_of_nested (fs : Fields) (vs : List Val) (r : BindReq) (i : Nat) (m : FMeta) (e : Elem)
    (hf : fieldAt fs i = some (m, .scalar e)) (hexp : m.exported = true) (hi : i < vs.length)
    (hnd : ¬ decoded r) (v' : DVal) (h : bind (.struct fs) (.struct vs) r = (v', .ok)) :
    ∃ vs', v' = .struct vs'
      ∧ vs'[i]? = stepLeaf e m.tags.form (formOf r)
                    (stepLeaf e m.tags.query (queryOf r)
                      (stepLeaf e m.tags.param r.params vs[i]?))
      ∧ ¬ badIn e m.tags.param r.params ∧ ¬ badIn e m.tags.query (queryOf r)
      ∧ ¬ badIn e m.tags.form (formOf r) :=
  C09_precedence_nested fs vs r [i] m e ((leafAt_one fs i m e).2 hf) (reach3_one fs vs i m e hf hexp hi) hnd v' h

/-- `C09_400` re-derived from `C09_400_nested` at the address `[i]` -/
theorem C09_400_top_of_nested (fs : Fields) (vs : List Val) (r : BindReq) (i : Nat) (m : FMeta) (e : Elem)
    (hf : fieldAt fs i = some (m, .scalar e)) (hexp : m.exported = true) (hi : i < vs.length)
    (hnd : ¬ decoded r)
    (hbad : badIn e m.tags.param r.params ∨ badIn e m.tags.query (queryOf r)
      ∨ badIn e m.tags.form (formOf r)) :
    (bind (.struct fs) (.struct vs) r).2 ≠ .ok := by
  have hr := (reach3_iff fs vs [i]).1 (reach3_one fs vs i m e hf hexp hi)
  refine C09_400_nested fs vs r [i] m e ((leafAt_one fs i m e).2 hf) hnd ?_
  rcases hbad with hb | hb | hb
  · exact Or.inl ⟨hr.1, hb⟩
  · exact Or.inr (Or.inl ⟨hr.2.1, hb⟩)
  · exact Or.inr (Or.inr ⟨hr.2.2, hb⟩)

/-! ## exactly 400 -/

/-- the body step, when the body is not json/xml: either the form walk over `formOf r`, or a
    refusal (400 / 415) that leaves the destination alone and has no form data -/
theorem bindBody_cases (d : Dest) (v : DVal) (r : BindReq) (hnd : ¬ decoded r) :
    (∃ files, bindBody d v r = ((bindData .form (formOf r) files d v).1,
        statusOf (bindData .form (formOf r) files d v).2))
    ∨ (((bindBody d v r).2 = .bad ∨ (bindBody d v r).2 = .unsupported) ∧ formOf r = []) := by
  unfold bindBody
  unfold formOf
  unfold decoded at hnd
  by_cases hb : r.hasBody = false
  · simp only [hb, if_true]
    exact Or.inl ⟨[], by rw [bindData_nil]; rfl⟩
  · have hb' : r.hasBody = true := by cases hh : r.hasBody <;> simp_all
    simp only [hb', Bool.true_eq_false, if_false]
    by_cases h1 : mediaType r.ctype = mJSON
    · exact absurd ⟨hb', Or.inl h1⟩ hnd
    · by_cases h2 : mediaType r.ctype = mXML ∨ mediaType r.ctype = mTextXML
      · exact absurd ⟨hb', Or.inr h2⟩ hnd
      · simp only [h1, h2, if_false]
        by_cases h3 : mediaType r.ctype = mForm
        · simp only [h3, if_true]
          by_cases hq : r.queryOK = false
          · simp [hq]
          have hq' : r.queryOK = true := by cases hh : r.queryOK <;> simp_all
          simp only [hq', Bool.true_eq_false, if_false]
          by_cases h4 : bodyFormMethods.contains r.method = true
          · simp only [h4, if_true]
            cases hfb : r.formBody with
            | none => exact Or.inr ⟨Or.inl rfl, rfl⟩
            | some body => exact Or.inl ⟨[], rfl⟩
          · simp only [h4, Bool.false_eq_true, if_false]
            exact Or.inl ⟨[], rfl⟩
        · simp only [h3, if_false]
          by_cases h5 : mediaType r.ctype = mMultipart
          · simp only [h5, if_true]
            by_cases hq : r.queryOK = false
            · simp [hq]
            have hq' : r.queryOK = true := by cases hh : r.queryOK <;> simp_all
            simp only [hq', Bool.true_eq_false, if_false]
            cases hmp : r.multipart with
            | none => exact Or.inr ⟨Or.inl rfl, rfl⟩
            | some body => exact Or.inl ⟨r.files, rfl⟩
          · simp [h5]

/-- `Bind` stops at the first step that fails -/
theorem bind_cases (d : Dest) (v : DVal) (r : BindReq) :
    (∃ w e, bindData .param r.params [] d v = (w, some e) ∧ bind d v r = (w, statusOf (some e)))
    ∨ (∃ v1 w e, bindData .param r.params [] d v = (v1, none)
        ∧ bindData .query (queryOf r) [] d v1 = (w, some e) ∧ bind d v r = (w, statusOf (some e)))
    ∨ (∃ v1 v2, bindData .param r.params [] d v = (v1, none)
        ∧ bindData .query (queryOf r) [] d v1 = (v2, none) ∧ bind d v r = bindBody d v2 r) := by
  unfold bind
  simp only
  cases h1 : bindData .param r.params [] d v with
  | mk v1 e1 =>
    cases e1 with
    | some er => exact Or.inl ⟨v1, er, rfl, rfl⟩
    | none =>
      simp only
      unfold queryOf
      by_cases hq : queryMethods.contains r.method = true
      · simp only [hq, if_true]
        cases h2 : bindData .query r.query [] d v1 with
        | mk v2 e2 =>
          cases e2 with
          | some er => exact Or.inr (Or.inl ⟨v1, v2, er, rfl, h2, rfl⟩)
          | none => exact Or.inr (Or.inr ⟨v1, v2, rfl, h2, rfl⟩)
      · simp only [hq, Bool.false_eq_true, if_false]
        exact Or.inr (Or.inr ⟨v1, v1, rfl, bindData_nil _ _ _, rfl⟩)

theorem bindData_struct (src : Src) (data files : Data) (fs : Fields) (vs : List Val) :
    ∃ vs', (bindData src data files (.struct fs) (.struct vs)).1 = .struct vs' := by
  unfold bindData
  by_cases hd : data = [] ∧ files = []
  · exact ⟨vs, by simp [hd]⟩
  · exact ⟨(bindF src data files fs vs).1, by simp only [hd, if_false]⟩

theorem statusOf_some_bad (e : Err) (h : e ≠ .panic) : statusOf (some e) = .bad := by
  cases e with
  | bad => rfl
  | panic => exact absurd rfl h

/-- **C09_400_nested_exact** — with request data as net/http produces them (every key has at least
    one value) a malformed text for a leaf in a source whose walk reaches it makes `Bind` answer
    EXACTLY 400 — not success, not 415 (even if the Content-Type is unsupported: the path and query
    steps come first), not a panic — whatever the other sources and fields hold. -/
theorem C09_400_nested_exact (fs : Fields) (vs : List Val) (r : BindReq) (a : List Nat) (m : FMeta) (e : Elem)
    (hl : leafAt fs a = some (m, e)) (hnd : ¬ decoded r)
    (hp : ∀ kv ∈ r.params, kv.2 ≠ []) (hq : ∀ kv ∈ queryOf r, kv.2 ≠ []) (hf : ∀ kv ∈ formOf r, kv.2 ≠ [])
    (hbad : (reach .param fs vs a = true ∧ badIn e m.tags.param r.params)
      ∨ (reach .query fs vs a = true ∧ badIn e m.tags.query (queryOf r))
      ∨ (reach .form fs vs a = true ∧ badIn e m.tags.form (formOf r))) :
    (bind (.struct fs) (.struct vs) r).2 = .bad := by
  have hnok := C09_400_nested fs vs r a m e hl hnd hbad
  rcases bind_cases (.struct fs) (.struct vs) r with ⟨w, er, h1, hb⟩ | ⟨v1, w, er, h1, h2, hb⟩ | ⟨v1, v2, h1, h2, hb⟩
  · rw [hb]
    apply statusOf_some_bad
    intro hpanic
    have := C09_no_panic .param r.params [] hp fs vs
    rw [h1] at this
    exact this (by rw [hpanic])
  · rw [hb]
    apply statusOf_some_bad
    intro hpanic
    obtain ⟨vs1, rfl, _⟩ := bindData_leaf .param r.params [] fs vs a m e hl v1 h1
    have := C09_no_panic .query (queryOf r) [] hq fs vs1
    rw [h2] at this
    exact this (by rw [hpanic])
  · obtain ⟨vs1, rfl, r1, _, d1⟩ := bindData_leaf .param r.params [] fs vs a m e hl v1 h1
    obtain ⟨vs2, rfl, r2, _, d2⟩ := bindData_leaf .query (queryOf r) [] fs vs1 a m e hl v2 h2
    rw [hb] at hnok ⊢
    rcases bindBody_cases (.struct fs) (.struct vs2) r hnd with ⟨files, hbody⟩ | ⟨hst, hform⟩
    · rw [hbody] at hnok ⊢
      have hnp := C09_no_panic .form (formOf r) files hf fs vs2
      cases hres : (bindData .form (formOf r) files (.struct fs) (.struct vs2)).2 with
      | none => rw [hres] at hnok; exact absurd rfl hnok
      | some er =>
        rw [hres] at hnp
        exact statusOf_some_bad er (fun h => hnp (by rw [h]))
    · rcases hst with hst | hst
      · exact hst
      · exfalso
        rcases hbad with hb' | hb' | hb'
        · exact d1 hb'.1 hb'.2
        · exact d2 (by rw [r1]; exact hb'.1) hb'.2
        · rw [hform] at hb'
          exact not_badIn_nil _ _ hb'.2

/-! ## what the walk does NOT reach -/

/-- **C09_unreached_untouched** — a leaf that none of the three walks reaches (below a NAMED
    pointer to struct, below a nil embedded pointer, below an unexported struct, below a struct
    field carrying param, query and form tags, unexported itself …) holds after a successful
    `Bind` (body not json/xml) exactly what it held, whatever keys the client sent -/
theorem C09_unreached_untouched (fs : Fields) (vs : List Val) (r : BindReq) (a : List Nat) (m : FMeta)
    (e : Elem) (hl : leafAt fs a = some (m, e))
    (hp : reach .param fs vs a = false) (hq : reach .query fs vs a = false) (hf : reach .form fs vs a = false)
    (hnd : ¬ decoded r) (v' : DVal) (h : bind (.struct fs) (.struct vs) r = (v', .ok)) :
    ∃ vs', v' = .struct vs' ∧ valAt vs' a = valAt vs a := by
  obtain ⟨vs', a1, a2, _⟩ := C09_precedence_nested_gen fs vs r a m e hl hnd v' h
  exact ⟨vs', a1, by rw [a2, hp, hq, hf]; rfl⟩

/-- a NAMED (not embedded) pointer-to-struct field is never descended, nil or not: `bindData`
    looks at the field's kind (`Ptr`), only an embedded pointer is dereferenced -/
theorem reach_named_ptr (src : Src) (fs : Fields) (vs : List Val) (i j : Nat) (rest : List Nat)
    (m : FMeta) (fs' : Fields) (hf : fieldAt fs i = some (m, .ptrStruct fs')) (hn : m.anonymous = false) :
    reach src fs vs (i :: j :: rest) = false := by
  simp only [reach, hf]
  cases vs[i]? with
  | none => rfl
  | some v => cases v <;> simp [walks, hn]

/-- below a nil pointer to struct there is nothing, and the walk does not allocate it -/
theorem reach_nil_ptr (src : Src) (fs : Fields) (vs : List Val) (i j : Nat) (rest : List Nat)
    (hv : vs[i]? = some .nilStruct) : reach src fs vs (i :: j :: rest) = false := by
  simp only [reach, hv]
  cases fieldAt fs i <;> rfl

/-- a struct field that carries a tag for the source is not descended by that source -/
theorem reach_tagged_struct (src : Src) (fs : Fields) (vs : List Val) (i j : Nat) (rest : List Nat)
    (m : FMeta) (s : Shape) (hf : fieldAt fs i = some (m, s)) (ht : m.tags.get src ≠ []) :
    reach src fs vs (i :: j :: rest) = false := by
  simp only [reach, hf]
  cases vs[i]? with
  | none => rfl
  | some v =>
    cases v with
    | struct vs' => cases s <;> simp [walks, ht]
    | _ => rfl

/-! ## non-vacuity -/

def noTags : Tags := ⟨[], [], [], []⟩

/-- ```
    struct {
      Inner struct { N int `query:"n" form:"n"` }                   // 0: plain nested struct
      Emb                                                            // 1: embedded struct  { ID string `param:"id" form:"e"` }
      *EmbP                                                          // 2: embedded pointer { P int `query:"p"` }
      Named *struct { Z int `query:"z"` }                            // 3: named pointer
      B struct { K string `query:"k" form:"k"` } `form:"b"`          // 4: struct tagged for form
    }``` -/
def exN : Fields :=
  .cons ⟨noTags, false, true⟩
      (.struct (.cons ⟨⟨[], ['n'], ['n'], []⟩, false, true⟩ (.scalar (.num (.structInt .wInt))) .nil))
  (.cons ⟨noTags, true, true⟩
      (.struct (.cons ⟨⟨['i','d'], [], ['e'], []⟩, false, true⟩ (.scalar .str) .nil))
  (.cons ⟨noTags, true, true⟩
      (.ptrStruct (.cons ⟨⟨[], ['p'], [], []⟩, false, true⟩ (.scalar (.num (.structInt .wInt))) .nil))
  (.cons ⟨noTags, false, true⟩
      (.ptrStruct (.cons ⟨⟨[], ['z'], [], []⟩, false, true⟩ (.scalar (.num (.structInt .wInt))) .nil))
  (.cons ⟨⟨[], [], ['b'], []⟩, false, true⟩
      (.struct (.cons ⟨⟨[], ['k'], ['k'], []⟩, false, true⟩ (.scalar .str) .nil))
   .nil))))

/-- embedded pointer allocated, named pointer allocated -/
def exNv : List Val :=
  [.struct [.leaf (.one (.int 1))], .struct [.leaf (.one (.opq ['o']))], .struct [.leaf (.one (.int 2))],
   .struct [.leaf (.one (.int 3))], .struct [.leaf (.one (.opq ['o']))]]

/-- both pointers start nil -/
def exNv0 : List Val :=
  [.struct [.leaf (.one (.int 1))], .struct [.leaf (.one (.opq ['o']))], .nilStruct, .nilStruct,
   .struct [.leaf (.one (.opq ['o']))]]

/-- GET /:id?n=5&p=6&z=7&k=q with a multipart body n=8, e=x, k=f -/
def exNReq (method : List Char) (hasBody : Bool) : BindReq :=
  { method := method, params := [(['i','d'], [['a']])],
    query := [(['n'], [['5']]), (['p'], [['6']]), (['z'], [['7']]), (['k'], [['q']])],
    hasBody := hasBody, ctype := mMultipart, json := (.opaque, false), xml := (.opaque, false),
    formBody := none, multipart := some [(['n'], [['8']]), (['e'], [['x']]), (['k'], [['f']])],
    files := [], queryOK := true }

def GET : List Char := ['G','E','T']

-- the addresses denote leaves, and which walk reaches which
example : leafAt exN [0, 0] = some (⟨⟨[], ['n'], ['n'], []⟩, false, true⟩, .num (.structInt .wInt)) := by decide
example : leafAt exN [1, 0] = some (⟨⟨['i','d'], [], ['e'], []⟩, false, true⟩, .str) := by decide
example : reach3 exN exNv [0, 0] = true ∧ reach3 exN exNv [1, 0] = true ∧ reach3 exN exNv [2, 0] = true := by decide
example : reach3 exN exNv0 [0, 0] = true ∧ reach .query exN exNv0 [2, 0] = false := by decide
-- the named pointer is not descended even when it is not nil
example : (leafAt exN [3, 0]).isSome = true ∧ reach .query exN exNv [3, 0] = false := by decide
-- the struct tagged `form:"b"` is descended by path and query, not by form
example : reach .query exN exNv [4, 0] = true ∧ reach .form exN exNv [4, 0] = false := by decide
example : valAt exNv [0, 0] = some (.leaf (.one (.int 1))) := rfl
example : valAt exNv0 [2, 0] = none := rfl

-- two-level struct, `int` leaf tagged for query and form: GET without body — the query wins over the old 1
example : (bind (.struct exN) (.struct exNv) (exNReq GET false)).2 = .ok
    ∧ flatD (bind (.struct exN) (.struct exNv) (exNReq GET false)).1
      = flatVs [.struct [.leaf (.one (.int 5))], .struct [.leaf (.one (.opq ['a']))], .struct [.leaf (.one (.int 6))],
          .struct [.leaf (.one (.int 3))], .struct [.leaf (.one (.opq ['q']))]] := by decide +kernel
-- … with the multipart body: the body wins for N (8) and for the embedded ID (x over the path's a);
-- K below the struct tagged `form:"b"` keeps the QUERY value although the form carries `k` and K has a form tag
example : (bind (.struct exN) (.struct exNv) (exNReq GET true)).2 = .ok
    ∧ flatD (bind (.struct exN) (.struct exNv) (exNReq GET true)).1
      = flatVs [.struct [.leaf (.one (.int 8))], .struct [.leaf (.one (.opq ['x']))], .struct [.leaf (.one (.int 6))],
          .struct [.leaf (.one (.int 3))], .struct [.leaf (.one (.opq ['q']))]] := by decide +kernel
-- pointers that start nil stay nil: nothing below them is bound (`p=6`, `z=7` are ignored), no error
example : (bind (.struct exN) (.struct exNv0) (exNReq GET true)).2 = .ok
    ∧ flatD (bind (.struct exN) (.struct exNv0) (exNReq GET true)).1
      = flatVs [.struct [.leaf (.one (.int 8))], .struct [.leaf (.one (.opq ['x']))], .nilStruct, .nilStruct,
          .struct [.leaf (.one (.opq ['q']))]] := by decide +kernel
example : ¬ decoded (exNReq GET true) := by
  intro h; exact absurd h.2 (by decide)

-- C09_precedence_nested instantiated: its hypotheses hold for the request above, its conclusion is the 8
example : ∃ vs', (bind (.struct exN) (.struct exNv) (exNReq GET true)).1 = .struct vs'
    ∧ (valAt vs' [0, 0]).map flatV = some [.leaf (.one (.int 8))] := by
  obtain ⟨vs', h1, h2, _⟩ := C09_precedence_nested exN exNv (exNReq GET true) [0, 0]
    ⟨⟨[], ['n'], ['n'], []⟩, false, true⟩ (.num (.structInt .wInt)) (by decide) (by decide)
    (by intro h; exact absurd h.2 (by decide)) _ rfl
  refine ⟨vs', h1, ?_⟩
  rw [h2]
  decide +kernel

-- C09_400_nested(_exact): `?p=x` for the int below the embedded pointer, `n=x` in the body for the nested int
example : badIn (.num (.structInt .wInt)) ['p'] [(['p'], [['x']])] := by
  refine ⟨by decide, [['x']], by decide, by decide⟩
example : (bind (.struct exN) (.struct exNv) { exNReq GET false with query := [(['p'], [['x']])] }).2 = .bad := by
  decide +kernel
example : (bind (.struct exN) (.struct exNv)
    { exNReq GET true with multipart := some [(['n'], [['x']])] }).2 = .bad := by decide +kernel
-- … but the same malformed `p=x` is NOT an error when the embedded pointer is nil (not reached), and
-- `z=x` never is (named pointer)
example : (bind (.struct exN) (.struct exNv0) { exNReq GET false with query := [(['p'], [['x']]), (['z'], [['x']])] }).2 = .ok := by
  decide +kernel
-- the key of the tagged struct itself (`b=1` in the form) is a 400: an ordinary struct is no unmarshaler
example : (bind (.struct exN) (.struct exNv)
    { exNReq GET true with multipart := some [(['b'], [['1']])] }).2 = .bad := by decide +kernel

end C09
