import EchoModel.C04
/-!
# C04 — the middleware onion

`serve` composes handlers exactly like `applyMiddleware` (a right fold of wrappers).  The
theorems turn that composition into the shape of the observable trace, for every
configuration and every request:

* `C04_onion`          Pre layers, then Use layers, then the route's middleware snapshot, then the
                       handler, then the same layers unwinding in exactly the reverse order; the
                       route is selected on the path *as rewritten by the Pre chain*
* `C04_enter_order` / `C04_leave_reverse`   each layer goes in once and comes out once, in reverse
* `C04_error_seen`     the error returned below is what every layer above observes
* `C04_routes_append_only` / `C04_snapshot_add` / `C04_groupUse_keeps_routes`
                       a route keeps the middleware snapshot of its registration time: middleware
                       added to a group afterwards never applies to it
-/
namespace C04
open Router (Str)

/-- the path after the rewrite rules of a list of (Pre) middleware were applied in order -/
def rewriteAll (ms : List MwSpec) (path : Str) : Str := ms.foldl (fun p m => rwStep m p) path

def enters (ms : List MwSpec) : List Ev := ms.map fun m => .enter m.id
def leaves (ms : List MwSpec) (err : Bool) : List Ev := ms.reverse.map fun m => .leave m.id err

/-- the general composition lemma: wrapping, in a list of middleware, a handler whose effect
    (events `E`, resulting path `O`, error `R`) depends only on the path it is entered with -/
theorem apply_uniform (h : Handler) (E : Str → List Ev) (O : Str → Str) (R : Str → Bool)
    (hs : ∀ c, h c = (⟨c.trace ++ E c.path, O c.path⟩, R c.path)) :
    ∀ (ms : List MwSpec) (c : Ctx),
      applyMiddleware h ms c =
        (⟨c.trace ++ (enters ms ++ E (rewriteAll ms c.path) ++ leaves ms (R (rewriteAll ms c.path))),
          O (rewriteAll ms c.path)⟩, R (rewriteAll ms c.path)) := by
  intro ms
  induction ms with
  | nil =>
    intro c
    simp [applyMiddleware, enters, leaves, rewriteAll, hs]
  | cons m ms ih =>
    intro c
    show wrap m (applyMiddleware h ms) c = _
    unfold wrap
    simp only [ih]
    have hrw : rewriteAll (m :: ms) c.path = rewriteAll ms (rwStep m c.path) := by
      simp [rewriteAll]
    rw [hrw]
    simp [enters, leaves, List.append_assoc]

theorem rewriteAll_plain (ms : List Mw) (p : Str) : rewriteAll (plain ms) p = p := by
  unfold plain rewriteAll
  induction ms generalizing p with
  | nil => rfl
  | cons m ms ih => simpa [rwStep] using ih p

/-- events appended by the routed handler when entered with path `p` -/
def routedEvs (c : Cfg) (host method p : Str) : List Ev :=
  enters (plain (selected c host method p).2.2) ++ [(selected c host method p).1]
    ++ leaves (plain (selected c host method p).2.2) (selected c host method p).2.1

theorem routed_spec (c : Cfg) (host method : Str) (ctx : Ctx) :
    routed c host method ctx =
      (⟨ctx.trace ++ routedEvs c host method ctx.path, ctx.path⟩, (selected c host method ctx.path).2.1) := by
  unfold routed routedEvs
  generalize hsel : selected c host method ctx.path = s
  obtain ⟨ev, err, ms⟩ := s
  simp only
  rw [apply_uniform (terminal ev err) (fun _ => [ev]) (fun p => p) (fun _ => err) (fun _ => rfl) (plain ms) ctx]
  simp [rewriteAll_plain, List.append_assoc]

/-- **C04_onion** — the trace of every request, for every configuration: Pre layers, Use layers,
    the middleware snapshot of the selected route, the handler, and the same layers unwinding
    in reverse; the route is selected for the path as the Pre chain left it. -/
theorem C04_onion (c : Cfg) (host method path : Str) :
    serve c host method path =
      enters c.pre ++ enters (plain c.use)
        ++ enters (plain (selected c host method (rewriteAll c.pre path)).2.2)
        ++ [(selected c host method (rewriteAll c.pre path)).1]
        ++ leaves (plain (selected c host method (rewriteAll c.pre path)).2.2)
            (selected c host method (rewriteAll c.pre path)).2.1
        ++ leaves (plain c.use) (selected c host method (rewriteAll c.pre path)).2.1
        ++ leaves c.pre (selected c host method (rewriteAll c.pre path)).2.1 := by
  unfold serve
  have h1 := apply_uniform (routed c host method) (routedEvs c host method) (fun p => p)
    (fun p => (selected c host method p).2.1) (routed_spec c host method) (plain c.use)
  simp only [rewriteAll_plain] at h1
  rw [apply_uniform (applyMiddleware (routed c host method) (plain c.use))
    (fun p => enters (plain c.use) ++ routedEvs c host method p
      ++ leaves (plain c.use) (selected c host method p).2.1)
    (fun p => p) (fun p => (selected c host method p).2.1) h1 c.pre ⟨[], path⟩]
  simp [routedEvs, List.append_assoc]

def enterIds (t : List Ev) : List Mw := t.filterMap fun | .enter i => some i | _ => none
def leaveIds (t : List Ev) : List Mw := t.filterMap fun | .leave i _ => some i | _ => none

theorem enterIds_enters (ms : List MwSpec) : enterIds (enters ms) = ms.map (·.id) := by
  unfold enterIds enters
  induction ms with
  | nil => rfl
  | cons m ms ih => simpa using ih

theorem enterIds_leaves (ms : List MwSpec) (e : Bool) : enterIds (leaves ms e) = [] := by
  unfold enterIds leaves
  induction ms.reverse with
  | nil => rfl
  | cons m ms ih => simpa using ih

theorem leaveIds_enters (ms : List MwSpec) : leaveIds (enters ms) = [] := by
  unfold leaveIds enters
  induction ms with
  | nil => rfl
  | cons m ms ih => simpa using ih

theorem leaveIds_leaves (ms : List MwSpec) (e : Bool) : leaveIds (leaves ms e) = (ms.map (·.id)).reverse := by
  unfold leaveIds leaves
  rw [← List.map_reverse]
  induction ms.reverse with
  | nil => rfl
  | cons m ms ih => simpa using ih

theorem enterIds_append (a b : List Ev) : enterIds (a ++ b) = enterIds a ++ enterIds b := by
  simp [enterIds, List.filterMap_append]
theorem leaveIds_append (a b : List Ev) : leaveIds (a ++ b) = leaveIds a ++ leaveIds b := by
  simp [leaveIds, List.filterMap_append]

theorem ids_plain (ms : List Mw) : (plain ms).map (·.id) = ms := by
  unfold plain
  induction ms with
  | nil => rfl
  | cons m ms ih => simpa using ih

/-- the layers that go in, in order: Pre, then Use, then the route's snapshot -/
def layers (c : Cfg) (host method path : Str) : List Mw :=
  c.pre.map (·.id) ++ c.use ++ (selected c host method (rewriteAll c.pre path)).2.2

/-- **C04_enter_order** — the middleware that go in are exactly Pre ++ Use ++ route snapshot, in
    that order, each once per occurrence in those lists. -/
theorem C04_enter_order (c : Cfg) (host method path : Str) :
    enterIds (serve c host method path) = layers c host method path := by
  rw [C04_onion c host method path]
  have hsel : ∀ ev : Ev, (ev = (selected c host method (rewriteAll c.pre path)).1) →
      enterIds [ev] = [] := by
    intro ev hev
    subst hev
    unfold selected enterIds
    simp only []
    split <;> (try split) <;> (try split) <;> simp
  simp only [enterIds_append, enterIds_enters, enterIds_leaves, ids_plain, hsel _ rfl, layers,
    List.append_nil, List.append_assoc]

/-- **C04_leave_reverse** — the layers unwind in exactly the reverse order of going in. -/
theorem C04_leave_reverse (c : Cfg) (host method path : Str) :
    leaveIds (serve c host method path) = (layers c host method path).reverse := by
  rw [C04_onion c host method path]
  have hsel : ∀ ev : Ev, (ev = (selected c host method (rewriteAll c.pre path)).1) →
      leaveIds [ev] = [] := by
    intro ev hev
    subst hev
    unfold selected leaveIds
    simp only []
    split <;> (try split) <;> (try split) <;> simp
  simp only [leaveIds_append, leaveIds_enters, leaveIds_leaves, ids_plain, hsel _ rfl, layers,
    List.nil_append, List.reverse_append, List.append_assoc]

/-- **C04_error_seen** — every layer, when it unwinds, observes exactly the error status that
    the selected handler returned. -/
theorem C04_error_seen (c : Cfg) (host method path : Str) (i : Mw) (e : Bool)
    (h : Ev.leave i e ∈ serve c host method path) :
    e = (selected c host method (rewriteAll c.pre path)).2.1 := by
  rw [C04_onion c host method path] at h
  have hl : ∀ (ms : List MwSpec) (err : Bool), Ev.leave i e ∈ leaves ms err → e = err := by
    intro ms err hm
    unfold leaves at hm
    simp only [List.mem_map] at hm
    obtain ⟨_, _, heq⟩ := hm
    simp only [Ev.leave.injEq] at heq
    exact heq.2.symm
  have he : ∀ (ms : List MwSpec), Ev.leave i e ∉ enters ms := by
    intro ms hm
    unfold enters at hm
    simp at hm
  have hs : Ev.leave i e ≠ (selected c host method (rewriteAll c.pre path)).1 := by
    unfold selected
    simp only []
    split <;> (try split) <;> (try split) <;> simp
  simp only [List.mem_append, List.mem_singleton] at h
  rcases h with (((((h | h) | h) | h) | h) | h) | h
  · exact absurd h (he _)
  · exact absurd h (he _)
  · exact absurd h (he _)
  · exact absurd h hs
  · exact hl _ _ h
  · exact hl _ _ h
  · exact hl _ _ h

/-! ### registration: a route keeps the snapshot of its registration time -/

theorem addRoute_routes (c : Cfg) (host method path : Str) (hid : Nat) (fails : Bool) (mws : List Mw) :
    ∃ r, (addRoute c host method path hid fails mws).routes = c.routes ++ [r] ∧ r.mws = mws
      ∧ (addRoute c host method path hid fails mws).groups = c.groups := by
  unfold addRoute
  exact ⟨_, rfl, rfl, rfl⟩

theorem groupUse_routes (c : Cfg) (g : Nat) (ms : List Mw) :
    ∃ extra, (groupUse c g ms).routes = c.routes ++ extra := by
  unfold groupUse
  split
  · exact ⟨[], by simp⟩
  · simp only
    split
    · exact ⟨[], by simp⟩
    · simp only [addRoute]
      exact ⟨_, by simp [List.append_assoc]; rfl⟩

/-- **C04_groupUse_keeps_routes** — adding middleware to a group afterwards never changes a
    route that is already registered (it only appends the refreshed catch-all routes). -/
theorem C04_groupUse_keeps_routes (c : Cfg) (g : Nat) (ms : List Mw) (i : Nat) (r : RouteRec)
    (h : c.routes[i]? = some r) : (exec c (.groupUse g ms)).routes[i]? = some r := by
  obtain ⟨extra, he⟩ := groupUse_routes c g ms
  simp only [exec, he]
  rw [List.getElem?_append_left]
  · exact h
  · exact (List.getElem?_eq_some_iff.mp h).1

/-- **C04_routes_append_only** — every registration op except `Host` (which installs a fresh
    router for that host) leaves the routes registered so far untouched. -/
theorem C04_routes_append_only (c : Cfg) (op : Op) (hop : ∀ n ms, op ≠ .host n ms) :
    ∃ extra, (exec c op).routes = c.routes ++ extra := by
  cases op with
  | pre m => exact ⟨[], by simp [exec]⟩
  | use i => exact ⟨[], by simp [exec]⟩
  | host n ms => exact absurd rfl (hop n ms)
  | group parent pfx ms =>
    simp only [exec]
    cases parent with
    | none =>
      obtain ⟨extra, he⟩ := groupUse_routes { c with groups := c.groups ++ [⟨[], pfx, []⟩] }
        ({ c with groups := c.groups ++ [⟨[], pfx, []⟩] } : Cfg).groups.length.pred ms
      exact ⟨extra, by simpa using he⟩
    | some p =>
      simp only
      split
      · exact ⟨[], by simp⟩
      · rename_i g _
        obtain ⟨extra, he⟩ := groupUse_routes { c with groups := c.groups ++ [⟨g.host, g.pfx ++ pfx, []⟩] }
          ({ c with groups := c.groups ++ [⟨g.host, g.pfx ++ pfx, []⟩] } : Cfg).groups.length.pred (g.mws ++ ms)
        exact ⟨extra, by simpa using he⟩
  | groupUse g ms => exact groupUse_routes c g ms
  | add g method path hid fails ms =>
    simp only [exec]
    cases g with
    | none => exact ⟨_, (addRoute_routes c [] method path hid fails ms).choose_spec.1⟩
    | some gid =>
      simp only
      split
      · exact ⟨[], by simp⟩
      · exact ⟨_, (addRoute_routes c _ method _ hid fails _).choose_spec.1⟩

/-- **C04_snapshot_add** — a route added through a group closes over exactly the group's
    middleware list at that moment followed by its own route-level middleware. -/
theorem C04_snapshot_add (c : Cfg) (gid : Nat) (gr : Group) (hg : c.groups[gid]? = some gr)
    (method path : Str) (hid : Nat) (fails : Bool) (ms : List Mw) :
    ∃ r, (exec c (.add (some gid) method path hid fails ms)).routes = c.routes ++ [r]
      ∧ r.mws = gr.mws ++ ms ∧ r.hid = hid := by
  simp only [exec, hg, addRoute]
  exact ⟨_, rfl, rfl, rfl⟩

/-! ### non-vacuity -/
def demo : List Op :=
  [ .pre ⟨1, some ("/old".toList, "/g/x".toList), none, none⟩, .use 2,
    .group none "/g".toList [3], .add (some 0) "GET".toList "/x".toList 7 false [4],
    .groupUse 0 [5] ]

example : serve (run demo) [] "GET".toList "/old".toList
    = [.enter 1, .enter 2, .enter 3, .enter 4, .hnd 7,
       .leave 4 false, .leave 3 false, .leave 2 false, .leave 1 false] := by decide
example : serve (run demo) [] "GET".toList "/g/missing".toList
    = [.enter 1, .enter 2, .enter 3, .enter 5, .rtr 404,
       .leave 5 true, .leave 3 true, .leave 2 true, .leave 1 true] := by decide

end C04

namespace C04
open Router
/-- **C04_pre_sees_method_and_host** — the trace of a request whose Pre chain rewrites the method or the
    Host is the onion around the route selected for the *rewritten* host, method and path: every theorem
    about `serve` applies to `serveRq` at the values the Pre chain leaves behind. -/
theorem C04_pre_sees_method_and_host (c : Cfg) (host method path : Str) :
    serveRq c host method path =
      serve c (hostAfterPre c.pre host) (methodAfterPre c.pre method) path := rfl

/-- without method/Host rules nothing changes -/
theorem serveRq_plain (c : Cfg) (host method path : Str)
    (h : ∀ m ∈ c.pre, m.rwM = none ∧ m.rwH = none) : serveRq c host method path = serve c host method path := by
  have hm : ∀ (ms : List MwSpec) (x : Str), (∀ m ∈ ms, m.rwM = none ∧ m.rwH = none) →
      methodAfterPre ms x = x ∧ hostAfterPre ms x = x := by
    intro ms
    induction ms with
    | nil => intro x _; exact ⟨rfl, rfl⟩
    | cons m ms ih =>
      intro x hx
      have h1 := hx m (by simp)
      have h2 := ih x (fun m' hm' => hx m' (List.mem_cons_of_mem _ hm'))
      simp only [methodAfterPre, hostAfterPre, List.foldl_cons, rwField, h1.1, h1.2]
      exact h2
  unfold serveRq
  rw [(hm c.pre method h).1, (hm c.pre host h).2]

/-- a method-override Pre middleware makes the POST route answer a request that arrived as GET -/
def demoOverride : List Op :=
  [ .pre ⟨1, none, some ("GET".toList, "POST".toList), none⟩,
    .add none "POST".toList "/x".toList 7 false [], .add none "GET".toList "/x".toList 8 false [] ]
example : serveRq (run demoOverride) [] "GET".toList "/x".toList
    = [.enter 1, .hnd 7, .leave 1 false] := by decide +kernel
end C04
