import EchoModel.C06Nest
import EchoProofs.C06Hooks
/-!
# C06 — a Response whose writer is a Response: theorems

* `C06N_outer_refines` — whatever the tower of Responses above it does, and whichever layer a
  handler program addresses, the Response next to the underlying writer (layer 0) only ever sees
  a sequence of calls of its own public operations: the run, projected onto layer 0 and the
  underlying writer, IS a run of the single-Response model `C06H` on some program.  An inner
  Response is just another handler program for the outer one.
* `C06N_outer_inv`, `C06N_outer_bookkeeping`, `C06N_outer_after_hooks_each_write`,
  `C06N_outer_before_hooks_not_after_headers` — hence everything proved for a single Response
  holds for the outer one: at most one `WriteHeader` reaches the writer, `Committed` tells whether
  it did, `Status` / `Size` are what was sent, its before-hooks run before that `WriteHeader` and
  never afterwards, its after-hooks after each body write.
* `C06N_down` — for every program: a layer that says `Committed` is right about the wire (every
  layer below it, down to the writer, is committed too) and no layer counts more bytes than the
  layer below it.
* `C06N_pure_nesting_agrees` — when the status / body operations all go through the top layer
  (an application mounted inside another one, the outer layers only registering hooks), all
  layers agree: same `Committed`, same `Size`, and once committed the same `Status`.
-/
namespace C06N

/-! ## frame: writer number `k` touches only the layers below `k` -/

@[simp] theorem setLayer_same (s : St) (k : Nat) (l : Layer) : (setLayer s k l).layer k = l := by
  simp [setLayer]
theorem setLayer_ne (s : St) {k j : Nat} (l : Layer) (h : j ≠ k) : (setLayer s k l).layer j = s.layer j := by
  simp [setLayer, h]
@[simp] theorem emit_layer (s : St) (e : Ev) : (emit s e).layer = s.layer := rfl
@[simp] theorem emits_layer (s : St) (es : List Ev) : (emits s es).layer = s.layer := rfl
@[simp] theorem setLayer_hdrs (s : St) (k : Nat) (l : Layer) : (setLayer s k l).hdrs = s.hdrs := rfl
@[simp] theorem setLayer_body (s : St) (k : Nat) (l : Layer) : (setLayer s k l).body = s.body := rfl
@[simp] theorem setLayer_trace (s : St) (k : Nat) (l : Layer) : (setLayer s k l).trace = s.trace := rfl
@[simp] theorem emit_hdrs (s : St) (e : Ev) : (emit s e).hdrs = s.hdrs := rfl
@[simp] theorem emit_body (s : St) (e : Ev) : (emit s e).body = s.body := rfl
@[simp] theorem emit_trace (s : St) (e : Ev) : (emit s e).trace = s.trace ++ [e] := rfl
@[simp] theorem emits_hdrs (s : St) (es : List Ev) : (emits s es).hdrs = s.hdrs := rfl
@[simp] theorem emits_body (s : St) (es : List Ev) : (emits s es).body = s.body := rfl
@[simp] theorem emits_trace (s : St) (es : List Ev) : (emits s es).trace = s.trace ++ es := rfl

theorem wh_layer_ge : ∀ (k : Nat) (s : St) (c j : Nat), k ≤ j → (wh k s c).layer j = s.layer j := by
  intro k
  induction k with
  | zero => intro s c j _; simp [wh]
  | succ k ih =>
    intro s c j hj
    have hne : j ≠ k := by omega
    unfold wh
    split
    · simp
    · simp only []
      rw [setLayer_ne _ _ hne, ih _ _ _ (by omega), setLayer_ne _ _ hne]
      simp

theorem commit_layer_ge (k : Nat) (s : St) (j : Nat) (h : k + 1 ≤ j) : (commit k s).layer j = s.layer j := by
  unfold commit
  split
  · rfl
  · exact wh_layer_ge _ _ _ _ h

theorem wr_layer_ge : ∀ (k : Nat) (s : St) (n j : Nat), k ≤ j → (wr k s n).layer j = s.layer j := by
  intro k
  induction k with
  | zero => intro s n j _; simp [wr]
  | succ k ih =>
    intro s n j hj
    have hne : j ≠ k := by omega
    unfold wr
    simp only [emits_layer]
    rw [setLayer_ne _ _ hne, ih _ _ _ (by omega), commit_layer_ge _ _ _ hj]

theorem fl_layer_ge : ∀ (k : Nat) (s : St) (j : Nat), k ≤ j → (fl k s).layer j = s.layer j := by
  intro k
  induction k with
  | zero => intro s j _; simp [fl]
  | succ k ih =>
    intro s j hj
    unfold fl
    rw [ih _ _ (by omega), commit_layer_ge _ _ _ hj]

/-! ## projection onto layer 0 and the underlying writer -/

def projEv : Ev → Option C06H.Ev
  | .regB 0 h => some (.regB h)
  | .regA 0 h => some (.regA h)
  | .runB 0 h => some (.runB h)
  | .runA 0 h => some (.runA h)
  | .hdr c => some (.hdr c)
  | .body k => some (.body k)
  | .rflush => some .rflush
  | .warn 0 => some .warn
  | _ => none

/-- an observer hook -/
def mk (h : Nat) : C06H.Hook := ⟨h, none⟩

def proj (s : St) : C06H.St :=
  { committed := (s.layer 0).committed, status := (s.layer 0).status, size := (s.layer 0).size,
    before := (s.layer 0).before.map mk, after := (s.layer 0).after.map mk,
    hdrs := s.hdrs, body := s.body, trace := s.trace.filterMap projEv }

theorem proj_congr {s t : St} (hl : t.layer 0 = s.layer 0) (hh : t.hdrs = s.hdrs) (hb : t.body = s.body)
    (ht : t.trace.filterMap projEv = s.trace.filterMap projEv) : proj t = proj s := by
  simp [proj, hl, hh, hb, ht]

theorem filterMap_runB0 (l : List Nat) : (l.map (Ev.runB 0)).filterMap projEv = l.map C06H.Ev.runB := by
  induction l with
  | nil => rfl
  | cons h t ih => simp [projEv, ih]

theorem filterMap_runA0 (l : List Nat) : (l.map (Ev.runA 0)).filterMap projEv = l.map C06H.Ev.runA := by
  induction l with
  | nil => rfl
  | cons h t ih => simp [projEv, ih]

theorem filterMap_runB_succ (k : Nat) (l : List Nat) : (l.map (Ev.runB (k + 1))).filterMap projEv = [] := by
  induction l with
  | nil => rfl
  | cons h t ih => simp [projEv, ih]

theorem filterMap_runA_succ (k : Nat) (l : List Nat) : (l.map (Ev.runA (k + 1))).filterMap projEv = [] := by
  induction l with
  | nil => rfl
  | cons h t ih => simp [projEv, ih]

theorem proj_setLayer_succ (s : St) (k : Nat) (l : Layer) : proj (setLayer s (k + 1) l) = proj s :=
  proj_congr (setLayer_ne _ _ (by omega)) rfl rfl rfl

theorem proj_emits_runB_succ (s : St) (k : Nat) (l : List Nat) :
    proj (emits s (l.map (Ev.runB (k + 1)))) = proj s :=
  proj_congr rfl rfl rfl (by simp only [emits_trace, List.filterMap_append, filterMap_runB_succ, List.append_nil])

theorem proj_emits_runA_succ (s : St) (k : Nat) (l : List Nat) :
    proj (emits s (l.map (Ev.runA (k + 1)))) = proj s :=
  proj_congr rfl rfl rfl (by simp only [emits_trace, List.filterMap_append, filterMap_runA_succ, List.append_nil])

theorem proj_emit_warn_succ (s : St) (k : Nat) : proj (emit s (.warn (k + 1))) = proj s :=
  proj_congr rfl rfl rfl (by simp [projEv])

/-- observer hooks only show up in the trace -/
theorem foldl_fireB (l : List Nat) : ∀ t : C06H.St,
    (l.map mk).foldl C06H.fireB t = { t with trace := t.trace ++ l.map C06H.Ev.runB } := by
  induction l with
  | nil => intro t; simp
  | cons h l ih =>
    intro t
    simp only [List.map_cons, List.foldl_cons]
    rw [ih]
    simp [C06H.fireB, C06H.kidOf, C06H.emit, mk]

theorem foldl_fireA (l : List Nat) : ∀ t : C06H.St,
    (l.map mk).foldl C06H.fireA t = { t with trace := t.trace ++ l.map C06H.Ev.runA } := by
  induction l with
  | nil => intro t; simp
  | cons h l ih =>
    intro t
    simp only [List.map_cons, List.foldl_cons]
    rw [ih]
    simp [C06H.fireA, C06H.kidOf, C06H.emit, mk]

/-- layer 0's `WriteHeader` is the single-Response model's -/
theorem proj_wh1 (s : St) (c : Nat) : proj (wh 1 s c) = C06H.writeHeader (proj s) c := by
  unfold wh C06H.writeHeader
  by_cases hc : (s.layer 0).committed = true
  · simp [hc, proj, C06H.emit, projEv]
  · simp only [hc, Bool.false_eq_true, if_false, proj, wh]
    simp only [C06H.forward, C06H.runBefore, C06H.emit, foldl_fireB, setLayer, emit, emits,
      List.filterMap_append, filterMap_runB0, projEv, if_true, List.filterMap_cons, List.filterMap_nil,
      List.append_assoc]

theorem proj_commit0 (s : St) : proj (commit 0 s) = C06H.ensureCommitted (proj s) := by
  unfold commit C06H.ensureCommitted
  by_cases hc : (s.layer 0).committed = true
  · simp [hc, proj]
  · have h1 : (proj s).committed = false := by simpa [proj] using hc
    simp only [hc, Bool.false_eq_true, if_false, h1]
    exact proj_wh1 s _

/-- layer 0's `Write` is the single-Response model's -/
theorem proj_wr1 (s : St) (n : Nat) : proj (wr 1 s n) = C06H.write (proj s) n := by
  unfold C06H.write wr
  rw [← proj_commit0]
  generalize commit 0 s = t
  simp only [wr, C06H.runAfter, C06H.putBody, C06H.emit, proj, foldl_fireA, setLayer, emit, emits,
    List.filterMap_append, filterMap_runA0, projEv, if_true, List.filterMap_cons, List.filterMap_nil,
    List.append_assoc]

/-- layer 0's `Flush` is the single-Response model's -/
theorem proj_fl1 (s : St) : proj (fl 1 s) = C06H.flush (proj s) := by
  unfold C06H.flush fl
  rw [← proj_commit0]
  generalize commit 0 s = t
  simp only [fl, C06H.emit, proj, emit, List.filterMap_append, projEv, List.filterMap_cons,
    List.filterMap_nil]

/-! ## the refinement: what reaches layer 0 is a program of its own operations -/

/-- `b` is reached from `a` by calling operations of the single-Response model -/
def Calls (a b : C06H.St) : Prop := ∃ ops : List C06H.Op, b = C06H.run a ops

theorem Calls.rfl' (a : C06H.St) : Calls a a := ⟨[], rfl⟩

theorem Calls.of_eq {a b : C06H.St} (h : b = a) : Calls a b := ⟨[], h⟩

theorem Calls.trans' {a b c : C06H.St} (h1 : Calls a b) (h2 : Calls b c) : Calls a c := by
  obtain ⟨o1, rfl⟩ := h1
  obtain ⟨o2, rfl⟩ := h2
  exact ⟨o1 ++ o2, by simp [C06H.run, List.foldl_append]⟩

theorem Calls.step' (a : C06H.St) (op : C06H.Op) : Calls a (C06H.step a op) := ⟨[op], rfl⟩

theorem calls_wh : ∀ (k : Nat) (s : St) (c : Nat), Calls (proj s) (proj (wh (k + 1) s c)) := by
  intro k
  induction k with
  | zero => intro s c; rw [proj_wh1]; exact Calls.step' _ (.writeHeader c)
  | succ k ih =>
    intro s c
    unfold wh
    split
    · exact Calls.of_eq (proj_emit_warn_succ _ _)
    · simp only []
      rw [proj_setLayer_succ]
      refine Calls.trans' (Calls.of_eq ?_) (ih _ c)
      rw [proj_setLayer_succ, proj_emits_runB_succ]

theorem calls_commit (k : Nat) (s : St) : Calls (proj s) (proj (commit k s)) := by
  unfold commit
  split
  · exact Calls.rfl' _
  · exact calls_wh _ _ _

theorem calls_wr : ∀ (k : Nat) (s : St) (n : Nat), Calls (proj s) (proj (wr (k + 1) s n)) := by
  intro k
  induction k with
  | zero => intro s n; rw [proj_wr1]; exact Calls.step' _ (.write n)
  | succ k ih =>
    intro s n
    unfold wr
    simp only []
    rw [proj_emits_runA_succ, proj_setLayer_succ]
    exact Calls.trans' (calls_commit _ _) (ih _ n)

theorem calls_fl : ∀ (k : Nat) (s : St), Calls (proj s) (proj (fl (k + 1) s)) := by
  intro k
  induction k with
  | zero => intro s; rw [proj_fl1]; exact Calls.step' _ .flush
  | succ k ih =>
    intro s
    unfold fl
    exact Calls.trans' (calls_commit _ _) (ih _)

theorem calls_step (s : St) (op : Op) : Calls (proj s) (proj (step s op)) := by
  cases op with
  | before k h =>
    cases k with
    | zero =>
      refine ⟨[.before (mk h)], ?_⟩
      simp [step, C06H.run, C06H.step, C06H.register, C06H.emit, proj, setLayer, emit, projEv, mk]
    | succ k => exact Calls.of_eq (proj_congr (by simp [step, setLayer]) rfl rfl (by simp [step, projEv]))
  | after k h =>
    cases k with
    | zero =>
      refine ⟨[.after (mk h)], ?_⟩
      simp [step, C06H.run, C06H.step, C06H.register, C06H.emit, proj, setLayer, emit, projEv, mk]
    | succ k => exact Calls.of_eq (proj_congr (by simp [step, setLayer]) rfl rfl (by simp [step, projEv]))
  | writeHeader k c => exact calls_wh _ _ _
  | write k n => exact calls_wr _ _ _
  | flush k => exact calls_fl _ _
  | blob k c n => exact Calls.trans' (calls_wh _ _ _) (calls_wr _ _ _)
  | json k c n ok =>
    cases k with
    | zero =>
      refine ⟨[.json c n ok], ?_⟩
      simp only [step, C06H.run, List.foldl_cons, List.foldl_nil, C06H.step]
      by_cases hc : (s.layer 0).committed = true
      · have h1 : (proj s).committed = true := by simpa [proj] using hc
        have h2 : proj (emit s (.warn 0)) = C06H.emit (proj s) .warn := by
          simp [proj, C06H.emit, projEv]
        cases ok <;> simp [hc, h1, proj_wr1, h2]
      · have h1 : (proj s).committed = false := by simpa [proj] using hc
        cases ok <;> simp [hc, h1, proj_wr1] <;> (try congr 1) <;> simp [proj, setLayer, hc]
    | succ k =>
      simp only [step]
      have h0 : Calls (proj s) (proj (if (s.layer (k + 1)).committed = true then emit s (.warn (k + 1))
          else setLayer s (k + 1) { s.layer (k + 1) with status := c })) := by
        split
        · exact Calls.of_eq (proj_emit_warn_succ _ _)
        · exact Calls.of_eq (proj_setLayer_succ _ _ _)
      cases ok
      · simpa using h0
      · simpa using Calls.trans' h0 (calls_wr _ _ _)

theorem calls_run (prog : List Op) : ∀ s : St, Calls (proj s) (proj (run s prog)) := by
  induction prog with
  | nil => intro s; exact Calls.rfl' _
  | cons op ops ih => intro s; exact Calls.trans' (calls_step s op) (ih _)

theorem proj_init (p : Nat → Nat) : proj (init p) = C06H.init (p 0) := rfl

/-- **C06N_outer_refines** — a tower of Responses of any height, a handler program addressing
    any of its layers: what the Response next to the underlying writer and that writer go through
    is a run of the single-Response model on some program of ITS operations. -/
theorem C06N_outer_refines (p : Nat → Nat) (prog : List Op) :
    ∃ ops : List C06H.Op, proj (run (init p) prog) = C06H.run (C06H.init (p 0)) ops := by
  obtain ⟨ops, h⟩ := calls_run prog (init p)
  exact ⟨ops, by rw [h, proj_init]⟩

/-- **C06N_outer_inv** — so the invariant of the single-Response model holds for it. -/
theorem C06N_outer_inv (p : Nat → Nat) (prog : List Op) : C06H.Inv (proj (run (init p) prog)) := by
  obtain ⟨ops, h⟩ := C06N_outer_refines p prog
  rw [h]
  exact C06H.C06H_inv _ _

/-- **C06N_outer_bookkeeping** — spelled out: whichever layers the program addressed, the outer
    Response's `Committed` tells whether the (one) `WriteHeader` reached the underlying writer, it
    carried `Status`, `Size` is the number of body bytes the writer got, and the events of layer 0
    and of the writer form a trace the hook specification accepts. -/
theorem C06N_outer_bookkeeping (p : Nat → Nat) (prog : List Op) :
    let s := run (init p) prog
    ((s.layer 0).committed = true → s.hdrs = [(s.layer 0).status]) ∧
    ((s.layer 0).committed = false → s.hdrs = [] ∧ s.body = 0) ∧
    (s.layer 0).size = s.body ∧
    C06H.traceOK (s.trace.filterMap projEv) = true := by
  intro s
  have h := C06N_outer_inv p prog
  refine ⟨h.sent, h.unsent, h.size, ?_⟩
  obtain ⟨ops, he⟩ := C06N_outer_refines p prog
  have := C06H.C06H_trace_ok (p 0) ops
  rw [← he] at this
  exact this

/-- **C06N_outer_after_hooks_each_write** — every after-hook the outer Response had when a body
    write reached the underlying writer runs after that write, whoever issued the write. -/
theorem C06N_outer_after_hooks_each_write (p : Nat → Nat) (prog : List Op) (pre post : List C06H.Ev) (k : Nat)
    (htr : (run (init p) prog).trace.filterMap projEv = pre ++ .body k :: post) :
    C06H.regAs pre <+: C06H.runAs post := by
  obtain ⟨ops, he⟩ := C06N_outer_refines p prog
  refine C06H.C06H_after_hooks_each_write (p 0) ops pre post k ?_
  rw [← he]
  exact htr

/-- **C06N_outer_before_hooks_not_after_headers** — after the `WriteHeader` that reached the
    underlying writer no before-hook of the outer Response runs and no second `WriteHeader`
    arrives there. -/
theorem C06N_outer_before_hooks_not_after_headers (p : Nat → Nat) (prog : List Op) (pre post : List C06H.Ev)
    (c : Nat) (htr : (run (init p) prog).trace.filterMap projEv = pre ++ .hdr c :: post) :
    C06H.runBs post = [] ∧ C06H.hdrsOf post = [] := by
  obtain ⟨ops, he⟩ := C06N_outer_refines p prog
  refine C06H.C06H_before_hooks_not_after_headers (p 0) ops pre post c ?_
  rw [← he]
  exact htr

/-! ## equations with the frame applied -/

theorem wh_succ_eq (k : Nat) (s : St) (c : Nat) (hc : (s.layer k).committed = false) :
    wh (k + 1) s c =
      setLayer (wh k (setLayer (emits s ((s.layer k).before.map (.runB k))) k { s.layer k with status := c }) c) k
        { s.layer k with status := c, committed := true } := by
  conv => lhs; unfold wh
  simp only [hc, Bool.false_eq_true, if_false]
  rw [wh_layer_ge _ _ _ _ (Nat.le_refl k)]
  simp [hc]

theorem wr_succ_eq (k : Nat) (s : St) (n : Nat) :
    wr (k + 1) s n =
      emits (setLayer (wr k (commit k s) n) k
          { (commit k s).layer k with size := ((commit k s).layer k).size + n })
        (((commit k s).layer k).after.map (.runA k)) := by
  conv => lhs; unfold wr
  simp only []
  rw [wr_layer_ge _ _ _ _ (Nat.le_refl k)]
  simp

/-! ## downward closure: a layer that says Committed is right about everything below it -/

def Down (s : St) : Prop := ∀ k, (s.layer (k + 1)).committed = true → (s.layer k).committed = true

theorem down_chain {s : St} (h : Down s) :
    ∀ k j, j ≤ k → (s.layer k).committed = true → (s.layer j).committed = true := by
  intro k
  induction k with
  | zero => intro j hj hc; have : j = 0 := by omega
            subst this; exact hc
  | succ k ih =>
    intro j hj hc
    by_cases e : j = k + 1
    · subst e; exact hc
    · exact ih j (by omega) (h k hc)

theorem down_of_layer_eq {s t : St} (e : t.layer = s.layer) (h : Down s) : Down t := by
  intro k; rw [e]; exact h k

theorem down_setLayer_same {t : St} {k : Nat} {l : Layer} (h : Down t)
    (e : l.committed = (t.layer k).committed) : Down (setLayer t k l) := by
  intro i hi
  by_cases e1 : i + 1 = k
  · have e2 : i ≠ k := by omega
    rw [setLayer_ne _ _ e2]
    rw [← e1, setLayer_same, e, ← e1] at hi
    exact h i hi
  · rw [setLayer_ne _ _ e1] at hi
    by_cases e2 : i = k
    · subst e2; rw [setLayer_same, e]; exact h i hi
    · rw [setLayer_ne _ _ e2]; exact h i hi

theorem down_setLayer_commit {t : St} {k : Nat} {l : Layer} (h : Down t)
    (hb : ∀ j, j < k → (t.layer j).committed = true) (e : l.committed = true) : Down (setLayer t k l) := by
  intro i hi
  by_cases e2 : i = k
  · subst e2; rw [setLayer_same]; exact e
  · rw [setLayer_ne _ _ e2]
    by_cases e1 : i + 1 = k
    · exact hb i (by omega)
    · rw [setLayer_ne _ _ e1] at hi; exact h i hi

theorem wh_down : ∀ (k : Nat) (s : St) (c : Nat), Down s →
    Down (wh k s c) ∧ ∀ j, j < k → ((wh k s c).layer j).committed = true := by
  intro k
  induction k with
  | zero =>
    intro s c h
    exact ⟨down_of_layer_eq (by simp [wh]) h, by intro j hj; omega⟩
  | succ k ih =>
    intro s c h
    by_cases hc : (s.layer k).committed = true
    · have e : wh (k + 1) s c = emit s (.warn k) := by unfold wh; simp [hc]
      rw [e]
      refine ⟨down_of_layer_eq rfl h, ?_⟩
      intro j hj
      exact down_chain h k j (by omega) hc
    · have hc' : (s.layer k).committed = false := by simpa using hc
      rw [wh_succ_eq k s c hc']
      have h1 : Down (setLayer (emits s ((s.layer k).before.map (.runB k))) k { s.layer k with status := c }) :=
        down_setLayer_same (down_of_layer_eq rfl h) rfl
      obtain ⟨h2, h3⟩ := ih _ c h1
      refine ⟨down_setLayer_commit h2 h3 rfl, ?_⟩
      intro j hj
      by_cases e : j = k
      · subst e; simp
      · rw [setLayer_ne _ _ e]; exact h3 j (by omega)

theorem commit_down (k : Nat) (s : St) (h : Down s) :
    Down (commit k s) ∧ ∀ j, j < k + 1 → ((commit k s).layer j).committed = true := by
  unfold commit
  split
  · rename_i hc
    exact ⟨h, fun j hj => down_chain h k j (by omega) hc⟩
  · exact wh_down _ _ _ h

theorem wr_down : ∀ (k : Nat) (s : St) (n : Nat), Down s → Down (wr k s n) := by
  intro k
  induction k with
  | zero => intro s n h; exact down_of_layer_eq (by simp [wr]) h
  | succ k ih =>
    intro s n h
    rw [wr_succ_eq]
    refine down_of_layer_eq rfl (down_setLayer_same (ih _ n (commit_down k s h).1) ?_)
    rw [wr_layer_ge _ _ _ _ (Nat.le_refl k)]

theorem fl_down : ∀ (k : Nat) (s : St), Down s → Down (fl k s) := by
  intro k
  induction k with
  | zero => intro s h; exact down_of_layer_eq (by simp [fl]) h
  | succ k ih => intro s h; unfold fl; exact ih _ (commit_down k s h).1

theorem step_down (s : St) (op : Op) (h : Down s) : Down (step s op) := by
  cases op with
  | before k h' => exact down_of_layer_eq rfl (down_setLayer_same h rfl)
  | after k h' => exact down_of_layer_eq rfl (down_setLayer_same h rfl)
  | writeHeader k c => exact (wh_down _ _ _ h).1
  | write k n => exact wr_down _ _ _ h
  | flush k => exact fl_down _ _ h
  | blob k c n => exact wr_down _ _ _ (wh_down _ _ _ h).1
  | json k c n ok =>
    have h0 : Down (if (s.layer k).committed = true then emit s (.warn k)
        else setLayer s k { s.layer k with status := c }) := by
      split
      · exact down_of_layer_eq rfl h
      · exact down_setLayer_same h rfl
    simp only [step]
    cases ok
    · simpa using h0
    · simpa using wr_down _ _ _ h0

theorem run_down (prog : List Op) : ∀ s, Down s → Down (run s prog) := by
  induction prog with
  | nil => intro s h; exact h
  | cons op ops ih => intro s h; exact ih _ (step_down s op h)

/-! ### sizes -/

theorem wh_size : ∀ (k : Nat) (s : St) (c j : Nat), ((wh k s c).layer j).size = (s.layer j).size := by
  intro k
  induction k with
  | zero => intro s c j; simp [wh]
  | succ k ih =>
    intro s c j
    by_cases hc : (s.layer k).committed = true
    · have e : wh (k + 1) s c = emit s (.warn k) := by unfold wh; simp [hc]
      rw [e]; rfl
    · have hc' : (s.layer k).committed = false := by simpa using hc
      rw [wh_succ_eq k s c hc']
      by_cases e : j = k
      · subst e; simp
      · rw [setLayer_ne _ _ e, ih, setLayer_ne _ _ e]; rfl

theorem commit_size (k : Nat) (s : St) (j : Nat) : ((commit k s).layer j).size = (s.layer j).size := by
  unfold commit
  split
  · rfl
  · exact wh_size _ _ _ _

theorem wr_size : ∀ (k : Nat) (s : St) (n j : Nat),
    ((wr k s n).layer j).size = (s.layer j).size + (if j < k then n else 0) := by
  intro k
  induction k with
  | zero => intro s n j; simp [wr]
  | succ k ih =>
    intro s n j
    rw [wr_succ_eq]
    simp only [emits_layer]
    by_cases e : j = k
    · subst e; simp [commit_size]
    · rw [setLayer_ne _ _ e, ih, commit_size]
      by_cases h1 : j < k
      · have : j < k + 1 := by omega
        simp [h1, this]
      · have : ¬ j < k + 1 := by omega
        simp [h1, this]

theorem fl_size : ∀ (k : Nat) (s : St) (j : Nat), ((fl k s).layer j).size = (s.layer j).size := by
  intro k
  induction k with
  | zero => intro s j; simp [fl]
  | succ k ih => intro s j; unfold fl; rw [ih, commit_size]

def SizeLe (s : St) : Prop := ∀ k, (s.layer (k + 1)).size ≤ (s.layer k).size

theorem sizeLe_of_size_eq {s t : St} (e : ∀ j, (t.layer j).size = (s.layer j).size) (h : SizeLe s) : SizeLe t := by
  intro k; rw [e, e]; exact h k

theorem wr_sizeLe (k : Nat) (s : St) (n : Nat) (h : SizeLe s) : SizeLe (wr k s n) := by
  intro i
  rw [wr_size, wr_size]
  have := h i
  by_cases h1 : i + 1 < k
  · have h2 : i < k := by omega
    simp [h1, h2]; omega
  · by_cases h2 : i < k
    · simp [h1, h2]; omega
    · simp [h1, h2]; omega

theorem step_sizeLe (s : St) (op : Op) (h : SizeLe s) : SizeLe (step s op) := by
  cases op with
  | before k h' =>
    refine sizeLe_of_size_eq (fun j => ?_) h
    by_cases e : j = k
    · subst e; simp [step]
    · simp [step, setLayer_ne _ _ e]
  | after k h' =>
    refine sizeLe_of_size_eq (fun j => ?_) h
    by_cases e : j = k
    · subst e; simp [step]
    · simp [step, setLayer_ne _ _ e]
  | writeHeader k c => exact sizeLe_of_size_eq (fun j => wh_size _ _ _ j) h
  | write k n => exact wr_sizeLe _ _ _ h
  | flush k => exact sizeLe_of_size_eq (fun j => fl_size _ _ j) h
  | blob k c n => exact wr_sizeLe _ _ _ (sizeLe_of_size_eq (fun j => wh_size _ _ _ j) h)
  | json k c n ok =>
    have h0 : SizeLe (if (s.layer k).committed = true then emit s (.warn k)
        else setLayer s k { s.layer k with status := c }) := by
      split
      · exact sizeLe_of_size_eq (fun j => rfl) h
      · refine sizeLe_of_size_eq (fun j => ?_) h
        by_cases e : j = k
        · subst e; simp
        · simp [setLayer_ne _ _ e]
    simp only [step]
    cases ok
    · simpa using h0
    · simpa using wr_sizeLe _ _ _ h0

theorem run_sizeLe (prog : List Op) : ∀ s, SizeLe s → SizeLe (run s prog) := by
  induction prog with
  | nil => intro s h; exact h
  | cons op ops ih => intro s h; exact ih _ (step_sizeLe s op h)

theorem sizeLe_chain {s : St} (h : SizeLe s) : ∀ k j, j ≤ k → (s.layer k).size ≤ (s.layer j).size := by
  intro k
  induction k with
  | zero => intro j hj; have : j = 0 := by omega
            subst this; exact Nat.le_refl _
  | succ k ih =>
    intro j hj
    by_cases e : j = k + 1
    · subst e; exact Nat.le_refl _
    · exact Nat.le_trans (h k) (ih j (by omega))

/-- **C06N_down** — for every program on a tower of any height: if a layer says `Committed`
    then so does every layer below it, and no layer counts more body bytes than a layer below it. -/
theorem C06N_down (p : Nat → Nat) (prog : List Op) (k j : Nat) (hj : j ≤ k) :
    let s := run (init p) prog
    ((s.layer k).committed = true → (s.layer j).committed = true) ∧ (s.layer k).size ≤ (s.layer j).size := by
  intro s
  have hd : Down s := run_down prog _ (by intro i hi; simp [init] at hi)
  have hs : SizeLe s := run_sizeLe prog _ (by intro i; simp [init])
  exact ⟨down_chain hd k j hj, sizeLe_chain hs k j hj⟩

/-- **C06N_committed_layer_is_right_about_the_wire** — together with the outer invariant: any
    layer that says `Committed` is right (exactly one `WriteHeader` reached the underlying writer)
    and no layer's `Size` exceeds the bytes the writer got. -/
theorem C06N_committed_layer_is_right_about_the_wire (p : Nat → Nat) (prog : List Op) (k : Nat) :
    let s := run (init p) prog
    ((s.layer k).committed = true → s.hdrs = [(s.layer 0).status]) ∧ (s.layer k).size ≤ s.body := by
  intro s
  obtain ⟨h1, h2⟩ := C06N_down p prog k 0 (Nat.zero_le k)
  obtain ⟨b1, _, b3, _⟩ := C06N_outer_bookkeeping p prog
  exact ⟨fun hc => b1 (h1 hc), by rw [← b3]; exact h2⟩

/-! ## an application mounted inside another one: all layers agree -/

/-- status / body operations go through the top layer of a tower of height `d`; hooks may be
    registered on any layer (the outer application's middleware holds the outer context) -/
def TopOnly (d : Nat) : Op → Prop
  | .before _ _ => True
  | .after _ _ => True
  | .writeHeader k _ => k + 1 = d
  | .write k _ => k + 1 = d
  | .flush k => k + 1 = d
  | .blob k _ _ => k + 1 = d
  | .json k _ _ _ => k + 1 = d

def Agree (d : Nat) (s : St) : Prop := ∀ k, k < d →
  (s.layer k).committed = (s.layer 0).committed ∧ (s.layer k).size = (s.layer 0).size ∧
  ((s.layer 0).committed = true → (s.layer k).status = (s.layer 0).status)

def AllCommitted (d : Nat) (s : St) : Prop := ∀ j, j < d → (s.layer j).committed = true

theorem wh_all_uncommitted : ∀ (k : Nat) (s : St) (c : Nat), (∀ j, j < k → (s.layer j).committed = false) →
    ∀ j, j < k → (wh k s c).layer j = { s.layer j with status := c, committed := true } := by
  intro k
  induction k with
  | zero => intro s c _ j hj; omega
  | succ k ih =>
    intro s c h j hj
    rw [wh_succ_eq k s c (h k (by omega))]
    by_cases e : j = k
    · subst e; simp
    · rw [setLayer_ne _ _ e]
      have := ih (setLayer (emits s ((s.layer k).before.map (.runB k))) k { s.layer k with status := c }) c
        (by intro i hi; rw [setLayer_ne _ _ (by omega)]; exact h i (by omega)) j (by omega)
      rw [this, setLayer_ne _ _ e]
      rfl

theorem commit_of_committed (k : Nat) (s : St) (h : (s.layer k).committed = true) : commit k s = s := by
  simp [commit, h]

theorem wr_all_committed : ∀ (k : Nat) (s : St) (n : Nat), (∀ j, j < k → (s.layer j).committed = true) →
    ∀ j, j < k → (wr k s n).layer j = { s.layer j with size := (s.layer j).size + n } := by
  intro k
  induction k with
  | zero => intro s n _ j hj; omega
  | succ k ih =>
    intro s n h j hj
    rw [wr_succ_eq, commit_of_committed k s (h k (by omega))]
    simp only [emits_layer]
    by_cases e : j = k
    · subst e; simp
    · rw [setLayer_ne _ _ e]
      exact ih s n (fun i hi => h i (by omega)) j (by omega)

theorem fl_all_committed : ∀ (k : Nat) (s : St), (∀ j, j < k → (s.layer j).committed = true) →
    (fl k s).layer = s.layer := by
  intro k
  induction k with
  | zero => intro s _; simp [fl]
  | succ k ih =>
    intro s h
    unfold fl
    rw [commit_of_committed k s (h k (by omega))]
    exact ih s (fun i hi => h i (by omega))

theorem agree_of_layer_eq {d : Nat} {s t : St} (e : t.layer = s.layer) (h : Agree d s) : Agree d t := by
  intro k hk; rw [e]; exact h k hk

theorem allCommitted_of_agree {d : Nat} {s : St} (h : Agree d s) (h0 : (s.layer 0).committed = true) :
    AllCommitted d s := fun j hj => by rw [(h j hj).1]; exact h0

theorem wh_agree (d : Nat) (hd : 0 < d) (s : St) (c : Nat) (h : Agree d s) :
    Agree d (wh d s c) ∧ AllCommitted d (wh d s c) := by
  obtain ⟨k, rfl⟩ : ∃ k, d = k + 1 := ⟨d - 1, by omega⟩
  by_cases h0 : (s.layer 0).committed = true
  · have hk : (s.layer k).committed = true := by rw [(h k (by omega)).1]; exact h0
    have e : wh (k + 1) s c = emit s (.warn k) := by unfold wh; simp [hk]
    rw [e]
    exact ⟨agree_of_layer_eq rfl h, allCommitted_of_agree h h0⟩
  · have h0' : (s.layer 0).committed = false := by simpa using h0
    have hall : ∀ j, j < k + 1 → (s.layer j).committed = false := fun j hj => by rw [(h j hj).1]; exact h0'
    have hw := wh_all_uncommitted (k + 1) s c hall
    refine ⟨fun j hj => ?_, fun j hj => by rw [hw j hj]⟩
    rw [hw j hj, hw 0 hd]
    exact ⟨rfl, (h j hj).2.1, fun _ => rfl⟩

theorem commit_agree (k : Nat) (s : St) (h : Agree (k + 1) s) :
    Agree (k + 1) (commit k s) ∧ AllCommitted (k + 1) (commit k s) := by
  unfold commit
  split
  · rename_i hc
    have h0 : (s.layer 0).committed = true := by rw [← (h k (by omega)).1]; exact hc
    exact ⟨h, allCommitted_of_agree h h0⟩
  · exact wh_agree (k + 1) (by omega) s _ h

theorem wr_agree (d : Nat) (hd : 0 < d) (s : St) (n : Nat) (h : Agree d s) (hc : AllCommitted d s) :
    Agree d (wr d s n) ∧ AllCommitted d (wr d s n) := by
  have hw := wr_all_committed d s n hc
  refine ⟨fun j hj => ?_, fun j hj => by rw [hw j hj]; exact hc j hj⟩
  rw [hw j hj, hw 0 hd]
  obtain ⟨a, b, c⟩ := h j hj
  exact ⟨a, by simp [b], c⟩

theorem step_agree (d : Nat) (s : St) (op : Op) (ht : TopOnly d op) (h : Agree d s) : Agree d (step s op) := by
  have hook : ∀ (k : Nat) (l : Layer), l.committed = (s.layer k).committed → l.size = (s.layer k).size →
      l.status = (s.layer k).status → Agree d (setLayer s k l) := by
    intro k l e1 e2 e3 j hj
    have key : ∀ i, ((setLayer s k l).layer i).committed = (s.layer i).committed ∧
        ((setLayer s k l).layer i).size = (s.layer i).size ∧
        ((setLayer s k l).layer i).status = (s.layer i).status := by
      intro i
      by_cases e : i = k
      · subst e; simp [e1, e2, e3]
      · simp [setLayer_ne _ _ e]
    obtain ⟨a, b, c⟩ := h j hj
    rw [(key j).1, (key j).2.1, (key j).2.2, (key 0).1, (key 0).2.1, (key 0).2.2]
    exact ⟨a, b, c⟩
  cases op with
  | before k h' => exact agree_of_layer_eq rfl (hook k _ rfl rfl rfl)
  | after k h' => exact agree_of_layer_eq rfl (hook k _ rfl rfl rfl)
  | writeHeader k c =>
    simp only [TopOnly] at ht; subst ht
    exact (wh_agree _ (by omega) s c h).1
  | write k n =>
    simp only [TopOnly] at ht; subst ht
    simp only [step]
    rw [wr_succ_eq]
    obtain ⟨a, b⟩ := commit_agree k s h
    have hw := wr_agree (k + 1) (by omega) (commit k s) n a b
    rw [wr_succ_eq, commit_of_committed k _ (b k (by omega))] at hw
    exact agree_of_layer_eq rfl hw.1
  | flush k =>
    simp only [TopOnly] at ht; subst ht
    simp only [step, fl]
    obtain ⟨a, b⟩ := commit_agree k s h
    exact agree_of_layer_eq (fl_all_committed k _ (fun j hj => b j (by omega))) a
  | blob k c n =>
    simp only [TopOnly] at ht; subst ht
    obtain ⟨a, b⟩ := wh_agree (k + 1) (by omega) s c h
    exact (wr_agree (k + 1) (by omega) _ n a b).1
  | json k c n ok =>
    simp only [TopOnly] at ht; subst ht
    have h0 : Agree (k + 1) (if (s.layer k).committed = true then emit s (.warn k)
        else setLayer s k { s.layer k with status := c }) := by
      split
      · exact agree_of_layer_eq rfl h
      · rename_i hc
        have hc' : (s.layer k).committed = false := by simpa using hc
        have h00 : (s.layer 0).committed = false := by rw [← (h k (by omega)).1]; exact hc'
        intro j hj
        have key : ∀ i, ((setLayer s k { s.layer k with status := c }).layer i).committed = (s.layer i).committed ∧
            ((setLayer s k { s.layer k with status := c }).layer i).size = (s.layer i).size := by
          intro i
          by_cases e : i = k
          · subst e; simp
          · simp [setLayer_ne _ _ e]
        rw [(key j).1, (key j).2, (key 0).1, (key 0).2]
        exact ⟨(h j hj).1, (h j hj).2.1, fun hx => by rw [h00] at hx; exact absurd hx (by simp)⟩
    simp only [step]
    cases ok
    · simpa using h0
    · simp only [if_true]
      rw [wr_succ_eq]
      obtain ⟨a, b⟩ := commit_agree k _ h0
      have hw := wr_agree (k + 1) (by omega) _ (n + 3) a b
      rw [wr_succ_eq, commit_of_committed k _ (b k (by omega))] at hw
      exact agree_of_layer_eq rfl hw.1

/-- **C06N_pure_nesting_agrees** — an application mounted inside another one (a tower of `d`
    Responses; the handler program sends status and body through the top layer, hooks may sit on
    any layer): every layer reports the same `Committed` and the same `Size`, and once committed
    the same `Status` — which, by `C06N_outer_bookkeeping`, are what the underlying writer got. -/
theorem C06N_pure_nesting_agrees (d : Nat) (p : Nat → Nat) (prog : List Op)
    (h : ∀ op ∈ prog, TopOnly d op) : Agree d (run (init p) prog) := by
  suffices H : ∀ s, Agree d s → Agree d (run s prog) from
    H _ (fun k _ => ⟨rfl, rfl, fun hx => by simp [init] at hx⟩)
  induction prog with
  | nil => intro s hs; exact hs
  | cons op ops ih =>
    intro s hs
    exact ih (fun o ho => h o (List.mem_cons_of_mem _ ho)) _
      (step_agree d s op (h op List.mem_cons_self) hs)

/-! ## non-vacuity -/

/-- echo mounted inside echo: the inner handler answers 201 + 5 bytes, an outer middleware has a
    before- and an after-hook and tries a late NoContent(202) -/
def demoNested : List Op := [.before 0 1, .after 0 2, .blob 1 201 5, .writeHeader 0 202]

example : (run (init fun _ => 200) demoNested).trace
    = [.regB 0 1, .regA 0 2, .runB 0 1, .hdr 201, .body 5, .runA 0 2, .warn 0] := by decide
example : let s := run (init fun _ => 200) demoNested
    (s.layer 0).committed = true ∧ (s.layer 0).status = 201 ∧ (s.layer 0).size = 5 ∧
    (s.layer 1).committed = true ∧ (s.layer 1).status = 201 ∧ (s.layer 1).size = 5 ∧ s.hdrs = [201] := by decide
/-- the first three operations meet `TopOnly 2`, the late outer status write does not (and is ignored) -/
example : ∀ op ∈ demoNested.take 3, TopOnly 2 op := by
  intro op h
  simp only [demoNested, List.take, List.mem_cons, List.not_mem_nil, or_false] at h
  rcases h with rfl | rfl | rfl <;> simp [TopOnly]
/-- three layers, the middle one preset by a failed JSON, the write comes from the innermost:
    the preset of the middle layer is not what goes out -/
example : let s := run (init fun k => if k = 2 then 0 else 200) [.json 1 500 0 false, .write 2 3]
    s.hdrs = [200] ∧ (s.layer 0).status = 200 ∧ (s.layer 1).status = 200 ∧ (s.layer 2).status = 200 := by decide
/-- an outer layer committed first: the inner layer's own view (404) is not what the wire got,
    the outer one's is — and the inner layer is still right that the headers are out -/
example : let s := run (init fun _ => 200) [.writeHeader 0 201, .blob 1 404 2]
    s.hdrs = [201] ∧ (s.layer 0).status = 201 ∧ (s.layer 0).size = 2 ∧ (s.layer 1).status = 404 := by decide
/-- what the seeded change does (the inner Response writes around the outer one: the outer
    bookkeeping never hears of it) is not a behaviour of the model: in the model the outer layer
    is committed as soon as anything reached the writer -/
example : (run (init fun _ => 200) [.blob 1 201 5]).layer 0
    = { committed := true, status := 201, size := 5 } := by decide

end C06N
