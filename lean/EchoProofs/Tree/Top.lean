import EchoProofs.Tree.Refine
/-!
# `Router.find` on a well-formed tree = the reference search on the residual set of the tree

`find_refines`: for every tree satisfying the invariant `tiNode D [] t`, every method, every path
and a blank value slice with at least `D` slots, the outcome of the model of `Router.Find`
(L3) is the outcome of the reference search `Spec.search` (L1) on `resid t`, finished by
`Spec.finish`: the same route record with the same parameter values, the same Allow set, or
404.  In particular L3 never indexes out of range on such a slice (`find_no_panic`) and its
outcome does not depend on the number of spare slots (`find_length_irrelevant`).
-/
namespace Router.Tree
open Router Router.Spec

/-- outcomes agree (the route path reported with a 404/405 is not part of the reference outcome) -/
inductive OutRel : Router.Outcome → Spec.Outcome → Prop
  | dispatch (rm : RouteMethod) (mm : Str) (vals : List Str) :
      OutRel (.dispatch rm vals) (.dispatch (entryOf mm rm) vals)
  | notFound (p : Str) : OutRel (.notFound p) .notFound
  | mna (p : Str) (a : List Str) : OutRel (.methodNotAllowed p a) (.methodNotAllowed a)

theorem allowOf_own (ms : List (Str × RouteMethod)) (h : NoNfKey ms) :
    Spec.allowOf (ownEntries ms none) = Router.allowOf ms := by
  unfold Spec.allowOf Router.allowOf ownEntries
  simp only [List.append_nil, List.map_map]
  congr 1
  have hmap : ms.map ((fun x => x.method) ∘ fun x => entryOf x.1 x.2) = ms.map (·.1) := by
    apply List.map_congr_left
    intro x _
    rfl
  rw [hmap]
  apply List.filter_congr
  intro y hy
  obtain ⟨x, hx, rfl⟩ := List.mem_map.mp hy
  have := h x hx
  simp [this]

theorem take_replicate_blank (n k : Nat) (h : k ≤ n) :
    (List.replicate n ([] : Str)).take k = List.replicate k [] := by
  simp [List.take_replicate, Nat.min_eq_left h]

theorem map_const_blank (l : List Str) : l.map (fun _ => ([] : Str)) = List.replicate l.length [] := by
  induction l with
  | nil => rfl
  | cons x xs ih => simp [List.replicate_succ, ih]

/-- **L3 refines L1** -/
theorem find_refines (path m : Str) (D n : Nat) (t : Node) (hk : t.kind = .static)
    (hti : tiNode D [] t = true) (hn : D ≤ n) (d F : Nat) (hd : DepthLe (resid t) d) (hF : d < F) :
    OutRel (find t m path (List.replicate n [])) (finish (search m F (resid t) path [] none)) := by
  obtain ⟨k, pre, ms, nf, op, pc, sts, pa, an⟩ := t
  simp only [Node.kind] at hk
  subst hk
  have hbne : below (.mk .static pre ms nf op pc sts pa an) ≠ [] := below_ne_nil D [] _ hti
  -- the edge of the root
  have hres : resid (.mk .static pre ms nf op pc sts pa an) = residFrom pre (.mk .static pre ms nf op pc sts pa an) := by
    rw [resid_eq]; rfl
  rw [hres] at hd ⊢
  have hpl : pre.length ≤ d := by
    have := prepend_length_le (ts := lits pre) hd hbne
    simpa [lits] using this
  have hdb : DepthLe (below (.mk .static pre ms nf op pc sts pa an)) (d - pre.length) := by
    have := depthLe_prepend (ts := lits pre) hd
    simpa [lits] using this
  have hfuel : F = (F - pre.length) + pre.length := by omega
  rw [hfuel, search_edge]
  -- the initial state
  have hok : Ok D [] (⟨0, 0, List.replicate n [], none, false⟩ : St) :=
    ⟨rfl, rfl, by simpa using hn, by intro i _; simp [List.getD, List.getElem?_replicate]; split <;> rfl⟩
  have hv0 : valsOf (⟨0, 0, List.replicate n [], none, false⟩ : St) = [] := by simp [valsOf]
  have hst := (node_ok path m D _ [] hti).1 rfl ⟨0, 0, List.replicate n [], none, false⟩ none
    (d - pre.length) (F - pre.length) hok trivial hdb (by omega)
  simp only [Node.pre, List.drop_zero, hv0] at hst
  unfold find
  by_cases hpfx : pre.isPrefixOf path = true
  · simp only [hpfx, if_true] at hst ⊢
    generalize findNode path m (.mk .static pre ms nf op pc sts pa an) ⟨0, 0, List.replicate n [], none, false⟩ = x at hst ⊢
    generalize search m (F - pre.length) (below (.mk .static pre ms nf op pc sts pa an)) (path.drop pre.length)
      [] none = y at hst ⊢
    obtain ⟨st', r⟩ := x
    obtain ⟨resL, bL⟩ := y
    obtain ⟨hbr, hm⟩ := hst
    cases r with
    | hit rm =>
      obtain ⟨hnp, hpi, hle, mm, hL⟩ := hm
      simp only at hL hnp hpi hle
      subst hL
      have hgt : ¬ rm.pnames.length > st'.pv.length := by omega
      simp only [hnp, Bool.false_eq_true, if_false, hgt, finish]
      have : st'.pv.take rm.pnames.length = valsOf st' := by simp [valsOf, hpi]
      rw [this]
      exact OutRel.dispatch rm mm _
    | leave =>
      obtain ⟨hL, hnp, _, _, hpv⟩ := hm
      simp only at hL hnp hpv hbr
      subst hL
      simp only [hnp, Bool.false_eq_true, if_false]
      cases hb' : st'.best with
      | none =>
        rw [hb'] at hbr
        cases bL with
        | none => exact OutRel.notFound _
        | some _ => exact absurd hbr (by simp [BRel])
      | some b =>
        rw [hb'] at hbr
        cases bL with
        | none => exact absurd hbr (by simp [BRel])
        | some l =>
          obtain ⟨hl, hno, hnfD⟩ := hbr
          subst hl
          simp only [finish, findNF_own _ _ hno, isHandler_own _ _ hno]
          cases hnf : b.nf with
          | some rm =>
            have hlen := hnfD rm hnf
            have hgt : ¬ rm.pnames.length > st'.pv.length := by rw [hpv]; simp; omega
            simp only [Option.map_some, hgt, if_false]
            have : st'.pv.take rm.pnames.length = (entryOf routeNotFound rm).pnames.map (fun _ => []) := by
              rw [hpv, take_replicate_blank _ _ (by omega), map_const_blank]
              rfl
            rw [this]
            exact OutRel.dispatch rm routeNotFound _
          | none =>
            simp only [Option.map_none]
            by_cases hme : b.methods.isEmpty = true
            · simp only [hme, Bool.not_true, Bool.false_eq_true, if_false]
              exact OutRel.notFound _
            · simp only [hme, Bool.not_false, if_true]
              rw [allowOf_own _ hno]
              exact OutRel.mna _ _
  · simp only [hpfx, Bool.false_eq_true, if_false] at hst ⊢
    rw [hst]
    simp only [Bool.false_eq_true, if_false]
    have : (if F - pre.length + pre.length = 0 then ((Spec.Res.miss, none) : Spec.Res × Spec.Best) else (Spec.Res.miss, none))
        = (Spec.Res.miss, none) := by split <;> rfl
    rw [this]
    exact OutRel.notFound _

/-- L3 never fails on a blank slice with at least `D` slots -/
theorem find_no_panic (path m : Str) (D n : Nat) (t : Node) (hk : t.kind = .static)
    (hti : tiNode D [] t = true) (hn : D ≤ n) : find t m path (List.replicate n []) ≠ .panic := by
  intro hp
  have := find_refines path m D n t hk hti hn (bound (resid t)) (bound (resid t) + 1) (depthLe_bound _) (by omega)
  rw [hp] at this
  cases this

end Router.Tree
