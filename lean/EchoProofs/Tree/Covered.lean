import EchoProofs.Spec.Covered
import EchoProofs.C04ScopeReq
/-!
# Catch-all not-found routes cover their prefix (layer L3, the radix-tree model)

`find_covered`: in the tree built from any table of representable patterns (`okTable`; re-registrations
allowed), a registered `RouteNotFound` route with pattern `s*` (`s` literal text) makes `Router.Find`
dispatch every request whose path starts with `s`, and one with the literal pattern `s` the request for
exactly `s` — for every method.  It is `route_covered` (L1) transported through `find_eq_route_ok`.
-/
set_option linter.unusedSimpArgs false
set_option linter.unusedVariables false
namespace Router.Tree
open Router Router.Spec

/-! ### the table in force keeps a registration of every key -/

theorem sameKey_refl (a : Route) : sameKey a a = true := by simp [sameKey]

theorem sameKey_trans {a b c : Route} (h1 : sameKey a b = true) (h2 : sameKey b c = true) :
    sameKey a c = true := by
  simp only [sameKey, Bool.and_eq_true, beq_iff_eq] at *
  exact ⟨h1.1.trans h2.1, h1.2.trans h2.2⟩

theorem dedupLast_mono (a : Route) (rs : List Route) : ∀ r ∈ dedupLast rs, r ∈ dedupLast (a :: rs) := by
  intro r hr
  simp only [dedupLast]
  split
  · exact hr
  · exact List.mem_cons_of_mem _ hr

/-- every registered route has a registration with the same method and tokens in the table in force -/
theorem dedupLast_key : ∀ (rs : List Route) (r : Route), r ∈ rs → ∃ r' ∈ dedupLast rs, sameKey r r' = true := by
  intro rs
  induction rs with
  | nil => intro r hr; simp at hr
  | cons a rs ih =>
    intro r hr
    rcases List.mem_cons.mp hr with rfl | hr
    · by_cases hany : rs.any (sameKey r) = true
      · obtain ⟨b, hb, hs⟩ := List.any_eq_true.mp hany
        obtain ⟨r', hr', hs'⟩ := ih b hb
        exact ⟨r', dedupLast_mono r rs r' hr', sameKey_trans hs hs'⟩
      · exact ⟨r, by simp [dedupLast, hany], sameKey_refl r⟩
    · obtain ⟨r', hr', hs⟩ := ih r hr
      exact ⟨r', dedupLast_mono a rs r' hr', hs⟩

/-! ### representable patterns have `*` last -/

theorem anyLast_of_okPatternAux : ∀ (f : Nat) (p : Str), okPatternAux f p = true →
    anyLast (normAux f p).1 = true := by
  intro f
  induction f with
  | zero => intro p _; simp [normAux, anyLast]
  | succ f ih =>
    intro p h
    cases p with
    | nil => simp [normAux, anyLast]
    | cons c rest =>
      rw [okPatternAux_cons] at h
      rw [normAux_cons]
      by_cases h1 : c = '\\' ∧ rest.head? = some ':'
      · rw [if_pos h1] at h; cases h
      · rw [if_neg h1] at h ⊢
        by_cases h2 : c = ':'
        · rw [if_pos h2] at h ⊢
          simp only [anyLast]; exact ih _ h
        · rw [if_neg h2] at h ⊢
          by_cases h3 : c = '*'
          · rw [if_pos h3]; rfl
          · rw [if_neg h3] at h ⊢
            simp only [anyLast]; exact ih _ h

theorem anyLast_of_okPattern {p : Str} (h : okPattern p = true) : anyLast (norm p).1 = true :=
  anyLast_of_okPatternAux _ _ h

/-! ### the tokens of a literal pattern and of a literal pattern followed by `*` -/

theorem norm_plain_star {p s : Str} (hs : C04.Plain s) (h : normalizeSlash p = s ++ ['*']) :
    (norm p).1 = s.map Tok.lit ++ [.any] := by
  unfold norm
  simp only
  rw [h, C04.normAux_plain s ['*'] hs _ (by simp; omega)]
  have : (s ++ ['*']).length + 1 - s.length = 2 := by simp; omega
  rw [this]
  simp [normAux, lits]

theorem norm_plain {p s : Str} (hs : C04.Plain s) (h : normalizeSlash p = s) :
    (norm p).1 = s.map Tok.lit := by
  unfold norm
  simp only
  rw [h]
  have := C04.normAux_plain s [] hs (s.length + 1) (by omega)
  rw [List.append_nil] at this
  rw [this]
  have h2 : s.length + 1 - s.length = 1 := by omega
  rw [h2]
  simp [normAux, lits]

theorem outEquiv_dispatch_right {e : Entry} {v : List Str} {o : Spec.Outcome}
    (h : C02.OutEquiv o (.dispatch e v)) : o = .dispatch e v := by
  cases o with
  | dispatch e' v' => obtain ⟨rfl, rfl⟩ := h; rfl
  | notFound => exact absurd h (by simp [C02.OutEquiv])
  | methodNotAllowed a => exact absurd h (by simp [C02.OutEquiv])

/-- **catch-all not-found routes cover their prefix, on the tree model** -/
theorem find_covered (rs : List Route) (hok : okTable rs = true) (r : Route) (hr : r ∈ rs)
    (hm : r.method = routeNotFound) (s path : Str) (hs : C04.Plain s)
    (h : (normalizeSlash r.path = s ++ ['*'] ∧ s <+: path) ∨ (normalizeSlash r.path = s ∧ path = s))
    (m : Str) (n : Nat) (hn : maxParam rs ≤ n) :
    ∃ rm vals, find (build rs) m path (List.replicate n []) = .dispatch rm vals := by
  obtain ⟨r', hr', hkey⟩ := dedupLast_key rs r hr
  simp only [sameKey, Bool.and_eq_true, beq_iff_eq] at hkey
  have hmem : mkEntry r' ∈ (dedupLast rs).map mkEntry := List.mem_map.mpr ⟨r', hr', rfl⟩
  have hal : ∀ e ∈ (dedupLast rs).map mkEntry, anyLast e.toks = true := by
    intro e he
    obtain ⟨a, ha, rfl⟩ := List.mem_map.mp he
    simp only [okTable, List.all_eq_true] at hok
    exact anyLast_of_okPattern (hok a (dedupLast_subset rs a ha))
  have htoks : (mkEntry r').toks = (norm r.path).1 := hkey.2.symm
  have hcov : ((mkEntry r').toks = s.map Tok.lit ++ [.any] ∧ s <+: path)
      ∨ ((mkEntry r').toks = s.map Tok.lit ∧ path = s) := by
    rcases h with ⟨h1, h2⟩ | ⟨h1, h2⟩
    · exact Or.inl ⟨by rw [htoks]; exact norm_plain_star hs h1, h2⟩
    · exact Or.inr ⟨by rw [htoks]; exact norm_plain hs h1, h2⟩
  obtain ⟨e', vals, hroute⟩ := route_covered _ hal (mkEntry r') hmem
    (by rw [mkEntry_method, ← hkey.1]; exact hm) s path hcov m
  obtain ⟨o, ho, he⟩ := find_eq_route_ok rs m path n hn hok
  rw [hroute] at he
  have := outEquiv_dispatch_right he
  subst this
  generalize find (build rs) m path (List.replicate n []) = f at ho ⊢
  cases ho with
  | dispatch rm mm vals => exact ⟨rm, vals, rfl⟩

end Router.Tree
