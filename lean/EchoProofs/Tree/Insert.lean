import EchoProofs.Tree.Insert.Final
/-!
# `Router.build` produces a tree that satisfies the invariant and represents the table

The headline theorem `build_tableInvariant` (proved in `Insert/Final.lean` from the files below) says: for
every NON-EMPTY route table that is well formed (`wfTable`: no escaped colon, no text after `*`, no two
routes with the same method and the same normalised pattern), the model of echo's radix-tree insertion
yields a tree with

* (TI) `tiNode (maxParam rs) [] (build rs) = true` and `(build rs).kind = .static`,
* (RS) `resid (build rs)` is a permutation of `initial (rs.map mkEntry)` (and `uniqB` of it),

i.e. `tableInvariant rs = (true, true)`.

**Finding.**  The statement without `rs ≠ []` is false: `build [] = emptyTree` is a node without record and
without child, which the "no dead leaves" conjunct of `tiNode` rejects (`tableInvariant_nil`,
`wfTable_nil`).  The total statement is `build_tableInvariant_all`:
`wfTable rs = true → tableInvariant rs = (!rs.isEmpty, true)`.  The corollaries about `find`
(`EchoProofs/Tree/WF.lean`) hold for every well-formed table including the empty one.

Structure of the proof (`Insert/*.lean`):

* `Defs`   tree text (`tokOf`, `textToks`, `Clean`, `Piece`), the relaxed invariant `tiR` (= `tiNode` without
           "no dead leaves", with the byte classes of the prefixes), the node boundaries `bounds` and the
           dead leaves `deads` of a tree, and `insertAt_cases`: the case principle of `insertAt` with the
           longest common prefix split off
* `Basic`  text/label facts, the children of a node under `tiR`
* `Paths`  `insertAt_bounds` (a boundary at the inserted text), `insertAt_deads` (dead leaves after an insertion)
* `Inv`    `insertAt_tiR`: `insertAt` preserves `tiR` when the text fits (`Fit`)
* `Resid`  `insertAt_resid`: the residual set after `insertAt` (`expected`: add, replacing the same method)
* `Text`   `normAux`/`okPatternAux` with canonical fuel (`NA`, `OK`)
* `Loop`   `insertLoop_ok`: the scan loop of `Router.insert` in lock step with `normAux`
* `Route`  `insertRoute_ok`: one registration
* `Final`  `tiNode_of_tiR`, `paramCountOf_eq`, `fold_ok`, `build_tableInvariant`
-/
namespace Router.Tree
open Router Router.Spec

theorem wfTable_nil : wfTable [] = true := by
  simp [wfTable, initial, uniqB]

/-- the empty table is well formed but its tree (a single dead leaf) fails the invariant -/
theorem tableInvariant_nil : tableInvariant [] = (false, true) := by
  have hb : build [] = emptyTree := rfl
  unfold tableInvariant
  simp only [hb, resid_emptyTree]
  simp [emptyTree, tiNode, initial, uniqB, List.isPerm]

/-- the statement of the task for ALL tables, as far as it is true -/
theorem build_tableInvariant_all (rs : List Route) (h : wfTable rs = true) :
    tableInvariant rs = (!rs.isEmpty, true) := by
  cases rs with
  | nil => exact tableInvariant_nil
  | cons r rs => exact build_tableInvariant (r :: rs) (by simp) h

/-- the two parts of the invariant, spelled out -/
theorem build_TI (rs : List Route) (hne : rs ≠ []) (h : wfTable rs = true) :
    tiNode (maxParam rs) [] (build rs) = true ∧ (build rs).kind = .static := by
  have := build_tableInvariant rs hne h
  simp only [tableInvariant, Prod.mk.injEq, Bool.and_eq_true, decide_eq_true_eq] at this
  exact this.1

theorem build_RS (rs : List Route) (h : wfTable rs = true) :
    (resid (build rs)).Perm (initial (rs.map mkEntry)) := by
  cases rs with
  | nil =>
    have hb : build [] = emptyTree := rfl
    rw [hb, resid_emptyTree]; exact List.Perm.refl _
  | cons r rs =>
    have := build_tableInvariant (r :: rs) (by simp) h
    simp only [tableInvariant, Prod.mk.injEq, Bool.and_eq_true, decide_eq_true_eq, List.isPerm_iff] at this
    exact this.2.1

end Router.Tree
