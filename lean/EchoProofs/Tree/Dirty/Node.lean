import EchoProofs.Tree.Dirty.Sim
/-!
# Two runs of the Find loop on value slices with different content — the tree

`findNode_content` **(A)**: on every tree satisfying the invariant `tiNode`, two visits of a node by the Find
loop that start in states agreeing on `si`, `pi`, the remembered best node, the panic flag, the length of the
value slice and its slots below `pi` (`SimPi`) index out of range together, and otherwise end in states that
agree in the same sense, with the same result.  `findNode_content_nf` is the same for the slightly finer
relation `SimNf` that `find` needs for its best-node fallback, and adds that a matched record takes exactly
the `pi` values collected on the way and that a miss gives the parameter index back (`ResOk`).  Both are
instances of `findNode_content_gen`.

Structural induction over `Node` / `List Node` / `Option Node` in the style of `Frame.lean`
(`node_ok'` / `list_ok'` / `opt_ok'`); the invariant is used for exactly three facts: the kinds of the
children (so that leaving a child gives back the slot entering it took), `paramsCount = pi + 1` at the
wildcard child, and `pnames.length = arity` for every record (so that a match hands out exactly the slots
below `pi`, and the best node's not-found record never reaches above `pi` when it is remembered).
The hypothesis cannot be dropped: see `badTree` in `Dirty.lean`.
-/
namespace Router.Tree
open Router Router.Spec

variable {w : Option Best → Nat}

/-- the statement carried by the structural induction; `d` is the parameter index inside the node -/
def NodeOK (w : Option Best → Nat) (path m : Str) (d : Nat) (n : Node) : Prop :=
  ∀ a b : St, Sim w a b → a.pi = d → (findNode path m n a).1.panicked = false →
    Agree w (findNode path m n a) (findNode path m n b) ∧ ResOk d n.kind (findNode path m n a)

/-! ### the Static block -/

theorem sBlock_ok (path m : Str) (sts : List Node) (d : Nat)
    (ih : ∀ n ∈ sts, n.kind = .static ∧ NodeOK w path m d n) {a b : St} (h : Sim w a b) (hpi : a.pi = d)
    (hnp : (sBlock path m sts a).1.panicked = false) :
    Agree w (sBlock path m sts a) (sBlock path m sts b) ∧ NextOk d (sBlock path m sts a) := by
  unfold sBlock at hnp ⊢
  rw [← h.si]
  cases hd : path.drop a.si with
  | nil => exact ⟨⟨rfl, h⟩, hpi⟩
  | cons c rest =>
    simp only [hd, findStatic_eq_pick] at hnp ⊢
    cases hp : pick c sts with
    | none => exact ⟨⟨rfl, h⟩, hpi⟩
    | some n =>
      simp only [hp, Option.map_some] at hnp ⊢
      obtain ⟨hk, ihn⟩ := ih n (pick_mem hp).1
      rw [staticBlock_some_fst n.kind (findNode path m n a) a] at hnp
      obtain ⟨hag, hok⟩ := ihn a b h hpi hnp
      rw [hk] at hok ⊢
      generalize findNode path m n a = x at hag hok
      generalize findNode path m n b = y at hag
      obtain ⟨sa, ra⟩ := x
      obtain ⟨sb, rb⟩ := y
      obtain ⟨hres, hsim⟩ := hag
      simp only at hres hsim
      subst hres
      cases ra with
      | hit rm => exact ⟨⟨rfl, hsim⟩, hok⟩
      | leave =>
        refine ⟨⟨rfl, hsim⟩, ?_⟩
        have : sa.pi + back .static = d := hok
        show sa.pi = d
        simpa [back] using this

/-! ### the Param block -/

theorem pBlock_ok (path m : Str) (pa : Option Node) (d : Nat)
    (ih : ∀ n, pa = some n → n.kind = .param ∧ NodeOK w path m (d + 1) n) {a b : St} (h : Sim w a b)
    (hpi : a.pi = d) (hnp : (paramBlock (findParam path m pa a) a).1.panicked = false) :
    Agree w (paramBlock (findParam path m pa a) a) (paramBlock (findParam path m pa b) b) ∧
      NextOk d (paramBlock (findParam path m pa a) a) := by
  cases pa with
  | none => rw [findParam, findParam]; exact ⟨⟨rfl, h⟩, hpi⟩
  | some c =>
    rw [findParam] at hnp ⊢
    rw [findParam]
    simp only [paramBlock_some_fst] at hnp
    have he : (enterParam path (isLeafNode c) a).panicked = false := by
      cases hc : (enterParam path (isLeafNode c) a).panicked with
      | false => rfl
      | true =>
        rw [findNode_panicked _ _ _ _ hc] at hnp
        simp only at hnp
        rw [hc] at hnp
        cases hnp
    obtain ⟨hse, hpe⟩ := enterParam_sim path (isLeafNode c) h he
    obtain ⟨hk, ihc⟩ := ih c rfl
    obtain ⟨hag, hok⟩ := ihc _ _ hse (by rw [hpe, hpi]) hnp
    rw [hk] at hok
    generalize findNode path m c (enterParam path (isLeafNode c) a) = x at hag hok
    generalize findNode path m c (enterParam path (isLeafNode c) b) = y at hag
    obtain ⟨sa, ra⟩ := x
    obtain ⟨sb, rb⟩ := y
    obtain ⟨hres, hsim⟩ := hag
    simp only at hres hsim
    subst hres
    cases ra with
    | hit rm => exact ⟨⟨rfl, hsim⟩, hok⟩
    | leave =>
      refine ⟨⟨rfl, hsim⟩, ?_⟩
      have : sa.pi + back .param = d + 1 := hok
      show sa.pi = d
      simp only [back, reduceCtorEq, if_false] at this
      omega

theorem pStage_ok (hw : ∀ o, w o ≤ nfLen o) (path m : Str) (k : Kind) (p : Nat) (pa an : Option Node) (d : Nat)
    (ih : ∀ n, pa = some n → n.kind = .param ∧ NodeOK w path m (d + 1) n) (hf : AnyFacts d an)
    {a b : St} (h : Sim w a b) (hpi : a.pi = d) (hnp : (pStage path m k p pa an a).1.panicked = false) :
    Agree w (pStage path m k p pa an a) (pStage path m k p pa an b) ∧
      ResOk d k (pStage path m k p pa an a) := by
  unfold pStage at hnp ⊢
  rw [← h.si]
  by_cases he : (path.drop a.si).isEmpty = true
  · simp only [he, if_true] at hnp ⊢
    exact finishNode_ok path m k p an d hw h .any hpi hf hnp
  · simp only [he, if_false, Bool.false_eq_true] at hnp ⊢
    have hb : (paramBlock (findParam path m pa a) a).1.panicked = false := by
      cases hc : (paramBlock (findParam path m pa a) a).1.panicked with
      | false => rfl
      | true =>
        rw [finishNode_mono _ _ _ _ _ _ _ hc] at hnp
        cases hnp
    obtain ⟨hag, hok⟩ := pBlock_ok path m pa d ih h hpi hb
    generalize paramBlock (findParam path m pa a) a = x at hag hok hnp
    generalize paramBlock (findParam path m pa b) b = y at hag
    obtain ⟨sa, na⟩ := x
    obtain ⟨sb, nb⟩ := y
    obtain ⟨hres, hsim⟩ := hag
    simp only at hres hsim
    subst hres
    exact finishNode_ok path m k p an d hw hsim na hok hf hnp

theorem afterS_ok (hw : ∀ o, w o ≤ nfLen o) (path m : Str) (k : Kind) (p : Nat) (pa an : Option Node) (d : Nat)
    (ih : ∀ n, pa = some n → n.kind = .param ∧ NodeOK w path m (d + 1) n) (hf : AnyFacts d an)
    {a b : St} (h : Sim w a b) (nx : Next) (hnx : NextOk d (a, nx))
    (hnp : (afterS path m k p pa an (a, nx)).1.panicked = false) :
    Agree w (afterS path m k p pa an (a, nx)) (afterS path m k p pa an (b, nx)) ∧
      ResOk d k (afterS path m k p pa an (a, nx)) := by
  cases nx with
  | param => exact pStage_ok hw path m k p pa an d ih hf h hnx hnp
  | hit rm => exact finishNode_ok path m k p an d hw h _ hnx hf hnp
  | any => exact finishNode_ok path m k p an d hw h _ hnx hf hnp
  | leave => exact finishNode_ok path m k p an d hw h _ hnx hf hnp

/-! ### one node -/

theorem body_ok (hw : ∀ o, w o ≤ nfLen o) (path m : Str) (k : Kind) (pre : Str) (ms : List (Str × RouteMethod))
    (nf : Option RouteMethod) (op : Str) (sts : List Node) (pa an : Option Node) (d : Nat)
    (ihS : ∀ n ∈ sts, n.kind = .static ∧ NodeOK w path m d n)
    (ihP : ∀ n, pa = some n → n.kind = .param ∧ NodeOK w path m (d + 1) n) (hf : AnyFacts d an)
    (hms : ∀ x ∈ ms, x.2.pnames.length = d) (hnf : ∀ rm, nf = some rm → rm.pnames.length = d)
    {a b : St} (h : Sim w a b) (hpi : a.pi = d)
    (hnp : (bodyOf path m k pre ms nf op sts pa an a).1.panicked = false) :
    Agree w (bodyOf path m k pre ms nf op sts pa an a) (bodyOf path m k pre ms nf op sts pa an b) ∧
      ResOk d k (bodyOf path m k pre ms nf op sts pa an a) := by
  rw [bodyOf_eq] at hnp ⊢
  rw [bodyOf_eq, ← h.si]
  obtain ⟨hag, hpi1⟩ := nodeEnd_sim m ms nf op (path.drop a.si).isEmpty hw h
    (fun rm hrm => by rw [hnf rm hrm, hpi]; exact Nat.le_refl _)
  have hsome := @nodeEnd_some m ms nf op (path.drop a.si).isEmpty a
  generalize nodeEnd m ms nf op (path.drop a.si).isEmpty a = x at hag hpi1 hsome hnp
  generalize nodeEnd m ms nf op (path.drop a.si).isEmpty b = y at hag
  obtain ⟨sa, ea⟩ := x
  obtain ⟨sb, eb⟩ := y
  obtain ⟨hres, hsim⟩ := hag
  simp only at hres hsim hpi1 hsome
  subst hres
  cases ea with
  | some rm =>
    refine ⟨⟨rfl, hsim⟩, ?_⟩
    show rm.pnames.length = sa.pi
    rw [hpi1, hpi]
    rcases hsome rfl with hm | hn
    · exact hms _ hm
    · exact hnf rm hn
  | none =>
    simp only at hnp ⊢
    have hpi2 : sa.pi = d := by rw [hpi1, hpi]
    have hs : (sBlock path m sts sa).1.panicked = false := by
      cases hc : (sBlock path m sts sa).1.panicked with
      | false => rfl
      | true =>
        exfalso
        generalize sBlock path m sts sa = z at hc hnp
        obtain ⟨st2, nx⟩ := z
        rw [afterS_mono _ _ _ _ _ _ _ _ hc] at hnp
        cases hnp
    obtain ⟨hag2, hok2⟩ := sBlock_ok path m sts d ihS hsim hpi2 hs
    generalize sBlock path m sts sa = x at hag2 hok2 hnp
    generalize sBlock path m sts sb = y at hag2
    obtain ⟨sa2, na⟩ := x
    obtain ⟨sb2, nb⟩ := y
    obtain ⟨hres2, hsim2⟩ := hag2
    simp only at hres2 hsim2
    subst hres2
    exact afterS_ok hw path m k pre.length pa an d ihP hf hsim2 na hok2 hnp

/-- one node, given its children -/
theorem node_ok_step (hw : ∀ o, w o ≤ nfLen o) (path m : Str) (D : Nat) (toks : List Tok) (k : Kind) (pre : Str)
    (ms : List (Str × RouteMethod)) (nf : Option RouteMethod) (op : Str) (pc : Nat) (sts : List Node)
    (pa an : Option Node) (hti : tiNode D toks (.mk k pre ms nf op pc sts pa an) = true)
    (ihS : ∀ n ∈ sts, n.kind = .static ∧ NodeOK w path m (arity (toks ++ headToks k pre)) n)
    (ihP : ∀ n, pa = some n → n.kind = .param ∧ NodeOK w path m (arity (toks ++ headToks k pre) + 1) n) :
    NodeOK w path m (arity (toks ++ headToks k pre)) (.mk k pre ms nf op pc sts pa an) := by
  have p := tiNode_parts hti
  have hf : AnyFacts (arity (toks ++ headToks k pre)) an := by
    intro c hc
    subst hc
    obtain ⟨hka, hac⟩ := tiOpt_some p.kidA
    obtain ⟨ak, apre, ams, anf, aop, apc, asts, apa, aan⟩ := c
    simp only [Node.kind] at hka
    subst hka
    have q := tiNode_parts hac
    have har : arity ((toks ++ headToks k pre) ++ headToks .any apre) = arity (toks ++ headToks k pre) + 1 := by
      rw [arity_append]; simp [headToks, arity]
    refine ⟨rfl, ?_, ?_, ?_⟩
    · show apc = _
      rw [(q.kindAny rfl).2.2.2.2, har]
    · intro x hx
      rw [(q.recs x hx).2, har]
    · intro rm hrm
      rw [(q.nfRec rm hrm).2, har]
  intro a b h hpi hnp
  rw [findNode_unfold] at hnp ⊢
  rw [findNode_unfold, ← h.pan, ← h.si]
  by_cases hp : a.panicked = true
  · simp [hp] at hnp
  · simp only [hp, if_false, Bool.false_eq_true] at hnp ⊢
    by_cases hl : (if k = .static then lcp (path.drop a.si) pre else 0) ≠ (if k = .static then pre.length else 0)
    · simp only [if_pos hl]
      refine ⟨⟨rfl, h⟩, ?_⟩
      show a.pi + back k = _
      cases k with
      | static => simpa [back] using hpi
      | param => simp at hl
      | any => simp at hl
    · simp only [if_neg hl] at hnp ⊢
      refine body_ok hw path m k pre ms nf op sts pa an _ ihS ihP hf (fun x hx => (p.recs x hx).2)
        (fun rm hrm => (p.nfRec rm hrm).2) ?_ hpi hnp
      exact ⟨rfl, h.pi, h.best, rfl, h.len, h.low⟩

/-! ### the structural induction -/

mutual
theorem node_ok' (hw : ∀ o, w o ≤ nfLen o) (path m : Str) (D : Nat) : (n : Node) → (toks : List Tok) → tiNode D toks n = true →
    NodeOK w path m (arity (toks ++ headToks n.kind n.pre)) n
  | .mk k pre ms nf op pc sts pa an, toks, h => by
    have p := tiNode_parts h
    exact node_ok_step hw path m D toks k pre ms nf op pc sts pa an h
      (list_ok' hw path m D sts (toks ++ headToks k pre) p.kids)
      (opt_ok' hw path m D pa (toks ++ headToks k pre) p.kidP)
theorem list_ok' (hw : ∀ o, w o ≤ nfLen o) (path m : Str) (D : Nat) : (l : List Node) → (toks : List Tok) → tiList D toks l = true →
    ∀ c ∈ l, c.kind = .static ∧ NodeOK w path m (arity toks) c
  | [], _, _ => by intro c hc; simp at hc
  | x :: xs, toks, h => by
    obtain ⟨hk, _, hx, hxs⟩ := tiList_cons h
    intro c hc
    rcases List.mem_cons.mp hc with heq | hm
    · rw [heq]
      refine ⟨hk, ?_⟩
      have := node_ok' hw path m D x toks hx
      rw [hk, arity_static] at this
      exact this
    · exact list_ok' hw path m D xs toks hxs c hm
theorem opt_ok' (hw : ∀ o, w o ≤ nfLen o) (path m : Str) (D : Nat) : (o : Option Node) → (toks : List Tok) →
    tiOpt D toks .param o = true → ∀ c, o = some c → c.kind = .param ∧ NodeOK w path m (arity toks + 1) c
  | none, _, _ => by intro c hc; simp at hc
  | some x, toks, h => by
    obtain ⟨hk, hx⟩ := tiOpt_some h
    intro c hc
    simp only [Option.some.injEq] at hc
    rw [← hc]
    refine ⟨hk, ?_⟩
    have := node_ok' hw path m D x toks hx
    rw [hk] at this
    have har : arity (toks ++ headToks .param x.pre) = arity toks + 1 := by
      rw [arity_append]; simp [headToks, arity]
    rw [har] at this
    exact this
end

/-- **(A), general form.**  `w` says how many slots beyond `pi` the two slices are required to agree on,
    as a function of the remembered best node; any `w` below `nfLen` (the number of values the best node's
    not-found record takes) will do.  On every tree satisfying the invariant: two visits of a node from
    `Sim w`-related states, the first of which does not index out of range, give the same result and end in
    `Sim w`-related states; a matched record takes exactly the `pi` values collected so far, and a miss gives
    the node's slot back (`ResOk`). -/
theorem findNode_content_gen (hw : ∀ o, w o ≤ nfLen o) (path m : Str) (D : Nat) (toks : List Tok) (n : Node)
    (hti : tiNode D toks n = true) (a b : St) (h : Sim w a b)
    (hpi : a.pi = arity (toks ++ headToks n.kind n.pre))
    (hnp : (findNode path m n a).1.panicked = false) :
    (findNode path m n a).2 = (findNode path m n b).2 ∧ Sim w (findNode path m n a).1 (findNode path m n b).1 ∧
      ResOk a.pi n.kind (findNode path m n a) := by
  obtain ⟨hag, hok⟩ := node_ok' hw path m D n toks hti a b h hpi hnp
  rw [hpi]
  exact ⟨hag.res, hag.sim, hok⟩

/-- the two runs index out of range together -/
theorem findNode_content_panic (hw : ∀ o, w o ≤ nfLen o) (path m : Str) (D : Nat) (toks : List Tok) (n : Node)
    (hti : tiNode D toks n = true) (a b : St) (h : Sim w a b)
    (hpi : a.pi = arity (toks ++ headToks n.kind n.pre)) :
    (findNode path m n a).1.panicked = (findNode path m n b).1.panicked := by
  cases ha : (findNode path m n a).1.panicked with
  | false => exact ((findNode_content_gen hw path m D toks n hti a b h hpi ha).2.1.pan).symm.trans ha |>.symm
  | true =>
    cases hb : (findNode path m n b).1.panicked with
    | true => rfl
    | false =>
      have := (findNode_content_gen hw path m D toks n hti b a h.symm (by rw [← h.pi]; exact hpi) hb).2.1.pan
      rw [hb, ha] at this
      cases this

/-- agreement on everything but the content of the value slice, and on the slots below `pi` -/
abbrev SimPi : St → St → Prop := Sim (fun _ => 0)

/-- agreement on everything but the content of the value slice, on the slots below `pi`, and on the slots
    the custom not-found record of the remembered best node (if any) would take -/
abbrev SimNf : St → St → Prop := Sim nfLen

/-- **(A) the Find loop does not see the content of the value slice above `pi`** — on every tree satisfying
    the invariant `tiNode`: two visits of a node from states that agree on `si`, `pi`, the remembered best
    node, the panic flag, the length of the value slice and its slots BELOW `pi`, index out of range together,
    and if they do not, they give the same result and end in states that agree in the same sense. -/
theorem findNode_content (path m : Str) (D : Nat) (toks : List Tok) (n : Node)
    (hti : tiNode D toks n = true) (a b : St) (h : SimPi a b)
    (hpi : a.pi = arity (toks ++ headToks n.kind n.pre)) :
    (findNode path m n a).1.panicked = (findNode path m n b).1.panicked ∧
    ((findNode path m n a).1.panicked = false →
      (findNode path m n a).2 = (findNode path m n b).2 ∧ SimPi (findNode path m n a).1 (findNode path m n b).1) := by
  have hw : ∀ o : Option Best, (fun _ => 0) o ≤ nfLen o := fun _ => Nat.zero_le _
  refine ⟨findNode_content_panic hw path m D toks n hti a b h hpi, fun hnp => ?_⟩
  obtain ⟨h1, h2, _⟩ := findNode_content_gen hw path m D toks n hti a b h hpi hnp
  exact ⟨h1, h2⟩

/-- **(A), the form used for `find`**: the same for `SimNf`; in addition a matched record takes exactly the
    `pi` values collected so far and a miss gives the node's slot back -/
theorem findNode_content_nf (path m : Str) (D : Nat) (toks : List Tok) (n : Node)
    (hti : tiNode D toks n = true) (a b : St) (h : SimNf a b)
    (hpi : a.pi = arity (toks ++ headToks n.kind n.pre)) :
    (findNode path m n a).1.panicked = (findNode path m n b).1.panicked ∧
    ((findNode path m n a).1.panicked = false →
      (findNode path m n a).2 = (findNode path m n b).2 ∧ SimNf (findNode path m n a).1 (findNode path m n b).1 ∧
        ResOk a.pi n.kind (findNode path m n a)) :=
  ⟨findNode_content_panic (fun _ => Nat.le_refl _) path m D toks n hti a b h hpi,
   findNode_content_gen (fun _ => Nat.le_refl _) path m D toks n hti a b h hpi⟩

end Router.Tree
