import EchoProofs.Tree.Frame
/-!
# Two runs of the Find loop on value slices with different content — the state operations

`Sim w a b`: two states of the Find loop that agree on everything except the CONTENT of the value slice
(`si`, `pi`, remembered best node, panic flag, length of the slice), and whose slices agree on every slot
below `pi` (the values stored on the way to the current node — the only slots `backtrackToNextNodeKind`
and a match read) and on every slot below `w best`.  Two instances are used:

* `w = fun _ => 0` (`SimPi`): agreement below `pi` only — the relation of statement (A);
* `w = nfLen` (`SimNf`): in addition agreement on the slots the custom not-found record of the remembered
  best node would take.  `nfLen best` is `0` as long as no best node is remembered and is `≤ pi` at the
  moment a best node is remembered (its record takes exactly the values collected on the way to it), so the
  additional requirement is vacuous when it is introduced; later `pi` only falls below it by blanking slots
  in BOTH runs.  This is what makes the best-node fallback of `find` independent of the old content.

This file shows that every state operation of the loop (`enterParam`, `leaveRestore`, `leaveOut`,
`nodeEnd`, the Any block, `finishNode`) maps `Sim w`-related states to `Sim w`-related states with equal
results (for every `w ≤ nfLen`), and tracks the parameter index.  No hypothesis on the tree except, for the
Any block, that the wildcard child knows its slot (`paramsCount = pi + 1`, `AnyFacts`) — which is what the
tree invariant gives (`Dirty/Node.lean`).  As in `Frame.lean` the lemmas assume that the first run does not
index out of range; `findNode_content_panic` (`Node.lean`) shows that the two runs do so together.
-/
namespace Router

/-- number of values the custom not-found record of the remembered best node takes (0 if there is none) -/
def nfLen : Option Best → Nat
  | some b =>
    match b.nf with
    | some rm => rm.pnames.length
    | none => 0
  | none => 0

/-- two states of the Find loop that differ at most in the content of the value slice, and only in slots
    at or above `pi` and at or above `w best` — slots the loop does not read before writing them -/
structure Sim (w : Option Best → Nat) (a b : St) : Prop where
  si : a.si = b.si
  pi : a.pi = b.pi
  best : a.best = b.best
  pan : a.panicked = b.panicked
  len : a.pv.length = b.pv.length
  low : ∀ i, i < a.pi ∨ i < w a.best → a.pv[i]? = b.pv[i]?

theorem Sim.refl (w : Option Best → Nat) (a : St) : Sim w a a := ⟨rfl, rfl, rfl, rfl, rfl, fun _ _ => rfl⟩

theorem Sim.symm {w : Option Best → Nat} {a b : St} (h : Sim w a b) : Sim w b a :=
  ⟨h.si.symm, h.pi.symm, h.best.symm, h.pan.symm, h.len.symm,
   fun i hi => (h.low i (by rw [h.pi, h.best]; exact hi)).symm⟩

theorem Sim.trans {w : Option Best → Nat} {a b c : St} (h1 : Sim w a b) (h2 : Sim w b c) : Sim w a c :=
  ⟨h1.si.trans h2.si, h1.pi.trans h2.pi, h1.best.trans h2.best, h1.pan.trans h2.pan, h1.len.trans h2.len,
   fun i hi => (h1.low i hi).trans (h2.low i (by rw [← h1.pi, ← h1.best]; exact hi))⟩

/-- results and states of two runs agree -/
structure Agree (w : Option Best → Nat) {ρ : Type} (x y : St × ρ) : Prop where
  res : x.2 = y.2
  sim : Sim w x.1 y.1

end Router

namespace Router.Tree
open Router

variable {w : Option Best → Nat}

/-- remember `nb` as best node unless one is remembered already -/
def withBest (st : St) (nb : Best) : St :=
  { st with best := if st.best.isNone then some nb else st.best }

theorem _root_.Router.Sim.addSi {a b : St} (h : Sim w a b) (n : Nat) :
    Sim w { a with si := a.si + n } { b with si := b.si + n } :=
  ⟨by show a.si + n = b.si + n; rw [h.si], h.pi, h.best, h.pan, h.len, h.low⟩

theorem _root_.Router.Sim.entered {a b : St} (h : Sim w a b) (v : Str) :
    Sim w (entered a v a.best) (entered b v b.best) := by
  refine ⟨?_, ?_, h.best, rfl, ?_, ?_⟩
  · show a.si + v.length = b.si + v.length
    rw [h.si]
  · show a.pi + 1 = b.pi + 1
    rw [h.pi]
  · show (a.pv.set a.pi v).length = (b.pv.set b.pi v).length
    simp only [List.length_set, h.len]
  · intro i hi
    have hi' : i < a.pi + 1 ∨ i < w a.best := hi
    show (a.pv.set a.pi v)[i]? = (b.pv.set b.pi v)[i]?
    rw [← h.pi]
    simp only [List.getElem?_set, ← h.len]
    by_cases hc : a.pi = i
    · simp only [hc, if_true]
    · simp only [hc, if_false]
      apply h.low
      rcases hi' with h1 | h2
      · left; omega
      · right; exact h2

theorem _root_.Router.Sim.withBest {a b : St} (h : Sim w a b) (nb : Best) (hle : w (some nb) ≤ a.pi) :
    Sim w (withBest a nb) (withBest b nb) := by
  unfold Tree.withBest
  rw [← h.best]
  cases hb : a.best with
  | some x =>
    refine ⟨h.si, h.pi, ?_, h.pan, h.len, ?_⟩
    · rfl
    · intro i hi
      apply h.low
      rw [hb]
      exact hi
  | none =>
    refine ⟨h.si, h.pi, ?_, h.pan, h.len, ?_⟩
    · rfl
    · intro i hi
      have hi' : i < a.pi ∨ i < w (some nb) := hi
      apply h.low
      left
      omega

/-! ### `leaveRestore` / `leaveOut` -/

/-- what leaving a node does to the parameter index -/
def back (k : Kind) : Nat := if k = .static then 0 else 1

theorem leaveRestore_sim (k : Kind) (p : Nat) {a b : St} (h : Sim w a b)
    (hnp : (leaveRestore k p a).panicked = false) :
    Sim w (leaveRestore k p a) (leaveRestore k p b) ∧ (leaveRestore k p a).pi + back k = a.pi := by
  cases k
  case static =>
    exact ⟨⟨by show a.si - p = b.si - p; rw [h.si], h.pi, h.best, h.pan, h.len, h.low⟩, rfl⟩
  all_goals
    simp only [leaveRestore] at hnp ⊢
    by_cases hc : a.pi = 0 ∨ a.pi - 1 ≥ a.pv.length
    · simp [hc] at hnp
    · have hc' : ¬ (b.pi = 0 ∨ b.pi - 1 ≥ b.pv.length) := by rw [← h.pi, ← h.len]; exact hc
      rw [if_neg hc, if_neg hc']
      have hget : a.pv.getD (a.pi - 1) [] = b.pv.getD (b.pi - 1) [] := by
        rw [List.getD_eq_getElem?_getD, List.getD_eq_getElem?_getD, ← h.pi, h.low (a.pi - 1) (Or.inl (by omega))]
      refine ⟨⟨?_, ?_, h.best, h.pan, ?_, ?_⟩, ?_⟩
      · show a.si - (a.pv.getD (a.pi - 1) []).length = b.si - (b.pv.getD (b.pi - 1) []).length
        rw [hget, h.si]
      · show a.pi - 1 = b.pi - 1
        rw [h.pi]
      · show (a.pv.set (a.pi - 1) []).length = (b.pv.set (b.pi - 1) []).length
        simp only [List.length_set, h.len]
      · intro i hi
        have hi' : i < a.pi - 1 ∨ i < w a.best := hi
        show (a.pv.set (a.pi - 1) [])[i]? = (b.pv.set (b.pi - 1) [])[i]?
        rw [← h.pi]
        simp only [List.getElem?_set, ← h.len]
        by_cases hc2 : a.pi - 1 = i
        · simp only [hc2, if_true]
        · simp only [hc2, if_false]
          apply h.low
          rcases hi' with h1 | h2
          · left; omega
          · right; exact h2
      · show a.pi - 1 + back _ = a.pi
        simp only [back, reduceCtorEq, if_false]
        omega

theorem leaveOut_sim (k : Kind) (p : Nat) {a b : St} (h : Sim w a b)
    (hnp : (leaveOut k p a).1.panicked = false) :
    Agree w (leaveOut k p a) (leaveOut k p b) ∧ (leaveOut k p a).2 = .leave ∧
      (leaveOut k p a).1.pi + back k = a.pi := by
  unfold leaveOut at hnp ⊢
  rw [← h.pan]
  by_cases hp : a.panicked = true
  · simp [hp] at hnp
  · simp only [hp, if_false, Bool.false_eq_true] at hnp ⊢
    obtain ⟨h1, h2⟩ := leaveRestore_sim k p h hnp
    refine ⟨⟨rfl, h1⟩, ?_, h2⟩
    first | rfl | trivial

/-! ### `enterParam` -/

theorem setVal_bad (st : St) (n : Nat) (v : Str) (h : ¬ n < st.pv.length) :
    (setVal st (n : Int) v).panicked = true := by
  unfold setVal
  rw [if_pos (by right; simp only [Int.toNat_natCast]; omega)]

theorem np_of_enterParam {path : Str} {leaf : Bool} {st : St}
    (h : (enterParam path leaf st).panicked = false) : st.panicked = false ∧ st.pi < st.pv.length := by
  constructor
  · cases hc : st.panicked with
    | false => rfl
    | true => rw [enterParam_mono _ _ _ hc] at h; cases h
  · apply Decidable.byContradiction
    intro hc
    have : (enterParam path leaf st).panicked = true := by
      unfold enterParam
      exact setVal_bad _ _ _ hc
    rw [this] at h
    cases h

theorem enterParam_sim (path : Str) (leaf : Bool) {a b : St} (h : Sim w a b)
    (hnp : (enterParam path leaf a).panicked = false) :
    Sim w (enterParam path leaf a) (enterParam path leaf b) ∧ (enterParam path leaf a).pi = a.pi + 1 := by
  obtain ⟨hpa, hlt⟩ := np_of_enterParam hnp
  have hpb : b.panicked = false := h.pan ▸ hpa
  have hltb : b.pi < b.pv.length := by rw [← h.pi, ← h.len]; exact hlt
  rw [enterParam_eq path leaf a hlt hpa, enterParam_eq path leaf b hltb hpb, ← h.si]
  exact ⟨h.entered _, rfl⟩

/-! ### `nodeEnd` -/

theorem nodeEnd_sim (m : Str) (ms : List (Str × RouteMethod)) (nf : Option RouteMethod) (op : Str)
    (atEnd : Bool) {a b : St} (hw : ∀ o, w o ≤ nfLen o) (h : Sim w a b)
    (hnf : ∀ rm, nf = some rm → rm.pnames.length ≤ a.pi) :
    Agree w (nodeEnd m ms nf op atEnd a) (nodeEnd m ms nf op atEnd b) ∧
      (nodeEnd m ms nf op atEnd a).1.pi = a.pi := by
  refine ⟨⟨rfl, ?_⟩, rfl⟩
  simp only [nodeEnd]
  rw [← h.best]
  by_cases hc : atEnd = true ∧ (!ms.isEmpty) = true ∧ a.best.isNone = true
  · rw [if_pos hc]
    refine ⟨h.si, h.pi, rfl, h.pan, h.len, ?_⟩
    intro i hi
    have hi' : i < a.pi ∨ i < w (some ⟨ms, nf, op⟩) := hi
    apply h.low
    left
    rcases hi' with h1 | h2
    · exact h1
    · have h2 := Nat.lt_of_lt_of_le h2 (hw _)
      simp only [nfLen] at h2
      cases nf with
      | none => simp at h2
      | some rm => have := hnf rm rfl; simp only at h2; omega
  · rw [if_neg hc]
    exact ⟨h.si, h.pi, rfl, h.pan, h.len, h.low⟩

/-! ### the Any block -/

/-- what the Find loop relies on about the wildcard child when the parameter index is `d`: it is a
    wildcard node, it knows its slot, and its records take `d + 1` values -/
def AnyFacts (d : Nat) (an : Option Node) : Prop :=
  ∀ c, an = some c → c.kind = .any ∧ c.paramsCount = d + 1 ∧
    (∀ x ∈ c.methods, x.2.pnames.length = d + 1) ∧ (∀ rm, c.nf = some rm → rm.pnames.length = d + 1)

/-- a matched record takes exactly the values collected so far / a miss leaves the index at `d` -/
def OptOk (d : Nat) (x : St × Option RouteMethod) : Prop :=
  match x.2 with
  | some rm => rm.pnames.length = x.1.pi
  | none => x.1.pi = d

def NextOk (d : Nat) (x : St × Next) : Prop :=
  match x.2 with
  | .hit rm => rm.pnames.length = x.1.pi
  | _ => x.1.pi = d

/-- `d` is the parameter index inside the node of kind `k`; leaving the node gives back the slot the
    node took -/
def ResOk (d : Nat) (k : Kind) (x : St × Res) : Prop :=
  match x.2 with
  | .hit rm => rm.pnames.length = x.1.pi
  | .leave => x.1.pi + back k = d

/-- the Any block when the wildcard child's slot is the current one and the slot exists -/
theorem anyBlock_entered (path m : Str) (c : Node) (st : St) (hpc : c.paramsCount = st.pi + 1)
    (hlt : st.pi < st.pv.length) (hnp : st.panicked = false) :
    anyBlock path m (some c) st =
      match findMethod c.methods m with
      | some h => (entered st (path.drop st.si) st.best, some h)
      | none =>
        match c.nf with
        | some h => (withBest (entered st (path.drop st.si) st.best) (bestOf c), some h)
        | none => (leaveRestore c.kind c.pre.length
                    (withBest (entered st (path.drop st.si) st.best) (bestOf c)), none) := by
  simp only [anyBlock, setVal_cur st c.paramsCount _ hpc hlt]
  cases findMethod c.methods m with
  | some h => simp [entered, hnp]
  | none =>
    simp only
    cases c.nf with
    | some h => simp [entered, withBest, hnp]
    | none => simp [entered, withBest, hnp]

theorem np_of_anyBlock {path m : Str} {c : Node} {st : St} (hpc : c.paramsCount = st.pi + 1)
    (h : (anyBlock path m (some c) st).1.panicked = false) :
    st.panicked = false ∧ st.pi < st.pv.length := by
  constructor
  · cases hc : st.panicked with
    | false => rfl
    | true => rw [anyBlock_mono _ _ _ _ hc] at h; cases h
  · apply Decidable.byContradiction
    intro hc
    rw [anyBlock_some] at h
    have hidx : ((c.paramsCount : Int) - 1) = (st.pi : Int) := by omega
    rw [hidx, anyRest_mono _ _ _ _ (setVal_bad _ _ _ hc)] at h
    cases h

theorem anyBlock_sim (path m : Str) (an : Option Node) (d : Nat) {a b : St} (hw : ∀ o, w o ≤ nfLen o)
    (h : Sim w a b) (hpi : a.pi = d) (hf : AnyFacts d an)
    (hnp : (anyBlock path m an a).1.panicked = false) :
    Agree w (anyBlock path m an a) (anyBlock path m an b) ∧ OptOk d (anyBlock path m an a) := by
  cases an with
  | none => exact ⟨⟨rfl, h⟩, hpi⟩
  | some c =>
    obtain ⟨hk, hpc, hms, hnf⟩ := hf c rfl
    have hpca : c.paramsCount = a.pi + 1 := by rw [hpi]; exact hpc
    have hpcb : c.paramsCount = b.pi + 1 := by rw [← h.pi]; exact hpca
    obtain ⟨hpa, hlt⟩ := np_of_anyBlock hpca hnp
    have hpb : b.panicked = false := h.pan ▸ hpa
    have hltb : b.pi < b.pv.length := by rw [← h.pi, ← h.len]; exact hlt
    rw [anyBlock_entered path m c a hpca hlt hpa] at hnp ⊢
    rw [anyBlock_entered path m c b hpcb hltb hpb, ← h.si]
    have he := h.entered (path.drop a.si)
    cases hfm : findMethod c.methods m with
    | some rm =>
      refine ⟨⟨rfl, he⟩, ?_⟩
      show rm.pnames.length = a.pi + 1
      rw [hms _ (findMethod_mem hfm), hpi]
    | none =>
      simp only [hfm] at hnp ⊢
      have hle : w (some (bestOf c)) ≤ (entered a (path.drop a.si) a.best).pi := by
        refine Nat.le_trans (hw _) ?_
        show nfLen (some (bestOf c)) ≤ a.pi + 1
        simp only [nfLen, bestOf]
        cases hn : c.nf with
        | none => simp
        | some rm => simp only; rw [hnf rm hn, hpi]; exact Nat.le_refl _
      have hw := he.withBest (bestOf c) hle
      cases hn : c.nf with
      | some rm =>
        refine ⟨⟨rfl, hw⟩, ?_⟩
        show rm.pnames.length = a.pi + 1
        rw [hnf rm hn, hpi]
      | none =>
        simp only [hn] at hnp ⊢
        obtain ⟨h1, h2⟩ := leaveRestore_sim c.kind c.pre.length hw hnp
        refine ⟨⟨rfl, h1⟩, ?_⟩
        show (leaveRestore c.kind c.pre.length _).pi = d
        rw [hk] at h2 ⊢
        have h3 : (Tree.withBest (entered a (path.drop a.si) a.best) (bestOf c)).pi = a.pi + 1 := rfl
        rw [h3] at h2
        simp only [back, reduceCtorEq, if_false] at h2
        omega

/-! ### `finishNode` -/

theorem finishNode_ok (path m : Str) (k : Kind) (p : Nat) (an : Option Node) (d : Nat) {a b : St}
    (hw : ∀ o, w o ≤ nfLen o) (h : Sim w a b) (nx : Next) (hnx : NextOk d (a, nx)) (hf : AnyFacts d an)
    (hnp : (finishNode path m k p an a nx).1.panicked = false) :
    Agree w (finishNode path m k p an a nx) (finishNode path m k p an b nx) ∧
      ResOk d k (finishNode path m k p an a nx) := by
  have hleave : ∀ {a' b' : St}, Sim w a' b' → a'.pi = d → (leaveOut k p a').1.panicked = false →
      Agree w (leaveOut k p a') (leaveOut k p b') ∧ ResOk d k (leaveOut k p a') := by
    intro a' b' h' hpi' hnp'
    obtain ⟨h1, h2, h3⟩ := leaveOut_sim k p h' hnp'
    refine ⟨h1, ?_⟩
    unfold ResOk
    rw [h2]
    show (leaveOut k p a').1.pi + back k = d
    rw [h3, hpi']
  have hany : a.pi = d →
      (match anyBlock path m an a with
        | (st', some rm) => (st', Res.hit rm)
        | (st', none) => leaveOut k p st').1.panicked = false →
      Agree w (match anyBlock path m an a with
        | (st', some rm) => (st', Res.hit rm)
        | (st', none) => leaveOut k p st')
       (match anyBlock path m an b with
        | (st', some rm) => (st', Res.hit rm)
        | (st', none) => leaveOut k p st') ∧
      ResOk d k (match anyBlock path m an a with
        | (st', some rm) => (st', Res.hit rm)
        | (st', none) => leaveOut k p st') := by
    intro hpi hnp
    have ha : (anyBlock path m an a).1.panicked = false := by
      cases hc : (anyBlock path m an a).1.panicked with
      | false => rfl
      | true =>
        exfalso
        generalize anyBlock path m an a = x at hc hnp
        obtain ⟨st', r⟩ := x
        cases r with
        | some rm => simp only at hc hnp; rw [hc] at hnp; cases hnp
        | none =>
          simp only at hc hnp
          rw [leaveOut_mono _ _ _ hc] at hnp
          cases hnp
    obtain ⟨hag, hok⟩ := anyBlock_sim path m an d hw h hpi hf ha
    generalize anyBlock path m an a = x at hag hok hnp
    generalize anyBlock path m an b = y at hag
    obtain ⟨sa, ra⟩ := x
    obtain ⟨sb, rb⟩ := y
    obtain ⟨hres, hsim⟩ := hag
    simp only at hres hsim
    subst hres
    cases ra with
    | some rm => exact ⟨⟨rfl, hsim⟩, hok⟩
    | none => exact hleave hsim hok hnp
  cases nx with
  | hit rm => exact ⟨⟨rfl, h⟩, hnx⟩
  | leave => exact hleave h hnx hnp
  | param => exact hany hnx hnp
  | any => exact hany hnx hnp

end Router.Tree
