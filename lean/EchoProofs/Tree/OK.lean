import EchoProofs.Tree.Dedup
import EchoProofs.Tree.WF2
/-!
# Router corollaries for every table of representable patterns, re-registrations included

With `find_eq_route_ok` (`Dedup.lean`) the tree model computes the reference search on the table *in force*
(`dedupLast rs`: a re-registered route replaces its earlier registration) for every table whose patterns are
representable (`okTable`: no escaped colon, no text after `*`).  This file transports the C03 and C05
statements to that generality.  (C02's order-freeness is, by its nature, about tables without re-registrations:
with a re-registration the order decides which handler is in force.)
-/
namespace Router.Tree
open Router Router.Spec

theorem mem_dedup_entries {rs : List Route} {e : Entry} (h : e ∈ (dedupLast rs).map mkEntry) :
    e ∈ rs.map mkEntry := by
  obtain ⟨r, hr, rfl⟩ := List.mem_map.mp h
  exact List.mem_map.mpr ⟨r, dedupLast_subset rs r hr, rfl⟩

/-- **C03 on the tree model**: every advertised method is really served — by the registration in force -/
theorem tree_allow_truthful_ok (rs : List Route) (m path : Str) (n : Nat) (hn : maxParam rs ≤ n)
    (hok : okTable rs = true) (p : Str) (allow : List Str)
    (h : find (build rs) m path (List.replicate n []) = .methodNotAllowed p allow)
    (m' : Str) (hm' : m' ∈ allow) (hopt : m' ≠ methodOptions) :
    ∃ rm vals, find (build rs) m' path (List.replicate n []) = .dispatch rm vals ∧
      ∃ e, e ∈ (dedupLast rs).map mkEntry ∧ e.method = m' ∧ e.hid = rm.hid := by
  obtain ⟨o, ho, he⟩ := find_eq_route_ok rs m path n hn hok
  rw [h] at ho
  have ho' := outRel_mna_inv ho
  subst ho'
  cases hr : route ((dedupLast rs).map mkEntry) m path with
  | dispatch e v => rw [hr] at he; exact absurd he (by simp [C02.OutEquiv])
  | notFound => rw [hr] at he; exact absurd he (by simp [C02.OutEquiv])
  | methodNotAllowed al =>
    rw [hr] at he
    simp only [C02.OutEquiv] at he
    have hmem : m' ∈ al := he.mem_iff.mp hm'
    obtain ⟨e, v, hd, hmeth, _⟩ := C03.C03_allow_truthful _ _ _ _ hr m' hmem hopt
    obtain ⟨o2, ho2, he2⟩ := find_eq_route_ok rs m' path n hn hok
    rw [hd] at he2
    generalize find (build rs) m' path (List.replicate n []) = f at ho2 ⊢
    cases ho2 with
    | dispatch rm mm vals =>
      obtain ⟨he1, hv⟩ := he2
      refine ⟨rm, vals, rfl, e, ?_, hmeth, ?_⟩
      · have := C01.C01_sound_partial _ _ _ _ _ hd
        rcases this with ⟨hm, _⟩ | ⟨_, hm, _⟩ <;> exact hm
      · rw [← he1]; rfl
    | notFound p' => exact absurd he2 (by simp [C02.OutEquiv])
    | mna p' a' => exact absurd he2 (by simp [C02.OutEquiv])

/-- **C03 on the tree model**: a path no registered pattern can be instantiated to gets 404 -/
theorem tree_404_ok (rs : List Route) (m path : Str) (n : Nat) (hn : maxParam rs ≤ n)
    (hok : okTable rs = true)
    (hno : ∀ e ∈ rs.map mkEntry, ∀ w, inst e.toks w ≠ some path) :
    ∃ p, find (build rs) m path (List.replicate n []) = .notFound p := by
  obtain ⟨o, ho, he⟩ := find_eq_route_ok rs m path n hn hok
  rw [C03.C03_404 _ m path (fun e he => hno e (mem_dedup_entries he))] at he
  generalize find (build rs) m path (List.replicate n []) = f at ho ⊢
  cases ho with
  | notFound p => exact ⟨p, rfl⟩
  | dispatch rm mm vals => exact absurd he (by simp [C02.OutEquiv])
  | mna p a => exact absurd he (by simp [C02.OutEquiv])

/-- a dispatched record is a registration in force whose pattern matches the path -/
theorem tree_dispatch_registered (rs : List Route) (m path : Str) (n : Nat) (hn : maxParam rs ≤ n)
    (hok : okTable rs = true) (rm : RouteMethod) (vals : List Str)
    (h : find (build rs) m path (List.replicate n []) = .dispatch rm vals) :
    ∃ r ∈ dedupLast rs, r.hid = rm.hid ∧ normalizeSlash r.path = rm.ppath
      ∧ ∃ w, inst (norm r.path).1 w = some path := by
  obtain ⟨o, ho, he⟩ := find_eq_route_ok rs m path n hn hok
  rw [h] at ho
  obtain ⟨mm, rfl⟩ := outRel_dispatch_inv ho
  have hr := outEquiv_dispatch_left he
  have hmem : entryOf mm rm ∈ (dedupLast rs).map mkEntry ∧ ∃ w, inst (entryOf mm rm).toks w = some path := by
    rcases C01.C01_sound_partial _ _ _ _ _ hr with ⟨h1, h2, _, _⟩ | ⟨_, h1, h2, _⟩
    · exact ⟨h1, _, h2⟩
    · exact ⟨h1, h2⟩
  obtain ⟨hmem, w, hw⟩ := hmem
  obtain ⟨r, hr', hre⟩ := List.mem_map.mp hmem
  refine ⟨r, hr', ?_, ?_, w, ?_⟩
  · have := congrArg Entry.hid hre
    simpa [mkEntry, entryOf] using this
  · have := congrArg Entry.ppath hre
    simpa [mkEntry, entryOf] using this
  · have := congrArg Entry.toks hre
    rw [← this] at hw
    simpa [mkEntry] using hw

/-- **C05_isolated on the tree model**, for every table of representable patterns -/
theorem C05_isolated_tree_ok (rs : List Route) (hok : okTable rs = true)
    (dirty : C05.Ctx) (r : C05.Request) :
    (C05.serveWith (C05.routerOf rs) (maxParam rs) (some dirty) r).1 =
      (C05.serveWith (C05.routerOf rs) (maxParam rs) none r).1 :=
  C05.C05_isolated _ _ (tree_length_irrelevant_ok rs hok) (C05.routerOf_valuesPerName rs) dirty r

theorem C05_no_fail_after_registration_tree_ok (rs : List Route) (hok : okTable rs = true)
    (pooled : Option C05.Ctx) (r : C05.Request) :
    (C05.serveWith (C05.routerOf rs) (maxParam rs) pooled r).1.kind ≠ 3 :=
  C05.C05_no_fail_after_registration _ _ (tree_no_panic_ok rs hok) pooled r

theorem C05_history_isolated_tree_ok :
    ∀ (steps : List C05.Step) (w : C05.World),
      TablesOk (fun routes => okTable routes = true) w.routes steps →
      C05.runSteps w steps = C05.expected w.routes steps := by
  intro steps
  induction steps with
  | nil => intro w _; rfl
  | cons s ss ih =>
    intro w hok
    cases s with
    | register rt =>
      simp only [C05.runSteps, C05.step, C05.expected]
      exact ih _ hok
    | borrow id prog =>
      simp only [C05.runSteps, C05.step, C05.expected]
      exact ih _ hok
    | request r =>
      obtain ⟨hwf, hok'⟩ := hok
      simp only [C05.runSteps, C05.step, C05.expected]
      cases hp : w.pool with
      | nil =>
        simp only
        rw [ih]
        · rfl
        · exact hok'
      | cons c cs =>
        simp only
        rw [ih]
        · simp only [C05.alone]
          rw [C05_isolated_tree_ok w.routes hwf c r]
        · exact hok'

theorem tablesOk_of_patterns : ∀ (steps : List C05.Step) (routes : List Route),
    okTable (routes ++ regsOf steps) = true → TablesOk (fun rs => okTable rs = true) routes steps := by
  intro steps
  induction steps with
  | nil => intro _ _; trivial
  | cons s ss ih =>
    intro routes h
    cases s with
    | register rt =>
      simp only [TablesOk]
      apply ih
      simpa [regsOf, List.append_assoc] using h
    | borrow id prog =>
      simp only [TablesOk]
      simp only [regsOf] at h
      exact ih routes h
    | request r =>
      simp only [TablesOk]
      simp only [regsOf] at h
      refine ⟨?_, ih routes h⟩
      simp only [okTable, List.all_append, Bool.and_eq_true] at h ⊢
      exact h.1

/-- **C05_history_isolated**, most general form: if every pattern the application ever registers is
    representable (no escaped colon, no text after `*`) — routes may be registered again and again, at any
    point of the history — then from any pool content every request observes exactly what it would observe
    alone on a fresh instance with the routes registered so far. -/
theorem C05_history_isolated_tree_patterns (steps : List C05.Step) (w : C05.World)
    (h : okTable (w.routes ++ regsOf steps) = true) :
    C05.runSteps w steps = C05.expected w.routes steps :=
  C05_history_isolated_tree_ok steps w (tablesOk_of_patterns steps w.routes h)

end Router.Tree
