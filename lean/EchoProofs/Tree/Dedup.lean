import EchoProofs.Tree.WF
import EchoProofs.Tree.Frame
/-!
# Tables with re-registered routes

Registering a route again (same method, same normalised pattern — possibly with renamed parameters)
replaces the earlier record (`addMethod` overwrites).  So for ANY table whose patterns are representable
(`okTable`), the tree built by `Router.build` satisfies the invariant and represents the table *in force*,
`dedupLast rs` (the last registration of every route): `build_tableInvariantD`.  `dedupLast rs` is always
well formed (`wfTable_dedupLast`), and the router theorems follow with `okTable` only
(`find_eq_route_ok`, `find_table_no_panic_ok`, `tree_sound_ok`, `tree_length_irrelevant_ok`, `tree_no_panic_ok`).
-/
set_option linter.unusedSimpArgs false
set_option linter.unusedVariables false
namespace Router.Tree
open Router Router.Spec

/-! ### the residual set along the registrations -/

/-- what one registration does to the residual set -/
def regStep (X : R) (r : Route) : R :=
  ((norm r.path).1, mkEntry r) :: X.filter (keep (norm r.path).1 r.method)

theorem regStep_perm {X Y : R} (h : X.Perm Y) (r : Route) : (regStep X r).Perm (regStep Y r) :=
  List.Perm.cons _ (h.filter _)

theorem foldl_regStep_perm : ∀ (rs : List Route) {X Y : R}, X.Perm Y →
    (rs.foldl regStep X).Perm (rs.foldl regStep Y) := by
  intro rs
  induction rs with
  | nil => intro X Y h; exact h
  | cons r rs ih => intro X Y h; exact ih (regStep_perm h r)

/-- the registrations one after the other, duplicates allowed -/
theorem fold_gen (D : Nat) : ∀ (rs : List Route) (t : Node) (X : R), Top D t →
    (∀ x ∈ deads t, x = []) → (resid t).Perm X →
    (∀ r ∈ rs, okPattern r.path = true ∧ arity (norm r.path).1 ≤ D) →
    Top D (rs.foldl (fun t r => insertRoute t r.method r.path r.hid) t)
      ∧ (rs ≠ [] → deads (rs.foldl (fun t r => insertRoute t r.method r.path r.hid) t) = [])
      ∧ (resid (rs.foldl (fun t r => insertRoute t r.method r.path r.hid) t)).Perm (rs.foldl regStep X) := by
  intro rs
  induction rs with
  | nil =>
    intro t X ht _ hres _
    exact ⟨ht, fun h => absurd rfl h, hres⟩
  | cons r rs ih =>
    intro t X ht hdead hres hok
    obtain ⟨hokr, hDr⟩ := hok r (by simp)
    obtain ⟨f1, f2, f3, _⟩ := insertRoute_ok D t r.method r.path r.hid ht hdead hokr hDr
    simp only [List.foldl_cons]
    have hres1 : (resid (insertRoute t r.method r.path r.hid)).Perm (regStep X r) :=
      f3.trans (regStep_perm hres r)
    obtain ⟨g1, g2, g3⟩ := ih (insertRoute t r.method r.path r.hid) (regStep X r) f1
      (by intro x hx; rw [f2] at hx; simp at hx) hres1 (fun r' hr' => hok r' (by simp [hr']))
    refine ⟨g1, fun _ => ?_, g3⟩
    by_cases hrs : rs = []
    · subst hrs; exact f2
    · exact g2 hrs

/-- a residual survives all the registrations `rs` -/
def keepAll (rs : List Route) (x : List Tok × Entry) : Bool :=
  rs.all (fun r => keep (norm r.path).1 r.method x)

theorem keepAll_self (r : Route) (rs : List Route) :
    keepAll rs ((norm r.path).1, mkEntry r) = !rs.any (sameKey r) := by
  induction rs with
  | nil => rfl
  | cons r' rs ih =>
    simp only [keepAll, List.all_cons, List.any_cons, Bool.not_or] at ih ⊢
    rw [ih]
    congr 1
    simp only [keep, sameKey, mkEntry_method]
    rw [Bool.and_comm]

/-- the residual set after the registrations `rs`: the table in force, and what survives of the start -/
theorem foldl_regStep : ∀ (rs : List Route) (X : R),
    (rs.foldl regStep X).Perm (initial ((dedupLast rs).map mkEntry) ++ X.filter (keepAll rs)) := by
  intro rs
  induction rs with
  | nil =>
    intro X
    have : X.filter (keepAll []) = X := by
      rw [List.filter_eq_self]; intro x _; rfl
    simp [dedupLast, initial, this]
  | cons r rs ih =>
    intro X
    simp only [List.foldl_cons]
    refine (ih (regStep X r)).trans ?_
    have hfilt : (X.filter (keep (norm r.path).1 r.method)).filter (keepAll rs) = X.filter (keepAll (r :: rs)) := by
      rw [List.filter_filter]
      apply List.filter_congr
      intro x _
      simp only [keepAll, List.all_cons]
      rw [Bool.and_comm]
    simp only [regStep, List.filter_cons, keepAll_self, hfilt, dedupLast]
    by_cases hany : rs.any (sameKey r) = true
    · simp only [hany, Bool.not_true, Bool.false_eq_true, if_false, if_true]
      exact List.Perm.refl _
    · have hany' : rs.any (sameKey r) = false := by simpa using hany
      simp only [hany', Bool.not_false, if_true, Bool.false_eq_true, if_false]
      have : initial ((r :: dedupLast rs).map mkEntry)
          = ((norm r.path).1, mkEntry r) :: initial ((dedupLast rs).map mkEntry) := by
        simp [initial, mkEntry]
      rw [this]
      exact List.perm_middle

/-! ### the table in force is well formed -/

theorem dedupLast_subset : ∀ (rs : List Route), ∀ r ∈ dedupLast rs, r ∈ rs := by
  intro rs
  induction rs with
  | nil => intro r hr; simp [dedupLast] at hr
  | cons a rs ih =>
    intro r hr
    simp only [dedupLast] at hr
    split at hr
    · exact List.mem_cons_of_mem _ (ih r hr)
    · rcases List.mem_cons.mp hr with h | h
      · rw [h]; exact List.mem_cons_self
      · exact List.mem_cons_of_mem _ (ih r h)

theorem uniqB_dedupLast : ∀ (rs : List Route), uniqB (initial ((dedupLast rs).map mkEntry)) = true := by
  intro rs
  induction rs with
  | nil => rfl
  | cons a rs ih =>
    simp only [dedupLast]
    by_cases hany : rs.any (sameKey a) = true
    · rw [if_pos hany]; exact ih
    · rw [if_neg hany]
      have hcons : initial ((a :: dedupLast rs).map mkEntry)
          = ((norm a.path).1, mkEntry a) :: initial ((dedupLast rs).map mkEntry) := by
        simp [initial, mkEntry]
      rw [hcons]
      simp only [uniqB, Bool.and_eq_true, ih, and_true, List.all_eq_true]
      intro y hy
      simp only [initial, List.map_map, List.mem_map, Function.comp_apply] at hy
      obtain ⟨b, hb, rfl⟩ := hy
      have hb' := dedupLast_subset rs b hb
      have hns : sameKey a b = false := by
        cases h : sameKey a b with
        | false => rfl
        | true => exact absurd (List.any_eq_true.mpr ⟨b, hb', h⟩) hany
      simp only [sameKey] at hns
      have htoks : (mkEntry b).toks = (norm b.path).1 := rfl
      simp only [mkEntry_method, htoks]
      rw [Bool.and_comm]
      simp [hns]

/-- **the table in force is well formed** -/
theorem wfTable_dedupLast (rs : List Route) (h : okTable rs = true) : wfTable (dedupLast rs) = true := by
  simp only [wfTable, Bool.and_eq_true, uniqB_dedupLast, and_true, List.all_eq_true]
  simp only [okTable, List.all_eq_true] at h
  intro r hr
  exact h r (dedupLast_subset rs r hr)

theorem okTable_of_wf {rs : List Route} (h : wfTable rs = true) : okTable rs = true := by
  simp only [wfTable, Bool.and_eq_true] at h
  exact h.1

/-- without re-registrations the table in force is the table -/
theorem dedupLast_of_wf : ∀ (rs : List Route), wfTable rs = true → dedupLast rs = rs := by
  intro rs
  induction rs with
  | nil => intro _; rfl
  | cons a rs ih =>
    intro h
    have hcons : initial ((a :: rs).map mkEntry) = ((norm a.path).1, mkEntry a) :: initial (rs.map mkEntry) := by
      simp [initial, mkEntry]
    simp only [wfTable, hcons, uniqB, Bool.and_eq_true, List.all_cons, List.all_eq_true] at h
    obtain ⟨⟨_, hok⟩, hno, hu⟩ := h
    have hrs : wfTable rs = true := by
      simp only [wfTable, Bool.and_eq_true, List.all_eq_true]
      exact ⟨hok, hu⟩
    have hany : ¬ rs.any (sameKey a) = true := by
      intro hany
      obtain ⟨b, hb, hs⟩ := List.any_eq_true.mp hany
      have := hno ((norm b.path).1, mkEntry b) (by
        simp only [initial, List.map_map, List.mem_map, Function.comp_apply]
        exact ⟨b, hb, rfl⟩)
      simp only [sameKey, Bool.and_eq_true] at hs
      simp [mkEntry_method, hs.1, hs.2] at this
    simp only [dedupLast, if_neg hany, ih hrs]

/-! ### the tree of a table with re-registrations -/

theorem okTable_bound {rs : List Route} (h : okTable rs = true) :
    ∀ r ∈ rs, okPattern r.path = true ∧ arity (norm r.path).1 ≤ maxParam rs := by
  simp only [okTable, List.all_eq_true] at h
  intro r hr
  refine ⟨h r hr, ?_⟩
  rw [← paramCountOf_eq (h r hr)]
  exact le_maxParam hr

/-- the three facts about the tree of a non-empty `okTable` -/
theorem build_ok (rs : List Route) (hne : rs ≠ []) (h : okTable rs = true) :
    tiNode (maxParam rs) [] (build rs) = true ∧ (build rs).kind = .static
      ∧ (resid (build rs)).Perm (initial ((dedupLast rs).map mkEntry)) := by
  obtain ⟨f1, f2, f3⟩ := fold_gen (maxParam rs) rs emptyTree [] (top_empty _) deads_empty
    (by rw [resid_emptyTree]) (okTable_bound h)
  refine ⟨tiNode_of_tiR _ _ _ f1.inv (f2 hne), f1.kind, ?_⟩
  have := f3.trans (foldl_regStep rs [])
  unfold build
  simpa using this

/-- **`Router.build` yields a tree satisfying the invariant and representing the table in force**, for
    every non-empty table of representable patterns — routes may be registered several times -/
theorem build_tableInvariantD (rs : List Route) (hne : rs ≠ []) (h : okTable rs = true) :
    tableInvariantD rs = (true, true) := by
  obtain ⟨h1, h2, h3⟩ := build_ok rs hne h
  unfold tableInvariantD
  simp only [Prod.mk.injEq, Bool.and_eq_true, decide_eq_true_eq, List.isPerm_iff]
  exact ⟨⟨h1, h2⟩, h3⟩

/-- (RS) also for the empty table -/
theorem build_RS_ok (rs : List Route) (h : okTable rs = true) :
    (resid (build rs)).Perm (initial ((dedupLast rs).map mkEntry)) := by
  cases rs with
  | nil =>
    have hb : build [] = emptyTree := rfl
    rw [hb, resid_emptyTree]; exact List.Perm.refl _
  | cons r rs => exact (build_ok (r :: rs) (by simp) h).2.2

/-! ### `find` on a tree that represents an entry list -/

/-- **L3 on a tree = L1 on the entry list the tree represents** (the proof of `find_eq_route`, for any
    tree satisfying the invariant and any duplicate-free entry list it represents) -/
theorem find_eq_route_of_repr (t : Node) (D : Nat) (es : List Entry) (m path : Str) (n : Nat) (hn : D ≤ n)
    (hk : t.kind = .static) (hti : tiNode D [] t = true) (hp : (resid t).Perm (initial es))
    (huI : Uniq (initial es)) :
    ∃ o, OutRel (find t m path (List.replicate n [])) o ∧ C02.OutEquiv o (route es m path) := by
  have huR : Uniq (resid t) := Uniq.perm hp.symm huI
  have href := find_refines path m D n t hk hti hn (bound (resid t))
    (bound (resid t) + 1) (depthLe_bound _) (by omega)
  refine ⟨_, href, ?_⟩
  have hs := search_perm m (bound (resid t) + 1) hp huR path [] (best := none) (best' := none) trivial
  unfold route
  rw [← C02.bound_perm hp]
  generalize search m (bound (resid t) + 1) (resid t) path [] none = s at hs ⊢
  generalize search m (bound (resid t) + 1) (initial es) path [] none = s' at hs ⊢
  obtain ⟨res, b⟩ := s
  obtain ⟨res', b'⟩ := s'
  obtain ⟨hres, hb⟩ := hs
  simp only at hres hb
  subst hres
  cases res with
  | hit e v => exact ⟨rfl, rfl⟩
  | miss =>
    cases b with
    | none =>
      cases b' with
      | none => trivial
      | some _ => exact absurd hb (by simp [Spec.BRel])
    | some bl =>
      cases b' with
      | none => exact absurd hb (by simp [Spec.BRel])
      | some bl' =>
        obtain ⟨hpb, hub⟩ := hb
        simp only [finish]
        rw [← findNF_perm hpb hub, ← isHandler_perm hpb]
        cases findNF bl with
        | some e => exact ⟨rfl, rfl⟩
        | none =>
          simp only
          split
          · exact C02.allowOf_perm hpb
          · trivial

theorem uniq_dedupLast (rs : List Route) : Uniq (initial ((dedupLast rs).map mkEntry)) :=
  uniqB_iff _ (uniqB_dedupLast rs)

/-- **L3 on the built tree = L1 on the table in force**, for every table of representable patterns -/
theorem find_eq_route_ok (rs : List Route) (m path : Str) (n : Nat) (hn : maxParam rs ≤ n)
    (h : okTable rs = true) :
    ∃ o, OutRel (find (build rs) m path (List.replicate n [])) o ∧
      C02.OutEquiv o (route ((dedupLast rs).map mkEntry) m path) := by
  cases rs with
  | nil =>
    have hb : build [] = emptyTree := rfl
    refine ⟨.notFound, ?_, ?_⟩
    · rw [hb, find_emptyTree]; exact OutRel.notFound []
    · simp only [dedupLast, List.map_nil, route_nil]; trivial
  | cons r rs =>
    obtain ⟨h1, h2, h3⟩ := build_ok (r :: rs) (by simp) h
    exact find_eq_route_of_repr _ _ _ m path n hn h2 h1 h3 (uniq_dedupLast _)

/-- the tree model never fails on a value slice of at least `maxParam` slots -/
theorem find_table_no_panic_ok (rs : List Route) (m path : Str) (n : Nat) (hn : maxParam rs ≤ n)
    (h : okTable rs = true) : find (build rs) m path (List.replicate n []) ≠ .panic := by
  cases rs with
  | nil =>
    have hb : build [] = emptyTree := rfl
    rw [hb, find_emptyTree]; intro h; cases h
  | cons r rs =>
    obtain ⟨h1, h2, _⟩ := build_ok (r :: rs) (by simp) h
    exact find_no_panic path m (maxParam (r :: rs)) n (build (r :: rs)) h2 h1 hn

/-- **C01 on the tree model**, for every table of representable patterns -/
theorem tree_sound_ok (rs : List Route) (m path : Str) (n : Nat) (hn : maxParam rs ≤ n)
    (hok : okTable rs = true) (rm : RouteMethod) (vals : List Str)
    (h : find (build rs) m path (List.replicate n []) = .dispatch rm vals) :
    (inst (norm rm.ppath).1 vals = some path ∧ SlashFree (norm rm.ppath).1 vals
        ∧ vals.length = arity (norm rm.ppath).1)
    ∨ ((∃ w, inst (norm rm.ppath).1 w = some path) ∧ vals = rm.pnames.map (fun _ => [])) := by
  obtain ⟨o, ho, he⟩ := find_eq_route_ok rs m path n hn hok
  rw [h] at ho
  obtain ⟨mm, rfl⟩ := outRel_dispatch_inv ho
  have hr := outEquiv_dispatch_left he
  rcases C01.C01_sound_partial _ _ _ _ _ hr with ⟨_, hi, hs, hl⟩ | ⟨_, _, hw, hv⟩
  · exact Or.inl ⟨hi, hs, hl⟩
  · exact Or.inr ⟨hw, hv⟩

/-- **C05**: routing never fails, for every table of representable patterns -/
theorem tree_no_panic_ok (rs : List Route) (hok : okTable rs = true) :
    C05.NoPanic (C05.routerOf rs) (maxParam rs) := by
  intro m p n hn
  unfold C05.routerOf C05.blank
  simp only [Nat.max_zero]
  exact find_table_no_panic_ok rs m p n hn hok

/-- **C05**: routing does not depend on the number of spare value slots -/
theorem tree_length_irrelevant_ok (rs : List Route) (hok : okTable rs = true) :
    C05.LengthIrrelevant (C05.routerOf rs) (maxParam rs) := by
  intro m p n hn
  have hnp := find_table_no_panic_ok rs m p (maxParam rs) (Nat.le_refl _) hok
  have := find_replicate_frame (build rs) m p (maxParam rs) hnp (n - maxParam rs)
  simp only [C05.routerOf, C05.blank, Nat.max_zero]
  rw [← this]
  congr 2
  omega

/-- on tables without re-registrations the two per-table checks agree -/
theorem tableInvariantD_of_wf (rs : List Route) (hne : rs ≠ []) (h : wfTable rs = true) :
    tableInvariantD rs = (true, true) :=
  build_tableInvariantD rs hne (okTable_of_wf h)

/-! ### the hypothesis is not vacuous -/

/-- `GET /a/:x` is registered again as `GET /a/:y` (renamed parameter, other handler) -/
def demoDup : List Route :=
  [⟨['G','E','T'], "/a/:x".toList, 1⟩,
   ⟨['G','E','T'], "/b".toList, 2⟩,
   ⟨['G','E','T'], "/a/:y".toList, 3⟩,
   ⟨['P','O','S','T'], "/a/:x".toList, 4⟩]

example : okTable demoDup = true := by decide
example : wfTable demoDup = false := by decide
example : dedupLast demoDup =
    [⟨['G','E','T'], "/b".toList, 2⟩, ⟨['G','E','T'], "/a/:y".toList, 3⟩,
     ⟨['P','O','S','T'], "/a/:x".toList, 4⟩] := by decide

theorem demoDup_invariant : tableInvariantD demoDup = (true, true) :=
  build_tableInvariantD demoDup (by simp [demoDup]) (by decide)

example : maxParam demoDup = 1 := by decide

/-- executable test "the outcome is this dispatch" (`Router.Outcome` has no `DecidableEq`) -/
def isDispatch (o : Router.Outcome) (rm : RouteMethod) (vals : List Str) : Bool :=
  match o with
  | .dispatch r v => r == rm && v == vals
  | _ => false

theorem eq_of_isDispatch {o : Router.Outcome} {rm : RouteMethod} {vals : List Str}
    (h : isDispatch o rm vals = true) : o = .dispatch rm vals := by
  cases o with
  | dispatch r v =>
    simp only [isDispatch, Bool.and_eq_true, beq_iff_eq] at h
    rw [h.1, h.2]
  | notFound _ => simp [isDispatch] at h
  | methodNotAllowed _ _ => simp [isDispatch] at h
  | panic => simp [isDispatch] at h

/-- the later registration wins, with its own parameter name -/
example : find (build demoDup) ['G','E','T'] "/a/7".toList [[]]
    = .dispatch ⟨"/a/:y".toList, ["y".toList], 3⟩ ["7".toList] :=
  eq_of_isDispatch (by decide +kernel)

example : find (build demoDup) ['P','O','S','T'] "/a/7".toList [[]]
    = .dispatch ⟨"/a/:x".toList, ["x".toList], 4⟩ ["7".toList] :=
  eq_of_isDispatch (by decide +kernel)

end Router.Tree
