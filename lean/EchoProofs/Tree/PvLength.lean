import EchoProofs.Tree.Frame
/-!
# The Find loop never changes the LENGTH of the value slice

`setVal` and `leaveRestore` only `set` (or flag the run as panicked), so for ARBITRARY trees, paths, methods and
start states `(findNode path m n st).1.pv.length = st.pv.length` (`findNode_pv_length`).  Same skeleton as the frame
lemma (`Frame.lean`): one lemma per state operation, then the mutual structural induction over the nested inductive
`Node`.
-/
namespace Router.Tree
open Router

/-! ### the state operations -/

theorem setVal_pv_length (st : St) (i : Int) (v : Str) : (setVal st i v).pv.length = st.pv.length := by
  unfold setVal
  split
  · rfl
  · simp

theorem leaveRestore_pv_length (k : Kind) (p : Nat) (st : St) :
    (leaveRestore k p st).pv.length = st.pv.length := by
  cases k
  case static => rfl
  all_goals
    simp only [leaveRestore]
    split
    · rfl
    · simp

theorem leaveOut_pv_length (k : Kind) (p : Nat) (st : St) : (leaveOut k p st).1.pv.length = st.pv.length := by
  unfold leaveOut
  split
  · rfl
  · exact leaveRestore_pv_length k p st

theorem enterParam_pv_length (path : Str) (leaf : Bool) (st : St) :
    (enterParam path leaf st).pv.length = st.pv.length := by
  unfold enterParam
  exact setVal_pv_length _ _ _

theorem nodeEnd_pv (m : Str) (ms : List (Str × RouteMethod)) (nf : Option RouteMethod) (op : Str)
    (atEnd : Bool) (st : St) : (nodeEnd m ms nf op atEnd st).1.pv = st.pv := rfl

theorem anyRest_pv_length (m : Str) (c : Node) (len : Nat) (st : St) :
    (anyRest m c len st).1.pv.length = st.pv.length := by
  unfold anyRest
  cases findMethod c.methods m with
  | some r => rfl
  | none =>
    cases c.nf with
    | some r => rfl
    | none => exact leaveRestore_pv_length _ _ _

theorem anyBlock_pv_length (path m : Str) (an : Option Node) (st : St) :
    (anyBlock path m an st).1.pv.length = st.pv.length := by
  cases an with
  | none => rfl
  | some c =>
    rw [anyBlock_some, anyRest_pv_length, setVal_pv_length]

theorem finishNode_pv_length (path m : Str) (k : Kind) (p : Nat) (an : Option Node) (st : St) (nx : Next) :
    (finishNode path m k p an st nx).1.pv.length = st.pv.length := by
  have hany : (match anyBlock path m an st with
      | (st', some rm) => (st', Res.hit rm)
      | (st', none) => leaveOut k p st').1.pv.length = st.pv.length := by
    have ha := anyBlock_pv_length path m an st
    generalize anyBlock path m an st = x at ha
    obtain ⟨st', r⟩ := x
    cases r with
    | some rm => exact ha
    | none => exact (leaveOut_pv_length _ _ _).trans ha
  cases nx with
  | hit rm => rfl
  | leave => exact leaveOut_pv_length _ _ _
  | param => exact hany
  | any => exact hany

/-! ### one node -/

/-- the statement for one node -/
def NodeLen (path m : Str) (n : Node) : Prop :=
  ∀ st : St, (findNode path m n st).1.pv.length = st.pv.length

theorem sBlock_pv_length (path m : Str) (sts : List Node) (ih : ∀ n ∈ sts, NodeLen path m n) (st : St) :
    (sBlock path m sts st).1.pv.length = st.pv.length := by
  unfold sBlock
  cases hd : path.drop st.si with
  | nil => rfl
  | cons c rest =>
    simp only [findStatic_eq_pick]
    cases hp : pick c sts with
    | none => rfl
    | some n =>
      simp only [Option.map_some]
      rw [staticBlock_some_fst n.kind (findNode path m n st) st]
      exact ih n (pick_mem hp).1 st

theorem pBlock_pv_length (path m : Str) (pa : Option Node) (ih : ∀ n, pa = some n → NodeLen path m n) (st : St) :
    (paramBlock (findParam path m pa st) st).1.pv.length = st.pv.length := by
  cases pa with
  | none => rw [findParam]; rfl
  | some c =>
    rw [findParam]
    simp only [paramBlock_some_fst]
    rw [ih c rfl, enterParam_pv_length]

theorem pStage_pv_length (path m : Str) (k : Kind) (p : Nat) (pa an : Option Node)
    (ih : ∀ n, pa = some n → NodeLen path m n) (st : St) :
    (pStage path m k p pa an st).1.pv.length = st.pv.length := by
  unfold pStage
  split
  · exact finishNode_pv_length _ _ _ _ _ _ _
  · have hb := pBlock_pv_length path m pa ih st
    generalize paramBlock (findParam path m pa st) st = x at hb
    obtain ⟨st', nx⟩ := x
    exact (finishNode_pv_length _ _ _ _ _ _ _).trans hb

theorem afterS_pv_length (path m : Str) (k : Kind) (p : Nat) (pa an : Option Node)
    (ih : ∀ n, pa = some n → NodeLen path m n) (st : St) (nx : Next) :
    (afterS path m k p pa an (st, nx)).1.pv.length = st.pv.length := by
  cases nx with
  | param => exact pStage_pv_length path m k p pa an ih st
  | hit rm => exact finishNode_pv_length _ _ _ _ _ _ _
  | any => exact finishNode_pv_length _ _ _ _ _ _ _
  | leave => exact finishNode_pv_length _ _ _ _ _ _ _

theorem body_pv_length (path m : Str) (k : Kind) (pre : Str) (ms : List (Str × RouteMethod))
    (nf : Option RouteMethod) (op : Str) (sts : List Node) (pa an : Option Node)
    (ihS : ∀ n ∈ sts, NodeLen path m n) (ihP : ∀ n, pa = some n → NodeLen path m n) (st : St) :
    (bodyOf path m k pre ms nf op sts pa an st).1.pv.length = st.pv.length := by
  rw [bodyOf_eq]
  have he := nodeEnd_pv m ms nf op (path.drop st.si).isEmpty st
  generalize nodeEnd m ms nf op (path.drop st.si).isEmpty st = x at he
  obtain ⟨st1, e⟩ := x
  simp only at he
  cases e with
  | some rm => simp only [he]
  | none =>
    simp only
    have hs := sBlock_pv_length path m sts ihS st1
    generalize sBlock path m sts st1 = y at hs
    obtain ⟨st2, nx⟩ := y
    rw [afterS_pv_length path m k pre.length pa an ihP st2 nx, hs, he]

theorem node_len_step (path m : Str) (k : Kind) (pre : Str)
    (ms : List (Str × RouteMethod)) (nf : Option RouteMethod) (op : Str) (pc : Nat) (sts : List Node)
    (pa an : Option Node)
    (ihS : ∀ n ∈ sts, NodeLen path m n) (ihP : ∀ n, pa = some n → NodeLen path m n) :
    NodeLen path m (.mk k pre ms nf op pc sts pa an) := by
  intro st
  rw [findNode_unfold]
  by_cases hp : st.panicked = true
  · simp only [hp, if_true]
  · simp only [hp, if_false, Bool.false_eq_true]
    by_cases hl : (if k = .static then lcp (path.drop st.si) pre else 0) ≠ (if k = .static then pre.length else 0)
    · simp only [if_pos hl]
    · simp only [if_neg hl]
      rw [body_pv_length path m k pre ms nf op sts pa an ihS ihP]

/-! ### the structural induction -/

mutual
theorem node_len (path m : Str) : (n : Node) → NodeLen path m n
  | .mk k pre ms nf op pc sts pa an =>
    node_len_step path m k pre ms nf op pc sts pa an (list_len path m sts) (opt_len path m pa)
theorem list_len (path m : Str) : (l : List Node) → ∀ n ∈ l, NodeLen path m n
  | [] => by intro n hn; simp at hn
  | c :: cs => by
    intro n hn
    rcases List.mem_cons.mp hn with heq | hm
    · rw [heq]; exact node_len path m c
    · exact list_len path m cs n hm
theorem opt_len (path m : Str) : (o : Option Node) → ∀ n, o = some n → NodeLen path m n
  | none => by intro n he; simp at he
  | some c => by
    intro n he
    simp only [Option.some.injEq] at he
    rw [← he]
    exact node_len path m c
end

/-- **the Find loop keeps the length of the value slice** — on every tree (no invariant), for every path, method and
    start state: values are only overwritten in place (or the run is flagged as out of range). -/
theorem findNode_pv_length (path m : Str) (n : Node) (st : St) :
    (findNode path m n st).1.pv.length = st.pv.length :=
  node_len path m n st

end Router.Tree
