import EchoProofs.Tree.Top
import EchoProofs.C02
/-!
# The radix tree built from a route table implements the reference search

`find_eq_route`: for a route table whose tree passes the executable check `tableInvariant`
(the tree built by `Router.build` satisfies the invariant, represents exactly the registered
entries, and the table has no structural duplicates), the model of `Router.Find` on that tree
gives, for every method and path, the outcome of the order-free reference search
`Spec.route` on the table (up to the order of the Allow set).

`tableInvariant` is evaluated by the model driver for every table of every C01 run
(translation validation of `Router.build`/`Router.insert`); proving it for all tables is the
remaining gap between the tree model and the specification.
-/
namespace Router.Tree
open Router Router.Spec

theorem uniqB_iff (r : R) : uniqB r = true → Uniq r := by
  induction r with
  | nil => intro _; exact List.Pairwise.nil
  | cons x xs ih =>
    intro h
    simp only [uniqB, Bool.and_eq_true, List.all_eq_true, Bool.not_eq_true', Bool.and_eq_false_iff] at h
    refine List.Pairwise.cons ?_ (ih h.2)
    intro y hy ⟨h1, h2⟩
    rcases h.1 y hy with hh | hh
    · simp [h1] at hh
    · simp [h2] at hh

/-- **L3 on the built tree = L1 on the table** (given the per-table invariant check) -/
theorem find_eq_route (rs : List Route) (m path : Str) (n : Nat) (hn : maxParam rs ≤ n)
    (hinv : tableInvariant rs = (true, true)) :
    ∃ o, OutRel (find (build rs) m path (List.replicate n [])) o ∧
      C02.OutEquiv o (route (rs.map mkEntry) m path) := by
  simp only [tableInvariant, Prod.mk.injEq, Bool.and_eq_true, decide_eq_true_eq] at hinv
  obtain ⟨⟨hti, hk⟩, hperm, hu⟩ := hinv
  have hp : (resid (build rs)).Perm (initial (rs.map mkEntry)) := List.isPerm_iff.mp hperm
  have huI : Uniq (initial (rs.map mkEntry)) := uniqB_iff _ hu
  have huR : Uniq (resid (build rs)) := Uniq.perm hp.symm huI
  have href := find_refines path m (maxParam rs) n (build rs) hk hti hn (bound (resid (build rs)))
    (bound (resid (build rs)) + 1) (depthLe_bound _) (by omega)
  refine ⟨_, href, ?_⟩
  -- permutation invariance of the reference search
  have hs := search_perm m (bound (resid (build rs)) + 1) hp huR path [] (best := none) (best' := none) trivial
  unfold route
  rw [← C02.bound_perm hp]
  generalize search m (bound (resid (build rs)) + 1) (resid (build rs)) path [] none = s at hs ⊢
  generalize search m (bound (resid (build rs)) + 1) (initial (rs.map mkEntry)) path [] none = s' at hs ⊢
  obtain ⟨res, b⟩ := s
  obtain ⟨res', b'⟩ := s'
  obtain ⟨hres, hb⟩ := hs
  simp only at hres hb
  subst hres
  cases res with
  | hit e v => exact ⟨rfl, rfl⟩
  | miss =>
    cases b with
    | none =>
      cases b' with
      | none => trivial
      | some _ => exact absurd hb (by simp [Spec.BRel])
    | some bl =>
      cases b' with
      | none => exact absurd hb (by simp [Spec.BRel])
      | some bl' =>
        obtain ⟨hpb, hub⟩ := hb
        simp only [finish]
        rw [← findNF_perm hpb hub, ← isHandler_perm hpb]
        cases findNF bl with
        | some e => exact ⟨rfl, rfl⟩
        | none =>
          simp only
          split
          · exact C02.allowOf_perm hpb
          · trivial

/-- the tree model never fails and its outcome does not depend on spare value slots -/
theorem find_table_no_panic (rs : List Route) (m path : Str) (n : Nat) (hn : maxParam rs ≤ n)
    (hinv : tableInvariant rs = (true, true)) : find (build rs) m path (List.replicate n []) ≠ .panic := by
  simp only [tableInvariant, Prod.mk.injEq, Bool.and_eq_true, decide_eq_true_eq] at hinv
  exact find_no_panic path m (maxParam rs) n (build rs) hinv.1.2 hinv.1.1 hn

end Router.Tree
