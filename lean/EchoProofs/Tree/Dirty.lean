import EchoProofs.Tree.Dirty.Node
import EchoProofs.Tree.Complete
import EchoProofs.C03Method
/-!
# `Router.Find` does not depend on what the value slice held before

`Router.Find` is public: a handler may call it again on its own, already used context ("internal forward"),
and then the value slice still holds the values of the previous match.  This file shows that this content is
never observable (state-level statement (A): `findNode_content` in `Dirty/Node.lean`):

* `find_content` — on every tree satisfying the invariant `tiNode`, two value slices of the same length give
  the same outcome of `find`: the same record with the same values, the same 404 / 405 — or both runs index
  out of range.
* `find_content_eq` / `find_content_irrelevant` — **(B), in the strong form, without exception**: for every
  table of representable patterns (`okTable`; re-registrations allowed) and every slice `pv`,
  `find (build rs) m path pv = find (build rs) m path (List.replicate pv.length [])`.
  The exception anticipated for the best-node fallback (known finding F3: a `RouteNotFound` record reached
  through `previousBestMatchNode` gets `pvalues[:len(pnames)]` as they are at the end of the search) does
  NOT exist: the best node at depth `k` was entered through `k` parameter slots, and every slot that was
  entered is blanked by `backtrackToNextNodeKind` on the way out; so the fallback sees blank values also on
  a dirty slice (`example`s at the end; checked on 3.4 million table/path/slice combinations before proving).
  In the proof this is the relation `SimNf`: the two slices are required to agree below
  `max pi (number of names of the best node's not-found record)`, which is preserved because a best node is
  only remembered when that number is `≤ pi`.
* `tree_forward_sound` — an internal forward to a path matched by a route registered for the request's
  method leaves the context exactly as a fresh request for that path does.
* `tree_sound_forward`, `tree_no_panic_forward`, `tree_dispatch_method_forward` — the C01 / C05 / C03
  statements of the tree model for an arbitrary initial content of the value slice.
* the hypothesis `tiNode` cannot be dropped: `badTree` is a tree whose wildcard child has a wrong
  `paramsCount`, and there the old content of the slice IS dispatched as a parameter value.
-/
namespace Router.Tree
open Router Router.Spec

/-! ## `find` on trees satisfying the invariant -/

theorem take_eq_of_low {l l' : List Str} {n : Nat} (h : ∀ i, i < n → l[i]? = l'[i]?) :
    l.take n = l'.take n := by
  apply List.ext_getElem?
  intro i
  simp only [List.getElem?_take]
  split
  · exact h i (by assumption)
  · rfl

/-- the initial states of two runs of `find` on slices of the same length are related -/
theorem sim_initial (pv pv' : List Str) (hlen : pv.length = pv'.length) :
    SimNf ⟨0, 0, pv, none, false⟩ ⟨0, 0, pv', none, false⟩ :=
  ⟨rfl, rfl, rfl, rfl, hlen, fun i hi => by
    have : i < 0 ∨ i < 0 := hi
    omega⟩

theorem find_of_panicked {t : Node} {m path : Str} {pv : List Str}
    (h : (findNode path m t ⟨0, 0, pv, none, false⟩).1.panicked = true) : find t m path pv = .panic := by
  unfold find
  generalize findNode path m t ⟨0, 0, pv, none, false⟩ = x at h
  obtain ⟨st, r⟩ := x
  simp only at h
  simp [h]

/-- **the outcome of `find` depends on the length of the value slice only**, on every tree satisfying the
    invariant: same record with the same values, same 404 / 405 — or both runs index out of range -/
theorem find_content (t : Node) (D : Nat) (hk : t.kind = .static) (hti : tiNode D [] t = true)
    (m path : Str) (pv pv' : List Str) (hlen : pv.length = pv'.length) :
    find t m path pv = find t m path pv' := by
  have hpi : (⟨0, 0, pv, none, false⟩ : St).pi = arity ([] ++ headToks t.kind t.pre) := by
    rw [hk, arity_static]; rfl
  obtain ⟨hpan, himp⟩ := findNode_content_nf path m D [] t hti _ _ (sim_initial pv pv' hlen) hpi
  cases hc : (findNode path m t ⟨0, 0, pv, none, false⟩).1.panicked with
  | true => rw [find_of_panicked hc, find_of_panicked (hpan ▸ hc)]
  | false =>
  obtain ⟨hres, hsim, hok⟩ := himp hc
  unfold find
  generalize findNode path m t ⟨0, 0, pv, none, false⟩ = x at hres hsim hok
  generalize findNode path m t ⟨0, 0, pv', none, false⟩ = y at hres hsim
  obtain ⟨sa, ra⟩ := x
  obtain ⟨sb, rb⟩ := y
  simp only at hres hsim
  subst hres
  simp only [← hsim.pan, ← hsim.len, ← hsim.best]
  have key : ∀ rm : RouteMethod, (∀ i, i < rm.pnames.length → sa.pv[i]? = sb.pv[i]?) →
      (if rm.pnames.length > sa.pv.length then Outcome.panic
        else .dispatch rm (sa.pv.take rm.pnames.length)) =
      (if rm.pnames.length > sa.pv.length then Outcome.panic
        else .dispatch rm (sb.pv.take rm.pnames.length)) := by
    intro rm hl
    rw [take_eq_of_low hl]
  cases ra with
  | hit rm =>
    have hp : rm.pnames.length = sa.pi := hok
    simp only
    rw [key rm (fun i hi => hsim.low i (Or.inl (by omega)))]
  | leave =>
    simp only
    cases hb : sa.best with
    | none => rfl
    | some bst =>
      simp only
      cases hnf : bst.nf with
      | none => rfl
      | some rm =>
        simp only
        rw [key rm (fun i hi => hsim.low i (Or.inr (by simp only [hb, nfLen, hnf]; exact hi)))]

/-! ## tables of representable patterns -/

/-- **(B) the outcome of `Router.Find` does not depend on the content of the value slice**: for every
    table of representable patterns (re-registrations allowed) and two slices of the same length (if the
    slices are shorter than `maxParam`, both runs may fail — together).  No exception: also the
    `RouteNotFound` record reached through the best-node fallback (F3) gets the same values. -/
theorem find_content_eq (rs : List Route) (hok : okTable rs = true) (m path : Str) (pv pv' : List Str)
    (hsame : pv.length = pv'.length) :
    find (build rs) m path pv = find (build rs) m path pv' := by
  cases rs with
  | nil =>
    have hb : build [] = emptyTree := rfl
    rw [hb, find_emptyTree, find_emptyTree]
  | cons r rs =>
    obtain ⟨h1, h2, _⟩ := build_ok (r :: rs) (by simp) hok
    exact find_content _ _ h2 h1 m path pv pv' hsame

/-- **(B)**, as asked for: a used context routes like a fresh one -/
theorem find_content_irrelevant (rs : List Route) (hok : okTable rs = true) (m path : Str) (pv : List Str)
    (_hlen : maxParam rs ≤ pv.length) :
    find (build rs) m path pv = find (build rs) m path (List.replicate pv.length []) :=
  find_content_eq rs hok m path pv _ (by simp)

/-- the statement of the task with its anticipated exception (the `RouteNotFound` record reached through the
    best-node fallback getting whatever the slice holds): it holds because the first disjunct always does;
    the second disjunct never occurs with values different from the blank ones. -/
theorem find_content_irrelevant_or (rs : List Route) (hok : okTable rs = true) (m path : Str) (pv : List Str)
    (hlen : maxParam rs ≤ pv.length) :
    find (build rs) m path pv = find (build rs) m path (List.replicate pv.length [])
    ∨ (∃ rm vals vals', find (build rs) m path pv = .dispatch rm vals
          ∧ find (build rs) m path (List.replicate pv.length []) = .dispatch rm vals'
          ∧ (findNode path m (build rs) ⟨0, 0, List.replicate pv.length [], none, false⟩).2 = .leave
          ∧ ∃ b, (findNode path m (build rs) ⟨0, 0, List.replicate pv.length [], none, false⟩).1.best = some b
              ∧ b.nf = some rm) :=
  Or.inl (find_content_irrelevant rs hok m path pv hlen)

/-- routing never fails on a used context with at least `maxParam` value slots -/
theorem tree_no_panic_forward (rs : List Route) (hok : okTable rs = true) (m path : Str) (pv : List Str)
    (hlen : maxParam rs ≤ pv.length) : find (build rs) m path pv ≠ .panic := by
  rw [find_content_irrelevant rs hok m path pv hlen]
  exact find_table_no_panic_ok rs m path pv.length hlen hok

/-- **internal forward = fresh request**, for requests that hit a route registered for their method: if a
    registered route for method `m` matches the path, `Router.Find` on a context holding ANY old values
    dispatches to the same record with the same values as on a freshly reset context — and that record
    belongs to a registration in force. -/
theorem tree_forward_sound (rs : List Route) (hok : okTable rs = true) (m path : Str) (pv : List Str)
    (hlen : maxParam rs ≤ pv.length) (hm : m ≠ routeNotFound)
    (r : Route) (hr : r ∈ rs) (hmeth : r.method = m) (hmatch : C02.Matches (norm r.path).1 path) :
    ∃ rm vals, find (build rs) m path pv = .dispatch rm vals ∧
      find (build rs) m path (List.replicate pv.length []) = .dispatch rm vals ∧
      ∃ r' ∈ dedupLast rs, r'.hid = rm.hid := by
  subst hmeth
  obtain ⟨rm, vals, hf, hreg⟩ := tree_complete_ok rs hok r hr hm path hmatch pv.length hlen
  exact ⟨rm, vals, by rw [find_content_irrelevant rs hok _ path pv hlen]; exact hf, hf, hreg⟩

/-- the same with the match given by an instantiation of the pattern with valid values (a named
    parameter's value non-empty and without `/`), as in C20 -/
theorem tree_forward_sound_inst (rs : List Route) (hok : okTable rs = true) (m path : Str) (pv : List Str)
    (hlen : maxParam rs ≤ pv.length) (hm : m ≠ routeNotFound)
    (r : Route) (hr : r ∈ dedupLast rs) (hmeth : r.method = m) (w : List Str)
    (hvalid : C20.ValidVals (norm r.path).1 w) (hinst : inst (norm r.path).1 w = some path) :
    ∃ rm vals, find (build rs) m path pv = .dispatch rm vals ∧
      find (build rs) m path (List.replicate pv.length []) = .dispatch rm vals ∧
      ∃ r' ∈ dedupLast rs, r'.hid = rm.hid :=
  tree_forward_sound rs hok m path pv hlen hm r (dedupLast_subset rs r hr) hmeth
    (C20.matches_of_inst _ w _ (C20.normAux_paramThenSlash _ _) hvalid hinst)

/-- **C01 on the tree model, for a used context**: whatever `Router.Find` dispatches to on a context holding
    arbitrary old values, the observed values are those of the request path (the pattern instantiated with
    them rebuilds the path, one value per name, no `/` in a parameter followed by text) — or it is the F3
    fallback, and then the values are blank.  No text of an earlier request shows up in any value. -/
theorem tree_sound_forward (rs : List Route) (hok : okTable rs = true) (m path : Str) (pv : List Str)
    (hlen : maxParam rs ≤ pv.length) (rm : RouteMethod) (vals : List Str)
    (h : find (build rs) m path pv = .dispatch rm vals) :
    (inst (norm rm.ppath).1 vals = some path ∧ SlashFree (norm rm.ppath).1 vals
        ∧ vals.length = arity (norm rm.ppath).1)
    ∨ ((∃ w, inst (norm rm.ppath).1 w = some path) ∧ vals = rm.pnames.map (fun _ => [])) := by
  rw [find_content_irrelevant rs hok m path pv hlen] at h
  exact tree_sound_ok rs m path pv.length hlen hok rm vals h

/-- **C03 on the tree model, for a used context**: the record dispatched to belongs to a registration in
    force made for the request's method or as a RouteNotFound route -/
theorem tree_dispatch_method_forward (rs : List Route) (hok : okTable rs = true) (m path : Str) (pv : List Str)
    (hlen : maxParam rs ≤ pv.length) (rm : RouteMethod) (vals : List Str)
    (h : find (build rs) m path pv = .dispatch rm vals) :
    ∃ r ∈ dedupLast rs, r.hid = rm.hid ∧ normalizeSlash r.path = rm.ppath
      ∧ (r.method = m ∨ r.method = routeNotFound) := by
  rw [find_content_irrelevant rs hok m path pv hlen] at h
  exact tree_dispatch_method rs m path pv.length hlen hok rm vals h

/-! ## concrete instances -/

deriving instance DecidableEq for Router.Outcome

private def GET : Str := "GET".toList
private def POST : Str := "POST".toList

/-- a table with a split node (`/users`, `/usage`), parameters, an in-segment parameter and a wildcard -/
def demoForward : List Route :=
  [⟨GET, "/users".toList, 1⟩, ⟨GET, "/usage".toList, 2⟩, ⟨GET, "/users/:id".toList, 3⟩,
   ⟨POST, "/users/:id/files/*".toList, 4⟩, ⟨GET, "/users/:id/files/v:ver".toList, 5⟩,
   ⟨GET, "/*".toList, 6⟩]

example : okTable demoForward = true := by decide +kernel
example : maxParam demoForward = 2 := by decide +kernel

/-- (B) on a dirty slice: the values of the previous match (`"OLD-ID"`, `"old/file"`) are not seen; the
    request is routed through an abandoned branch first (`/users/:id/files/…` has no GET route for `x`) and
    ends at the wildcard with the whole rest of the path -/
example : find (build demoForward) GET "/users/42/files/x".toList ["OLD-ID".toList, "old/file".toList]
    = .dispatch ⟨"/*".toList, ["*".toList], 6⟩ ["users/42/files/x".toList] := by decide +kernel
example : find (build demoForward) GET "/users/42/files/x".toList ["OLD-ID".toList, "old/file".toList]
    = find (build demoForward) GET "/users/42/files/x".toList [[], []] := by decide +kernel
example : find (build demoForward) GET "/users/42/files/v7".toList ["OLD-ID".toList, "old/file".toList]
    = .dispatch ⟨"/users/:id/files/v:ver".toList, ["id".toList, "ver".toList], 5⟩ ["42".toList, "7".toList] := by
  decide +kernel
/-- a one-parameter route on a two-slot slice: the spare slot keeps its old content but is not handed out -/
example : find (build demoForward) GET "/users/42".toList ["OLD-ID".toList, "old/file".toList]
    = .dispatch ⟨"/users/:id".toList, ["id".toList], 3⟩ ["42".toList] := by decide +kernel

/-- the F3 shape: `GET /a/:id` and `RouteNotFound /a/:id`, request `POST /a/5` -/
def demoF3 : List Route := [⟨GET, "/a/:id".toList, 1⟩, ⟨routeNotFound, "/a/:id".toList, 2⟩]

example : okTable demoF3 = true := by decide +kernel

/-- the not-found record is reached through the best-node FALLBACK (the loop leaves the tree without a match) -/
example : (findNode "/a/5".toList POST (build demoF3) ⟨0, 0, ["SECRET".toList], none, false⟩).2 matches .leave := by
  decide +kernel

/-- … and it gets a BLANK value, on the blank slice (F3) and on the dirty one alike: the slot was entered on
    the way to the best node and blanked on the way out.  The anticipated exception does not exist. -/
example : find (build demoF3) POST "/a/5".toList ["SECRET".toList]
    = .dispatch ⟨"/a/:id".toList, ["id".toList], 2⟩ [[]] := by decide +kernel
example : find (build demoF3) POST "/a/5".toList [[]]
    = .dispatch ⟨"/a/:id".toList, ["id".toList], 2⟩ [[]] := by decide +kernel

/-- a deeper fallback: the best node is remembered two parameters deep, the search goes on through other
    branches (which store values in both slots again) and fails; the record gets two blank values -/
def demoF3deep : List Route :=
  [⟨GET, "/:a/:b".toList, 1⟩, ⟨routeNotFound, "/:a/:b".toList, 2⟩, ⟨GET, "/:a/x/:c".toList, 3⟩, ⟨GET, "/y/:b/z".toList, 4⟩]

example : okTable demoF3deep = true := by decide +kernel
example : find (build demoF3deep) POST "/y/x".toList ["S1".toList, "S2".toList, "S3".toList]
    = .dispatch ⟨"/:a/:b".toList, ["a".toList, "b".toList], 2⟩ [[], []] := by decide +kernel

/-! ## the tree invariant cannot be dropped in (A) -/

/-- a tree that does NOT satisfy the invariant: the wildcard child of the root claims slot 1
    (`paramsCount = 2`) although it sits at depth 0 -/
def badTree : Node :=
  .mk .static ['/'] [] none [] 0 []
    none (some (.mk .any ['*'] [(GET, ⟨"/*".toList, ["*".toList], 1⟩)] none "/*".toList 2 [] none none))

example : tiNode 2 [] badTree = false := by decide +kernel

/-- on `badTree` the Any block stores the value in slot 1 and hands out slot 0: the OLD content of the
    slice is dispatched as the parameter value.  So (A) and (B) are false for arbitrary trees. -/
example : find badTree GET "/x".toList ["OLD".toList, []] = .dispatch ⟨"/*".toList, ["*".toList], 1⟩ ["OLD".toList] := by
  decide +kernel
example : find badTree GET "/x".toList [[], []] = .dispatch ⟨"/*".toList, ["*".toList], 1⟩ [[]] := by
  decide +kernel

end Router.Tree
