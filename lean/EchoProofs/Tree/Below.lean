import EchoProofs.Tree.Inv
/-!
# Derivatives of the residual set of a well-formed node

Under the tree invariant the operations of the reference search act on `below n` exactly
like the three child slots of the tree: the entries ending here are the node's own records,
`deriv (.lit c)` selects the static child labelled `c` (minus that first byte),
`deriv .param` / `deriv .any` select the param / any child.
-/
namespace Router.Tree
open Router Router.Spec

@[simp] theorem belowList_nil : belowList [] = [] := by rw [belowList]
@[simp] theorem belowList_cons (c : Node) (cs : List Node) : belowList (c :: cs) = resid c ++ belowList cs := by
  rw [belowList]
@[simp] theorem belowOpt_none : belowOpt none = [] := by rw [belowOpt]
@[simp] theorem belowOpt_some (c : Node) : belowOpt (some c) = resid c := by rw [belowOpt]
theorem below_mk (k pre ms nf op pc st pa an) : below (.mk k pre ms nf op pc st pa an) =
    (ownEntries ms nf).map (fun e => ([], e)) ++ belowList st ++ belowOpt pa ++ belowOpt an := by
  rw [below]

theorem resid_eq (c : Node) : resid c = prepend (headToks c.kind c.pre) (below c) := by
  cases c; rw [resid]; rfl

theorem headToks_static_ne_nil {pre : Str} (h : pre ≠ []) : ∃ c s, headToks .static pre = .lit c :: lits s ∧ pre = c :: s := by
  cases pre with
  | nil => exact absurd rfl h
  | cons c s => exact ⟨c, s, rfl, rfl⟩

/-- the residuals of a child never end at the parent: its first token is still to be read -/
theorem ends_resid_static (c : Node) (hk : c.kind = .static) (hp : c.pre ≠ []) : ends (resid c) = [] := by
  rw [resid_eq, hk]
  obtain ⟨ch, s, h, _⟩ := headToks_static_ne_nil hp
  rw [h]
  exact ends_prepend_cons _ _ _

theorem ends_resid_param (c : Node) (hk : c.kind = .param) : ends (resid c) = [] := by
  rw [resid_eq, hk]; exact ends_prepend_cons _ _ _

theorem ends_resid_any (c : Node) (hk : c.kind = .any) : ends (resid c) = [] := by
  rw [resid_eq, hk]; exact ends_prepend_cons _ _ _

theorem tiList_cons {D : Nat} {here : List Tok} {c : Node} {cs : List Node} (h : tiList D here (c :: cs) = true) :
    c.kind = .static ∧ c.pre ≠ [] ∧ tiNode D here c = true ∧ tiList D here cs = true := by
  simp only [tiList, Bool.and_eq_true, beq_iff_eq, Bool.not_eq_true', List.isEmpty_eq_false_iff] at h
  exact ⟨h.1.1.1, h.1.1.2, h.1.2, h.2⟩

theorem ends_belowList {D : Nat} {here : List Tok} : ∀ (st : List Node), tiList D here st = true →
    ends (belowList st) = [] := by
  intro st
  induction st with
  | nil => intro _; simp [ends, deriv]
  | cons c cs ih =>
    intro h
    obtain ⟨hk, hp, _, hcs⟩ := tiList_cons h
    simp only [belowList_cons, ends_append, ends_resid_static c hk hp, ih hcs, List.append_nil]

theorem tiOpt_some {D : Nat} {here : List Tok} {k : Kind} {c : Node} (h : tiOpt D here k (some c) = true) :
    c.kind = k ∧ tiNode D here c = true := by
  simpa [tiOpt] using h

theorem ends_belowOpt_param {D : Nat} {here : List Tok} (pa : Option Node) (h : tiOpt D here .param pa = true) :
    ends (belowOpt pa) = [] := by
  cases pa with
  | none => simp [ends]
  | some c => rw [belowOpt_some]; exact ends_resid_param c (tiOpt_some h).1

theorem ends_belowOpt_any {D : Nat} {here : List Tok} (an : Option Node) (h : tiOpt D here .any an = true) :
    ends (belowOpt an) = [] := by
  cases an with
  | none => simp [ends]
  | some c => rw [belowOpt_some]; exact ends_resid_any c (tiOpt_some h).1

/-- components of the invariant of a node -/
structure TIParts (D : Nat) (above : List Tok) (k : Kind) (pre : Str) (ms : List (Str × RouteMethod))
    (nf : Option RouteMethod) (pc : Nat) (st : List Node) (pa an : Option Node) : Prop where
  depth : arity (above ++ headToks k pre) ≤ D
  alive : (!ms.isEmpty || nf.isSome || !st.isEmpty || pa.isSome || an.isSome) = true
  kindParam : k = .param → pre = [':']
  kindAny : k = .any → pre = ['*'] ∧ st = [] ∧ pa = none ∧ an = none ∧ pc = arity (above ++ headToks k pre)
  noNf : NoNfKey ms
  recs : ∀ x ∈ ms, (norm x.2.ppath).1 = above ++ headToks k pre ∧ x.2.pnames.length = arity (above ++ headToks k pre)
  nfRec : ∀ rm, nf = some rm → (norm rm.ppath).1 = above ++ headToks k pre ∧ rm.pnames.length = arity (above ++ headToks k pre)
  distinct : labelsDistinct st = true
  kids : tiList D (above ++ headToks k pre) st = true
  kidP : tiOpt D (above ++ headToks k pre) .param pa = true
  kidA : tiOpt D (above ++ headToks k pre) .any an = true

theorem tiNode_parts {D : Nat} {above : List Tok} {k : Kind} {pre : Str} {ms nf op pc st pa an}
    (h : tiNode D above (.mk k pre ms nf op pc st pa an) = true) : TIParts D above k pre ms nf pc st pa an := by
  simp only [tiNode, Bool.and_eq_true, decide_eq_true_eq, List.all_eq_true, bne_iff_ne, ne_eq, beq_iff_eq] at h
  obtain ⟨⟨⟨⟨⟨⟨⟨⟨hd, hal⟩, hk⟩, hms⟩, hnf⟩, hdis⟩, hkids⟩, hp⟩, ha⟩ := h
  refine ⟨hd, by simpa using hal, ?_, ?_, ?_, ?_, ?_, hdis, hkids, hp, ha⟩
  · intro hkp; subst hkp; simpa using hk
  · intro hka; subst hka
    simp only [Bool.and_eq_true, beq_iff_eq, List.isEmpty_iff, Option.isNone_iff_eq_none] at hk
    exact ⟨hk.1.1.1.1, hk.1.1.1.2, hk.1.1.2, hk.1.2, hk.2⟩
  · intro x hx; exact (hms x hx).1.1
  · intro x hx; exact ⟨(hms x hx).1.2, (hms x hx).2⟩
  · intro rm hrm; subst hrm; simpa using hnf

/-- the entries ending at a well-formed node are its own records -/
theorem ends_below {D : Nat} {above : List Tok} {k pre ms nf op pc st pa an}
    (h : tiNode D above (.mk k pre ms nf op pc st pa an) = true) :
    ends (below (.mk k pre ms nf op pc st pa an)) = ownEntries ms nf := by
  have p := tiNode_parts h
  simp only [below_mk, ends_append, ends_own, ends_belowList st p.kids, ends_belowOpt_param pa p.kidP,
    ends_belowOpt_any an p.kidA, List.append_nil]

/-! ### derivatives -/

theorem deriv_resid_static_ne (t : Tok) (c : Node) (hk : c.kind = .static) (hp : c.pre ≠ [])
    (ht : ∀ ch, c.pre.head? = some ch → t ≠ .lit ch) : deriv t (resid c) = [] := by
  rw [resid_eq, hk]
  obtain ⟨ch, s, h, hpre⟩ := headToks_static_ne_nil hp
  rw [h]
  apply deriv_prepend_cons_ne
  exact fun heq => ht ch (by rw [hpre]; rfl) heq.symm

theorem deriv_resid_static_same (c : Node) (ch : Char) (s : Str) (hk : c.kind = .static) (hp : c.pre = ch :: s) :
    deriv (.lit ch) (resid c) = residFrom s c := by
  rw [resid_eq, hk, hp]
  simp only [headToks, lits, List.map_cons]
  rw [deriv_prepend_cons_same]
  rfl

theorem deriv_param_belowList {D : Nat} {here : List Tok} : ∀ (st : List Node), tiList D here st = true →
    deriv .param (belowList st) = [] := by
  intro st
  induction st with
  | nil => intro _; simp [ends, deriv]
  | cons c cs ih =>
    intro h
    obtain ⟨hk, hp, _, hcs⟩ := tiList_cons h
    simp only [belowList_cons, deriv_append, ih hcs, List.append_nil]
    exact deriv_resid_static_ne _ c hk hp (by intros; simp)

theorem deriv_any_belowList {D : Nat} {here : List Tok} : ∀ (st : List Node), tiList D here st = true →
    deriv .any (belowList st) = [] := by
  intro st
  induction st with
  | nil => intro _; simp [ends, deriv]
  | cons c cs ih =>
    intro h
    obtain ⟨hk, hp, _, hcs⟩ := tiList_cons h
    simp only [belowList_cons, deriv_append, ih hcs, List.append_nil]
    exact deriv_resid_static_ne _ c hk hp (by intros; simp)

/-- the static child the Find loop would pick for byte `c` -/
def pick (c : Char) : List Node → Option Node
  | [] => none
  | n :: ns => if n.label = some c then some n else pick c ns

theorem deriv_lit_belowList_none {D : Nat} {here : List Tok} (c : Char) : ∀ (st : List Node),
    tiList D here st = true → (∀ n ∈ st, n.label ≠ some c) → deriv (.lit c) (belowList st) = [] := by
  intro st
  induction st with
  | nil => intros; simp [ends, deriv]
  | cons n ns ih =>
    intro h hno
    obtain ⟨hk, hp, _, hcs⟩ := tiList_cons h
    simp only [belowList_cons, deriv_append, ih hcs (fun x hx => hno x (List.mem_cons_of_mem _ hx)), List.append_nil]
    apply deriv_resid_static_ne _ n hk hp
    intro ch hch heq
    simp only [Tok.lit.injEq] at heq
    subst heq
    exact hno n (List.mem_cons_self) (by simpa [Node.label] using hch)

theorem deriv_lit_belowList {D : Nat} {here : List Tok} (c : Char) : ∀ (st : List Node),
    tiList D here st = true → labelsDistinct st = true →
    deriv (.lit c) (belowList st) =
      match pick c st with
      | some n => residFrom n.pre.tail n
      | none => [] := by
  intro st
  induction st with
  | nil => intros; simp [deriv, pick]
  | cons n ns ih =>
    intro h hd
    obtain ⟨hk, hp, _, hcs⟩ := tiList_cons h
    simp only [labelsDistinct, Bool.and_eq_true, List.all_eq_true, bne_iff_ne, ne_eq] at hd
    simp only [belowList_cons, deriv_append, pick]
    by_cases hl : n.label = some c
    · simp only [hl, if_true]
      obtain ⟨ch, s, _, hpre⟩ := headToks_static_ne_nil hp
      have hch : ch = c := by simpa [Node.label, hpre] using hl
      subst hch
      rw [deriv_resid_static_same n ch s hk hpre, hpre]
      have : deriv (.lit ch) (belowList ns) = [] :=
        deriv_lit_belowList_none ch ns hcs (fun x hx => by rw [← hl]; exact hd.1 x hx)
      simp [this]
    · simp only [hl, if_false]
      rw [ih hcs hd.2]
      have : deriv (.lit c) (resid n) = [] := by
        apply deriv_resid_static_ne _ n hk hp
        intro ch hch heq
        simp only [Tok.lit.injEq] at heq
        subst heq
        exact hl (by simpa [Node.label] using hch)
      simp [this]

theorem deriv_belowOpt_ne (t : Tok) (k : Kind) {D : Nat} {here : List Tok} (o : Option Node)
    (h : tiOpt D here k o = true) (hk : k ≠ .static) (ht : headToks k [] ≠ [t]) : deriv t (belowOpt o) = [] := by
  cases o with
  | none => simp [deriv]
  | some c =>
    obtain ⟨hkc, _⟩ := tiOpt_some h
    rw [belowOpt_some, resid_eq, hkc]
    cases k with
    | static => exact absurd rfl hk
    | param =>
      simp only [headToks]
      apply deriv_prepend_cons_ne
      intro heq; exact ht (by simp [headToks, heq])
    | any =>
      simp only [headToks]
      apply deriv_prepend_cons_ne
      intro heq; exact ht (by simp [headToks, heq])

/-- residuals below an optional child -/
def belowOf : Option Node → R
  | some c => below c
  | none => []

theorem deriv_belowOpt_same (k : Kind) {D : Nat} {here : List Tok} (o : Option Node)
    (h : tiOpt D here k o = true) (t : Tok) (ht : ∀ pre, headToks k pre = [t]) :
    deriv t (belowOpt o) = belowOf o := by
  cases o with
  | none => simp [deriv, belowOf]
  | some c =>
    obtain ⟨hkc, _⟩ := tiOpt_some h
    rw [belowOpt_some, resid_eq, hkc, ht]
    rw [deriv_prepend_cons_same]
    exact prepend_nil _

/-- `deriv (.lit c)` of a well-formed node = the rest of the edge to the static child labelled `c` -/
theorem deriv_lit_below {D : Nat} {above : List Tok} {k pre ms nf op pc st pa an} (c : Char)
    (h : tiNode D above (.mk k pre ms nf op pc st pa an) = true) :
    deriv (.lit c) (below (.mk k pre ms nf op pc st pa an)) =
      match pick c st with
      | some n => residFrom n.pre.tail n
      | none => [] := by
  have p := tiNode_parts h
  simp only [below_mk, deriv_append, deriv_own, List.nil_append]
  rw [deriv_lit_belowList c st p.kids p.distinct,
    deriv_belowOpt_ne (.lit c) .param pa p.kidP (by simp) (by simp [headToks]),
    deriv_belowOpt_ne (.lit c) .any an p.kidA (by simp) (by simp [headToks])]
  simp

theorem deriv_param_below {D : Nat} {above : List Tok} {k pre ms nf op pc st pa an}
    (h : tiNode D above (.mk k pre ms nf op pc st pa an) = true) :
    deriv .param (below (.mk k pre ms nf op pc st pa an)) = belowOf pa := by
  have p := tiNode_parts h
  simp only [below_mk, deriv_append, deriv_own, List.nil_append]
  rw [deriv_param_belowList st p.kids, deriv_belowOpt_same .param pa p.kidP .param (fun _ => rfl),
    deriv_belowOpt_ne .param .any an p.kidA (by simp) (by simp [headToks])]
  simp

theorem deriv_any_below {D : Nat} {above : List Tok} {k pre ms nf op pc st pa an}
    (h : tiNode D above (.mk k pre ms nf op pc st pa an) = true) :
    deriv .any (below (.mk k pre ms nf op pc st pa an)) = belowOf an := by
  have p := tiNode_parts h
  simp only [below_mk, deriv_append, deriv_own, List.nil_append]
  rw [deriv_any_belowList st p.kids, deriv_belowOpt_ne .any .param pa p.kidP (by simp) (by simp [headToks]),
    deriv_belowOpt_same .any an p.kidA .any (fun _ => rfl)]
  simp

/-! ### every well-formed subtree holds at least one record -/

theorem prepend_ne_nil {ts : List Tok} {r : R} (h : r ≠ []) : prepend ts r ≠ [] := by
  unfold prepend
  cases r with
  | nil => exact absurd rfl h
  | cons _ _ => simp

mutual
theorem below_ne_nil (D : Nat) (above : List Tok) : (n : Node) → tiNode D above n = true → below n ≠ []
  | .mk k pre ms nf op pc st pa an, h => by
    have p := tiNode_parts h
    rw [below_mk]
    have hal := p.alive
    simp only [Bool.or_eq_true, Bool.not_eq_true', List.isEmpty_eq_false_iff, Option.isSome_iff_ne_none] at hal
    intro hnil
    simp only [List.append_eq_nil_iff, List.map_eq_nil_iff] at hnil
    obtain ⟨⟨⟨hown, hl⟩, hpa⟩, han⟩ := hnil
    rcases hal with (((hms | hnf) | hst) | hpn) | han'
    · cases ms with
      | nil => exact hms rfl
      | cons _ _ => simp [ownEntries] at hown
    · cases nf with
      | none => exact hnf rfl
      | some _ => simp [ownEntries] at hown
    · exact belowList_ne_nil D _ st p.kids hst hl
    · cases pa with
      | none => exact hpn rfl
      | some c =>
        rw [belowOpt_some, resid_eq] at hpa
        exact prepend_ne_nil (below_ne_nil D _ c (tiOpt_some p.kidP).2) hpa
    · cases an with
      | none => exact han' rfl
      | some c =>
        rw [belowOpt_some, resid_eq] at han
        exact prepend_ne_nil (below_ne_nil D _ c (tiOpt_some p.kidA).2) han
theorem belowList_ne_nil (D : Nat) (here : List Tok) : (st : List Node) → tiList D here st = true → st ≠ [] →
    belowList st ≠ []
  | [], _, h => absurd rfl h
  | c :: cs, h, _ => by
    obtain ⟨_, _, hc, _⟩ := tiList_cons h
    rw [belowList_cons, resid_eq]
    intro hnil
    simp only [List.append_eq_nil_iff] at hnil
    exact prepend_ne_nil (below_ne_nil D here c hc) hnil.1
end

end Router.Tree
