import EchoProofs.Tree.Chain
import EchoProofs.C01
import EchoProofs.C05
import EchoProofs.C03
/-!
# The router properties, transported to the radix-tree model (L3)

For every route table that passes the executable per-table check `tableInvariant`:

* `tree_sound`       (C01) what the tree model dispatches to matches the path: the pattern with the
                     observed values rebuilds it, one value per name, no `/` in a parameter followed by
                     text — or it is the F3 fallback (custom not-found route, blank values)
* `tree_order_free`  (C02) two registration orders of the same table give the same outcome
* `tree_no_panic` / `C05_no_fail_after_registration_tree`  (C05) routing never fails on a value
                     slice of at least maxParam slots, whatever context the pool hands out
-/
namespace Router.Tree
open Router Router.Spec

theorem outRel_dispatch_inv {rm : RouteMethod} {vals : List Str} {o : Spec.Outcome}
    (h : OutRel (.dispatch rm vals) o) : ∃ mm, o = .dispatch (entryOf mm rm) vals := by
  cases h with
  | dispatch _ mm _ => exact ⟨mm, rfl⟩

theorem outEquiv_dispatch_left {e : Entry} {v : List Str} {o : Spec.Outcome}
    (h : C02.OutEquiv (.dispatch e v) o) : o = .dispatch e v := by
  cases o with
  | dispatch e' v' => obtain ⟨rfl, rfl⟩ := h; rfl
  | notFound => exact absurd h (by simp [C02.OutEquiv])
  | methodNotAllowed a => exact absurd h (by simp [C02.OutEquiv])

/-- **C01 on the tree model** -/
theorem tree_sound (rs : List Route) (m path : Str) (n : Nat) (hn : maxParam rs ≤ n)
    (hinv : tableInvariant rs = (true, true)) (rm : RouteMethod) (vals : List Str)
    (h : find (build rs) m path (List.replicate n []) = .dispatch rm vals) :
    (inst (norm rm.ppath).1 vals = some path ∧ SlashFree (norm rm.ppath).1 vals
        ∧ vals.length = arity (norm rm.ppath).1)
    ∨ ((∃ w, inst (norm rm.ppath).1 w = some path) ∧ vals = rm.pnames.map (fun _ => [])) := by
  obtain ⟨o, ho, he⟩ := find_eq_route rs m path n hn hinv
  rw [h] at ho
  obtain ⟨mm, rfl⟩ := outRel_dispatch_inv ho
  have hr := outEquiv_dispatch_left he
  rcases C01.C01_sound_partial _ _ _ _ _ hr with ⟨_, hi, hs, hl⟩ | ⟨_, _, hw, hv⟩
  · exact Or.inl ⟨hi, hs, hl⟩
  · exact Or.inr ⟨hw, hv⟩

/-- what is observable of an outcome of the tree model: the handler and its values, the Allow set, or 404 -/
def Observably (a b : Router.Outcome) : Prop :=
  match a, b with
  | .dispatch rm v, .dispatch rm' v' => rm.hid = rm'.hid ∧ rm.ppath = rm'.ppath ∧ rm.pnames = rm'.pnames ∧ v = v'
  | .notFound _, .notFound _ => True
  | .methodNotAllowed _ al, .methodNotAllowed _ al' => al.Perm al'
  | _, _ => False

/-- **C02 on the tree model**: the outcome does not depend on the registration order -/
theorem tree_order_free (rs rs' : List Route) (hp : rs.Perm rs') (m path : Str) (n : Nat)
    (hn : maxParam rs ≤ n) (hn' : maxParam rs' ≤ n)
    (hinv : tableInvariant rs = (true, true)) (hinv' : tableInvariant rs' = (true, true)) :
    Observably (find (build rs) m path (List.replicate n [])) (find (build rs') m path (List.replicate n [])) := by
  obtain ⟨o, ho, he⟩ := find_eq_route rs m path n hn hinv
  obtain ⟨o', ho', he'⟩ := find_eq_route rs' m path n hn' hinv'
  have hu : C02.NoDup (rs.map mkEntry) := by
    simp only [tableInvariant, Prod.mk.injEq, Bool.and_eq_true] at hinv
    exact uniqB_iff _ hinv.2.2
  have hperm := C02.C02_perm (rs.map mkEntry) (rs'.map mkEntry) (hp.map _) hu m path
  generalize route (rs.map mkEntry) m path = r at he hperm
  generalize route (rs'.map mkEntry) m path = r' at he' hperm
  generalize find (build rs) m path (List.replicate n []) = f at ho ⊢
  generalize find (build rs') m path (List.replicate n []) = f' at ho' ⊢
  cases ho with
  | dispatch rm mm vals =>
    have h1 := outEquiv_dispatch_left he
    subst h1
    have h2 := outEquiv_dispatch_left hperm
    subst h2
    cases ho' with
    | dispatch rm' mm' vals' =>
      obtain ⟨he1, hv⟩ := he'
      simp only [entryOf, Entry.mk.injEq] at he1
      exact ⟨he1.2.2.2.2.symm, he1.2.2.1.symm, he1.2.2.2.1.symm, hv.symm⟩
    | notFound p => exact absurd he' (by simp [C02.OutEquiv])
    | mna p a => exact absurd he' (by simp [C02.OutEquiv])
  | notFound p =>
    cases r with
    | notFound =>
      cases r' with
      | notFound =>
        cases ho' with
        | notFound p' => trivial
        | dispatch _ _ _ => exact absurd he' (by simp [C02.OutEquiv])
        | mna _ _ => exact absurd he' (by simp [C02.OutEquiv])
      | dispatch _ _ => exact absurd hperm (by simp [C02.OutEquiv])
      | methodNotAllowed _ => exact absurd hperm (by simp [C02.OutEquiv])
    | dispatch _ _ => exact absurd he (by simp [C02.OutEquiv])
    | methodNotAllowed _ => exact absurd he (by simp [C02.OutEquiv])
  | mna p a =>
    cases r with
    | methodNotAllowed al =>
      cases r' with
      | methodNotAllowed al' =>
        cases ho' with
        | mna p' a' =>
          simp only [C02.OutEquiv] at he he' hperm
          exact (he.trans hperm).trans he'.symm
        | dispatch _ _ _ => exact absurd he' (by simp [C02.OutEquiv])
        | notFound _ => exact absurd he' (by simp [C02.OutEquiv])
      | dispatch _ _ => exact absurd hperm (by simp [C02.OutEquiv])
      | notFound => exact absurd hperm (by simp [C02.OutEquiv])
    | dispatch _ _ => exact absurd he (by simp [C02.OutEquiv])
    | notFound => exact absurd he (by simp [C02.OutEquiv])

/-- **C05**: with the repaired `Reset` (value slice of at least maxParam slots) routing never fails,
    for every table that passes the per-table check -/
theorem tree_no_panic (rs : List Route) (hinv : tableInvariant rs = (true, true)) :
    C05.NoPanic (C05.routerOf rs) (maxParam rs) := by
  intro m p n hn
  unfold C05.routerOf C05.blank
  simp only [Nat.max_zero]
  exact find_table_no_panic rs m p n hn hinv

theorem C05_no_fail_after_registration_tree (rs : List Route) (hinv : tableInvariant rs = (true, true))
    (pooled : Option C05.Ctx) (r : C05.Request) :
    (C05.serveWith (C05.routerOf rs) (maxParam rs) pooled r).1.kind ≠ 3 :=
  C05.C05_no_fail_after_registration _ _ (tree_no_panic rs hinv) pooled r

end Router.Tree

namespace Router.Tree
open Router Router.Spec

theorem outRel_mna_inv {p : Str} {a : List Str} {o : Spec.Outcome}
    (h : OutRel (.methodNotAllowed p a) o) : o = .methodNotAllowed a := by
  cases h; rfl

theorem outRel_notFound_inv {p : Str} {o : Spec.Outcome} (h : OutRel (.notFound p) o) : o = .notFound := by
  cases h; rfl

/-- **C03 on the tree model**: every method advertised in Allow (besides OPTIONS), sent to the same
    path, is dispatched by the tree model to a handler registered for that method. -/
theorem tree_allow_truthful (rs : List Route) (m path : Str) (n : Nat) (hn : maxParam rs ≤ n)
    (hinv : tableInvariant rs = (true, true)) (p : Str) (allow : List Str)
    (h : find (build rs) m path (List.replicate n []) = .methodNotAllowed p allow)
    (m' : Str) (hm' : m' ∈ allow) (hopt : m' ≠ methodOptions) :
    ∃ rm vals, find (build rs) m' path (List.replicate n []) = .dispatch rm vals ∧
      ∃ e, e ∈ rs.map mkEntry ∧ e.method = m' ∧ e.hid = rm.hid := by
  obtain ⟨o, ho, he⟩ := find_eq_route rs m path n hn hinv
  rw [h] at ho
  have ho' := outRel_mna_inv ho
  subst ho'
  -- the reference outcome for m is 405 with a permutation of `allow`
  cases hr : route (rs.map mkEntry) m path with
  | dispatch e v => rw [hr] at he; exact absurd he (by simp [C02.OutEquiv])
  | notFound => rw [hr] at he; exact absurd he (by simp [C02.OutEquiv])
  | methodNotAllowed al =>
    rw [hr] at he
    simp only [C02.OutEquiv] at he
    have hmem : m' ∈ al := he.mem_iff.mp hm'
    obtain ⟨e, v, hd, hmeth, _⟩ := C03.C03_allow_truthful _ _ _ _ hr m' hmem hopt
    obtain ⟨o2, ho2, he2⟩ := find_eq_route rs m' path n hn hinv
    rw [hd] at he2
    generalize find (build rs) m' path (List.replicate n []) = f at ho2 ⊢
    cases ho2 with
    | dispatch rm mm vals =>
      obtain ⟨he1, hv⟩ := he2
      refine ⟨rm, vals, rfl, e, ?_, hmeth, ?_⟩
      · have := C01.C01_sound_partial _ _ _ _ _ hd
        rcases this with ⟨hm, _⟩ | ⟨_, hm, _⟩ <;> exact hm
      · rw [← he1]; rfl
    | notFound p' => exact absurd he2 (by simp [C02.OutEquiv])
    | mna p' a' => exact absurd he2 (by simp [C02.OutEquiv])

/-- **C03 on the tree model**: a path no registered pattern can be instantiated to gets 404. -/
theorem tree_404 (rs : List Route) (m path : Str) (n : Nat) (hn : maxParam rs ≤ n)
    (hinv : tableInvariant rs = (true, true))
    (hno : ∀ e ∈ rs.map mkEntry, ∀ w, inst e.toks w ≠ some path) :
    ∃ p, find (build rs) m path (List.replicate n []) = .notFound p := by
  obtain ⟨o, ho, he⟩ := find_eq_route rs m path n hn hinv
  rw [C03.C03_404 _ m path hno] at he
  generalize find (build rs) m path (List.replicate n []) = f at ho ⊢
  cases ho with
  | notFound p => exact ⟨p, rfl⟩
  | dispatch rm mm vals => exact absurd he (by simp [C02.OutEquiv])
  | mna p a => exact absurd he (by simp [C02.OutEquiv])

end Router.Tree
