import EchoProofs.Tree.Covered
import EchoProofs.C20Tree
/-!
# Completeness of the priority search on the tree model (C02), and its use for C20

`tree_complete_ok`: in every table of representable patterns (re-registrations allowed), if a registered
route for the request's method matches the request path, the model of `Router.Find` on the built tree
dispatches the request to a registered handler — never the router's own 404 or 405, also when deeper
wildcard or parameter routes exist only for other methods (full backtracking).
-/
namespace Router.Tree
open Router Router.Spec

theorem tree_complete_ok (rs : List Route) (hok : okTable rs = true) (r : Route) (hr : r ∈ rs)
    (hne : r.method ≠ routeNotFound) (path : Str) (hmatch : C02.Matches (norm r.path).1 path)
    (n : Nat) (hn : maxParam rs ≤ n) :
    ∃ rm vals, find (build rs) r.method path (List.replicate n []) = .dispatch rm vals
      ∧ ∃ r' ∈ dedupLast rs, r'.hid = rm.hid := by
  obtain ⟨r', hr', hkey⟩ := dedupLast_key rs r hr
  simp only [sameKey, Bool.and_eq_true, beq_iff_eq] at hkey
  have hmem : mkEntry r' ∈ (dedupLast rs).map mkEntry := List.mem_map.mpr ⟨r', hr', rfl⟩
  have hal : ∀ e ∈ (dedupLast rs).map mkEntry, anyLast e.toks = true := by
    intro e he
    obtain ⟨a, ha, rfl⟩ := List.mem_map.mp he
    have haok : okPattern a.path = true := by
      have := dedupLast_subset rs a ha
      simp only [okTable, List.all_eq_true] at hok
      exact hok a this
    exact anyLast_of_okPattern haok
  have hm' : (mkEntry r').method = r.method := by simp [mkEntry, hkey.1]
  have ht' : (mkEntry r').toks = (norm r.path).1 := by simp [mkEntry, hkey.2]
  obtain ⟨e', vals, hroute⟩ := C02.C02_complete _ hal (mkEntry r') hmem (by rw [hm']; exact hne) path
    (by rw [ht']; exact hmatch)
  rw [hm'] at hroute
  obtain ⟨o, ho, he⟩ := find_eq_route_ok rs r.method path n hn hok
  rw [hroute] at he
  generalize hf : find (build rs) r.method path (List.replicate n []) = f at ho
  cases ho with
  | dispatch rm mm vals' =>
    refine ⟨rm, vals', rfl, ?_⟩
    obtain ⟨rt, hrt, hhid, _, _⟩ := tree_dispatch_registered rs r.method path n hn hok rm vals' hf
    exact ⟨rt, hrt, hhid⟩
  | notFound p => exact absurd he (by simp [C02.OutEquiv])
  | mna p a => exact absurd he (by simp [C02.OutEquiv])

end Router.Tree

namespace C20
open Router Router.Spec Router.Tree

/-- **C20 on the tree model, any table**: the URL reversed from a registered route with valid values,
    requested with the route's method, is always dispatched to a registered handler (the route itself
    unless another registered route takes priority for that URL) — never answered 404/405. -/
theorem C20_reversed_dispatched_tree (rs : List Route) (hok : okTable rs = true) (r : Route) (hr : r ∈ rs)
    (hne : r.method ≠ routeNotFound) (vs : List Str)
    (hstar : starLast (normalizeSlash r.path) = true) (hvalid : ValidVals (norm r.path).1 vs)
    (n : Nat) (hn : maxParam rs ≤ n) :
    ∃ rm vals, find (build rs) r.method (reverse r.path vs) (List.replicate n []) = .dispatch rm vals
      ∧ ∃ r' ∈ dedupLast rs, r'.hid = rm.hid := by
  have hinst := C20_reverse_eq_inst r.path vs hstar (validVals_length hvalid)
  exact tree_complete_ok rs hok r hr hne _
    (matches_of_inst _ vs _ (normAux_paramThenSlash _ _) hvalid hinst) n hn

end C20
