import EchoProofs.Tree.Insert.Route
import EchoProofs.Tree.Chain
/-!
# From the relaxed invariant back to `tiNode`, and the whole table
-/
set_option linter.unusedSimpArgs false
set_option linter.unusedVariables false
namespace Router.Tree
open Router Router.Spec

theorem tiList_iff (D : Nat) (here : List Tok) (st : List Node) :
    tiList D here st = true ↔ ∀ c ∈ st, c.kind = .static ∧ c.pre ≠ [] ∧ tiNode D here c = true := by
  induction st with
  | nil => simp [tiList]
  | cons c cs ih =>
    simp only [tiList, Bool.and_eq_true, beq_iff_eq, Bool.not_eq_true', List.isEmpty_eq_false_iff, ih,
      List.mem_cons, forall_eq_or_imp]
    constructor
    · rintro ⟨⟨⟨h1, h2⟩, h3⟩, h4⟩; exact ⟨⟨h1, h2, h3⟩, h4⟩
    · rintro ⟨⟨h1, h2, h3⟩, h4⟩; exact ⟨⟨⟨h1, h2⟩, h3⟩, h4⟩

theorem tiOpt_iff (D : Nat) (here : List Tok) (k : Kind) (o : Option Node) :
    tiOpt D here k o = true ↔ ∀ c, o = some c → c.kind = k ∧ tiNode D here c = true := by
  cases o with
  | none => simp [tiOpt]
  | some c => simp [tiOpt]

/-- a tree satisfying the relaxed invariant and without dead leaves satisfies `tiNode` -/
theorem tiNode_of_tiR (n : Node) : ∀ (D : Nat) (above : List Tok), tiR D above n → deads n = [] →
    tiNode D above n = true := by
  refine node_induct (P := fun n => ∀ (D : Nat) (above : List Tok), tiR D above n → deads n = [] →
    tiNode D above n = true) ?_ n
  intro k pre ms nf op pc st pa an ihS ihP ihA D above hti hdead
  obtain ⟨hl, hS, hP, hA⟩ := (tiR_mk ..).mp hti
  have hkid : ∀ c, IsChild c st pa an → deads c = [] := by
    intro c hc
    rw [List.eq_nil_iff_forall_not_mem]
    intro y hy
    have : pre ++ y ∈ deads (.mk k pre ms nf op pc st pa an) := mem_deads_mk.mpr (Or.inr ⟨c, hc, y, hy, rfl⟩)
    rw [hdead] at this; simp at this
  have halive : isDead ms nf st pa an = false := by
    cases h : isDead ms nf st pa an with
    | false => rfl
    | true =>
      have : pre ∈ deads (.mk k pre ms nf op pc st pa an) := mem_deads_mk.mpr (Or.inl ⟨rfl, h⟩)
      rw [hdead] at this; simp at this
  simp only [tiNode, hl.headToks, Bool.and_eq_true, decide_eq_true_eq]
  refine ⟨⟨⟨⟨⟨⟨⟨⟨hl.depth, ?_⟩, ?_⟩, ?_⟩, ?_⟩, hl.distinct⟩, ?_⟩, ?_⟩, ?_⟩
  · revert halive
    cases ms <;> cases nf <;> cases st <;> cases pa <;> cases an <;> simp [isDead]
  · cases k with
    | static => rfl
    | param => simp [hl.kP rfl]
    | any =>
      obtain ⟨h1, h2, h3, h4, h5⟩ := hl.kA rfl
      simp [h1, h2, h3, h4, h5]
  · rw [List.all_eq_true]
    intro x hx
    have := hl.recs x hx
    simp [hl.noNf x hx, this.1, this.2]
  · cases nf with
    | none => rfl
    | some rm =>
      have := hl.nfRec rm rfl
      simp [this.1, this.2]
  · rw [tiList_iff]
    intro c hc
    exact ⟨(hl.stK c hc).1, (hl.stK c hc).2, ihS c hc D _ ((tiRL_iff ..).mp hS c hc) (hkid c (Or.inl hc))⟩
  · rw [tiOpt_iff]
    intro c hc
    exact ⟨hl.paK c hc, ihP c hc D _ ((tiRO_iff ..).mp hP c hc) (hkid c (Or.inr (Or.inl hc)))⟩
  · rw [tiOpt_iff]
    intro c hc
    exact ⟨hl.anK c hc, ihA c hc D _ ((tiRO_iff ..).mp hA c hc) (hkid c (Or.inr (Or.inr hc)))⟩

/-! ### the empty tree -/

theorem top_empty (D : Nat) : Top D emptyTree := by
  refine ⟨?_, rfl, Or.inl rfl⟩
  exact tiR_leaf (m := []) (rm := none) (t := .static) (x := []) clean_nil (by simp [arity])
    (by intro r hr; cases hr) (by intro h; cases h)

theorem deads_empty : ∀ x ∈ deads emptyTree, x = [] := by
  intro x hx
  unfold emptyTree at hx
  rcases mem_deads_mk.mp hx with ⟨h, _⟩ | ⟨c, hc, _⟩
  · exact h
  · simp [IsChild] at hc

/-! ### `maxParam` -/

theorem paramCountOf_eq {p : Str} (h : okPattern p = true) : paramCountOf p = arity (norm p).1 := by
  have := (insertRoute_ok (arity (norm p).1) emptyTree [] p 0 (top_empty _) deads_empty h (Nat.le_refl _)).2.2.2
  show (insertLoop [] (normalizeSlash p) 0 ((normalizeSlash p).length + 2) emptyTree []
    (normalizeSlash p) []).2.2.length = _
  rw [this]
  exact normAux_names _ _

theorem foldl_max_ge (f : Route → Nat) : ∀ (rs : List Route) (init : Nat),
    init ≤ rs.foldl (fun a r => max a (f r)) init ∧ ∀ r ∈ rs, f r ≤ rs.foldl (fun a r => max a (f r)) init := by
  intro rs
  induction rs with
  | nil => intro init; simp
  | cons r rs ih =>
    intro init
    simp only [List.foldl_cons, List.mem_cons, forall_eq_or_imp]
    obtain ⟨h1, h2⟩ := ih (max init (f r))
    exact ⟨by omega, by omega, h2⟩

theorem le_maxParam {rs : List Route} {r : Route} (hr : r ∈ rs) : paramCountOf r.path ≤ maxParam rs :=
  (foldl_max_ge (fun r => paramCountOf r.path) rs 0).2 r hr

/-! ### the whole table -/

theorem initial_map_mkEntry (l : List Route) :
    initial (l.map mkEntry) = l.map (fun r => ((norm r.path).1, mkEntry r)) := by
  simp [initial, mkEntry, List.map_map, Function.comp_def]

theorem mkEntry_method (r : Route) : (mkEntry r).method = r.method := rfl

/-- the registrations one after the other, starting from a tree that represents the routes `pre` -/
theorem fold_ok (D : Nat) : ∀ (rs : List Route) (t : Node) (pre : List Route), Top D t →
    (∀ x ∈ deads t, x = []) → (resid t).Perm (initial (pre.map mkEntry)) →
    (∀ r ∈ rs, okPattern r.path = true ∧ arity (norm r.path).1 ≤ D) →
    Uniq (initial ((pre ++ rs).map mkEntry)) →
    Top D (rs.foldl (fun t r => insertRoute t r.method r.path r.hid) t)
      ∧ (rs ≠ [] → deads (rs.foldl (fun t r => insertRoute t r.method r.path r.hid) t) = [])
      ∧ (resid (rs.foldl (fun t r => insertRoute t r.method r.path r.hid) t)).Perm
          (initial ((pre ++ rs).map mkEntry)) := by
  intro rs
  induction rs with
  | nil =>
    intro t pre ht _ hres _ _
    simp only [List.foldl_nil, List.append_nil]
    exact ⟨ht, fun h => absurd rfl h, hres⟩
  | cons r rs ih =>
    intro t pre ht hdead hres hok hu
    obtain ⟨hokr, hDr⟩ := hok r (by simp)
    obtain ⟨f1, f2, f3, _⟩ := insertRoute_ok D t r.method r.path r.hid ht hdead hokr hDr
    have he : pre ++ r :: rs = (pre ++ [r]) ++ rs := by simp
    simp only [List.foldl_cons]
    rw [he] at hu ⊢
    -- no registered entry has the tokens and the method of `r`
    have hkeep : (initial (pre.map mkEntry)).filter (keep (norm r.path).1 r.method) = initial (pre.map mkEntry) := by
      rw [List.filter_eq_self]
      intro x hx
      unfold Uniq at hu
      rw [List.map_append, List.map_append, initial, List.map_append, List.map_append, List.pairwise_append,
        List.pairwise_append] at hu
      have := hu.1.2.2 x (by simpa [initial] using hx) ((norm r.path).1, mkEntry r) (by simp [initial, mkEntry])
      simp only [mkEntry_method, not_and] at this
      unfold keep
      by_cases h1 : x.1 = (norm r.path).1
      · have h2 := this h1
        simp [h1, h2]
      · simp [h1]
    have hres1 : (resid (insertRoute t r.method r.path r.hid)).Perm (initial ((pre ++ [r]).map mkEntry)) := by
      refine f3.trans ?_
      have h1 := (hres.filter (keep (norm r.path).1 r.method))
      rw [hkeep] at h1
      refine (List.Perm.cons _ h1).trans ?_
      have : initial ((pre ++ [r]).map mkEntry) = initial (pre.map mkEntry) ++ [((norm r.path).1, mkEntry r)] := by
        simp [initial, mkEntry]
      rw [this]
      exact (List.perm_append_comm (l₁ := initial (pre.map mkEntry)) (l₂ := [((norm r.path).1, mkEntry r)])).symm
    obtain ⟨g1, g2, g3⟩ := ih (insertRoute t r.method r.path r.hid) (pre ++ [r]) f1
      (by intro x hx; rw [f2] at hx; simp at hx) hres1 (fun r' hr' => hok r' (by simp [hr'])) hu
    refine ⟨g1, fun _ => ?_, g3⟩
    by_cases hrs : rs = []
    · subst hrs; exact f2
    · exact g2 hrs

/-- **`Router.build` yields a tree satisfying the invariant and representing the table**, for every
    non-empty well-formed table.  (For the empty table the statement is false: `build [] = emptyTree` is a
    node without record and child, which `tiNode` rejects; see `tableInvariant_nil`.) -/
theorem build_tableInvariant (rs : List Route) (hne : rs ≠ []) (h : wfTable rs = true) :
    tableInvariant rs = (true, true) := by
  unfold wfTable at h
  simp only [Bool.and_eq_true, List.all_eq_true] at h
  obtain ⟨hok, hu⟩ := h
  have hD : ∀ r ∈ rs, okPattern r.path = true ∧ arity (norm r.path).1 ≤ maxParam rs := by
    intro r hr
    refine ⟨hok r hr, ?_⟩
    rw [← paramCountOf_eq (hok r hr)]
    exact le_maxParam hr
  obtain ⟨f1, f2, f3⟩ := fold_ok (maxParam rs) rs emptyTree [] (top_empty _) deads_empty
    (by rw [resid_emptyTree]; exact List.Perm.refl _) hD (by simpa using uniqB_iff _ hu)
  simp only [List.nil_append] at f3
  have hti := tiNode_of_tiR _ _ _ f1.inv (f2 hne)
  unfold tableInvariant build
  simp only [Prod.mk.injEq, Bool.and_eq_true, decide_eq_true_eq, List.isPerm_iff]
  exact ⟨⟨hti, f1.kind⟩, f3, hu⟩

end Router.Tree
