import EchoProofs.Tree.Insert.Loop
/-!
# One registration (`insertRoute`) and the whole table (`build`)
-/
set_option linter.unusedSimpArgs false
set_option linter.unusedVariables false
namespace Router.Tree
open Router Router.Spec

theorem insertRoute_eq (t : Node) (m path0 : Str) (hid : Nat) :
    insertRoute t m path0 hid =
      insertAt m
        (insertLoop m (normalizeSlash path0) hid ((normalizeSlash path0).length + 2) t [] (normalizeSlash path0) []).2.1
        .static
        (some ⟨normalizeSlash path0,
          (insertLoop m (normalizeSlash path0) hid ((normalizeSlash path0).length + 2) t []
            (normalizeSlash path0) []).2.2, hid⟩)
        (insertLoop m (normalizeSlash path0) hid ((normalizeSlash path0).length + 2) t [] (normalizeSlash path0) []).1 :=
  rfl

/-- **one registration**: the tree invariant is kept, no dead leaf remains, and the residual set gains the
    entry of the route (replacing the records of the same method at the same place) -/
theorem insertRoute_ok (D : Nat) (t : Node) (m path0 : Str) (hid : Nat) (ht : Top D t) (hdead : ∀ x ∈ deads t, x = [])
    (hok : okPattern path0 = true) (hD : arity (norm path0).1 ≤ D) :
    Top D (insertRoute t m path0 hid) ∧ deads (insertRoute t m path0 hid) = []
      ∧ (resid (insertRoute t m path0 hid)).Perm
          (((norm path0).1, mkEntry ⟨m, path0, hid⟩) :: (resid t).filter (keep (norm path0).1 m))
      ∧ (insertLoop m (normalizeSlash path0) hid ((normalizeSlash path0).length + 2) t []
            (normalizeSlash path0) []).2.2 = (norm path0).2 := by
  obtain ⟨r0, hr0⟩ := normalizeSlash_head path0
  have hnorm : (norm (normalizeSlash path0)).1 = (norm path0).1 := by rw [norm_normalizeSlash]
  have hnames : (norm path0).2.length = arity (norm path0).1 := normAux_names _ _
  have hloop := insertLoop_ok D m (normalizeSlash path0) hid (norm path0).1 (norm path0).2 (resid t) hD hnorm hnames
    ((normalizeSlash path0).length + 2) t [] (normalizeSlash path0) [] (by omega)
    ⟨ht, ⟨[], [], rfl, clean_nil, Or.inl rfl⟩, by intro x hx; rw [hdead x hx]; exact List.prefix_refl _, List.Perm.refl _⟩
    (by rw [norm_eq_NA]; rfl) (by rw [norm_eq_NA]; rfl) (by rw [← okPattern_eq_OK]; exact hok) (by simp)
    (fun _ => by rw [hr0]; rfl) (fun h => absurd rfl h)
  rw [insertRoute_eq]
  generalize insertLoop m (normalizeSlash path0) hid ((normalizeSlash path0).length + 2) t []
    (normalizeSlash path0) [] = L at hloop ⊢
  obtain ⟨t', path, pn⟩ := L
  obtain ⟨hst, htk, hpn, hstar, hhead⟩ := hloop
  simp only at hst htk hpn hstar hhead ⊢
  obtain ⟨f1, f2, f3⟩ := step_final (r := ⟨normalizeSlash path0, pn, hid⟩) hst hhead hstar htk hnorm
    (by rw [hpn]; exact hnames) hD
  refine ⟨f1, f2, ?_, hpn⟩
  have he : entryOf m ⟨normalizeSlash path0, pn, hid⟩ = mkEntry ⟨m, path0, hid⟩ := by
    simp only [entryOf, mkEntry, hnorm, hpn]
  rw [← he]
  exact f3

end Router.Tree
