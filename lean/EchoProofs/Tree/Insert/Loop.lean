import EchoProofs.Tree.Insert.Resid
import EchoProofs.Tree.Insert.Text
/-!
# One registration: the scan loop of `Router.insert` and the final insertion
-/
set_option linter.unusedSimpArgs false
set_option linter.unusedVariables false
namespace Router.Tree
open Router Router.Spec

/-! ### the equations of `insertLoop` -/

theorem insertLoop_nil (m p : Str) (h f : Nat) (t : Node) (done : Str) (pn : List Str) :
    insertLoop m p h f t done [] pn = (t, done, pn) := by
  cases f <;> rfl

theorem insertLoop_colon (m p : Str) (h f : Nat) (t : Node) (done : Str) (rest : Str) (pn : List Str) :
    insertLoop m p h (f + 1) t done (':' :: rest) pn =
    match rest.dropWhile (· ≠ '/') with
    | [] => (insertAt m (done ++ [':']) .param (some ⟨p, pn ++ [rest.takeWhile (· ≠ '/')], h⟩)
              (insertAt m done .static none t), done ++ [':'], pn ++ [rest.takeWhile (· ≠ '/')])
    | d :: r => insertLoop m p h f (insertAt m (done ++ [':']) .param none (insertAt m done .static none t))
              (done ++ [':', d]) r (pn ++ [rest.takeWhile (· ≠ '/')]) := by
  rw [insertLoop]
  have h1 : ¬ (':' = '\\' ∧ rest.head? = some ':') := by simp
  rw [if_neg h1, if_pos rfl]
  cases hd : rest.dropWhile (· ≠ '/') with
  | nil => simp
  | cons d r => simp

theorem insertLoop_star (m p : Str) (h f : Nat) (t : Node) (done : Str) (rest : Str) (pn : List Str) :
    insertLoop m p h (f + 1) t done ('*' :: rest) pn =
    insertLoop m p h f (insertAt m (done ++ ['*']) .any (some ⟨p, pn ++ ["*".toList], h⟩)
      (insertAt m done .static none t)) (done ++ ['*']) rest (pn ++ ["*".toList]) := by
  rw [insertLoop]
  have h1 : ¬ ('*' = '\\' ∧ rest.head? = some ':') := by simp
  have h2 : ¬ ('*' = ':') := by simp
  rw [if_neg h1, if_neg h2, if_pos rfl]

theorem insertLoop_lit (m p : Str) (h f : Nat) (t : Node) (done : Str) (c : Char) (rest : Str) (pn : List Str)
    (h1 : ¬ (c = '\\' ∧ rest.head? = some ':')) (h2 : c ≠ ':') (h3 : c ≠ '*') :
    insertLoop m p h (f + 1) t done (c :: rest) pn = insertLoop m p h f t (done ++ [c]) rest pn := by
  rw [insertLoop, if_neg h1, if_neg h2, if_neg h3]

/-! ### the invariant of the whole tree -/

/-- the tree between two registrations -/
structure Top (D : Nat) (t : Node) : Prop where
  inv : tiR D [] t
  kind : t.kind = .static
  root : t = emptyTree ∨ t.label = some '/'

/-- the tree inside the scan loop: `done` is the text scanned so far -/
structure TreeSt (D : Nat) (m : Str) (toks : List Tok) (R0 : R) (t : Node) (done : Str) : Prop where
  top : Top D t
  fit : ∃ u v, done = u ++ v ∧ Clean v ∧ (u = [] ∨ u ∈ bounds t)
  dead : ∀ x ∈ deads t, x <+: done
  res : ((resid t).filter (keep toks m)).Perm (R0.filter (keep toks m))

theorem lcp_ne_zero_of_heads {s p : Str} {c : Char} (hs : s.head? = some c) (hp : p.head? = some c) :
    lcp s p ≠ 0 := by
  cases s with
  | nil => simp at hs
  | cons a s =>
    cases p with
    | nil => simp at hp
    | cons b p =>
      simp only [List.head?_cons, Option.some.injEq] at hs hp
      simp [lcp, hs, hp]

theorem top_lcp {D : Nat} {t : Node} {s : Str} (h : Top D t) (hs : s.head? = some '/') :
    lcp s t.pre = 0 → t = emptyTree := by
  intro h0
  rcases h.root with hr | hr
  · exact hr
  · exact absurd h0 (lcp_ne_zero_of_heads hs hr)

theorem emptyTree_fields : emptyTree.statics = [] ∧ emptyTree.param = none ∧ emptyTree.any = none :=
  ⟨rfl, rfl, rfl⟩

theorem keep_self (toks : List Tok) (m : Str) (r : RouteMethod) : keep toks m (toks, entryOf m r) = false := by
  simp [keep, entryOf]

/-- filtering away the key of the record just written forgets that record -/
theorem filter_expected {m : Str} {r : RouteMethod} {toks : List Tok} {X Y : R}
    (h : X.Perm (expected m (some r) toks Y)) : (X.filter (keep toks m)).Perm (Y.filter (keep toks m)) := by
  have := h.filter (keep toks m)
  simp only [expected, List.filter_cons, keep_self, Bool.false_eq_true, if_false, List.filter_filter,
    Bool.and_self] at this
  exact this

/-- the static insertion in front of a marker -/
theorem step_static {D : Nat} {m : Str} {toks : List Tok} {R0 : R} {t : Node} {done : Str}
    (h : TreeSt D m toks R0 t done) (hs : done.head? = some '/') (hstar : StarLast done)
    (hD : arity (textToks done) ≤ D) :
    tiR D [] (insertAt m done .static none t) ∧ (insertAt m done .static none t).kind = .static
      ∧ (insertAt m done .static none t).label = some '/'
      ∧ done ∈ bounds (insertAt m done .static none t)
      ∧ (∀ x ∈ deads (insertAt m done .static none t), x = done)
      ∧ ((resid (insertAt m done .static none t)).filter (keep toks m)).Perm (R0.filter (keep toks m)) := by
  have hroot : lcp done t.pre = 0 → t = emptyTree ∧ Kind.static = Kind.static :=
    fun h0 => ⟨top_lcp h.top hs h0, rfl⟩
  have hfit : Fit .static done t := h.fit
  obtain ⟨h1, h2⟩ := insertAt_tiR m .static none done t D [] h.top.inv hfit hstar (by intro r hr; cases hr)
    (by simpa using hD) (by intro h; cases h) hroot
  refine ⟨h1, h2.trans h.top.kind, by rw [insertAt_label]; exact hs, insertAt_bounds .., ?_, ?_⟩
  · intro x hx
    rcases insertAt_deads m .static none done t D [] h.top.inv
      (fun h0 => by rw [(hroot h0).1]; exact emptyTree_fields) x hx with ⟨hx, _⟩ | ⟨hx, hnp⟩
    · exact hx
    · exact absurd (h.dead x hx) hnp
  · have := insertAt_resid m .static none done t D [] h.top.inv hfit hroot
    exact (this.filter _).trans h.res

/-- the insertion of a marker node, right after `step_static` -/
theorem step_mark {D : Nat} {m : Str} {toks : List Tok} {R0 : R} {t1 : Node} {done : Str} {k : Kind} {ch : Char}
    {rm : Option RouteMethod} (hinv : tiR D [] t1) (hkind : t1.kind = .static) (hlab : t1.label = some '/')
    (hb : done ∈ bounds t1) (hdead : ∀ x ∈ deads t1, x = done)
    (hres : ((resid t1).filter (keep toks m)).Perm (R0.filter (keep toks m)))
    (hs : done.head? = some '/') (hpiece : Piece k [ch]) (hstar : StarLast (done ++ [ch]))
    (hrec : ∀ r, rm = some r → toks = textToks (done ++ [ch]) ∧ (norm r.ppath).1 = toks
      ∧ r.pnames.length = arity toks)
    (hany : k = .any → rm ≠ none) (hD : arity (textToks (done ++ [ch])) ≤ D) :
    tiR D [] (insertAt m (done ++ [ch]) k rm t1) ∧ (insertAt m (done ++ [ch]) k rm t1).kind = .static
      ∧ (insertAt m (done ++ [ch]) k rm t1).label = some '/'
      ∧ (done ++ [ch]) ∈ bounds (insertAt m (done ++ [ch]) k rm t1)
      ∧ (∀ x ∈ deads (insertAt m (done ++ [ch]) k rm t1), x = done ++ [ch] ∧ rm = none)
      ∧ ((resid (insertAt m (done ++ [ch]) k rm t1)).filter (keep toks m)).Perm (R0.filter (keep toks m)) := by
  have hne : done ≠ [] := by intro h; rw [h] at hs; simp at hs
  have hs' : (done ++ [ch]).head? = some '/' := by rw [head?_append_of_ne_nil hne]; exact hs
  have hl0 : lcp (done ++ [ch]) t1.pre ≠ 0 := lcp_ne_zero_of_heads hs' hlab
  have hroot : lcp (done ++ [ch]) t1.pre = 0 → t1 = emptyTree ∧ k = Kind.static := fun h0 => absurd h0 hl0
  have hfit : Fit k (done ++ [ch]) t1 := ⟨done, [ch], rfl, hpiece, Or.inr hb⟩
  obtain ⟨h1, h2⟩ := insertAt_tiR m k rm (done ++ [ch]) t1 D [] hinv hfit hstar
    (by
      intro r hr
      obtain ⟨e1, e2, e3⟩ := hrec r hr
      rw [List.nil_append, ← e1]; exact ⟨e2, e3⟩)
    (by simpa using hD) hany hroot
  refine ⟨h1, h2.trans hkind, by rw [insertAt_label]; exact hs', insertAt_bounds .., ?_, ?_⟩
  · intro x hx
    rcases insertAt_deads m k rm (done ++ [ch]) t1 D [] hinv (fun h0 => absurd h0 hl0) x hx with
      ⟨hx, hrm⟩ | ⟨hx, hnp⟩
    · exact ⟨hx, hrm⟩
    · rw [hdead x hx] at hnp
      exact absurd (List.prefix_append _ _) hnp
  · have := insertAt_resid m k rm (done ++ [ch]) t1 D [] hinv hfit hroot
    cases rm with
    | none => exact (this.filter _).trans hres
    | some r =>
      obtain ⟨e1, _, _⟩ := hrec r rfl
      rw [← e1] at this
      exact (filter_expected this).trans hres

/-- the final insertion of the record at the full text -/
theorem step_final {D : Nat} {m : Str} {toks : List Tok} {R0 : R} {t : Node} {path : Str} {r : RouteMethod}
    (h : TreeSt D m toks R0 t path) (hs : path.head? = some '/') (hstar : StarLast path)
    (htoks : textToks path = toks) (hr1 : (norm r.ppath).1 = toks) (hr2 : r.pnames.length = arity toks)
    (hD : arity toks ≤ D) :
    Top D (insertAt m path .static (some r) t) ∧ deads (insertAt m path .static (some r) t) = []
      ∧ (resid (insertAt m path .static (some r) t)).Perm ((toks, entryOf m r) :: R0.filter (keep toks m)) := by
  have hroot : lcp path t.pre = 0 → t = emptyTree ∧ Kind.static = Kind.static :=
    fun h0 => ⟨top_lcp h.top hs h0, rfl⟩
  have hfit : Fit .static path t := h.fit
  obtain ⟨h1, h2⟩ := insertAt_tiR m .static (some r) path t D [] h.top.inv hfit hstar
    (by
      intro r' hr'
      simp only [Option.some.injEq] at hr'
      subst hr'
      rw [List.nil_append, htoks]; exact ⟨hr1, hr2⟩)
    (by rw [List.nil_append, htoks]; exact hD) (by intro h; cases h) hroot
  refine ⟨⟨h1, h2.trans h.top.kind, Or.inr (by rw [insertAt_label]; exact hs)⟩, ?_, ?_⟩
  · rw [List.eq_nil_iff_forall_not_mem]
    intro x hx
    rcases insertAt_deads m .static (some r) path t D [] h.top.inv
      (fun h0 => by rw [(hroot h0).1]; exact emptyTree_fields) x hx with ⟨_, hrm⟩ | ⟨hx, hnp⟩
    · cases hrm
    · exact absurd (h.dead x hx) hnp
  · have := insertAt_resid m .static (some r) path t D [] h.top.inv hfit hroot
    rw [htoks] at this
    exact this.trans (List.Perm.cons _ h.res)

theorem mem_append_singleton_ne {c d : Char} {s : Str} (hs : c ∉ s) (hd : c ≠ d) : c ∉ s ++ [d] := by
  simp only [List.mem_append, List.mem_singleton, not_or]
  exact ⟨hs, hd⟩

theorem starLast_of_not_mem {s : Str} (h : '*' ∉ s) : StarLast s := by
  intro a b hs
  exfalso; apply h; rw [hs]; simp

theorem starLast_snoc {s : Str} {c : Char} (h : '*' ∉ s) : StarLast (s ++ [c]) := by
  intro a b hs
  cases b with
  | nil => rfl
  | cons x xs =>
    exfalso
    apply h
    have h1 : s ++ [c] = (a ++ '*' :: (x :: xs).dropLast) ++ [(x :: xs).getLast (by simp)] := by
      rw [hs, List.append_assoc, List.cons_append, List.dropLast_concat_getLast]
    have h2 := List.append_inj_left' h1 rfl
    rw [h2]; simp

/-- **the scan loop**: it keeps the tree invariant, leaves the registered records alone (up to the record
    of the route being registered), and ends with `done` = the tree text of the whole pattern -/
theorem insertLoop_ok (D : Nat) (m ppath : Str) (hid : Nat) (toks : List Tok) (names : List Str) (R0 : R)
    (hD : arity toks ≤ D) (hnorm : (norm ppath).1 = toks) (hnames : names.length = arity toks) :
    ∀ (fuel : Nat) (t : Node) (done todo : Str) (pn : List Str), todo.length < fuel →
      TreeSt D m toks R0 t done → toks = textToks done ++ (NA todo).1 → names = pn ++ (NA todo).2 →
      OK todo = true → '*' ∉ done → (done = [] → todo.head? = some '/') → (done ≠ [] → done.head? = some '/') →
      TreeSt D m toks R0 (insertLoop m ppath hid fuel t done todo pn).1
          (insertLoop m ppath hid fuel t done todo pn).2.1
        ∧ textToks (insertLoop m ppath hid fuel t done todo pn).2.1 = toks
        ∧ (insertLoop m ppath hid fuel t done todo pn).2.2 = names
        ∧ StarLast (insertLoop m ppath hid fuel t done todo pn).2.1
        ∧ (insertLoop m ppath hid fuel t done todo pn).2.1.head? = some '/' := by
  intro fuel
  induction fuel with
  | zero => intro t done todo pn h; omega
  | succ f ih =>
    intro t done todo pn hfuel hst htoks hnm hok hnostar hsl0 hsl1
    cases todo with
    | nil =>
      rw [insertLoop_nil]
      rw [NA_nil] at htoks hnm
      simp only [List.append_nil] at htoks hnm
      have hne : done ≠ [] := by intro h; have := hsl0 h; simp at this
      exact ⟨hst, htoks.symm, hnm.symm, starLast_of_not_mem hnostar, hsl1 hne⟩
    | cons c rest =>
      simp only [List.length_cons] at hfuel
      rw [OK_cons] at hok
      rw [NA_cons] at htoks hnm
      by_cases hesc : c = '\\' ∧ rest.head? = some ':'
      · rw [if_pos hesc] at hok; cases hok
      rw [if_neg hesc] at hok htoks hnm
      by_cases hcolon : c = ':'
      · -- a parameter
        subst hcolon
        simp only [if_true] at hok htoks hnm
        have hne : done ≠ [] := by intro h; have := hsl0 h; simp at this
        have hs := hsl1 hne
        have hD1 : arity (textToks done) ≤ D := by
          rw [htoks] at hD; exact Nat.le_trans (arity_le_append _ _) hD
        obtain ⟨a1, a2, a3, a4, a5, a6⟩ := step_static hst hs (starLast_of_not_mem hnostar) hD1
        have htoks' : toks = textToks (done ++ [':']) ++ (NA (rest.dropWhile (· ≠ '/'))).1 := by
          rw [htoks]; simp [tokOf_colon]
        have hD2 : arity (textToks (done ++ [':'])) ≤ D := by
          rw [htoks'] at hD; exact Nat.le_trans (arity_le_append _ _) hD
        rw [insertLoop_colon]
        cases hdrop : rest.dropWhile (· ≠ '/') with
        | nil =>
          simp only
          rw [hdrop, NA_nil] at htoks' hnm
          simp only [List.append_nil] at htoks' hnm
          obtain ⟨b1, b2, b3, b4, b5, b6⟩ := step_mark (k := .param) (ch := ':')
            (rm := some ⟨ppath, pn ++ [rest.takeWhile (· ≠ '/')], hid⟩) a1 a2 a3 a4 a5 a6 hs rfl
            (starLast_snoc hnostar)
            (by
              intro r hr
              simp only [Option.some.injEq] at hr
              subst hr
              exact ⟨htoks', hnorm, by rw [← hnm]; exact hnames⟩)
            (by intro h; cases h) hD2
          refine ⟨⟨⟨b1, b2, Or.inr b3⟩, ⟨done ++ [':'], [], by simp, clean_nil, Or.inr b4⟩, ?_, b6⟩,
            htoks'.symm, hnm.symm, starLast_snoc hnostar, ?_⟩
          · intro x hx; rw [(b5 x hx).1]; exact List.prefix_refl _
          · rw [head?_append_of_ne_nil hne]; exact hs
        | cons d r =>
          simp only
          have hd : d = '/' := dropWhile_head rest d r hdrop
          subst hd
          obtain ⟨b1, b2, b3, b4, b5, b6⟩ := step_mark (k := .param) (ch := ':') (rm := none) a1 a2 a3 a4 a5 a6 hs
            rfl (starLast_snoc hnostar) (by intro r hr; cases hr) (by intro h; cases h) hD2
          have hlen := dropWhile_length_le (· ≠ '/') rest
          rw [hdrop] at hlen htoks' hnm hok
          simp only [List.length_cons] at hlen
          have hesc' : ¬ ('/' = '\\' ∧ r.head? = some ':') := by simp
          rw [NA_cons, if_neg hesc', if_neg (by simp), if_neg (by simp)] at htoks' hnm
          rw [OK_cons, if_neg hesc', if_neg (by simp), if_neg (by simp)] at hok
          have hdone' : done ++ [':', '/'] = (done ++ [':']) ++ ['/'] := by simp
          refine ih _ (done ++ [':', '/']) r _ (by omega) ⟨⟨b1, b2, Or.inr b3⟩, ?_, ?_, b6⟩ ?_ ?_ hok ?_ ?_ ?_
          · exact ⟨done ++ [':'], ['/'], hdone', by
              rw [clean_cons]; exact ⟨⟨by simp, by simp⟩, clean_nil⟩, Or.inr b4⟩
          · intro x hx; rw [(b5 x hx).1, hdone']; exact List.prefix_append _ _
          · rw [htoks']; simp [tokOf_lit]
          · rw [hnm]; simp
          · rw [hdone']
            exact mem_append_singleton_ne (mem_append_singleton_ne hnostar (by simp)) (by simp)
          · intro h; simp at h
          · intro _; rw [head?_append_of_ne_nil hne]; exact hs
      · by_cases hstarc : c = '*'
        · -- the wildcard
          subst hstarc
          rw [if_neg hcolon] at hok htoks hnm
          simp only [if_true] at hok htoks hnm
          have hrest : rest = [] := by simpa using hok
          subst hrest
          have hne : done ≠ [] := by intro h; have := hsl0 h; simp at this
          have hs := hsl1 hne
          have hD1 : arity (textToks done) ≤ D := by
            rw [htoks] at hD; exact Nat.le_trans (arity_le_append _ _) hD
          obtain ⟨a1, a2, a3, a4, a5, a6⟩ := step_static hst hs (starLast_of_not_mem hnostar) hD1
          have htoks' : toks = textToks (done ++ ['*']) := by
            rw [htoks]; simp [tokOf_star]
          rw [insertLoop_star, insertLoop_nil]
          obtain ⟨b1, b2, b3, b4, b5, b6⟩ := step_mark (k := .any) (ch := '*')
            (rm := some ⟨ppath, pn ++ ["*".toList], hid⟩) a1 a2 a3 a4 a5 a6 hs rfl
            (starLast_snoc hnostar)
            (by
              intro r hr
              simp only [Option.some.injEq] at hr
              subst hr
              exact ⟨htoks', hnorm, by rw [← hnm]; exact hnames⟩)
            (by intro _ h; cases h) (by rw [← htoks']; exact hD)
          refine ⟨⟨⟨b1, b2, Or.inr b3⟩, ⟨done ++ ['*'], [], by simp, clean_nil, Or.inr b4⟩, ?_, b6⟩,
            htoks'.symm, hnm.symm, starLast_snoc hnostar, ?_⟩
          · intro x hx; rw [(b5 x hx).1]; exact List.prefix_refl _
          · rw [head?_append_of_ne_nil hne]; exact hs
        · -- literal text
          rw [if_neg hcolon, if_neg hstarc] at hok htoks hnm
          rw [insertLoop_lit _ _ _ _ _ _ _ _ _ hesc hcolon hstarc]
          obtain ⟨u, v, e1, e2, e3⟩ := hst.fit
          refine ih t (done ++ [c]) rest pn (by omega) ⟨hst.top, ?_, ?_, hst.res⟩ ?_ hnm hok ?_ ?_ ?_
          · refine ⟨u, v ++ [c], by rw [e1, List.append_assoc], ?_, e3⟩
            rw [clean_append, clean_cons]
            exact ⟨e2, ⟨hcolon, hstarc⟩, clean_nil⟩
          · intro x hx
            exact List.IsPrefix.trans (hst.dead x hx) (List.prefix_append _ _)
          · rw [htoks]; simp [tokOf_lit hcolon hstarc]
          · exact mem_append_singleton_ne hnostar (fun h => hstarc h.symm)
          · intro h; simp at h
          · intro _
            by_cases hd : done = []
            · have := hsl0 hd
              simp only [List.head?_cons, Option.some.injEq] at this
              rw [hd, this]; rfl
            · rw [head?_append_of_ne_nil hd]; exact hsl1 hd

end Router.Tree
