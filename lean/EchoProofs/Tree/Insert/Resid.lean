import EchoProofs.Tree.Insert.Inv
/-!
# Insertion into the radix tree: the residual set after an insertion
-/
set_option linter.unusedSimpArgs false
set_option linter.unusedVariables false
namespace Router.Tree
open Router Router.Spec

/-- keep every residual except those with tokens `ts` and method `m` -/
def keep (ts : List Tok) (m : Str) (x : List Tok × Entry) : Bool := !(x.1 == ts && x.2.method == m)

/-- what an insertion at tokens `ts` does to a residual set: a record for method `m` replaces the
    records of `m` at the same place; without record nothing changes -/
def expected (m : Str) (rm : Option RouteMethod) (ts : List Tok) (X : R) : R :=
  match rm with
  | some r => (ts, entryOf m r) :: X.filter (keep ts m)
  | none => X

theorem prepend_append (ts : List Tok) (a b : R) : prepend ts (a ++ b) = prepend ts a ++ prepend ts b := by
  simp [prepend]

theorem prepend_prepend (a b : List Tok) (r : R) : prepend a (prepend b r) = prepend (a ++ b) r := by
  simp [prepend, List.map_map, Function.comp_def]

theorem prepend_perm {ts : List Tok} {r r' : R} (h : r.Perm r') : (prepend ts r).Perm (prepend ts r') :=
  h.map _

theorem prepend_nil_right (ts : List Tok) : prepend ts [] = [] := rfl

theorem keep_prepend (hd ts : List Tok) (m : Str) (y : List Tok) (e : Entry) :
    keep (hd ++ ts) m (hd ++ y, e) = keep ts m (y, e) := by
  unfold keep
  have : (hd ++ y == hd ++ ts) = (y == ts) := by
    by_cases h : y = ts
    · simp [h]
    · have h1 : (y == ts) = false := by simpa using h
      have h2 : (hd ++ y == hd ++ ts) = false := by simpa using h
      rw [h1, h2]
  simp only [this]

theorem filter_keep_prepend (hd ts : List Tok) (m : Str) (X : R) :
    (prepend hd X).filter (keep (hd ++ ts) m) = prepend hd (X.filter (keep ts m)) := by
  induction X with
  | nil => rfl
  | cons x xs ih =>
    obtain ⟨y, e⟩ := x
    simp only [prepend, List.map_cons, List.filter_cons, keep_prepend] at ih ⊢
    split
    · simp [ih]
    · exact ih

theorem expected_prepend (m : Str) (rm : Option RouteMethod) (hd ts : List Tok) (X : R) :
    expected m rm (hd ++ ts) (prepend hd X) = prepend hd (expected m rm ts X) := by
  cases rm with
  | none => rfl
  | some r =>
    simp only [expected, filter_keep_prepend]
    rfl

theorem expected_perm {m : Str} {rm : Option RouteMethod} {ts : List Tok} {X Y : R} (h : X.Perm Y) :
    (expected m rm ts X).Perm (expected m rm ts Y) := by
  cases rm with
  | none => exact h
  | some r => exact List.Perm.cons _ (h.filter _)

theorem filter_keep_id {ts : List Tok} {m : Str} {X : R} (h : ∀ x ∈ X, x.1 ≠ ts) : X.filter (keep ts m) = X := by
  rw [List.filter_eq_self]
  intro x hx
  simp [keep, h x hx]

/-- an insertion that only touches the middle part -/
theorem expected_mid {m : Str} {rm : Option RouteMethod} {ts : List Tok} {A B Y Y' : R}
    (hA : ∀ x ∈ A, x.1 ≠ ts) (hB : ∀ x ∈ B, x.1 ≠ ts) (hY : Y'.Perm (expected m rm ts Y)) :
    (A ++ (Y' ++ B)).Perm (expected m rm ts (A ++ (Y ++ B))) := by
  cases rm with
  | none => exact List.Perm.append_left _ (List.Perm.append_right _ hY)
  | some r =>
    simp only [expected, List.filter_append, filter_keep_id hA, filter_keep_id hB] at hY ⊢
    refine (List.Perm.append_left _ (List.Perm.append_right _ hY)).trans ?_
    simp only [List.cons_append]
    exact List.perm_middle

/-! ### the records of one node -/

/-- the residuals of the records stored at a node itself -/
def ownR (ms : List (Str × RouteMethod)) (nf : Option RouteMethod) : R :=
  (ownEntries ms nf).map (fun e => (([] : List Tok), e))

theorem filter_keep_nil_map (m : Str) (es : List Entry) :
    (es.map (fun e => (([] : List Tok), e))).filter (keep [] m)
      = (es.filter (fun e => !(e.method == m))).map (fun e => (([] : List Tok), e)) := by
  induction es with
  | nil => rfl
  | cons e es ih =>
    simp only [List.map_cons, List.filter_cons, keep, beq_self_eq_true, Bool.true_and]
    split
    · simp [ih]
    · exact ih

theorem filter_methods_map (m : Str) (ms : List (Str × RouteMethod)) :
    (ms.map (fun x => entryOf x.1 x.2)).filter (fun e => !(e.method == m))
      = (ms.filter (·.1 ≠ m)).map (fun x => entryOf x.1 x.2) := by
  induction ms with
  | nil => rfl
  | cons x xs ih =>
    by_cases hx : x.1 = m
    · simp [List.filter_cons, entryOf, hx]
      simpa [entryOf] using ih
    · simp [List.filter_cons, entryOf, hx]
      simpa [entryOf] using ih

theorem filter_methods_id {m : Str} {ms : List (Str × RouteMethod)} (h : ∀ x ∈ ms, x.1 ≠ m) :
    (ms.map (fun x => entryOf x.1 x.2)).filter (fun e => !(e.method == m))
      = ms.map (fun x => entryOf x.1 x.2) := by
  rw [List.filter_eq_self]
  intro e he
  obtain ⟨x, hx, rfl⟩ := List.mem_map.mp he
  simp [entryOf, h x hx]

theorem own_addMethod {ms : List (Str × RouteMethod)} {nf : Option RouteMethod} (m : Str) (r : RouteMethod)
    (hNo : NoNfKey ms) :
    (ownEntries (addMethod ms nf m r).1 (addMethod ms nf m r).2).Perm
      (entryOf m r :: (ownEntries ms nf).filter (fun e => !(e.method == m))) := by
  unfold addMethod
  by_cases hm : m = routeNotFound
  · subst hm
    simp only [if_true, ownEntries, List.filter_append, filter_methods_id hNo]
    cases nf with
    | none => simp
    | some rm =>
      have : [entryOf routeNotFound rm].filter (fun e => !(e.method == routeNotFound)) = [] := by
        simp [entryOf]
      simp only [this, List.append_nil]
      exact List.perm_append_comm
  · simp only [hm, if_false, ownEntries, List.filter_append, filter_methods_map, List.map_append, List.map_cons,
      List.map_nil]
    cases nf with
    | none => simp
    | some rm =>
      have : [entryOf routeNotFound rm].filter (fun e => !(e.method == m)) = [entryOf routeNotFound rm] := by
        simp [entryOf, Ne.symm hm]
      simp only [this, List.append_assoc]
      exact List.perm_middle

theorem ownR_withRec {ms : List (Str × RouteMethod)} {nf : Option RouteMethod} (m : Str) (r : RouteMethod)
    (hNo : NoNfKey ms) :
    (ownR (addMethod ms nf m r).1 (addMethod ms nf m r).2).Perm (expected m (some r) [] (ownR ms nf)) := by
  unfold ownR expected
  rw [filter_keep_nil_map]
  exact ((own_addMethod m r hNo).map _)

/-! ### the residual set of a node, by parts -/

/-- the residuals of the three child slots -/
def kidsR (st : List Node) (pa an : Option Node) : R := belowList st ++ (belowOpt pa ++ belowOpt an)

theorem resid_mk' (k pre ms nf op pc st pa an) :
    resid (.mk k pre ms nf op pc st pa an) = prepend (headToks k pre) (ownR ms nf ++ kidsR st pa an) := by
  rw [resid, below_mk]
  simp only [ownR, kidsR, List.append_assoc]

theorem belowList_append (a b : List Node) : belowList (a ++ b) = belowList a ++ belowList b := by
  induction a with
  | nil => simp
  | cons c cs ih => simp [ih]

theorem mem_belowList {x : List Tok × Entry} {st : List Node} : x ∈ belowList st ↔ ∃ c ∈ st, x ∈ resid c := by
  induction st with
  | nil => simp
  | cons c cs ih => simp [ih]

theorem mem_kidsR {x : List Tok × Entry} {st : List Node} {pa an : Option Node} :
    x ∈ kidsR st pa an ↔ ∃ c, IsChild c st pa an ∧ x ∈ resid c := by
  unfold kidsR IsChild
  simp only [List.mem_append, mem_belowList]
  constructor
  · rintro (⟨c, hc, hx⟩ | hx | hx)
    · exact ⟨c, Or.inl hc, hx⟩
    · cases pa with
      | none => simp at hx
      | some c => exact ⟨c, Or.inr (Or.inl rfl), by simpa using hx⟩
    · cases an with
      | none => simp at hx
      | some c => exact ⟨c, Or.inr (Or.inr rfl), by simpa using hx⟩
  · rintro ⟨c, hc | hc | hc, hx⟩
    · exact Or.inl ⟨c, hc, hx⟩
    · subst hc; exact Or.inr (Or.inl (by simpa using hx))
    · subst hc; exact Or.inr (Or.inr (by simpa using hx))

/-- the first token of every residual of a subtree is the token of the first byte of its prefix -/
theorem resid_tok {D : Nat} {here : List Tok} {d : Node} (h : tiR D here d) {e : Char} {r : Str}
    (hp : d.pre = e :: r) : ∀ x ∈ resid d, ∃ rest, x.1 = tokOf e :: rest := by
  intro x hx
  rw [resid_eq, (tiR_local d h).headToks, hp] at hx
  simp only [prepend, List.mem_map] at hx
  obtain ⟨y, _, rfl⟩ := hx
  exact ⟨textToks r ++ y.1, rfl⟩

theorem kids_tok {D : Nat} {above : List Tok} {k p ms nf op pc st pa an}
    (h : tiR D above (.mk k p ms nf op pc st pa an)) {x : List Tok × Entry} (hx : x ∈ kidsR st pa an) :
    ∃ d, IsChild d st pa an ∧ x ∈ resid d ∧ ∃ e r rest, d.pre = e :: r ∧ x.1 = tokOf e :: rest := by
  obtain ⟨d, hd, hxd⟩ := mem_kidsR.mp hx
  have hne := child_pre_ne h hd
  cases hp : d.pre with
  | nil => exact absurd hp hne
  | cons e r =>
    obtain ⟨rest, hr⟩ := resid_tok (tiR_child h hd) hp x hxd
    exact ⟨d, hd, hxd, e, r, rest, hp, hr⟩

theorem kids_ne_nil {D : Nat} {above : List Tok} {k p ms nf op pc st pa an}
    (h : tiR D above (.mk k p ms nf op pc st pa an)) : ∀ x ∈ kidsR st pa an, x.1 ≠ [] := by
  intro x hx
  obtain ⟨_, _, _, _, _, _, _, hr⟩ := kids_tok h hx
  rw [hr]; simp

theorem ownR_nil (ms : List (Str × RouteMethod)) (nf : Option RouteMethod) : ∀ x ∈ ownR ms nf, x.1 = [] := by
  intro x hx
  simp only [ownR, List.mem_map] at hx
  obtain ⟨_, _, rfl⟩ := hx
  rfl

/-- writing a record into a node -/
theorem resid_withRec {m : Str} {rm : Option RouteMethod} {k p ms nf op pc st pa an} (hNo : NoNfKey ms)
    (hhd : headToks k p = textToks p) (hkids : ∀ x ∈ kidsR st pa an, x.1 ≠ []) :
    (resid (withRec m rm k p ms nf op pc st pa an)).Perm
      (expected m rm (textToks p) (resid (.mk k p ms nf op pc st pa an))) := by
  cases rm with
  | none => exact List.Perm.refl _
  | some r =>
    simp only [withRec, resid_mk', hhd]
    have h1 := expected_prepend m (some r) (textToks p) [] (ownR ms nf ++ kidsR st pa an)
    rw [List.append_nil] at h1
    rw [h1]
    apply prepend_perm
    have := expected_mid (m := m) (rm := some r) (ts := []) (A := []) (B := kidsR st pa an) (Y := ownR ms nf)
      (Y' := ownR (addMethod ms nf m r).1 (addMethod ms nf m r).2) (by intro x hx; simp at hx) hkids
      (ownR_withRec m r hNo)
    simpa using this

/-- the residuals of a fresh leaf -/
theorem resid_leaf {m : Str} {rm : Option RouteMethod} {t : Kind} {x : Str} (hp : Piece t x) :
    (resid (withRec m rm t x [] none [] 0 [] none none)).Perm (expected m rm (textToks x) []) := by
  have hhd : headToks t x = textToks x := by
    cases t with
    | static => exact headToks_eq_textToks (fun _ => hp) (fun h => nomatch h) (fun h => nomatch h)
    | param => exact headToks_eq_textToks (fun h => nomatch h) (fun _ => hp) (fun h => nomatch h)
    | any => exact headToks_eq_textToks (fun h => nomatch h) (fun h => nomatch h) (fun _ => hp)
  have h := resid_withRec (m := m) (rm := rm) (k := t) (p := x) (ms := []) (nf := none) (op := []) (pc := 0)
    (st := []) (pa := none) (an := none) (by intro y hy; simp at hy) hhd (by intro y hy; simp [kidsR] at hy)
  have h0 : resid (.mk t x [] none [] 0 [] none none) = [] := by
    rw [resid_mk']; simp [ownR, kidsR, ownEntries, prepend]
  rw [h0] at h
  exact h

/-! ### the parts an insertion does not touch -/

theorem ne_own {ms : List (Str × RouteMethod)} {nf : Option RouteMethod} {c : Char} {s' : Str} :
    ∀ x ∈ ownR ms nf, x.1 ≠ textToks (c :: s') := by
  intro x hx
  rw [ownR_nil ms nf x hx]; simp

theorem ne_child {D : Nat} {above : List Tok} {k p ms nf op pc st pa an} {d : Node} {c : Char} {s' : Str}
    (h : tiR D above (.mk k p ms nf op pc st pa an)) (hd : IsChild d st pa an) (hl : d.label ≠ some c) :
    ∀ x ∈ resid d, x.1 ≠ textToks (c :: s') := by
  intro x hx
  have hne := child_pre_ne h hd
  cases hp : d.pre with
  | nil => exact absurd hp hne
  | cons e r =>
    obtain ⟨rest, hr⟩ := resid_tok (tiR_child h hd) hp x hx
    rw [hr]
    simp only [textToks_cons, ne_eq, List.cons.injEq, not_and]
    intro he
    exact absurd (by rw [label_of_pre hp, tokOf_inj he]) hl

theorem ne_belowList {P : List Tok × Entry → Prop} {l : List Node} (h : ∀ d ∈ l, ∀ x ∈ resid d, P x) :
    ∀ x ∈ belowList l, P x := by
  intro x hx
  obtain ⟨d, hd, hxd⟩ := mem_belowList.mp hx
  exact h d hd x hxd

theorem ne_belowOpt {P : List Tok × Entry → Prop} {o : Option Node} (h : ∀ d, o = some d → ∀ x ∈ resid d, P x) :
    ∀ x ∈ belowOpt o, P x := by
  cases o with
  | none => intro x hx; simp at hx
  | some d => intro x hx; exact h d rfl x (by simpa using hx)

theorem ne_append {P : List Tok × Entry → Prop} {A B : R} (hA : ∀ x ∈ A, P x) (hB : ∀ x ∈ B, P x) :
    ∀ x ∈ A ++ B, P x := by
  intro x hx
  rcases List.mem_append.mp hx with h | h
  · exact hA x h
  · exact hB x h

/-- an insertion that changes one part of the residuals below a node -/
theorem resid_mid {m : Str} {rm : Option RouteMethod} {k a ms nf op pc st pa an} {st' : List Node}
    {pa' an' : Option Node} {A B Y Y' : R} {c : Char} {s' : Str} (hhd : headToks k a = textToks a)
    (e1 : ownR ms nf ++ kidsR st pa an = A ++ (Y ++ B)) (e2 : ownR ms nf ++ kidsR st' pa' an' = A ++ (Y' ++ B))
    (hA : ∀ x ∈ A, x.1 ≠ textToks (c :: s')) (hB : ∀ x ∈ B, x.1 ≠ textToks (c :: s'))
    (hY : Y'.Perm (expected m rm (textToks (c :: s')) Y)) :
    (resid (.mk k a ms nf op pc st' pa' an')).Perm
      (expected m rm (textToks (a ++ c :: s')) (resid (.mk k a ms nf op pc st pa an))) := by
  rw [resid_mk', resid_mk', e1, e2, hhd, textToks_append, expected_prepend]
  exact prepend_perm (expected_mid hA hB hY)

theorem lits_append (a b : Str) : lits (a ++ b) = lits a ++ lits b := by simp [lits]

/-- the residuals of a split node -/
theorem resid_split (a q : Str) (ms nf op pc st pa an) (rest : List Node) :
    resid (.mk .static a [] none [] 0 (.mk .static q ms nf op pc st pa an :: rest) none none)
      = resid (.mk .static (a ++ q) ms nf op pc st pa an) ++ prepend (lits a) (belowList rest) := by
  simp only [resid_mk', headToks, lits_append, ownR, ownEntries, kidsR, List.map_nil, List.nil_append,
    belowList_cons, belowOpt_none, List.append_nil, prepend_append, prepend_prepend]

theorem fit_empty {t : Kind} {s : Str} (h : Fit t s emptyTree) : Piece t s := by
  obtain ⟨u, v, hs, hp, hu⟩ := h
  have hu' : u = [] := by
    rcases hu with hu | hu
    · exact hu
    · rcases mem_bounds_mk.mp hu with hu | ⟨d, hd, _⟩
      · exact hu
      · simp [IsChild] at hd
  subst hu'
  simp only [List.nil_append] at hs
  rw [hs]; exact hp

theorem resid_emptyTree : resid emptyTree = [] := by
  unfold emptyTree
  rw [resid_mk']; simp [ownR, kidsR, ownEntries, prepend]

/-- **the residual set after `insertAt`** -/
theorem insertAt_resid (m : Str) (t : Kind) (rm : Option RouteMethod) (s : Str) (n : Node) :
    ∀ (D : Nat) (above : List Tok), tiR D above n → Fit t s n →
      (lcp s n.pre = 0 → n = emptyTree ∧ t = .static) →
      (resid (insertAt m s t rm n)).Perm (expected m rm (textToks s) (resid n)) := by
  refine insertAt_cases m t rm (fun s n r => ∀ (D : Nat) (above : List Tok), tiR D above n → Fit t s n →
      (lcp s n.pre = 0 → n = emptyTree ∧ t = .static) →
      (resid r).Perm (expected m rm (textToks s) (resid n))) ?_ ?_ ?_ ?_ ?_ ?_ ?_ ?_ s n
  · -- take-over of the empty root
    intro s k p ms nf op pc st pa an h0 D above hti hfit hroot
    obtain ⟨hn, ht⟩ := hroot h0
    rw [hn] at hfit ⊢
    simp only [emptyTree, Node.mk.injEq] at hn
    obtain ⟨rfl, rfl, rfl, rfl, rfl, rfl, rfl, rfl, rfl⟩ := hn
    subst ht
    have hk : (if rm.isSome = true then Kind.static else Kind.static) = .static := by split <;> rfl
    rw [hk, resid_emptyTree]
    exact resid_leaf (fit_empty hfit)
  · -- split, the new text ends at the split point
    intro a y p' k ms nf op pc st pa an ha D above hti hfit hroot
    obtain ⟨ht, hk, hcl⟩ := fit_split hti ha hfit (List.prefix_refl a) (not_prefix_self_app (by simp))
    subst ht hk
    have hbase : resid (.mk .static a [] none [] 0 [.mk .static (y :: p') ms nf op pc st pa an] none none)
        = resid (.mk .static (a ++ y :: p') ms nf op pc st pa an) := by
      rw [resid_split]; simp [prepend]
    rw [← hbase]
    have hhd : headToks .static a = textToks a := (textToks_clean hcl).symm
    apply resid_withRec (fun x hx => by simp at hx) hhd
    intro x hx
    simp only [kidsR, belowList_cons, belowList_nil, belowOpt_none, List.append_nil, resid_mk', headToks, lits,
      List.map_cons, prepend, List.mem_map] at hx
    obtain ⟨z, _, rfl⟩ := hx
    simp
  · -- split with a new branch
    intro a x0 s' y p' k ms nf op pc st pa an ha hne D above hti hfit hroot
    obtain ⟨ht, hk, hcl⟩ := fit_split hti ha hfit (List.prefix_append a _)
      (not_prefix_app (fun h => hne (List.cons_prefix_cons.mp h).1.symm))
    subst ht hk
    obtain ⟨hca, hcs⟩ := clean_append.mp hcl
    have hclp : Clean (a ++ y :: p') := ((tiR_mk ..).mp hti).1.kS rfl
    rw [resid_split]
    simp only [belowList_cons, belowList_nil, List.append_nil]
    have hleaf : (prepend (lits a) (resid (withRec m rm .static (x0 :: s') [] none [] 0 [] none none))).Perm
        (expected m rm (textToks (a ++ x0 :: s')) []) := by
      have h1 := expected_prepend m rm (textToks a) (textToks (x0 :: s')) []
      rw [prepend_nil_right] at h1
      rw [textToks_append, h1, ← textToks_clean hca]
      exact prepend_perm (resid_leaf (t := .static) hcs)
    have hA : ∀ x ∈ resid (.mk .static (a ++ y :: p') ms nf op pc st pa an),
        x.1 ≠ textToks (a ++ x0 :: s') := by
      intro x hx
      rw [resid_mk'] at hx
      simp only [prepend, List.mem_map, headToks] at hx
      obtain ⟨z, _, rfl⟩ := hx
      rw [← textToks_clean hclp]
      simp only [textToks_append, textToks_cons, List.append_assoc, ne_eq, List.append_cancel_left_eq,
        List.cons_append, List.cons.injEq, not_and]
      intro he
      exact absurd (tokOf_inj he).symm hne
    have := expected_mid (m := m) (rm := rm) (B := []) (Y := []) hA (by intro x hx; simp at hx) hleaf
    simpa using this
  · -- descend into a static child
    intro a c s' k ms nf op pc st1 ch st2 pa an ha hch h1 ih D above hti hfit hroot
    have hother := other_label_S hti hch h1
    have hchild : IsChild ch (st1 ++ ch :: st2) pa an := Or.inl (by simp)
    have hsel : ∀ d, IsChild d (st1 ++ ch :: st2) pa an → d = ch ∨ d.label ≠ some c := by
      intro d hd
      simp only [IsChild, List.mem_append, List.mem_cons] at hd
      rcases hd with (hd | hd | hd) | hd | hd
      · exact Or.inr (hother d (Or.inl hd))
      · exact Or.inl hd
      · exact Or.inr (hother d (Or.inr (Or.inl hd)))
      · exact Or.inr (hother d (Or.inr (Or.inr (Or.inl hd))))
      · exact Or.inr (hother d (Or.inr (Or.inr (Or.inr hd))))
    have ih' := ih D (above ++ textToks a) (tiR_child hti hchild) (fit_desc hti ha hfit hsel)
      (fun h0 => absurd h0 (lcp_ne_zero_of_label hch))
    have hl := ((tiR_mk ..).mp hti).1
    refine resid_mid (A := ownR ms nf ++ belowList st1) (B := belowList st2 ++ (belowOpt pa ++ belowOpt an))
      hl.headToks ?_ ?_ ?_ ?_ ih'
    · simp only [kidsR, belowList_append, belowList_cons, List.append_assoc]
    · simp only [kidsR, belowList_append, belowList_cons, List.append_assoc]
    · refine ne_append ne_own (ne_belowList ?_)
      intro d hd
      exact ne_child hti (Or.inl (by simp [hd])) (hother d (Or.inl hd))
    · refine ne_append (ne_belowList ?_) (ne_append (ne_belowOpt ?_) (ne_belowOpt ?_))
      · intro d hd
        exact ne_child hti (Or.inl (by simp [hd])) (hother d (Or.inr (Or.inl hd)))
      · intro d hd
        exact ne_child hti (Or.inr (Or.inl hd)) (hother d (Or.inr (Or.inr (Or.inl hd))))
      · intro d hd
        exact ne_child hti (Or.inr (Or.inr hd)) (hother d (Or.inr (Or.inr (Or.inr hd))))
  · -- descend into the param child
    intro a s' k ms nf op pc st ch an ha h1 ih D above hti hfit hroot
    have hother := other_label_P hti h1
    have hchild : IsChild ch st (some ch) an := Or.inr (Or.inl rfl)
    have hch := child_param_label hti (c := ch) rfl
    have hsel : ∀ d, IsChild d st (some ch) an → d = ch ∨ d.label ≠ some ':' := by
      intro d hd
      simp only [IsChild, Option.some.injEq] at hd
      rcases hd with hd | hd | hd
      · exact Or.inr (hother d (Or.inl hd))
      · exact Or.inl hd.symm
      · exact Or.inr (hother d (Or.inr hd))
    have ih' := ih D (above ++ textToks a) (tiR_child hti hchild) (fit_desc hti ha hfit hsel)
      (fun h0 => absurd h0 (lcp_ne_zero_of_label hch))
    have hl := ((tiR_mk ..).mp hti).1
    refine resid_mid (A := ownR ms nf ++ belowList st) (B := belowOpt an) hl.headToks ?_ ?_ ?_ ?_ ih'
    · simp only [kidsR, belowOpt_some, List.append_assoc]
    · simp only [kidsR, belowOpt_some, List.append_assoc]
    · refine ne_append ne_own (ne_belowList ?_)
      intro d hd
      exact ne_child hti (Or.inl hd) (hother d (Or.inl hd))
    · refine ne_belowOpt ?_
      intro d hd
      exact ne_child hti (Or.inr (Or.inr hd)) (hother d (Or.inr hd))
  · -- descend into the any child
    intro a s' k ms nf op pc st pa ch ha h1 ih D above hti hfit hroot
    have hother := other_label_A hti h1
    have hchild : IsChild ch st pa (some ch) := Or.inr (Or.inr rfl)
    have hch := child_any_label hti (c := ch) rfl
    have hsel : ∀ d, IsChild d st pa (some ch) → d = ch ∨ d.label ≠ some '*' := by
      intro d hd
      simp only [IsChild, Option.some.injEq] at hd
      rcases hd with hd | hd | hd
      · exact Or.inr (hother d (Or.inl hd))
      · exact Or.inr (hother d (Or.inr hd))
      · exact Or.inl hd.symm
    have ih' := ih D (above ++ textToks a) (tiR_child hti hchild) (fit_desc hti ha hfit hsel)
      (fun h0 => absurd h0 (lcp_ne_zero_of_label hch))
    have hl := ((tiR_mk ..).mp hti).1
    refine resid_mid (A := ownR ms nf ++ (belowList st ++ belowOpt pa)) (B := []) hl.headToks ?_ ?_ ?_ ?_ ih'
    · simp only [kidsR, belowOpt_some, List.append_assoc, List.append_nil]
    · simp only [kidsR, belowOpt_some, List.append_assoc, List.append_nil]
    · refine ne_append ne_own (ne_append (ne_belowList ?_) (ne_belowOpt ?_))
      · intro d hd
        exact ne_child hti (Or.inl hd) (hother d (Or.inl hd))
      · intro d hd
        exact ne_child hti (Or.inr (Or.inl hd)) (hother d (Or.inr hd))
    · intro x hx; simp at hx
  · -- a new child
    intro a c s' k ms nf op pc st pa an ha h1 hp hA D above hti hfit hroot
    have hno := other_label_new hti h1 hp hA
    have hpiece := fit_new hti ha hfit hno
    have hl := ((tiR_mk ..).mp hti).1
    have hleaf := resid_leaf (m := m) (rm := rm) hpiece
    have hst : ∀ x ∈ belowList st, x.1 ≠ textToks (c :: s') :=
      ne_belowList (fun d hd => ne_child hti (Or.inl hd) (hno d (Or.inl hd)))
    have hpa : ∀ x ∈ belowOpt pa, x.1 ≠ textToks (c :: s') :=
      ne_belowOpt (fun d hd => ne_child hti (Or.inr (Or.inl hd)) (hno d (Or.inr (Or.inl hd))))
    have han : ∀ x ∈ belowOpt an, x.1 ≠ textToks (c :: s') :=
      ne_belowOpt (fun d hd => ne_child hti (Or.inr (Or.inr hd)) (hno d (Or.inr (Or.inr hd))))
    cases t with
    | static =>
      refine resid_mid (A := ownR ms nf ++ belowList st) (B := belowOpt pa ++ belowOpt an) (Y := [])
        hl.headToks ?_ ?_ (ne_append ne_own hst) (ne_append hpa han) hleaf
      · simp only [kidsR, List.append_assoc, List.nil_append]
      · simp only [kidsR, belowList_append, belowList_cons, belowList_nil, List.append_assoc, List.append_nil]
    | param =>
      have hc : c = ':' := by
        have : c :: s' = [':'] := hpiece
        simp only [List.cons.injEq] at this; exact this.1
      have hpn := hp hc
      subst hpn
      refine resid_mid (A := ownR ms nf ++ belowList st) (B := belowOpt an) (Y := [])
        hl.headToks ?_ ?_ (ne_append ne_own hst) han hleaf
      · simp only [kidsR, belowOpt_none, List.append_assoc, List.nil_append]
      · simp only [kidsR, belowOpt_some, List.append_assoc]
    | any =>
      have hc : c = '*' := by
        have : c :: s' = ['*'] := hpiece
        simp only [List.cons.injEq] at this; exact this.1
      have han' := hA hc
      subst han'
      refine resid_mid (A := ownR ms nf ++ (belowList st ++ belowOpt pa)) (B := []) (Y := [])
        hl.headToks ?_ ?_ (ne_append ne_own (ne_append hst hpa)) (by intro x hx; simp at hx) hleaf
      · simp only [kidsR, belowOpt_none, List.append_assoc, List.append_nil]
      · simp only [kidsR, belowOpt_some, List.append_assoc, List.append_nil]
  · -- the node exists
    intro k p ms nf op pc st pa an hp D above hti hfit hroot
    have hl := ((tiR_mk ..).mp hti).1
    exact resid_withRec hl.noNf hl.headToks (kids_ne_nil hti)

end Router.Tree
