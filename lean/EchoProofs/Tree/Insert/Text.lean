import EchoProofs.Tree.Insert.Basic
/-!
# The scan of `Router.insert` against the normalisation of the specification (`normAux`)
-/
set_option linter.unusedSimpArgs false
set_option linter.unusedVariables false
namespace Router.Tree
open Router Router.Spec

theorem normAux_cons (f : Nat) (c : Char) (rest : Str) :
    normAux (f + 1) (c :: rest) =
      if c = '\\' ∧ rest.head? = some ':' then (.lit ':' :: (normAux f rest.tail).1, (normAux f rest.tail).2)
      else if c = ':' then
        (.param :: (normAux f (rest.dropWhile (· ≠ '/'))).1,
         rest.takeWhile (· ≠ '/') :: (normAux f (rest.dropWhile (· ≠ '/'))).2)
      else if c = '*' then ([.any], ["*".toList])
      else (.lit c :: (normAux f rest).1, (normAux f rest).2) := by
  simp only [normAux]

theorem dropWhile_length_le (p : Char → Bool) (s : Str) : (s.dropWhile p).length ≤ s.length := by
  induction s with
  | nil => simp
  | cons c s ih =>
    simp only [List.dropWhile_cons]
    split
    · simp; omega
    · simp

/-- the fuel of `normAux` is irrelevant once it exceeds the length of the text -/
theorem normAux_fuel : ∀ (f f' : Nat) (s : Str), s.length < f → s.length < f' → normAux f s = normAux f' s := by
  intro f
  induction f with
  | zero => intro f' s h; omega
  | succ f ih =>
    intro f' s h h'
    obtain ⟨g, rfl⟩ : ∃ g, f' = g + 1 := ⟨f' - 1, by omega⟩
    cases s with
    | nil => simp [normAux]
    | cons c rest =>
      simp only [List.length_cons] at h h'
      have h1 : rest.tail.length ≤ rest.length := by simp
      have h2 := dropWhile_length_le (· ≠ '/') rest
      rw [normAux_cons, normAux_cons, ih g rest.tail (by omega) (by omega),
        ih g (rest.dropWhile (· ≠ '/')) (by omega) (by omega), ih g rest (by omega) (by omega)]

theorem okPatternAux_cons (f : Nat) (c : Char) (rest : Str) :
    okPatternAux (f + 1) (c :: rest) =
      if c = '\\' ∧ rest.head? = some ':' then false
      else if c = ':' then okPatternAux f (rest.dropWhile (· ≠ '/'))
      else if c = '*' then rest.isEmpty
      else okPatternAux f rest := by
  simp only [okPatternAux]

theorem okPatternAux_fuel : ∀ (f f' : Nat) (s : Str), s.length < f → s.length < f' →
    okPatternAux f s = okPatternAux f' s := by
  intro f
  induction f with
  | zero => intro f' s h; omega
  | succ f ih =>
    intro f' s h h'
    obtain ⟨g, rfl⟩ : ∃ g, f' = g + 1 := ⟨f' - 1, by omega⟩
    cases s with
    | nil => simp [okPatternAux]
    | cons c rest =>
      simp only [List.length_cons] at h h'
      have h2 := dropWhile_length_le (· ≠ '/') rest
      rw [okPatternAux_cons, okPatternAux_cons,
        ih g (rest.dropWhile (· ≠ '/')) (by omega) (by omega), ih g rest (by omega) (by omega)]

/-- `normAux` / `okPatternAux` with just enough fuel -/
def NA (s : Str) : List Tok × List Str := normAux (s.length + 1) s
def OK (s : Str) : Bool := okPatternAux (s.length + 1) s

theorem NA_nil : NA [] = ([], []) := by simp [NA, normAux]

theorem NA_cons (c : Char) (rest : Str) :
    NA (c :: rest) =
      if c = '\\' ∧ rest.head? = some ':' then (.lit ':' :: (NA rest.tail).1, (NA rest.tail).2)
      else if c = ':' then
        (.param :: (NA (rest.dropWhile (· ≠ '/'))).1,
         rest.takeWhile (· ≠ '/') :: (NA (rest.dropWhile (· ≠ '/'))).2)
      else if c = '*' then ([.any], ["*".toList])
      else (.lit c :: (NA rest).1, (NA rest).2) := by
  unfold NA
  have h1 : rest.tail.length ≤ rest.length := by simp
  have h2 := dropWhile_length_le (· ≠ '/') rest
  simp only [List.length_cons]
  rw [normAux_cons, normAux_fuel (rest.length + 1) (rest.tail.length + 1) rest.tail (by omega) (by omega),
    normAux_fuel (rest.length + 1) ((rest.dropWhile (· ≠ '/')).length + 1) (rest.dropWhile (· ≠ '/'))
      (by omega) (by omega)]

theorem OK_cons (c : Char) (rest : Str) :
    OK (c :: rest) =
      if c = '\\' ∧ rest.head? = some ':' then false
      else if c = ':' then OK (rest.dropWhile (· ≠ '/'))
      else if c = '*' then rest.isEmpty
      else OK rest := by
  unfold OK
  have h2 := dropWhile_length_le (· ≠ '/') rest
  simp only [List.length_cons]
  rw [okPatternAux_cons,
    okPatternAux_fuel (rest.length + 1) ((rest.dropWhile (· ≠ '/')).length + 1) (rest.dropWhile (· ≠ '/'))
      (by omega) (by omega)]

/-- one parameter name per marker -/
theorem normAux_names : ∀ (f : Nat) (s : Str), (normAux f s).2.length = arity (normAux f s).1 := by
  intro f
  induction f with
  | zero => intro s; simp [normAux, arity]
  | succ f ih =>
    intro s
    cases s with
    | nil => simp [normAux, arity]
    | cons c rest =>
      rw [normAux_cons]
      split
      · simp only [arity]; exact ih _
      · split
        · simp only [arity, List.length_cons]; rw [ih]
        · split
          · simp [arity]
          · simp only [arity]; exact ih _

theorem normalizeSlash_idem (p : Str) : normalizeSlash (normalizeSlash p) = normalizeSlash p := by
  unfold normalizeSlash
  cases p with
  | nil => simp
  | cons c r =>
    by_cases h : c = '/'
    · simp [h]
    · simp [h]

theorem normalizeSlash_head (p : Str) : ∃ r, normalizeSlash p = '/' :: r := by
  unfold normalizeSlash
  cases p with
  | nil => exact ⟨[], rfl⟩
  | cons c r =>
    by_cases h : c = '/'
    · exact ⟨r, by simp [h]⟩
    · exact ⟨c :: r, by simp [h]⟩

theorem norm_eq_NA (p : Str) : norm p = NA (normalizeSlash p) := rfl

theorem norm_normalizeSlash (p : Str) : norm (normalizeSlash p) = norm p := by
  unfold norm; rw [normalizeSlash_idem]

theorem okPattern_eq_OK (p : Str) : okPattern p = OK (normalizeSlash p) := rfl

theorem dropWhile_head (s : Str) (d : Char) (r : Str) (h : s.dropWhile (· ≠ '/') = d :: r) : d = '/' := by
  induction s with
  | nil => simp at h
  | cons c s ih =>
    simp only [List.dropWhile_cons] at h
    split at h
    · exact ih h
    · rename_i hc
      simp only [List.cons.injEq] at h
      rw [← h.1]
      simpa using hc

end Router.Tree
