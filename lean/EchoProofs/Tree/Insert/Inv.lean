import EchoProofs.Tree.Insert.Paths
/-!
# Insertion into the radix tree preserves the relaxed invariant
-/
set_option linter.unusedSimpArgs false
set_option linter.unusedVariables false
namespace Router.Tree
open Router Router.Spec

/-- the text `s` inserted below `n` as a node of kind `t` fits: everything before the last piece is
    already a node boundary, so only the last piece can become a new node -/
def Fit (t : Kind) (s : Str) (n : Node) : Prop :=
  ∃ u v, s = u ++ v ∧ Piece t v ∧ (u = [] ∨ u ∈ bounds n)

theorem withRec_kind (m rm k pre ms nf op pc st pa an) : (withRec m rm k pre ms nf op pc st pa an).kind = k := by
  cases rm <;> rfl
theorem withRec_pre (m rm k pre ms nf op pc st pa an) : (withRec m rm k pre ms nf op pc st pa an).pre = pre := by
  cases rm <;> rfl
theorem withRec_label (m rm k pre ms nf op pc st pa an) :
    (withRec m rm k pre ms nf op pc st pa an).label = pre.head? := by
  cases rm <;> rfl

theorem head?_append_of_ne_nil {a b : Str} (h : a ≠ []) : (a ++ b).head? = a.head? := by
  cases a with
  | nil => exact absurd rfl h
  | cons _ _ => rfl

/-- the label of the node after an insertion is the first byte of the inserted text -/
theorem insertAt_label (m : Str) (t : Kind) (rm : Option RouteMethod) (s : Str) (n : Node) :
    (insertAt m s t rm n).label = s.head? := by
  refine insertAt_cases m t rm (fun s _ r => r.label = s.head?) ?_ ?_ ?_ ?_ ?_ ?_ ?_ ?_ s n
  · intros; exact withRec_label ..
  · intros; exact withRec_label ..
  · intro a x s' y p' k ms nf op pc st pa an ha _
    simp only [Node.label, Node.pre]; exact (head?_append_of_ne_nil ha).symm
  · intro a c s' k ms nf op pc st1 ch st2 pa an ha _ _ _
    simp only [Node.label, Node.pre]; exact (head?_append_of_ne_nil ha).symm
  · intro a s' k ms nf op pc st ch an ha _ _
    simp only [Node.label, Node.pre]; exact (head?_append_of_ne_nil ha).symm
  · intro a s' k ms nf op pc st pa ch ha _ _
    simp only [Node.label, Node.pre]; exact (head?_append_of_ne_nil ha).symm
  · intro a c s' k ms nf op pc st pa an ha _ _ _
    cases t <;> (simp only [Node.label, Node.pre]; exact (head?_append_of_ne_nil ha).symm)
  · intros; exact withRec_label ..

/-! ### `StarLast` -/

theorem starLast_drop {a r : Str} (h : StarLast (a ++ r)) : StarLast r := by
  intro a' b hb
  exact h (a ++ a') b (by rw [hb]; simp)

theorem starLast_not {c : Char} {s' : Str} (h : StarLast ('*' :: c :: s')) : False := by
  have := h [] (c :: s') rfl
  cases this

/-! ### records -/

theorem noNfKey_addMethod {ms : List (Str × RouteMethod)} {nf : Option RouteMethod} (m : Str) (r : RouteMethod)
    (h : NoNfKey ms) : NoNfKey (addMethod ms nf m r).1 := by
  unfold addMethod
  by_cases hm : m = routeNotFound
  · simpa [hm] using h
  · simp only [hm, if_false]
    intro x hx
    rcases List.mem_append.mp hx with hx | hx
    · exact h x (List.mem_filter.mp hx).1
    · simp only [List.mem_singleton] at hx
      rw [hx]; exact hm

theorem mem_addMethod {ms : List (Str × RouteMethod)} {nf : Option RouteMethod} {m : Str} {r : RouteMethod}
    {x : Str × RouteMethod} (hx : x ∈ (addMethod ms nf m r).1) : x ∈ ms ∨ x.2 = r := by
  unfold addMethod at hx
  by_cases hm : m = routeNotFound
  · simp only [hm, if_true] at hx; exact Or.inl hx
  · simp only [hm, if_false] at hx
    rcases List.mem_append.mp hx with hx | hx
    · exact Or.inl (List.mem_filter.mp hx).1
    · simp only [List.mem_singleton] at hx
      rw [hx]; exact Or.inr rfl

theorem nf_addMethod {ms : List (Str × RouteMethod)} {nf : Option RouteMethod} {m : Str} {r r' : RouteMethod}
    (h : (addMethod ms nf m r).2 = some r') : nf = some r' ∨ r' = r := by
  unfold addMethod at h
  by_cases hm : m = routeNotFound
  · simp only [hm, if_true, Option.some.injEq] at h; exact Or.inr h.symm
  · simp only [hm, if_false] at h; exact Or.inl h

/-- writing a record into a node keeps the invariant when the record belongs there -/
theorem tiR_withRec {D : Nat} {above : List Tok} {m : Str} {rm : Option RouteMethod} {k pre ms nf op pc st pa an}
    (h : tiR D above (.mk k pre ms nf op pc st pa an))
    (hrec : ∀ r, rm = some r → (norm r.ppath).1 = above ++ textToks pre
      ∧ r.pnames.length = arity (above ++ textToks pre)) :
    tiR D above (withRec m rm k pre ms nf op pc st pa an) := by
  cases rm with
  | none => exact h
  | some r =>
    obtain ⟨hr1, hr2⟩ := hrec r rfl
    obtain ⟨hl, hS, hP, hA⟩ := (tiR_mk ..).mp h
    simp only [withRec]
    refine (tiR_mk ..).mpr ⟨?_, hS, hP, hA⟩
    refine ⟨hl.depth, hl.kS, hl.kP, ?_, noNfKey_addMethod m r hl.noNf, ?_, ?_, hl.distinct, hl.stK, hl.paK, hl.anK⟩
    · intro hk
      obtain ⟨h1, h2, h3, h4, _⟩ := hl.kA hk
      exact ⟨h1, h2, h3, h4, hr2⟩
    · intro x hx
      rcases mem_addMethod hx with hx | hx
      · exact hl.recs x hx
      · rw [hx]; exact ⟨hr1, hr2⟩
    · intro r' hr'
      rcases nf_addMethod hr' with hr' | hr'
      · exact hl.nfRec r' hr'
      · rw [hr']; exact ⟨hr1, hr2⟩

/-- a fresh leaf -/
theorem tiR_leaf {D : Nat} {above : List Tok} {m : Str} {rm : Option RouteMethod} {t : Kind} {x : Str}
    (hp : Piece t x) (hD : arity (above ++ textToks x) ≤ D)
    (hrec : ∀ r, rm = some r → (norm r.ppath).1 = above ++ textToks x
      ∧ r.pnames.length = arity (above ++ textToks x))
    (hany : t = .any → rm ≠ none) :
    tiR D above (withRec m rm t x [] none [] 0 [] none none) := by
  cases rm with
  | none =>
    simp only [withRec]
    refine (tiR_mk ..).mpr ⟨?_, by rw [tiRL]; trivial, by rw [tiRO]; trivial, by rw [tiRO]; trivial⟩
    refine ⟨hD, ?_, ?_, ?_, ?_, ?_, ?_, rfl, ?_, ?_, ?_⟩
    · intro hk; subst hk; exact hp
    · intro hk; subst hk; exact hp
    · intro hk; exact absurd rfl (hany hk)
    · intro x hx; simp at hx
    · intro x hx; simp at hx
    · intro r hr; simp at hr
    · intro c hc; simp at hc
    · intro c hc; simp at hc
    · intro c hc; simp at hc
  | some r =>
    obtain ⟨hr1, hr2⟩ := hrec r rfl
    simp only [withRec]
    refine (tiR_mk ..).mpr ⟨?_, by rw [tiRL]; trivial, by rw [tiRO]; trivial, by rw [tiRO]; trivial⟩
    refine ⟨hD, ?_, ?_, ?_, noNfKey_addMethod m r (by intro x hx; simp at hx), ?_, ?_, rfl, ?_, ?_, ?_⟩
    · intro hk; subst hk; exact hp
    · intro hk; subst hk; exact hp
    · intro hk; subst hk; exact ⟨hp, rfl, rfl, rfl, hr2⟩
    · intro x hx
      rcases mem_addMethod hx with hx | hx
      · simp at hx
      · rw [hx]; exact ⟨hr1, hr2⟩
    · intro r' hr'
      rcases nf_addMethod hr' with hr' | hr'
      · simp at hr'
      · rw [hr']; exact ⟨hr1, hr2⟩
    · intro c hc; simp at hc
    · intro c hc; simp at hc
    · intro c hc; simp at hc

/-- the lower half of a split static node -/
theorem tiR_shift {D : Nat} {above : List Tok} {a p2 : Str} {ms nf op pc st pa an}
    (h : tiR D above (.mk .static (a ++ p2) ms nf op pc st pa an)) :
    tiR D (above ++ textToks a) (.mk .static p2 ms nf op pc st pa an) := by
  obtain ⟨hl, hS, hP, hA⟩ := (tiR_mk ..).mp h
  have he : above ++ textToks (a ++ p2) = above ++ textToks a ++ textToks p2 := by simp
  rw [he] at hl hS hP hA
  refine (tiR_mk ..).mpr ⟨?_, hS, hP, hA⟩
  exact ⟨hl.depth, fun _ => (clean_append.mp (hl.kS rfl)).2, (fun hk => nomatch hk), (fun hk => nomatch hk),
    hl.noNf, hl.recs, hl.nfRec, hl.distinct, hl.stK, hl.paK, hl.anK⟩

/-! ### how `Fit` travels down the tree -/

theorem piece_drop {t : Kind} {a : Str} {c : Char} {s' : Str} (ha : a ≠ []) (h : Piece t (a ++ c :: s')) :
    Piece t (c :: s') := by
  cases t with
  | static => exact (clean_append.mp h).2
  | param =>
    have hl := congrArg List.length (show a ++ c :: s' = [':'] from h)
    cases a with
    | nil => exact absurd rfl ha
    | cons _ _ => simp at hl
  | any =>
    have hl := congrArg List.length (show a ++ c :: s' = ['*'] from h)
    cases a with
    | nil => exact absurd rfl ha
    | cons _ _ => simp at hl

theorem fit_cases {t : Kind} {a : Str} {c : Char} {s' : Str} {k ms nf op pc st pa an} (ha : a ≠ [])
    (h : Fit t (a ++ c :: s') (.mk k a ms nf op pc st pa an)) :
    Piece t (c :: s') ∨ ∃ d, IsChild d st pa an ∧ ∃ y v, y ∈ bounds d ∧ c :: s' = y ++ v ∧ Piece t v := by
  obtain ⟨u, v, hs, hp, hu⟩ := h
  rcases hu with hu | hu
  · subst hu
    simp only [List.nil_append] at hs
    rw [← hs] at hp
    exact Or.inl (piece_drop ha hp)
  · rcases mem_bounds_mk.mp hu with hu | ⟨d, hd, y, hy, hu⟩
    · subst hu
      have := List.append_cancel_left hs
      rw [← this] at hp
      exact Or.inl hp
    · subst hu
      rw [List.append_assoc] at hs
      exact Or.inr ⟨d, hd, y, v, hy, List.append_cancel_left hs, hp⟩

theorem fit_label {D : Nat} {above : List Tok} {k a ms nf op pc st pa an} {d : Node} {y v : Str} {c : Char}
    {s' : Str} (h : tiR D above (.mk k a ms nf op pc st pa an)) (hd : IsChild d st pa an) (hy : y ∈ bounds d)
    (he : c :: s' = y ++ v) : d.label = some c := by
  obtain ⟨z, hz⟩ := bounds_prefix hy
  have hne := child_pre_ne h hd
  cases hp : d.pre with
  | nil => exact absurd hp hne
  | cons e r =>
    rw [hz, hp] at he
    simp only [List.cons_append, List.cons.injEq] at he
    rw [label_of_pre hp, he.1]

theorem fit_desc {D : Nat} {above : List Tok} {t : Kind} {a : Str} {c : Char} {s' : Str} {k ms nf op pc st pa an}
    {ch : Node} (hti : tiR D above (.mk k a ms nf op pc st pa an)) (ha : a ≠ [])
    (h : Fit t (a ++ c :: s') (.mk k a ms nf op pc st pa an))
    (hsel : ∀ d, IsChild d st pa an → d = ch ∨ d.label ≠ some c) : Fit t (c :: s') ch := by
  rcases fit_cases ha h with hp | ⟨d, hd, y, v, hy, he, hp⟩
  · exact ⟨[], c :: s', rfl, hp, Or.inl rfl⟩
  · rcases hsel d hd with hd' | hd'
    · subst hd'; exact ⟨y, v, he, hp, Or.inr hy⟩
    · exact absurd (fit_label hti hd hy he) hd'

theorem fit_new {D : Nat} {above : List Tok} {t : Kind} {a : Str} {c : Char} {s' : Str} {k ms nf op pc st pa an}
    (hti : tiR D above (.mk k a ms nf op pc st pa an)) (ha : a ≠ [])
    (h : Fit t (a ++ c :: s') (.mk k a ms nf op pc st pa an))
    (hno : ∀ d, IsChild d st pa an → d.label ≠ some c) : Piece t (c :: s') := by
  rcases fit_cases ha h with hp | ⟨d, hd, y, v, hy, he, hp⟩
  · exact hp
  · exact absurd (fit_label hti hd hy he) (hno d hd)

theorem prefix_singleton {a : Str} {c : Char} (ha : a ≠ []) (h : a <+: [c]) : a = [c] := by
  cases a with
  | nil => exact absurd rfl ha
  | cons x xs =>
    simp only [List.cons_prefix_cons, List.prefix_nil] at h
    rw [h.1, h.2]

/-- in the split cases the new text is static text without markers, and so is the split node -/
theorem fit_split {D : Nat} {above : List Tok} {t : Kind} {a : Str} {y : Char} {p' s : Str} {k ms nf op pc st pa an}
    (hti : tiR D above (.mk k (a ++ y :: p') ms nf op pc st pa an)) (ha : a ≠ [])
    (h : Fit t s (.mk k (a ++ y :: p') ms nf op pc st pa an)) (hpre : a <+: s)
    (hnp : ¬ (a ++ y :: p') <+: s) : t = .static ∧ k = .static ∧ Clean s := by
  have hl := ((tiR_mk ..).mp hti).1
  have hlen : 2 ≤ (a ++ y :: p').length := by
    cases a with
    | nil => exact absurd rfl ha
    | cons _ _ => simp; omega
  have hk : k = .static := by
    cases k with
    | static => rfl
    | param => have := hl.kP rfl; rw [this] at hlen; simp at hlen
    | any => have := (hl.kA rfl).1; rw [this] at hlen; simp at hlen
  subst hk
  have hcl := hl.kS rfl
  obtain ⟨u, v, hs, hp, hu⟩ := h
  rcases hu with hu | hu
  · subst hu
    simp only [List.nil_append] at hs
    subst hs
    have hbad : ∀ e, s = [e] → (e = ':' ∨ e = '*') → False := by
      intro e hv he
      rw [hv] at hpre
      have hae := prefix_singleton ha hpre
      rw [hae] at hcl
      have := (clean_cons.mp hcl).1
      rcases he with he | he
      · exact this.1 he
      · exact this.2 he
    cases t with
    | static => exact ⟨rfl, rfl, hp⟩
    | param => exact (hbad ':' hp (Or.inl rfl)).elim
    | any => exact (hbad '*' hp (Or.inr rfl)).elim
  · obtain ⟨z, hz⟩ := bounds_prefix hu
    exfalso
    apply hnp
    rw [hs, hz]
    simp only [Node.pre]
    rw [List.append_assoc (a ++ y :: p')]
    exact List.prefix_append _ _

/-- the upper half of a split node -/
theorem tiR_splitNode {D : Nat} {above : List Tok} {a : Str} {kids : List Node}
    (hD : arity (above ++ textToks a) ≤ D) (hcl : Clean a) (hdist : labelsDistinct kids = true)
    (hk : ∀ c ∈ kids, c.kind = .static ∧ c.pre ≠ [] ∧ tiR D (above ++ textToks a) c) :
    tiR D above (.mk .static a [] none [] 0 kids none none) := by
  refine (tiR_mk ..).mpr ⟨?_, ?_, by rw [tiRO]; trivial, by rw [tiRO]; trivial⟩
  · refine ⟨hD, fun _ => hcl, (fun h => nomatch h), (fun h => nomatch h), ?_, ?_, ?_, hdist, ?_, ?_, ?_⟩
    · intro x hx; simp at hx
    · intro x hx; simp at hx
    · intro r hr; simp at hr
    · intro c hc; exact ⟨(hk c hc).1, (hk c hc).2.1⟩
    · intro c hc; simp at hc
    · intro c hc; simp at hc
  · rw [tiRL_iff]; intro c hc; exact (hk c hc).2.2

/-- **`insertAt` preserves the relaxed invariant** (and the kind of the node it is applied to) -/
theorem insertAt_tiR (m : Str) (t : Kind) (rm : Option RouteMethod) (s : Str) (n : Node) :
    ∀ (D : Nat) (above : List Tok), tiR D above n → Fit t s n → StarLast s →
      (∀ r, rm = some r → (norm r.ppath).1 = above ++ textToks s
        ∧ r.pnames.length = arity (above ++ textToks s)) →
      arity (above ++ textToks s) ≤ D → (t = .any → rm ≠ none) →
      (lcp s n.pre = 0 → n = emptyTree ∧ t = .static) →
      tiR D above (insertAt m s t rm n) ∧ (insertAt m s t rm n).kind = n.kind := by
  refine insertAt_cases m t rm (fun s n r => ∀ (D : Nat) (above : List Tok), tiR D above n → Fit t s n →
      StarLast s →
      (∀ r, rm = some r → (norm r.ppath).1 = above ++ textToks s
        ∧ r.pnames.length = arity (above ++ textToks s)) →
      arity (above ++ textToks s) ≤ D → (t = .any → rm ≠ none) →
      (lcp s n.pre = 0 → n = emptyTree ∧ t = .static) →
      tiR D above r ∧ r.kind = n.kind) ?_ ?_ ?_ ?_ ?_ ?_ ?_ ?_ s n
  · -- take-over of the empty root
    intro s k p ms nf op pc st pa an h0 D above hti hfit hstar hrec hD hany hroot
    obtain ⟨hn, ht⟩ := hroot h0
    simp only [emptyTree, Node.mk.injEq] at hn
    obtain ⟨rfl, rfl, rfl, rfl, rfl, rfl, rfl, rfl, rfl⟩ := hn
    subst ht
    have hcl : Clean s := by
      obtain ⟨u, v, hs, hp, hu⟩ := hfit
      have hu' : u = [] := by
        rcases hu with hu | hu
        · exact hu
        · rcases mem_bounds_mk.mp hu with hu | ⟨d, hd, _⟩
          · exact hu
          · simp [IsChild] at hd
      subst hu'
      simp only [List.nil_append] at hs
      rw [hs]; exact hp
    have hk : (if rm.isSome = true then Kind.static else Kind.static) = .static := by split <;> rfl
    rw [hk]
    exact ⟨tiR_leaf (t := .static) hcl hD hrec hany, withRec_kind ..⟩
  · -- split, the new text ends at the split point
    intro a y p' k ms nf op pc st pa an ha D above hti hfit hstar hrec hD hany hroot
    obtain ⟨ht, hk, hcl⟩ := fit_split hti ha hfit (List.prefix_refl a) (not_prefix_self_app (by simp))
    subst ht hk
    refine ⟨tiR_withRec ?_ hrec, withRec_kind ..⟩
    refine tiR_splitNode hD hcl (labelsDistinct_single _) ?_
    intro c hc
    simp only [List.mem_singleton] at hc
    subst hc
    exact ⟨rfl, by simp [Node.pre], tiR_shift hti⟩
  · -- split with a new branch
    intro a x s' y p' k ms nf op pc st pa an ha hne D above hti hfit hstar hrec hD hany hroot
    obtain ⟨ht, hk, hcl⟩ := fit_split hti ha hfit (List.prefix_append a _)
      (not_prefix_app (fun h => hne (List.cons_prefix_cons.mp h).1.symm))
    subst ht hk
    have he : above ++ textToks (a ++ x :: s') = above ++ textToks a ++ textToks (x :: s') := by simp
    rw [he] at hD hrec
    refine ⟨?_, rfl⟩
    refine tiR_splitNode (Nat.le_trans (arity_le_append _ _) hD) (clean_append.mp hcl).1 ?_ ?_
    · apply labelsDistinct_pair
      rw [withRec_label]
      simp only [Node.label, Node.pre, List.head?_cons, ne_eq, Option.some.injEq]
      exact fun h => hne h.symm
    · intro c hc
      simp only [List.mem_cons, List.not_mem_nil, or_false] at hc
      rcases hc with hc | hc
      · subst hc; exact ⟨rfl, by simp [Node.pre], tiR_shift hti⟩
      · subst hc
        exact ⟨withRec_kind .., by rw [withRec_pre]; simp,
          tiR_leaf (t := .static) (clean_append.mp hcl).2 hD hrec hany⟩
  · -- descend into a static child
    intro a c s' k ms nf op pc st1 ch st2 pa an ha hch h1 ih D above hti hfit hstar hrec hD hany hroot
    have hother := other_label_S hti hch h1
    have hchild : IsChild ch (st1 ++ ch :: st2) pa an := Or.inl (by simp)
    have hsel : ∀ d, IsChild d (st1 ++ ch :: st2) pa an → d = ch ∨ d.label ≠ some c := by
      intro d hd
      simp only [IsChild, List.mem_append, List.mem_cons] at hd
      rcases hd with (hd | hd | hd) | hd | hd
      · exact Or.inr (hother d (Or.inl hd))
      · exact Or.inl hd
      · exact Or.inr (hother d (Or.inr (Or.inl hd)))
      · exact Or.inr (hother d (Or.inr (Or.inr (Or.inl hd))))
      · exact Or.inr (hother d (Or.inr (Or.inr (Or.inr hd))))
    have he : above ++ textToks (a ++ c :: s') = above ++ textToks a ++ textToks (c :: s') := by simp
    rw [he] at hD hrec
    obtain ⟨ih1, ih2⟩ := ih D (above ++ textToks a) (tiR_child hti hchild) (fit_desc hti ha hfit hsel)
      (starLast_drop hstar) hrec hD hany (fun h0 => absurd h0 (lcp_ne_zero_of_label hch))
    obtain ⟨hl, hS, hP, hA⟩ := (tiR_mk ..).mp hti
    have hlab : (insertAt m (c :: s') t rm ch).label = ch.label := by rw [insertAt_label, hch]; rfl
    refine ⟨(tiR_mk ..).mpr ⟨?_, ?_, hP, hA⟩, rfl⟩
    · refine ⟨hl.depth, hl.kS, hl.kP, ?_, hl.noNf, hl.recs, hl.nfRec, labelsDistinct_replace hlab hl.distinct, ?_,
        hl.paK, hl.anK⟩
      · intro hk; have := (hl.kA hk).2.1; simp at this
      · intro d hd
        simp only [List.mem_append, List.mem_cons] at hd
        rcases hd with hd | hd | hd
        · exact hl.stK d (by simp [hd])
        · subst hd
          refine ⟨by rw [ih2]; exact (hl.stK ch (by simp)).1, ?_⟩
          obtain ⟨r, hr⟩ := pre_of_label (hlab.trans hch)
          rw [hr]; simp
        · exact hl.stK d (by simp [hd])
    · rw [tiRL_iff] at hS ⊢
      intro d hd
      simp only [List.mem_append, List.mem_cons] at hd
      rcases hd with hd | hd | hd
      · exact hS d (by simp [hd])
      · subst hd; exact ih1
      · exact hS d (by simp [hd])
  · -- descend into the param child
    intro a s' k ms nf op pc st ch an ha h1 ih D above hti hfit hstar hrec hD hany hroot
    have hother := other_label_P hti h1
    have hchild : IsChild ch st (some ch) an := Or.inr (Or.inl rfl)
    have hch := child_param_label hti (c := ch) rfl
    have hsel : ∀ d, IsChild d st (some ch) an → d = ch ∨ d.label ≠ some ':' := by
      intro d hd
      simp only [IsChild, Option.some.injEq] at hd
      rcases hd with hd | hd | hd
      · exact Or.inr (hother d (Or.inl hd))
      · exact Or.inl hd.symm
      · exact Or.inr (hother d (Or.inr hd))
    have he : above ++ textToks (a ++ ':' :: s') = above ++ textToks a ++ textToks (':' :: s') := by simp
    rw [he] at hD hrec
    obtain ⟨ih1, ih2⟩ := ih D (above ++ textToks a) (tiR_child hti hchild) (fit_desc hti ha hfit hsel)
      (starLast_drop hstar) hrec hD hany (fun h0 => absurd h0 (lcp_ne_zero_of_label hch))
    obtain ⟨hl, hS, hP, hA⟩ := (tiR_mk ..).mp hti
    refine ⟨(tiR_mk ..).mpr ⟨?_, hS, ?_, hA⟩, rfl⟩
    · refine ⟨hl.depth, hl.kS, hl.kP, ?_, hl.noNf, hl.recs, hl.nfRec, hl.distinct, hl.stK, ?_, hl.anK⟩
      · intro hk; have := (hl.kA hk).2.2.1; simp at this
      · intro d hd
        simp only [Option.some.injEq] at hd
        subst hd
        rw [ih2]; exact hl.paK ch rfl
    · rw [tiRO]; exact ih1
  · -- descend into the any child
    intro a s' k ms nf op pc st pa ch ha h1 ih D above hti hfit hstar hrec hD hany hroot
    have hother := other_label_A hti h1
    have hchild : IsChild ch st pa (some ch) := Or.inr (Or.inr rfl)
    have hch := child_any_label hti (c := ch) rfl
    have hsel : ∀ d, IsChild d st pa (some ch) → d = ch ∨ d.label ≠ some '*' := by
      intro d hd
      simp only [IsChild, Option.some.injEq] at hd
      rcases hd with hd | hd | hd
      · exact Or.inr (hother d (Or.inl hd))
      · exact Or.inr (hother d (Or.inr hd))
      · exact Or.inl hd.symm
    have he : above ++ textToks (a ++ '*' :: s') = above ++ textToks a ++ textToks ('*' :: s') := by simp
    rw [he] at hD hrec
    obtain ⟨ih1, ih2⟩ := ih D (above ++ textToks a) (tiR_child hti hchild) (fit_desc hti ha hfit hsel)
      (starLast_drop hstar) hrec hD hany (fun h0 => absurd h0 (lcp_ne_zero_of_label hch))
    obtain ⟨hl, hS, hP, hA⟩ := (tiR_mk ..).mp hti
    refine ⟨(tiR_mk ..).mpr ⟨?_, hS, hP, ?_⟩, rfl⟩
    · refine ⟨hl.depth, hl.kS, hl.kP, ?_, hl.noNf, hl.recs, hl.nfRec, hl.distinct, hl.stK, hl.paK, ?_⟩
      · intro hk; have := (hl.kA hk).2.2.2.1; simp at this
      · intro d hd
        simp only [Option.some.injEq] at hd
        subst hd
        rw [ih2]; exact hl.anK ch rfl
    · rw [tiRO]; exact ih1
  · -- a new child
    intro a c s' k ms nf op pc st pa an ha h1 hp hA D above hti hfit hstar hrec hD hany hroot
    have hno := other_label_new hti h1 hp hA
    have hpiece := fit_new hti ha hfit hno
    obtain ⟨hl, hS, hP, hAn⟩ := (tiR_mk ..).mp hti
    have hkA : k ≠ .any := by
      intro hk
      have := (hl.kA hk).1
      subst this
      exact starLast_not hstar
    have he : above ++ textToks (a ++ c :: s') = above ++ textToks a ++ textToks (c :: s') := by simp
    rw [he] at hD hrec
    have hleaf := tiR_leaf (m := m) hpiece hD hrec hany
    cases t with
    | static =>
      refine ⟨(tiR_mk ..).mpr ⟨?_, ?_, hP, hAn⟩, rfl⟩
      · refine ⟨hl.depth, hl.kS, hl.kP, fun hk => absurd hk hkA, hl.noNf, hl.recs, hl.nfRec, ?_, ?_, hl.paK, hl.anK⟩
        · apply labelsDistinct_snoc hl.distinct
          intro x hx
          rw [withRec_label]; exact h1 x hx
        · intro d hd
          simp only [List.mem_append, List.mem_singleton] at hd
          rcases hd with hd | hd
          · exact hl.stK d hd
          · subst hd; exact ⟨withRec_kind .., by rw [withRec_pre]; simp⟩
      · rw [tiRL_iff] at hS ⊢
        intro d hd
        simp only [List.mem_append, List.mem_singleton] at hd
        rcases hd with hd | hd
        · exact hS d hd
        · subst hd; exact hleaf
    | param =>
      refine ⟨(tiR_mk ..).mpr ⟨?_, hS, ?_, hAn⟩, rfl⟩
      · refine ⟨hl.depth, hl.kS, hl.kP, fun hk => absurd hk hkA, hl.noNf, hl.recs, hl.nfRec, hl.distinct, hl.stK,
          ?_, hl.anK⟩
        intro d hd
        simp only [Option.some.injEq] at hd
        subst hd; exact withRec_kind ..
      · rw [tiRO]; exact hleaf
    | any =>
      refine ⟨(tiR_mk ..).mpr ⟨?_, hS, hP, ?_⟩, rfl⟩
      · refine ⟨hl.depth, hl.kS, hl.kP, fun hk => absurd hk hkA, hl.noNf, hl.recs, hl.nfRec, hl.distinct, hl.stK,
          hl.paK, ?_⟩
        intro d hd
        simp only [Option.some.injEq] at hd
        subst hd; exact withRec_kind ..
      · rw [tiRO]; exact hleaf
  · -- the node exists
    intro k p ms nf op pc st pa an hp D above hti hfit hstar hrec hD hany hroot
    exact ⟨tiR_withRec hti hrec, withRec_kind ..⟩

end Router.Tree
