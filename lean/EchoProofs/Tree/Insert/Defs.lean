import EchoProofs.Tree.Below
import EchoProofs.Tree.Refine
/-!
# Insertion into the radix tree: definitions and the case principle of `insertAt`
-/
namespace Router.Tree
open Router Router.Spec

/-! ### tree text -/

/-- token of one byte of tree text: `:` stands for a parameter, `*` for the wildcard -/
def tokOf (c : Char) : Tok := if c = ':' then .param else if c = '*' then .any else .lit c

def textToks (s : Str) : List Tok := s.map tokOf

/-- text without marker bytes -/
def Clean (s : Str) : Prop := ∀ c ∈ s, c ≠ ':' ∧ c ≠ '*'

/-- the text a new node of kind `k` may carry -/
def Piece : Kind → Str → Prop
  | .static, v => Clean v
  | .param, v => v = [':']
  | .any, v => v = ['*']

/-- `*` occurs only as the last byte -/
def StarLast (s : Str) : Prop := ∀ a b, s = a ++ '*' :: b → b = []

/-- the node `insertAt` writes a record into -/
def withRec (m : Str) (rm : Option RouteMethod) (k : Kind) (pre : Str) (ms : List (Str × RouteMethod))
    (nf : Option RouteMethod) (op : Str) (pc : Nat) (st : List Node) (pa an : Option Node) : Node :=
  match rm with
  | some r => .mk k pre (addMethod ms nf m r).1 (addMethod ms nf m r).2 r.ppath r.pnames.length st pa an
  | none => .mk k pre ms nf op pc st pa an

theorem newLeaf_eq (t : Kind) (x : Str) (m : Str) (rm : Option RouteMethod) :
    newLeaf t x m rm = withRec m rm t x [] none [] 0 [] none none := by
  cases rm <;> rfl

theorem insertAt_mk (m s : Str) (t : Kind) (rm : Option RouteMethod) (k : Kind) (p : Str)
    (ms : List (Str × RouteMethod)) (nf : Option RouteMethod) (op : Str) (pc : Nat) (st : List Node)
    (pa an : Option Node) :
    insertAt m s t rm (.mk k p ms nf op pc st pa an) =
    if lcp s p = 0 then withRec m rm (if rm.isSome then t else k) s ms nf op pc st pa an
    else if lcp s p < p.length then
      if lcp s p = s.length then
        withRec m rm t (p.take (lcp s p)) [] none [] 0 [.mk k (p.drop (lcp s p)) ms nf op pc st pa an] none none
      else
        .mk .static (p.take (lcp s p)) [] none [] 0
          [.mk k (p.drop (lcp s p)) ms nf op pc st pa an,
           withRec m rm t (s.drop (lcp s p)) [] none [] 0 [] none none] none none
    else if lcp s p < s.length then
      if st.any (fun n => n.label = some ((s.drop (lcp s p)).headD ' ')) then
        .mk k p ms nf op pc (insertList m (s.drop (lcp s p)) t rm st) pa an
      else if (s.drop (lcp s p)).headD ' ' = ':' ∧ pa.isSome then
        .mk k p ms nf op pc st (insertOpt m (s.drop (lcp s p)) t rm pa) an
      else if (s.drop (lcp s p)).headD ' ' = '*' ∧ an.isSome then
        .mk k p ms nf op pc st pa (insertOpt m (s.drop (lcp s p)) t rm an)
      else
        match t with
        | .static => .mk k p ms nf op pc (st ++ [withRec m rm t (s.drop (lcp s p)) [] none [] 0 [] none none]) pa an
        | .param => .mk k p ms nf op pc st (some (withRec m rm t (s.drop (lcp s p)) [] none [] 0 [] none none)) an
        | .any => .mk k p ms nf op pc st pa (some (withRec m rm t (s.drop (lcp s p)) [] none [] 0 [] none none))
    else withRec m rm k p ms nf op pc st pa an := by
  rw [insertAt.eq_def]
  simp only [newLeaf_eq]
  cases rm <;> rfl

/-! ### structural induction over `Node` -/

mutual
theorem node_induct {P : Node → Prop}
    (step : ∀ k pre ms nf op pc st pa an, (∀ c ∈ st, P c) → (∀ c, pa = some c → P c) → (∀ c, an = some c → P c) →
      P (.mk k pre ms nf op pc st pa an)) : (n : Node) → P n
  | .mk k pre ms nf op pc st pa an =>
    step k pre ms nf op pc st pa an (list_induct step st) (opt_induct step pa) (opt_induct step an)
theorem list_induct {P : Node → Prop}
    (step : ∀ k pre ms nf op pc st pa an, (∀ c ∈ st, P c) → (∀ c, pa = some c → P c) → (∀ c, an = some c → P c) →
      P (.mk k pre ms nf op pc st pa an)) : (l : List Node) → ∀ c ∈ l, P c
  | [] => by intro c hc; simp at hc
  | d :: ds => by
    intro c hc
    rcases List.mem_cons.mp hc with heq | hm
    · rw [heq]; exact node_induct step d
    · exact list_induct step ds c hm
theorem opt_induct {P : Node → Prop}
    (step : ∀ k pre ms nf op pc st pa an, (∀ c ∈ st, P c) → (∀ c, pa = some c → P c) → (∀ c, an = some c → P c) →
      P (.mk k pre ms nf op pc st pa an)) : (o : Option Node) → ∀ c, o = some c → P c
  | none => by intro c hc; simp at hc
  | some d => by
    intro c hc
    simp only [Option.some.injEq] at hc
    rw [← hc]; exact node_induct step d
end

/-! ### `lcp` -/

theorem lcp_decomp (s p : Str) : ∃ a s' p', s = a ++ s' ∧ p = a ++ p' ∧ lcp s p = a.length ∧
    (∀ x s'' y p'', s' = x :: s'' → p' = y :: p'' → x ≠ y) := by
  induction s generalizing p with
  | nil => exact ⟨[], [], p, rfl, rfl, by cases p <;> simp [lcp], by intros; simp_all⟩
  | cons a as ih =>
    cases p with
    | nil => exact ⟨[], a :: as, [], rfl, rfl, by simp [lcp], by intros; simp_all⟩
    | cons b bs =>
      by_cases hab : a = b
      · subst hab
        obtain ⟨c, s', p', h1, h2, h3, h4⟩ := ih bs
        refine ⟨a :: c, s', p', by rw [h1]; rfl, by rw [h2]; rfl, ?_, h4⟩
        simp [lcp, h3]
      · refine ⟨[], a :: as, b :: bs, rfl, rfl, by simp [lcp, hab], ?_⟩
        intro x s'' y p'' h1 h2
        simp only [List.cons.injEq] at h1 h2
        rw [← h1.1, ← h2.1]; exact hab

theorem lcp_append_left (a s' p' : Str) : lcp (a ++ s') (a ++ p') = a.length + lcp s' p' := by
  induction a with
  | nil => simp
  | cons c cs ih => simp [lcp, ih]; omega

theorem lcp_cons_ne (x y : Char) (s p : Str) (h : x ≠ y) : lcp (x :: s) (y :: p) = 0 := by
  simp [lcp, h]

theorem lcp_nil_right (s : Str) : lcp s [] = 0 := by cases s <;> simp [lcp]
theorem lcp_nil_left (p : Str) : lcp [] p = 0 := by simp [lcp]

/-! ### the children `insertAt` descends into -/

theorem insertList_nil (m rest : Str) (t : Kind) (rm : Option RouteMethod) : insertList m rest t rm [] = [] := by
  rw [insertList]
theorem insertList_cons (m rest : Str) (t : Kind) (rm : Option RouteMethod) (c : Node) (cs : List Node) :
    insertList m rest t rm (c :: cs) =
      if c.label = rest.head? then insertAt m rest t rm c :: cs else c :: insertList m rest t rm cs := by
  rw [insertList]
theorem insertOpt_some (m rest : Str) (t : Kind) (rm : Option RouteMethod) (c : Node) :
    insertOpt m rest t rm (some c) = some (insertAt m rest t rm c) := by rw [insertOpt]
theorem insertOpt_none (m rest : Str) (t : Kind) (rm : Option RouteMethod) :
    insertOpt m rest t rm none = none := by rw [insertOpt]

theorem insertList_decomp (m rest : Str) (t : Kind) (rm : Option RouteMethod) (c : Char)
    (hh : rest.head? = some c) : ∀ st : List Node, st.any (fun n => n.label = some c) = true →
    ∃ st1 ch st2, st = st1 ++ ch :: st2 ∧ ch.label = some c ∧ (∀ x ∈ st1, x.label ≠ some c) ∧
      insertList m rest t rm st = st1 ++ insertAt m rest t rm ch :: st2 := by
  intro st
  induction st with
  | nil => intro h; simp at h
  | cons d ds ih =>
    intro h
    by_cases hd : d.label = some c
    · refine ⟨[], d, ds, rfl, hd, by simp, ?_⟩
      rw [insertList_cons, hh, if_pos hd]; rfl
    · have h' : ds.any (fun n => n.label = some c) = true := by
        simpa [hd] using h
      obtain ⟨st1, ch, st2, h1, h2, h3, h4⟩ := ih h'
      refine ⟨d :: st1, ch, st2, by rw [h1]; rfl, h2, ?_, ?_⟩
      · intro x hx
        rcases List.mem_cons.mp hx with rfl | hx
        · exact hd
        · exact h3 x hx
      · rw [insertList_cons, hh, if_neg hd, h4]; rfl

/-! ### the case principle of `insertAt` -/

/-- the cases of `insertAt`, with the longest common prefix already split off -/
theorem insertAt_cases (m : Str) (t : Kind) (rm : Option RouteMethod) (P : Str → Node → Node → Prop)
    (takeover : ∀ s k p ms nf op pc st pa an, lcp s p = 0 →
      P s (.mk k p ms nf op pc st pa an) (withRec m rm (if rm.isSome then t else k) s ms nf op pc st pa an))
    (splitAt : ∀ a y p' k ms nf op pc st pa an, a ≠ [] →
      P a (.mk k (a ++ y :: p') ms nf op pc st pa an)
        (withRec m rm t a [] none [] 0 [.mk k (y :: p') ms nf op pc st pa an] none none))
    (splitBr : ∀ a x s' y p' k ms nf op pc st pa an, a ≠ [] → x ≠ y →
      P (a ++ x :: s') (.mk k (a ++ y :: p') ms nf op pc st pa an)
        (.mk .static a [] none [] 0 [.mk k (y :: p') ms nf op pc st pa an,
           withRec m rm t (x :: s') [] none [] 0 [] none none] none none))
    (descS : ∀ a c s' k ms nf op pc st1 ch st2 pa an, a ≠ [] → ch.label = some c →
      (∀ x ∈ st1, x.label ≠ some c) → P (c :: s') ch (insertAt m (c :: s') t rm ch) →
      P (a ++ c :: s') (.mk k a ms nf op pc (st1 ++ ch :: st2) pa an)
        (.mk k a ms nf op pc (st1 ++ insertAt m (c :: s') t rm ch :: st2) pa an))
    (descP : ∀ a s' k ms nf op pc st ch an, a ≠ [] → (∀ x ∈ st, x.label ≠ some ':') →
      P (':' :: s') ch (insertAt m (':' :: s') t rm ch) →
      P (a ++ ':' :: s') (.mk k a ms nf op pc st (some ch) an)
        (.mk k a ms nf op pc st (some (insertAt m (':' :: s') t rm ch)) an))
    (descA : ∀ a s' k ms nf op pc st pa ch, a ≠ [] → (∀ x ∈ st, x.label ≠ some '*') →
      P ('*' :: s') ch (insertAt m ('*' :: s') t rm ch) →
      P (a ++ '*' :: s') (.mk k a ms nf op pc st pa (some ch))
        (.mk k a ms nf op pc st pa (some (insertAt m ('*' :: s') t rm ch))))
    (newC : ∀ a c s' k ms nf op pc st pa an, a ≠ [] → (∀ x ∈ st, x.label ≠ some c) →
      (c = ':' → pa = none) → (c = '*' → an = none) →
      P (a ++ c :: s') (.mk k a ms nf op pc st pa an)
        (match t with
         | .static => .mk k a ms nf op pc (st ++ [withRec m rm t (c :: s') [] none [] 0 [] none none]) pa an
         | .param => .mk k a ms nf op pc st (some (withRec m rm t (c :: s') [] none [] 0 [] none none)) an
         | .any => .mk k a ms nf op pc st pa (some (withRec m rm t (c :: s') [] none [] 0 [] none none))))
    (exact : ∀ k p ms nf op pc st pa an, p ≠ [] →
      P p (.mk k p ms nf op pc st pa an) (withRec m rm k p ms nf op pc st pa an)) :
    ∀ s n, P s n (insertAt m s t rm n) := by
  intro s n
  revert s
  refine node_induct (P := fun n => ∀ s, P s n (insertAt m s t rm n)) ?_ n
  intro k p ms nf op pc st pa an ihS ihP ihA s
  rw [insertAt_mk]
  by_cases h0 : lcp s p = 0
  · rw [if_pos h0]; exact takeover s k p ms nf op pc st pa an h0
  rw [if_neg h0]
  obtain ⟨a, s', p', hs, hp, hl, hne⟩ := lcp_decomp s p
  have ha : a ≠ [] := by
    intro h; rw [h] at hl; exact h0 hl
  rw [hl]
  subst hs hp
  rw [List.take_left' rfl, List.drop_left' rfl, List.drop_left' rfl]
  cases p' with
  | cons y p'' =>
    have h1 : a.length < (a ++ y :: p'').length := by simp
    rw [if_pos h1]
    cases s' with
    | nil =>
      have h2 : a.length = (a ++ ([] : Str)).length := by simp
      rw [if_pos h2]
      simp only [List.append_nil]
      exact splitAt a y p'' k ms nf op pc st pa an ha
    | cons x s'' =>
      have h2 : ¬ a.length = (a ++ x :: s'').length := by simp
      rw [if_neg h2]
      exact splitBr a x s'' y p'' k ms nf op pc st pa an ha (hne x s'' y p'' rfl rfl)
  | nil =>
    have h1 : ¬ a.length < (a ++ ([] : Str)).length := by simp
    rw [if_neg h1]
    simp only [List.append_nil]
    cases s' with
    | nil =>
      have h2 : ¬ a.length < (a ++ ([] : Str)).length := by simp
      rw [if_neg h2]
      simp only [List.append_nil]
      exact exact k a ms nf op pc st pa an ha
    | cons c s'' =>
      have h2 : a.length < (a ++ c :: s'').length := by simp
      rw [if_pos h2]
      rw [show (c :: s'').headD ' ' = c from rfl]
      by_cases hany : st.any (fun n => n.label = some c) = true
      · rw [if_pos hany]
        obtain ⟨st1, ch, st2, e1, e2, e3, e4⟩ := insertList_decomp m (c :: s'') t rm c rfl st hany
        rw [e4, e1]
        exact descS a c s'' k ms nf op pc st1 ch st2 pa an ha e2 e3
          (ihS ch (by rw [e1]; simp) (c :: s''))
      · rw [if_neg hany]
        have hno : ∀ x ∈ st, x.label ≠ some c := by
          intro x hx hlab
          apply hany
          rw [List.any_eq_true]
          exact ⟨x, hx, by simpa using hlab⟩
        by_cases hp : c = ':' ∧ pa.isSome = true
        · rw [if_pos hp]
          obtain ⟨hc, hpa⟩ := hp
          subst hc
          cases pa with
          | none => simp at hpa
          | some ch =>
            rw [insertOpt_some]
            exact descP a s'' k ms nf op pc st ch an ha hno (ihP ch rfl _)
        · rw [if_neg hp]
          by_cases hq : c = '*' ∧ an.isSome = true
          · rw [if_pos hq]
            obtain ⟨hc, han⟩ := hq
            subst hc
            cases an with
            | none => simp at han
            | some ch =>
              rw [insertOpt_some]
              exact descA a s'' k ms nf op pc st pa ch ha hno (ihA ch rfl _)
          · rw [if_neg hq]
            refine newC a c s'' k ms nf op pc st pa an ha hno ?_ ?_
            · intro hc
              cases pa with
              | none => rfl
              | some _ => exact absurd ⟨hc, rfl⟩ hp
            · intro hc
              cases an with
              | none => rfl
              | some _ => exact absurd ⟨hc, rfl⟩ hq

/-! ### the relaxed invariant -/

/-- the facts about one node (`here` = tokens up to and including its prefix) -/
structure Local (D : Nat) (here : List Tok) (k : Kind) (pre : Str) (ms : List (Str × RouteMethod))
    (nf : Option RouteMethod) (pc : Nat) (st : List Node) (pa an : Option Node) : Prop where
  depth : arity here ≤ D
  kS : k = .static → Clean pre
  kP : k = .param → pre = [':']
  kA : k = .any → pre = ['*'] ∧ st = [] ∧ pa = none ∧ an = none ∧ pc = arity here
  noNf : NoNfKey ms
  recs : ∀ x ∈ ms, (norm x.2.ppath).1 = here ∧ x.2.pnames.length = arity here
  nfRec : ∀ rm, nf = some rm → (norm rm.ppath).1 = here ∧ rm.pnames.length = arity here
  distinct : labelsDistinct st = true
  stK : ∀ c ∈ st, c.kind = .static ∧ c.pre ≠ []
  paK : ∀ c, pa = some c → c.kind = .param
  anK : ∀ c, an = some c → c.kind = .any

mutual
/-- `tiNode` without "no dead leaves", with the byte classes of the prefixes (static text has no
    marker byte, so `headToks k pre = textToks pre` everywhere) -/
def tiR (D : Nat) (above : List Tok) : Node → Prop
  | .mk k pre ms nf _ pc st pa an =>
    Local D (above ++ textToks pre) k pre ms nf pc st pa an
    ∧ tiRL D (above ++ textToks pre) st ∧ tiRO D (above ++ textToks pre) pa
    ∧ tiRO D (above ++ textToks pre) an
def tiRL (D : Nat) (here : List Tok) : List Node → Prop
  | [] => True
  | c :: cs => tiR D here c ∧ tiRL D here cs
def tiRO (D : Nat) (here : List Tok) : Option Node → Prop
  | none => True
  | some c => tiR D here c
end

theorem tiR_mk (D : Nat) (above : List Tok) (k pre ms nf op pc st pa an) :
    tiR D above (.mk k pre ms nf op pc st pa an) ↔
      (Local D (above ++ textToks pre) k pre ms nf pc st pa an
      ∧ tiRL D (above ++ textToks pre) st ∧ tiRO D (above ++ textToks pre) pa
      ∧ tiRO D (above ++ textToks pre) an) := by
  rw [tiR]

theorem tiRL_iff (D : Nat) (here : List Tok) (st : List Node) : tiRL D here st ↔ ∀ c ∈ st, tiR D here c := by
  induction st with
  | nil => rw [tiRL]; simp
  | cons c cs ih => rw [tiRL, ih]; simp

theorem tiRO_iff (D : Nat) (here : List Tok) (o : Option Node) : tiRO D here o ↔ ∀ c, o = some c → tiR D here c := by
  cases o with
  | none => rw [tiRO]; simp
  | some c => rw [tiRO]; simp

/-! ### the node boundaries and the dead leaves of a tree, as texts relative to the point before the root prefix -/

def isDead (ms : List (Str × RouteMethod)) (nf : Option RouteMethod) (st : List Node) (pa an : Option Node) : Bool :=
  ms.isEmpty && nf.isNone && st.isEmpty && pa.isNone && an.isNone

mutual
def bounds : Node → List Str
  | .mk _ p _ _ _ _ st pa an => p :: (boundsL st ++ boundsO pa ++ boundsO an).map (p ++ ·)
def boundsL : List Node → List Str
  | [] => []
  | c :: cs => bounds c ++ boundsL cs
def boundsO : Option Node → List Str
  | none => []
  | some c => bounds c
end

mutual
def deads : Node → List Str
  | .mk _ p ms nf _ _ st pa an =>
    (if isDead ms nf st pa an then [p] else []) ++ (deadsL st ++ deadsO pa ++ deadsO an).map (p ++ ·)
def deadsL : List Node → List Str
  | [] => []
  | c :: cs => deads c ++ deadsL cs
def deadsO : Option Node → List Str
  | none => []
  | some c => deads c
end

theorem mem_boundsL {x : Str} {st : List Node} : x ∈ boundsL st ↔ ∃ c ∈ st, x ∈ bounds c := by
  induction st with
  | nil => rw [boundsL]; simp
  | cons c cs ih => rw [boundsL, List.mem_append, ih]; simp
theorem mem_boundsO {x : Str} {o : Option Node} : x ∈ boundsO o ↔ ∃ c, o = some c ∧ x ∈ bounds c := by
  cases o with
  | none => rw [boundsO]; simp
  | some c => rw [boundsO]; simp
theorem mem_deadsL {x : Str} {st : List Node} : x ∈ deadsL st ↔ ∃ c ∈ st, x ∈ deads c := by
  induction st with
  | nil => rw [deadsL]; simp
  | cons c cs ih => rw [deadsL, List.mem_append, ih]; simp
theorem mem_deadsO {x : Str} {o : Option Node} : x ∈ deadsO o ↔ ∃ c, o = some c ∧ x ∈ deads c := by
  cases o with
  | none => rw [deadsO]; simp
  | some c => rw [deadsO]; simp

/-- the children of a node in its three slots -/
def IsChild (c : Node) (st : List Node) (pa an : Option Node) : Prop := c ∈ st ∨ pa = some c ∨ an = some c

theorem mem_bounds_mk {x : Str} {k p ms nf op pc st pa an} :
    x ∈ bounds (.mk k p ms nf op pc st pa an) ↔
      x = p ∨ ∃ c, IsChild c st pa an ∧ ∃ y, y ∈ bounds c ∧ x = p ++ y := by
  rw [bounds]
  simp only [List.mem_cons, List.mem_map, List.mem_append, mem_boundsL, mem_boundsO, IsChild]
  constructor
  · rintro (h | ⟨y, hy, rfl⟩)
    · exact Or.inl h
    · rcases hy with (⟨c, hc, hy⟩ | ⟨c, hc, hy⟩) | ⟨c, hc, hy⟩
      · exact Or.inr ⟨c, Or.inl hc, y, hy, rfl⟩
      · exact Or.inr ⟨c, Or.inr (Or.inl hc), y, hy, rfl⟩
      · exact Or.inr ⟨c, Or.inr (Or.inr hc), y, hy, rfl⟩
  · rintro (h | ⟨c, hc, y, hy, rfl⟩)
    · exact Or.inl h
    · refine Or.inr ⟨y, ?_, rfl⟩
      rcases hc with hc | hc | hc
      · exact Or.inl (Or.inl ⟨c, hc, hy⟩)
      · exact Or.inl (Or.inr ⟨c, hc, hy⟩)
      · exact Or.inr ⟨c, hc, hy⟩

theorem mem_deads_mk {x : Str} {k p ms nf op pc st pa an} :
    x ∈ deads (.mk k p ms nf op pc st pa an) ↔
      (x = p ∧ isDead ms nf st pa an = true) ∨ ∃ c, IsChild c st pa an ∧ ∃ y, y ∈ deads c ∧ x = p ++ y := by
  rw [deads]
  simp only [List.mem_map, List.mem_append, mem_deadsL, mem_deadsO, IsChild]
  constructor
  · rintro (h | ⟨y, hy, rfl⟩)
    · left
      by_cases hd : isDead ms nf st pa an = true
      · simp only [hd, if_true, List.mem_singleton] at h; exact ⟨h, hd⟩
      · simp [hd] at h
    · rcases hy with (⟨c, hc, hy⟩ | ⟨c, hc, hy⟩) | ⟨c, hc, hy⟩
      · exact Or.inr ⟨c, Or.inl hc, y, hy, rfl⟩
      · exact Or.inr ⟨c, Or.inr (Or.inl hc), y, hy, rfl⟩
      · exact Or.inr ⟨c, Or.inr (Or.inr hc), y, hy, rfl⟩
  · rintro (⟨h, hd⟩ | ⟨c, hc, y, hy, rfl⟩)
    · left; simp [hd, h]
    · refine Or.inr ⟨y, ?_, rfl⟩
      rcases hc with hc | hc | hc
      · exact Or.inl (Or.inl ⟨c, hc, hy⟩)
      · exact Or.inl (Or.inr ⟨c, hc, hy⟩)
      · exact Or.inr ⟨c, hc, hy⟩

end Router.Tree
