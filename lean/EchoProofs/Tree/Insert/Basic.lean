import EchoProofs.Tree.Insert.Defs
/-!
# Insertion into the radix tree: basic facts about tree text, `withRec` and the children of a node
-/
set_option linter.unusedSimpArgs false
set_option linter.unusedVariables false
namespace Router.Tree
open Router Router.Spec

/-! ### tree text -/

theorem tokOf_colon : tokOf ':' = .param := by simp [tokOf]
theorem tokOf_star : tokOf '*' = .any := by simp [tokOf]
theorem tokOf_lit {c : Char} (h1 : c ≠ ':') (h2 : c ≠ '*') : tokOf c = .lit c := by simp [tokOf, h1, h2]

theorem tokOf_inj {a b : Char} (h : tokOf a = tokOf b) : a = b := by
  unfold tokOf at h
  by_cases ha : a = ':'
  · by_cases hb : b = ':'
    · rw [ha, hb]
    · by_cases hb' : b = '*' <;> simp [ha, hb, hb'] at h
  · by_cases ha' : a = '*'
    · by_cases hb : b = ':'
      · simp [ha, ha', hb] at h
      · by_cases hb' : b = '*'
        · rw [ha', hb']
        · simp [ha, ha', hb, hb'] at h
    · by_cases hb : b = ':'
      · simp [ha, ha', hb] at h
      · by_cases hb' : b = '*'
        · simp [ha, ha', hb, hb'] at h
        · simpa [ha, ha', hb, hb'] using h

@[simp] theorem textToks_nil : textToks [] = [] := rfl
@[simp] theorem textToks_cons (c : Char) (s : Str) : textToks (c :: s) = tokOf c :: textToks s := rfl
@[simp] theorem textToks_append (a b : Str) : textToks (a ++ b) = textToks a ++ textToks b := by
  simp [textToks]

theorem textToks_inj {a b : Str} (h : textToks a = textToks b) : a = b := by
  induction a generalizing b with
  | nil => cases b with
    | nil => rfl
    | cons _ _ => simp at h
  | cons x xs ih =>
    cases b with
    | nil => simp at h
    | cons y ys =>
      simp only [textToks_cons, List.cons.injEq] at h
      rw [tokOf_inj h.1, ih h.2]

theorem clean_nil : Clean [] := by intro c hc; simp at hc
theorem clean_cons {c : Char} {s : Str} : Clean (c :: s) ↔ (c ≠ ':' ∧ c ≠ '*') ∧ Clean s := by
  unfold Clean
  simp
theorem clean_append {a b : Str} : Clean (a ++ b) ↔ Clean a ∧ Clean b := by
  unfold Clean
  simp only [List.mem_append]
  constructor
  · intro h; exact ⟨fun c hc => h c (Or.inl hc), fun c hc => h c (Or.inr hc)⟩
  · rintro ⟨h1, h2⟩ c (hc | hc)
    · exact h1 c hc
    · exact h2 c hc

theorem textToks_clean {s : Str} (h : Clean s) : textToks s = lits s := by
  induction s with
  | nil => rfl
  | cons c s ih =>
    obtain ⟨⟨h1, h2⟩, hs⟩ := clean_cons.mp h
    simp only [textToks_cons, lits, List.map_cons, tokOf_lit h1 h2]
    rw [ih hs]; rfl

theorem headToks_eq_textToks {k : Kind} {pre : Str} (hS : k = .static → Clean pre) (hP : k = .param → pre = [':'])
    (hA : k = .any → pre = ['*']) : headToks k pre = textToks pre := by
  cases k with
  | static => simp only [headToks]; exact (textToks_clean (hS rfl)).symm
  | param => rw [hP rfl]; simp [headToks, tokOf_colon]
  | any => rw [hA rfl]; simp [headToks, tokOf_star]

theorem Local.headToks {D here k pre ms nf pc st pa an} (h : Local D here k pre ms nf pc st pa an) :
    headToks k pre = textToks pre :=
  headToks_eq_textToks h.kS h.kP (fun hk => (h.kA hk).1)

theorem arity_textToks_clean {s : Str} (h : Clean s) : arity (textToks s) = 0 := by
  rw [textToks_clean h]; exact arity_lits s

theorem arity_le_append (a b : List Tok) : arity a ≤ arity (a ++ b) := by
  rw [arity_append]; omega

/-! ### the children of a node that satisfies the relaxed invariant -/

theorem tiR_local {D : Nat} {above : List Tok} (n : Node) (h : tiR D above n) :
    Local D (above ++ textToks n.pre) n.kind n.pre n.methods n.nf n.paramsCount n.statics n.param n.any := by
  cases n; exact ((tiR_mk ..).mp h).1

theorem tiR_child {D : Nat} {above : List Tok} {k p ms nf op pc st pa an} {c : Node}
    (h : tiR D above (.mk k p ms nf op pc st pa an)) (hc : IsChild c st pa an) :
    tiR D (above ++ textToks p) c := by
  obtain ⟨_, hS, hP, hA⟩ := (tiR_mk ..).mp h
  rcases hc with hc | hc | hc
  · exact (tiRL_iff ..).mp hS c hc
  · exact (tiRO_iff ..).mp hP c hc
  · exact (tiRO_iff ..).mp hA c hc

theorem child_static {D : Nat} {above : List Tok} {k p ms nf op pc st pa an} {c : Node}
    (h : tiR D above (.mk k p ms nf op pc st pa an)) (hc : c ∈ st) :
    c.kind = .static ∧ c.pre ≠ [] ∧ Clean c.pre := by
  have hl := ((tiR_mk ..).mp h).1
  have hk := hl.stK c hc
  exact ⟨hk.1, hk.2, (tiR_local c (tiR_child h (Or.inl hc))).kS hk.1⟩

theorem child_param {D : Nat} {above : List Tok} {k p ms nf op pc st pa an} {c : Node}
    (h : tiR D above (.mk k p ms nf op pc st pa an)) (hc : pa = some c) :
    c.kind = .param ∧ c.pre = [':'] := by
  have hl := ((tiR_mk ..).mp h).1
  have hk := hl.paK c hc
  exact ⟨hk, (tiR_local c (tiR_child h (Or.inr (Or.inl hc)))).kP hk⟩

theorem child_any {D : Nat} {above : List Tok} {k p ms nf op pc st pa an} {c : Node}
    (h : tiR D above (.mk k p ms nf op pc st pa an)) (hc : an = some c) :
    c.kind = .any ∧ c.pre = ['*'] := by
  have hl := ((tiR_mk ..).mp h).1
  have hk := hl.anK c hc
  exact ⟨hk, ((tiR_local c (tiR_child h (Or.inr (Or.inr hc)))).kA hk).1⟩

/-- the first byte of a static child is not a marker -/
theorem child_static_label {D : Nat} {above : List Tok} {k p ms nf op pc st pa an} {c : Node}
    (h : tiR D above (.mk k p ms nf op pc st pa an)) (hc : c ∈ st) :
    ∃ e r, c.pre = e :: r ∧ c.label = some e ∧ e ≠ ':' ∧ e ≠ '*' := by
  obtain ⟨_, hne, hcl⟩ := child_static h hc
  cases hp : c.pre with
  | nil => exact absurd hp hne
  | cons e r =>
    rw [hp] at hcl
    obtain ⟨⟨h1, h2⟩, _⟩ := clean_cons.mp hcl
    exact ⟨e, r, rfl, by simp [Node.label, hp], h1, h2⟩

theorem child_pre_ne {D : Nat} {above : List Tok} {k p ms nf op pc st pa an} {c : Node}
    (h : tiR D above (.mk k p ms nf op pc st pa an)) (hc : IsChild c st pa an) : c.pre ≠ [] := by
  rcases hc with hc | hc | hc
  · exact (child_static h hc).2.1
  · rw [(child_param h hc).2]; simp
  · rw [(child_any h hc).2]; simp

/-- a child of a node that is not the one with label `e` -/
theorem label_of_pre {c : Node} {e : Char} {r : Str} (h : c.pre = e :: r) : c.label = some e := by
  simp [Node.label, h]

theorem pre_of_label {c : Node} {e : Char} (h : c.label = some e) : ∃ r, c.pre = e :: r := by
  unfold Node.label at h
  cases hp : c.pre with
  | nil => rw [hp] at h; simp at h
  | cons x r => rw [hp] at h; simp at h; exact ⟨r, by rw [h]⟩

theorem lcp_ne_zero_of_label {c : Node} {e : Char} {s : Str} (h : c.label = some e) : lcp (e :: s) c.pre ≠ 0 := by
  obtain ⟨r, hr⟩ := pre_of_label h
  rw [hr]; simp [lcp]

/-! ### distinct labels -/

theorem labelsDistinct_iff (st : List Node) :
    labelsDistinct st = true ↔ st.Pairwise (fun a b => a.label ≠ b.label) := by
  induction st with
  | nil => simp [labelsDistinct]
  | cons c cs ih =>
    simp only [labelsDistinct, Bool.and_eq_true, List.all_eq_true, bne_iff_ne, ne_eq, List.pairwise_cons, ih]
    constructor
    · rintro ⟨h1, h2⟩; exact ⟨fun d hd heq => h1 d hd heq.symm, h2⟩
    · rintro ⟨h1, h2⟩; exact ⟨fun d hd heq => h1 d hd heq.symm, h2⟩

theorem labelsDistinct_mid {st1 st2 : List Node} {ch : Node} (h : labelsDistinct (st1 ++ ch :: st2) = true) :
    (∀ x ∈ st1, x.label ≠ ch.label) ∧ (∀ x ∈ st2, x.label ≠ ch.label) := by
  rw [labelsDistinct_iff, List.pairwise_append] at h
  obtain ⟨_, h2, h3⟩ := h
  rw [List.pairwise_cons] at h2
  exact ⟨fun x hx => h3 x hx ch (by simp), fun x hx heq => h2.1 x hx heq.symm⟩

theorem labelsDistinct_replace {st1 st2 : List Node} {ch ch' : Node} (hl : ch'.label = ch.label)
    (h : labelsDistinct (st1 ++ ch :: st2) = true) : labelsDistinct (st1 ++ ch' :: st2) = true := by
  rw [labelsDistinct_iff, List.pairwise_append] at h ⊢
  obtain ⟨h1, h2, h3⟩ := h
  rw [List.pairwise_cons] at h2 ⊢
  refine ⟨h1, ⟨?_, h2.2⟩, ?_⟩
  · intro x hx; rw [hl]; exact h2.1 x hx
  · intro a ha b hb
    rcases List.mem_cons.mp hb with rfl | hb
    · rw [hl]; exact h3 a ha ch (by simp)
    · exact h3 a ha b (by simp [hb])

theorem labelsDistinct_snoc {st : List Node} {n : Node} (h : labelsDistinct st = true)
    (hn : ∀ x ∈ st, x.label ≠ n.label) : labelsDistinct (st ++ [n]) = true := by
  rw [labelsDistinct_iff, List.pairwise_append] at *
  refine ⟨h, by simp, ?_⟩
  intro a ha b hb
  simp only [List.mem_singleton] at hb
  rw [hb]; exact hn a ha

theorem labelsDistinct_pair {a b : Node} (h : a.label ≠ b.label) : labelsDistinct [a, b] = true := by
  rw [labelsDistinct_iff]; simp [h]

theorem labelsDistinct_single (a : Node) : labelsDistinct [a] = true := by
  rw [labelsDistinct_iff]; simp

/-! ### the children `insertAt` does not descend into have another label -/

theorem child_param_label {D : Nat} {above : List Tok} {k p ms nf op pc st pa an} {c : Node}
    (h : tiR D above (.mk k p ms nf op pc st pa an)) (hc : pa = some c) : c.label = some ':' :=
  label_of_pre (child_param h hc).2

theorem child_any_label {D : Nat} {above : List Tok} {k p ms nf op pc st pa an} {c : Node}
    (h : tiR D above (.mk k p ms nf op pc st pa an)) (hc : an = some c) : c.label = some '*' :=
  label_of_pre (child_any h hc).2

theorem other_label_S {D : Nat} {above : List Tok} {k p ms nf op pc st1 ch st2 pa an} {c : Char}
    (h : tiR D above (.mk k p ms nf op pc (st1 ++ ch :: st2) pa an)) (hch : ch.label = some c)
    (h1 : ∀ x ∈ st1, x.label ≠ some c) :
    ∀ d, (d ∈ st1 ∨ d ∈ st2 ∨ pa = some d ∨ an = some d) → d.label ≠ some c := by
  have hl := ((tiR_mk ..).mp h).1
  obtain ⟨e, r, _, he, hne1, hne2⟩ := child_static_label h (c := ch) (by simp)
  have hce : c = e := by rw [hch] at he; exact Option.some.inj he
  intro d hd
  rcases hd with hd | hd | hd | hd
  · exact h1 d hd
  · rw [← hch]; exact (labelsDistinct_mid hl.distinct).2 d hd
  · rw [child_param_label h hd, hce]; intro heq; exact hne1 (Option.some.inj heq).symm
  · rw [child_any_label h hd, hce]; intro heq; exact hne2 (Option.some.inj heq).symm

theorem other_label_P {D : Nat} {above : List Tok} {k p ms nf op pc st pa an}
    (h : tiR D above (.mk k p ms nf op pc st pa an)) (h1 : ∀ x ∈ st, x.label ≠ some ':') :
    ∀ d, (d ∈ st ∨ an = some d) → d.label ≠ some ':' := by
  intro d hd
  rcases hd with hd | hd
  · exact h1 d hd
  · rw [child_any_label h hd]; simp

theorem other_label_A {D : Nat} {above : List Tok} {k p ms nf op pc st pa an}
    (h : tiR D above (.mk k p ms nf op pc st pa an)) (h1 : ∀ x ∈ st, x.label ≠ some '*') :
    ∀ d, (d ∈ st ∨ pa = some d) → d.label ≠ some '*' := by
  intro d hd
  rcases hd with hd | hd
  · exact h1 d hd
  · rw [child_param_label h hd]; simp

theorem other_label_new {D : Nat} {above : List Tok} {k p ms nf op pc st pa an} {c : Char}
    (h : tiR D above (.mk k p ms nf op pc st pa an)) (h1 : ∀ x ∈ st, x.label ≠ some c)
    (hp : c = ':' → pa = none) (ha : c = '*' → an = none) :
    ∀ d, IsChild d st pa an → d.label ≠ some c := by
  intro d hd
  rcases hd with hd | hd | hd
  · exact h1 d hd
  · rw [child_param_label h hd]
    intro heq
    have := hp (Option.some.inj heq).symm
    rw [this] at hd; simp at hd
  · rw [child_any_label h hd]
    intro heq
    have := ha (Option.some.inj heq).symm
    rw [this] at hd; simp at hd

/-! ### prefixes -/

theorem not_prefix_app {a y s' : Str} (h : ¬ y <+: s') : ¬ (a ++ y) <+: (a ++ s') := by
  rw [List.prefix_append_right_inj]; exact h

theorem not_prefix_self_app {a y : Str} (h : y ≠ []) : ¬ (a ++ y) <+: a := by
  have := not_prefix_app (a := a) (y := y) (s' := []) (by simpa using h)
  simpa using this

theorem not_prefix_of_label {d : Node} {c : Char} {z s' : Str} (hl : d.label ≠ some c) (hne : d.pre ≠ []) :
    ¬ (d.pre ++ z) <+: (c :: s') := by
  cases hp : d.pre with
  | nil => exact absurd hp hne
  | cons e r =>
    intro hpre
    simp only [List.cons_append, List.cons_prefix_cons] at hpre
    exact hl (by rw [label_of_pre hp, hpre.1])

end Router.Tree
