import EchoProofs.Tree.Insert.Basic
/-!
# Insertion into the radix tree: node boundaries and dead leaves
-/
set_option linter.unusedSimpArgs false
set_option linter.unusedVariables false
namespace Router.Tree
open Router Router.Spec

theorem mem_bounds_withRec {x : Str} {m rm k p ms nf op pc st pa an} :
    x ∈ bounds (withRec m rm k p ms nf op pc st pa an) ↔
      x = p ∨ ∃ c, IsChild c st pa an ∧ ∃ y, y ∈ bounds c ∧ x = p ++ y := by
  cases rm <;> exact mem_bounds_mk

/-- after `insertAt … s …` the tree has a node boundary at `s` -/
theorem insertAt_bounds (m : Str) (t : Kind) (rm : Option RouteMethod) (s : Str) (n : Node) :
    s ∈ bounds (insertAt m s t rm n) := by
  refine insertAt_cases m t rm (fun s _ r => s ∈ bounds r) ?_ ?_ ?_ ?_ ?_ ?_ ?_ ?_ s n
  · intros; exact mem_bounds_withRec.mpr (Or.inl rfl)
  · intros; exact mem_bounds_withRec.mpr (Or.inl rfl)
  · intro a x s' y p' k ms nf op pc st pa an _ _
    exact mem_bounds_mk.mpr (Or.inr ⟨_, Or.inl (List.mem_cons_of_mem _ List.mem_cons_self), x :: s',
      mem_bounds_withRec.mpr (Or.inl rfl), rfl⟩)
  · intro a c s' k ms nf op pc st1 ch st2 pa an _ _ _ ih
    exact mem_bounds_mk.mpr (Or.inr ⟨_, Or.inl (by simp), c :: s', ih, rfl⟩)
  · intro a s' k ms nf op pc st ch an _ _ ih
    exact mem_bounds_mk.mpr (Or.inr ⟨_, Or.inr (Or.inl rfl), _, ih, rfl⟩)
  · intro a s' k ms nf op pc st pa ch _ _ ih
    exact mem_bounds_mk.mpr (Or.inr ⟨_, Or.inr (Or.inr rfl), _, ih, rfl⟩)
  · intro a c s' k ms nf op pc st pa an _ _ _ _
    cases t with
    | static =>
      exact mem_bounds_mk.mpr (Or.inr ⟨withRec m rm .static (c :: s') [] none [] 0 [] none none,
        Or.inl (by simp), c :: s', mem_bounds_withRec.mpr (Or.inl rfl), rfl⟩)
    | param =>
      exact mem_bounds_mk.mpr (Or.inr ⟨_, Or.inr (Or.inl rfl), c :: s', mem_bounds_withRec.mpr (Or.inl rfl), rfl⟩)
    | any =>
      exact mem_bounds_mk.mpr (Or.inr ⟨_, Or.inr (Or.inr rfl), c :: s', mem_bounds_withRec.mpr (Or.inl rfl), rfl⟩)
  · intros; exact mem_bounds_withRec.mpr (Or.inl rfl)

/-- every boundary of a subtree lies at or below its root prefix -/
theorem bounds_prefix {x : Str} {n : Node} (h : x ∈ bounds n) : ∃ z, x = n.pre ++ z := by
  cases n with
  | mk k p ms nf op pc st pa an =>
    rcases mem_bounds_mk.mp h with h | ⟨c, _, y, _, h⟩
    · exact ⟨[], by simp [Node.pre, h]⟩
    · exact ⟨y, h⟩

theorem deads_prefix {x : Str} {n : Node} (h : x ∈ deads n) : ∃ z, x = n.pre ++ z := by
  cases n with
  | mk k p ms nf op pc st pa an =>
    rcases mem_deads_mk.mp h with ⟨h, _⟩ | ⟨c, _, y, _, h⟩
    · exact ⟨[], by simp [Node.pre, h]⟩
    · exact ⟨y, h⟩

/-! ### dead leaves -/

theorem isDead_addMethod (ms : List (Str × RouteMethod)) (nf : Option RouteMethod) (m : Str) (r : RouteMethod)
    (st : List Node) (pa an : Option Node) :
    isDead (addMethod ms nf m r).1 (addMethod ms nf m r).2 st pa an = false := by
  unfold addMethod isDead
  by_cases h : m = routeNotFound <;> simp [h]

theorem mem_deads_withRec {x : Str} {m rm k p ms nf op pc st pa an} :
    x ∈ deads (withRec m rm k p ms nf op pc st pa an) ↔
      (x = p ∧ rm = none ∧ isDead ms nf st pa an = true)
      ∨ ∃ c, IsChild c st pa an ∧ ∃ y, y ∈ deads c ∧ x = p ++ y := by
  cases rm with
  | none => simp only [withRec]; rw [mem_deads_mk]; simp
  | some r => simp only [withRec]; rw [mem_deads_mk, isDead_addMethod]; simp

theorem deads_shift {a y : Str} {k p ms nf op pc st pa an}
    (h : y ∈ deads (.mk k p ms nf op pc st pa an)) : a ++ y ∈ deads (.mk k (a ++ p) ms nf op pc st pa an) := by
  rcases mem_deads_mk.mp h with ⟨h, hd⟩ | ⟨c, hc, z, hz, h⟩
  · exact mem_deads_mk.mpr (Or.inl ⟨by rw [h], hd⟩)
  · exact mem_deads_mk.mpr (Or.inr ⟨c, hc, z, hz, by rw [h, List.append_assoc]⟩)

/-- a dead leaf below a child that `insertAt` does not touch stays, and is not on the way to the new text -/
theorem deads_other {D : Nat} {above : List Tok} {k a ms nf op pc st pa an} {d : Node} {y : Str} {c : Char}
    {s' : Str} (h : tiR D above (.mk k a ms nf op pc st pa an)) (hd : IsChild d st pa an) (hy : y ∈ deads d)
    (hl : d.label ≠ some c) :
    a ++ y ∈ deads (.mk k a ms nf op pc st pa an) ∧ ¬ (a ++ y) <+: (a ++ c :: s') := by
  refine ⟨mem_deads_mk.mpr (Or.inr ⟨d, hd, y, hy, rfl⟩), not_prefix_app ?_⟩
  obtain ⟨z, hz⟩ := deads_prefix hy
  rw [hz]
  exact not_prefix_of_label hl (child_pre_ne h hd)

theorem isDead_cons_false {ms nf} {c : Node} {st : List Node} {pa an} : isDead ms nf (c :: st) pa an = false := by
  simp [isDead]
theorem isDead_mid_false {ms nf} {c : Node} {st1 st2 : List Node} {pa an} :
    isDead ms nf (st1 ++ c :: st2) pa an = false := by
  simp [isDead]
theorem isDead_snoc_false {ms nf} {c : Node} {st1 : List Node} {pa an} :
    isDead ms nf (st1 ++ [c]) pa an = false := by
  simp [isDead]
theorem isDead_pa_false {ms nf} {c : Node} {st : List Node} {an} : isDead ms nf st (some c) an = false := by
  simp [isDead]
theorem isDead_an_false {ms nf} {c : Node} {st : List Node} {pa} : isDead ms nf st pa (some c) = false := by
  simp [isDead]

/-- the dead leaves after an insertion: possibly the new node (when no record is written); the
    old ones stay unless they are on the way to the new text -/
theorem insertAt_deads (m : Str) (t : Kind) (rm : Option RouteMethod) (s : Str) (n : Node) :
    ∀ (D : Nat) (above : List Tok), tiR D above n →
      (lcp s n.pre = 0 → n.statics = [] ∧ n.param = none ∧ n.any = none) →
      ∀ x ∈ deads (insertAt m s t rm n), (x = s ∧ rm = none) ∨ (x ∈ deads n ∧ ¬ x <+: s) := by
  refine insertAt_cases m t rm (fun s n r => ∀ (D : Nat) (above : List Tok), tiR D above n →
      (lcp s n.pre = 0 → n.statics = [] ∧ n.param = none ∧ n.any = none) →
      ∀ x ∈ deads r, (x = s ∧ rm = none) ∨ (x ∈ deads n ∧ ¬ x <+: s)) ?_ ?_ ?_ ?_ ?_ ?_ ?_ ?_ s n
  · -- take-over of the empty root
    intro s k p ms nf op pc st pa an h0 D above _ hroot x hx
    obtain ⟨h1, h2, h3⟩ := hroot h0
    simp only [Node.statics, Node.param, Node.any] at h1 h2 h3
    subst h1 h2 h3
    rcases mem_deads_withRec.mp hx with ⟨hx, hrm, _⟩ | ⟨c, hc, _⟩
    · exact Or.inl ⟨hx, hrm⟩
    · simp [IsChild] at hc
  · -- split, the new text ends at the split point
    intro a y p' k ms nf op pc st pa an ha D above _ _ x hx
    rcases mem_deads_withRec.mp hx with ⟨_, _, hd⟩ | ⟨c, hc, z, hz, hx⟩
    · rw [isDead_cons_false] at hd; cases hd
    · have hc' : c = .mk k (y :: p') ms nf op pc st pa an := by simpa [IsChild] using hc
      subst hc'
      obtain ⟨w, hw⟩ := deads_prefix hz
      refine Or.inr ⟨by rw [hx]; exact deads_shift hz, ?_⟩
      rw [hx, hw]
      exact not_prefix_self_app (by simp [Node.pre])
  · -- split with a new branch
    intro a x0 s' y p' k ms nf op pc st pa an ha hne D above _ _ x hx
    rcases mem_deads_mk.mp hx with ⟨_, hd⟩ | ⟨c, hc, z, hz, hx⟩
    · rw [isDead_cons_false] at hd; cases hd
    · have hc' : c = .mk k (y :: p') ms nf op pc st pa an
          ∨ c = withRec m rm t (x0 :: s') [] none [] 0 [] none none := by simpa [IsChild] using hc
      rcases hc' with hc' | hc'
      · subst hc'
        obtain ⟨w, hw⟩ := deads_prefix hz
        refine Or.inr ⟨by rw [hx]; exact deads_shift hz, ?_⟩
        rw [hx, hw]
        apply not_prefix_app
        simp only [Node.pre, List.cons_append, List.cons_prefix_cons]
        exact fun h => hne h.1.symm
      · subst hc'
        rcases mem_deads_withRec.mp hz with ⟨hz, hrm, _⟩ | ⟨c, hc, _⟩
        · exact Or.inl ⟨by rw [hx, hz], hrm⟩
        · simp [IsChild] at hc
  · -- descend into a static child
    intro a c s' k ms nf op pc st1 ch st2 pa an ha hch h1 ih D above hti _ x hx
    have hother := other_label_S hti hch h1
    rcases mem_deads_mk.mp hx with ⟨_, hd⟩ | ⟨d, hd, z, hz, hx⟩
    · rw [isDead_mid_false] at hd; cases hd
    · have hd' : d = insertAt m (c :: s') t rm ch ∨ (d ∈ st1 ∨ d ∈ st2 ∨ pa = some d ∨ an = some d) := by
        simp only [IsChild, List.mem_append, List.mem_cons] at hd
        rcases hd with (hd | hd | hd) | hd | hd
        · exact Or.inr (Or.inl hd)
        · exact Or.inl hd
        · exact Or.inr (Or.inr (Or.inl hd))
        · exact Or.inr (Or.inr (Or.inr (Or.inl hd)))
        · exact Or.inr (Or.inr (Or.inr (Or.inr hd)))
      rcases hd' with hd' | hd'
      · subst hd'
        have hchild : IsChild ch (st1 ++ ch :: st2) pa an := Or.inl (by simp)
        rcases ih D _ (tiR_child hti hchild) (fun h0 => absurd h0 (lcp_ne_zero_of_label hch)) z hz with
          ⟨hz, hrm⟩ | ⟨hz, hnp⟩
        · exact Or.inl ⟨by rw [hx, hz], hrm⟩
        · exact Or.inr ⟨by rw [hx]; exact mem_deads_mk.mpr (Or.inr ⟨ch, hchild, z, hz, rfl⟩),
            by rw [hx]; exact not_prefix_app hnp⟩
      · have hchild : IsChild d (st1 ++ ch :: st2) pa an := by
          rcases hd' with h | h | h | h
          · exact Or.inl (by simp [h])
          · exact Or.inl (by simp [h])
          · exact Or.inr (Or.inl h)
          · exact Or.inr (Or.inr h)
        rw [hx]
        exact Or.inr (deads_other hti hchild hz (hother d hd'))
  · -- descend into the param child
    intro a s' k ms nf op pc st ch an ha h1 ih D above hti _ x hx
    have hother := other_label_P hti h1
    rcases mem_deads_mk.mp hx with ⟨_, hd⟩ | ⟨d, hd, z, hz, hx⟩
    · rw [isDead_pa_false] at hd; cases hd
    · have hd' : d = insertAt m (':' :: s') t rm ch ∨ (d ∈ st ∨ an = some d) := by
        simp only [IsChild, Option.some.injEq] at hd
        rcases hd with hd | hd | hd
        · exact Or.inr (Or.inl hd)
        · exact Or.inl hd.symm
        · exact Or.inr (Or.inr hd)
      rcases hd' with hd' | hd'
      · subst hd'
        have hchild : IsChild ch st (some ch) an := Or.inr (Or.inl rfl)
        rcases ih D _ (tiR_child hti hchild)
          (fun h0 => absurd h0 (lcp_ne_zero_of_label (child_param_label hti rfl))) z hz with
          ⟨hz, hrm⟩ | ⟨hz, hnp⟩
        · exact Or.inl ⟨by rw [hx, hz], hrm⟩
        · exact Or.inr ⟨by rw [hx]; exact mem_deads_mk.mpr (Or.inr ⟨ch, hchild, z, hz, rfl⟩),
            by rw [hx]; exact not_prefix_app hnp⟩
      · have hchild : IsChild d st (some ch) an := by
          rcases hd' with h | h
          · exact Or.inl h
          · exact Or.inr (Or.inr h)
        rw [hx]
        exact Or.inr (deads_other hti hchild hz (hother d hd'))
  · -- descend into the any child
    intro a s' k ms nf op pc st pa ch ha h1 ih D above hti _ x hx
    have hother := other_label_A hti h1
    rcases mem_deads_mk.mp hx with ⟨_, hd⟩ | ⟨d, hd, z, hz, hx⟩
    · rw [isDead_an_false] at hd; cases hd
    · have hd' : d = insertAt m ('*' :: s') t rm ch ∨ (d ∈ st ∨ pa = some d) := by
        simp only [IsChild, Option.some.injEq] at hd
        rcases hd with hd | hd | hd
        · exact Or.inr (Or.inl hd)
        · exact Or.inr (Or.inr hd)
        · exact Or.inl hd.symm
      rcases hd' with hd' | hd'
      · subst hd'
        have hchild : IsChild ch st pa (some ch) := Or.inr (Or.inr rfl)
        rcases ih D _ (tiR_child hti hchild)
          (fun h0 => absurd h0 (lcp_ne_zero_of_label (child_any_label hti rfl))) z hz with
          ⟨hz, hrm⟩ | ⟨hz, hnp⟩
        · exact Or.inl ⟨by rw [hx, hz], hrm⟩
        · exact Or.inr ⟨by rw [hx]; exact mem_deads_mk.mpr (Or.inr ⟨ch, hchild, z, hz, rfl⟩),
            by rw [hx]; exact not_prefix_app hnp⟩
      · have hchild : IsChild d st pa (some ch) := by
          rcases hd' with h | h
          · exact Or.inl h
          · exact Or.inr (Or.inl h)
        rw [hx]
        exact Or.inr (deads_other hti hchild hz (hother d hd'))
  · -- a new child
    intro a c s' k ms nf op pc st pa an ha h1 hp hA D above hti _ x hx
    have hother := other_label_new hti h1 hp hA
    have hleaf : ∀ z, z ∈ deads (withRec m rm t (c :: s') [] none [] 0 [] none none) →
        z = c :: s' ∧ rm = none := by
      intro z hz
      rcases mem_deads_withRec.mp hz with ⟨hz, hrm, _⟩ | ⟨c, hc, _⟩
      · exact ⟨hz, hrm⟩
      · simp [IsChild] at hc
    have key : ∀ d z, (d = withRec m rm t (c :: s') [] none [] 0 [] none none ∨ IsChild d st pa an) →
        z ∈ deads d → x = a ++ z →
        (x = a ++ c :: s' ∧ rm = none) ∨
          (x ∈ deads (.mk k a ms nf op pc st pa an) ∧ ¬ x <+: a ++ c :: s') := by
      intro d z hd hz hx
      rcases hd with hd | hd
      · subst hd
        obtain ⟨hz, hrm⟩ := hleaf z hz
        exact Or.inl ⟨by rw [hx, hz], hrm⟩
      · rw [hx]; exact Or.inr (deads_other hti hd hz (hother d hd))
    cases t with
    | static =>
      rcases mem_deads_mk.mp hx with ⟨_, hd⟩ | ⟨d, hd, z, hz, hx⟩
      · rw [isDead_snoc_false] at hd; cases hd
      · refine key d z ?_ hz hx
        simp only [IsChild, List.mem_append, List.mem_singleton] at hd ⊢
        rcases hd with (hd | hd) | hd | hd
        · exact Or.inr (Or.inl hd)
        · exact Or.inl hd
        · exact Or.inr (Or.inr (Or.inl hd))
        · exact Or.inr (Or.inr (Or.inr hd))
    | param =>
      rcases mem_deads_mk.mp hx with ⟨_, hd⟩ | ⟨d, hd, z, hz, hx⟩
      · rw [isDead_pa_false] at hd; cases hd
      · refine key d z ?_ hz hx
        simp only [IsChild, Option.some.injEq] at hd ⊢
        rcases hd with hd | hd | hd
        · exact Or.inr (Or.inl hd)
        · exact Or.inl hd.symm
        · exact Or.inr (Or.inr (Or.inr hd))
    | any =>
      rcases mem_deads_mk.mp hx with ⟨_, hd⟩ | ⟨d, hd, z, hz, hx⟩
      · rw [isDead_an_false] at hd; cases hd
      · refine key d z ?_ hz hx
        simp only [IsChild, Option.some.injEq] at hd ⊢
        rcases hd with hd | hd | hd
        · exact Or.inr (Or.inl hd)
        · exact Or.inr (Or.inr (Or.inl hd))
        · exact Or.inl hd.symm
  · -- the node exists
    intro k p ms nf op pc st pa an hp D above hti _ x hx
    rcases mem_deads_withRec.mp hx with ⟨hx, hrm, _⟩ | ⟨d, hd, z, hz, hx⟩
    · exact Or.inl ⟨hx, hrm⟩
    · refine Or.inr ⟨by rw [hx]; exact mem_deads_mk.mpr (Or.inr ⟨d, hd, z, hz, rfl⟩), ?_⟩
      obtain ⟨w, hw⟩ := deads_prefix hz
      rw [hx, hw]
      apply not_prefix_self_app
      have := child_pre_ne hti hd
      simp [this]

end Router.Tree
