import EchoProofs.Tree.Resid
import EchoProofs.Spec.Sound
/-!
# The tree invariant and what it gives about the residual sets

`tiNode D above n` is an executable (Bool) well-formedness predicate on a radix tree: kinds
and prefixes of the three child slots, every record sits at the node whose token path is the
normalised text of its pattern (with one parameter name per marker), wildcard nodes know
their parameter count, static siblings start with distinct bytes, and no token path has more
than `D` markers.  The model driver evaluates it on every generated table
(translation validation); the theorems of `Refine.lean` hold for every tree satisfying it.
-/
namespace Router.Tree
open Router Router.Spec

/-! ### lookups among the entries of one node -/

theorem entryOf_method (m : Str) (rm : RouteMethod) : (entryOf m rm).method = m := rfl

def NoNfKey (ms : List (Str × RouteMethod)) : Prop := ∀ x ∈ ms, x.1 ≠ routeNotFound

theorem isHandler_own (ms : List (Str × RouteMethod)) (nf : Option RouteMethod) (h : NoNfKey ms) :
    isHandler (ownEntries ms nf) = !ms.isEmpty := by
  unfold isHandler ownEntries
  cases ms with
  | nil => cases nf <;> simp [entryOf]
  | cons x xs =>
    have := h x (by simp)
    simp [entryOf, this]

theorem find?_map_entry (ms : List (Str × RouteMethod)) (m : Str) :
    (ms.map fun x => entryOf x.1 x.2).find? (·.method = m)
      = (ms.find? (·.1 = m)).map (fun x => entryOf x.1 x.2) := by
  induction ms with
  | nil => rfl
  | cons x xs ih =>
    by_cases hx : x.1 = m
    · simp [List.find?_cons, entryOf_method, hx]
    · simp only [List.map_cons, List.find?_cons, entryOf_method, hx, decide_false]
      exact ih

theorem findM_own (ms : List (Str × RouteMethod)) (nf : Option RouteMethod) (m : Str) (h : NoNfKey ms) :
    findM (ownEntries ms nf) m = (findMethod ms m).map (entryOf m) := by
  unfold findM findMethod
  by_cases hm : m = routeNotFound
  · subst hm
    have : ms.find? (·.1 = routeNotFound) = none := by
      rw [List.find?_eq_none]
      intro x hx
      simpa using h x hx
    simp [this]
  · simp only [hm, if_false, ownEntries, List.find?_append, find?_map_entry]
    cases hf : ms.find? (·.1 = m) with
    | some x =>
      have := List.find?_some hf
      simp only [decide_eq_true_eq] at this
      simp [this]
    | none =>
      cases nf with
      | none => simp
      | some rm => simp [entryOf, Ne.symm hm]

theorem findNF_own (ms : List (Str × RouteMethod)) (nf : Option RouteMethod) (h : NoNfKey ms) :
    findNF (ownEntries ms nf) = nf.map (entryOf routeNotFound) := by
  unfold findNF ownEntries
  have : (ms.map fun x => entryOf x.1 x.2).find? (·.method = routeNotFound) = none := by
    rw [List.find?_eq_none]
    intro e he
    obtain ⟨x, hx, rfl⟩ := List.mem_map.mp he
    have := h x hx
    simp [entryOf, this]
  simp only [List.find?_append, this, Option.none_or]
  cases nf <;> simp [entryOf]

/-! ### `lcp` against `isPrefixOf` -/

theorem lcp_le_right (s p : Str) : lcp s p ≤ p.length := by
  induction s generalizing p with
  | nil => cases p <;> simp [lcp]
  | cons a as ih =>
    cases p with
    | nil => simp [lcp]
    | cons b bs =>
      simp only [lcp]
      split
      · have := ih bs; simp; omega
      · simp

theorem lcp_eq_length_iff (s p : Str) : lcp s p = p.length ↔ p.isPrefixOf s = true := by
  induction s generalizing p with
  | nil => cases p <;> simp [lcp, List.isPrefixOf]
  | cons a as ih =>
    cases p with
    | nil => simp [lcp, List.isPrefixOf]
    | cons b bs =>
      simp only [lcp, List.isPrefixOf, List.length_cons, Bool.and_eq_true, beq_iff_eq]
      by_cases hab : a = b
      · subst hab
        simp only [if_true, Nat.add_right_cancel_iff, true_and]
        exact ih bs
      · simp only [hab, if_false]
        constructor
        · intro h; omega
        · intro h; exact absurd h.1.symm hab

end Router.Tree
