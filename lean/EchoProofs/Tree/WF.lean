import EchoProofs.Tree.Insert
import EchoProofs.Tree.Corollaries
/-!
# The router theorems for every well-formed table, without the per-table run-time check

`Chain.lean` / `Corollaries.lean` prove the refinement `find (build rs) = route (rs.map mkEntry)` and its
consequences under the hypothesis `tableInvariant rs = (true, true)`.  `build_tableInvariant`
(`Insert.lean`) discharges that hypothesis for every non-empty well-formed table; for the empty table the
tree is the bare root, on which `find` answers 404 like the reference search.  So the statements below need
`wfTable rs = true` only.
-/
namespace Router.Tree
open Router Router.Spec

/-- `Router.Find` on the tree of the empty table: 404, whatever the value slice -/
theorem find_emptyTree (m path : Str) (pv : List Str) : find emptyTree m path pv = .notFound [] := by
  unfold find emptyTree
  rw [findNode_unfold]
  cases path with
  | nil => simp [bodyOf, nodeEnd, finishNode, anyBlock, leaveOut, leaveRestore, lcp]
  | cons c rest =>
    simp [bodyOf, nodeEnd, finishNode, anyBlock, leaveOut, leaveRestore, lcp, findStatic, staticBlock,
      paramBlock, findParam]

theorem route_nil (m path : Str) : route [] m path = .notFound := by
  unfold route
  simp [initial, search_nil, finish]

/-- **L3 on the built tree = L1 on the table**, for every well-formed table -/
theorem find_eq_route_wf (rs : List Route) (m path : Str) (n : Nat) (hn : maxParam rs ≤ n)
    (h : wfTable rs = true) :
    ∃ o, OutRel (find (build rs) m path (List.replicate n [])) o ∧
      C02.OutEquiv o (route (rs.map mkEntry) m path) := by
  cases rs with
  | nil =>
    have hb : build [] = emptyTree := rfl
    refine ⟨.notFound, ?_, ?_⟩
    · rw [hb, find_emptyTree]; exact OutRel.notFound []
    · rw [List.map_nil, route_nil]; trivial
  | cons r rs => exact find_eq_route (r :: rs) m path n hn (build_tableInvariant (r :: rs) (by simp) h)

/-- the tree model never fails on a value slice of at least `maxParam` slots, for every well-formed table -/
theorem find_table_no_panic_wf (rs : List Route) (m path : Str) (n : Nat) (hn : maxParam rs ≤ n)
    (h : wfTable rs = true) : find (build rs) m path (List.replicate n []) ≠ .panic := by
  cases rs with
  | nil =>
    have hb : build [] = emptyTree := rfl
    rw [hb, find_emptyTree]; intro h; cases h
  | cons r rs => exact find_table_no_panic (r :: rs) m path n hn (build_tableInvariant (r :: rs) (by simp) h)

/-- **C01 on the tree model**, for every well-formed table -/
theorem tree_sound_wf (rs : List Route) (m path : Str) (n : Nat) (hn : maxParam rs ≤ n)
    (hwf : wfTable rs = true) (rm : RouteMethod) (vals : List Str)
    (h : find (build rs) m path (List.replicate n []) = .dispatch rm vals) :
    (inst (norm rm.ppath).1 vals = some path ∧ SlashFree (norm rm.ppath).1 vals
        ∧ vals.length = arity (norm rm.ppath).1)
    ∨ ((∃ w, inst (norm rm.ppath).1 w = some path) ∧ vals = rm.pnames.map (fun _ => [])) := by
  cases rs with
  | nil =>
    have hb : build [] = emptyTree := rfl
    rw [hb, find_emptyTree] at h; cases h
  | cons r rs =>
    exact tree_sound (r :: rs) m path n hn (build_tableInvariant (r :: rs) (by simp) hwf) rm vals h

/-- **C05 on the tree model**, for every well-formed table -/
theorem tree_no_panic_wf (rs : List Route) (hwf : wfTable rs = true) :
    C05.NoPanic (C05.routerOf rs) (maxParam rs) := by
  intro m p n hn
  unfold C05.routerOf C05.blank
  simp only [Nat.max_zero]
  exact find_table_no_panic_wf rs m p n hn hwf

/-! ### the hypothesis is not vacuous -/

/-- a table with shared prefixes, a parameter, a wildcard and a split (`/us` splits `/users`) -/
def demoTable : List Route :=
  [⟨['G','E','T'], "/users".toList, 1⟩,
   ⟨['G','E','T'], "/users/:id".toList, 2⟩,
   ⟨['G','E','T'], "/users/:id/books".toList, 3⟩,
   ⟨['P','O','S','T'], "/users".toList, 4⟩,
   ⟨['G','E','T'], "/static/*".toList, 5⟩,
   ⟨['G','E','T'], "/us".toList, 6⟩]

example : wfTable demoTable = true := by decide

/-- the invariant of the demo table by the theorem (not by evaluation) -/
theorem demoTable_invariant : tableInvariant demoTable = (true, true) :=
  build_tableInvariant demoTable (by simp [demoTable]) (by decide)

example : maxParam demoTable = 1 := by decide

/-- routing on the demo table never fails and agrees with the reference search -/
example (m path : Str) : find (build demoTable) m path [[]] ≠ .panic :=
  find_table_no_panic_wf demoTable m path 1 (by decide) (by decide)

example (m path : Str) : ∃ o, OutRel (find (build demoTable) m path [[]]) o ∧
    C02.OutEquiv o (route (demoTable.map mkEntry) m path) :=
  find_eq_route_wf demoTable m path 1 (by decide) (by decide)

/-- an escaped colon or text after `*` makes a table ill-formed; so does a repeated route -/
example : wfTable [⟨['G','E','T'], "/a\\:b".toList, 1⟩] = false := by decide
example : wfTable [⟨['G','E','T'], "/a/*x".toList, 1⟩] = false := by decide
example : wfTable [⟨['G','E','T'], "/a/:x".toList, 1⟩, ⟨['G','E','T'], "/a/:y".toList, 2⟩] = false := by decide

end Router.Tree
