import EchoProofs.Tree.Esc.Corollaries
/-!
# `okTableE`: non-vacuity and sharpness

* the documented use case of escaped colons (`/v1/res/name\:customAction` next to `/v1/res/:name`) and the other
  shapes of the task satisfy `okTableE` (but not `okTable`), so the `…_okE` theorems speak about them;
* the F2 tables (a literal colon and a parameter after the same token prefix) violate `escFree`, their tree
  really breaks (`tableInvariantD … = (false, false)`), and there are concrete requests on which the tree
  model dispatches to the WRONG route (`F2a`) or fails with an index out of range (`F2b`): the hypothesis
  `escFree` of `build_tableInvariantE` / `find_eq_route_okE` / `find_table_no_panic_okE` cannot be dropped.
-/
namespace Router.Tree.EscDemo
open Router Router.Spec Router.Tree

def GET : Str := ['G','E','T']

/-! ### evaluating `tableInvariantD` in the kernel (`resid` is compiled by well-founded recursion) -/

theorem residSL_eq {st : List Node} (h : ∀ c ∈ st, residS c = resid c) : residSL st = belowList st := by
  induction st with
  | nil => rw [residSL, belowList_nil]
  | cons c cs ih =>
    rw [residSL, belowList_cons, h c (by simp), ih (fun d hd => h d (by simp [hd]))]

theorem residSO_eq {o : Option Node} (h : ∀ c, o = some c → residS c = resid c) : residSO o = belowOpt o := by
  cases o with
  | none => rw [residSO, belowOpt_none]
  | some c => rw [residSO, belowOpt_some, h c rfl]

theorem residS_eq (n : Node) : residS n = resid n := by
  refine node_induct (P := fun n => residS n = resid n) ?_ n
  intro k pre ms nf op pc st pa an ihS ihP ihA
  rw [residS, resid_mk', residSL_eq ihS, residSO_eq ihP, residSO_eq ihA]
  rfl

theorem tableInvariantDS_eq (rs : List Route) : tableInvariantD rs = tableInvariantDS rs := by
  unfold tableInvariantD tableInvariantDS
  simp only [residS_eq]

/-! ### tables with escaped colons that are covered -/

/-- the documented use case: a custom action next to a parameter -/
def useCase : List Route :=
  [⟨GET, "/v1/res/name\\:customAction".toList, 1⟩, ⟨GET, "/v1/res/:name".toList, 2⟩]

example : okTableE useCase = true := by decide +kernel
example : okTable useCase = false := by decide +kernel

theorem useCase_invariant : tableInvariantD useCase = (true, true) :=
  build_tableInvariantE useCase (by simp [useCase]) (by decide +kernel)

/-- the executable check agrees with the theorem -/
example : tableInvariantD useCase = (true, true) := by rw [tableInvariantDS_eq]; decide +kernel

example : maxParam useCase = 1 := by decide +kernel

/-- the literal colon is matched literally … -/
example : find (build useCase) GET "/v1/res/name:customAction".toList [[]]
    = .dispatch ⟨"/v1/res/name\\:customAction".toList, [], 1⟩ [] :=
  eq_of_isDispatch (by decide +kernel)

/-- … and the parameter route still serves everything else -/
example : find (build useCase) GET "/v1/res/bob".toList [[]]
    = .dispatch ⟨"/v1/res/:name".toList, ["name".toList], 2⟩ ["bob".toList] :=
  eq_of_isDispatch (by decide +kernel)

/-- further shapes: `\:` at the very end, `\:` followed by `*`, a pattern made only of `\:`, `\\:` (the first
    backslash is ordinary text), a literal colon right after a split point, a literal colon as the first byte
    of a node that a parameter route splits later, a re-registration -/
def shapes : List Route :=
  [⟨GET, "/a/\\:x".toList, 1⟩, ⟨GET, "/a/b".toList, 2⟩, ⟨GET, "/end\\:".toList, 3⟩, ⟨GET, "/w\\:*".toList, 4⟩,
   ⟨GET, "\\:".toList, 5⟩, ⟨GET, "/bs\\\\:x".toList, 6⟩, ⟨GET, "/s\\:x/:id".toList, 7⟩, ⟨GET, "/s\\:y".toList, 8⟩,
   ⟨GET, "/p/\\:ab/c".toList, 9⟩, ⟨GET, "/p/\\:ab/:q".toList, 10⟩, ⟨GET, "/a/\\:x".toList, 11⟩]

example : okTableE shapes = true := by decide +kernel
example : okTable shapes = false := by decide +kernel
example : tableInvariantD shapes = (true, true) :=
  build_tableInvariantE shapes (by simp [shapes]) (by decide +kernel)
example : tableInvariantD shapes = (true, true) := by rw [tableInvariantDS_eq]; decide +kernel

/-! ### F2: the hypothesis `escFree` cannot be dropped -/

/-- corpus/C01/F2a.json -/
def F2a : List Route := [⟨GET, "/x/:id".toList, 1⟩, ⟨GET, "/x/\\:/y".toList, 2⟩]
/-- corpus/C01/F2b.json (the other order) -/
def F2b : List Route := [⟨GET, "/x/\\:/y".toList, 1⟩, ⟨GET, "/x/:id".toList, 2⟩]

/-- every pattern is fine on its own … -/
example : F2a.all (fun r => okPatternE r.path) = true := by decide +kernel
/-- … but the table has an escape conflict -/
example : escFree F2a = false := by decide +kernel
example : escFree F2b = false := by decide +kernel
example : okTableE F2a = false := by decide +kernel
example : okTableE F2b = false := by decide +kernel

/-- the tree of the F2 tables really breaks: neither the invariant nor the residual set hold -/
theorem F2a_breaks : tableInvariantD F2a = (false, false) := by rw [tableInvariantDS_eq]; decide +kernel
theorem F2b_breaks : tableInvariantD F2b = (false, false) := by rw [tableInvariantDS_eq]; decide +kernel
example : tableInvariantD [⟨GET, "/a/\\:x".toList, 1⟩, ⟨GET, "/a/:id".toList, 2⟩] = (false, false) := by
  rw [tableInvariantDS_eq]; decide +kernel
example : tableInvariantD [⟨GET, "/a/:id".toList, 1⟩, ⟨GET, "/a/\\:x".toList, 2⟩] = (false, false) := by
  rw [tableInvariantDS_eq]; decide +kernel

example : maxParam F2a = 1 := by decide +kernel
example : maxParam F2b = 1 := by decide +kernel

/-- F2a: the tree model dispatches `GET /x/abc/y` to the route with the literal colon (handler 2) … -/
theorem F2a_find : find (build F2a) GET "/x/abc/y".toList (List.replicate 1 [])
    = .dispatch ⟨"/x/\\:/y".toList, [], 2⟩ [] :=
  eq_of_isDispatch (by decide +kernel)

/-- … whereas the reference search dispatches to `/x/:id` (handler 1) with the value `abc/y` -/
theorem F2a_route : route ((dedupLast F2a).map mkEntry) GET "/x/abc/y".toList
    = .dispatch (mkEntry ⟨GET, "/x/:id".toList, 1⟩) ["abc/y".toList] := by decide +kernel

/-- so the conclusion of `find_eq_route_okE` is FALSE for the F2 table -/
theorem F2a_not_refined :
    ¬ ∃ o, OutRel (find (build F2a) GET "/x/abc/y".toList (List.replicate 1 [])) o ∧
      C02.OutEquiv o (route ((dedupLast F2a).map mkEntry) GET "/x/abc/y".toList) := by
  rintro ⟨o, ho, he⟩
  rw [F2a_find] at ho
  obtain ⟨mm, rfl⟩ := outRel_dispatch_inv ho
  have := outEquiv_dispatch_left he
  rw [F2a_route] at this
  simp only [Spec.Outcome.dispatch.injEq] at this
  have h2 := congrArg Entry.hid this.1
  simp [mkEntry, entryOf] at h2

def isPanic : Router.Outcome → Bool
  | .panic => true
  | _ => false

theorem eq_of_isPanic {o : Router.Outcome} (h : isPanic o = true) : o = .panic := by
  cases o <;> simp [isPanic] at h
  rfl

/-- F2b: `GET /x/:/y` fails with an index out of range in the tree model although the value slice has
    `maxParam` slots — the conclusion of `find_table_no_panic_okE` is FALSE for the F2 table -/
theorem F2b_panic : find (build F2b) GET "/x/:/y".toList (List.replicate (maxParam F2b) []) = .panic :=
  eq_of_isPanic (by decide +kernel)

/-- the reference search serves that request from the route with the literal colon -/
theorem F2b_route : route ((dedupLast F2b).map mkEntry) GET "/x/:/y".toList
    = .dispatch (mkEntry ⟨GET, "/x/\\:/y".toList, 1⟩) [] := by decide +kernel

end Router.Tree.EscDemo
