import EchoProofs.Tree.Esc.Loop
import EchoProofs.Tree.Insert.Route
/-!
# One registration (`insertRoute`) of a pattern that may contain escaped colons
-/
set_option linter.unusedSimpArgs false
set_option linter.unusedVariables false
namespace Router.Tree.Esc
open Router Router.Spec Router.Tree

variable {W : List (List Tok)}

/-- **one registration**: the tree invariant is kept, no dead leaf remains, and the residual set gains the
    entry of the route (replacing the records of the same method at the same place) -/
theorem insertRoute_ok (hW : World W) (D : Nat) (t : Node) (m path0 : Str) (hid : Nat) (ht : Top W D t)
    (hdead : ∀ x ∈ deads t, x = []) (hok : okPatternE path0 = true) (hD : arity (norm path0).1 ≤ D)
    (hmem : (norm path0).1 ∈ W) :
    Top W D (insertRoute t m path0 hid) ∧ deads (insertRoute t m path0 hid) = []
      ∧ (resid (insertRoute t m path0 hid)).Perm
          (((norm path0).1, mkEntry ⟨m, path0, hid⟩) :: (resid t).filter (keep (norm path0).1 m))
      ∧ (insertLoop m (normalizeSlash path0) hid ((normalizeSlash path0).length + 2) t []
            (normalizeSlash path0) []).2.2 = (norm path0).2 := by
  obtain ⟨r0, hr0⟩ := normalizeSlash_head path0
  have hnorm : (norm (normalizeSlash path0)).1 = (norm path0).1 := by rw [norm_normalizeSlash]
  have hnames : (norm path0).2.length = arity (norm path0).1 := normAux_names _ _
  have hloop := insertLoop_ok hW D m (normalizeSlash path0) hid (norm path0).1 (norm path0).2 (resid t) hD hmem
    hnorm hnames ((normalizeSlash path0).length + 2) t [] (normalizeSlash path0) [] (by omega)
    ⟨ht, ⟨[], [], rfl, Or.inl rfl⟩, by intro x hx; rw [hdead x hx]; exact List.prefix_refl _, List.Perm.refl _⟩
    (by rw [norm_eq_NA]; rfl) (by rw [norm_eq_NA]; rfl) (by rw [← okPatternE_eq_OKE]; exact hok) (by simp)
    (fun _ => by rw [hr0]; rfl) (fun h => absurd rfl h)
  rw [insertRoute_eq]
  rw [chars_nil] at hloop
  generalize insertLoop m (normalizeSlash path0) hid ((normalizeSlash path0).length + 2) t []
    (normalizeSlash path0) [] = L at hloop ⊢
  obtain ⟨t', path, pn⟩ := L
  obtain ⟨hst, hpath, hpn, hstar, hhead⟩ := hloop
  simp only at hst hpath hpn hstar hhead ⊢
  subst hpath
  obtain ⟨f1, f2, f3⟩ := step_final hW (r := ⟨normalizeSlash path0, pn, hid⟩) hst hhead hstar hnorm
    (by rw [hpn]; exact hnames) hD ⟨_, hmem, List.prefix_refl _⟩
  refine ⟨f1, f2, ?_, hpn⟩
  have he : entryOf m ⟨normalizeSlash path0, pn, hid⟩ = mkEntry ⟨m, path0, hid⟩ := by
    simp only [entryOf, mkEntry, hnorm, hpn]
  rw [← he]
  exact f3

end Router.Tree.Esc
