import EchoProofs.Tree.Esc.Defs
/-!
# Insertion with escaped colons: dead leaves after an insertion (as `Insert/Paths.lean`, for the invariant of `Esc/Defs.lean`)
-/
set_option linter.unusedSimpArgs false
set_option linter.unusedVariables false
namespace Router.Tree.Esc
open Router Router.Spec Router.Tree

variable {W : List (List Tok)}

/-- a dead leaf below a child that `insertAt` does not touch stays, and is not on the way to the new text -/
theorem deads_other {D : Nat} {above : List Tok} {k a ms nf op pc st pa an} {d : Node} {y : Str} {c : Char}
    {s' : Str} (h : tiR W D above (.mk k a ms nf op pc st pa an)) (hd : IsChild d st pa an) (hy : y ∈ deads d)
    (hl : d.label ≠ some c) :
    a ++ y ∈ deads (.mk k a ms nf op pc st pa an) ∧ ¬ (a ++ y) <+: (a ++ c :: s') := by
  refine ⟨mem_deads_mk.mpr (Or.inr ⟨d, hd, y, hy, rfl⟩), not_prefix_app ?_⟩
  obtain ⟨z, hz⟩ := deads_prefix hy
  rw [hz]
  exact not_prefix_of_label hl (child_pre_ne h hd)

/-- the dead leaves after an insertion: possibly the new node (when no record is written); the
    old ones stay unless they are on the way to the new text -/
theorem insertAt_deads (hW : World W) (m : Str) (t : Kind) (rm : Option RouteMethod) (s : Str) (n : Node) :
    ∀ (D : Nat) (above : List Tok), tiR W D above n →
      (lcp s n.pre = 0 → n.statics = [] ∧ n.param = none ∧ n.any = none) →
      ∀ x ∈ deads (insertAt m s t rm n), (x = s ∧ rm = none) ∨ (x ∈ deads n ∧ ¬ x <+: s) := by
  refine insertAt_cases m t rm (fun s n r => ∀ (D : Nat) (above : List Tok), tiR W D above n →
      (lcp s n.pre = 0 → n.statics = [] ∧ n.param = none ∧ n.any = none) →
      ∀ x ∈ deads r, (x = s ∧ rm = none) ∨ (x ∈ deads n ∧ ¬ x <+: s)) ?_ ?_ ?_ ?_ ?_ ?_ ?_ ?_ s n
  · -- take-over of the empty root
    intro s k p ms nf op pc st pa an h0 D above _ hroot x hx
    obtain ⟨h1, h2, h3⟩ := hroot h0
    simp only [Node.statics, Node.param, Node.any] at h1 h2 h3
    subst h1 h2 h3
    rcases mem_deads_withRec.mp hx with ⟨hx, hrm, _⟩ | ⟨c, hc, _⟩
    · exact Or.inl ⟨hx, hrm⟩
    · simp [IsChild] at hc
  · -- split, the new text ends at the split point
    intro a y p' k ms nf op pc st pa an ha D above _ _ x hx
    rcases mem_deads_withRec.mp hx with ⟨_, _, hd⟩ | ⟨c, hc, z, hz, hx⟩
    · rw [isDead_cons_false] at hd; cases hd
    · have hc' : c = .mk k (y :: p') ms nf op pc st pa an := by simpa [IsChild] using hc
      subst hc'
      obtain ⟨w, hw⟩ := deads_prefix hz
      refine Or.inr ⟨by rw [hx]; exact deads_shift hz, ?_⟩
      rw [hx, hw]
      exact not_prefix_self_app (by simp [Node.pre])
  · -- split with a new branch
    intro a x0 s' y p' k ms nf op pc st pa an ha hne D above _ _ x hx
    rcases mem_deads_mk.mp hx with ⟨_, hd⟩ | ⟨c, hc, z, hz, hx⟩
    · rw [isDead_cons_false] at hd; cases hd
    · have hc' : c = .mk k (y :: p') ms nf op pc st pa an
          ∨ c = withRec m rm t (x0 :: s') [] none [] 0 [] none none := by simpa [IsChild] using hc
      rcases hc' with hc' | hc'
      · subst hc'
        obtain ⟨w, hw⟩ := deads_prefix hz
        refine Or.inr ⟨by rw [hx]; exact deads_shift hz, ?_⟩
        rw [hx, hw]
        apply not_prefix_app
        simp only [Node.pre, List.cons_append, List.cons_prefix_cons]
        exact fun h => hne h.1.symm
      · subst hc'
        rcases mem_deads_withRec.mp hz with ⟨hz, hrm, _⟩ | ⟨c, hc, _⟩
        · exact Or.inl ⟨by rw [hx, hz], hrm⟩
        · simp [IsChild] at hc
  · -- descend into a static child
    intro a c s' k ms nf op pc st1 ch st2 pa an ha hch h1 ih D above hti _ x hx
    have hother := other_label_S hW hti hch h1
    rcases mem_deads_mk.mp hx with ⟨_, hd⟩ | ⟨d, hd, z, hz, hx⟩
    · rw [isDead_mid_false] at hd; cases hd
    · have hd' : d = insertAt m (c :: s') t rm ch ∨ (d ∈ st1 ∨ d ∈ st2 ∨ pa = some d ∨ an = some d) := by
        simp only [IsChild, List.mem_append, List.mem_cons] at hd
        rcases hd with (hd | hd | hd) | hd | hd
        · exact Or.inr (Or.inl hd)
        · exact Or.inl hd
        · exact Or.inr (Or.inr (Or.inl hd))
        · exact Or.inr (Or.inr (Or.inr (Or.inl hd)))
        · exact Or.inr (Or.inr (Or.inr (Or.inr hd)))
      rcases hd' with hd' | hd'
      · subst hd'
        have hchild : IsChild ch (st1 ++ ch :: st2) pa an := Or.inl (by simp)
        rcases ih D _ (tiR_child hti hchild) (fun h0 => absurd h0 (lcp_ne_zero_of_label hch)) z hz with
          ⟨hz, hrm⟩ | ⟨hz, hnp⟩
        · exact Or.inl ⟨by rw [hx, hz], hrm⟩
        · exact Or.inr ⟨by rw [hx]; exact mem_deads_mk.mpr (Or.inr ⟨ch, hchild, z, hz, rfl⟩),
            by rw [hx]; exact not_prefix_app hnp⟩
      · have hchild : IsChild d (st1 ++ ch :: st2) pa an := by
          rcases hd' with h | h | h | h
          · exact Or.inl (by simp [h])
          · exact Or.inl (by simp [h])
          · exact Or.inr (Or.inl h)
          · exact Or.inr (Or.inr h)
        rw [hx]
        exact Or.inr (deads_other hti hchild hz (hother d hd'))
  · -- descend into the param child
    intro a s' k ms nf op pc st ch an ha h1 ih D above hti _ x hx
    have hother := other_label_P hti h1
    rcases mem_deads_mk.mp hx with ⟨_, hd⟩ | ⟨d, hd, z, hz, hx⟩
    · rw [isDead_pa_false] at hd; cases hd
    · have hd' : d = insertAt m (':' :: s') t rm ch ∨ (d ∈ st ∨ an = some d) := by
        simp only [IsChild, Option.some.injEq] at hd
        rcases hd with hd | hd | hd
        · exact Or.inr (Or.inl hd)
        · exact Or.inl hd.symm
        · exact Or.inr (Or.inr hd)
      rcases hd' with hd' | hd'
      · subst hd'
        have hchild : IsChild ch st (some ch) an := Or.inr (Or.inl rfl)
        rcases ih D _ (tiR_child hti hchild)
          (fun h0 => absurd h0 (lcp_ne_zero_of_label (child_param_label hti rfl))) z hz with
          ⟨hz, hrm⟩ | ⟨hz, hnp⟩
        · exact Or.inl ⟨by rw [hx, hz], hrm⟩
        · exact Or.inr ⟨by rw [hx]; exact mem_deads_mk.mpr (Or.inr ⟨ch, hchild, z, hz, rfl⟩),
            by rw [hx]; exact not_prefix_app hnp⟩
      · have hchild : IsChild d st (some ch) an := by
          rcases hd' with h | h
          · exact Or.inl h
          · exact Or.inr (Or.inr h)
        rw [hx]
        exact Or.inr (deads_other hti hchild hz (hother d hd'))
  · -- descend into the any child
    intro a s' k ms nf op pc st pa ch ha h1 ih D above hti _ x hx
    have hother := other_label_A hti h1
    rcases mem_deads_mk.mp hx with ⟨_, hd⟩ | ⟨d, hd, z, hz, hx⟩
    · rw [isDead_an_false] at hd; cases hd
    · have hd' : d = insertAt m ('*' :: s') t rm ch ∨ (d ∈ st ∨ pa = some d) := by
        simp only [IsChild, Option.some.injEq] at hd
        rcases hd with hd | hd | hd
        · exact Or.inr (Or.inl hd)
        · exact Or.inr (Or.inr hd)
        · exact Or.inl hd.symm
      rcases hd' with hd' | hd'
      · subst hd'
        have hchild : IsChild ch st pa (some ch) := Or.inr (Or.inr rfl)
        rcases ih D _ (tiR_child hti hchild)
          (fun h0 => absurd h0 (lcp_ne_zero_of_label (child_any_label hti rfl))) z hz with
          ⟨hz, hrm⟩ | ⟨hz, hnp⟩
        · exact Or.inl ⟨by rw [hx, hz], hrm⟩
        · exact Or.inr ⟨by rw [hx]; exact mem_deads_mk.mpr (Or.inr ⟨ch, hchild, z, hz, rfl⟩),
            by rw [hx]; exact not_prefix_app hnp⟩
      · have hchild : IsChild d st pa (some ch) := by
          rcases hd' with h | h
          · exact Or.inl h
          · exact Or.inr (Or.inl h)
        rw [hx]
        exact Or.inr (deads_other hti hchild hz (hother d hd'))
  · -- a new child
    intro a c s' k ms nf op pc st pa an ha h1 hp hA D above hti _ x hx
    have hother := other_label_new hti h1 hp hA
    have hleaf : ∀ z, z ∈ deads (withRec m rm t (c :: s') [] none [] 0 [] none none) →
        z = c :: s' ∧ rm = none := by
      intro z hz
      rcases mem_deads_withRec.mp hz with ⟨hz, hrm, _⟩ | ⟨c, hc, _⟩
      · exact ⟨hz, hrm⟩
      · simp [IsChild] at hc
    have key : ∀ d z, (d = withRec m rm t (c :: s') [] none [] 0 [] none none ∨ IsChild d st pa an) →
        z ∈ deads d → x = a ++ z →
        (x = a ++ c :: s' ∧ rm = none) ∨
          (x ∈ deads (.mk k a ms nf op pc st pa an) ∧ ¬ x <+: a ++ c :: s') := by
      intro d z hd hz hx
      rcases hd with hd | hd
      · subst hd
        obtain ⟨hz, hrm⟩ := hleaf z hz
        exact Or.inl ⟨by rw [hx, hz], hrm⟩
      · rw [hx]; exact Or.inr (deads_other hti hd hz (hother d hd))
    cases t with
    | static =>
      rcases mem_deads_mk.mp hx with ⟨_, hd⟩ | ⟨d, hd, z, hz, hx⟩
      · rw [isDead_snoc_false] at hd; cases hd
      · refine key d z ?_ hz hx
        simp only [IsChild, List.mem_append, List.mem_singleton] at hd ⊢
        rcases hd with (hd | hd) | hd | hd
        · exact Or.inr (Or.inl hd)
        · exact Or.inl hd
        · exact Or.inr (Or.inr (Or.inl hd))
        · exact Or.inr (Or.inr (Or.inr hd))
    | param =>
      rcases mem_deads_mk.mp hx with ⟨_, hd⟩ | ⟨d, hd, z, hz, hx⟩
      · rw [isDead_pa_false] at hd; cases hd
      · refine key d z ?_ hz hx
        simp only [IsChild, Option.some.injEq] at hd ⊢
        rcases hd with hd | hd | hd
        · exact Or.inr (Or.inl hd)
        · exact Or.inl hd.symm
        · exact Or.inr (Or.inr (Or.inr hd))
    | any =>
      rcases mem_deads_mk.mp hx with ⟨_, hd⟩ | ⟨d, hd, z, hz, hx⟩
      · rw [isDead_an_false] at hd; cases hd
      · refine key d z ?_ hz hx
        simp only [IsChild, Option.some.injEq] at hd ⊢
        rcases hd with hd | hd | hd
        · exact Or.inr (Or.inl hd)
        · exact Or.inr (Or.inr (Or.inl hd))
        · exact Or.inl hd.symm
  · -- the node exists
    intro k p ms nf op pc st pa an hp D above hti _ x hx
    rcases mem_deads_withRec.mp hx with ⟨hx, hrm, _⟩ | ⟨d, hd, z, hz, hx⟩
    · exact Or.inl ⟨hx, hrm⟩
    · refine Or.inr ⟨by rw [hx]; exact mem_deads_mk.mpr (Or.inr ⟨d, hd, z, hz, rfl⟩), ?_⟩
      obtain ⟨w, hw⟩ := deads_prefix hz
      rw [hx, hw]
      apply not_prefix_self_app
      have := child_pre_ne hti hd
      simp [this]

end Router.Tree.Esc
