import EchoProofs.Tree.Esc.Defs
/-!
# Patterns with escaped colons: `okPatternE` with canonical fuel, the world of an `okTableE`
-/
set_option linter.unusedSimpArgs false
set_option linter.unusedVariables false
namespace Router.Tree.Esc
open Router Router.Spec Router.Tree

theorem okPatternEAux_cons (f : Nat) (c : Char) (rest : Str) :
    okPatternEAux (f + 1) (c :: rest) =
      if c = '\\' ∧ rest.head? = some ':' then okPatternEAux f rest.tail
      else if c = ':' then okPatternEAux f (rest.dropWhile (· ≠ '/'))
      else if c = '*' then rest.isEmpty
      else okPatternEAux f rest := by
  simp only [okPatternEAux]

theorem okPatternEAux_fuel : ∀ (f f' : Nat) (s : Str), s.length < f → s.length < f' →
    okPatternEAux f s = okPatternEAux f' s := by
  intro f
  induction f with
  | zero => intro f' s h; omega
  | succ f ih =>
    intro f' s h h'
    obtain ⟨g, rfl⟩ : ∃ g, f' = g + 1 := ⟨f' - 1, by omega⟩
    cases s with
    | nil => simp [okPatternEAux]
    | cons c rest =>
      simp only [List.length_cons] at h h'
      have h1 : rest.tail.length ≤ rest.length := by simp
      have h2 := dropWhile_length_le (· ≠ '/') rest
      rw [okPatternEAux_cons, okPatternEAux_cons, ih g rest.tail (by omega) (by omega),
        ih g (rest.dropWhile (· ≠ '/')) (by omega) (by omega), ih g rest (by omega) (by omega)]

/-- `okPatternEAux` with just enough fuel -/
def OKE (s : Str) : Bool := okPatternEAux (s.length + 1) s

theorem OKE_cons (c : Char) (rest : Str) :
    OKE (c :: rest) =
      if c = '\\' ∧ rest.head? = some ':' then OKE rest.tail
      else if c = ':' then OKE (rest.dropWhile (· ≠ '/'))
      else if c = '*' then rest.isEmpty
      else OKE rest := by
  unfold OKE
  have h1 : rest.tail.length ≤ rest.length := by simp
  have h2 := dropWhile_length_le (· ≠ '/') rest
  simp only [List.length_cons]
  rw [okPatternEAux_cons,
    okPatternEAux_fuel (rest.length + 1) (rest.tail.length + 1) rest.tail (by omega) (by omega),
    okPatternEAux_fuel (rest.length + 1) ((rest.dropWhile (· ≠ '/')).length + 1) (rest.dropWhile (· ≠ '/'))
      (by omega) (by omega)]

theorem okPatternE_eq_OKE (p : Str) : okPatternE p = OKE (normalizeSlash p) := rfl

/-! ### `okPattern` implies `okPatternE`, and its tokens have no literal colon -/

theorem okE_of_ok : ∀ (f : Nat) (s : Str), okPatternAux f s = true → okPatternEAux f s = true := by
  intro f
  induction f with
  | zero => intro s _; rfl
  | succ f ih =>
    intro s h
    cases s with
    | nil => rfl
    | cons c rest =>
      rw [okPatternAux_cons] at h
      rw [okPatternEAux_cons]
      by_cases h1 : c = '\\' ∧ rest.head? = some ':'
      · rw [if_pos h1] at h; cases h
      · rw [if_neg h1] at h ⊢
        by_cases h2 : c = ':'
        · rw [if_pos h2] at h ⊢; exact ih _ h
        · rw [if_neg h2] at h ⊢
          by_cases h3 : c = '*'
          · rw [if_pos h3] at h ⊢; exact h
          · rw [if_neg h3] at h ⊢; exact ih _ h

theorem okPatternE_of_ok {p : Str} (h : okPattern p = true) : okPatternE p = true := okE_of_ok _ _ h

theorem no_lit_colon_of_ok : ∀ (f : Nat) (s : Str), okPatternAux f s = true → Tok.lit ':' ∉ (normAux f s).1 := by
  intro f
  induction f with
  | zero => intro s _; simp [normAux]
  | succ f ih =>
    intro s h
    cases s with
    | nil => simp [normAux]
    | cons c rest =>
      rw [okPatternAux_cons] at h
      rw [normAux_cons]
      by_cases h1 : c = '\\' ∧ rest.head? = some ':'
      · rw [if_pos h1] at h; cases h
      · rw [if_neg h1] at h ⊢
        by_cases h2 : c = ':'
        · rw [if_pos h2] at h ⊢
          simp only [List.mem_cons, not_or]
          exact ⟨by simp, ih _ h⟩
        · rw [if_neg h2] at h ⊢
          by_cases h3 : c = '*'
          · rw [if_pos h3]; simp
          · rw [if_neg h3] at h ⊢
            simp only [List.mem_cons, not_or, Tok.lit.injEq]
            exact ⟨fun he => h2 he.symm, ih _ h⟩

/-- the tokens of a pattern never contain a literal `*` -/
theorem no_lit_star : ∀ (f : Nat) (s : Str), Tok.lit '*' ∉ (normAux f s).1 := by
  intro f
  induction f with
  | zero => intro s; simp [normAux]
  | succ f ih =>
    intro s
    cases s with
    | nil => simp [normAux]
    | cons c rest =>
      rw [normAux_cons]
      by_cases h1 : c = '\\' ∧ rest.head? = some ':'
      · rw [if_pos h1]
        simp only [List.mem_cons, not_or, Tok.lit.injEq]
        exact ⟨by decide, ih _⟩
      · rw [if_neg h1]
        by_cases h2 : c = ':'
        · rw [if_pos h2]
          simp only [List.mem_cons, not_or]
          exact ⟨by simp, ih _⟩
        · rw [if_neg h2]
          by_cases h3 : c = '*'
          · rw [if_pos h3]; simp
          · rw [if_neg h3]
            simp only [List.mem_cons, not_or, Tok.lit.injEq]
            exact ⟨fun he => h3 he.symm, ih _⟩

/-! ### `conflict` -/

theorem conflict_cons (x y : Tok) (a b : List Tok) :
    conflict (x :: a) (y :: b) =
      if x = y then conflict a b else (x == .lit ':' && y == .param) || (x == .param && y == .lit ':') := by
  rw [conflict]

theorem conflict_split (q r1 r2 : List Tok) : conflict (q ++ Tok.lit ':' :: r1) (q ++ Tok.param :: r2) = true := by
  induction q with
  | nil => simp [conflict_cons]
  | cons x q ih => simp [conflict_cons, ih]

theorem conflict_comm : ∀ (a b : List Tok), conflict a b = conflict b a := by
  intro a
  induction a with
  | nil => intro b; cases b <;> simp [conflict]
  | cons x a ih =>
    intro b
    cases b with
    | nil => simp [conflict]
    | cons y b =>
      rw [conflict_cons, conflict_cons]
      by_cases h : x = y
      · subst h; simp [ih]
      · have h' : ¬ y = x := fun e => h e.symm
        rw [if_neg h, if_neg h', Bool.or_comm]
        congr 1 <;> rw [Bool.and_comm]

/-- a conflict needs a literal colon -/
theorem lit_colon_of_conflict : ∀ (a b : List Tok), conflict a b = true → Tok.lit ':' ∈ a ∨ Tok.lit ':' ∈ b := by
  intro a
  induction a with
  | nil => intro b h; cases b <;> simp [conflict] at h
  | cons x a ih =>
    intro b h
    cases b with
    | nil => simp [conflict] at h
    | cons y b =>
      rw [conflict_cons] at h
      by_cases hxy : x = y
      · rw [if_pos hxy] at h
        rcases ih b h with h' | h'
        · exact Or.inl (List.mem_cons_of_mem _ h')
        · exact Or.inr (List.mem_cons_of_mem _ h')
      · rw [if_neg hxy] at h
        simp only [Bool.or_eq_true, Bool.and_eq_true, beq_iff_eq] at h
        rcases h with h | h
        · left; rw [h.1]; exact List.mem_cons_self
        · right; rw [h.2]; exact List.mem_cons_self

/-- **the token lists of a table without escape conflict form a world** -/
theorem world_of_escFree {rs : List Route} (h : escFree rs = true) :
    World (rs.map fun r => (norm r.path).1) := by
  simp only [escFree, List.all_eq_true, Bool.not_eq_true'] at h
  constructor
  · intro w hw
    obtain ⟨r, _, rfl⟩ := List.mem_map.mp hw
    exact no_lit_star _ _
  · intro w1 hw1 w2 hw2 q r1 r2 e1 e2
    obtain ⟨a, ha, rfl⟩ := List.mem_map.mp hw1
    obtain ⟨b, hb, rfl⟩ := List.mem_map.mp hw2
    have := h a ha b hb
    rw [e1, e2, conflict_split] at this
    cases this

theorem okTableE_of_ok {rs : List Route} (h : okTable rs = true) : okTableE rs = true := by
  simp only [okTable, List.all_eq_true] at h
  simp only [okTableE, escFree, Bool.and_eq_true, List.all_eq_true, Bool.not_eq_true']
  refine ⟨fun r hr => okPatternE_of_ok (h r hr), ?_⟩
  intro a ha b hb
  cases hc : conflict (norm a.path).1 (norm b.path).1 with
  | false => rfl
  | true =>
    rcases lit_colon_of_conflict _ _ hc with h' | h'
    · exact absurd h' (no_lit_colon_of_ok _ _ (h a ha))
    · exact absurd h' (no_lit_colon_of_ok _ _ (h b hb))

/-- the formulation with positions agrees with `conflict` -/
theorem conflictAt_iff (a b : List Tok) :
    conflict a b = true ↔ ∃ k, conflictAt a b k = true ∨ conflictAt b a k = true := by
  induction a generalizing b with
  | nil =>
    simp only [conflict, Bool.false_eq_true, false_iff, not_exists, not_or]
    intro k
    constructor <;> simp [conflictAt]
  | cons x a ih =>
    cases b with
    | nil =>
      simp only [conflict, Bool.false_eq_true, false_iff, not_exists, not_or]
      intro k
      constructor <;> simp [conflictAt]
    | cons y b =>
      rw [conflict_cons]
      by_cases hxy : x = y
      · subst hxy
        rw [if_pos rfl, ih b]
        constructor
        · rintro ⟨k, hk⟩
          refine ⟨k + 1, ?_⟩
          simpa [conflictAt] using hk
        · rintro ⟨k, hk⟩
          cases k with
          | zero =>
            simp [conflictAt] at hk
            obtain ⟨h1, h2⟩ := hk
            rw [h1] at h2; cases h2
          | succ k => exact ⟨k, by simpa [conflictAt] using hk⟩
      · rw [if_neg hxy]
        constructor
        · intro h
          refine ⟨0, ?_⟩
          simp only [Bool.or_eq_true, Bool.and_eq_true, beq_iff_eq] at h
          rcases h with h | h
          · left; simp [conflictAt, h.1, h.2]
          · right; simp [conflictAt, h.1, h.2]
        · rintro ⟨k, hk⟩
          cases k with
          | zero =>
            simp only [conflictAt, List.take_zero, BEq.rfl, Bool.true_and, List.getElem?_cons_zero,
              Bool.and_eq_true, beq_iff_eq, Option.some.injEq] at hk
            rcases hk with hk | hk
            · simp [hk.1, hk.2]
            · simp [hk.1, hk.2]
          | succ k =>
            exfalso
            have hxy' : ¬ y = x := fun e => hxy e.symm
            rcases hk with hk | hk <;> simp [conflictAt, hxy, hxy'] at hk

end Router.Tree.Esc
