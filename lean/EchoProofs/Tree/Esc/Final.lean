import EchoProofs.Tree.Esc.Route
import EchoProofs.Tree.Dedup
/-!
# `Router.build` on tables WITH escaped colons

`build_tableInvariantE : rs ≠ [] → okTableE rs = true → tableInvariantD rs = (true, true)`:
for every non-empty table whose patterns have no text after `*` and whose literal colons never meet a
parameter at the same position (`escFree`), the tree built by the model of echo's router satisfies the
invariant `tiNode` and represents exactly the table in force (`dedupLast rs`; re-registrations allowed).
`build_okE` are the three facts `find_eq_route_of_repr` needs.  `okTableE_of_ok` shows that the theorem
subsumes `build_tableInvariantD`.
-/
set_option linter.unusedSimpArgs false
set_option linter.unusedVariables false
namespace Router.Tree.Esc
open Router Router.Spec Router.Tree

variable {W : List (List Tok)}

/-- a tree satisfying the relaxed invariant and without dead leaves satisfies `tiNode` -/
theorem tiNode_of_tiR (n : Node) : ∀ (D : Nat) (above : List Tok), tiR W D above n → deads n = [] →
    tiNode D above n = true := by
  refine node_induct (P := fun n => ∀ (D : Nat) (above : List Tok), tiR W D above n → deads n = [] →
    tiNode D above n = true) ?_ n
  intro k pre ms nf op pc st pa an ihS ihP ihA D above hti hdead
  obtain ⟨hl, hS, hP, hA⟩ := (tiR_mk ..).mp hti
  have hkid : ∀ c, IsChild c st pa an → deads c = [] := by
    intro c hc
    rw [List.eq_nil_iff_forall_not_mem]
    intro y hy
    have : pre ++ y ∈ deads (.mk k pre ms nf op pc st pa an) := mem_deads_mk.mpr (Or.inr ⟨c, hc, y, hy, rfl⟩)
    rw [hdead] at this; simp at this
  have halive : isDead ms nf st pa an = false := by
    cases h : isDead ms nf st pa an with
    | false => rfl
    | true =>
      have : pre ∈ deads (.mk k pre ms nf op pc st pa an) := mem_deads_mk.mpr (Or.inl ⟨rfl, h⟩)
      rw [hdead] at this; simp at this
  simp only [tiNode, Bool.and_eq_true, decide_eq_true_eq]
  refine ⟨⟨⟨⟨⟨⟨⟨⟨hl.depth, ?_⟩, ?_⟩, ?_⟩, ?_⟩, hl.distinct⟩, ?_⟩, ?_⟩, ?_⟩
  · revert halive
    cases ms <;> cases nf <;> cases st <;> cases pa <;> cases an <;> simp [isDead]
  · cases k with
    | static => rfl
    | param => simp [hl.kP rfl]
    | any =>
      obtain ⟨h1, h2, h3, h4, h5⟩ := hl.kA rfl
      simp [h1, h2, h3, h4, h5]
  · rw [List.all_eq_true]
    intro x hx
    have := hl.recs x hx
    simp [hl.noNf x hx, this.1, this.2]
  · cases nf with
    | none => rfl
    | some rm =>
      have := hl.nfRec rm rfl
      simp [this.1, this.2]
  · rw [tiList_iff]
    intro c hc
    exact ⟨(hl.stK c hc).1, (hl.stK c hc).2, ihS c hc D _ ((tiRL_iff ..).mp hS c hc) (hkid c (Or.inl hc))⟩
  · rw [tiOpt_iff]
    intro c hc
    exact ⟨hl.paK c hc, ihP c hc D _ ((tiRO_iff ..).mp hP c hc) (hkid c (Or.inr (Or.inl hc)))⟩
  · rw [tiOpt_iff]
    intro c hc
    exact ⟨hl.anK c hc, ihA c hc D _ ((tiRO_iff ..).mp hA c hc) (hkid c (Or.inr (Or.inr hc)))⟩

/-! ### the empty tree -/

theorem top_empty (D : Nat) (hne : W ≠ []) : Top W D emptyTree := by
  refine ⟨?_, rfl, Or.inl rfl⟩
  have hin : InW W ([] ++ []) := by
    cases W with
    | nil => exact absurd rfl hne
    | cons w _ => exact ⟨w, List.mem_cons_self, List.nil_prefix⟩
  exact tiR_leaf (m := []) (rm := none) (t := .static) (tv := []) ⟨[], rfl⟩ (by simp [arity]) hin
    (by intro r hr; cases hr) (by intro h; cases h)

/-! ### `maxParam` -/

theorem world_single (w : List Tok) (h : Tok.lit '*' ∉ w) : World [w] := by
  constructor
  · intro w' hw'
    simp only [List.mem_singleton] at hw'
    rw [hw']; exact h
  · intro w1 hw1 w2 hw2 q r1 r2 e1 e2
    simp only [List.mem_singleton] at hw1 hw2
    rw [hw1] at e1
    rw [hw2, e1] at e2
    have := List.append_cancel_left e2
    simp at this

theorem paramCountOf_eq {p : Str} (h : okPatternE p = true) : paramCountOf p = arity (norm p).1 := by
  have hW := world_single (norm p).1 (no_lit_star _ _)
  have := (insertRoute_ok hW (arity (norm p).1) emptyTree [] p 0 (top_empty _ (by simp)) deads_empty h
    (Nat.le_refl _) (by simp)).2.2.2
  show (insertLoop [] (normalizeSlash p) 0 ((normalizeSlash p).length + 2) emptyTree []
    (normalizeSlash p) []).2.2.length = _
  rw [this]
  exact normAux_names _ _

/-! ### the whole table -/

/-- the registrations one after the other, duplicates allowed -/
theorem fold_gen (hW : World W) (D : Nat) : ∀ (rs : List Route) (t : Node) (X : R), Top W D t →
    (∀ x ∈ deads t, x = []) → (resid t).Perm X →
    (∀ r ∈ rs, okPatternE r.path = true ∧ arity (norm r.path).1 ≤ D ∧ (norm r.path).1 ∈ W) →
    Top W D (rs.foldl (fun t r => insertRoute t r.method r.path r.hid) t)
      ∧ (rs ≠ [] → deads (rs.foldl (fun t r => insertRoute t r.method r.path r.hid) t) = [])
      ∧ (resid (rs.foldl (fun t r => insertRoute t r.method r.path r.hid) t)).Perm (rs.foldl regStep X) := by
  intro rs
  induction rs with
  | nil =>
    intro t X ht _ hres _
    exact ⟨ht, fun h => absurd rfl h, hres⟩
  | cons r rs ih =>
    intro t X ht hdead hres hok
    obtain ⟨hokr, hDr, hmr⟩ := hok r (by simp)
    obtain ⟨f1, f2, f3, _⟩ := insertRoute_ok hW D t r.method r.path r.hid ht hdead hokr hDr hmr
    simp only [List.foldl_cons]
    have hres1 : (resid (insertRoute t r.method r.path r.hid)).Perm (regStep X r) :=
      f3.trans (regStep_perm hres r)
    obtain ⟨g1, g2, g3⟩ := ih (insertRoute t r.method r.path r.hid) (regStep X r) f1
      (by intro x hx; rw [f2] at hx; simp at hx) hres1 (fun r' hr' => hok r' (by simp [hr']))
    refine ⟨g1, fun _ => ?_, g3⟩
    by_cases hrs : rs = []
    · subst hrs; exact f2
    · exact g2 hrs

theorem okTableE_parts {rs : List Route} (h : okTableE rs = true) :
    (∀ r ∈ rs, okPatternE r.path = true) ∧ escFree rs = true := by
  simp only [okTableE, Bool.and_eq_true, List.all_eq_true] at h
  exact h

theorem okTableE_bound {rs : List Route} (h : okTableE rs = true) :
    ∀ r ∈ rs, okPatternE r.path = true ∧ arity (norm r.path).1 ≤ maxParam rs
      ∧ (norm r.path).1 ∈ rs.map (fun r => (norm r.path).1) := by
  obtain ⟨hp, _⟩ := okTableE_parts h
  intro r hr
  refine ⟨hp r hr, ?_, List.mem_map.mpr ⟨r, hr, rfl⟩⟩
  rw [← paramCountOf_eq (hp r hr)]
  exact le_maxParam hr

end Router.Tree.Esc

namespace Router.Tree
open Router Router.Spec Router.Tree.Esc

/-- the three facts about the tree of a non-empty `okTableE` (what `find_eq_route_of_repr` needs) -/
theorem build_okE (rs : List Route) (hne : rs ≠ []) (h : okTableE rs = true) :
    tiNode (maxParam rs) [] (build rs) = true ∧ (build rs).kind = .static
      ∧ (resid (build rs)).Perm (initial ((dedupLast rs).map mkEntry)) := by
  have hW := world_of_escFree (okTableE_parts h).2
  have hWne : rs.map (fun r => (norm r.path).1) ≠ [] := by
    cases rs with
    | nil => exact absurd rfl hne
    | cons _ _ => simp
  obtain ⟨f1, f2, f3⟩ := Esc.fold_gen hW (maxParam rs) rs emptyTree [] (Esc.top_empty _ hWne) deads_empty
    (by rw [resid_emptyTree]) (okTableE_bound h)
  refine ⟨Esc.tiNode_of_tiR _ _ _ f1.inv (f2 hne), f1.kind, ?_⟩
  have := f3.trans (foldl_regStep rs [])
  unfold build
  simpa using this

/-- **`Router.build` yields a tree satisfying the invariant and representing the table in force**, for every
    non-empty table without text after `*` and without escape conflict — escaped colons and re-registrations
    allowed -/
theorem build_tableInvariantE (rs : List Route) (hne : rs ≠ []) (h : okTableE rs = true) :
    tableInvariantD rs = (true, true) := by
  obtain ⟨h1, h2, h3⟩ := build_okE rs hne h
  unfold tableInvariantD
  simp only [Prod.mk.injEq, Bool.and_eq_true, decide_eq_true_eq, List.isPerm_iff]
  exact ⟨⟨h1, h2⟩, h3⟩

/-- (RS) also for the empty table -/
theorem build_RS_okE (rs : List Route) (h : okTableE rs = true) :
    (resid (build rs)).Perm (initial ((dedupLast rs).map mkEntry)) := by
  cases rs with
  | nil =>
    have hb : build [] = emptyTree := rfl
    rw [hb, resid_emptyTree]; exact List.Perm.refl _
  | cons r rs => exact (build_okE (r :: rs) (by simp) h).2.2

/-- the new hypothesis is weaker than the old one: `build_tableInvariantE` subsumes `build_tableInvariantD` -/
theorem okTableE_of_ok {rs : List Route} (h : okTable rs = true) : okTableE rs = true := Esc.okTableE_of_ok h

/-- `escFree` in the formulation with positions: no two routes whose tokens agree before position `k` and
    continue with a literal colon in one and a parameter in the other -/
theorem escFree_iff (rs : List Route) :
    escFree rs = true ↔ ∀ r1 ∈ rs, ∀ r2 ∈ rs, ∀ k, conflictAt (norm r1.path).1 (norm r2.path).1 k = false := by
  simp only [escFree, List.all_eq_true, Bool.not_eq_true']
  constructor
  · intro h r1 h1 r2 h2 k
    cases hc : conflictAt (norm r1.path).1 (norm r2.path).1 k with
    | false => rfl
    | true =>
      have := (Esc.conflictAt_iff _ _).mpr ⟨k, Or.inl hc⟩
      rw [h r1 h1 r2 h2] at this; cases this
  · intro h r1 h1 r2 h2
    cases hc : conflict (norm r1.path).1 (norm r2.path).1 with
    | false => rfl
    | true =>
      obtain ⟨k, hk | hk⟩ := (Esc.conflictAt_iff _ _).mp hc
      · rw [h r1 h1 r2 h2 k] at hk; cases hk
      · rw [h r2 h2 r1 h1 k] at hk; cases hk

end Router.Tree
