import EchoProofs.Tree.Esc.Inv
/-!
# Insertion with escaped colons: the residual set after an insertion
-/
set_option linter.unusedSimpArgs false
set_option linter.unusedVariables false
namespace Router.Tree.Esc
open Router Router.Spec Router.Tree

variable {W : List (List Tok)}

/-- every residual of a subtree starts with the first token of its root -/
theorem resid_first {d : Node} {tok : Tok} {rest : List Tok} (h : headToks d.kind d.pre = tok :: rest) :
    ∀ x ∈ resid d, ∃ rest', x.1 = tok :: rest' := by
  intro x hx
  rw [resid_eq, h] at hx
  simp only [prepend, List.mem_map] at hx
  obtain ⟨y, _, rfl⟩ := hx
  exact ⟨rest ++ y.1, rfl⟩

theorem kids_ne_nil {D : Nat} {above : List Tok} {k p ms nf op pc st pa an}
    (h : tiR W D above (.mk k p ms nf op pc st pa an)) : ∀ x ∈ kidsR st pa an, x.1 ≠ [] := by
  intro x hx
  obtain ⟨d, hd, hxd⟩ := mem_kidsR.mp hx
  obtain ⟨e, r, tok, rest, _, _, hh, _, _⟩ := child_first h hd
  obtain ⟨rest', hr⟩ := resid_first hh x hxd
  rw [hr]; simp

/-- writing a record into a node -/
theorem resid_withRec {m : Str} {rm : Option RouteMethod} {k p ms nf op pc st pa an} (hNo : NoNfKey ms)
    (hkids : ∀ x ∈ kidsR st pa an, x.1 ≠ []) :
    (resid (withRec m rm k p ms nf op pc st pa an)).Perm
      (expected m rm (headToks k p) (resid (.mk k p ms nf op pc st pa an))) := by
  cases rm with
  | none => exact List.Perm.refl _
  | some r =>
    simp only [withRec, resid_mk']
    have h1 := expected_prepend m (some r) (headToks k p) [] (ownR ms nf ++ kidsR st pa an)
    rw [List.append_nil] at h1
    rw [h1]
    apply prepend_perm
    have := expected_mid (m := m) (rm := some r) (ts := []) (A := []) (B := kidsR st pa an) (Y := ownR ms nf)
      (Y' := ownR (addMethod ms nf m r).1 (addMethod ms nf m r).2) (by intro x hx; simp at hx) hkids
      (ownR_withRec m r hNo)
    simpa using this

/-- the residuals of a fresh leaf -/
theorem resid_leaf {m : Str} {rm : Option RouteMethod} {t : Kind} {tv : List Tok} (hp : Piece t tv) :
    (resid (withRec m rm t (chars tv) [] none [] 0 [] none none)).Perm (expected m rm tv []) := by
  have h := resid_withRec (m := m) (rm := rm) (k := t) (p := chars tv) (ms := []) (nf := none) (op := []) (pc := 0)
    (st := []) (pa := none) (an := none) (by intro y hy; simp at hy) (by intro y hy; simp [kidsR] at hy)
  have h0 : resid (.mk t (chars tv) [] none [] 0 [] none none) = [] := by
    rw [resid_mk']; simp [ownR, kidsR, ownEntries, prepend]
  rw [h0, piece_headToks hp] at h
  exact h

/-! ### the parts an insertion does not touch -/

theorem ne_own {ms : List (Str × RouteMethod)} {nf : Option RouteMethod} {tc : Tok} {ts' : List Tok} :
    ∀ x ∈ ownR ms nf, x.1 ≠ tc :: ts' := by
  intro x hx
  rw [ownR_nil ms nf x hx]; simp

theorem ne_child {D : Nat} {above : List Tok} {k p ms nf op pc st pa an} {d : Node} {tc : Tok} {ts' : List Tok}
    (h : tiR W D above (.mk k p ms nf op pc st pa an)) (hd : IsChild d st pa an)
    (hl : d.label ≠ some (charOf tc)) : ∀ x ∈ resid d, x.1 ≠ tc :: ts' := by
  intro x hx
  obtain ⟨e, r, tok, rest, _, hlab, hh, hce, _⟩ := child_first h hd
  obtain ⟨rest', hr⟩ := resid_first hh x hx
  rw [hr]
  simp only [ne_eq, List.cons.injEq, not_and]
  intro he
  exact absurd (by rw [hlab, ← hce, he]) hl

/-- an insertion that changes one part of the residuals below a node -/
theorem resid_mid {m : Str} {rm : Option RouteMethod} {k a ms nf op pc st pa an} {st' : List Node}
    {pa' an' : Option Node} {A B Y Y' : R} {tc : Tok} {ts' : List Tok}
    (e1 : ownR ms nf ++ kidsR st pa an = A ++ (Y ++ B)) (e2 : ownR ms nf ++ kidsR st' pa' an' = A ++ (Y' ++ B))
    (hA : ∀ x ∈ A, x.1 ≠ tc :: ts') (hB : ∀ x ∈ B, x.1 ≠ tc :: ts')
    (hY : Y'.Perm (expected m rm (tc :: ts') Y)) :
    (resid (.mk k a ms nf op pc st' pa' an')).Perm
      (expected m rm (headToks k a ++ tc :: ts') (resid (.mk k a ms nf op pc st pa an))) := by
  rw [resid_mk', resid_mk', e1, e2, expected_prepend]
  exact prepend_perm (expected_mid hA hB hY)

/-- **the residual set after `insertAt`** -/
theorem insertAt_resid (hW : World W) (m : Str) (t : Kind) (rm : Option RouteMethod) (s : Str) (n : Node) :
    ∀ (D : Nat) (above ts : List Tok), s = chars ts → tiR W D above n → Fit t ts n → InW W (above ++ ts) →
      (lcp s n.pre = 0 → n = emptyTree ∧ t = .static) →
      (resid (insertAt m s t rm n)).Perm (expected m rm ts (resid n)) := by
  refine insertAt_cases m t rm (fun s n r => ∀ (D : Nat) (above ts : List Tok), s = chars ts → tiR W D above n →
      Fit t ts n → InW W (above ++ ts) →
      (lcp s n.pre = 0 → n = emptyTree ∧ t = .static) →
      (resid r).Perm (expected m rm ts (resid n))) ?_ ?_ ?_ ?_ ?_ ?_ ?_ ?_ s n
  · -- take-over of the empty root
    intro s k p ms nf op pc st pa an h0 D above ts hs hti hfit hin hroot
    obtain ⟨hn, ht⟩ := hroot h0
    rw [hn] at hfit ⊢
    simp only [emptyTree, Node.mk.injEq] at hn
    obtain ⟨rfl, rfl, rfl, rfl, rfl, rfl, rfl, rfl, rfl⟩ := hn
    subst ht
    have hk : (if rm.isSome = true then Kind.static else Kind.static) = .static := by split <;> rfl
    rw [hk, resid_emptyTree, hs]
    exact resid_leaf (fit_empty hfit)
  · -- split, the new text ends at the split point
    intro a y p' k ms nf op pc st pa an ha D above ts hs hti hfit hin hroot
    obtain ⟨ht, hk, hts⟩ := fit_split hW hti ha hfit hin (by rw [← hs]; exact List.prefix_refl a)
      (by rw [← hs]; exact not_prefix_self_app (by simp))
    subst ht hk
    rw [← hs] at hts
    subst hts
    have hbase : resid (.mk .static a [] none [] 0 [.mk .static (y :: p') ms nf op pc st pa an] none none)
        = resid (.mk .static (a ++ y :: p') ms nf op pc st pa an) := by
      rw [resid_split]; simp [prepend]
    rw [← hbase]
    apply resid_withRec (k := .static) (fun x hx => by simp at hx)
    intro x hx
    simp only [kidsR, belowList_cons, belowList_nil, belowOpt_none, List.append_nil, resid_mk', headToks, lits,
      List.map_cons, prepend, List.mem_map] at hx
    obtain ⟨z, _, rfl⟩ := hx
    simp
  · -- split with a new branch
    intro a x0 s' y p' k ms nf op pc st pa an ha hne D above ts hs hti hfit hin hroot
    obtain ⟨ht, hk, hts⟩ := fit_split hW hti ha hfit hin (by rw [← hs]; exact List.prefix_append a _)
      (by rw [← hs]; exact not_prefix_app (fun h => hne (List.cons_prefix_cons.mp h).1.symm))
    subst ht hk
    rw [← hs] at hts
    subst hts
    rw [resid_split]
    simp only [belowList_cons, belowList_nil, List.append_nil]
    have hleaf : (prepend (lits a) (resid (withRec m rm .static (x0 :: s') [] none [] 0 [] none none))).Perm
        (expected m rm (lits (a ++ x0 :: s')) []) := by
      have h1 := expected_prepend m rm (lits a) (lits (x0 :: s')) []
      rw [prepend_nil_right] at h1
      rw [lits_append', h1]
      have h2 := resid_leaf (m := m) (rm := rm) (t := .static) (tv := lits (x0 :: s')) ⟨_, rfl⟩
      rw [chars_lits] at h2
      exact prepend_perm h2
    have hA : ∀ x ∈ resid (.mk .static (a ++ y :: p') ms nf op pc st pa an),
        x.1 ≠ lits (a ++ x0 :: s') := by
      intro x hx
      rw [resid_mk'] at hx
      simp only [prepend, List.mem_map, headToks] at hx
      obtain ⟨z, _, rfl⟩ := hx
      simp only [lits_append', lits_cons, List.append_assoc, ne_eq, List.append_cancel_left_eq,
        List.cons_append, List.cons.injEq, not_and, Tok.lit.injEq]
      intro he
      exact absurd he.symm hne
    have := expected_mid (m := m) (rm := rm) (B := []) (Y := []) hA (by intro x hx; simp at hx) hleaf
    simpa using this
  · -- descend into a static child
    intro a c s' k ms nf op pc st1 ch st2 pa an ha hch h1 ih D above ts hs hti hfit hin hroot
    obtain ⟨ta, tr, rfl, hca, hcr⟩ := chars_eq_append hs.symm
    obtain ⟨tc, ts', rfl, hcc, hcs⟩ := chars_eq_cons hcr
    have hl := ((tiR_mk ..).mp hti).1
    have hag := agree_full hW hl hca (by rw [List.append_assoc]; exact hin)
    have hta : ta ≠ [] := by intro h; rw [h] at hca; exact ha hca.symm
    subst hcc
    have hother := other_label_S hW hti hch h1
    have hchild : IsChild ch (st1 ++ ch :: st2) pa an := Or.inl (by simp)
    have hsel : ∀ d, IsChild d (st1 ++ ch :: st2) pa an → d = ch ∨ d.label ≠ some (charOf tc) := by
      intro d hd
      simp only [IsChild, List.mem_append, List.mem_cons] at hd
      rcases hd with (hd | hd | hd) | hd | hd
      · exact Or.inr (hother d (Or.inl hd))
      · exact Or.inl hd
      · exact Or.inr (hother d (Or.inr (Or.inl hd)))
      · exact Or.inr (hother d (Or.inr (Or.inr (Or.inl hd))))
      · exact Or.inr (hother d (Or.inr (Or.inr (Or.inr hd))))
    have he : above ++ (ta ++ tc :: ts') = above ++ headToks k a ++ tc :: ts' := by rw [hag]; simp
    rw [he] at hin
    have ih' := ih D (above ++ headToks k a) (tc :: ts') (by simp [hcs]) (tiR_child hti hchild)
      (fit_desc hti hta hca hfit hsel) hin (fun h0 => absurd h0 (lcp_ne_zero_of_label hch))
    rw [← hag]
    refine resid_mid (A := ownR ms nf ++ belowList st1) (B := belowList st2 ++ (belowOpt pa ++ belowOpt an))
      ?_ ?_ ?_ ?_ ih'
    · simp only [kidsR, belowList_append, belowList_cons, List.append_assoc]
    · simp only [kidsR, belowList_append, belowList_cons, List.append_assoc]
    · refine ne_append ne_own (ne_belowList ?_)
      intro d hd
      exact ne_child hti (Or.inl (by simp [hd])) (hother d (Or.inl hd))
    · refine ne_append (ne_belowList ?_) (ne_append (ne_belowOpt ?_) (ne_belowOpt ?_))
      · intro d hd
        exact ne_child hti (Or.inl (by simp [hd])) (hother d (Or.inr (Or.inl hd)))
      · intro d hd
        exact ne_child hti (Or.inr (Or.inl hd)) (hother d (Or.inr (Or.inr (Or.inl hd))))
      · intro d hd
        exact ne_child hti (Or.inr (Or.inr hd)) (hother d (Or.inr (Or.inr (Or.inr hd))))
  · -- descend into the param child
    intro a s' k ms nf op pc st ch an ha h1 ih D above ts hs hti hfit hin hroot
    obtain ⟨ta, tr, rfl, hca, hcr⟩ := chars_eq_append hs.symm
    obtain ⟨tc, ts', rfl, hcc, hcs⟩ := chars_eq_cons hcr
    have hl := ((tiR_mk ..).mp hti).1
    have hag := agree_full hW hl hca (by rw [List.append_assoc]; exact hin)
    have hta : ta ≠ [] := by intro h; rw [h] at hca; exact ha hca.symm
    have hother : ∀ d, (d ∈ st ∨ an = some d) → d.label ≠ some (charOf tc) := by
      rw [hcc]; exact other_label_P hti h1
    have hchild : IsChild ch st (some ch) an := Or.inr (Or.inl rfl)
    have hch := child_param_label hti (c := ch) rfl
    have hsel : ∀ d, IsChild d st (some ch) an → d = ch ∨ d.label ≠ some (charOf tc) := by
      intro d hd
      simp only [IsChild, Option.some.injEq] at hd
      rcases hd with hd | hd | hd
      · exact Or.inr (hother d (Or.inl hd))
      · exact Or.inl hd.symm
      · exact Or.inr (hother d (Or.inr hd))
    have he : above ++ (ta ++ tc :: ts') = above ++ headToks k a ++ tc :: ts' := by rw [hag]; simp
    rw [he] at hin
    have ih' := ih D (above ++ headToks k a) (tc :: ts') (by simp [hcs, hcc]) (tiR_child hti hchild)
      (fit_desc hti hta hca hfit hsel) hin (fun h0 => absurd h0 (lcp_ne_zero_of_label hch))
    rw [← hag]
    refine resid_mid (A := ownR ms nf ++ belowList st) (B := belowOpt an) ?_ ?_ ?_ ?_ ih'
    · simp only [kidsR, belowOpt_some, List.append_assoc]
    · simp only [kidsR, belowOpt_some, List.append_assoc]
    · refine ne_append ne_own (ne_belowList ?_)
      intro d hd
      exact ne_child hti (Or.inl hd) (hother d (Or.inl hd))
    · refine ne_belowOpt ?_
      intro d hd
      exact ne_child hti (Or.inr (Or.inr hd)) (hother d (Or.inr hd))
  · -- descend into the any child
    intro a s' k ms nf op pc st pa ch ha h1 ih D above ts hs hti hfit hin hroot
    obtain ⟨ta, tr, rfl, hca, hcr⟩ := chars_eq_append hs.symm
    obtain ⟨tc, ts', rfl, hcc, hcs⟩ := chars_eq_cons hcr
    have hl := ((tiR_mk ..).mp hti).1
    have hag := agree_full hW hl hca (by rw [List.append_assoc]; exact hin)
    have hta : ta ≠ [] := by intro h; rw [h] at hca; exact ha hca.symm
    have hother : ∀ d, (d ∈ st ∨ pa = some d) → d.label ≠ some (charOf tc) := by
      rw [hcc]; exact other_label_A hti h1
    have hchild : IsChild ch st pa (some ch) := Or.inr (Or.inr rfl)
    have hch := child_any_label hti (c := ch) rfl
    have hsel : ∀ d, IsChild d st pa (some ch) → d = ch ∨ d.label ≠ some (charOf tc) := by
      intro d hd
      simp only [IsChild, Option.some.injEq] at hd
      rcases hd with hd | hd | hd
      · exact Or.inr (hother d (Or.inl hd))
      · exact Or.inr (hother d (Or.inr hd))
      · exact Or.inl hd.symm
    have he : above ++ (ta ++ tc :: ts') = above ++ headToks k a ++ tc :: ts' := by rw [hag]; simp
    rw [he] at hin
    have ih' := ih D (above ++ headToks k a) (tc :: ts') (by simp [hcs, hcc]) (tiR_child hti hchild)
      (fit_desc hti hta hca hfit hsel) hin (fun h0 => absurd h0 (lcp_ne_zero_of_label hch))
    rw [← hag]
    refine resid_mid (A := ownR ms nf ++ (belowList st ++ belowOpt pa)) (B := []) ?_ ?_ ?_ ?_ ih'
    · simp only [kidsR, belowOpt_some, List.append_assoc, List.append_nil]
    · simp only [kidsR, belowOpt_some, List.append_assoc, List.append_nil]
    · refine ne_append ne_own (ne_append (ne_belowList ?_) (ne_belowOpt ?_))
      · intro d hd
        exact ne_child hti (Or.inl hd) (hother d (Or.inl hd))
      · intro d hd
        exact ne_child hti (Or.inr (Or.inl hd)) (hother d (Or.inr hd))
    · intro x hx; simp at hx
  · -- a new child
    intro a c s' k ms nf op pc st pa an ha h1 hp hA D above ts hs hti hfit hin hroot
    obtain ⟨ta, tr, rfl, hca, hcr⟩ := chars_eq_append hs.symm
    obtain ⟨tc, ts', rfl, hcc, hcs⟩ := chars_eq_cons hcr
    have hl := ((tiR_mk ..).mp hti).1
    have hag := agree_full hW hl hca (by rw [List.append_assoc]; exact hin)
    have hta : ta ≠ [] := by intro h; rw [h] at hca; exact ha hca.symm
    have hno : ∀ d, IsChild d st pa an → d.label ≠ some (charOf tc) := by
      rw [hcc]; exact other_label_new hti h1 hp hA
    have hpiece := fit_new hti hta hca hfit hno
    have hleaf := resid_leaf (m := m) (rm := rm) hpiece
    have hcs' : chars (tc :: ts') = c :: s' := by simp [hcc, hcs]
    rw [hcs'] at hleaf
    have hst : ∀ x ∈ belowList st, x.1 ≠ tc :: ts' :=
      ne_belowList (fun d hd => ne_child hti (Or.inl hd) (hno d (Or.inl hd)))
    have hpa : ∀ x ∈ belowOpt pa, x.1 ≠ tc :: ts' :=
      ne_belowOpt (fun d hd => ne_child hti (Or.inr (Or.inl hd)) (hno d (Or.inr (Or.inl hd))))
    have han : ∀ x ∈ belowOpt an, x.1 ≠ tc :: ts' :=
      ne_belowOpt (fun d hd => ne_child hti (Or.inr (Or.inr hd)) (hno d (Or.inr (Or.inr hd))))
    rw [← hag]
    cases t with
    | static =>
      refine resid_mid (A := ownR ms nf ++ belowList st) (B := belowOpt pa ++ belowOpt an) (Y := [])
        ?_ ?_ (ne_append ne_own hst) (ne_append hpa han) hleaf
      · simp only [kidsR, List.append_assoc, List.nil_append]
      · simp only [kidsR, belowList_append, belowList_cons, belowList_nil, List.append_assoc, List.append_nil]
    | param =>
      have hc : c = ':' := by
        have : tc :: ts' = [.param] := hpiece
        simp only [List.cons.injEq] at this
        rw [← hcc, this.1]; rfl
      have hpn := hp hc
      subst hpn
      refine resid_mid (A := ownR ms nf ++ belowList st) (B := belowOpt an) (Y := [])
        ?_ ?_ (ne_append ne_own hst) han hleaf
      · simp only [kidsR, belowOpt_none, List.append_assoc, List.nil_append]
      · simp only [kidsR, belowOpt_some, List.append_assoc]
    | any =>
      have hc : c = '*' := by
        have : tc :: ts' = [.any] := hpiece
        simp only [List.cons.injEq] at this
        rw [← hcc, this.1]; rfl
      have han' := hA hc
      subst han'
      refine resid_mid (A := ownR ms nf ++ (belowList st ++ belowOpt pa)) (B := []) (Y := [])
        ?_ ?_ (ne_append ne_own (ne_append hst hpa)) (by intro x hx; simp at hx) hleaf
      · simp only [kidsR, belowOpt_none, List.append_assoc, List.append_nil]
      · simp only [kidsR, belowOpt_some, List.append_assoc, List.append_nil]
  · -- the node exists
    intro k p ms nf op pc st pa an hp D above ts hs hti hfit hin hroot
    have hl := ((tiR_mk ..).mp hti).1
    have hag := agree_full hW hl hs.symm (ts' := []) (by simpa using hin)
    rw [← hag]
    exact resid_withRec hl.noNf (kids_ne_nil hti)

end Router.Tree.Esc
