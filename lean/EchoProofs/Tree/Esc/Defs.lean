import EchoModel.RouterEsc
import EchoProofs.Tree.Insert.Resid
import EchoProofs.Tree.Insert.Text
/-!
# Insertion with escaped colons: tree text as token lists, the world of a table, the relaxed invariant

In `Insert/*` the text of the tree is a `Str` in which `':'` stands for a parameter.  With escaped colons a
`':'` inside a static prefix is a literal, so the text no longer determines the tokens.  Here the inserted
text is carried as a TOKEN LIST `ts` (the text is `chars ts`), the tokens of a node are `headToks k pre`
(exactly what `resid`/`tiNode` use), and the relaxed invariant `tiR` records for every node that its position
is a prefix of the tokens of some route of the table (`InW W`).  `World W` says that the token lists of the
table have no escape conflict; from it the byte comparisons of `insertAt` agree with token comparisons
(`World.tok_eq`).
-/
set_option linter.unusedSimpArgs false
set_option linter.unusedVariables false
namespace Router.Tree.Esc
open Router Router.Spec Router.Tree

/-! ### the byte of a token, the text of a token list -/

def charOf : Tok → Char
  | .lit c => c
  | .param => ':'
  | .any => '*'

def chars (ts : List Tok) : Str := ts.map charOf

@[simp] theorem chars_nil : chars [] = [] := rfl
@[simp] theorem chars_cons (t : Tok) (ts : List Tok) : chars (t :: ts) = charOf t :: chars ts := rfl
@[simp] theorem chars_append (a b : List Tok) : chars (a ++ b) = chars a ++ chars b := by simp [chars]
@[simp] theorem chars_length (a : List Tok) : (chars a).length = a.length := by simp [chars]

@[simp] theorem chars_lits (s : Str) : chars (lits s) = s := by
  induction s with
  | nil => rfl
  | cons c s ih =>
    have : lits (c :: s) = Tok.lit c :: lits s := rfl
    rw [this, chars_cons, ih]; rfl

@[simp] theorem lits_nil : lits [] = [] := rfl
@[simp] theorem lits_cons (c : Char) (s : Str) : lits (c :: s) = Tok.lit c :: lits s := rfl

theorem chars_eq_nil {ts : List Tok} (h : chars ts = []) : ts = [] := by
  cases ts with
  | nil => rfl
  | cons _ _ => simp at h

theorem chars_eq_cons {ts : List Tok} {c : Char} {s : Str} (h : chars ts = c :: s) :
    ∃ tc ts', ts = tc :: ts' ∧ charOf tc = c ∧ chars ts' = s := by
  cases ts with
  | nil => simp at h
  | cons t ts' =>
    simp only [chars_cons, List.cons.injEq] at h
    exact ⟨t, ts', rfl, h.1, h.2⟩

theorem chars_eq_append {ts : List Tok} {a b : Str} (h : chars ts = a ++ b) :
    ∃ ta tb, ts = ta ++ tb ∧ chars ta = a ∧ chars tb = b := by
  induction a generalizing ts with
  | nil => exact ⟨[], ts, rfl, rfl, by simpa using h⟩
  | cons c a ih =>
    obtain ⟨tc, ts', rfl, hc, hs⟩ := chars_eq_cons (s := a ++ b) (by simpa using h)
    obtain ⟨ta, tb, rfl, h1, h2⟩ := ih hs
    exact ⟨tc :: ta, tb, rfl, by simp [hc, h1], h2⟩

/-- two decompositions of a token list whose first parts have the same text coincide -/
theorem append_eq_of_chars {ta tu x y : List Tok} (h : ta ++ x = tu ++ y) (hc : chars ta = chars tu) :
    ta = tu ∧ x = y := by
  have hl : ta.length = tu.length := by
    have := congrArg List.length hc
    simpa using this
  exact List.append_inj h hl

theorem lits_append' (a b : Str) : lits (a ++ b) = lits a ++ lits b := by simp [lits]

theorem lits_inj {a b : Str} (h : lits a = lits b) : a = b := by
  have := congrArg chars h
  simpa using this

/-- a token list that is all literals is the `lits` of its text -/
theorem eq_lits_of_append {v : Str} {ta tb : List Tok} (h : lits v = ta ++ tb) :
    ta = lits (chars ta) ∧ tb = lits (chars tb) := by
  induction ta generalizing v with
  | nil =>
    simp only [List.nil_append] at h
    refine ⟨rfl, ?_⟩
    rw [← h]; simp
  | cons t ta ih =>
    cases v with
    | nil => simp at h
    | cons c v =>
      simp only [lits_cons, List.cons_append, List.cons.injEq] at h
      obtain ⟨h1, h2⟩ := ih h.2
      refine ⟨?_, h2⟩
      rw [← h.1]
      simp only [chars_cons, lits_cons, charOf]
      rw [← h1]

/-! ### the world of a table -/

/-- the token lists of the routes of a table: no literal `*`, no escape conflict -/
structure World (W : List (List Tok)) : Prop where
  noStar : ∀ w ∈ W, Tok.lit '*' ∉ w
  ef : ∀ w1 ∈ W, ∀ w2 ∈ W, ∀ (q r1 r2 : List Tok), w1 = q ++ Tok.lit ':' :: r1 → w2 = q ++ Tok.param :: r2 → False

/-- `ts` is a position of the table: a prefix of the tokens of some route -/
def InW (W : List (List Tok)) (ts : List Tok) : Prop := ∃ w ∈ W, ts <+: w

theorem InW.left {W : List (List Tok)} {a b : List Tok} (h : InW W (a ++ b)) : InW W a := by
  obtain ⟨w, hw, hp⟩ := h
  exact ⟨w, hw, List.IsPrefix.trans (List.prefix_append a b) hp⟩

theorem InW.of_prefix {W : List (List Tok)} {a b : List Tok} (h : InW W b) (hp : a <+: b) : InW W a := by
  obtain ⟨w, hw, hp'⟩ := h
  exact ⟨w, hw, List.IsPrefix.trans hp hp'⟩

theorem World.no_lit_star {W : List (List Tok)} (hW : World W) {q r : List Tok}
    (h : InW W (q ++ Tok.lit '*' :: r)) : False := by
  obtain ⟨w, hw, z, hz⟩ := h
  apply hW.noStar w hw
  rw [← hz]; simp

theorem World.no_conflict {W : List (List Tok)} (hW : World W) {q r1 r2 : List Tok}
    (h1 : InW W (q ++ Tok.lit ':' :: r1)) (h2 : InW W (q ++ Tok.param :: r2)) : False := by
  obtain ⟨w1, hw1, z1, hz1⟩ := h1
  obtain ⟨w2, hw2, z2, hz2⟩ := h2
  exact hW.ef w1 hw1 w2 hw2 q (r1 ++ z1) (r2 ++ z2) (by rw [← hz1]; simp) (by rw [← hz2]; simp)

/-- **two positions of the table that continue with the same byte continue with the same token** -/
theorem World.tok_eq {W : List (List Tok)} (hW : World W) {q r1 r2 : List Tok} {x y : Tok}
    (h1 : InW W (q ++ x :: r1)) (h2 : InW W (q ++ y :: r2)) (hc : charOf x = charOf y) : x = y := by
  cases x with
  | lit c =>
    cases y with
    | lit d => simp only [charOf] at hc; rw [hc]
    | param =>
      simp only [charOf] at hc; subst hc
      exact (hW.no_conflict h1 h2).elim
    | any =>
      simp only [charOf] at hc; subst hc
      exact (hW.no_lit_star h1).elim
  | param =>
    cases y with
    | lit d =>
      simp only [charOf] at hc; subst hc
      exact (hW.no_conflict h2 h1).elim
    | param => rfl
    | any => simp [charOf] at hc
  | any =>
    cases y with
    | lit d =>
      simp only [charOf] at hc; subst hc
      exact (hW.no_lit_star h2).elim
    | param => simp [charOf] at hc
    | any => rfl

/-! ### the pieces a new node may carry -/

/-- the tokens a new node of kind `k` may carry -/
def Piece : Kind → List Tok → Prop
  | .static, tv => ∃ v, tv = lits v
  | .param, tv => tv = [.param]
  | .any, tv => tv = [.any]

theorem piece_headToks {t : Kind} {tv : List Tok} (h : Piece t tv) : headToks t (chars tv) = tv := by
  cases t with
  | static => obtain ⟨v, rfl⟩ := h; simp [headToks]
  | param => rw [show tv = [.param] from h]; rfl
  | any => rw [show tv = [.any] from h]; rfl

theorem piece_kP {t : Kind} {tv : List Tok} (h : Piece t tv) (ht : t = .param) : chars tv = [':'] := by
  subst ht; rw [show tv = [.param] from h]; rfl

theorem piece_kA {t : Kind} {tv : List Tok} (h : Piece t tv) (ht : t = .any) : chars tv = ['*'] := by
  subst ht; rw [show tv = [.any] from h]; rfl

/-! ### the relaxed invariant -/

/-- the facts about one node (`here` = tokens up to and including its prefix) -/
structure Local (W : List (List Tok)) (D : Nat) (here : List Tok) (k : Kind) (pre : Str)
    (ms : List (Str × RouteMethod)) (nf : Option RouteMethod) (pc : Nat) (st : List Node) (pa an : Option Node) :
    Prop where
  depth : arity here ≤ D
  inW : InW W here
  kP : k = .param → pre = [':']
  kA : k = .any → pre = ['*'] ∧ st = [] ∧ pa = none ∧ an = none ∧ pc = arity here
  noNf : NoNfKey ms
  recs : ∀ x ∈ ms, (norm x.2.ppath).1 = here ∧ x.2.pnames.length = arity here
  nfRec : ∀ rm, nf = some rm → (norm rm.ppath).1 = here ∧ rm.pnames.length = arity here
  distinct : labelsDistinct st = true
  stK : ∀ c ∈ st, c.kind = .static ∧ c.pre ≠ []
  paK : ∀ c, pa = some c → c.kind = .param
  anK : ∀ c, an = some c → c.kind = .any

mutual
/-- `tiNode` without "no dead leaves", with "every node position is a position of the table" -/
def tiR (W : List (List Tok)) (D : Nat) (above : List Tok) : Node → Prop
  | .mk k pre ms nf _ pc st pa an =>
    Local W D (above ++ headToks k pre) k pre ms nf pc st pa an
    ∧ tiRL W D (above ++ headToks k pre) st ∧ tiRO W D (above ++ headToks k pre) pa
    ∧ tiRO W D (above ++ headToks k pre) an
def tiRL (W : List (List Tok)) (D : Nat) (here : List Tok) : List Node → Prop
  | [] => True
  | c :: cs => tiR W D here c ∧ tiRL W D here cs
def tiRO (W : List (List Tok)) (D : Nat) (here : List Tok) : Option Node → Prop
  | none => True
  | some c => tiR W D here c
end

theorem tiR_mk (W : List (List Tok)) (D : Nat) (above : List Tok) (k pre ms nf op pc st pa an) :
    tiR W D above (.mk k pre ms nf op pc st pa an) ↔
      (Local W D (above ++ headToks k pre) k pre ms nf pc st pa an
      ∧ tiRL W D (above ++ headToks k pre) st ∧ tiRO W D (above ++ headToks k pre) pa
      ∧ tiRO W D (above ++ headToks k pre) an) := by
  rw [tiR]

theorem tiRL_iff (W : List (List Tok)) (D : Nat) (here : List Tok) (st : List Node) :
    tiRL W D here st ↔ ∀ c ∈ st, tiR W D here c := by
  induction st with
  | nil => rw [tiRL]; simp
  | cons c cs ih => rw [tiRL, ih]; simp

theorem tiRO_iff (W : List (List Tok)) (D : Nat) (here : List Tok) (o : Option Node) :
    tiRO W D here o ↔ ∀ c, o = some c → tiR W D here c := by
  cases o with
  | none => rw [tiRO]; simp
  | some c => rw [tiRO]; simp

/-! ### the children of a node that satisfies the relaxed invariant -/

variable {W : List (List Tok)}

theorem tiR_local {D : Nat} {above : List Tok} (n : Node) (h : tiR W D above n) :
    Local W D (above ++ headToks n.kind n.pre) n.kind n.pre n.methods n.nf n.paramsCount n.statics n.param n.any := by
  cases n; exact ((tiR_mk ..).mp h).1

theorem tiR_child {D : Nat} {above : List Tok} {k p ms nf op pc st pa an} {c : Node}
    (h : tiR W D above (.mk k p ms nf op pc st pa an)) (hc : IsChild c st pa an) :
    tiR W D (above ++ headToks k p) c := by
  obtain ⟨_, hS, hP, hA⟩ := (tiR_mk ..).mp h
  rcases hc with hc | hc | hc
  · exact (tiRL_iff ..).mp hS c hc
  · exact (tiRO_iff ..).mp hP c hc
  · exact (tiRO_iff ..).mp hA c hc

theorem child_static {D : Nat} {above : List Tok} {k p ms nf op pc st pa an} {c : Node}
    (h : tiR W D above (.mk k p ms nf op pc st pa an)) (hc : c ∈ st) : c.kind = .static ∧ c.pre ≠ [] :=
  ((tiR_mk ..).mp h).1.stK c hc

theorem child_param {D : Nat} {above : List Tok} {k p ms nf op pc st pa an} {c : Node}
    (h : tiR W D above (.mk k p ms nf op pc st pa an)) (hc : pa = some c) :
    c.kind = .param ∧ c.pre = [':'] := by
  have hl := ((tiR_mk ..).mp h).1
  have hk := hl.paK c hc
  exact ⟨hk, (tiR_local c (tiR_child h (Or.inr (Or.inl hc)))).kP hk⟩

theorem child_any {D : Nat} {above : List Tok} {k p ms nf op pc st pa an} {c : Node}
    (h : tiR W D above (.mk k p ms nf op pc st pa an)) (hc : an = some c) :
    c.kind = .any ∧ c.pre = ['*'] := by
  have hl := ((tiR_mk ..).mp h).1
  have hk := hl.anK c hc
  exact ⟨hk, ((tiR_local c (tiR_child h (Or.inr (Or.inr hc)))).kA hk).1⟩

theorem child_pre_ne {D : Nat} {above : List Tok} {k p ms nf op pc st pa an} {c : Node}
    (h : tiR W D above (.mk k p ms nf op pc st pa an)) (hc : IsChild c st pa an) : c.pre ≠ [] := by
  rcases hc with hc | hc | hc
  · exact (child_static h hc).2
  · rw [(child_param h hc).2]; simp
  · rw [(child_any h hc).2]; simp

/-- the first token of a node and its byte -/
theorem headToks_first {k : Kind} {pre : Str} {e : Char} {r : Str} (hP : k = .param → pre = [':'])
    (hA : k = .any → pre = ['*']) (hp : pre = e :: r) :
    ∃ tok rest, headToks k pre = tok :: rest ∧ charOf tok = e := by
  cases k with
  | static => rw [hp]; exact ⟨.lit e, lits r, rfl, rfl⟩
  | param =>
    have := hP rfl
    rw [hp] at this
    simp only [List.cons.injEq] at this
    exact ⟨.param, [], rfl, by rw [this.1]; rfl⟩
  | any =>
    have := hA rfl
    rw [hp] at this
    simp only [List.cons.injEq] at this
    exact ⟨.any, [], rfl, by rw [this.1]; rfl⟩

/-- the first token of a child: its byte is the label of the child, and the child's position is in the table -/
theorem child_first {D : Nat} {above : List Tok} {k p ms nf op pc st pa an} {d : Node}
    (h : tiR W D above (.mk k p ms nf op pc st pa an)) (hd : IsChild d st pa an) :
    ∃ e r tok rest, d.pre = e :: r ∧ d.label = some e ∧ headToks d.kind d.pre = tok :: rest ∧ charOf tok = e
      ∧ InW W (above ++ headToks k p ++ tok :: rest) := by
  have hne := child_pre_ne h hd
  have hl := tiR_local d (tiR_child h hd)
  cases hp : d.pre with
  | nil => exact absurd hp hne
  | cons e r =>
    obtain ⟨tok, rest, h1, h2⟩ := headToks_first hl.kP (fun hk => (hl.kA hk).1) hp
    refine ⟨e, r, tok, rest, rfl, label_of_pre hp, by rw [← hp]; exact h1, h2, ?_⟩
    rw [← h1]; exact hl.inW

theorem child_param_label {D : Nat} {above : List Tok} {k p ms nf op pc st pa an} {c : Node}
    (h : tiR W D above (.mk k p ms nf op pc st pa an)) (hc : pa = some c) : c.label = some ':' :=
  label_of_pre (child_param h hc).2

theorem child_any_label {D : Nat} {above : List Tok} {k p ms nf op pc st pa an} {c : Node}
    (h : tiR W D above (.mk k p ms nf op pc st pa an)) (hc : an = some c) : c.label = some '*' :=
  label_of_pre (child_any h hc).2

/-- the first token of a static child is a literal, of the param child `.param`, of the any child `.any` -/
theorem child_static_first {D : Nat} {above : List Tok} {k p ms nf op pc st pa an} {d : Node}
    (h : tiR W D above (.mk k p ms nf op pc st pa an)) (hd : d ∈ st) :
    ∃ e r, d.pre = e :: r ∧ d.label = some e ∧ InW W (above ++ headToks k p ++ Tok.lit e :: lits r) := by
  obtain ⟨hk, hne⟩ := child_static h hd
  have hl := tiR_local d (tiR_child h (Or.inl hd))
  cases hp : d.pre with
  | nil => exact absurd hp hne
  | cons e r =>
    refine ⟨e, r, rfl, label_of_pre hp, ?_⟩
    have := hl.inW
    rw [hk, hp] at this
    exact this

theorem child_param_first {D : Nat} {above : List Tok} {k p ms nf op pc st pa an} {d : Node}
    (h : tiR W D above (.mk k p ms nf op pc st pa an)) (hd : pa = some d) :
    InW W (above ++ headToks k p ++ [Tok.param]) := by
  obtain ⟨hk, hp⟩ := child_param h hd
  have hl := tiR_local d (tiR_child h (Or.inr (Or.inl hd)))
  have := hl.inW
  rw [hk, hp] at this
  exact this

/-- under a world without conflicts the static children of a node do not carry the labels of the marker slots
    that are occupied -/
theorem static_label_ne_colon (hW : World W) {D : Nat} {above : List Tok} {k p ms nf op pc st pa an} {d c : Node}
    (h : tiR W D above (.mk k p ms nf op pc st pa an)) (hd : d ∈ st) (hc : pa = some c) : d.label ≠ some ':' := by
  obtain ⟨e, r, _, hl, hin⟩ := child_static_first h hd
  intro heq
  rw [hl] at heq
  have he : e = ':' := Option.some.inj heq
  subst he
  exact hW.no_conflict hin (child_param_first h hc)

theorem static_label_ne_star (hW : World W) {D : Nat} {above : List Tok} {k p ms nf op pc st pa an} {d : Node}
    (h : tiR W D above (.mk k p ms nf op pc st pa an)) (hd : d ∈ st) : d.label ≠ some '*' := by
  obtain ⟨e, r, _, hl, hin⟩ := child_static_first h hd
  intro heq
  rw [hl] at heq
  have he : e = '*' := Option.some.inj heq
  subst he
  exact hW.no_lit_star hin

/-! ### the children `insertAt` does not descend into have another label -/

theorem other_label_S (hW : World W) {D : Nat} {above : List Tok} {k p ms nf op pc st1 ch st2 pa an} {c : Char}
    (h : tiR W D above (.mk k p ms nf op pc (st1 ++ ch :: st2) pa an)) (hch : ch.label = some c)
    (h1 : ∀ x ∈ st1, x.label ≠ some c) :
    ∀ d, (d ∈ st1 ∨ d ∈ st2 ∨ pa = some d ∨ an = some d) → d.label ≠ some c := by
  have hl := ((tiR_mk ..).mp h).1
  intro d hd
  rcases hd with hd | hd | hd | hd
  · exact h1 d hd
  · rw [← hch]; exact (labelsDistinct_mid hl.distinct).2 d hd
  · rw [child_param_label h hd, ← hch]
    exact fun heq => static_label_ne_colon hW h (d := ch) (by simp) hd heq.symm
  · rw [child_any_label h hd, ← hch]
    exact fun heq => static_label_ne_star hW h (d := ch) (by simp) heq.symm

theorem other_label_P {D : Nat} {above : List Tok} {k p ms nf op pc st pa an}
    (h : tiR W D above (.mk k p ms nf op pc st pa an)) (h1 : ∀ x ∈ st, x.label ≠ some ':') :
    ∀ d, (d ∈ st ∨ an = some d) → d.label ≠ some ':' := by
  intro d hd
  rcases hd with hd | hd
  · exact h1 d hd
  · rw [child_any_label h hd]; simp

theorem other_label_A {D : Nat} {above : List Tok} {k p ms nf op pc st pa an}
    (h : tiR W D above (.mk k p ms nf op pc st pa an)) (h1 : ∀ x ∈ st, x.label ≠ some '*') :
    ∀ d, (d ∈ st ∨ pa = some d) → d.label ≠ some '*' := by
  intro d hd
  rcases hd with hd | hd
  · exact h1 d hd
  · rw [child_param_label h hd]; simp

theorem other_label_new {D : Nat} {above : List Tok} {k p ms nf op pc st pa an} {c : Char}
    (h : tiR W D above (.mk k p ms nf op pc st pa an)) (h1 : ∀ x ∈ st, x.label ≠ some c)
    (hp : c = ':' → pa = none) (ha : c = '*' → an = none) :
    ∀ d, IsChild d st pa an → d.label ≠ some c := by
  intro d hd
  rcases hd with hd | hd | hd
  · exact h1 d hd
  · rw [child_param_label h hd]
    intro heq
    have := hp (Option.some.inj heq).symm
    rw [this] at hd; simp at hd
  · rw [child_any_label h hd]
    intro heq
    have := ha (Option.some.inj heq).symm
    rw [this] at hd; simp at hd

end Router.Tree.Esc
