import EchoProofs.Tree.Esc.Paths
/-!
# Insertion with escaped colons: `insertAt` preserves the relaxed invariant

The inserted text is `chars ts` for a token list `ts` whose position `above ++ ts` is a position of the
table (`InW W`).  `agree_static` / `agree_full` are the place where the absence of escape conflicts is used:
the bytes that `lcp` finds equal are equal TOKENS.
-/
set_option linter.unusedSimpArgs false
set_option linter.unusedVariables false
namespace Router.Tree.Esc
open Router Router.Spec Router.Tree

variable {W : List (List Tok)}

/-- the tokens `ts` inserted below `n` as a node of kind `t` fit: everything before the last piece is
    already a node boundary, so only the last piece can become a new node -/
def Fit (t : Kind) (ts : List Tok) (n : Node) : Prop :=
  ∃ tu tv, ts = tu ++ tv ∧ Piece t tv ∧ (tu = [] ∨ chars tu ∈ bounds n)

/-! ### bytes that agree are tokens that agree -/

/-- along a static prefix: the inserted tokens whose text is the common part `a` are the literals `a` -/
theorem agree_static (hW : World W) : ∀ (a : Str) (ta above : List Tok) (p' : Str) (ts' : List Tok),
    chars ta = a → InW W (above ++ lits (a ++ p')) → InW W (above ++ ta ++ ts') → ta = lits a := by
  intro a
  induction a with
  | nil => intro ta above p' ts' h _ _; rw [chars_eq_nil h]; rfl
  | cons x a ih =>
    intro ta above p' ts' h h1 h2
    obtain ⟨tx, ta', rfl, hx, ha'⟩ := chars_eq_cons h
    have h1' : InW W (above ++ Tok.lit x :: lits (a ++ p')) := by simpa using h1
    have h2' : InW W (above ++ tx :: (ta' ++ ts')) := by simpa using h2
    have hx' : Tok.lit x = tx := hW.tok_eq h1' h2' (by rw [hx]; rfl)
    subst hx'
    have := ih ta' (above ++ [Tok.lit x]) p' ts' ha' (by simpa using h1) (by simpa using h2)
    rw [this]
    simp

/-- the whole prefix of a node: the inserted tokens with the text of the prefix are the tokens of the node -/
theorem agree_full (hW : World W) {D : Nat} {above : List Tok} {k a ms nf pc st pa an}
    (hl : Local W D (above ++ headToks k a) k a ms nf pc st pa an) {ta ts' : List Tok} (hca : chars ta = a)
    (hin : InW W (above ++ ta ++ ts')) : headToks k a = ta := by
  cases k with
  | static =>
    have := agree_static hW a ta above [] ts' hca (by simpa [headToks] using hl.inW) hin
    rw [this]; rfl
  | param =>
    have ha := hl.kP rfl
    subst ha
    obtain ⟨tx, ta', rfl, hx, ha'⟩ := chars_eq_cons hca
    have := chars_eq_nil ha'
    subst this
    have h1 : InW W (above ++ Tok.param :: []) := by simpa [headToks] using hl.inW
    have h2 : InW W (above ++ tx :: ts') := by simpa using hin
    have := hW.tok_eq h1 h2 (by rw [hx]; rfl)
    rw [← this]; rfl
  | any =>
    have ha := (hl.kA rfl).1
    subst ha
    obtain ⟨tx, ta', rfl, hx, ha'⟩ := chars_eq_cons hca
    have := chars_eq_nil ha'
    subst this
    have h1 : InW W (above ++ Tok.any :: []) := by simpa [headToks] using hl.inW
    have h2 : InW W (above ++ tx :: ts') := by simpa using hin
    have := hW.tok_eq h1 h2 (by rw [hx]; rfl)
    rw [← this]; rfl

/-! ### records, leaves, split nodes -/

/-- writing a record into a node keeps the invariant when the record belongs there -/
theorem tiR_withRec {D : Nat} {above : List Tok} {m : Str} {rm : Option RouteMethod} {k pre ms nf op pc st pa an}
    (h : tiR W D above (.mk k pre ms nf op pc st pa an))
    (hrec : ∀ r, rm = some r → (norm r.ppath).1 = above ++ headToks k pre
      ∧ r.pnames.length = arity (above ++ headToks k pre)) :
    tiR W D above (withRec m rm k pre ms nf op pc st pa an) := by
  cases rm with
  | none => exact h
  | some r =>
    obtain ⟨hr1, hr2⟩ := hrec r rfl
    obtain ⟨hl, hS, hP, hA⟩ := (tiR_mk ..).mp h
    simp only [withRec]
    refine (tiR_mk ..).mpr ⟨?_, hS, hP, hA⟩
    refine ⟨hl.depth, hl.inW, hl.kP, ?_, noNfKey_addMethod m r hl.noNf, ?_, ?_, hl.distinct, hl.stK, hl.paK, hl.anK⟩
    · intro hk
      obtain ⟨h1, h2, h3, h4, _⟩ := hl.kA hk
      exact ⟨h1, h2, h3, h4, hr2⟩
    · intro x hx
      rcases mem_addMethod hx with hx | hx
      · exact hl.recs x hx
      · rw [hx]; exact ⟨hr1, hr2⟩
    · intro r' hr'
      rcases nf_addMethod hr' with hr' | hr'
      · exact hl.nfRec r' hr'
      · rw [hr']; exact ⟨hr1, hr2⟩

/-- a fresh leaf -/
theorem tiR_leaf {D : Nat} {above : List Tok} {m : Str} {rm : Option RouteMethod} {t : Kind} {tv : List Tok}
    (hp : Piece t tv) (hD : arity (above ++ tv) ≤ D) (hin : InW W (above ++ tv))
    (hrec : ∀ r, rm = some r → (norm r.ppath).1 = above ++ tv ∧ r.pnames.length = arity (above ++ tv))
    (hany : t = .any → rm ≠ none) :
    tiR W D above (withRec m rm t (chars tv) [] none [] 0 [] none none) := by
  have hh := piece_headToks hp
  cases rm with
  | none =>
    simp only [withRec]
    refine (tiR_mk ..).mpr ?_
    rw [hh]
    refine ⟨?_, by rw [tiRL]; trivial, by rw [tiRO]; trivial, by rw [tiRO]; trivial⟩
    refine ⟨hD, hin, piece_kP hp, ?_, ?_, ?_, ?_, rfl, ?_, ?_, ?_⟩
    · intro hk; exact absurd rfl (hany hk)
    · intro x hx; simp at hx
    · intro x hx; simp at hx
    · intro r hr; simp at hr
    · intro c hc; simp at hc
    · intro c hc; simp at hc
    · intro c hc; simp at hc
  | some r =>
    obtain ⟨hr1, hr2⟩ := hrec r rfl
    simp only [withRec]
    refine (tiR_mk ..).mpr ?_
    rw [hh]
    refine ⟨?_, by rw [tiRL]; trivial, by rw [tiRO]; trivial, by rw [tiRO]; trivial⟩
    refine ⟨hD, hin, piece_kP hp, ?_, noNfKey_addMethod m r (by intro x hx; simp at hx), ?_, ?_, rfl, ?_, ?_, ?_⟩
    · intro hk; exact ⟨piece_kA hp hk, rfl, rfl, rfl, hr2⟩
    · intro x hx
      rcases mem_addMethod hx with hx | hx
      · simp at hx
      · rw [hx]; exact ⟨hr1, hr2⟩
    · intro r' hr'
      rcases nf_addMethod hr' with hr' | hr'
      · simp at hr'
      · rw [hr']; exact ⟨hr1, hr2⟩
    · intro c hc; simp at hc
    · intro c hc; simp at hc
    · intro c hc; simp at hc

/-- the lower half of a split static node -/
theorem tiR_shift {D : Nat} {above : List Tok} {a p2 : Str} {ms nf op pc st pa an}
    (h : tiR W D above (.mk .static (a ++ p2) ms nf op pc st pa an)) :
    tiR W D (above ++ lits a) (.mk .static p2 ms nf op pc st pa an) := by
  obtain ⟨hl, hS, hP, hA⟩ := (tiR_mk ..).mp h
  have he : above ++ headToks .static (a ++ p2) = above ++ lits a ++ headToks .static p2 := by
    simp [headToks, lits_append']
  rw [he] at hl hS hP hA
  refine (tiR_mk ..).mpr ⟨?_, hS, hP, hA⟩
  exact ⟨hl.depth, hl.inW, (fun hk => nomatch hk), (fun hk => nomatch hk),
    hl.noNf, hl.recs, hl.nfRec, hl.distinct, hl.stK, hl.paK, hl.anK⟩

/-- the upper half of a split node -/
theorem tiR_splitNode {D : Nat} {above : List Tok} {a : Str} {kids : List Node}
    (hD : arity (above ++ lits a) ≤ D) (hin : InW W (above ++ lits a)) (hdist : labelsDistinct kids = true)
    (hk : ∀ c ∈ kids, c.kind = .static ∧ c.pre ≠ [] ∧ tiR W D (above ++ lits a) c) :
    tiR W D above (.mk .static a [] none [] 0 kids none none) := by
  refine (tiR_mk ..).mpr ⟨?_, ?_, by rw [tiRO]; trivial, by rw [tiRO]; trivial⟩
  · refine ⟨hD, hin, (fun h => nomatch h), (fun h => nomatch h), ?_, ?_, ?_, hdist, ?_, ?_, ?_⟩
    · intro x hx; simp at hx
    · intro x hx; simp at hx
    · intro r hr; simp at hr
    · intro c hc; exact ⟨(hk c hc).1, (hk c hc).2.1⟩
    · intro c hc; simp at hc
    · intro c hc; simp at hc
  · rw [tiRL_iff]; intro c hc; exact (hk c hc).2.2

/-! ### how `Fit` travels down the tree -/

theorem piece_drop {t : Kind} {ta : List Tok} {tc : Tok} {ts' : List Tok} (ha : ta ≠ [])
    (h : Piece t (ta ++ tc :: ts')) : Piece t (tc :: ts') := by
  cases t with
  | static =>
    obtain ⟨v, hv⟩ := h
    exact ⟨_, (eq_lits_of_append hv.symm).2⟩
  | param =>
    have hl := congrArg List.length (show ta ++ tc :: ts' = [.param] from h)
    cases ta with
    | nil => exact absurd rfl ha
    | cons _ _ => simp at hl
  | any =>
    have hl := congrArg List.length (show ta ++ tc :: ts' = [.any] from h)
    cases ta with
    | nil => exact absurd rfl ha
    | cons _ _ => simp at hl

theorem fit_cases {t : Kind} {ta : List Tok} {tc : Tok} {ts' : List Tok} {k a ms nf op pc st pa an} (ha : ta ≠ [])
    (hca : chars ta = a) (h : Fit t (ta ++ tc :: ts') (.mk k a ms nf op pc st pa an)) :
    Piece t (tc :: ts') ∨
      ∃ d, IsChild d st pa an ∧ ∃ ty tv, chars ty ∈ bounds d ∧ tc :: ts' = ty ++ tv ∧ Piece t tv := by
  obtain ⟨tu, tv, hs, hp, hu⟩ := h
  rcases hu with hu | hu
  · subst hu
    simp only [List.nil_append] at hs
    rw [← hs] at hp
    exact Or.inl (piece_drop ha hp)
  · rcases mem_bounds_mk.mp hu with hu | ⟨d, hd, y, hy, hu⟩
    · obtain ⟨_, h2⟩ := append_eq_of_chars hs (hca.trans hu.symm)
      rw [← h2] at hp
      exact Or.inl hp
    · obtain ⟨tu1, ty, rfl, h1, h2⟩ := chars_eq_append hu
      rw [List.append_assoc] at hs
      obtain ⟨_, h4⟩ := append_eq_of_chars hs (hca.trans h1.symm)
      exact Or.inr ⟨d, hd, ty, tv, by rw [h2]; exact hy, h4, hp⟩

theorem fit_label {D : Nat} {above : List Tok} {k a ms nf op pc st pa an} {d : Node} {ty tv : List Tok} {tc : Tok}
    {ts' : List Tok} (h : tiR W D above (.mk k a ms nf op pc st pa an)) (hd : IsChild d st pa an)
    (hy : chars ty ∈ bounds d) (he : tc :: ts' = ty ++ tv) : d.label = some (charOf tc) := by
  obtain ⟨z, hz⟩ := bounds_prefix hy
  have hne := child_pre_ne h hd
  cases hp : d.pre with
  | nil => exact absurd hp hne
  | cons e r =>
    rw [hp] at hz
    obtain ⟨te, ty', rfl, hte, _⟩ := chars_eq_cons (s := r ++ z) (by simpa using hz)
    simp only [List.cons_append, List.cons.injEq] at he
    rw [label_of_pre hp, he.1, hte]

theorem fit_desc {D : Nat} {above : List Tok} {t : Kind} {ta : List Tok} {tc : Tok} {ts' : List Tok}
    {k a ms nf op pc st pa an} {ch : Node} (hti : tiR W D above (.mk k a ms nf op pc st pa an)) (ha : ta ≠ [])
    (hca : chars ta = a) (h : Fit t (ta ++ tc :: ts') (.mk k a ms nf op pc st pa an))
    (hsel : ∀ d, IsChild d st pa an → d = ch ∨ d.label ≠ some (charOf tc)) : Fit t (tc :: ts') ch := by
  rcases fit_cases ha hca h with hp | ⟨d, hd, ty, tv, hy, he, hp⟩
  · exact ⟨[], tc :: ts', rfl, hp, Or.inl rfl⟩
  · rcases hsel d hd with hd' | hd'
    · subst hd'; exact ⟨ty, tv, he, hp, Or.inr hy⟩
    · exact absurd (fit_label hti hd hy he) hd'

theorem fit_new {D : Nat} {above : List Tok} {t : Kind} {ta : List Tok} {tc : Tok} {ts' : List Tok}
    {k a ms nf op pc st pa an} (hti : tiR W D above (.mk k a ms nf op pc st pa an)) (ha : ta ≠ [])
    (hca : chars ta = a) (h : Fit t (ta ++ tc :: ts') (.mk k a ms nf op pc st pa an))
    (hno : ∀ d, IsChild d st pa an → d.label ≠ some (charOf tc)) : Piece t (tc :: ts') := by
  rcases fit_cases ha hca h with hp | ⟨d, hd, ty, tv, hy, he, hp⟩
  · exact hp
  · exact absurd (fit_label hti hd hy he) (hno d hd)

theorem fit_empty {t : Kind} {ts : List Tok} (h : Fit t ts emptyTree) : Piece t ts := by
  obtain ⟨tu, tv, hs, hp, hu⟩ := h
  have hu' : tu = [] := by
    rcases hu with hu | hu
    · exact hu
    · rcases mem_bounds_mk.mp hu with hu | ⟨d, hd, _⟩
      · exact chars_eq_nil hu
      · simp [IsChild] at hd
  subst hu'
  simp only [List.nil_append] at hs
  rw [hs]; exact hp

/-- in the split cases the new tokens are literals, and so is the split node -/
theorem fit_split (hW : World W) {D : Nat} {above : List Tok} {t : Kind} {a : Str} {y : Char} {p' : Str}
    {ts : List Tok} {k ms nf op pc st pa an}
    (hti : tiR W D above (.mk k (a ++ y :: p') ms nf op pc st pa an)) (ha : a ≠ [])
    (h : Fit t ts (.mk k (a ++ y :: p') ms nf op pc st pa an)) (hin : InW W (above ++ ts))
    (hpre : a <+: chars ts) (hnp : ¬ (a ++ y :: p') <+: chars ts) :
    t = .static ∧ k = .static ∧ ts = lits (chars ts) := by
  have hl := ((tiR_mk ..).mp hti).1
  have hlen : 2 ≤ (a ++ y :: p').length := by
    cases a with
    | nil => exact absurd rfl ha
    | cons _ _ => simp; omega
  have hk : k = .static := by
    cases k with
    | static => rfl
    | param => have := hl.kP rfl; rw [this] at hlen; simp at hlen
    | any => have := (hl.kA rfl).1; rw [this] at hlen; simp at hlen
  subst hk
  have hnode := hl.inW
  obtain ⟨tu, tv, hs, hp, hu⟩ := h
  rcases hu with hu | hu
  · subst hu
    simp only [List.nil_append] at hs
    subst hs
    cases t with
    | static =>
      obtain ⟨v, hv⟩ := hp
      exact ⟨rfl, rfl, by rw [hv]; simp⟩
    | param =>
      exfalso
      have hv : ts = [.param] := hp
      subst hv
      have hae := prefix_singleton ha hpre
      subst hae
      exact hW.no_conflict (q := above) (r1 := lits (y :: p')) (r2 := []) (by simpa [headToks, charOf] using hnode) hin
    | any =>
      exfalso
      have hv : ts = [.any] := hp
      subst hv
      have hae := prefix_singleton ha hpre
      subst hae
      exact hW.no_lit_star (q := above) (r := lits (y :: p')) (by simpa [headToks, charOf] using hnode)
  · obtain ⟨z, hz⟩ := bounds_prefix hu
    exfalso
    apply hnp
    rw [hs, chars_append, hz]
    simp only [Node.pre]
    rw [List.append_assoc (a ++ y :: p')]
    exact List.prefix_append _ _

/-- **`insertAt` preserves the relaxed invariant** (and the kind of the node it is applied to) -/
theorem insertAt_tiR (hW : World W) (m : Str) (t : Kind) (rm : Option RouteMethod) (s : Str) (n : Node) :
    ∀ (D : Nat) (above ts : List Tok), s = chars ts → tiR W D above n → Fit t ts n → InW W (above ++ ts) →
      StarLast s →
      (∀ r, rm = some r → (norm r.ppath).1 = above ++ ts ∧ r.pnames.length = arity (above ++ ts)) →
      arity (above ++ ts) ≤ D → (t = .any → rm ≠ none) →
      (lcp s n.pre = 0 → n = emptyTree ∧ t = .static) →
      tiR W D above (insertAt m s t rm n) ∧ (insertAt m s t rm n).kind = n.kind := by
  refine insertAt_cases m t rm (fun s n r => ∀ (D : Nat) (above ts : List Tok), s = chars ts → tiR W D above n →
      Fit t ts n → InW W (above ++ ts) → StarLast s →
      (∀ r, rm = some r → (norm r.ppath).1 = above ++ ts ∧ r.pnames.length = arity (above ++ ts)) →
      arity (above ++ ts) ≤ D → (t = .any → rm ≠ none) →
      (lcp s n.pre = 0 → n = emptyTree ∧ t = .static) →
      tiR W D above r ∧ r.kind = n.kind) ?_ ?_ ?_ ?_ ?_ ?_ ?_ ?_ s n
  · -- take-over of the empty root
    intro s k p ms nf op pc st pa an h0 D above ts hs hti hfit hin hstar hrec hD hany hroot
    obtain ⟨hn, ht⟩ := hroot h0
    rw [hn] at hfit
    simp only [emptyTree, Node.mk.injEq] at hn
    obtain ⟨rfl, rfl, rfl, rfl, rfl, rfl, rfl, rfl, rfl⟩ := hn
    subst ht
    have hk : (if rm.isSome = true then Kind.static else Kind.static) = .static := by split <;> rfl
    rw [hk, hs]
    exact ⟨tiR_leaf (t := .static) (fit_empty hfit) hD hin hrec hany, withRec_kind ..⟩
  · -- split, the new text ends at the split point
    intro a y p' k ms nf op pc st pa an ha D above ts hs hti hfit hin hstar hrec hD hany hroot
    obtain ⟨ht, hk, hts⟩ := fit_split hW hti ha hfit hin (by rw [← hs]; exact List.prefix_refl a)
      (by rw [← hs]; exact not_prefix_self_app (by simp))
    subst ht hk
    rw [← hs] at hts
    subst hts
    refine ⟨tiR_withRec ?_ hrec, withRec_kind ..⟩
    refine tiR_splitNode hD hin (labelsDistinct_single _) ?_
    intro c hc
    simp only [List.mem_singleton] at hc
    subst hc
    exact ⟨rfl, by simp [Node.pre], tiR_shift hti⟩
  · -- split with a new branch
    intro a x s' y p' k ms nf op pc st pa an ha hne D above ts hs hti hfit hin hstar hrec hD hany hroot
    obtain ⟨ht, hk, hts⟩ := fit_split hW hti ha hfit hin (by rw [← hs]; exact List.prefix_append a _)
      (by rw [← hs]; exact not_prefix_app (fun h => hne (List.cons_prefix_cons.mp h).1.symm))
    subst ht hk
    rw [← hs] at hts
    subst hts
    have he : above ++ lits (a ++ x :: s') = above ++ lits a ++ lits (x :: s') := by simp [lits_append']
    rw [he] at hD hrec hin
    refine ⟨?_, rfl⟩
    refine tiR_splitNode (Nat.le_trans (arity_le_append _ _) hD) hin.left ?_ ?_
    · apply labelsDistinct_pair
      rw [withRec_label]
      simp only [Node.label, Node.pre, List.head?_cons, ne_eq, Option.some.injEq]
      exact fun h => hne h.symm
    · intro c hc
      simp only [List.mem_cons, List.not_mem_nil, or_false] at hc
      rcases hc with hc | hc
      · subst hc; exact ⟨rfl, by simp [Node.pre], tiR_shift hti⟩
      · subst hc
        have hleaf := tiR_leaf (W := W) (m := m) (t := .static) (tv := lits (x :: s')) ⟨_, rfl⟩ hD hin hrec hany
        rw [chars_lits] at hleaf
        exact ⟨withRec_kind .., by rw [withRec_pre]; simp, hleaf⟩
  · -- descend into a static child
    intro a c s' k ms nf op pc st1 ch st2 pa an ha hch h1 ih D above ts hs hti hfit hin hstar hrec hD hany hroot
    obtain ⟨ta, tr, rfl, hca, hcr⟩ := chars_eq_append hs.symm
    obtain ⟨tc, ts', rfl, hcc, hcs⟩ := chars_eq_cons hcr
    obtain ⟨hl, hS, hP, hA⟩ := (tiR_mk ..).mp hti
    have hag := agree_full hW hl hca (by rw [List.append_assoc]; exact hin)
    have hta : ta ≠ [] := by intro h; rw [h] at hca; exact ha hca.symm
    subst hcc
    have hother := other_label_S hW hti hch h1
    have hchild : IsChild ch (st1 ++ ch :: st2) pa an := Or.inl (by simp)
    have hsel : ∀ d, IsChild d (st1 ++ ch :: st2) pa an → d = ch ∨ d.label ≠ some (charOf tc) := by
      intro d hd
      simp only [IsChild, List.mem_append, List.mem_cons] at hd
      rcases hd with (hd | hd | hd) | hd | hd
      · exact Or.inr (hother d (Or.inl hd))
      · exact Or.inl hd
      · exact Or.inr (hother d (Or.inr (Or.inl hd)))
      · exact Or.inr (hother d (Or.inr (Or.inr (Or.inl hd))))
      · exact Or.inr (hother d (Or.inr (Or.inr (Or.inr hd))))
    have he : above ++ (ta ++ tc :: ts') = above ++ headToks k a ++ tc :: ts' := by rw [hag]; simp
    rw [he] at hD hrec hin
    obtain ⟨ih1, ih2⟩ := ih D (above ++ headToks k a) (tc :: ts') (by simp [hcs]) (tiR_child hti hchild)
      (fit_desc hti hta hca hfit hsel) hin (starLast_drop hstar) hrec hD hany
      (fun h0 => absurd h0 (lcp_ne_zero_of_label hch))
    have hlab : (insertAt m (charOf tc :: s') t rm ch).label = ch.label := by rw [insertAt_label, hch]; rfl
    refine ⟨(tiR_mk ..).mpr ⟨?_, ?_, hP, hA⟩, rfl⟩
    · refine ⟨hl.depth, hl.inW, hl.kP, ?_, hl.noNf, hl.recs, hl.nfRec, labelsDistinct_replace hlab hl.distinct, ?_,
        hl.paK, hl.anK⟩
      · intro hk; have := (hl.kA hk).2.1; simp at this
      · intro d hd
        simp only [List.mem_append, List.mem_cons] at hd
        rcases hd with hd | hd | hd
        · exact hl.stK d (by simp [hd])
        · subst hd
          refine ⟨by rw [ih2]; exact (hl.stK ch (by simp)).1, ?_⟩
          obtain ⟨r, hr⟩ := pre_of_label (hlab.trans hch)
          rw [hr]; simp
        · exact hl.stK d (by simp [hd])
    · rw [tiRL_iff] at hS ⊢
      intro d hd
      simp only [List.mem_append, List.mem_cons] at hd
      rcases hd with hd | hd | hd
      · exact hS d (by simp [hd])
      · subst hd; exact ih1
      · exact hS d (by simp [hd])
  · -- descend into the param child
    intro a s' k ms nf op pc st ch an ha h1 ih D above ts hs hti hfit hin hstar hrec hD hany hroot
    obtain ⟨ta, tr, rfl, hca, hcr⟩ := chars_eq_append hs.symm
    obtain ⟨tc, ts', rfl, hcc, hcs⟩ := chars_eq_cons hcr
    obtain ⟨hl, hS, hP, hA⟩ := (tiR_mk ..).mp hti
    have hag := agree_full hW hl hca (by rw [List.append_assoc]; exact hin)
    have hta : ta ≠ [] := by intro h; rw [h] at hca; exact ha hca.symm
    have hother := other_label_P hti h1
    have hchild : IsChild ch st (some ch) an := Or.inr (Or.inl rfl)
    have hch := child_param_label hti (c := ch) rfl
    have hsel : ∀ d, IsChild d st (some ch) an → d = ch ∨ d.label ≠ some (charOf tc) := by
      intro d hd
      rw [hcc]
      simp only [IsChild, Option.some.injEq] at hd
      rcases hd with hd | hd | hd
      · exact Or.inr (hother d (Or.inl hd))
      · exact Or.inl hd.symm
      · exact Or.inr (hother d (Or.inr hd))
    have he : above ++ (ta ++ tc :: ts') = above ++ headToks k a ++ tc :: ts' := by rw [hag]; simp
    rw [he] at hD hrec hin
    obtain ⟨ih1, ih2⟩ := ih D (above ++ headToks k a) (tc :: ts') (by simp [hcs, hcc]) (tiR_child hti hchild)
      (fit_desc hti hta hca hfit hsel) hin (starLast_drop hstar) hrec hD hany
      (fun h0 => absurd h0 (lcp_ne_zero_of_label hch))
    refine ⟨(tiR_mk ..).mpr ⟨?_, hS, ?_, hA⟩, rfl⟩
    · refine ⟨hl.depth, hl.inW, hl.kP, ?_, hl.noNf, hl.recs, hl.nfRec, hl.distinct, hl.stK, ?_, hl.anK⟩
      · intro hk; have := (hl.kA hk).2.2.1; simp at this
      · intro d hd
        simp only [Option.some.injEq] at hd
        subst hd
        rw [ih2]; exact hl.paK ch rfl
    · rw [tiRO]; exact ih1
  · -- descend into the any child
    intro a s' k ms nf op pc st pa ch ha h1 ih D above ts hs hti hfit hin hstar hrec hD hany hroot
    obtain ⟨ta, tr, rfl, hca, hcr⟩ := chars_eq_append hs.symm
    obtain ⟨tc, ts', rfl, hcc, hcs⟩ := chars_eq_cons hcr
    obtain ⟨hl, hS, hP, hA⟩ := (tiR_mk ..).mp hti
    have hag := agree_full hW hl hca (by rw [List.append_assoc]; exact hin)
    have hta : ta ≠ [] := by intro h; rw [h] at hca; exact ha hca.symm
    have hother := other_label_A hti h1
    have hchild : IsChild ch st pa (some ch) := Or.inr (Or.inr rfl)
    have hch := child_any_label hti (c := ch) rfl
    have hsel : ∀ d, IsChild d st pa (some ch) → d = ch ∨ d.label ≠ some (charOf tc) := by
      intro d hd
      rw [hcc]
      simp only [IsChild, Option.some.injEq] at hd
      rcases hd with hd | hd | hd
      · exact Or.inr (hother d (Or.inl hd))
      · exact Or.inr (hother d (Or.inr hd))
      · exact Or.inl hd.symm
    have he : above ++ (ta ++ tc :: ts') = above ++ headToks k a ++ tc :: ts' := by rw [hag]; simp
    rw [he] at hD hrec hin
    obtain ⟨ih1, ih2⟩ := ih D (above ++ headToks k a) (tc :: ts') (by simp [hcs, hcc]) (tiR_child hti hchild)
      (fit_desc hti hta hca hfit hsel) hin (starLast_drop hstar) hrec hD hany
      (fun h0 => absurd h0 (lcp_ne_zero_of_label hch))
    refine ⟨(tiR_mk ..).mpr ⟨?_, hS, hP, ?_⟩, rfl⟩
    · refine ⟨hl.depth, hl.inW, hl.kP, ?_, hl.noNf, hl.recs, hl.nfRec, hl.distinct, hl.stK, hl.paK, ?_⟩
      · intro hk; have := (hl.kA hk).2.2.2.1; simp at this
      · intro d hd
        simp only [Option.some.injEq] at hd
        subst hd
        rw [ih2]; exact hl.anK ch rfl
    · rw [tiRO]; exact ih1
  · -- a new child
    intro a c s' k ms nf op pc st pa an ha h1 hp hA D above ts hs hti hfit hin hstar hrec hD hany hroot
    obtain ⟨ta, tr, rfl, hca, hcr⟩ := chars_eq_append hs.symm
    obtain ⟨tc, ts', rfl, hcc, hcs⟩ := chars_eq_cons hcr
    obtain ⟨hl, hS, hP, hAn⟩ := (tiR_mk ..).mp hti
    have hag := agree_full hW hl hca (by rw [List.append_assoc]; exact hin)
    have hta : ta ≠ [] := by intro h; rw [h] at hca; exact ha hca.symm
    have hno := other_label_new hti h1 hp hA
    have hpiece := fit_new hti hta hca hfit (by rw [hcc]; exact hno)
    have hkA : k ≠ .any := by
      intro hk
      have := (hl.kA hk).1
      subst this
      exact starLast_not hstar
    have he : above ++ (ta ++ tc :: ts') = above ++ headToks k a ++ tc :: ts' := by rw [hag]; simp
    rw [he] at hD hrec hin
    have hleaf := tiR_leaf (W := W) (m := m) hpiece hD hin hrec hany
    have hcs' : chars (tc :: ts') = c :: s' := by simp [hcc, hcs]
    rw [hcs'] at hleaf
    cases t with
    | static =>
      refine ⟨(tiR_mk ..).mpr ⟨?_, ?_, hP, hAn⟩, rfl⟩
      · refine ⟨hl.depth, hl.inW, hl.kP, fun hk => absurd hk hkA, hl.noNf, hl.recs, hl.nfRec, ?_, ?_, hl.paK, hl.anK⟩
        · apply labelsDistinct_snoc hl.distinct
          intro x hx
          rw [withRec_label]; exact h1 x hx
        · intro d hd
          simp only [List.mem_append, List.mem_singleton] at hd
          rcases hd with hd | hd
          · exact hl.stK d hd
          · subst hd; exact ⟨withRec_kind .., by rw [withRec_pre]; simp⟩
      · rw [tiRL_iff] at hS ⊢
        intro d hd
        simp only [List.mem_append, List.mem_singleton] at hd
        rcases hd with hd | hd
        · exact hS d hd
        · subst hd; exact hleaf
    | param =>
      refine ⟨(tiR_mk ..).mpr ⟨?_, hS, ?_, hAn⟩, rfl⟩
      · refine ⟨hl.depth, hl.inW, hl.kP, fun hk => absurd hk hkA, hl.noNf, hl.recs, hl.nfRec, hl.distinct, hl.stK,
          ?_, hl.anK⟩
        intro d hd
        simp only [Option.some.injEq] at hd
        subst hd; exact withRec_kind ..
      · rw [tiRO]; exact hleaf
    | any =>
      refine ⟨(tiR_mk ..).mpr ⟨?_, hS, hP, ?_⟩, rfl⟩
      · refine ⟨hl.depth, hl.inW, hl.kP, fun hk => absurd hk hkA, hl.noNf, hl.recs, hl.nfRec, hl.distinct, hl.stK,
          hl.paK, ?_⟩
        intro d hd
        simp only [Option.some.injEq] at hd
        subst hd; exact withRec_kind ..
      · rw [tiRO]; exact hleaf
  · -- the node exists
    intro k p ms nf op pc st pa an hp D above ts hs hti hfit hin hstar hrec hD hany hroot
    have hl := ((tiR_mk ..).mp hti).1
    have hag := agree_full hW hl hs.symm (ts' := []) (by simpa using hin)
    rw [← hag] at hrec
    exact ⟨tiR_withRec hti hrec, withRec_kind ..⟩

end Router.Tree.Esc
