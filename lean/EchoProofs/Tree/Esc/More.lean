import EchoProofs.Tree.Esc.Corollaries
import EchoProofs.Tree.Dirty
/-!
# Further router corollaries for tables WITH escaped colons (`okTableE`)

The remaining `okTable` corollaries of `Tree/Complete.lean`, `C03Method.lean`, `C20Tree.lean` and `Tree/Dirty.lean`,
with the weaker hypothesis `okTableE rs = true` (same statements, same proofs: they go through
`find_eq_route_okE` / `build_okE`).
-/
set_option linter.unusedSimpArgs false
set_option linter.unusedVariables false
namespace Router.Tree
open Router Router.Spec

/-! ### patterns without text after `*` have `*` last -/

theorem anyLast_of_okPatternEAux : ∀ (f : Nat) (p : Str), okPatternEAux f p = true →
    anyLast (normAux f p).1 = true := by
  intro f
  induction f with
  | zero => intro p _; simp [normAux, anyLast]
  | succ f ih =>
    intro p h
    cases p with
    | nil => simp [normAux, anyLast]
    | cons c rest =>
      rw [Esc.okPatternEAux_cons] at h
      rw [normAux_cons]
      by_cases h1 : c = '\\' ∧ rest.head? = some ':'
      · rw [if_pos h1] at h ⊢
        simp only [anyLast]; exact ih _ h
      · rw [if_neg h1] at h ⊢
        by_cases h2 : c = ':'
        · rw [if_pos h2] at h ⊢
          simp only [anyLast]; exact ih _ h
        · rw [if_neg h2] at h ⊢
          by_cases h3 : c = '*'
          · rw [if_pos h3]; rfl
          · rw [if_neg h3] at h ⊢
            simp only [anyLast]; exact ih _ h

theorem anyLast_of_okPatternE {p : Str} (h : okPatternE p = true) : anyLast (norm p).1 = true :=
  anyLast_of_okPatternEAux _ _ h

theorem tree_complete_okE (rs : List Route) (hok : okTableE rs = true) (r : Route) (hr : r ∈ rs)
    (hne : r.method ≠ routeNotFound) (path : Str) (hmatch : C02.Matches (norm r.path).1 path)
    (n : Nat) (hn : maxParam rs ≤ n) :
    ∃ rm vals, find (build rs) r.method path (List.replicate n []) = .dispatch rm vals
      ∧ ∃ r' ∈ dedupLast rs, r'.hid = rm.hid := by
  obtain ⟨r', hr', hkey⟩ := dedupLast_key rs r hr
  simp only [sameKey, Bool.and_eq_true, beq_iff_eq] at hkey
  have hmem : mkEntry r' ∈ (dedupLast rs).map mkEntry := List.mem_map.mpr ⟨r', hr', rfl⟩
  have hal : ∀ e ∈ (dedupLast rs).map mkEntry, anyLast e.toks = true := by
    intro e he
    obtain ⟨a, ha, rfl⟩ := List.mem_map.mp he
    have haok : okPatternE a.path = true := by
      have := dedupLast_subset rs a ha
      exact (Esc.okTableE_parts hok).1 a this
    exact anyLast_of_okPatternE haok
  have hm' : (mkEntry r').method = r.method := by simp [mkEntry, hkey.1]
  have ht' : (mkEntry r').toks = (norm r.path).1 := by simp [mkEntry, hkey.2]
  obtain ⟨e', vals, hroute⟩ := C02.C02_complete _ hal (mkEntry r') hmem (by rw [hm']; exact hne) path
    (by rw [ht']; exact hmatch)
  rw [hm'] at hroute
  obtain ⟨o, ho, he⟩ := find_eq_route_okE rs r.method path n hn hok
  rw [hroute] at he
  generalize hf : find (build rs) r.method path (List.replicate n []) = f at ho
  cases ho with
  | dispatch rm mm vals' =>
    refine ⟨rm, vals', rfl, ?_⟩
    obtain ⟨rt, hrt, hhid, _, _⟩ := tree_dispatch_registered_okE rs r.method path n hn hok rm vals' hf
    exact ⟨rt, hrt, hhid⟩
  | notFound p => exact absurd he (by simp [C02.OutEquiv])
  | mna p a => exact absurd he (by simp [C02.OutEquiv])


/-- **tree_dispatch_method_okE** — on the radix-tree model of `Router.Find`, for every table of representable
    patterns (routes may be registered again and again): the record a request is dispatched to belongs to a
    registration in force that was made for the request's method or as a RouteNotFound route.  (The tree's
    record does not carry the method; the registration in force with the record's handler id does.) -/
theorem tree_dispatch_method_okE (rs : List Route) (m path : Str) (n : Nat) (hn : maxParam rs ≤ n)
    (hok : okTableE rs = true) (rm : RouteMethod) (vals : List Str)
    (h : find (build rs) m path (List.replicate n []) = .dispatch rm vals) :
    ∃ r ∈ dedupLast rs, r.hid = rm.hid ∧ normalizeSlash r.path = rm.ppath
      ∧ (r.method = m ∨ r.method = routeNotFound) := by
  obtain ⟨o, ho, he⟩ := find_eq_route_okE rs m path n hn hok
  rw [h] at ho
  obtain ⟨mm, rfl⟩ := outRel_dispatch_inv ho
  have hr := outEquiv_dispatch_left he
  have hmeth := C03.C03_dispatch_method _ _ _ _ _ hr
  have hmem : entryOf mm rm ∈ (dedupLast rs).map mkEntry := by
    rcases C01.C01_sound_partial _ _ _ _ _ hr with ⟨h1, _, _, _⟩ | ⟨_, h1, _, _⟩
    · exact h1
    · exact h1
  obtain ⟨r, hr', hre⟩ := List.mem_map.mp hmem
  refine ⟨r, hr', ?_, ?_, ?_⟩
  · have := congrArg Entry.hid hre
    simpa [mkEntry, entryOf] using this
  · have := congrArg Entry.ppath hre
    simpa [mkEntry, entryOf] using this
  · have hm : r.method = (entryOf mm rm).method := by
      have := congrArg Entry.method hre
      simpa [mkEntry] using this
    rw [hm]
    exact hmeth


/-- **(B) the outcome of `Router.Find` does not depend on the content of the value slice**: for every
    table of representable patterns (re-registrations allowed) and two slices of the same length (if the
    slices are shorter than `maxParam`, both runs may fail — together).  No exception: also the
    `RouteNotFound` record reached through the best-node fallback (F3) gets the same values. -/
theorem find_content_eq_okE (rs : List Route) (hok : okTableE rs = true) (m path : Str) (pv pv' : List Str)
    (hsame : pv.length = pv'.length) :
    find (build rs) m path pv = find (build rs) m path pv' := by
  cases rs with
  | nil =>
    have hb : build [] = emptyTree := rfl
    rw [hb, find_emptyTree, find_emptyTree]
  | cons r rs =>
    obtain ⟨h1, h2, _⟩ := build_okE (r :: rs) (by simp) hok
    exact find_content _ _ h2 h1 m path pv pv' hsame

/-- **(B)**, as asked for: a used context routes like a fresh one -/
theorem find_content_irrelevant_okE (rs : List Route) (hok : okTableE rs = true) (m path : Str) (pv : List Str)
    (_hlen : maxParam rs ≤ pv.length) :
    find (build rs) m path pv = find (build rs) m path (List.replicate pv.length []) :=
  find_content_eq_okE rs hok m path pv _ (by simp)

/-- the statement of the task with its anticipated exception (the `RouteNotFound` record reached through the
    best-node fallback getting whatever the slice holds): it holds because the first disjunct always does;
    the second disjunct never occurs with values different from the blank ones. -/
theorem find_content_irrelevant_or_okE (rs : List Route) (hok : okTableE rs = true) (m path : Str) (pv : List Str)
    (hlen : maxParam rs ≤ pv.length) :
    find (build rs) m path pv = find (build rs) m path (List.replicate pv.length [])
    ∨ (∃ rm vals vals', find (build rs) m path pv = .dispatch rm vals
          ∧ find (build rs) m path (List.replicate pv.length []) = .dispatch rm vals'
          ∧ (findNode path m (build rs) ⟨0, 0, List.replicate pv.length [], none, false⟩).2 = .leave
          ∧ ∃ b, (findNode path m (build rs) ⟨0, 0, List.replicate pv.length [], none, false⟩).1.best = some b
              ∧ b.nf = some rm) :=
  Or.inl (find_content_irrelevant_okE rs hok m path pv hlen)

/-- routing never fails on a used context with at least `maxParam` value slots -/
theorem tree_no_panic_forward_okE (rs : List Route) (hok : okTableE rs = true) (m path : Str) (pv : List Str)
    (hlen : maxParam rs ≤ pv.length) : find (build rs) m path pv ≠ .panic := by
  rw [find_content_irrelevant_okE rs hok m path pv hlen]
  exact find_table_no_panic_okE rs m path pv.length hlen hok

/-- **internal forward = fresh request**, for requests that hit a route registered for their method: if a
    registered route for method `m` matches the path, `Router.Find` on a context holding ANY old values
    dispatches to the same record with the same values as on a freshly reset context — and that record
    belongs to a registration in force. -/
theorem tree_forward_sound_okE (rs : List Route) (hok : okTableE rs = true) (m path : Str) (pv : List Str)
    (hlen : maxParam rs ≤ pv.length) (hm : m ≠ routeNotFound)
    (r : Route) (hr : r ∈ rs) (hmeth : r.method = m) (hmatch : C02.Matches (norm r.path).1 path) :
    ∃ rm vals, find (build rs) m path pv = .dispatch rm vals ∧
      find (build rs) m path (List.replicate pv.length []) = .dispatch rm vals ∧
      ∃ r' ∈ dedupLast rs, r'.hid = rm.hid := by
  subst hmeth
  obtain ⟨rm, vals, hf, hreg⟩ := tree_complete_okE rs hok r hr hm path hmatch pv.length hlen
  exact ⟨rm, vals, by rw [find_content_irrelevant_okE rs hok _ path pv hlen]; exact hf, hf, hreg⟩

/-- the same with the match given by an instantiation of the pattern with valid values (a named
    parameter's value non-empty and without `/`), as in C20 -/
theorem tree_forward_sound_inst_okE (rs : List Route) (hok : okTableE rs = true) (m path : Str) (pv : List Str)
    (hlen : maxParam rs ≤ pv.length) (hm : m ≠ routeNotFound)
    (r : Route) (hr : r ∈ dedupLast rs) (hmeth : r.method = m) (w : List Str)
    (hvalid : C20.ValidVals (norm r.path).1 w) (hinst : inst (norm r.path).1 w = some path) :
    ∃ rm vals, find (build rs) m path pv = .dispatch rm vals ∧
      find (build rs) m path (List.replicate pv.length []) = .dispatch rm vals ∧
      ∃ r' ∈ dedupLast rs, r'.hid = rm.hid :=
  tree_forward_sound_okE rs hok m path pv hlen hm r (dedupLast_subset rs r hr) hmeth
    (C20.matches_of_inst _ w _ (C20.normAux_paramThenSlash _ _) hvalid hinst)

/-- **C01 on the tree model, for a used context**: whatever `Router.Find` dispatches to on a context holding
    arbitrary old values, the observed values are those of the request path (the pattern instantiated with
    them rebuilds the path, one value per name, no `/` in a parameter followed by text) — or it is the F3
    fallback, and then the values are blank.  No text of an earlier request shows up in any value. -/
theorem tree_sound_forward_okE (rs : List Route) (hok : okTableE rs = true) (m path : Str) (pv : List Str)
    (hlen : maxParam rs ≤ pv.length) (rm : RouteMethod) (vals : List Str)
    (h : find (build rs) m path pv = .dispatch rm vals) :
    (inst (norm rm.ppath).1 vals = some path ∧ SlashFree (norm rm.ppath).1 vals
        ∧ vals.length = arity (norm rm.ppath).1)
    ∨ ((∃ w, inst (norm rm.ppath).1 w = some path) ∧ vals = rm.pnames.map (fun _ => [])) := by
  rw [find_content_irrelevant_okE rs hok m path pv hlen] at h
  exact tree_sound_okE rs m path pv.length hlen hok rm vals h

/-- **C03 on the tree model, for a used context**: the record dispatched to belongs to a registration in
    force made for the request's method or as a RouteNotFound route -/
theorem tree_dispatch_method_forward_okE (rs : List Route) (hok : okTableE rs = true) (m path : Str) (pv : List Str)
    (hlen : maxParam rs ≤ pv.length) (rm : RouteMethod) (vals : List Str)
    (h : find (build rs) m path pv = .dispatch rm vals) :
    ∃ r ∈ dedupLast rs, r.hid = rm.hid ∧ normalizeSlash r.path = rm.ppath
      ∧ (r.method = m ∨ r.method = routeNotFound) := by
  rw [find_content_irrelevant_okE rs hok m path pv hlen] at h
  exact tree_dispatch_method_okE rs m path pv.length hlen hok rm vals h


end Router.Tree

namespace C20
open Router Router.Spec Router.Tree

/-- **C20 on the tree model, any table**: the URL reversed from a registered route with valid values,
    requested with the route's method, is always dispatched to a registered handler (the route itself
    unless another registered route takes priority for that URL) — never answered 404/405. -/
theorem C20_reversed_dispatched_tree_okE (rs : List Route) (hok : okTableE rs = true) (r : Route) (hr : r ∈ rs)
    (hne : r.method ≠ routeNotFound) (vs : List Str)
    (hstar : starLast (normalizeSlash r.path) = true) (hvalid : ValidVals (norm r.path).1 vs)
    (n : Nat) (hn : maxParam rs ≤ n) :
    ∃ rm vals, find (build rs) r.method (reverse r.path vs) (List.replicate n []) = .dispatch rm vals
      ∧ ∃ r' ∈ dedupLast rs, r'.hid = rm.hid := by
  have hinst := C20_reverse_eq_inst r.path vs hstar (validVals_length hvalid)
  exact tree_complete_okE rs hok r hr hne _
    (matches_of_inst _ vs _ (normAux_paramThenSlash _ _) hvalid hinst) n hn


/-- **C20_roundtrip_values on the tree model** — in ANY table without text after `*` and without escape conflict (escaped colons allowed) (re-registrations
    allowed): whenever the tree model dispatches the URL reversed from route `r` with valid values `vs`
    to a record carrying `r`'s pattern — and the handler that runs is not that of a RouteNotFound route,
    which sees cleared values by design — the handler sees exactly `vs`. -/
theorem C20_roundtrip_values_tree_okE (rs : List Route) (hok : okTableE rs = true) (r : Route)
    (vs vals : List Str)
    (hstar : starLast (normalizeSlash r.path) = true) (hvalid : ValidVals (norm r.path).1 vs)
    (n : Nat) (hn : maxParam rs ≤ n) (rm : RouteMethod)
    (h : find (build rs) r.method (reverse r.path vs) (List.replicate n []) = .dispatch rm vals)
    (hsame : rm.ppath = normalizeSlash r.path)
    (hrec : ∀ r' ∈ rs, r'.hid = rm.hid → r'.method ≠ routeNotFound) : vals = vs := by
  have hinst := C20_reverse_eq_inst r.path vs hstar (validVals_length hvalid)
  have hn' : (norm rm.ppath).1 = (norm r.path).1 := by
    rw [hsame]; unfold norm; rw [normalizeSlash_idem]
  obtain ⟨o, ho, he⟩ := find_eq_route_okE rs r.method (reverse r.path vs) n hn hok
  rw [h] at ho
  obtain ⟨mm, rfl⟩ := outRel_dispatch_inv ho
  have hr := outEquiv_dispatch_left he
  rcases C01.C01_sound_partial _ _ _ _ _ hr with ⟨_, hi, hsf, _⟩ | ⟨hm, hmem, _, _⟩
  · simp only [entryOf] at hi hsf
    rw [hn'] at hi hsf
    exact C20_decomposition_unique (norm r.path).1 vals vs _ (normAux_anyLast _ _)
      (normAux_paramThenSlash _ _) hi hinst hsf (validVals_slashFree hvalid)
  · obtain ⟨r', hr', hre⟩ := List.mem_map.mp hmem
    have h1 : r'.hid = rm.hid := by
      have := congrArg Entry.hid hre; simpa [entryOf, mkEntry] using this
    have h2 : r'.method = routeNotFound := by
      have := congrArg Entry.method hre
      simp only [entryOf, mkEntry] at this hm
      rw [this]; exact hm
    exact absurd h2 (hrec r' (dedupLast_subset rs r' hr') h1)


end C20
