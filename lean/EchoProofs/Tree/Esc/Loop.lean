import EchoProofs.Tree.Esc.Resid
import EchoProofs.Tree.Esc.Text
import EchoProofs.Tree.Insert.Loop
/-!
# One registration with escaped colons: the scan loop of `Router.insert` in lock step with `normAux`

`done` (the text scanned so far, backslashes of `\:` removed) is `chars dt` for the tokens `dt` read so far;
the escape branch consumes two bytes and appends `.lit ':'`.
-/
set_option linter.unusedSimpArgs false
set_option linter.unusedVariables false
namespace Router.Tree.Esc
open Router Router.Spec Router.Tree

variable {W : List (List Tok)}

theorem insertLoop_esc (m p : Str) (h f : Nat) (t : Node) (done : Str) (rest : Str) (pn : List Str)
    (hr : rest.head? = some ':') :
    insertLoop m p h (f + 1) t done ('\\' :: rest) pn = insertLoop m p h f t (done ++ [':']) rest.tail pn := by
  rw [insertLoop, if_pos ⟨rfl, hr⟩]

/-! ### the invariant of the whole tree -/

/-- the tree between two registrations -/
structure Top (W : List (List Tok)) (D : Nat) (t : Node) : Prop where
  inv : tiR W D [] t
  kind : t.kind = .static
  root : t = emptyTree ∨ t.label = some '/'

/-- the tree inside the scan loop: `dt` are the tokens scanned so far -/
structure TreeSt (W : List (List Tok)) (D : Nat) (m : Str) (toks : List Tok) (R0 : R) (t : Node) (dt : List Tok) :
    Prop where
  top : Top W D t
  fit : ∃ tu v, dt = tu ++ lits v ∧ (tu = [] ∨ chars tu ∈ bounds t)
  dead : ∀ x ∈ deads t, x <+: chars dt
  res : ((resid t).filter (keep toks m)).Perm (R0.filter (keep toks m))

theorem top_lcp {D : Nat} {t : Node} {s : Str} (h : Top W D t) (hs : s.head? = some '/') :
    lcp s t.pre = 0 → t = emptyTree := by
  intro h0
  rcases h.root with hr | hr
  · exact hr
  · exact absurd h0 (lcp_ne_zero_of_heads hs hr)

/-- the static insertion in front of a marker -/
theorem step_static (hW : World W) {D : Nat} {m : Str} {toks : List Tok} {R0 : R} {t : Node} {dt : List Tok}
    (h : TreeSt W D m toks R0 t dt) (hs : (chars dt).head? = some '/') (hstar : StarLast (chars dt))
    (hD : arity dt ≤ D) (hin : InW W dt) :
    tiR W D [] (insertAt m (chars dt) .static none t) ∧ (insertAt m (chars dt) .static none t).kind = .static
      ∧ (insertAt m (chars dt) .static none t).label = some '/'
      ∧ chars dt ∈ bounds (insertAt m (chars dt) .static none t)
      ∧ (∀ x ∈ deads (insertAt m (chars dt) .static none t), x = chars dt)
      ∧ ((resid (insertAt m (chars dt) .static none t)).filter (keep toks m)).Perm (R0.filter (keep toks m)) := by
  have hroot : lcp (chars dt) t.pre = 0 → t = emptyTree ∧ Kind.static = Kind.static :=
    fun h0 => ⟨top_lcp h.top hs h0, rfl⟩
  have hfit : Fit .static dt t := by
    obtain ⟨tu, v, e1, e2⟩ := h.fit
    exact ⟨tu, lits v, e1, ⟨v, rfl⟩, e2⟩
  obtain ⟨h1, h2⟩ := insertAt_tiR hW m .static none (chars dt) t D [] dt rfl h.top.inv hfit (by simpa using hin) hstar
    (by intro r hr; cases hr) (by simpa using hD) (by intro h; cases h) hroot
  refine ⟨h1, h2.trans h.top.kind, by rw [insertAt_label]; exact hs, insertAt_bounds .., ?_, ?_⟩
  · intro x hx
    rcases insertAt_deads hW m .static none (chars dt) t D [] h.top.inv
      (fun h0 => by rw [(hroot h0).1]; exact emptyTree_fields) x hx with ⟨hx, _⟩ | ⟨hx, hnp⟩
    · exact hx
    · exact absurd (h.dead x hx) hnp
  · have := insertAt_resid hW m .static none (chars dt) t D [] dt rfl h.top.inv hfit (by simpa using hin) hroot
    exact (this.filter _).trans h.res

/-- the insertion of a marker node, right after `step_static` -/
theorem step_mark (hW : World W) {D : Nat} {m : Str} {toks : List Tok} {R0 : R} {t1 : Node} {dt : List Tok}
    {k : Kind} {tk : Tok} {rm : Option RouteMethod} (hinv : tiR W D [] t1) (hkind : t1.kind = .static)
    (hlab : t1.label = some '/') (hb : chars dt ∈ bounds t1) (hdead : ∀ x ∈ deads t1, x = chars dt)
    (hres : ((resid t1).filter (keep toks m)).Perm (R0.filter (keep toks m)))
    (hs : (chars dt).head? = some '/') (hpiece : Piece k [tk]) (hstar : StarLast (chars (dt ++ [tk])))
    (hrec : ∀ r, rm = some r → toks = dt ++ [tk] ∧ (norm r.ppath).1 = toks ∧ r.pnames.length = arity toks)
    (hany : k = .any → rm ≠ none) (hD : arity (dt ++ [tk]) ≤ D) (hin : InW W (dt ++ [tk])) :
    tiR W D [] (insertAt m (chars (dt ++ [tk])) k rm t1) ∧ (insertAt m (chars (dt ++ [tk])) k rm t1).kind = .static
      ∧ (insertAt m (chars (dt ++ [tk])) k rm t1).label = some '/'
      ∧ chars (dt ++ [tk]) ∈ bounds (insertAt m (chars (dt ++ [tk])) k rm t1)
      ∧ (∀ x ∈ deads (insertAt m (chars (dt ++ [tk])) k rm t1), x = chars (dt ++ [tk]) ∧ rm = none)
      ∧ ((resid (insertAt m (chars (dt ++ [tk])) k rm t1)).filter (keep toks m)).Perm (R0.filter (keep toks m)) := by
  have hne : chars dt ≠ [] := by intro h; rw [h] at hs; simp at hs
  have hs' : (chars (dt ++ [tk])).head? = some '/' := by
    rw [chars_append, head?_append_of_ne_nil hne]; exact hs
  have hl0 : lcp (chars (dt ++ [tk])) t1.pre ≠ 0 := lcp_ne_zero_of_heads hs' hlab
  have hroot : lcp (chars (dt ++ [tk])) t1.pre = 0 → t1 = emptyTree ∧ k = Kind.static := fun h0 => absurd h0 hl0
  have hfit : Fit k (dt ++ [tk]) t1 := ⟨dt, [tk], rfl, hpiece, Or.inr hb⟩
  obtain ⟨h1, h2⟩ := insertAt_tiR hW m k rm (chars (dt ++ [tk])) t1 D [] (dt ++ [tk]) rfl hinv hfit
    (by simpa using hin) hstar
    (by
      intro r hr
      obtain ⟨e1, e2, e3⟩ := hrec r hr
      rw [List.nil_append, ← e1]; exact ⟨e2, e3⟩)
    (by simpa using hD) hany hroot
  refine ⟨h1, h2.trans hkind, by rw [insertAt_label]; exact hs', insertAt_bounds .., ?_, ?_⟩
  · intro x hx
    rcases insertAt_deads hW m k rm (chars (dt ++ [tk])) t1 D [] hinv (fun h0 => absurd h0 hl0) x hx with
      ⟨hx, hrm⟩ | ⟨hx, hnp⟩
    · exact ⟨hx, hrm⟩
    · rw [hdead x hx, chars_append] at hnp
      exact absurd (List.prefix_append _ _) hnp
  · have := insertAt_resid hW m k rm (chars (dt ++ [tk])) t1 D [] (dt ++ [tk]) rfl hinv hfit (by simpa using hin) hroot
    cases rm with
    | none => exact (this.filter _).trans hres
    | some r =>
      obtain ⟨e1, _, _⟩ := hrec r rfl
      rw [← e1] at this ⊢
      exact (filter_expected this).trans hres

/-- the final insertion of the record at the full text -/
theorem step_final (hW : World W) {D : Nat} {m : Str} {toks : List Tok} {R0 : R} {t : Node} {r : RouteMethod}
    (h : TreeSt W D m toks R0 t toks) (hs : (chars toks).head? = some '/') (hstar : StarLast (chars toks))
    (hr1 : (norm r.ppath).1 = toks) (hr2 : r.pnames.length = arity toks)
    (hD : arity toks ≤ D) (hin : InW W toks) :
    Top W D (insertAt m (chars toks) .static (some r) t) ∧ deads (insertAt m (chars toks) .static (some r) t) = []
      ∧ (resid (insertAt m (chars toks) .static (some r) t)).Perm
          ((toks, entryOf m r) :: R0.filter (keep toks m)) := by
  have hroot : lcp (chars toks) t.pre = 0 → t = emptyTree ∧ Kind.static = Kind.static :=
    fun h0 => ⟨top_lcp h.top hs h0, rfl⟩
  have hfit : Fit .static toks t := by
    obtain ⟨tu, v, e1, e2⟩ := h.fit
    exact ⟨tu, lits v, e1, ⟨v, rfl⟩, e2⟩
  obtain ⟨h1, h2⟩ := insertAt_tiR hW m .static (some r) (chars toks) t D [] toks rfl h.top.inv hfit
    (by simpa using hin) hstar
    (by
      intro r' hr'
      simp only [Option.some.injEq] at hr'
      subst hr'
      rw [List.nil_append]; exact ⟨hr1, hr2⟩)
    (by rw [List.nil_append]; exact hD) (by intro h; cases h) hroot
  refine ⟨⟨h1, h2.trans h.top.kind, Or.inr (by rw [insertAt_label]; exact hs)⟩, ?_, ?_⟩
  · rw [List.eq_nil_iff_forall_not_mem]
    intro x hx
    rcases insertAt_deads hW m .static (some r) (chars toks) t D [] h.top.inv
      (fun h0 => by rw [(hroot h0).1]; exact emptyTree_fields) x hx with ⟨_, hrm⟩ | ⟨hx, hnp⟩
    · cases hrm
    · exact absurd (h.dead x hx) hnp
  · have := insertAt_resid hW m .static (some r) (chars toks) t D [] toks rfl h.top.inv hfit (by simpa using hin) hroot
    exact this.trans (List.Perm.cons _ h.res)

theorem chars_snoc_param (dt : List Tok) : chars (dt ++ [Tok.param]) = chars dt ++ [':'] := by simp [charOf]
theorem chars_snoc_any (dt : List Tok) : chars (dt ++ [Tok.any]) = chars dt ++ ['*'] := by simp [charOf]
theorem chars_snoc_lit (dt : List Tok) (c : Char) : chars (dt ++ [Tok.lit c]) = chars dt ++ [c] := by simp [charOf]

theorem inW_of_mem {toks dt rest : List Tok} (h : toks ∈ W) (e : toks = dt ++ rest) : InW W dt :=
  ⟨toks, h, by rw [e]; exact List.prefix_append _ _⟩

/-- **the scan loop**: it keeps the tree invariant, leaves the registered records alone (up to the record
    of the route being registered), and ends with `done` = the text of the tokens of the whole pattern -/
theorem insertLoop_ok (hW : World W) (D : Nat) (m ppath : Str) (hid : Nat) (toks : List Tok) (names : List Str)
    (R0 : R) (hD : arity toks ≤ D) (hmem : toks ∈ W) (hnorm : (norm ppath).1 = toks)
    (hnames : names.length = arity toks) :
    ∀ (fuel : Nat) (t : Node) (dt : List Tok) (todo : Str) (pn : List Str), todo.length < fuel →
      TreeSt W D m toks R0 t dt → toks = dt ++ (NA todo).1 → names = pn ++ (NA todo).2 →
      OKE todo = true → '*' ∉ chars dt → (dt = [] → todo.head? = some '/') →
      (dt ≠ [] → (chars dt).head? = some '/') →
      TreeSt W D m toks R0 (insertLoop m ppath hid fuel t (chars dt) todo pn).1 toks
        ∧ (insertLoop m ppath hid fuel t (chars dt) todo pn).2.1 = chars toks
        ∧ (insertLoop m ppath hid fuel t (chars dt) todo pn).2.2 = names
        ∧ StarLast (chars toks)
        ∧ (chars toks).head? = some '/' := by
  intro fuel
  induction fuel with
  | zero => intro t dt todo pn h; omega
  | succ f ih =>
    intro t dt todo pn hfuel hst htoks hnm hok hnostar hsl0 hsl1
    cases todo with
    | nil =>
      rw [insertLoop_nil]
      rw [NA_nil] at htoks hnm
      simp only [List.append_nil] at htoks hnm
      have hne : dt ≠ [] := by intro h; have := hsl0 h; simp at this
      subst htoks
      exact ⟨hst, rfl, hnm.symm, starLast_of_not_mem hnostar, hsl1 hne⟩
    | cons c rest =>
      simp only [List.length_cons] at hfuel
      rw [OKE_cons] at hok
      rw [NA_cons] at htoks hnm
      have hne : dt ≠ [] → chars dt ≠ [] := fun h h' => h (chars_eq_nil h')
      by_cases hesc : c = '\\' ∧ rest.head? = some ':'
      · -- an escaped colon: literal text
        rw [if_pos hesc] at hok htoks hnm
        obtain ⟨hc, hr⟩ := hesc
        subst hc
        have hdne : dt ≠ [] := by intro h; have := hsl0 h; simp at this
        rw [insertLoop_esc _ _ _ _ _ _ _ _ hr, ← chars_snoc_lit]
        obtain ⟨u, v, e1, e3⟩ := hst.fit
        have hlen : rest.tail.length ≤ rest.length := by simp
        refine ih t (dt ++ [Tok.lit ':']) rest.tail pn (by omega) ⟨hst.top, ?_, ?_, hst.res⟩ ?_ hnm hok ?_ ?_ ?_
        · exact ⟨u, v ++ [':'], by rw [e1, lits_append']; simp, e3⟩
        · intro x hx
          rw [chars_append]
          exact List.IsPrefix.trans (hst.dead x hx) (List.prefix_append _ _)
        · rw [htoks]; simp
        · rw [chars_snoc_lit]; exact mem_append_singleton_ne hnostar (by decide)
        · intro h; simp at h
        · intro _; rw [chars_append, head?_append_of_ne_nil (hne hdne)]; exact hsl1 hdne
      rw [if_neg hesc] at hok htoks hnm
      by_cases hcolon : c = ':'
      · -- a parameter
        subst hcolon
        simp only [if_true] at hok htoks hnm
        have hdne : dt ≠ [] := by intro h; have := hsl0 h; simp at this
        have hs := hsl1 hdne
        have hD1 : arity dt ≤ D := by
          rw [htoks] at hD; exact Nat.le_trans (arity_le_append _ _) hD
        obtain ⟨a1, a2, a3, a4, a5, a6⟩ := step_static hW hst hs (starLast_of_not_mem hnostar) hD1
          (inW_of_mem hmem htoks)
        have htoks' : toks = (dt ++ [Tok.param]) ++ (NA (rest.dropWhile (· ≠ '/'))).1 := by
          rw [htoks]; simp
        have hD2 : arity (dt ++ [Tok.param]) ≤ D := by
          rw [htoks'] at hD; exact Nat.le_trans (arity_le_append _ _) hD
        have hin2 : InW W (dt ++ [Tok.param]) := inW_of_mem hmem htoks'
        have hstar2 : StarLast (chars (dt ++ [Tok.param])) := by
          rw [chars_snoc_param]; exact starLast_snoc hnostar
        rw [insertLoop_colon]
        cases hdrop : rest.dropWhile (· ≠ '/') with
        | nil =>
          simp only
          rw [hdrop, NA_nil] at htoks' hnm
          simp only [List.append_nil] at htoks' hnm
          obtain ⟨b1, b2, b3, b4, b5, b6⟩ := step_mark hW (k := .param) (tk := .param)
            (rm := some ⟨ppath, pn ++ [rest.takeWhile (· ≠ '/')], hid⟩) a1 a2 a3 a4 a5 a6 hs rfl hstar2
            (by
              intro r hr
              simp only [Option.some.injEq] at hr
              subst hr
              exact ⟨htoks', hnorm, by rw [← hnm]; exact hnames⟩)
            (by intro h; cases h) hD2 hin2
          subst htoks'
          rw [← chars_snoc_param]
          refine ⟨⟨⟨b1, b2, Or.inr b3⟩, ⟨dt ++ [Tok.param], [], by simp, Or.inr b4⟩, ?_, b6⟩, rfl, hnm.symm, hstar2, ?_⟩
          · intro x hx; rw [(b5 x hx).1]; exact List.prefix_refl _
          · rw [chars_append, head?_append_of_ne_nil (hne hdne)]; exact hs
        | cons d r =>
          simp only
          have hd : d = '/' := dropWhile_head rest d r hdrop
          subst hd
          obtain ⟨b1, b2, b3, b4, b5, b6⟩ := step_mark hW (k := .param) (tk := .param) (rm := none) a1 a2 a3 a4 a5 a6
            hs rfl hstar2 (by intro r hr; cases hr) (by intro h; cases h) hD2 hin2
          have hlen := dropWhile_length_le (· ≠ '/') rest
          rw [hdrop] at hlen htoks' hnm hok
          simp only [List.length_cons] at hlen
          have hesc' : ¬ ('/' = '\\' ∧ r.head? = some ':') := by simp
          rw [NA_cons, if_neg hesc', if_neg (by simp), if_neg (by simp)] at htoks' hnm
          rw [OKE_cons, if_neg hesc', if_neg (by simp), if_neg (by simp)] at hok
          have hdone' : chars dt ++ [':', '/'] = chars ((dt ++ [Tok.param]) ++ [Tok.lit '/']) := by simp [charOf]
          rw [hdone', ← chars_snoc_param]
          refine ih _ ((dt ++ [Tok.param]) ++ [Tok.lit '/']) r _ (by omega) ⟨⟨b1, b2, Or.inr b3⟩, ?_, ?_, b6⟩ ?_ ?_ hok
            ?_ ?_ ?_
          · exact ⟨dt ++ [Tok.param], ['/'], rfl, Or.inr b4⟩
          · intro x hx; rw [(b5 x hx).1, chars_append (dt ++ [Tok.param])]; exact List.prefix_append _ _
          · rw [htoks']; simp
          · rw [hnm]; simp
          · rw [chars_snoc_lit, chars_snoc_param]
            exact mem_append_singleton_ne (mem_append_singleton_ne hnostar (by simp)) (by simp)
          · intro h; simp at h
          · intro _
            rw [chars_append, chars_append, List.append_assoc, head?_append_of_ne_nil (hne hdne)]; exact hs
      · by_cases hstarc : c = '*'
        · -- the wildcard
          subst hstarc
          rw [if_neg hcolon] at hok htoks hnm
          simp only [if_true] at hok htoks hnm
          have hrest : rest = [] := by simpa using hok
          subst hrest
          have hdne : dt ≠ [] := by intro h; have := hsl0 h; simp at this
          have hs := hsl1 hdne
          have hD1 : arity dt ≤ D := by
            rw [htoks] at hD; exact Nat.le_trans (arity_le_append _ _) hD
          obtain ⟨a1, a2, a3, a4, a5, a6⟩ := step_static hW hst hs (starLast_of_not_mem hnostar) hD1
            (inW_of_mem hmem htoks)
          have hstar2 : StarLast (chars (dt ++ [Tok.any])) := by
            rw [chars_snoc_any]; exact starLast_snoc hnostar
          rw [insertLoop_star, insertLoop_nil]
          obtain ⟨b1, b2, b3, b4, b5, b6⟩ := step_mark hW (k := .any) (tk := .any)
            (rm := some ⟨ppath, pn ++ ["*".toList], hid⟩) a1 a2 a3 a4 a5 a6 hs rfl hstar2
            (by
              intro r hr
              simp only [Option.some.injEq] at hr
              subst hr
              exact ⟨htoks, hnorm, by rw [← hnm]; exact hnames⟩)
            (by intro _ h; cases h) (by rw [← htoks]; exact hD) (inW_of_mem (rest := []) hmem (by rw [List.append_nil]; exact htoks))
          subst htoks
          rw [← chars_snoc_any]
          refine ⟨⟨⟨b1, b2, Or.inr b3⟩, ⟨dt ++ [Tok.any], [], by simp, Or.inr b4⟩, ?_, b6⟩, rfl, hnm.symm, hstar2, ?_⟩
          · intro x hx; rw [(b5 x hx).1]; exact List.prefix_refl _
          · rw [chars_append, head?_append_of_ne_nil (hne hdne)]; exact hs
        · -- literal text
          rw [if_neg hcolon, if_neg hstarc] at hok htoks hnm
          rw [insertLoop_lit _ _ _ _ _ _ _ _ _ hesc hcolon hstarc, ← chars_snoc_lit]
          obtain ⟨u, v, e1, e3⟩ := hst.fit
          refine ih t (dt ++ [Tok.lit c]) rest pn (by omega) ⟨hst.top, ?_, ?_, hst.res⟩ ?_ hnm hok ?_ ?_ ?_
          · exact ⟨u, v ++ [c], by rw [e1, lits_append']; simp, e3⟩
          · intro x hx
            rw [chars_append]
            exact List.IsPrefix.trans (hst.dead x hx) (List.prefix_append _ _)
          · rw [htoks]; simp
          · rw [chars_snoc_lit]; exact mem_append_singleton_ne hnostar (fun h => hstarc h.symm)
          · intro h; simp at h
          · intro _
            by_cases hd : dt = []
            · have := hsl0 hd
              simp only [List.head?_cons, Option.some.injEq] at this
              rw [hd, this]; rfl
            · rw [chars_append, head?_append_of_ne_nil (hne hd)]; exact hsl1 hd

end Router.Tree.Esc
