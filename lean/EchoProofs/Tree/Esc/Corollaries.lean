import EchoProofs.Tree.Esc.Final
import EchoProofs.Tree.OrderFree
/-!
# Router corollaries for tables WITH escaped colons (`okTableE`)

The statements of `Tree/Dedup.lean`, `Tree/OK.lean` and `Tree/OrderFree.lean` (`…_ok`) with the weaker hypothesis
`okTableE rs = true` (no text after `*`, no escape conflict; escaped colons and re-registrations allowed).  All of
them follow from `build_okE` through `find_eq_route_of_repr`, which holds for every tree satisfying `tiNode`.
By `okTableE_of_ok` they subsume the `…_ok` versions.
-/
set_option linter.unusedSimpArgs false
set_option linter.unusedVariables false
namespace Router.Tree
open Router Router.Spec

/-- **L3 on the built tree = L1 on the table in force**, for every table without text after `*` and without escape conflict (escaped colons allowed) -/
theorem find_eq_route_okE (rs : List Route) (m path : Str) (n : Nat) (hn : maxParam rs ≤ n)
    (h : okTableE rs = true) :
    ∃ o, OutRel (find (build rs) m path (List.replicate n [])) o ∧
      C02.OutEquiv o (route ((dedupLast rs).map mkEntry) m path) := by
  cases rs with
  | nil =>
    have hb : build [] = emptyTree := rfl
    refine ⟨.notFound, ?_, ?_⟩
    · rw [hb, find_emptyTree]; exact OutRel.notFound []
    · simp only [dedupLast, List.map_nil, route_nil]; trivial
  | cons r rs =>
    obtain ⟨h1, h2, h3⟩ := build_okE (r :: rs) (by simp) h
    exact find_eq_route_of_repr _ _ _ m path n hn h2 h1 h3 (uniq_dedupLast _)

/-- the tree model never fails on a value slice of at least `maxParam` slots -/
theorem find_table_no_panic_okE (rs : List Route) (m path : Str) (n : Nat) (hn : maxParam rs ≤ n)
    (h : okTableE rs = true) : find (build rs) m path (List.replicate n []) ≠ .panic := by
  cases rs with
  | nil =>
    have hb : build [] = emptyTree := rfl
    rw [hb, find_emptyTree]; intro h; cases h
  | cons r rs =>
    obtain ⟨h1, h2, _⟩ := build_okE (r :: rs) (by simp) h
    exact find_no_panic path m (maxParam (r :: rs)) n (build (r :: rs)) h2 h1 hn

/-- **C01 on the tree model**, for every table without text after `*` and without escape conflict (escaped colons allowed) -/
theorem tree_sound_okE (rs : List Route) (m path : Str) (n : Nat) (hn : maxParam rs ≤ n)
    (hok : okTableE rs = true) (rm : RouteMethod) (vals : List Str)
    (h : find (build rs) m path (List.replicate n []) = .dispatch rm vals) :
    (inst (norm rm.ppath).1 vals = some path ∧ SlashFree (norm rm.ppath).1 vals
        ∧ vals.length = arity (norm rm.ppath).1)
    ∨ ((∃ w, inst (norm rm.ppath).1 w = some path) ∧ vals = rm.pnames.map (fun _ => [])) := by
  obtain ⟨o, ho, he⟩ := find_eq_route_okE rs m path n hn hok
  rw [h] at ho
  obtain ⟨mm, rfl⟩ := outRel_dispatch_inv ho
  have hr := outEquiv_dispatch_left he
  rcases C01.C01_sound_partial _ _ _ _ _ hr with ⟨_, hi, hs, hl⟩ | ⟨_, _, hw, hv⟩
  · exact Or.inl ⟨hi, hs, hl⟩
  · exact Or.inr ⟨hw, hv⟩

/-- **C05**: routing never fails, for every table without text after `*` and without escape conflict (escaped colons allowed) -/
theorem tree_no_panic_okE (rs : List Route) (hok : okTableE rs = true) :
    C05.NoPanic (C05.routerOf rs) (maxParam rs) := by
  intro m p n hn
  unfold C05.routerOf C05.blank
  simp only [Nat.max_zero]
  exact find_table_no_panic_okE rs m p n hn hok

/-- **C05**: routing does not depend on the number of spare value slots -/
theorem tree_length_irrelevant_okE (rs : List Route) (hok : okTableE rs = true) :
    C05.LengthIrrelevant (C05.routerOf rs) (maxParam rs) := by
  intro m p n hn
  have hnp := find_table_no_panic_okE rs m p (maxParam rs) (Nat.le_refl _) hok
  have := find_replicate_frame (build rs) m p (maxParam rs) hnp (n - maxParam rs)
  simp only [C05.routerOf, C05.blank, Nat.max_zero]
  rw [← this]
  congr 2
  omega


/-- **C03 on the tree model**: every advertised method is really served — by the registration in force -/
theorem tree_allow_truthful_okE (rs : List Route) (m path : Str) (n : Nat) (hn : maxParam rs ≤ n)
    (hok : okTableE rs = true) (p : Str) (allow : List Str)
    (h : find (build rs) m path (List.replicate n []) = .methodNotAllowed p allow)
    (m' : Str) (hm' : m' ∈ allow) (hopt : m' ≠ methodOptions) :
    ∃ rm vals, find (build rs) m' path (List.replicate n []) = .dispatch rm vals ∧
      ∃ e, e ∈ (dedupLast rs).map mkEntry ∧ e.method = m' ∧ e.hid = rm.hid := by
  obtain ⟨o, ho, he⟩ := find_eq_route_okE rs m path n hn hok
  rw [h] at ho
  have ho' := outRel_mna_inv ho
  subst ho'
  cases hr : route ((dedupLast rs).map mkEntry) m path with
  | dispatch e v => rw [hr] at he; exact absurd he (by simp [C02.OutEquiv])
  | notFound => rw [hr] at he; exact absurd he (by simp [C02.OutEquiv])
  | methodNotAllowed al =>
    rw [hr] at he
    simp only [C02.OutEquiv] at he
    have hmem : m' ∈ al := he.mem_iff.mp hm'
    obtain ⟨e, v, hd, hmeth, _⟩ := C03.C03_allow_truthful _ _ _ _ hr m' hmem hopt
    obtain ⟨o2, ho2, he2⟩ := find_eq_route_okE rs m' path n hn hok
    rw [hd] at he2
    generalize find (build rs) m' path (List.replicate n []) = f at ho2 ⊢
    cases ho2 with
    | dispatch rm mm vals =>
      obtain ⟨he1, hv⟩ := he2
      refine ⟨rm, vals, rfl, e, ?_, hmeth, ?_⟩
      · have := C01.C01_sound_partial _ _ _ _ _ hd
        rcases this with ⟨hm, _⟩ | ⟨_, hm, _⟩ <;> exact hm
      · rw [← he1]; rfl
    | notFound p' => exact absurd he2 (by simp [C02.OutEquiv])
    | mna p' a' => exact absurd he2 (by simp [C02.OutEquiv])

/-- **C03 on the tree model**: a path no registered pattern can be instantiated to gets 404 -/
theorem tree_404_okE (rs : List Route) (m path : Str) (n : Nat) (hn : maxParam rs ≤ n)
    (hok : okTableE rs = true)
    (hno : ∀ e ∈ rs.map mkEntry, ∀ w, inst e.toks w ≠ some path) :
    ∃ p, find (build rs) m path (List.replicate n []) = .notFound p := by
  obtain ⟨o, ho, he⟩ := find_eq_route_okE rs m path n hn hok
  rw [C03.C03_404 _ m path (fun e he => hno e (mem_dedup_entries he))] at he
  generalize find (build rs) m path (List.replicate n []) = f at ho ⊢
  cases ho with
  | notFound p => exact ⟨p, rfl⟩
  | dispatch rm mm vals => exact absurd he (by simp [C02.OutEquiv])
  | mna p a => exact absurd he (by simp [C02.OutEquiv])

/-- a dispatched record is a registration in force whose pattern matches the path -/
theorem tree_dispatch_registered_okE (rs : List Route) (m path : Str) (n : Nat) (hn : maxParam rs ≤ n)
    (hok : okTableE rs = true) (rm : RouteMethod) (vals : List Str)
    (h : find (build rs) m path (List.replicate n []) = .dispatch rm vals) :
    ∃ r ∈ dedupLast rs, r.hid = rm.hid ∧ normalizeSlash r.path = rm.ppath
      ∧ ∃ w, inst (norm r.path).1 w = some path := by
  obtain ⟨o, ho, he⟩ := find_eq_route_okE rs m path n hn hok
  rw [h] at ho
  obtain ⟨mm, rfl⟩ := outRel_dispatch_inv ho
  have hr := outEquiv_dispatch_left he
  have hmem : entryOf mm rm ∈ (dedupLast rs).map mkEntry ∧ ∃ w, inst (entryOf mm rm).toks w = some path := by
    rcases C01.C01_sound_partial _ _ _ _ _ hr with ⟨h1, h2, _, _⟩ | ⟨_, h1, h2, _⟩
    · exact ⟨h1, _, h2⟩
    · exact ⟨h1, h2⟩
  obtain ⟨hmem, w, hw⟩ := hmem
  obtain ⟨r, hr', hre⟩ := List.mem_map.mp hmem
  refine ⟨r, hr', ?_, ?_, w, ?_⟩
  · have := congrArg Entry.hid hre
    simpa [mkEntry, entryOf] using this
  · have := congrArg Entry.ppath hre
    simpa [mkEntry, entryOf] using this
  · have := congrArg Entry.toks hre
    rw [← this] at hw
    simpa [mkEntry] using hw


/-- **C02 on the tree model, re-registrations allowed**: two registration sequences of representable patterns
    whose tables in force (last registration of every route) are permutations of one another route every
    request alike — same handler, same values, same Allow set, or 404 in both. -/
theorem tree_order_free_okE (rs rs' : List Route) (hp : (dedupLast rs).Perm (dedupLast rs')) (m path : Str) (n : Nat)
    (hn : maxParam rs ≤ n) (hn' : maxParam rs' ≤ n)
    (hok : okTableE rs = true) (hok' : okTableE rs' = true) :
    Observably (find (build rs) m path (List.replicate n [])) (find (build rs') m path (List.replicate n [])) := by
  obtain ⟨o, ho, he⟩ := find_eq_route_okE rs m path n hn hok
  obtain ⟨o', ho', he'⟩ := find_eq_route_okE rs' m path n hn' hok'
  have hperm := C02.C02_perm ((dedupLast rs).map mkEntry) ((dedupLast rs').map mkEntry) (hp.map _)
    (uniq_dedupLast rs) m path
  exact observably_of_routes ho he ho' he' hperm


end Router.Tree
