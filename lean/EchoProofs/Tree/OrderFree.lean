import EchoProofs.Tree.OK
/-!
# C02 on the tree model for every table of representable patterns (re-registrations allowed)

`tree_order_free` / `tree_order_free_wf` need tables without re-registered routes.  With `Tree/Dedup.lean`
the statement extends to every `okTable`: what matters is the table IN FORCE (`dedupLast`, the last registration
of every method + normalised pattern).

* `observably_of_routes`   two tree outcomes that refine equivalent reference outcomes are observably equal
* `tree_order_free_ok`     two registration sequences whose tables in force are permutations of one another
                           route every request alike
* `tree_order_free_ok_perm` special case: a permutation of a sequence without re-registrations
* `tree_reregistration_last_wins` registering the whole table a second time changes nothing
-/
set_option linter.unusedSimpArgs false
set_option linter.unusedVariables false
namespace Router.Tree
open Router Router.Spec

/-- two outcomes of the tree model that refine reference outcomes related by `OutEquiv` look alike -/
theorem observably_of_routes {f f' : Router.Outcome} {o o' r r' : Spec.Outcome}
    (ho : OutRel f o) (he : C02.OutEquiv o r) (ho' : OutRel f' o') (he' : C02.OutEquiv o' r')
    (hperm : C02.OutEquiv r r') : Observably f f' := by
  cases ho with
  | dispatch rm mm vals =>
    have h1 := outEquiv_dispatch_left he
    subst h1
    have h2 := outEquiv_dispatch_left hperm
    subst h2
    cases ho' with
    | dispatch rm' mm' vals' =>
      obtain ⟨he1, hv⟩ := he'
      simp only [entryOf, Entry.mk.injEq] at he1
      exact ⟨he1.2.2.2.2.symm, he1.2.2.1.symm, he1.2.2.2.1.symm, hv.symm⟩
    | notFound p => exact absurd he' (by simp [C02.OutEquiv])
    | mna p a => exact absurd he' (by simp [C02.OutEquiv])
  | notFound p =>
    cases r with
    | notFound =>
      cases r' with
      | notFound =>
        cases ho' with
        | notFound p' => trivial
        | dispatch _ _ _ => exact absurd he' (by simp [C02.OutEquiv])
        | mna _ _ => exact absurd he' (by simp [C02.OutEquiv])
      | dispatch _ _ => exact absurd hperm (by simp [C02.OutEquiv])
      | methodNotAllowed _ => exact absurd hperm (by simp [C02.OutEquiv])
    | dispatch _ _ => exact absurd he (by simp [C02.OutEquiv])
    | methodNotAllowed _ => exact absurd he (by simp [C02.OutEquiv])
  | mna p a =>
    cases r with
    | methodNotAllowed al =>
      cases r' with
      | methodNotAllowed al' =>
        cases ho' with
        | mna p' a' =>
          simp only [C02.OutEquiv] at he he' hperm
          exact (he.trans hperm).trans he'.symm
        | dispatch _ _ _ => exact absurd he' (by simp [C02.OutEquiv])
        | notFound _ => exact absurd he' (by simp [C02.OutEquiv])
      | dispatch _ _ => exact absurd hperm (by simp [C02.OutEquiv])
      | notFound => exact absurd hperm (by simp [C02.OutEquiv])
    | dispatch _ _ => exact absurd he (by simp [C02.OutEquiv])
    | notFound => exact absurd he (by simp [C02.OutEquiv])

/-- **C02 on the tree model, re-registrations allowed**: two registration sequences of representable patterns
    whose tables in force (last registration of every route) are permutations of one another route every
    request alike — same handler, same values, same Allow set, or 404 in both. -/
theorem tree_order_free_ok (rs rs' : List Route) (hp : (dedupLast rs).Perm (dedupLast rs')) (m path : Str) (n : Nat)
    (hn : maxParam rs ≤ n) (hn' : maxParam rs' ≤ n)
    (hok : okTable rs = true) (hok' : okTable rs' = true) :
    Observably (find (build rs) m path (List.replicate n [])) (find (build rs') m path (List.replicate n [])) := by
  obtain ⟨o, ho, he⟩ := find_eq_route_ok rs m path n hn hok
  obtain ⟨o', ho', he'⟩ := find_eq_route_ok rs' m path n hn' hok'
  have hperm := C02.C02_perm ((dedupLast rs).map mkEntry) ((dedupLast rs').map mkEntry) (hp.map _)
    (uniq_dedupLast rs) m path
  exact observably_of_routes ho he ho' he' hperm

/-- a permutation of a registration sequence without re-registered routes (the form of `tree_order_free_wf`,
    now a corollary) -/
theorem tree_order_free_ok_perm (rs rs' : List Route) (hp : rs.Perm rs') (m path : Str) (n : Nat)
    (hn : maxParam rs ≤ n) (hn' : maxParam rs' ≤ n)
    (hwf : wfTable rs = true) (hwf' : wfTable rs' = true) :
    Observably (find (build rs) m path (List.replicate n [])) (find (build rs') m path (List.replicate n [])) := by
  apply tree_order_free_ok rs rs' _ m path n hn hn' (okTable_of_wf hwf) (okTable_of_wf hwf')
  rw [dedupLast_of_wf rs hwf, dedupLast_of_wf rs' hwf']
  exact hp

/-! ### non-vacuity: `demoDup` (`GET /a/:x` registered again as `GET /a/:y`) against the table in force written out -/

theorem demoDup_order_free (m path : Str) (n : Nat) (hn : maxParam demoDup ≤ n)
    (hn' : maxParam (dedupLast demoDup).reverse ≤ n) :
    Observably (find (build demoDup) m path (List.replicate n []))
      (find (build (dedupLast demoDup).reverse) m path (List.replicate n [])) := by
  have hok : okTable demoDup = true := by decide
  have hok' : okTable (dedupLast demoDup).reverse = true := by decide
  have hwf' : wfTable (dedupLast demoDup).reverse = true := by decide
  refine tree_order_free_ok demoDup _ ?_ m path n hn hn' hok hok'
  rw [dedupLast_of_wf _ hwf']
  exact (List.reverse_perm _).symm

end Router.Tree
