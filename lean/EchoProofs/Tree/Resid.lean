import EchoModel.Router
import EchoModel.RouterSpec
import EchoModel.RouterInv
import EchoProofs.Spec.Fuel
/-!
# The residual set represented by a radix tree (towards the L3 → L1 refinement)

`below n` lists, for every route record stored in the subtree of `n`, the tokens that lead
from `n` (after its own prefix) to the record; `residFrom s n` prepends the literal tokens of
a remaining piece `s` of `n`'s prefix.  The lemmas say how the operations of the reference
search (`deriv`, `ends`) act on these sets: following a compressed edge byte by byte is
`deriv (.lit c)`, the children are reached by the derivative of their first token.
-/
namespace Router.Tree
open Router Router.Spec

theorem prepend_nil (r : R) : prepend [] r = r := by
  unfold prepend
  induction r with
  | nil => rfl
  | cons x xs ih => simp

theorem residFrom_nil (n : Node) : residFrom [] n = below n := by
  simp [residFrom, lits, prepend_nil]

theorem deriv_prepend_cons_same (t : Tok) (ts : List Tok) (r : R) :
    deriv t (prepend (t :: ts) r) = prepend ts r := by
  unfold deriv prepend
  induction r with
  | nil => rfl
  | cons x xs ih =>
    simp only [List.map_cons, List.filterMap_cons, List.cons_append, if_true]
    congr 1

theorem deriv_prepend_cons_ne (t t' : Tok) (ts : List Tok) (r : R) (h : t' ≠ t) :
    deriv t (prepend (t' :: ts) r) = [] := by
  unfold deriv prepend
  induction r with
  | nil => rfl
  | cons x xs ih =>
    simp only [List.map_cons, List.filterMap_cons, List.cons_append, h, if_false]
    exact ih

theorem ends_prepend_cons (t : Tok) (ts : List Tok) (r : R) : ends (prepend (t :: ts) r) = [] := by
  unfold ends prepend
  induction r with
  | nil => rfl
  | cons x xs ih =>
    simp only [List.map_cons, List.filterMap_cons, List.cons_append, List.isEmpty_cons,
      Bool.false_eq_true, if_false]
    exact ih

theorem deriv_append (t : Tok) (a b : R) : deriv t (a ++ b) = deriv t a ++ deriv t b := by
  simp [deriv, List.filterMap_append]

theorem ends_append (a b : R) : ends (a ++ b) = ends a ++ ends b := by
  simp [ends, List.filterMap_append]

theorem deriv_own (t : Tok) (es : List Entry) : deriv t (es.map fun e => ([], e)) = [] := by
  unfold deriv
  induction es with
  | nil => rfl
  | cons e es ih =>
    simp only [List.map_cons, List.filterMap_cons]
    exact ih

theorem ends_own (es : List Entry) : ends (es.map fun e => ([], e)) = es := by
  unfold ends
  induction es with
  | nil => rfl
  | cons e es ih =>
    simp only [List.map_cons, List.filterMap_cons, List.isEmpty_nil, if_true]
    rw [ih]

/-- following one byte of a compressed edge -/
theorem deriv_residFrom_same (c : Char) (s : Str) (n : Node) :
    deriv (.lit c) (residFrom (c :: s) n) = residFrom s n := by
  simp [residFrom, lits, deriv_prepend_cons_same]

theorem deriv_residFrom_ne (c c' : Char) (s : Str) (n : Node) (h : c' ≠ c) :
    deriv (.lit c) (residFrom (c' :: s) n) = [] := by
  simp only [residFrom, lits, List.map_cons]
  exact deriv_prepend_cons_ne _ _ _ _ (by simpa using h)

theorem deriv_param_residFrom (c : Char) (s : Str) (n : Node) :
    deriv .param (residFrom (c :: s) n) = [] := by
  simp only [residFrom, lits, List.map_cons]
  exact deriv_prepend_cons_ne _ _ _ _ (by simp)

theorem deriv_any_residFrom (c : Char) (s : Str) (n : Node) :
    deriv .any (residFrom (c :: s) n) = [] := by
  simp only [residFrom, lits, List.map_cons]
  exact deriv_prepend_cons_ne _ _ _ _ (by simp)

theorem ends_residFrom_cons (c : Char) (s : Str) (n : Node) : ends (residFrom (c :: s) n) = [] := by
  simp only [residFrom, lits, List.map_cons]
  exact ends_prepend_cons _ _ _

/-- the search on an empty residual set finds nothing and leaves `best` alone -/
theorem search_nil (m : Str) (fuel : Nat) (path : Str) (vals : List Str) (best : Spec.Best) :
    search m fuel [] path vals best = (Spec.Res.miss, best) := by
  cases fuel with
  | zero => rfl
  | succ f =>
    simp only [search, ends, List.filterMap_nil, stepEnd, isHandler, List.any_nil, findNF, List.find?_nil]
    cases path with
    | nil => simp [litStep, paramStep, anyStep, orElse, deriv]
    | cons c rest => simp [litStep, paramStep, anyStep, orElse, deriv]

/-- **edge lemma**: reading a compressed edge.  With enough fuel, the search on
    `residFrom s n` consumes `s` from the path byte by byte and then continues on `below n`;
    if the path does not start with `s` it fails without touching `best`. -/
theorem search_edge (m : Str) (n : Node) : ∀ (s : Str) (fuel : Nat) (path : Str) (vals : List Str) (best : Spec.Best),
    search m (fuel + s.length) (residFrom s n) path vals best =
      if s.isPrefixOf path then search m fuel (below n) (path.drop s.length) vals best
      else if fuel + s.length = 0 then (Spec.Res.miss, best) else (Spec.Res.miss, best) := by
  intro s
  induction s with
  | nil =>
    intro fuel path vals best
    simp [residFrom_nil]
  | cons c s ih =>
    intro fuel path vals best
    have hf : fuel + (c :: s).length = (fuel + s.length) + 1 := by simp; omega
    rw [hf]
    simp only [search, ends_residFrom_cons, stepEnd, isHandler, List.any_nil, findNF, List.find?_nil,
      Bool.false_eq_true, if_false]
    have hend : (if path.isEmpty = true then ((none : Option Entry), best) else (none, best)) = (none, best) := by
      split <;> rfl
    rw [hend]
    simp only [paramStep, anyStep, deriv_param_residFrom, deriv_any_residFrom, List.isEmpty_nil, or_true,
      if_true]
    cases path with
    | nil =>
      simp [litStep, orElse, List.isPrefixOf]
    | cons d rest =>
      by_cases hdc : d = c
      · subst hdc
        simp only [litStep, deriv_residFrom_same]
        by_cases hemp : (residFrom s n).isEmpty = true
        · -- nothing below at all: both sides miss
          have hnil : residFrom s n = [] := by
            cases h : residFrom s n with
            | nil => rfl
            | cons _ _ => rw [h] at hemp; simp at hemp
          have hbelow : below n = [] := by
            unfold residFrom prepend at hnil
            cases hb : below n with
            | nil => rfl
            | cons _ _ => rw [hb] at hnil; simp at hnil
          simp only [hemp, if_true, orElse, List.isPrefixOf, List.drop_succ_cons, List.length_cons,
            beq_self_eq_true, Bool.true_and, hbelow, search_nil]
          split <;> rfl
        · simp only [hemp, Bool.false_eq_true, if_false]
          rw [ih fuel rest vals best]
          simp only [List.isPrefixOf, beq_self_eq_true, Bool.true_and, List.drop_succ_cons, List.length_cons]
          split
          · generalize search m fuel (below n) (rest.drop s.length) vals best = x
            obtain ⟨res, b⟩ := x
            cases res <;> rfl
          · split <;> rfl
      · have hne : deriv (.lit d) (residFrom (c :: s) n) = [] := deriv_residFrom_ne d c s n (fun h => hdc h.symm)
        simp only [litStep, hne, List.isEmpty_nil, if_true, orElse, List.isPrefixOf]
        simp only [beq_iff_eq, Bool.and_eq_true, Bool.false_eq_true]
        have hcd : ¬ (c = d) := fun h => hdc h.symm
        simp [hcd]

end Router.Tree
