import EchoProofs.Tree.Esc.Corollaries
import EchoProofs.Tree.Esc.More
import EchoProofs.Tree.Esc.Sharp
/-!
# Insert correctness of the router model for tables WITH escaped colons

`Tree/Insert/*` + `Tree/Dedup.lean` prove `build_tableInvariantD : rs ≠ [] → okTable rs = true →
tableInvariantD rs = (true, true)`, where `okTable` excludes every pattern with an escaped colon `\:` (a literal
colon and a `:param` at the same tree position share the child label `':'`; findings F2/F3).  This directory
proves the same for the weaker, decidable hypothesis `okTableE` (`EchoModel/RouterEsc.lean`):

    okTableE rs = rs.all (okPatternE ·.path) && escFree rs

* `okPatternE p`  no text after `*` (escaped colons allowed);
* `escFree rs`    no two routes whose token lists (`norm`) agree up to a position and continue there with `.lit ':'`
                  in one and `.param` in the other (`conflict`; `escFree_iff` gives the formulation with positions).

Headline (`Esc/Final.lean`):

    build_tableInvariantE : rs ≠ [] → okTableE rs = true → tableInvariantD rs = (true, true)
    build_okE             : the three facts that `find_eq_route_of_repr` needs
    okTableE_of_ok        : okTable rs = true → okTableE rs = true      (the old theorems are special cases)

Structure of the proof:

* `Defs`   `charOf`/`chars` (the text of a token list), `World W` (the token lists of the table: no `.lit '*'`, no escape
           conflict), `InW W ts` (`ts` is a prefix of the tokens of some route), `World.tok_eq` (two positions of the
           table that continue with the same BYTE continue with the same TOKEN), the relaxed invariant `tiR W D above`
           (`tiNode` without "no dead leaves", every node position in `InW W`; node tokens are `headToks k pre`, so a
           `':'` inside a static prefix is a literal), children/label lemmas (`other_label_S` needs `World`)
* `Paths`  `insertAt_deads` for the new invariant
* `Inv`    `Fit` on token lists, `agree_static` / `agree_full` (the bytes `lcp` finds equal are equal tokens — the one
           place where `escFree` is used, besides `other_label_S` and `fit_split`), `insertAt_tiR`
* `Resid`  `insertAt_resid`
* `Text`   `OKE` (= `okPatternEAux` with canonical fuel), `no_lit_star`, `conflict` lemmas, `world_of_escFree`,
           `okTableE_of_ok`, `conflictAt_iff`
* `Loop`   `insertLoop_ok`: the scan loop in lock step with `normAux`, including the escape branch (two bytes consumed,
           `.lit ':'` emitted, `done` gets a `':'`)
* `Route`  `insertRoute_ok`
* `Final`  `tiNode_of_tiR`, `paramCountOf_eq`, `fold_gen`, `build_okE`, `build_tableInvariantE`, `escFree_iff`
* `Corollaries` `find_eq_route_okE`, `find_table_no_panic_okE`, `tree_sound_okE`, `tree_no_panic_okE`,
           `tree_length_irrelevant_okE`, `tree_allow_truthful_okE`, `tree_404_okE`, `tree_dispatch_registered_okE`,
           `tree_order_free_okE`
* `More`   the other `okTable` corollaries (`tree_complete_okE`, `tree_dispatch_method_okE`, `find_content_*_okE`,
           `tree_*_forward_okE`, `C20_reversed_dispatched_tree_okE`, `C20_roundtrip_values_tree_okE`)
* `Sharp`  non-vacuity (the documented use case and other shapes satisfy `okTableE`) and sharpness (the F2 tables
           violate `escFree`, break `tableInvariantD`, and make `find` dispatch wrongly / panic)
-/
