import EchoProofs.Tree.Below
/-!
# The Find loop on a well-formed tree computes the reference search (L3 → L1)

`node_rel`: for every tree satisfying `tiNode`, one visit of a node by the model of
`Router.Find` (`findNode`, with its mutable value slice, running indices, restore-on-backtrack
and best-match bookkeeping) gives the same result as the reference search `Spec.search` on the
residual set the subtree represents: the same hit with the same parameter values, or a miss
after which the state is exactly restored; and the remembered best nodes correspond.
-/
namespace Router.Tree
open Router Router.Spec

/-- the values collected so far -/
def valsOf (st : St) : List Str := st.pv.take st.pi

/-- state invariant at a position whose token path is `toks` -/
structure Ok (D : Nat) (toks : List Tok) (st : St) : Prop where
  np : st.panicked = false
  pi : st.pi = arity toks
  len : D ≤ st.pv.length
  blank : ∀ i, st.pi ≤ i → st.pv.getD i [] = []

/-- the best node remembered by `Find` corresponds to the best entries of the reference search -/
def BRel : Option Router.Best → Spec.Best → Prop
  | none, none => True
  | some b, some l => l = ownEntries b.methods b.nf ∧ NoNfKey b.methods
  | _, _ => False

/-- result relation; `st0` is the state the visit logically started from (before the node was
    entered): a miss restores it exactly -/
def RRel (st0 : St) (x : St × Router.Res) (y : Spec.Res × Spec.Best) : Prop :=
  BRel x.1.best y.2 ∧
  match x.2 with
  | .hit rm => x.1.panicked = false ∧ x.1.pi = rm.pnames.length ∧ x.1.pi ≤ x.1.pv.length ∧
      ∃ mm, y.1 = .hit (entryOf mm rm) (valsOf x.1)
  | .leave => y.1 = .miss ∧ x.1.panicked = false ∧ x.1.si = st0.si ∧ x.1.pi = st0.pi ∧ x.1.pv = st0.pv

/-! ### small facts about the state operations -/

theorem findStatic_eq_pick (path m : Str) (c : Char) : ∀ (l : List Node) (st : St),
    findStatic path m c l st =
      (pick c l).map fun n => (n.kind, (findNode path m n st).1, (findNode path m n st).2) := by
  intro l
  induction l with
  | nil => intro st; rw [findStatic]; rfl
  | cons n ns ih =>
    intro st
    rw [findStatic]
    simp only [pick]
    split
    · rfl
    · exact ih st

theorem pick_mem {c : Char} : ∀ {l : List Node} {n : Node}, pick c l = some n → n ∈ l ∧ n.label = some c := by
  intro l
  induction l with
  | nil => intro n h; simp [pick] at h
  | cons x xs ih =>
    intro n h
    simp only [pick] at h
    split at h
    · simp only [Option.some.injEq] at h
      subst h
      exact ⟨List.mem_cons_self, by assumption⟩
    · obtain ⟨hm, hl⟩ := ih h
      exact ⟨List.mem_cons_of_mem _ hm, hl⟩

theorem tiList_mem {D : Nat} {here : List Tok} : ∀ {l : List Node} {n : Node}, tiList D here l = true → n ∈ l →
    n.kind = .static ∧ n.pre ≠ [] ∧ tiNode D here n = true := by
  intro l
  induction l with
  | nil => intro n _ h; simp at h
  | cons x xs ih =>
    intro n h hm
    obtain ⟨hk, hp, hn, hxs⟩ := tiList_cons h
    rcases List.mem_cons.mp hm with rfl | hm
    · exact ⟨hk, hp, hn⟩
    · exact ih hxs hm

/-- (1): `nodeEnd` against `stepEnd` -/
theorem nodeEnd_rel (m : Str) (ms : List (Str × RouteMethod)) (nf : Option RouteMethod) (op : Str)
    (rest : Str) (st : St) (bl : Spec.Best) (hno : NoNfKey ms) (hb : BRel st.best bl) :
    BRel (nodeEnd m ms nf op rest.isEmpty st).1.best (stepEnd m (ownEntries ms nf) rest bl).2 ∧
    (nodeEnd m ms nf op rest.isEmpty st).1 = { st with best := (nodeEnd m ms nf op rest.isEmpty st).1.best } ∧
    (stepEnd m (ownEntries ms nf) rest bl).1 =
      (nodeEnd m ms nf op rest.isEmpty st).2.map (entryOf (if ms.isEmpty then routeNotFound else m)) := by
  simp only [nodeEnd, stepEnd, isHandler_own ms nf hno, findM_own ms nf m hno, findNF_own ms nf hno]
  have hnone : st.best.isNone = bl.isNone := by
    cases hs : st.best <;> cases hl : bl <;> simp_all [BRel]
  refine ⟨?_, trivial, ?_⟩
  · cases hs : st.best with
    | none =>
      cases hl : bl with
      | none =>
        by_cases hr : rest.isEmpty = true <;> by_cases hm : ms.isEmpty = true <;> simp_all [BRel]
      | some l => rw [hs, hl] at hb; exact absurd hb (by simp [BRel])
    | some b =>
      cases hl : bl with
      | none => rw [hs, hl] at hb; exact absurd hb (by simp [BRel])
      | some l =>
        rw [hs, hl] at hb
        by_cases hr : rest.isEmpty = true <;> by_cases hm : ms.isEmpty = true <;> simp_all [BRel]
  · by_cases hr : rest.isEmpty = true <;> by_cases hm : ms.isEmpty = true <;> simp_all

theorem take_set_succ (l : List Str) (i : Nat) (v : Str) (h : i < l.length) :
    (l.set i v).take (i + 1) = l.take i ++ [v] := by
  induction l generalizing i with
  | nil => simp at h
  | cons x xs ih =>
    cases i with
    | zero => simp
    | succ j =>
      simp only [List.set_cons_succ, List.take_succ_cons, List.cons_append]
      rw [ih j (by simpa using h)]

theorem set_set_blank (l : List Str) (i : Nat) (v : Str) (hb : l.getD i [] = []) (h : i < l.length) :
    (l.set i v).set i [] = l := by
  induction l generalizing i with
  | nil => simp at h
  | cons x xs ih =>
    cases i with
    | zero => simp at hb; simp [hb]
    | succ j =>
      simp only [List.set_cons_succ]
      rw [ih j (by simpa using hb) (by simpa using h)]

theorem getD_set_self (l : List Str) (i : Nat) (v : Str) (h : i < l.length) : (l.set i v).getD i [] = v := by
  simp [List.getD, h]

theorem getD_set_ne (l : List Str) (i j : Nat) (v : Str) (h : i ≠ j) : (l.set i v).getD j [] = l.getD j [] := by
  simp [List.getD, List.getElem?_set_ne h]

theorem take_takeWhile_length (s : Str) (p : Char → Bool) : s.take (s.takeWhile p).length = s.takeWhile p := by
  induction s with
  | nil => rfl
  | cons c cs ih =>
    simp only [List.takeWhile_cons]
    split
    · simp [ih]
    · simp

/-- the value the Find loop stores for a parameter = the value of the reference search -/
theorem enterParam_value (leaf : Bool) (rest : Str) :
    rest.take (if leaf then rest.length else (rest.takeWhile (· ≠ '/')).length) = paramValue leaf rest := by
  unfold paramValue
  cases leaf with
  | true => simp
  | false => simp only [Bool.false_eq_true, if_false]; exact take_takeWhile_length _ _

/-! ### leaf parameter nodes -/

theorem all_empty_own (es : List Entry) : (es.map fun e => (([] : List Tok), e)).all (·.1.isEmpty) = true := by
  simp

theorem leaf_iff {D : Nat} {above : List Tok} {k pre ms nf op pc st pa an}
    (h : tiNode D above (.mk k pre ms nf op pc st pa an) = true) :
    isLeafNode (.mk k pre ms nf op pc st pa an) = (below (.mk k pre ms nf op pc st pa an)).all (·.1.isEmpty) := by
  have p := tiNode_parts h
  have hne : ∀ (c : Node) (kk : Kind), c.kind = kk → (kk = .static → c.pre ≠ []) →
      tiNode D (above ++ headToks k pre) c = true → (resid c).all (·.1.isEmpty) = false := by
    intro c kk hk hpre hc
    have hb := below_ne_nil D _ c hc
    rw [resid_eq]
    cases hbl : below c with
    | nil => exact absurd hbl hb
    | cons x xs =>
      have hh : headToks c.kind c.pre ≠ [] := by
        rw [hk]
        cases kk with
        | static =>
          obtain ⟨ch, s, hs, _⟩ := headToks_static_ne_nil (hpre rfl)
          rw [hs]; simp
        | param => simp [headToks]
        | any => simp [headToks]
      cases hht : headToks c.kind c.pre with
      | nil => exact absurd hht hh
      | cons t ts => simp [prepend]
  simp only [isLeafNode, Node.statics, Node.param, Node.any, below_mk, List.all_append, all_empty_own,
    Bool.true_and]
  cases st with
  | cons c cs =>
    obtain ⟨hk, hp, hc, _⟩ := tiList_cons p.kids
    simp [belowList_cons, List.all_append, hne c .static hk (fun _ => hp) hc]
  | nil =>
    simp only [List.isEmpty_nil, belowList_nil, List.all_nil, Bool.true_and]
    cases pa with
    | some c =>
      obtain ⟨hk, hc⟩ := tiOpt_some p.kidP
      simp [hne c .param hk (by simp) hc]
    | none =>
      simp only [Option.isNone_none, belowOpt_none, List.all_nil, Bool.true_and]
      cases an with
      | some c =>
        obtain ⟨hk, hc⟩ := tiOpt_some p.kidA
        simp [hne c .any hk (by simp) hc]
      | none => simp

/-! ### entering and leaving a node -/

/-- `st` is the state right after the Find loop moved from `st0` into a node of kind `k` -/
def Entered (k : Kind) (pre : Str) (st0 st : St) : Prop :=
  match k with
  | .static => st.si = st0.si + pre.length ∧ st.pi = st0.pi ∧ st.pv = st0.pv
  | _ => ∃ v, st0.pi < st0.pv.length ∧ st0.pv.getD st0.pi [] = [] ∧ st.pi = st0.pi + 1 ∧
      st.si = st0.si + v.length ∧ st.pv = st0.pv.set st0.pi v

/-- backtracking out of a node undoes exactly what entering it did -/
theorem leave_back (k : Kind) (pre : Str) (st0 st : St) (hE : Entered k pre st0 st) (hnp : st.panicked = false) :
    (leaveOut k pre.length st).2 = .leave ∧ (leaveOut k pre.length st).1.panicked = false ∧
    (leaveOut k pre.length st).1.si = st0.si ∧ (leaveOut k pre.length st).1.pi = st0.pi ∧
    (leaveOut k pre.length st).1.pv = st0.pv ∧ (leaveOut k pre.length st).1.best = st.best := by
  unfold leaveOut
  simp only [hnp, Bool.false_eq_true, if_false]
  cases k with
  | static =>
    obtain ⟨hsi, hpi, hpv⟩ := hE
    simp [leaveRestore, hnp, hsi, hpi, hpv]
  | param =>
    obtain ⟨v, hlt, hbl, hpi, hsi, hpv⟩ := hE
    have h1 : ¬ (st.pi = 0 ∨ st.pi - 1 ≥ st.pv.length) := by
      rw [hpi, hpv]; simp; omega
    simp only [leaveRestore, h1, if_false]
    have hg : (st.pv.getD (st.pi - 1) []) = v := by
      rw [hpi, hpv]; simpa using getD_set_self _ _ v hlt
    refine ⟨trivial, hnp, ?_, ?_, ?_, trivial⟩
    · show st.si - (st.pv.getD (st.pi - 1) []).length = st0.si
      rw [hg, hsi]; omega
    · show st.pi - 1 = st0.pi
      omega
    · show st.pv.set (st.pi - 1) [] = st0.pv
      rw [hpi, hpv]; simpa using set_set_blank _ _ v hbl hlt
  | any =>
    obtain ⟨v, hlt, hbl, hpi, hsi, hpv⟩ := hE
    have h1 : ¬ (st.pi = 0 ∨ st.pi - 1 ≥ st.pv.length) := by
      rw [hpi, hpv]; simp; omega
    simp only [leaveRestore, h1, if_false]
    have hg : (st.pv.getD (st.pi - 1) []) = v := by
      rw [hpi, hpv]; simpa using getD_set_self _ _ v hlt
    refine ⟨trivial, hnp, ?_, ?_, ?_, trivial⟩
    · show st.si - (st.pv.getD (st.pi - 1) []).length = st0.si
      rw [hg, hsi]; omega
    · show st.pi - 1 = st0.pi
      omega
    · show st.pv.set (st.pi - 1) [] = st0.pv
      rw [hpi, hpv]; simpa using set_set_blank _ _ v hbl hlt

theorem findMethod_mem {ms : List (Str × RouteMethod)} {m : Str} {rm : RouteMethod}
    (h : findMethod ms m = some rm) : (m, rm) ∈ ms := by
  unfold findMethod at h
  cases hf : ms.find? (·.1 = m) with
  | none => simp [hf] at h
  | some x =>
    simp only [hf, Option.map_some, Option.some.injEq] at h
    have hm := List.mem_of_find?_eq_some hf
    have hp := List.find?_some hf
    simp only [decide_eq_true_eq] at hp
    obtain ⟨a, b⟩ := x
    simp only at hp h
    subst hp h
    exact hm

/-- the part of `RRel` for a hit -/
def HitRel (x : St) (rm : RouteMethod) (y : Spec.Res) : Prop :=
  x.panicked = false ∧ x.pi = rm.pnames.length ∧ x.pi ≤ x.pv.length ∧ ∃ mm, y = .hit (entryOf mm rm) (valsOf x)

theorem arity_append (a b : List Tok) : arity (a ++ b) = arity a + arity b := by
  induction a with
  | nil => simp [arity]
  | cons t ts ih => cases t <;> simp [arity, ih] <;> omega

theorem arity_lits (s : Str) : arity (lits s) = 0 := by
  induction s with
  | nil => rfl
  | cons c cs ih => simpa [lits, arity] using ih

/-- the state after the Find loop stored value `v` in the current slot and moved on -/
def entered (st : St) (v : Str) (b : Option Router.Best) : St :=
  ⟨st.si + v.length, st.pi + 1, st.pv.set st.pi v, b, false⟩

theorem valsOf_entered (st : St) (v : Str) (b : Option Router.Best) (hlt : st.pi < st.pv.length) :
    valsOf (entered st v b) = valsOf st ++ [v] := by
  simp [valsOf, entered, take_set_succ _ _ _ hlt]

theorem setVal_cur (st : St) (n : Nat) (v : Str) (hn : n = st.pi + 1) (hlt : st.pi < st.pv.length) :
    setVal st ((n : Int) - 1) v = { st with pv := st.pv.set st.pi v } := by
  have hidx : ((n : Int) - 1) = (st.pi : Int) := by omega
  unfold setVal
  rw [hidx]
  simp only [Int.toNat_natCast]
  rw [if_neg (by omega)]

/-- the Any block at a wildcard child whose slot index is the current one -/
theorem anyBlock_eq (path m : Str) (apre : Str) (ams : List (Str × RouteMethod)) (anf : Option RouteMethod)
    (aop : Str) (apc : Nat) (asts : List Node) (apa aan : Option Node) (st : St)
    (hpc : apc = st.pi + 1) (hlt : st.pi < st.pv.length) (hnp : st.panicked = false)
    (hblank : st.pv.getD st.pi [] = []) :
    anyBlock path m (some (.mk .any apre ams anf aop apc asts apa aan)) st =
      match findMethod ams m with
      | some h => (entered st (path.drop st.si) st.best, some h)
      | none =>
        match anf with
        | some h => (entered st (path.drop st.si) (if st.best.isNone then some ⟨ams, anf, aop⟩ else st.best), some h)
        | none => (⟨st.si, st.pi, st.pv, (if st.best.isNone then some ⟨ams, anf, aop⟩ else st.best), false⟩, none) := by
  simp only [anyBlock, Node.paramsCount, Node.methods, Node.nf, Node.kind, Node.pre,
    setVal_cur st apc _ hpc hlt]
  cases hfm : findMethod ams m with
  | some h => simp [entered, hnp]
  | none =>
    simp only
    cases anf with
    | some h => simp [entered, hnp, bestOf, Node.methods, Node.nf, Node.originalPath]
    | none =>
      simp only [bestOf, Node.methods, Node.nf, Node.originalPath]
      have h1 : ¬ (st.pi + 1 = 0 ∨ st.pi + 1 - 1 ≥ (st.pv.set st.pi (path.drop st.si)).length) := by
        simp; omega
      simp only [leaveRestore, h1, if_false, Nat.add_sub_cancel]
      have hg : (st.pv.set st.pi (path.drop st.si)).getD st.pi [] = path.drop st.si := getD_set_self _ _ _ hlt
      rw [hg, set_set_blank _ _ _ hblank hlt]
      simp [hnp]
      try exact hlt

/-- (4): the Any block against `anyStep` -/
theorem any_rel (path m : Str) {D : Nat} {above : List Tok} {k pre ms nf op pc sts pa an}
    (h : tiNode D above (.mk k pre ms nf op pc sts pa an) = true)
    (st : St) (bl : Spec.Best) (hok : Ok D (above ++ headToks k pre) st) (hb : BRel st.best bl) :
    BRel (anyBlock path m an st).1.best
      (anyStep m (below (.mk k pre ms nf op pc sts pa an)) (path.drop st.si) (valsOf st) bl).2 ∧
    match (anyBlock path m an st).2 with
    | some rm => HitRel (anyBlock path m an st).1 rm
        (anyStep m (below (.mk k pre ms nf op pc sts pa an)) (path.drop st.si) (valsOf st) bl).1
    | none => (anyStep m (below (.mk k pre ms nf op pc sts pa an)) (path.drop st.si) (valsOf st) bl).1 = .miss ∧
        (anyBlock path m an st).1.panicked = false ∧ (anyBlock path m an st).1.si = st.si ∧
        (anyBlock path m an st).1.pi = st.pi ∧ (anyBlock path m an st).1.pv = st.pv := by
  have p := tiNode_parts h
  simp only [anyStep, deriv_any_below h]
  cases an with
  | none =>
    simp only [anyBlock, belowOf, List.isEmpty_nil, if_true]
    exact ⟨hb, by simp, hok.np, by simp, by simp, by simp⟩
  | some ac =>
    obtain ⟨hka, hac⟩ := tiOpt_some p.kidA
    obtain ⟨ak, apre, ams, anf, aop, apc, asts, apa, aan⟩ := ac
    simp only [Node.kind] at hka
    subst hka
    have q := tiNode_parts hac
    obtain ⟨hapre, _, _, _, hapc⟩ := q.kindAny rfl
    have hne : below (.mk .any apre ams anf aop apc asts apa aan) ≠ [] := below_ne_nil D _ _ hac
    have hnee : (below (.mk .any apre ams anf aop apc asts apa aan)).isEmpty = false := by
      cases hb' : below (.mk .any apre ams anf aop apc asts apa aan) with
      | nil => exact absurd hb' hne
      | cons _ _ => rfl
    have harity : arity ((above ++ headToks k pre) ++ headToks .any apre) = st.pi + 1 := by
      rw [hok.pi, arity_append]; simp [headToks, arity]
    have hlt : st.pi < st.pv.length := by
      have h1 := q.depth
      rw [harity] at h1
      have h2 := hok.len
      omega
    have hnone : st.best.isNone = bl.isNone := by
      cases hs : st.best <;> cases hl : bl <;> simp_all [BRel]
    have hb2 : BRel (if st.best.isNone then some ⟨ams, anf, aop⟩ else st.best)
        (if bl.isNone then some (ownEntries ams anf) else bl) := by
      rw [← hnone]
      split
      · exact ⟨rfl, q.noNf⟩
      · exact hb
    rw [anyBlock_eq path m apre ams anf aop apc asts apa aan st (by rw [hapc, harity]) hlt hok.np
      (hok.blank st.pi (Nat.le_refl _))]
    simp only [belowOf, hnee, Bool.false_eq_true, if_false, ends_below hac, stepAny,
      findM_own ams anf m q.noNf, findNF_own ams anf q.noNf]
    cases hfm : findMethod ams m with
    | some rm =>
      simp only [Option.map_some]
      refine ⟨hb, rfl, ?_, ?_, m, ?_⟩
      · show st.pi + 1 = rm.pnames.length
        rw [(q.recs _ (findMethod_mem hfm)).2, harity]
      · show st.pi + 1 ≤ (st.pv.set st.pi (path.drop st.si)).length
        simp; omega
      · rw [valsOf_entered _ _ _ hlt]
    | none =>
      simp only [Option.map_none]
      cases anf with
      | some rm =>
        simp only [Option.map_some]
        refine ⟨hb2, rfl, ?_, ?_, routeNotFound, ?_⟩
        · show st.pi + 1 = rm.pnames.length
          rw [(q.nfRec rm rfl).2, harity]
        · show st.pi + 1 ≤ (st.pv.set st.pi (path.drop st.si)).length
          simp; omega
        · rw [valsOf_entered _ _ _ hlt]
      | none =>
        simp only [Option.map_none]
        refine ⟨hb2, ?_, ?_, ?_, ?_, ?_⟩ <;> first | rfl | trivial

end Router.Tree
