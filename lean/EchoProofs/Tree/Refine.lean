import EchoProofs.Tree.Below
/-!
# The Find loop on a well-formed tree computes the reference search (L3 → L1)

`node_rel`: for every tree satisfying `tiNode`, one visit of a node by the model of
`Router.Find` (`findNode`, with its mutable value slice, running indices, restore-on-backtrack
and best-match bookkeeping) gives the same result as the reference search `Spec.search` on the
residual set the subtree represents: the same hit with the same parameter values, or a miss
after which the state is exactly restored; and the remembered best nodes correspond.
-/
namespace Router.Tree
open Router Router.Spec

/-- the values collected so far -/
def valsOf (st : St) : List Str := st.pv.take st.pi

/-- state invariant at a position whose token path is `toks` -/
structure Ok (D : Nat) (toks : List Tok) (st : St) : Prop where
  np : st.panicked = false
  pi : st.pi = arity toks
  len : D ≤ st.pv.length
  blank : ∀ i, st.pi ≤ i → st.pv.getD i [] = []

/-- the best node remembered by `Find` corresponds to the best entries of the reference search -/
def BRel (D : Nat) : Option Router.Best → Spec.Best → Prop
  | none, none => True
  | some b, some l => l = ownEntries b.methods b.nf ∧ NoNfKey b.methods ∧
      (∀ rm, b.nf = some rm → rm.pnames.length ≤ D)
  | _, _ => False

/-- result relation; `st0` is the state the visit logically started from (before the node was
    entered): a miss restores it exactly -/
def RRel (D : Nat) (st0 : St) (x : St × Router.Res) (y : Spec.Res × Spec.Best) : Prop :=
  BRel D x.1.best y.2 ∧
  match x.2 with
  | .hit rm => x.1.panicked = false ∧ x.1.pi = rm.pnames.length ∧ x.1.pi ≤ x.1.pv.length ∧
      ∃ mm, y.1 = .hit (entryOf mm rm) (valsOf x.1)
  | .leave => y.1 = .miss ∧ x.1.panicked = false ∧ x.1.si = st0.si ∧ x.1.pi = st0.pi ∧ x.1.pv = st0.pv

/-! ### small facts about the state operations -/

theorem findStatic_eq_pick (path m : Str) (c : Char) : ∀ (l : List Node) (st : St),
    findStatic path m c l st =
      (pick c l).map fun n => (n.kind, (findNode path m n st).1, (findNode path m n st).2) := by
  intro l
  induction l with
  | nil => intro st; rw [findStatic]; rfl
  | cons n ns ih =>
    intro st
    rw [findStatic]
    simp only [pick]
    split
    · rfl
    · exact ih st

theorem pick_mem {c : Char} : ∀ {l : List Node} {n : Node}, pick c l = some n → n ∈ l ∧ n.label = some c := by
  intro l
  induction l with
  | nil => intro n h; simp [pick] at h
  | cons x xs ih =>
    intro n h
    simp only [pick] at h
    split at h
    · simp only [Option.some.injEq] at h
      subst h
      exact ⟨List.mem_cons_self, by assumption⟩
    · obtain ⟨hm, hl⟩ := ih h
      exact ⟨List.mem_cons_of_mem _ hm, hl⟩

theorem tiList_mem {D : Nat} {here : List Tok} : ∀ {l : List Node} {n : Node}, tiList D here l = true → n ∈ l →
    n.kind = .static ∧ n.pre ≠ [] ∧ tiNode D here n = true := by
  intro l
  induction l with
  | nil => intro n _ h; simp at h
  | cons x xs ih =>
    intro n h hm
    obtain ⟨hk, hp, hn, hxs⟩ := tiList_cons h
    rcases List.mem_cons.mp hm with rfl | hm
    · exact ⟨hk, hp, hn⟩
    · exact ih hxs hm

/-- (1): `nodeEnd` against `stepEnd` -/
theorem nodeEnd_rel (D : Nat) (m : Str) (ms : List (Str × RouteMethod)) (nf : Option RouteMethod) (op : Str)
    (rest : Str) (st : St) (bl : Spec.Best) (hno : NoNfKey ms)
    (hnfD : ∀ rm, nf = some rm → rm.pnames.length ≤ D) (hb : BRel D st.best bl) :
    BRel D (nodeEnd m ms nf op rest.isEmpty st).1.best (stepEnd m (ownEntries ms nf) rest bl).2 ∧
    (nodeEnd m ms nf op rest.isEmpty st).1 = { st with best := (nodeEnd m ms nf op rest.isEmpty st).1.best } ∧
    (stepEnd m (ownEntries ms nf) rest bl).1 =
      (nodeEnd m ms nf op rest.isEmpty st).2.map (entryOf (if ms.isEmpty then routeNotFound else m)) := by
  simp only [nodeEnd, stepEnd, isHandler_own ms nf hno, findM_own ms nf m hno, findNF_own ms nf hno]
  have hnone : st.best.isNone = bl.isNone := by
    cases hs : st.best <;> cases hl : bl <;> simp_all [BRel]
  refine ⟨?_, trivial, ?_⟩
  · cases hs : st.best with
    | none =>
      cases hl : bl with
      | none =>
        by_cases hr : rest.isEmpty = true <;> by_cases hm : ms.isEmpty = true <;> simp_all [BRel]
      | some l => rw [hs, hl] at hb; exact absurd hb (by simp [BRel])
    | some b =>
      cases hl : bl with
      | none => rw [hs, hl] at hb; exact absurd hb (by simp [BRel])
      | some l =>
        rw [hs, hl] at hb
        by_cases hr : rest.isEmpty = true <;> by_cases hm : ms.isEmpty = true <;> simp_all [BRel]
  · by_cases hr : rest.isEmpty = true <;> by_cases hm : ms.isEmpty = true <;> simp_all

theorem take_set_succ (l : List Str) (i : Nat) (v : Str) (h : i < l.length) :
    (l.set i v).take (i + 1) = l.take i ++ [v] := by
  induction l generalizing i with
  | nil => simp at h
  | cons x xs ih =>
    cases i with
    | zero => simp
    | succ j =>
      simp only [List.set_cons_succ, List.take_succ_cons, List.cons_append]
      rw [ih j (by simpa using h)]

theorem set_set_blank (l : List Str) (i : Nat) (v : Str) (hb : l.getD i [] = []) (h : i < l.length) :
    (l.set i v).set i [] = l := by
  induction l generalizing i with
  | nil => simp at h
  | cons x xs ih =>
    cases i with
    | zero => simp at hb; simp [hb]
    | succ j =>
      simp only [List.set_cons_succ]
      rw [ih j (by simpa using hb) (by simpa using h)]

theorem getD_set_self (l : List Str) (i : Nat) (v : Str) (h : i < l.length) : (l.set i v).getD i [] = v := by
  simp [List.getD, h]

theorem getD_set_ne (l : List Str) (i j : Nat) (v : Str) (h : i ≠ j) : (l.set i v).getD j [] = l.getD j [] := by
  simp [List.getD, List.getElem?_set_ne h]

theorem take_takeWhile_length (s : Str) (p : Char → Bool) : s.take (s.takeWhile p).length = s.takeWhile p := by
  induction s with
  | nil => rfl
  | cons c cs ih =>
    simp only [List.takeWhile_cons]
    split
    · simp [ih]
    · simp

/-- the value the Find loop stores for a parameter = the value of the reference search -/
theorem enterParam_value (leaf : Bool) (rest : Str) :
    rest.take (if leaf then rest.length else (rest.takeWhile (· ≠ '/')).length) = paramValue leaf rest := by
  unfold paramValue
  cases leaf with
  | true => simp
  | false => simp only [Bool.false_eq_true, if_false]; exact take_takeWhile_length _ _

/-! ### leaf parameter nodes -/

theorem all_empty_own (es : List Entry) : (es.map fun e => (([] : List Tok), e)).all (·.1.isEmpty) = true := by
  simp

theorem leaf_iff {D : Nat} {above : List Tok} {k pre ms nf op pc st pa an}
    (h : tiNode D above (.mk k pre ms nf op pc st pa an) = true) :
    isLeafNode (.mk k pre ms nf op pc st pa an) = (below (.mk k pre ms nf op pc st pa an)).all (·.1.isEmpty) := by
  have p := tiNode_parts h
  have hne : ∀ (c : Node) (kk : Kind), c.kind = kk → (kk = .static → c.pre ≠ []) →
      tiNode D (above ++ headToks k pre) c = true → (resid c).all (·.1.isEmpty) = false := by
    intro c kk hk hpre hc
    have hb := below_ne_nil D _ c hc
    rw [resid_eq]
    cases hbl : below c with
    | nil => exact absurd hbl hb
    | cons x xs =>
      have hh : headToks c.kind c.pre ≠ [] := by
        rw [hk]
        cases kk with
        | static =>
          obtain ⟨ch, s, hs, _⟩ := headToks_static_ne_nil (hpre rfl)
          rw [hs]; simp
        | param => simp [headToks]
        | any => simp [headToks]
      cases hht : headToks c.kind c.pre with
      | nil => exact absurd hht hh
      | cons t ts => simp [prepend]
  simp only [isLeafNode, Node.statics, Node.param, Node.any, below_mk, List.all_append, all_empty_own,
    Bool.true_and]
  cases st with
  | cons c cs =>
    obtain ⟨hk, hp, hc, _⟩ := tiList_cons p.kids
    simp [belowList_cons, List.all_append, hne c .static hk (fun _ => hp) hc]
  | nil =>
    simp only [List.isEmpty_nil, belowList_nil, List.all_nil, Bool.true_and]
    cases pa with
    | some c =>
      obtain ⟨hk, hc⟩ := tiOpt_some p.kidP
      simp [hne c .param hk (by simp) hc]
    | none =>
      simp only [Option.isNone_none, belowOpt_none, List.all_nil, Bool.true_and]
      cases an with
      | some c =>
        obtain ⟨hk, hc⟩ := tiOpt_some p.kidA
        simp [hne c .any hk (by simp) hc]
      | none => simp

/-! ### entering and leaving a node -/

/-- `st` is the state right after the Find loop moved from `st0` into a node of kind `k` -/
def Entered (k : Kind) (pre : Str) (st0 st : St) : Prop :=
  match k with
  | .static => st.si = st0.si + pre.length ∧ st.pi = st0.pi ∧ st.pv = st0.pv
  | _ => ∃ v, st0.pi < st0.pv.length ∧ st0.pv.getD st0.pi [] = [] ∧ st.pi = st0.pi + 1 ∧
      st.si = st0.si + v.length ∧ st.pv = st0.pv.set st0.pi v

/-- backtracking out of a node undoes exactly what entering it did -/
theorem leave_back (k : Kind) (pre : Str) (st0 st : St) (hE : Entered k pre st0 st) (hnp : st.panicked = false) :
    (leaveOut k pre.length st).2 = .leave ∧ (leaveOut k pre.length st).1.panicked = false ∧
    (leaveOut k pre.length st).1.si = st0.si ∧ (leaveOut k pre.length st).1.pi = st0.pi ∧
    (leaveOut k pre.length st).1.pv = st0.pv ∧ (leaveOut k pre.length st).1.best = st.best := by
  unfold leaveOut
  simp only [hnp, Bool.false_eq_true, if_false]
  cases k with
  | static =>
    obtain ⟨hsi, hpi, hpv⟩ := hE
    simp [leaveRestore, hnp, hsi, hpi, hpv]
  | param =>
    obtain ⟨v, hlt, hbl, hpi, hsi, hpv⟩ := hE
    have h1 : ¬ (st.pi = 0 ∨ st.pi - 1 ≥ st.pv.length) := by
      rw [hpi, hpv]; simp; omega
    simp only [leaveRestore, h1, if_false]
    have hg : (st.pv.getD (st.pi - 1) []) = v := by
      rw [hpi, hpv]; simpa using getD_set_self _ _ v hlt
    refine ⟨trivial, hnp, ?_, ?_, ?_, trivial⟩
    · show st.si - (st.pv.getD (st.pi - 1) []).length = st0.si
      rw [hg, hsi]; omega
    · show st.pi - 1 = st0.pi
      omega
    · show st.pv.set (st.pi - 1) [] = st0.pv
      rw [hpi, hpv]; simpa using set_set_blank _ _ v hbl hlt
  | any =>
    obtain ⟨v, hlt, hbl, hpi, hsi, hpv⟩ := hE
    have h1 : ¬ (st.pi = 0 ∨ st.pi - 1 ≥ st.pv.length) := by
      rw [hpi, hpv]; simp; omega
    simp only [leaveRestore, h1, if_false]
    have hg : (st.pv.getD (st.pi - 1) []) = v := by
      rw [hpi, hpv]; simpa using getD_set_self _ _ v hlt
    refine ⟨trivial, hnp, ?_, ?_, ?_, trivial⟩
    · show st.si - (st.pv.getD (st.pi - 1) []).length = st0.si
      rw [hg, hsi]; omega
    · show st.pi - 1 = st0.pi
      omega
    · show st.pv.set (st.pi - 1) [] = st0.pv
      rw [hpi, hpv]; simpa using set_set_blank _ _ v hbl hlt

theorem findMethod_mem {ms : List (Str × RouteMethod)} {m : Str} {rm : RouteMethod}
    (h : findMethod ms m = some rm) : (m, rm) ∈ ms := by
  unfold findMethod at h
  cases hf : ms.find? (·.1 = m) with
  | none => simp [hf] at h
  | some x =>
    simp only [hf, Option.map_some, Option.some.injEq] at h
    have hm := List.mem_of_find?_eq_some hf
    have hp := List.find?_some hf
    simp only [decide_eq_true_eq] at hp
    obtain ⟨a, b⟩ := x
    simp only at hp h
    subst hp h
    exact hm

/-- the part of `RRel` for a hit -/
def HitRel (x : St) (rm : RouteMethod) (y : Spec.Res) : Prop :=
  x.panicked = false ∧ x.pi = rm.pnames.length ∧ x.pi ≤ x.pv.length ∧ ∃ mm, y = .hit (entryOf mm rm) (valsOf x)

theorem arity_append (a b : List Tok) : arity (a ++ b) = arity a + arity b := by
  induction a with
  | nil => simp [arity]
  | cons t ts ih => cases t <;> simp [arity, ih] <;> omega

theorem arity_lits (s : Str) : arity (lits s) = 0 := by
  induction s with
  | nil => rfl
  | cons c cs ih => simpa [lits, arity] using ih

/-- the state after the Find loop stored value `v` in the current slot and moved on -/
def entered (st : St) (v : Str) (b : Option Router.Best) : St :=
  ⟨st.si + v.length, st.pi + 1, st.pv.set st.pi v, b, false⟩

theorem valsOf_entered (st : St) (v : Str) (b : Option Router.Best) (hlt : st.pi < st.pv.length) :
    valsOf (entered st v b) = valsOf st ++ [v] := by
  simp [valsOf, entered, take_set_succ _ _ _ hlt]

theorem setVal_cur (st : St) (n : Nat) (v : Str) (hn : n = st.pi + 1) (hlt : st.pi < st.pv.length) :
    setVal st ((n : Int) - 1) v = { st with pv := st.pv.set st.pi v } := by
  have hidx : ((n : Int) - 1) = (st.pi : Int) := by omega
  unfold setVal
  rw [hidx]
  simp only [Int.toNat_natCast]
  rw [if_neg (by omega)]

/-- the Any block at a wildcard child whose slot index is the current one -/
theorem anyBlock_eq (path m : Str) (apre : Str) (ams : List (Str × RouteMethod)) (anf : Option RouteMethod)
    (aop : Str) (apc : Nat) (asts : List Node) (apa aan : Option Node) (st : St)
    (hpc : apc = st.pi + 1) (hlt : st.pi < st.pv.length) (hnp : st.panicked = false)
    (hblank : st.pv.getD st.pi [] = []) :
    anyBlock path m (some (.mk .any apre ams anf aop apc asts apa aan)) st =
      match findMethod ams m with
      | some h => (entered st (path.drop st.si) st.best, some h)
      | none =>
        match anf with
        | some h => (entered st (path.drop st.si) (if st.best.isNone then some ⟨ams, anf, aop⟩ else st.best), some h)
        | none => (⟨st.si, st.pi, st.pv, (if st.best.isNone then some ⟨ams, anf, aop⟩ else st.best), false⟩, none) := by
  simp only [anyBlock, Node.paramsCount, Node.methods, Node.nf, Node.kind, Node.pre,
    setVal_cur st apc _ hpc hlt]
  cases hfm : findMethod ams m with
  | some h => simp [entered, hnp]
  | none =>
    simp only
    cases anf with
    | some h => simp [entered, hnp, bestOf, Node.methods, Node.nf, Node.originalPath]
    | none =>
      simp only [bestOf, Node.methods, Node.nf, Node.originalPath]
      have h1 : ¬ (st.pi + 1 = 0 ∨ st.pi + 1 - 1 ≥ (st.pv.set st.pi (path.drop st.si)).length) := by
        simp; omega
      simp only [leaveRestore, h1, if_false, Nat.add_sub_cancel]
      have hg : (st.pv.set st.pi (path.drop st.si)).getD st.pi [] = path.drop st.si := getD_set_self _ _ _ hlt
      rw [hg, set_set_blank _ _ _ hblank hlt]
      simp [hnp]
      try exact hlt

/-- (4): the Any block against `anyStep` -/
theorem any_rel (path m : Str) {D : Nat} {above : List Tok} {k pre ms nf op pc sts pa an}
    (h : tiNode D above (.mk k pre ms nf op pc sts pa an) = true)
    (st : St) (bl : Spec.Best) (hok : Ok D (above ++ headToks k pre) st) (hb : BRel D st.best bl) :
    BRel D (anyBlock path m an st).1.best
      (anyStep m (below (.mk k pre ms nf op pc sts pa an)) (path.drop st.si) (valsOf st) bl).2 ∧
    match (anyBlock path m an st).2 with
    | some rm => HitRel (anyBlock path m an st).1 rm
        (anyStep m (below (.mk k pre ms nf op pc sts pa an)) (path.drop st.si) (valsOf st) bl).1
    | none => (anyStep m (below (.mk k pre ms nf op pc sts pa an)) (path.drop st.si) (valsOf st) bl).1 = .miss ∧
        (anyBlock path m an st).1.panicked = false ∧ (anyBlock path m an st).1.si = st.si ∧
        (anyBlock path m an st).1.pi = st.pi ∧ (anyBlock path m an st).1.pv = st.pv := by
  have p := tiNode_parts h
  simp only [anyStep, deriv_any_below h]
  cases an with
  | none =>
    simp only [anyBlock, belowOf, List.isEmpty_nil, if_true]
    exact ⟨hb, by simp, hok.np, by simp, by simp, by simp⟩
  | some ac =>
    obtain ⟨hka, hac⟩ := tiOpt_some p.kidA
    obtain ⟨ak, apre, ams, anf, aop, apc, asts, apa, aan⟩ := ac
    simp only [Node.kind] at hka
    subst hka
    have q := tiNode_parts hac
    obtain ⟨hapre, _, _, _, hapc⟩ := q.kindAny rfl
    have hne : below (.mk .any apre ams anf aop apc asts apa aan) ≠ [] := below_ne_nil D _ _ hac
    have hnee : (below (.mk .any apre ams anf aop apc asts apa aan)).isEmpty = false := by
      cases hb' : below (.mk .any apre ams anf aop apc asts apa aan) with
      | nil => exact absurd hb' hne
      | cons _ _ => rfl
    have harity : arity ((above ++ headToks k pre) ++ headToks .any apre) = st.pi + 1 := by
      rw [hok.pi, arity_append]; simp [headToks, arity]
    have hlt : st.pi < st.pv.length := by
      have h1 := q.depth
      rw [harity] at h1
      have h2 := hok.len
      omega
    have hnone : st.best.isNone = bl.isNone := by
      cases hs : st.best <;> cases hl : bl <;> simp_all [BRel]
    have hb2 : BRel D (if st.best.isNone then some ⟨ams, anf, aop⟩ else st.best)
        (if bl.isNone then some (ownEntries ams anf) else bl) := by
      rw [← hnone]
      split
      · exact ⟨rfl, q.noNf, fun rm hrm => by rw [(q.nfRec rm hrm).2]; exact q.depth⟩
      · exact hb
    rw [anyBlock_eq path m apre ams anf aop apc asts apa aan st (by rw [hapc, harity]) hlt hok.np
      (hok.blank st.pi (Nat.le_refl _))]
    simp only [belowOf, hnee, Bool.false_eq_true, if_false, ends_below hac, stepAny,
      findM_own ams anf m q.noNf, findNF_own ams anf q.noNf]
    cases hfm : findMethod ams m with
    | some rm =>
      simp only [Option.map_some]
      refine ⟨hb, rfl, ?_, ?_, m, ?_⟩
      · show st.pi + 1 = rm.pnames.length
        rw [(q.recs _ (findMethod_mem hfm)).2, harity]
      · show st.pi + 1 ≤ (st.pv.set st.pi (path.drop st.si)).length
        simp; omega
      · rw [valsOf_entered _ _ _ hlt]
    | none =>
      simp only [Option.map_none]
      cases anf with
      | some rm =>
        simp only [Option.map_some]
        refine ⟨hb2, rfl, ?_, ?_, routeNotFound, ?_⟩
        · show st.pi + 1 = rm.pnames.length
          rw [(q.nfRec rm rfl).2, harity]
        · show st.pi + 1 ≤ (st.pv.set st.pi (path.drop st.si)).length
          simp; omega
        · rw [valsOf_entered _ _ _ hlt]
      | none =>
        simp only [Option.map_none]
        refine ⟨hb2, ?_, ?_, ?_, ?_, ?_⟩ <;> first | rfl | trivial

/-! ### states that differ only in the remembered best node -/

def Same (a b : St) : Prop := a.si = b.si ∧ a.pi = b.pi ∧ a.pv = b.pv ∧ a.panicked = b.panicked

theorem Same.refl (a : St) : Same a a := ⟨rfl, rfl, rfl, rfl⟩
theorem Same.trans {a b c : St} (h1 : Same a b) (h2 : Same b c) : Same a c :=
  ⟨h1.1.trans h2.1, h1.2.1.trans h2.2.1, h1.2.2.1.trans h2.2.2.1, h1.2.2.2.trans h2.2.2.2⟩

theorem Same.ok {D : Nat} {toks : List Tok} {a b : St} (h : Same a b) (hb : Ok D toks b) : Ok D toks a :=
  ⟨h.2.2.2.trans hb.np, h.2.1.trans hb.pi, by rw [h.2.2.1]; exact hb.len,
   by intro i hi; rw [h.2.2.1]; exact hb.blank i (by rw [← h.2.1]; exact hi)⟩

theorem Same.vals {a b : St} (h : Same a b) : valsOf a = valsOf b := by
  simp [valsOf, h.2.1, h.2.2.1]

theorem Same.entered {k : Kind} {pre : Str} {st0 a b : St} (h : Same a b) (hE : Entered k pre st0 b) :
    Entered k pre st0 a := by
  cases k with
  | static => exact ⟨h.1.trans hE.1, h.2.1.trans hE.2.1, h.2.2.1.trans hE.2.2⟩
  | param =>
    obtain ⟨v, h1, h2, h3, h4, h5⟩ := hE
    exact ⟨v, h1, h2, h.2.1.trans h3, h.1.trans h4, h.2.2.1.trans h5⟩
  | any =>
    obtain ⟨v, h1, h2, h3, h4, h5⟩ := hE
    exact ⟨v, h1, h2, h.2.1.trans h3, h.1.trans h4, h.2.2.1.trans h5⟩

/-- the Any block followed by the exit of the node, against `anyStep` -/
theorem finish_any_rel (path m : Str) {D : Nat} {above : List Tok} {k pre ms nf op pc sts pa an}
    (h : tiNode D above (.mk k pre ms nf op pc sts pa an) = true)
    (st0 st : St) (bl : Spec.Best) (hE : Entered k pre st0 st)
    (hok : Ok D (above ++ headToks k pre) st) (hb : BRel D st.best bl) :
    RRel D st0 (finishNode path m k pre.length an st .any)
      (anyStep m (below (.mk k pre ms nf op pc sts pa an)) (path.drop st.si) (valsOf st) bl) := by
  have ha := any_rel path m h st bl hok hb
  simp only [finishNode]
  generalize anyBlock path m an st = x at ha
  obtain ⟨st', r⟩ := x
  obtain ⟨hbr, hm⟩ := ha
  cases r with
  | some rm =>
    simp only at hm ⊢
    exact ⟨hbr, hm⟩
  | none =>
    simp only at hm ⊢
    obtain ⟨hmiss, hnp, hsi, hpi, hpv⟩ := hm
    have hs : Same st' st := ⟨hsi, hpi, hpv, hnp.trans hok.np.symm⟩
    obtain ⟨h1, h2, h3, h4, h5, h6⟩ := leave_back k pre st0 st' (hs.entered hE) hnp
    generalize leaveOut k pre.length st' = y at h1 h2 h3 h4 h5 h6
    obtain ⟨st'', r''⟩ := y
    simp only at h1 h2 h3 h4 h5 h6
    subst h1
    refine ⟨?_, hmiss, h2, h3, h4, h5⟩
    simp only
    rw [h6]
    exact hbr

/-! ### the statements carried by the structural induction -/

/-- a static child: its prefix is compared first -/
def StaticStmt (path m : Str) (D : Nat) (toks : List Tok) (ch : Node) : Prop :=
  ∀ (st : St) (bl : Spec.Best) (d F : Nat), Ok D toks st → BRel D st.best bl → DepthLe (below ch) d → d < F →
    if ch.pre.isPrefixOf (path.drop st.si) = true then
      RRel D st (findNode path m ch st)
        (search m F (below ch) ((path.drop st.si).drop ch.pre.length) (valsOf st) bl)
    else findNode path m ch st = (st, .leave)

/-- the param child: entered after the value was stored -/
def ParamStmt (path m : Str) (D : Nat) (toks : List Tok) (ch : Node) : Prop :=
  ∀ (st0 st : St) (bl : Spec.Best) (d F : Nat), Entered .param ch.pre st0 st → Ok D (toks ++ [.param]) st →
    BRel D st.best bl → DepthLe (below ch) d → d < F →
    RRel D st0 (findNode path m ch st) (search m F (below ch) (path.drop st.si) (valsOf st) bl)

theorem depthLe_prepend {ts : List Tok} {r : R} {d : Nat} (h : DepthLe (prepend ts r) d) :
    DepthLe r (d - ts.length) := by
  intro x hx
  have : (ts ++ x.1, x.2) ∈ prepend ts r := List.mem_map.mpr ⟨x, hx, rfl⟩
  have := h _ this
  simp at this
  omega

theorem prepend_length_le {ts : List Tok} {r : R} {d : Nat} (h : DepthLe (prepend ts r) d) (hr : r ≠ []) :
    ts.length ≤ d := by
  cases r with
  | nil => exact absurd rfl hr
  | cons x xs =>
    have : (ts ++ x.1, x.2) ∈ prepend ts (x :: xs) := List.mem_map.mpr ⟨x, List.mem_cons_self, rfl⟩
    have := h _ this
    simp at this
    omega

/-- (2): the Static block against `litStep` -/
theorem static_rel (path m : Str) {D : Nat} {above : List Tok} {k pre ms nf op pc sts pa an}
    (h : tiNode D above (.mk k pre ms nf op pc sts pa an) = true)
    (st : St) (bl : Spec.Best) (d F : Nat) (hok : Ok D (above ++ headToks k pre) st) (hb : BRel D st.best bl)
    (hd : DepthLe (below (.mk k pre ms nf op pc sts pa an)) (d + 1)) (hF : d < F)
    (ih : ∀ ch ∈ sts, StaticStmt path m D (above ++ headToks k pre) ch) :
    let S := (match path.drop st.si with
              | c :: _ => staticBlock (findStatic path m c sts st) st
              | [] => (st, Next.param))
    let L := litStep (fun r' rest' b => search m F r' rest' (valsOf st) b)
              (below (.mk k pre ms nf op pc sts pa an)) (path.drop st.si) bl
    BRel D S.1.best L.2 ∧
      ((∃ rm, S.2 = .hit rm ∧ HitRel S.1 rm L.1) ∨ (S.2 = .param ∧ L.1 = .miss ∧ Same S.1 st)) := by
  have p := tiNode_parts h
  cases hrest : path.drop st.si with
  | nil =>
    simp only [litStep]
    refine ⟨hb, Or.inr ⟨?_, ?_, Same.refl _⟩⟩ <;> first | rfl | trivial
  | cons c rest' =>
    simp only [litStep, deriv_lit_below c h, findStatic_eq_pick]
    cases hpick : pick c sts with
    | none =>
      simp only [Option.map_none, staticBlock, List.isEmpty_nil, if_true]
      refine ⟨hb, Or.inr ⟨?_, ?_, Same.refl _⟩⟩ <;> first | rfl | trivial
    | some ch =>
      obtain ⟨hmem, hlabel⟩ := pick_mem hpick
      obtain ⟨hk, hpne, hch⟩ := tiList_mem p.kids hmem
      obtain ⟨c0, tail, _, hpre⟩ := headToks_static_ne_nil hpne
      have hc0 : c0 = c := by simpa [Node.label, hpre] using hlabel
      subst hc0
      have hbne : below ch ≠ [] := below_ne_nil D _ ch hch
      have hrne : (residFrom (ch.pre.tail) ch).isEmpty = false := by
        have := prepend_ne_nil (ts := lits ch.pre.tail) hbne
        unfold residFrom
        cases hh : prepend (lits ch.pre.tail) (below ch) with
        | nil => exact absurd hh this
        | cons _ _ => rfl
      simp only [Option.map_some, hrne, Bool.false_eq_true, if_false]
      -- depth of the edge to the child
      have hdd : DepthLe (residFrom ch.pre.tail ch) d := by
        have := depthLe_deriv (.lit c0) hd
        rw [deriv_lit_below c0 h, hpick] at this
        exact this
      have htl : tail.length ≤ d := by
        have := prepend_length_le (ts := lits ch.pre.tail) hdd hbne
        simpa [lits, hpre] using this
      have hdch : DepthLe (below ch) (d - tail.length) := by
        have := depthLe_prepend (ts := lits ch.pre.tail) hdd
        simpa [lits, hpre] using this
      -- bring the fuel into the shape of the edge lemma
      have hfuel : search m F (residFrom ch.pre.tail ch) rest' (valsOf st) bl
          = search m ((F - tail.length) + tail.length) (residFrom tail ch) rest' (valsOf st) bl := by
        rw [hpre]
        simp only [List.tail_cons]
        have : F - tail.length + tail.length = F := by omega
        rw [this]
      rw [hfuel, search_edge]
      -- the child's statement
      have hst := ih ch hmem st bl (d - tail.length) (F - tail.length) hok hb hdch (by omega)
      rw [hrest, hpre] at hst
      simp only [List.isPrefixOf, beq_self_eq_true, Bool.true_and, List.length_cons, List.drop_succ_cons] at hst
      by_cases hpfx : tail.isPrefixOf rest' = true
      · simp only [hpfx, if_true] at hst ⊢
        generalize findNode path m ch st = x at hst
        obtain ⟨st', r⟩ := x
        obtain ⟨hbr, hm⟩ := hst
        cases r with
        | hit rm =>
          simp only [staticBlock]
          exact ⟨hbr, Or.inl ⟨rm, rfl, hm⟩⟩
        | leave =>
          simp only [staticBlock, hk, nextAfter]
          simp only at hm
          obtain ⟨hmiss, hnp, hsi, hpi, hpv⟩ := hm
          refine ⟨hbr, Or.inr ⟨?_, hmiss, hsi, hpi, hpv, hnp.trans hok.np.symm⟩⟩
          first | rfl | trivial
      · simp only [hpfx, Bool.false_eq_true, if_false] at hst ⊢
        rw [hst]
        simp only [staticBlock, hk, nextAfter]
        refine ⟨?_, Or.inr ⟨?_, ?_, Same.refl _⟩⟩
        · split <;> exact hb
        · first | rfl | trivial
        · split <;> rfl

theorem paramValue_length (leaf : Bool) (rest : Str) :
    (paramValue leaf rest).length = (if leaf then rest.length else (rest.takeWhile (· ≠ '/')).length) := by
  unfold paramValue
  cases leaf <;> simp

theorem enterParam_eq (path : Str) (leaf : Bool) (st : St) (hlt : st.pi < st.pv.length)
    (hnp : st.panicked = false) :
    enterParam path leaf st = entered st (paramValue leaf (path.drop st.si)) st.best := by
  have hset : ∀ v, setVal st (st.pi : Int) v = { st with pv := st.pv.set st.pi v } := by
    intro v
    unfold setVal
    simp only [Int.toNat_natCast]
    rw [if_neg (by omega)]
  have htake : (path.drop st.si).take (paramValue leaf (path.drop st.si)).length
      = paramValue leaf (path.drop st.si) := by
    rw [paramValue_length]; exact enterParam_value leaf _
  unfold enterParam
  simp only [hset, ← paramValue_length]
  simp [entered, hnp, htake]

/-- (3): the Param block against `paramStep` -/
theorem param_rel (path m : Str) {D : Nat} {above : List Tok} {k pre ms nf op pc sts pa an}
    (h : tiNode D above (.mk k pre ms nf op pc sts pa an) = true)
    (st : St) (bl : Spec.Best) (d F : Nat) (hok : Ok D (above ++ headToks k pre) st) (hb : BRel D st.best bl)
    (hd : DepthLe (below (.mk k pre ms nf op pc sts pa an)) (d + 1)) (hF : d < F)
    (hne : (path.drop st.si).isEmpty = false)
    (ih : ∀ ch, pa = some ch → ParamStmt path m D (above ++ headToks k pre) ch) :
    let S := paramBlock (findParam path m pa st) st
    let L := paramStep (fun r' rest' vals' b => search m F r' rest' vals' b)
              (below (.mk k pre ms nf op pc sts pa an)) (path.drop st.si) (valsOf st) bl
    BRel D S.1.best L.2 ∧
      ((∃ rm, S.2 = .hit rm ∧ HitRel S.1 rm L.1) ∨ (S.2 = .any ∧ L.1 = .miss ∧ Same S.1 st)) := by
  have p := tiNode_parts h
  simp only [paramStep, deriv_param_below h, hne, Bool.false_eq_true, false_or]
  cases pa with
  | none =>
    rw [findParam]
    simp only [paramBlock, belowOf, List.isEmpty_nil, if_true]
    refine ⟨hb, Or.inr ⟨?_, ?_, Same.refl _⟩⟩ <;> first | rfl | trivial
  | some ch =>
    obtain ⟨hkp, hch⟩ := tiOpt_some p.kidP
    obtain ⟨ck, cpre, cms, cnf, cop, cpc, csts, cpa, can⟩ := ch
    simp only [Node.kind] at hkp
    subst hkp
    have q := tiNode_parts hch
    have hbne : below (.mk .param cpre cms cnf cop cpc csts cpa can) ≠ [] := below_ne_nil D _ _ hch
    have hbe : (below (.mk .param cpre cms cnf cop cpc csts cpa can)).isEmpty = false := by
      cases hh : below (.mk .param cpre cms cnf cop cpc csts cpa can) with
      | nil => exact absurd hh hbne
      | cons _ _ => rfl
    have harity : arity ((above ++ headToks k pre) ++ [Tok.param]) = st.pi + 1 := by
      rw [hok.pi, arity_append]; simp [arity]
    have hlt : st.pi < st.pv.length := by
      have h1 : arity ((above ++ headToks k pre) ++ [Tok.param]) ≤ D := q.depth
      rw [harity] at h1
      have h2 := hok.len
      omega
    rw [findParam]
    simp only [belowOf, hbe, Bool.false_eq_true, if_false, ← leaf_iff hch, paramBlock]
    rw [enterParam_eq path _ st hlt hok.np]
    generalize hv : paramValue (isLeafNode (.mk .param cpre cms cnf cop cpc csts cpa can)) (path.drop st.si) = v
    -- the entered state
    have hokE : Ok D ((above ++ headToks k pre) ++ [Tok.param]) (entered st v st.best) := by
      refine ⟨rfl, ?_, ?_, ?_⟩
      · show st.pi + 1 = _
        rw [harity]
      · show D ≤ (st.pv.set st.pi v).length
        simpa using hok.len
      · intro i hi
        show (st.pv.set st.pi v).getD i [] = []
        have hi' : st.pi + 1 ≤ i := hi
        rw [getD_set_ne _ _ _ _ (by omega)]
        exact hok.blank i (by omega)
    have hE : Entered .param cpre st (entered st v st.best) :=
      ⟨v, hlt, hok.blank st.pi (Nat.le_refl _), rfl, rfl, rfl⟩
    have hdch : DepthLe (below (.mk .param cpre cms cnf cop cpc csts cpa can)) d := by
      have := depthLe_deriv .param hd
      rw [deriv_param_below h] at this
      exact this
    have hst := ih _ rfl st (entered st v st.best) bl d F hE hokE hb hdch hF
    have hdrop : path.drop (entered st v st.best).si = (path.drop st.si).drop v.length := by
      simp [entered, List.drop_drop, Nat.add_comm]
    rw [hdrop, valsOf_entered _ _ _ hlt] at hst
    generalize findNode path m (.mk .param cpre cms cnf cop cpc csts cpa can) (entered st v st.best) = x at hst
    obtain ⟨st', r⟩ := x
    obtain ⟨hbr, hm⟩ := hst
    cases r with
    | hit rm => exact ⟨hbr, Or.inl ⟨rm, rfl, hm⟩⟩
    | leave =>
      simp only at hm
      obtain ⟨hmiss, hnp, hsi, hpi, hpv⟩ := hm
      refine ⟨hbr, Or.inr ⟨?_, hmiss, hsi, hpi, hpv, hnp.trans hok.np.symm⟩⟩
      first | rfl | trivial

/-! ### one node -/

/-- the part of `findNode` after the prefix comparison -/
def bodyOf (path m : Str) (k : Kind) (pre : Str) (ms : List (Str × RouteMethod)) (nf : Option RouteMethod)
    (op : Str) (sts : List Node) (pa an : Option Node) (st : St) : St × Router.Res :=
  match nodeEnd m ms nf op (path.drop st.si).isEmpty st with
  | (st, some rm) => (st, .hit rm)
  | (st, none) =>
    match (match path.drop st.si with
           | c :: _ => staticBlock (findStatic path m c sts st) st
           | [] => (st, Next.param)) with
    | (st, .param) =>
      if (path.drop st.si).isEmpty then finishNode path m k pre.length an st .any
      else
        match paramBlock (findParam path m pa st) st with
        | (st, nx) => finishNode path m k pre.length an st nx
    | (st, nx) => finishNode path m k pre.length an st nx

theorem findNode_unfold (path m : Str) (k pre ms nf op pc sts pa an) (st : St) :
    findNode path m (.mk k pre ms nf op pc sts pa an) st =
      if st.panicked then (st, .leave) else
      if (if k = .static then lcp (path.drop st.si) pre else 0) ≠ (if k = .static then pre.length else 0)
      then (st, .leave)
      else bodyOf path m k pre ms nf op sts pa an
        { st with si := st.si + (if k = .static then lcp (path.drop st.si) pre else 0) } := by
  rw [findNode]
  rfl

theorem nodeEnd_some {m : Str} {ms : List (Str × RouteMethod)} {nf : Option RouteMethod} {op : Str}
    {atEnd : Bool} {st : St} {rm : RouteMethod} (h : (nodeEnd m ms nf op atEnd st).2 = some rm) :
    (m, rm) ∈ ms ∨ nf = some rm := by
  simp only [nodeEnd] at h
  split at h
  · split at h
    · exact Or.inl (findMethod_mem h)
    · exact Or.inr h
  · simp at h

theorem orElse_hit_eq (e : Entry) (v : List Str) (b : Spec.Best) (k : Spec.Best → Spec.Res × Spec.Best) :
    orElse (Spec.Res.hit e v, b) k = (Spec.Res.hit e v, b) := rfl
theorem orElse_miss_eq (b : Spec.Best) (k : Spec.Best → Spec.Res × Spec.Best) :
    orElse (Spec.Res.miss, b) k = k b := rfl

theorem search_succ (m : Str) (fuel : Nat) (r : R) (path : Str) (vals : List Str) (best : Spec.Best) :
    search m (fuel + 1) r path vals best =
      match stepEnd m (ends r) path best with
      | (some e, best) => (.hit e vals, best)
      | (none, best) =>
        orElse (litStep (fun r' rest b => search m fuel r' rest vals b) r path best) fun best =>
        orElse (paramStep (fun r' rest vals' b => search m fuel r' rest vals' b) r path vals best) fun best =>
        anyStep m r path vals best := by
  rw [search]
  rfl

/-- **one node**: the body of `findNode` against one step of the reference search -/
theorem body_rel (path m : Str) {D : Nat} {above : List Tok} {k pre ms nf op pc sts pa an}
    (h : tiNode D above (.mk k pre ms nf op pc sts pa an) = true)
    (st0 st : St) (bl : Spec.Best) (d F : Nat) (hE : Entered k pre st0 st)
    (hok : Ok D (above ++ headToks k pre) st) (hb : BRel D st.best bl)
    (hd : DepthLe (below (.mk k pre ms nf op pc sts pa an)) d) (hF : d < F)
    (ihS : ∀ ch ∈ sts, StaticStmt path m D (above ++ headToks k pre) ch)
    (ihP : ∀ ch, pa = some ch → ParamStmt path m D (above ++ headToks k pre) ch) :
    RRel D st0 (bodyOf path m k pre ms nf op sts pa an st)
      (search m F (below (.mk k pre ms nf op pc sts pa an)) (path.drop st.si) (valsOf st) bl) := by
  have p := tiNode_parts h
  rw [search_fuel m d F (d + 2) _ _ _ _ hd hF (by omega)]
  have hd1 : DepthLe (below (.mk k pre ms nf op pc sts pa an)) (d + 1) := depthLe_mono hd (by omega)
  rw [show d + 2 = (d + 1) + 1 from rfl, search_succ, ends_below h]
  have hne := nodeEnd_rel D m ms nf op (path.drop st.si) st bl p.noNf
    (fun rm hrm => by rw [(p.nfRec rm hrm).2]; exact p.depth) hb
  have hsome := @nodeEnd_some m ms nf op (path.drop st.si).isEmpty st
  unfold bodyOf
  generalize nodeEnd m ms nf op (path.drop st.si).isEmpty st = X at hne hsome ⊢
  generalize stepEnd m (ownEntries ms nf) (path.drop st.si) bl = Y at hne ⊢
  obtain ⟨st1, e3⟩ := X
  obtain ⟨e1, b1⟩ := Y
  simp only at hne hsome
  obtain ⟨hb1, hst1, he1⟩ := hne
  have hs1 : Same st1 st := by rw [hst1]; exact ⟨rfl, rfl, rfl, rfl⟩
  have hok1 : Ok D (above ++ headToks k pre) st1 := hs1.ok hok
  cases e3 with
  | some rm =>
    simp only [Option.map_some] at he1
    subst he1
    simp only
    refine ⟨hb1, hok1.np, ?_, ?_, (if ms.isEmpty then routeNotFound else m), ?_⟩
    · rw [hok1.pi]
      rcases hsome rfl with hm | hn
      · exact ((p.recs _ hm).2).symm
      · exact ((p.nfRec rm hn).2).symm
    · have h1 := p.depth
      have h2 := hok1.len
      show st1.pi ≤ st1.pv.length
      rw [hok1.pi]; omega
    · rw [hs1.vals]
  | none =>
    simp only [Option.map_none] at he1
    subst he1
    simp only
    have hS := static_rel path m h st1 b1 d (d + 1) hok1 hb1 hd1 (by omega) ihS
    simp only [hs1.vals, hs1.1] at hS
    rw [hs1.1]
    generalize (match path.drop st.si with
              | c :: _ => staticBlock (findStatic path m c sts st1) st1
              | [] => (st1, Next.param)) = S at hS ⊢
    generalize litStep (fun r' rest' b => search m (d + 1) r' rest' (valsOf st) b)
      (below (.mk k pre ms nf op pc sts pa an)) (path.drop st.si) b1 = L at hS ⊢
    obtain ⟨st2, nx2⟩ := S
    obtain ⟨resL, b2⟩ := L
    simp only at hS
    obtain ⟨hb2, hcase⟩ := hS
    rcases hcase with ⟨rm, hnx, hhit⟩ | ⟨hnx, hmiss, hs2⟩
    · subst hnx
      obtain ⟨h1, h2, h3, mm, h4⟩ := hhit
      subst h4
      simp only [orElse_hit_eq, finishNode]
      exact ⟨hb2, h1, h2, h3, mm, rfl⟩
    · subst hnx hmiss
      simp only [orElse_miss_eq]
      have hs2' : Same st2 st := hs2.trans hs1
      have hok2 : Ok D (above ++ headToks k pre) st2 := hs2'.ok hok
      rw [hs2'.1]
      by_cases hemp : (path.drop st.si).isEmpty = true
      · simp only [hemp, if_true]
        have hP : paramStep (fun r' rest' vals' b => search m (d + 1) r' rest' vals' b)
            (below (.mk k pre ms nf op pc sts pa an)) (path.drop st.si) (valsOf st) b2 = (.miss, b2) := by
          simp [paramStep, hemp]
        rw [hP, orElse_miss_eq]
        have := finish_any_rel path m h st0 st2 b2 (hs2'.entered hE) hok2 hb2
        rw [hs2'.1, hs2'.vals] at this
        exact this
      · have hemp' : (path.drop st.si).isEmpty = false := by simpa using hemp
        simp only [hemp', Bool.false_eq_true, if_false]
        have hPr := param_rel path m h st2 b2 d (d + 1) hok2 hb2 hd1 (by omega)
          (by rw [hs2'.1]; exact hemp') ihP
        simp only [hs2'.vals, hs2'.1] at hPr
        generalize paramBlock (findParam path m pa st2) st2 = P at hPr ⊢
        generalize paramStep (fun r' rest' vals' b => search m (d + 1) r' rest' vals' b)
          (below (.mk k pre ms nf op pc sts pa an)) (path.drop st.si) (valsOf st) b2 = Q at hPr ⊢
        obtain ⟨st3, nx3⟩ := P
        obtain ⟨resP, b3⟩ := Q
        simp only at hPr
        obtain ⟨hb3, hcase3⟩ := hPr
        rcases hcase3 with ⟨rm, hnx, hhit⟩ | ⟨hnx, hmiss, hs3⟩
        · subst hnx
          obtain ⟨h1, h2, h3, mm, h4⟩ := hhit
          subst h4
          simp only [orElse_hit_eq, finishNode]
          exact ⟨hb3, h1, h2, h3, mm, rfl⟩
        · subst hnx hmiss
          simp only [orElse_miss_eq]
          have hs3' : Same st3 st := hs3.trans hs2'
          have := finish_any_rel path m h st0 st3 b3 (hs3'.entered hE) (hs3'.ok hok) hb3
          rw [hs3'.1, hs3'.vals] at this
          exact this

theorem arity_static (toks : List Tok) (pre : Str) : arity (toks ++ headToks .static pre) = arity toks := by
  simp [headToks, arity_append, arity_lits]

/- the structural induction over the tree -/
mutual
theorem node_ok (path m : Str) (D : Nat) : (n : Node) → (toks : List Tok) → tiNode D toks n = true →
    (n.kind = .static → StaticStmt path m D toks n) ∧ (n.kind = .param → ParamStmt path m D toks n)
  | .mk k pre ms nf op pc sts pa an, toks, h => by
    have p := tiNode_parts h
    have ihS : ∀ ch ∈ sts, StaticStmt path m D (toks ++ headToks k pre) ch :=
      list_ok path m D sts (toks ++ headToks k pre) p.kids
    have ihP : ∀ ch, pa = some ch → ParamStmt path m D (toks ++ headToks k pre) ch :=
      opt_ok path m D pa (toks ++ headToks k pre) p.kidP
    constructor
    · intro hk
      simp only [Node.kind] at hk
      subst hk
      intro st bl d F hok hb hd hF
      rw [findNode_unfold]
      simp only [hok.np, Bool.false_eq_true, if_false, if_true, Node.pre, ne_eq]
      by_cases hpfx : pre.isPrefixOf (path.drop st.si) = true
      · have hl : lcp (path.drop st.si) pre = pre.length := (lcp_eq_length_iff _ _).mpr hpfx
        simp only [hpfx, if_true, hl, not_true_eq_false, if_false]
        have hE : Entered .static pre st { st with si := st.si + pre.length } := ⟨rfl, rfl, rfl⟩
        have hok' : Ok D (toks ++ headToks .static pre) { st with si := st.si + pre.length } :=
          ⟨hok.np, by rw [arity_static]; exact hok.pi, hok.len, hok.blank⟩
        have := body_rel path m h st { st with si := st.si + pre.length } bl d F hE hok' hb hd hF ihS ihP
        have hdrop : path.drop (st.si + pre.length) = (path.drop st.si).drop pre.length := by
          rw [List.drop_drop]
        have hv : valsOf { st with si := st.si + pre.length } = valsOf st := rfl
        simp only [hdrop, hv, hok.np] at this
        exact this
      · have hl : lcp (path.drop st.si) pre ≠ pre.length := fun h => hpfx ((lcp_eq_length_iff _ _).mp h)
        simp only [hpfx, Bool.false_eq_true, if_false, hl, not_false_eq_true, if_true]
    · intro hk
      simp only [Node.kind] at hk
      subst hk
      intro st0 st bl d F hE hok hb hd hF
      rw [findNode_unfold]
      simp only [hok.np, Bool.false_eq_true, if_false, reduceCtorEq, ne_eq, not_true_eq_false, Nat.add_zero]
      have hst : ({ si := st.si, pi := st.pi, pv := st.pv, best := st.best } : St) = st := by
        have := hok.np
        cases st
        simp_all
      rw [hst]
      exact body_rel path m h st0 st bl d F hE hok hb hd hF ihS ihP
theorem list_ok (path m : Str) (D : Nat) : (l : List Node) → (toks : List Tok) → tiList D toks l = true →
    ∀ ch ∈ l, StaticStmt path m D toks ch
  | [], _, _ => by intro ch hm; simp at hm
  | c :: cs, toks, h => by
    obtain ⟨hk, _, hc, hcs⟩ := tiList_cons h
    intro ch hm
    rcases List.mem_cons.mp hm with heq | hm'
    · rw [heq]; exact (node_ok path m D c toks hc).1 hk
    · exact list_ok path m D cs toks hcs ch hm'
theorem opt_ok (path m : Str) (D : Nat) : (o : Option Node) → (toks : List Tok) → tiOpt D toks .param o = true →
    ∀ ch, o = some ch → ParamStmt path m D toks ch
  | none, _, _ => by intro ch he; simp at he
  | some c, toks, h => by
    obtain ⟨hk, hc⟩ := tiOpt_some h
    intro ch he
    simp only [Option.some.injEq] at he
    rw [← he]
    exact (node_ok path m D c toks hc).2 hk
end

end Router.Tree
