import EchoProofs.Tree.WF
import EchoProofs.Tree.Frame
/-!
# The remaining router corollaries for every well-formed table

`Corollaries.lean` / `Frame.lean` state C02 (order-freeness), C03 (truthful Allow, 404) and C05 (length
irrelevance, isolation under recycling) on the tree model under the per-table hypothesis
`tableInvariant rs = (true, true)`.  With `build_tableInvariant` that hypothesis is a theorem for every
well-formed table, so the statements below carry `wfTable` only — a decidable condition on the *table*
(no escaped colon, no text after `*`, no route registered twice), not on the tree.
-/
namespace Router.Tree
open Router Router.Spec

theorem wf_cases (rs : List Route) (h : wfTable rs = true) : rs = [] ∨ tableInvariant rs = (true, true) := by
  cases rs with
  | nil => exact Or.inl rfl
  | cons r rs => exact Or.inr (build_tableInvariant (r :: rs) (by simp) h)

theorem build_nil : build [] = emptyTree := rfl

/-- **C02 on the tree model**, for well-formed tables: the outcome does not depend on the registration order -/
theorem tree_order_free_wf (rs rs' : List Route) (hp : rs.Perm rs') (m path : Str) (n : Nat)
    (hn : maxParam rs ≤ n) (hn' : maxParam rs' ≤ n)
    (hwf : wfTable rs = true) (hwf' : wfTable rs' = true) :
    Observably (find (build rs) m path (List.replicate n [])) (find (build rs') m path (List.replicate n [])) := by
  rcases wf_cases rs hwf with rfl | hinv
  · have : rs' = [] := List.perm_nil.mp hp.symm
    subst this
    rw [build_nil, find_emptyTree]
    trivial
  · rcases wf_cases rs' hwf' with rfl | hinv'
    · have : rs = [] := List.perm_nil.mp hp
      subst this
      rw [build_nil, find_emptyTree]
      trivial
    · exact tree_order_free rs rs' hp m path n hn hn' hinv hinv'

/-- **C03 on the tree model**, for well-formed tables: every advertised method is really served -/
theorem tree_allow_truthful_wf (rs : List Route) (m path : Str) (n : Nat) (hn : maxParam rs ≤ n)
    (hwf : wfTable rs = true) (p : Str) (allow : List Str)
    (h : find (build rs) m path (List.replicate n []) = .methodNotAllowed p allow)
    (m' : Str) (hm' : m' ∈ allow) (hopt : m' ≠ methodOptions) :
    ∃ rm vals, find (build rs) m' path (List.replicate n []) = .dispatch rm vals ∧
      ∃ e, e ∈ rs.map mkEntry ∧ e.method = m' ∧ e.hid = rm.hid := by
  rcases wf_cases rs hwf with rfl | hinv
  · rw [build_nil, find_emptyTree] at h; cases h
  · exact tree_allow_truthful rs m path n hn hinv p allow h m' hm' hopt

/-- **C03 on the tree model**, for well-formed tables: a path no pattern can be instantiated to gets 404 -/
theorem tree_404_wf (rs : List Route) (m path : Str) (n : Nat) (hn : maxParam rs ≤ n)
    (hwf : wfTable rs = true)
    (hno : ∀ e ∈ rs.map mkEntry, ∀ w, inst e.toks w ≠ some path) :
    ∃ p, find (build rs) m path (List.replicate n []) = .notFound p := by
  rcases wf_cases rs hwf with rfl | hinv
  · exact ⟨[], by rw [build_nil, find_emptyTree]⟩
  · exact tree_404 rs m path n hn hinv hno

/-- **C05**: routing does not depend on the number of spare value slots, for well-formed tables -/
theorem tree_length_irrelevant_wf (rs : List Route) (hwf : wfTable rs = true) :
    C05.LengthIrrelevant (C05.routerOf rs) (maxParam rs) := by
  rcases wf_cases rs hwf with rfl | hinv
  · intro m p n _
    simp only [C05.routerOf, C05.blank, build_nil, find_emptyTree]
  · exact tree_length_irrelevant rs hinv

/-- **C05_isolated on the tree model**, for well-formed tables -/
theorem C05_isolated_tree_wf (rs : List Route) (hwf : wfTable rs = true)
    (dirty : C05.Ctx) (r : C05.Request) :
    (C05.serveWith (C05.routerOf rs) (maxParam rs) (some dirty) r).1 =
      (C05.serveWith (C05.routerOf rs) (maxParam rs) none r).1 :=
  C05.C05_isolated _ _ (tree_length_irrelevant_wf rs hwf) (C05.routerOf_valuesPerName rs) dirty r

theorem C05_no_fail_after_registration_tree_wf (rs : List Route) (hwf : wfTable rs = true)
    (pooled : Option C05.Ctx) (r : C05.Request) :
    (C05.serveWith (C05.routerOf rs) (maxParam rs) pooled r).1.kind ≠ 3 :=
  C05.C05_no_fail_after_registration _ _ (tree_no_panic_wf rs hwf) pooled r

/-- **C05_history_isolated on the tree model**: for every history of requests (handlers that dirty
    everything, panic or fail) interleaved with registrations, starting from any world (any pool content),
    in which the table in force at each request is well formed: every request observes exactly what it
    would observe alone on a fresh instance with the routes registered so far. -/
theorem C05_history_isolated_tree_wf :
    ∀ (steps : List C05.Step) (w : C05.World),
      TablesOk (fun routes => wfTable routes = true) w.routes steps →
      C05.runSteps w steps = C05.expected w.routes steps := by
  intro steps
  induction steps with
  | nil => intro w _; rfl
  | cons s ss ih =>
    intro w hok
    cases s with
    | register rt =>
      simp only [C05.runSteps, C05.step, C05.expected]
      exact ih _ hok
    | borrow id prog =>
      simp only [C05.runSteps, C05.step, C05.expected]
      exact ih _ hok
    | request r =>
      obtain ⟨hwf, hok'⟩ := hok
      simp only [C05.runSteps, C05.step, C05.expected]
      cases hp : w.pool with
      | nil =>
        simp only
        rw [ih]
        · rfl
        · exact hok'
      | cons c cs =>
        simp only
        rw [ih]
        · simp only [C05.alone]
          rw [C05_isolated_tree_wf w.routes hwf c r]
        · exact hok'

/-- well-formedness of the final table implies it for every table in force during the history when only
    registrations of new, distinct routes happen: a prefix of a well-formed table is well formed -/
theorem wfTable_prefix (rs ext : List Route) (h : wfTable (rs ++ ext) = true) : wfTable rs = true := by
  simp only [wfTable, Bool.and_eq_true, List.all_append, List.map_append, initial] at h ⊢
  refine ⟨h.1.1, ?_⟩
  have hu := h.2
  clear h
  generalize rs.map mkEntry = es at hu ⊢
  generalize ext.map mkEntry = es' at hu
  induction es with
  | nil => rfl
  | cons e es ih =>
    simp only [List.cons_append, List.map_cons, uniqB, Bool.and_eq_true, List.all_append] at hu ⊢
    exact ⟨hu.1.1, ih hu.2⟩

/-- the routes a history registers, in order -/
def regsOf : List C05.Step → List Route
  | [] => []
  | .register rt :: ss => rt :: regsOf ss
  | .request _ :: ss => regsOf ss
  | .borrow _ _ :: ss => regsOf ss

theorem tablesOk_of_final : ∀ (steps : List C05.Step) (routes : List Route),
    wfTable (routes ++ regsOf steps) = true → TablesOk (fun rs => wfTable rs = true) routes steps := by
  intro steps
  induction steps with
  | nil => intro _ _; trivial
  | cons s ss ih =>
    intro routes h
    cases s with
    | register rt =>
      simp only [TablesOk]
      apply ih
      simpa [regsOf, List.append_assoc] using h
    | borrow id prog =>
      simp only [TablesOk]
      simp only [regsOf] at h
      exact ih routes h
    | request r =>
      simp only [TablesOk]
      simp only [regsOf] at h
      exact ⟨wfTable_prefix _ _ h, ih routes h⟩

/-- **C05_history_isolated**, final form: if the table the application ends up with is well formed
    (no escaped colon, no text after `*`, no route registered twice), then in every history of requests
    and registrations leading to it, from any pool content, every request observes exactly what it would
    observe alone on a fresh instance with the routes registered so far. -/
theorem C05_history_isolated_tree_final (steps : List C05.Step) (w : C05.World)
    (h : wfTable (w.routes ++ regsOf steps) = true) :
    C05.runSteps w steps = C05.expected w.routes steps :=
  C05_history_isolated_tree_wf steps w (tablesOk_of_final steps w.routes h)

end Router.Tree
