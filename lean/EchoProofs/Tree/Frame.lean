import EchoProofs.Tree.Chain
import EchoProofs.C05
/-!
# Frame lemma for the Find loop: spare value slots are never touched

For ARBITRARY trees (no invariant): a run of `findNode` that does not panic on the value slice
`pv` behaves identically on `pv ++ ext` and leaves `ext` untouched (`findNode_frame`).  The
same for `findStatic` / `findParam` and every state operation of the loop.

Consequences:

* `find_frame` / `find_replicate_frame` (Corollary A)  a non-panicking `find` does not depend on
  spare slots at the end of the slice
* `tree_length_irrelevant` (Corollary B)  for every table passing `tableInvariant`, the router
  model `C05.routerOf` is `C05.LengthIrrelevant`
* `C05_isolated_tree`, `C05_history_isolated_tree`  the C05 isolation theorems for the radix-tree
  model without router hypotheses other than the per-table check
-/
namespace Router

/-- the same state with spare slots `ext` appended to the value slice -/
def St.extend (st : St) (ext : List Str) : St := { st with pv := st.pv ++ ext }

@[simp] theorem St.extend_si (st : St) (ext : List Str) : (st.extend ext).si = st.si := rfl
@[simp] theorem St.extend_pi (st : St) (ext : List Str) : (st.extend ext).pi = st.pi := rfl
@[simp] theorem St.extend_pv (st : St) (ext : List Str) : (st.extend ext).pv = st.pv ++ ext := rfl
@[simp] theorem St.extend_best (st : St) (ext : List Str) : (st.extend ext).best = st.best := rfl
@[simp] theorem St.extend_panicked (st : St) (ext : List Str) : (st.extend ext).panicked = st.panicked := rfl

end Router

namespace Router.Tree
open Router

/-! ### list facts -/

theorem getD_append_left (l ext : List Str) (i : Nat) (h : i < l.length) :
    (l ++ ext).getD i [] = l.getD i [] := by
  simp [List.getD, List.getElem?_append_left h]

theorem bool_of_not_true {b : Bool} (h : ¬ b = true) : b = false := by
  cases b <;> simp_all

/-! ### `setVal` -/

theorem setVal_mono (st : St) (i : Int) (v : Str) (h : st.panicked = true) :
    (setVal st i v).panicked = true := by
  unfold setVal
  split
  · rfl
  · exact h

theorem setVal_frame (st : St) (i : Int) (v : Str) (ext : List Str)
    (h : (setVal st i v).panicked = false) :
    setVal (st.extend ext) i v = (setVal st i v).extend ext := by
  unfold setVal at h ⊢
  by_cases hc : i < 0 ∨ i.toNat ≥ st.pv.length
  · simp [hc] at h
  · have hc' : ¬ (i < 0 ∨ i.toNat ≥ (st.extend ext).pv.length) := by
      simp only [St.extend_pv, List.length_append]
      omega
    rw [if_neg hc, if_neg hc']
    have hlt : i.toNat < st.pv.length := by omega
    simp only [St.extend, List.set_append_left _ _ hlt]

/-! ### `leaveRestore` / `leaveOut` -/

theorem leaveRestore_mono (k : Kind) (p : Nat) (st : St) (h : st.panicked = true) :
    (leaveRestore k p st).panicked = true := by
  unfold leaveRestore
  cases k with
  | static => exact h
  | param => simp only; split; rfl; exact h
  | any => simp only; split; rfl; exact h

theorem leaveRestore_frame (k : Kind) (p : Nat) (st : St) (ext : List Str)
    (h : (leaveRestore k p st).panicked = false) :
    leaveRestore k p (st.extend ext) = (leaveRestore k p st).extend ext := by
  cases k
  case static => rfl
  all_goals
    simp only [leaveRestore, St.extend_pi, St.extend_pv, St.extend_si, List.length_append] at h ⊢
    by_cases hc : st.pi = 0 ∨ st.pi - 1 ≥ st.pv.length
    · simp [hc] at h
    · have hc' : ¬ (st.pi = 0 ∨ st.pi - 1 ≥ st.pv.length + ext.length) := by omega
      rw [if_neg hc, if_neg hc']
      have hlt : st.pi - 1 < st.pv.length := by omega
      simp only [St.extend, List.set_append_left _ _ hlt, getD_append_left _ _ _ hlt]

theorem leaveOut_mono (k : Kind) (p : Nat) (st : St) (h : st.panicked = true) :
    (leaveOut k p st).1.panicked = true := by
  unfold leaveOut
  simp [h]

theorem leaveOut_frame (k : Kind) (p : Nat) (st : St) (ext : List Str)
    (h : (leaveOut k p st).1.panicked = false) :
    leaveOut k p (st.extend ext) = ((leaveOut k p st).1.extend ext, (leaveOut k p st).2) := by
  unfold leaveOut at h ⊢
  by_cases hp : st.panicked = true
  · simp [hp] at h
  · simp only [St.extend_panicked, hp, if_false, Bool.false_eq_true] at h ⊢
    rw [leaveRestore_frame k p st ext h]

/-! ### `enterParam` -/

theorem enterParam_mono (path : Str) (leaf : Bool) (st : St) (h : st.panicked = true) :
    (enterParam path leaf st).panicked = true := by
  unfold enterParam
  exact setVal_mono _ _ _ h

theorem enterParam_frame (path : Str) (leaf : Bool) (st : St) (ext : List Str)
    (h : (enterParam path leaf st).panicked = false) :
    enterParam path leaf (st.extend ext) = (enterParam path leaf st).extend ext := by
  unfold enterParam at h ⊢
  simp only [St.extend_si, St.extend_pi] at h ⊢
  rw [setVal_frame _ _ _ ext h]
  rfl

/-! ### `nodeEnd` -/

theorem nodeEnd_panicked (m : Str) (ms : List (Str × RouteMethod)) (nf : Option RouteMethod) (op : Str)
    (atEnd : Bool) (st : St) : (nodeEnd m ms nf op atEnd st).1.panicked = st.panicked := rfl

theorem nodeEnd_si (m : Str) (ms : List (Str × RouteMethod)) (nf : Option RouteMethod) (op : Str)
    (atEnd : Bool) (st : St) : (nodeEnd m ms nf op atEnd st).1.si = st.si := rfl

theorem nodeEnd_frame (m : Str) (ms : List (Str × RouteMethod)) (nf : Option RouteMethod) (op : Str)
    (atEnd : Bool) (st : St) (ext : List Str) :
    nodeEnd m ms nf op atEnd (st.extend ext) =
      ((nodeEnd m ms nf op atEnd st).1.extend ext, (nodeEnd m ms nf op atEnd st).2) := rfl

/-! ### `anyBlock` -/

/-- the Any block after the value was stored -/
def anyRest (m : Str) (c : Node) (len : Nat) (st : St) : St × Option RouteMethod :=
  let st := { st with pi := st.pi + 1, si := st.si + len }
  match findMethod c.methods m with
  | some h => (st, some h)
  | none =>
    let st := { st with best := if st.best.isNone then some (bestOf c) else st.best }
    match c.nf with
    | some h => (st, some h)
    | none => (leaveRestore c.kind c.pre.length st, none)

theorem anyBlock_some (path m : Str) (c : Node) (st : St) :
    anyBlock path m (some c) st =
      anyRest m c (path.drop st.si).length (setVal st ((c.paramsCount : Int) - 1) (path.drop st.si)) := rfl

theorem anyRest_mono (m : Str) (c : Node) (len : Nat) (st : St) (h : st.panicked = true) :
    (anyRest m c len st).1.panicked = true := by
  unfold anyRest
  cases findMethod c.methods m with
  | some r => exact h
  | none =>
    cases c.nf with
    | some r => exact h
    | none => exact leaveRestore_mono _ _ _ h

theorem anyRest_frame (m : Str) (c : Node) (len : Nat) (st : St) (ext : List Str)
    (h : (anyRest m c len st).1.panicked = false) :
    anyRest m c len (st.extend ext) = ((anyRest m c len st).1.extend ext, (anyRest m c len st).2) := by
  unfold anyRest at h ⊢
  revert h
  cases findMethod c.methods m with
  | some r => intro _; rfl
  | none =>
    cases c.nf with
    | some r => intro _; rfl
    | none =>
      intro h
      refine Prod.ext ?_ rfl
      exact leaveRestore_frame _ _ _ ext h

theorem anyBlock_mono (path m : Str) (an : Option Node) (st : St) (h : st.panicked = true) :
    (anyBlock path m an st).1.panicked = true := by
  cases an with
  | none => exact h
  | some c =>
    rw [anyBlock_some]
    exact anyRest_mono _ _ _ _ (setVal_mono _ _ _ h)

theorem anyBlock_frame (path m : Str) (an : Option Node) (st : St) (ext : List Str)
    (h : (anyBlock path m an st).1.panicked = false) :
    anyBlock path m an (st.extend ext) =
      ((anyBlock path m an st).1.extend ext, (anyBlock path m an st).2) := by
  cases an with
  | none => rfl
  | some c =>
    rw [anyBlock_some] at h ⊢
    rw [anyBlock_some]
    simp only [St.extend_si]
    have hs : (setVal st ((c.paramsCount : Int) - 1) (path.drop st.si)).panicked = false := by
      cases hc : (setVal st ((c.paramsCount : Int) - 1) (path.drop st.si)).panicked with
      | false => rfl
      | true =>
        rw [anyRest_mono _ _ _ _ hc] at h
        cases h
    rw [setVal_frame _ _ _ ext hs]
    exact anyRest_frame _ _ _ _ ext h

/-! ### `finishNode` -/

theorem finishNode_mono (path m : Str) (k : Kind) (p : Nat) (an : Option Node) (st : St) (nx : Next)
    (h : st.panicked = true) : (finishNode path m k p an st nx).1.panicked = true := by
  have hany : (match anyBlock path m an st with
      | (st', some rm) => (st', Res.hit rm)
      | (st', none) => leaveOut k p st').1.panicked = true := by
    have ha := anyBlock_mono path m an st h
    generalize anyBlock path m an st = x at ha
    obtain ⟨st', r⟩ := x
    cases r with
    | some rm => exact ha
    | none => exact leaveOut_mono _ _ _ ha
  cases nx with
  | hit rm => exact h
  | leave => exact leaveOut_mono _ _ _ h
  | param => exact hany
  | any => exact hany

theorem finishNode_frame (path m : Str) (k : Kind) (p : Nat) (an : Option Node) (st : St) (nx : Next)
    (ext : List Str) (h : (finishNode path m k p an st nx).1.panicked = false) :
    finishNode path m k p an (st.extend ext) nx =
      ((finishNode path m k p an st nx).1.extend ext, (finishNode path m k p an st nx).2) := by
  have hany : (match anyBlock path m an st with
      | (st', some rm) => (st', Res.hit rm)
      | (st', none) => leaveOut k p st').1.panicked = false →
      (match anyBlock path m an (st.extend ext) with
      | (st', some rm) => (st', Res.hit rm)
      | (st', none) => leaveOut k p st') =
      ((match anyBlock path m an st with
        | (st', some rm) => (st', Res.hit rm)
        | (st', none) => leaveOut k p st').1.extend ext,
       (match anyBlock path m an st with
        | (st', some rm) => (st', Res.hit rm)
        | (st', none) => leaveOut k p st').2) := by
    intro h
    have ha : (anyBlock path m an st).1.panicked = false := by
      cases hc : (anyBlock path m an st).1.panicked with
      | false => rfl
      | true =>
        exfalso
        generalize anyBlock path m an st = x at hc h
        obtain ⟨st', r⟩ := x
        cases r with
        | some rm => simp only at hc h; rw [hc] at h; cases h
        | none =>
          simp only at hc h
          rw [leaveOut_mono _ _ _ hc] at h
          cases h
    rw [anyBlock_frame path m an st ext ha]
    generalize anyBlock path m an st = x at ha h
    obtain ⟨st', r⟩ := x
    cases r with
    | some rm => rfl
    | none => exact leaveOut_frame _ _ _ ext h
  cases nx with
  | hit rm => rfl
  | leave => exact leaveOut_frame _ _ _ ext h
  | param => exact hany h
  | any => exact hany h

/-! ### `findNode` on a panicked state -/

theorem findNode_panicked (path m : Str) (n : Node) (st : St) (h : st.panicked = true) :
    findNode path m n st = (st, .leave) := by
  obtain ⟨k, pre, ms, nf, op, pc, sts, pa, an⟩ := n
  rw [findNode_unfold]
  simp [h]

/-- the frame statement for one node -/
def NodeFrame (path m : Str) (ext : List Str) (n : Node) : Prop :=
  ∀ st : St, (findNode path m n st).1.panicked = false →
    findNode path m n (st.extend ext) = ((findNode path m n st).1.extend ext, (findNode path m n st).2)

/-! ### the Static block -/

/-- the Static block of `findNode` -/
def sBlock (path m : Str) (sts : List Node) (st : St) : St × Next :=
  match path.drop st.si with
  | c :: _ => staticBlock (findStatic path m c sts st) st
  | [] => (st, Next.param)

theorem staticBlock_some_fst (ck : Kind) (x : St × Res) (st : St) :
    (staticBlock (some (ck, x.1, x.2)) st).1 = x.1 := by
  obtain ⟨s, r⟩ := x
  cases r <;> rfl

theorem sBlock_frame (path m : Str) (sts : List Node) (ext : List Str)
    (ih : ∀ n ∈ sts, NodeFrame path m ext n) (st : St)
    (h : (sBlock path m sts st).1.panicked = false) :
    sBlock path m sts (st.extend ext) =
      ((sBlock path m sts st).1.extend ext, (sBlock path m sts st).2) := by
  unfold sBlock at h ⊢
  simp only [St.extend_si] at h ⊢
  cases hd : path.drop st.si with
  | nil => rfl
  | cons c rest =>
    simp only [hd, findStatic_eq_pick] at h ⊢
    cases hp : pick c sts with
    | none => rfl
    | some n =>
      simp only [hp, Option.map_some] at h ⊢
      rw [staticBlock_some_fst n.kind (findNode path m n st) st] at h
      rw [ih n (pick_mem hp).1 st h]
      generalize findNode path m n st = x
      obtain ⟨s, r⟩ := x
      cases r <;> rfl

/-! ### the Param block -/

theorem paramBlock_some_fst (x : St × Res) (st : St) : (paramBlock (some x) st).1 = x.1 := by
  obtain ⟨s, r⟩ := x
  cases r <;> rfl

theorem pBlock_mono (path m : Str) (pa : Option Node) (st : St) (h : st.panicked = true) :
    (paramBlock (findParam path m pa st) st).1.panicked = true := by
  cases pa with
  | none => rw [findParam]; exact h
  | some c =>
    rw [findParam]
    simp only [paramBlock_some_fst]
    rw [findNode_panicked _ _ _ _ (enterParam_mono _ _ _ h)]
    exact enterParam_mono _ _ _ h

theorem pBlock_frame (path m : Str) (pa : Option Node) (ext : List Str)
    (ih : ∀ n, pa = some n → NodeFrame path m ext n) (st : St)
    (h : (paramBlock (findParam path m pa st) st).1.panicked = false) :
    paramBlock (findParam path m pa (st.extend ext)) (st.extend ext) =
      ((paramBlock (findParam path m pa st) st).1.extend ext,
       (paramBlock (findParam path m pa st) st).2) := by
  cases pa with
  | none => rw [findParam, findParam]; rfl
  | some c =>
    rw [findParam] at h
    rw [findParam, findParam]
    simp only [paramBlock_some_fst] at h ⊢
    have he : (enterParam path (isLeafNode c) st).panicked = false := by
      cases hc : (enterParam path (isLeafNode c) st).panicked with
      | false => rfl
      | true =>
        rw [findNode_panicked _ _ _ _ hc] at h
        simp only at h
        rw [hc] at h
        cases h
    rw [enterParam_frame _ _ _ ext he, ih c rfl _ h]
    generalize findNode path m c (enterParam path (isLeafNode c) st) = x
    obtain ⟨s, r⟩ := x
    cases r <;> rfl

/-- the Param block and what follows it -/
def pStage (path m : Str) (k : Kind) (p : Nat) (pa an : Option Node) (st : St) : St × Res :=
  if (path.drop st.si).isEmpty then finishNode path m k p an st .any
  else
    match paramBlock (findParam path m pa st) st with
    | (st, nx) => finishNode path m k p an st nx

theorem pStage_mono (path m : Str) (k : Kind) (p : Nat) (pa an : Option Node) (st : St)
    (h : st.panicked = true) : (pStage path m k p pa an st).1.panicked = true := by
  unfold pStage
  split
  · exact finishNode_mono _ _ _ _ _ _ _ h
  · exact finishNode_mono _ _ _ _ _ _ _ (pBlock_mono path m pa st h)

theorem pStage_frame (path m : Str) (k : Kind) (p : Nat) (pa an : Option Node) (ext : List Str)
    (ih : ∀ n, pa = some n → NodeFrame path m ext n) (st : St)
    (h : (pStage path m k p pa an st).1.panicked = false) :
    pStage path m k p pa an (st.extend ext) =
      ((pStage path m k p pa an st).1.extend ext, (pStage path m k p pa an st).2) := by
  unfold pStage at h ⊢
  simp only [St.extend_si] at h ⊢
  by_cases he : (path.drop st.si).isEmpty = true
  · simp only [he, if_true] at h ⊢
    exact finishNode_frame _ _ _ _ _ _ _ ext h
  · simp only [he, if_false, Bool.false_eq_true] at h ⊢
    have hb : (paramBlock (findParam path m pa st) st).1.panicked = false := by
      cases hc : (paramBlock (findParam path m pa st) st).1.panicked with
      | false => rfl
      | true =>
        rw [finishNode_mono _ _ _ _ _ _ _ hc] at h
        cases h
    rw [pBlock_frame path m pa ext ih st hb]
    exact finishNode_frame _ _ _ _ _ _ _ ext h

/-- everything after the Static block -/
def afterS (path m : Str) (k : Kind) (p : Nat) (pa an : Option Node) : St × Next → St × Res
  | (st, .param) => pStage path m k p pa an st
  | (st, nx) => finishNode path m k p an st nx

theorem afterS_mono (path m : Str) (k : Kind) (p : Nat) (pa an : Option Node) (st : St) (nx : Next)
    (h : st.panicked = true) : (afterS path m k p pa an (st, nx)).1.panicked = true := by
  cases nx with
  | param => exact pStage_mono _ _ _ _ _ _ _ h
  | hit rm => exact finishNode_mono _ _ _ _ _ _ _ h
  | any => exact finishNode_mono _ _ _ _ _ _ _ h
  | leave => exact finishNode_mono _ _ _ _ _ _ _ h

theorem afterS_frame (path m : Str) (k : Kind) (p : Nat) (pa an : Option Node) (ext : List Str)
    (ih : ∀ n, pa = some n → NodeFrame path m ext n) (st : St) (nx : Next)
    (h : (afterS path m k p pa an (st, nx)).1.panicked = false) :
    afterS path m k p pa an (st.extend ext, nx) =
      ((afterS path m k p pa an (st, nx)).1.extend ext, (afterS path m k p pa an (st, nx)).2) := by
  cases nx with
  | param => exact pStage_frame path m k p pa an ext ih st h
  | hit rm => exact finishNode_frame _ _ _ _ _ _ _ ext h
  | any => exact finishNode_frame _ _ _ _ _ _ _ ext h
  | leave => exact finishNode_frame _ _ _ _ _ _ _ ext h

/-! ### one node -/

theorem bodyOf_eq (path m : Str) (k : Kind) (pre : Str) (ms : List (Str × RouteMethod))
    (nf : Option RouteMethod) (op : Str) (sts : List Node) (pa an : Option Node) (st : St) :
    bodyOf path m k pre ms nf op sts pa an st =
      match nodeEnd m ms nf op (path.drop st.si).isEmpty st with
      | (st, some rm) => (st, .hit rm)
      | (st, none) => afterS path m k pre.length pa an (sBlock path m sts st) := by
  rfl

theorem body_frame (path m : Str) (k : Kind) (pre : Str) (ms : List (Str × RouteMethod))
    (nf : Option RouteMethod) (op : Str) (sts : List Node) (pa an : Option Node) (ext : List Str)
    (ihS : ∀ n ∈ sts, NodeFrame path m ext n) (ihP : ∀ n, pa = some n → NodeFrame path m ext n)
    (st : St) (h : (bodyOf path m k pre ms nf op sts pa an st).1.panicked = false) :
    bodyOf path m k pre ms nf op sts pa an (st.extend ext) =
      ((bodyOf path m k pre ms nf op sts pa an st).1.extend ext,
       (bodyOf path m k pre ms nf op sts pa an st).2) := by
  rw [bodyOf_eq] at h ⊢
  rw [bodyOf_eq]
  simp only [St.extend_si, nodeEnd_frame] at h ⊢
  generalize nodeEnd m ms nf op (path.drop st.si).isEmpty st = x at h ⊢
  obtain ⟨st1, e⟩ := x
  cases e with
  | some rm => rfl
  | none =>
    simp only at h ⊢
    have hs : (sBlock path m sts st1).1.panicked = false := by
      cases hc : (sBlock path m sts st1).1.panicked with
      | false => rfl
      | true =>
        exfalso
        generalize sBlock path m sts st1 = y at hc h
        obtain ⟨st2, nx⟩ := y
        rw [afterS_mono _ _ _ _ _ _ _ _ hc] at h
        cases h
    rw [sBlock_frame path m sts ext ihS st1 hs]
    generalize sBlock path m sts st1 = y at hs h ⊢
    obtain ⟨st2, nx⟩ := y
    exact afterS_frame path m k pre.length pa an ext ihP st2 nx h

theorem node_frame_step (path m : Str) (ext : List Str) (k : Kind) (pre : Str)
    (ms : List (Str × RouteMethod)) (nf : Option RouteMethod) (op : Str) (pc : Nat) (sts : List Node)
    (pa an : Option Node)
    (ihS : ∀ n ∈ sts, NodeFrame path m ext n) (ihP : ∀ n, pa = some n → NodeFrame path m ext n) :
    NodeFrame path m ext (.mk k pre ms nf op pc sts pa an) := by
  intro st h
  rw [findNode_unfold] at h ⊢
  rw [findNode_unfold]
  simp only [St.extend_panicked, St.extend_si] at h ⊢
  by_cases hp : st.panicked = true
  · simp [hp] at h
  · simp only [hp, if_false, Bool.false_eq_true] at h ⊢
    by_cases hl : (if k = .static then lcp (path.drop st.si) pre else 0) ≠ (if k = .static then pre.length else 0)
    · simp only [if_pos hl]
    · simp only [if_neg hl] at h ⊢
      exact body_frame path m k pre ms nf op sts pa an ext ihS ihP _ h

/-! ### the structural induction -/

mutual
theorem node_frame (path m : Str) (ext : List Str) : (n : Node) → NodeFrame path m ext n
  | .mk k pre ms nf op pc sts pa an =>
    node_frame_step path m ext k pre ms nf op pc sts pa an
      (list_frame path m ext sts) (opt_frame path m ext pa)
theorem list_frame (path m : Str) (ext : List Str) : (l : List Node) → ∀ n ∈ l, NodeFrame path m ext n
  | [] => by intro n hn; simp at hn
  | c :: cs => by
    intro n hn
    rcases List.mem_cons.mp hn with heq | hm
    · rw [heq]; exact node_frame path m ext c
    · exact list_frame path m ext cs n hm
theorem opt_frame (path m : Str) (ext : List Str) : (o : Option Node) → ∀ n, o = some n → NodeFrame path m ext n
  | none => by intro n he; simp at he
  | some c => by
    intro n he
    simp only [Option.some.injEq] at he
    rw [← he]
    exact node_frame path m ext c
end

/-- **Frame lemma** — a run of `findNode` that does not panic never touches spare slots at the end of
    the value slice: on `pv ++ ext` it does exactly the same and leaves `ext` in place.  No
    hypothesis on the tree. -/
theorem findNode_frame (path m : Str) (n : Node) (st : St) (ext : List Str)
    (h : (findNode path m n st).1.panicked = false) :
    findNode path m n (st.extend ext) = ((findNode path m n st).1.extend ext, (findNode path m n st).2) :=
  node_frame path m ext n st h

/-- the frame lemma for the visit of the static children -/
theorem findStatic_frame (path m : Str) (c : Char) (sts : List Node) (st : St) (ext : List Str)
    (h : ∀ r, findStatic path m c sts st = some r → r.2.1.panicked = false) :
    findStatic path m c sts (st.extend ext) =
      (findStatic path m c sts st).map fun r => (r.1, r.2.1.extend ext, r.2.2) := by
  simp only [findStatic_eq_pick] at h ⊢
  cases hp : pick c sts with
  | none => rfl
  | some n =>
    simp only [hp, Option.map_some] at h ⊢
    rw [findNode_frame path m n st ext (h _ rfl)]

/-- the frame lemma for the visit of the param child -/
theorem findParam_frame (path m : Str) (pa : Option Node) (st : St) (ext : List Str)
    (h : ∀ r, findParam path m pa st = some r → r.1.panicked = false) :
    findParam path m pa (st.extend ext) =
      (findParam path m pa st).map fun r => (r.1.extend ext, r.2) := by
  cases pa with
  | none => rw [findParam, findParam]; rfl
  | some c =>
    rw [findParam] at h
    rw [findParam, findParam]
    have h1 := h _ rfl
    have he : (enterParam path (isLeafNode c) st).panicked = false := by
      cases hc : (enterParam path (isLeafNode c) st).panicked with
      | false => rfl
      | true =>
        rw [findNode_panicked _ _ _ _ hc] at h1
        simp only at h1
        rw [hc] at h1
        cases h1
    simp only [Option.map_some]
    rw [enterParam_frame _ _ _ ext he, findNode_frame path m c _ ext h1]

/-! ## Corollary A: `find` does not see spare slots -/

/-- a non-panicking `find` gives the same outcome (same record, same values) with any spare slots
    appended to the value slice -/
theorem find_frame (t : Node) (m path : Str) (pv ext : List Str) (h : find t m path pv ≠ .panic) :
    find t m path (pv ++ ext) = find t m path pv := by
  have hx : (findNode path m t ⟨0, 0, pv, none, false⟩).1.panicked = false := by
    cases hc : (findNode path m t ⟨0, 0, pv, none, false⟩).1.panicked with
    | false => rfl
    | true =>
      exfalso
      apply h
      unfold find
      generalize findNode path m t ⟨0, 0, pv, none, false⟩ = x at hc
      obtain ⟨st, r⟩ := x
      simp only at hc
      simp [hc]
  unfold find at h ⊢
  have e : (⟨0, 0, pv ++ ext, none, false⟩ : St) = St.extend ⟨0, 0, pv, none, false⟩ ext := rfl
  rw [e, findNode_frame path m t _ ext hx]
  generalize findNode path m t ⟨0, 0, pv, none, false⟩ = x at hx h ⊢
  obtain ⟨st, r⟩ := x
  simp only at hx
  simp only [St.extend_panicked, St.extend_pv, St.extend_best, hx, Bool.false_eq_true, if_false,
    List.length_append] at h ⊢
  have key : ∀ rm : RouteMethod,
      (if rm.pnames.length > st.pv.length then Outcome.panic
        else .dispatch rm (st.pv.take rm.pnames.length)) ≠ .panic →
      (if rm.pnames.length > st.pv.length + ext.length then Outcome.panic
        else .dispatch rm ((st.pv ++ ext).take rm.pnames.length)) =
      (if rm.pnames.length > st.pv.length then Outcome.panic
        else .dispatch rm (st.pv.take rm.pnames.length)) := by
    intro rm hne
    by_cases hgt : rm.pnames.length > st.pv.length
    · simp [hgt] at hne
    · have hgt' : ¬ rm.pnames.length > st.pv.length + ext.length := by omega
      rw [if_neg hgt, if_neg hgt', List.take_append_of_le_length (by omega)]
  cases r with
  | hit rm => exact key rm h
  | leave =>
    simp only at h ⊢
    cases hb : st.best with
    | none => rfl
    | some b =>
      simp only [hb] at h ⊢
      cases hnf : b.nf with
      | none => rfl
      | some rm =>
        simp only [hnf] at h ⊢
        exact key rm h

theorem replicate_add_blank (n k : Nat) :
    List.replicate (n + k) ([] : Str) = List.replicate n [] ++ List.replicate k [] := by
  simp [List.replicate_append_replicate]

/-- **Corollary A** -/
theorem find_replicate_frame (t : Node) (m path : Str) (n : Nat)
    (h : find t m path (List.replicate n []) ≠ .panic) :
    ∀ k, find t m path (List.replicate (n + k) []) = find t m path (List.replicate n []) := by
  intro k
  rw [replicate_add_blank, find_frame t m path _ _ h]

/-! ## Corollary B: the router model of a checked table is length-irrelevant -/

/-- **Corollary B** -/
theorem tree_length_irrelevant (rs : List Route) (hinv : tableInvariant rs = (true, true)) :
    C05.LengthIrrelevant (C05.routerOf rs) (maxParam rs) := by
  intro m p n hn
  have hnp := find_table_no_panic rs m p (maxParam rs) (Nat.le_refl _) hinv
  have := find_replicate_frame (build rs) m p (maxParam rs) hnp (n - maxParam rs)
  simp only [C05.routerOf, C05.blank, Nat.max_zero]
  rw [← this]
  congr 2
  omega

/-- **C05_isolated on the tree model**: for a table passing the per-table check, a request observes
    the same on any recycled context as on a fresh one -/
theorem C05_isolated_tree (rs : List Route) (hinv : tableInvariant rs = (true, true))
    (dirty : C05.Ctx) (r : C05.Request) :
    (C05.serveWith (C05.routerOf rs) (maxParam rs) (some dirty) r).1 =
      (C05.serveWith (C05.routerOf rs) (maxParam rs) none r).1 :=
  C05.C05_isolated _ _ (tree_length_irrelevant rs hinv) (C05.routerOf_valuesPerName rs) dirty r

/-- the route table in force at every request of a history satisfies `P` -/
def TablesOk (P : List Route → Prop) : List Route → List C05.Step → Prop
  | _, [] => True
  | routes, .register rt :: ss => TablesOk P (routes ++ [rt]) ss
  | routes, .request _ :: ss => P routes ∧ TablesOk P routes ss
  | routes, .borrow _ _ :: ss => TablesOk P routes ss

/-- **C05_history_isolated on the tree model**: for every history of requests (handlers that dirty
    everything, panic or fail) interleaved with registrations, starting from any world (any pool
    content), in which the table in force at each request passes the per-table check: every request
    observes exactly what it would observe alone on a fresh instance with the routes registered so far. -/
theorem C05_history_isolated_tree :
    ∀ (steps : List C05.Step) (w : C05.World),
      TablesOk (fun routes => tableInvariant routes = (true, true)) w.routes steps →
      C05.runSteps w steps = C05.expected w.routes steps := by
  intro steps
  induction steps with
  | nil => intro w _; rfl
  | cons s ss ih =>
    intro w hok
    cases s with
    | register rt =>
      simp only [C05.runSteps, C05.step, C05.expected]
      exact ih _ hok
    | borrow id prog =>
      simp only [C05.runSteps, C05.step, C05.expected]
      exact ih _ hok
    | request r =>
      obtain ⟨hinv, hok'⟩ := hok
      simp only [C05.runSteps, C05.step, C05.expected]
      cases hp : w.pool with
      | nil =>
        simp only
        rw [ih]
        · rfl
        · exact hok'
      | cons c cs =>
        simp only
        rw [ih]
        · simp only [C05.alone]
          rw [C05_isolated_tree w.routes hinv c r]
        · exact hok'

/-- the form asked for originally, with the invariant assumed for EVERY route list.  Note that this
    hypothesis is stronger than needed and not satisfiable (a table with a structural duplicate fails
    the check: `tableInvariant [⟨GET,/a,1⟩, ⟨GET,/a,2⟩] = (true, false)`), so this form is vacuous;
    `C05_history_isolated_tree` above only needs the check for the tables in force at the requests
    of the history and is the statement to use. -/
theorem C05_history_isolated_tree_all (hinv : ∀ routes, tableInvariant routes = (true, true)) :
    ∀ (steps : List C05.Step) (w : C05.World), C05.runSteps w steps = C05.expected w.routes steps :=
  C05.C05_history_isolated (fun routes => tree_length_irrelevant routes (hinv routes))
    C05.routerOf_valuesPerName

end Router.Tree
