import EchoModel.C10
/-!
# C10 — theorems about the client-IP extraction model

All statements hold for an **arbitrary** `parse : Str → Option IP` (the stand-in for
`net.ParseIP`), every configuration (flags and extra ranges), every header content and every
peer.  The classification theorems cover every byte slice a `net.IP` can be: 4-byte
addresses, 16-byte IPv4-mapped addresses, other 16-byte addresses, and slices of any other
length (never trusted by a flag).
-/
namespace C10

/-! ## numeric reading of addresses (the RFC side of the classification theorems) -/

/-- big-endian value of a byte slice -/
def val : List Byte → Nat
  | [] => 0
  | b :: r => b.toNat * 256 ^ r.length + val r

/-- the IPv4 address `a.b.c.d` as a number -/
def ipv4 (a b c d : Nat) : Nat := a * 2 ^ 24 + b * 2 ^ 16 + c * 2 ^ 8 + d

/-- the 16-bit groups `g0:g1::` … as the number of an IPv6 address whose remaining groups are 0 -/
def ipv6hi (g0 : Nat) : Nat := g0 * 2 ^ 112

/-- what an address *is*, independent of its slice representation: `To4`-style reading,
    an IPv4-mapped 16-byte slice is the IPv4 address -/
inductive Addr where
  | v4 (n : Nat)
  | v6 (n : Nat)
  | invalid
deriving DecidableEq, Repr

def addrOf (ip : IP) : Addr :=
  if ip.length = 4 then .v4 (val ip)
  else if ip.length = 16 then
    (if ip.take 12 = v4InV6Prefix then .v4 (val (ip.drop 12)) else .v6 (val ip))
  else .invalid

/-- RFC 1918 (10/8, 172.16/12, 192.168/16) and RFC 4193 (fc00::/7), as first–last address -/
def RFCPrivate : Addr → Prop
  | .v4 n => (ipv4 10 0 0 0 ≤ n ∧ n ≤ ipv4 10 255 255 255) ∨
             (ipv4 172 16 0 0 ≤ n ∧ n ≤ ipv4 172 31 255 255) ∨
             (ipv4 192 168 0 0 ≤ n ∧ n ≤ ipv4 192 168 255 255)
  | .v6 n => ipv6hi 0xfc00 ≤ n ∧ n < ipv6hi 0xfe00
  | .invalid => False

/-- 127/8 and ::1 -/
def RFCLoopback : Addr → Prop
  | .v4 n => ipv4 127 0 0 0 ≤ n ∧ n ≤ ipv4 127 255 255 255
  | .v6 n => n = 1
  | .invalid => False

/-- 169.254/16 and fe80::/10 -/
def RFCLinkLocal : Addr → Prop
  | .v4 n => ipv4 169 254 0 0 ≤ n ∧ n ≤ ipv4 169 254 255 255
  | .v6 n => ipv6hi 0xfe80 ≤ n ∧ n < ipv6hi 0xfec0
  | .invalid => False

/-! ## helper lemmas -/

theorem val_lt (l : List Byte) : val l < 256 ^ l.length := by
  induction l with
  | nil => simp [val]
  | cons b r ih =>
    have hb := b.isLt
    simp only [val, List.length_cons, Nat.pow_succ]
    have : b.toNat * 256 ^ r.length ≤ 255 * 256 ^ r.length := Nat.mul_le_mul_right _ (by omega)
    omega

theorem val_inj : ∀ (l₁ l₂ : List Byte), l₁.length = l₂.length → val l₁ = val l₂ → l₁ = l₂
  | [], [], _, _ => rfl
  | [], _ :: _, h, _ => by simp at h
  | _ :: _, [], h, _ => by simp at h
  | a :: r, b :: s, hl, hv => by
    have hl' : r.length = s.length := by simpa using hl
    simp only [val, hl'] at hv
    have hr := val_lt r
    have hs := val_lt s
    rw [hl'] at hr
    have hp : 0 < 256 ^ s.length := Nat.pow_pos (by omega)
    have h1 : (a.toNat * 256 ^ s.length + val r) / 256 ^ s.length = a.toNat := by
      rw [Nat.add_comm, Nat.add_mul_div_right _ _ hp, Nat.div_eq_of_lt hr]; simp
    have h2 : (b.toNat * 256 ^ s.length + val s) / 256 ^ s.length = b.toNat := by
      rw [Nat.add_comm, Nat.add_mul_div_right _ _ hp, Nat.div_eq_of_lt hs]; simp
    have hab : a.toNat = b.toNat := by rw [← h1, ← h2, hv]
    have hab' : a = b := BitVec.eq_of_toNat_eq hab
    subst hab'
    have : val r = val s := by omega
    rw [val_inj r s hl' this]

theorem cons_of_length {α} {n : Nat} (l : List α) (h : l.length = n + 1) :
    ∃ a r, l = a :: r ∧ r.length = n := by
  cases l with
  | nil => simp at h
  | cons a r => exact ⟨a, r, rfl, by simpa using h⟩

theorem byte_beq (a k : Byte) : ((a == k) = true) ↔ a.toNat = k.toNat := by
  rw [beq_iff_eq]; exact BitVec.toNat_inj.symm

theorem and_f0 : ∀ b : Byte, (((b &&& (0xf0 : Byte)) == (16 : Byte)) = true) ↔ (16 ≤ b.toNat ∧ b.toNat ≤ 31) := by
  decide

theorem and_fe : ∀ b : Byte, (((b &&& (0xfe : Byte)) == (0xfc : Byte)) = true) ↔ (0xfc ≤ b.toNat ∧ b.toNat ≤ 0xfd) := by
  decide

theorem and_c0 : ∀ b : Byte, (((b &&& (0xc0 : Byte)) == (0x80 : Byte)) = true) ↔ (0x80 ≤ b.toNat ∧ b.toNat ≤ 0xbf) := by
  decide

theorem to4_len4 (a b c d : Byte) : to4 [a, b, c, d] = some [a, b, c, d] := by simp [to4]

theorem val4 (a b c d : Byte) : val [a, b, c, d] = ipv4 a.toNat b.toNat c.toNat d.toNat := by
  simp [val, ipv4]; omega

/-! ## classification of IPv4 addresses: all 2^32 -/

/-- **C10_private_v4** — for every IPv4 address: `isPrivateIPRange` ⇔ the address lies in
    10.0.0.0–10.255.255.255, 172.16.0.0–172.31.255.255 or 192.168.0.0–192.168.255.255. -/
theorem C10_private_v4 (a b c d : Byte) :
    isPrivate [a, b, c, d] = true ↔
      (ipv4 10 0 0 0 ≤ val [a, b, c, d] ∧ val [a, b, c, d] ≤ ipv4 10 255 255 255) ∨
      (ipv4 172 16 0 0 ≤ val [a, b, c, d] ∧ val [a, b, c, d] ≤ ipv4 172 31 255 255) ∨
      (ipv4 192 168 0 0 ≤ val [a, b, c, d] ∧ val [a, b, c, d] ≤ ipv4 192 168 255 255) := by
  have ha := a.isLt; have hb := b.isLt; have hc := c.isLt; have hd := d.isLt
  rw [val4]
  simp only [isPrivate, to4_len4, byteAt, List.getD_cons_zero, List.getD_cons_succ,
    Bool.or_eq_true, Bool.and_eq_true, and_f0, ipv4]
  simp only [byte_beq, BitVec.reduceToNat]
  omega

/-- **C10_loopback_v4** — `IsLoopback` ⇔ 127.0.0.0–127.255.255.255 -/
theorem C10_loopback_v4 (a b c d : Byte) :
    isLoopback [a, b, c, d] = true ↔
      (ipv4 127 0 0 0 ≤ val [a, b, c, d] ∧ val [a, b, c, d] ≤ ipv4 127 255 255 255) := by
  have ha := a.isLt; have hb := b.isLt; have hc := c.isLt; have hd := d.isLt
  rw [val4]
  simp only [isLoopback, to4_len4, byteAt, List.getD_cons_zero, ipv4]
  simp only [byte_beq, BitVec.reduceToNat]
  omega

/-- **C10_linklocal_v4** — `IsLinkLocalUnicast` ⇔ 169.254.0.0–169.254.255.255 -/
theorem C10_linklocal_v4 (a b c d : Byte) :
    isLinkLocal [a, b, c, d] = true ↔
      (ipv4 169 254 0 0 ≤ val [a, b, c, d] ∧ val [a, b, c, d] ≤ ipv4 169 254 255 255) := by
  have ha := a.isLt; have hb := b.isLt; have hc := c.isLt; have hd := d.isLt
  rw [val4]
  simp only [isLinkLocal, to4_len4, byteAt, List.getD_cons_zero, List.getD_cons_succ,
    Bool.and_eq_true, ipv4]
  simp only [byte_beq, BitVec.reduceToNat]
  omega

/-! ## 16-byte addresses and the general statements -/

theorem len4 {α} (l : List α) (h : l.length = 4) : ∃ a b c d, l = [a, b, c, d] := by
  obtain ⟨a, r1, rfl, h1⟩ := cons_of_length l h
  obtain ⟨b, r2, rfl, h2⟩ := cons_of_length r1 h1
  obtain ⟨c, r3, rfl, h3⟩ := cons_of_length r2 h2
  obtain ⟨d, r4, rfl, h4⟩ := cons_of_length r3 h3
  cases r4 with
  | nil => exact ⟨a, b, c, d, rfl⟩
  | cons _ _ => simp at h4

theorem to4_mapped (ip : IP) (h : ip.length = 16) (hm : ip.take 12 = v4InV6Prefix) :
    to4 ip = some (ip.drop 12) := by simp [to4, h, hm]

theorem to4_plain16 (ip : IP) (h : ip.length = 16) (hm : ip.take 12 ≠ v4InV6Prefix) :
    to4 ip = none := by simp [to4, h, hm]

theorem to4_other (ip : IP) (h4 : ip.length ≠ 4) (h16 : ip.length ≠ 16) : to4 ip = none := by
  simp [to4, h4, h16]

theorem drop12 (ip : IP) (h : ip.length = 16) : ∃ a b c d, ip.drop 12 = [a, b, c, d] :=
  len4 _ (by simp [h])

/-- **C10_private_v6** — for every 16-byte address that is not IPv4-mapped:
    `isPrivateIPRange` ⇔ the address lies in fc00::/7 (fc00:: … fdff:ffff:…:ffff). -/
theorem C10_private_v6 (ip : IP) (h16 : ip.length = 16) (hm : ip.take 12 ≠ v4InV6Prefix) :
    isPrivate ip = true ↔ (ipv6hi 0xfc00 ≤ val ip ∧ val ip < ipv6hi 0xfe00) := by
  simp only [isPrivate, to4_plain16 ip h16 hm, h16]
  obtain ⟨b0, r, rfl, hr⟩ := cons_of_length ip h16
  have hv := val_lt r
  have hb := b0.isLt
  simp only [hr] at hv
  simp only [byteAt, List.getD_cons_zero, Bool.and_eq_true, and_fe, val, hr, ipv6hi]
  simp only [Nat.reducePow] at hv ⊢
  simp
  omega


/-- **C10_linklocal_v6** — for every 16-byte address that is not IPv4-mapped:
    `IsLinkLocalUnicast` ⇔ the address lies in fe80::/10 (fe80:: … febf:ffff:…:ffff). -/
theorem C10_linklocal_v6 (ip : IP) (h16 : ip.length = 16) (hm : ip.take 12 ≠ v4InV6Prefix) :
    isLinkLocal ip = true ↔ (ipv6hi 0xfe80 ≤ val ip ∧ val ip < ipv6hi 0xfec0) := by
  simp only [isLinkLocal, to4_plain16 ip h16 hm, h16]
  obtain ⟨b0, r, rfl, hr⟩ := cons_of_length ip h16
  obtain ⟨b1, r', rfl, hr'⟩ := cons_of_length r hr
  have hv := val_lt r'
  have hb := b0.isLt
  have hb1 := b1.isLt
  simp only [hr'] at hv
  simp only [byteAt, List.getD_cons_zero, List.getD_cons_succ, Bool.and_eq_true, and_c0, val,
    List.length_cons, hr', ipv6hi]
  simp only [byte_beq, BitVec.reduceToNat, Nat.reducePow, Nat.reduceAdd] at hv ⊢
  simp
  omega

/-- **C10_loopback_v6** — for every 16-byte address that is not IPv4-mapped:
    `IsLoopback` ⇔ the address is ::1. -/
theorem C10_loopback_v6 (ip : IP) (h16 : ip.length = 16) (hm : ip.take 12 ≠ v4InV6Prefix) :
    isLoopback ip = true ↔ val ip = 1 := by
  simp only [isLoopback, to4_plain16 ip h16 hm, beq_iff_eq]
  constructor
  · intro h; subst h; decide
  · intro h
    exact val_inj ip loopback6 (by simp [h16, loopback6]) (by rw [h]; decide)

theorem addrOf_len4 (a b c d : Byte) : addrOf [a, b, c, d] = .v4 (val [a, b, c, d]) := by
  simp [addrOf]

theorem addrOf_mapped (ip : IP) (h16 : ip.length = 16) (hm : ip.take 12 = v4InV6Prefix) :
    addrOf ip = .v4 (val (ip.drop 12)) := by simp [addrOf, h16, hm]

theorem addrOf_plain16 (ip : IP) (h16 : ip.length = 16) (hm : ip.take 12 ≠ v4InV6Prefix) :
    addrOf ip = .v6 (val ip) := by simp [addrOf, h16, hm]

theorem addrOf_other (ip : IP) (h4 : ip.length ≠ 4) (h16 : ip.length ≠ 16) :
    addrOf ip = .invalid := by simp [addrOf, h4, h16]

/-- **C10_private_all** — for EVERY byte slice: `isPrivateIPRange ip` ⇔ the address it denotes
    (IPv4, IPv4-mapped read as IPv4, or IPv6) lies in the RFC 1918 / RFC 4193 ranges. -/
theorem C10_private_all (ip : IP) : isPrivate ip = true ↔ RFCPrivate (addrOf ip) := by
  by_cases h4 : ip.length = 4
  · obtain ⟨a, b, c, d, rfl⟩ := len4 ip h4
    rw [addrOf_len4]; exact C10_private_v4 a b c d
  · by_cases h16 : ip.length = 16
    · by_cases hm : ip.take 12 = v4InV6Prefix
      · obtain ⟨a, b, c, d, hd⟩ := drop12 ip h16
        have e : isPrivate ip = isPrivate [a, b, c, d] := by
          simp only [isPrivate, to4_mapped ip h16 hm, hd, to4_len4]
        rw [addrOf_mapped ip h16 hm, hd, e]; exact C10_private_v4 a b c d
      · rw [addrOf_plain16 ip h16 hm]; exact C10_private_v6 ip h16 hm
    · simp [isPrivate, to4_other ip h4 h16, addrOf_other ip h4 h16, RFCPrivate, h16]

/-- **C10_loopback_all** — for EVERY byte slice: `IsLoopback` ⇔ 127/8 (also IPv4-mapped) or ::1. -/
theorem C10_loopback_all (ip : IP) : isLoopback ip = true ↔ RFCLoopback (addrOf ip) := by
  by_cases h4 : ip.length = 4
  · obtain ⟨a, b, c, d, rfl⟩ := len4 ip h4
    rw [addrOf_len4]; exact C10_loopback_v4 a b c d
  · by_cases h16 : ip.length = 16
    · by_cases hm : ip.take 12 = v4InV6Prefix
      · obtain ⟨a, b, c, d, hd⟩ := drop12 ip h16
        have e : isLoopback ip = isLoopback [a, b, c, d] := by
          simp only [isLoopback, to4_mapped ip h16 hm, hd, to4_len4]
        rw [addrOf_mapped ip h16 hm, hd, e]; exact C10_loopback_v4 a b c d
      · rw [addrOf_plain16 ip h16 hm]; exact C10_loopback_v6 ip h16 hm
    · simp only [isLoopback, to4_other ip h4 h16, addrOf_other ip h4 h16, RFCLoopback, beq_iff_eq,
        iff_false]
      intro h; subst h; simp [loopback6] at h16

/-- **C10_linklocal_all** — for EVERY byte slice: `IsLinkLocalUnicast` ⇔ 169.254/16 (also
    IPv4-mapped) or fe80::/10. -/
theorem C10_linklocal_all (ip : IP) : isLinkLocal ip = true ↔ RFCLinkLocal (addrOf ip) := by
  by_cases h4 : ip.length = 4
  · obtain ⟨a, b, c, d, rfl⟩ := len4 ip h4
    rw [addrOf_len4]; exact C10_linklocal_v4 a b c d
  · by_cases h16 : ip.length = 16
    · by_cases hm : ip.take 12 = v4InV6Prefix
      · obtain ⟨a, b, c, d, hd⟩ := drop12 ip h16
        have e : isLinkLocal ip = isLinkLocal [a, b, c, d] := by
          simp only [isLinkLocal, to4_mapped ip h16 hm, hd, to4_len4]
        rw [addrOf_mapped ip h16 hm, hd, e]; exact C10_linklocal_v4 a b c d
      · rw [addrOf_plain16 ip h16 hm]; exact C10_linklocal_v6 ip h16 hm
    · simp [isLinkLocal, to4_other ip h4 h16, addrOf_other ip h4 h16, RFCLinkLocal, h16]

/-- **C10_trust_ranges** — the trust decision for every address and every configuration:
    a flag admits exactly its RFC ranges, an extra range admits what its `Contains` admits. -/
theorem C10_trust_ranges (cfg : Cfg) (ip : IP) :
    trust cfg ip = true ↔
      (cfg.loopback = true ∧ RFCLoopback (addrOf ip)) ∨
      (cfg.linkLocal = true ∧ RFCLinkLocal (addrOf ip)) ∨
      (cfg.privateNet = true ∧ RFCPrivate (addrOf ip)) ∨
      (∃ n ∈ cfg.extra, contains n ip = true) := by
  simp only [trust, Bool.or_eq_true, Bool.and_eq_true, C10_loopback_all, C10_linklocal_all,
    C10_private_all, List.any_eq_true]
  constructor
  · rintro (((h | h) | h) | h)
    · exact .inl h
    · exact .inr (.inl h)
    · exact .inr (.inr (.inl h))
    · exact .inr (.inr (.inr h))
  · rintro (h | h | h | h)
    · exact .inl (.inl (.inl h))
    · exact .inl (.inl (.inr h))
    · exact .inl (.inr h)
    · exact .inr h

/-- the nil IP (an unparsable peer) is never trusted by a flag -/
theorem C10_trust_nil (cfg : Cfg) (h : cfg.extra = []) : trust cfg [] = false := by
  simp [trust, h, isLoopback, isLinkLocal, isPrivate, to4, loopback6]


variable (cfg : Cfg) (parse : Str → Option IP)

/-! ## the extractors -/

/-- **C10_direct_ignores_headers** — the direct extractor is a function of `RemoteAddr` only:
    no header, configuration or parser behaviour can influence it. -/
theorem C10_direct_ignores_headers (cfg cfg' : Cfg) (parse parse' : Str → Option IP) (req req' : Req)
    (h : req.remoteAddr = req'.remoteAddr) :
    realIPCtx .direct cfg parse req = realIPCtx .direct cfg' parse' req' ∧
    realIPCtx .direct cfg parse req = peerOf req.remoteAddr := by
  simp [realIPCtx, extractDirect, h]

theorem realIPOf_ne (d hdr : Str) (h : realIPOf cfg parse d hdr ≠ d) :
    trust cfg (parseD parse d) = true ∧ (∃ ip, parse (stripBrackets hdr) = some ip) ∧
    realIPOf cfg parse d hdr = stripBrackets hdr := by
  unfold realIPOf at *
  by_cases h1 : hdr = []
  · simp [h1] at h
  · by_cases h2 : trust cfg (parseD parse d) = true
    · cases hp : parse (stripBrackets hdr) with
      | none => simp [h1, h2, hp] at h
      | some ip => simp [h1, h2, hp]
    · simp [h1, h2] at h

/-- **C10_realip** — whenever the X-Real-IP extractor answers something other than the peer
    address, the peer is trusted, the (bracket-stripped) header parses as an IP and the answer
    is exactly that header text. -/
theorem C10_realip (req : Req)
    (h : extractRealIP cfg parse req ≠ peerOf req.remoteAddr) :
    trust cfg (parseD parse (peerOf req.remoteAddr)) = true ∧
    (∃ ip, parse (stripBrackets (req.realIP.headD [])) = some ip) ∧
    extractRealIP cfg parse req = stripBrackets (req.realIP.headD []) :=
  realIPOf_ne cfg parse _ _ h

/-- an untrusted (or unparsable) peer cannot steer the X-Real-IP extractor with any header -/
theorem C10_realip_untrusted_peer (req req' : Req) (hra : req.remoteAddr = req'.remoteAddr)
    (hu : trust cfg (parseD parse (peerOf req.remoteAddr)) = false) :
    extractRealIP cfg parse req = extractRealIP cfg parse req' ∧
    extractRealIP cfg parse req = peerOf req.remoteAddr := by
  have hu' : trust cfg (parseD parse (peerOf req'.remoteAddr)) = false := hra ▸ hu
  simp [extractRealIP, realIPOf, hu', hra]

/-- a hop that parses and is trusted -/
def TrustedTok (t : Str) : Prop := ∃ ip, parse (norm t) = some ip ∧ trust cfg ip = true

theorem scan_trusted_append (d : Str) (ts rest : List Str)
    (h : ∀ t ∈ ts, TrustedTok cfg parse t) :
    scan cfg parse d (ts ++ rest) = scan cfg parse d rest := by
  induction ts with
  | nil => rfl
  | cons t ts ih =>
    obtain ⟨ip, hp, ht⟩ := h t (by simp)
    simp only [List.cons_append, scan, hp, ht, if_true]
    exact ih (fun t' ht' => h t' (by simp [ht']))

theorem scan_none (d : Str) (ts : List Str) (h : scan cfg parse d ts = none) :
    ∀ t ∈ ts, TrustedTok cfg parse t := by
  induction ts with
  | nil => intro t ht; simp at ht
  | cons t ts ih =>
    simp only [scan] at h
    split at h
    · simp at h
    · rename_i ip hp
      split at h
      · rename_i ht
        intro t' ht'
        rcases List.mem_cons.mp ht' with rfl | hm
        · exact ⟨ip, hp, ht⟩
        · exact ih h t' hm
      · simp at h

theorem xffList_split (d : Str) (pre suf : List Str) (e : Str)
    (hsuf : ∀ t ∈ suf, TrustedTok cfg parse t) :
    scan cfg parse d (pre ++ e :: suf).reverse = scan cfg parse d (e :: pre.reverse) := by
  have : (pre ++ e :: suf).reverse = suf.reverse ++ (e :: pre.reverse) := by simp
  rw [this]
  exact scan_trusted_append cfg parse d _ _ (fun t ht => hsuf t (by simpa using ht))

/-- **C10_xff_unparsable** — if every hop right of `e` is trusted and `e` does not parse,
    the answer is the peer address, whatever stands left of `e`. -/
theorem C10_xff_unparsable (d : Str) (pre suf : List Str) (e : Str)
    (hsuf : ∀ t ∈ suf, TrustedTok cfg parse t) (he : parse (norm e) = none) :
    xffList cfg parse d (pre ++ e :: suf) = d := by
  unfold xffList
  rw [xffList_split cfg parse d pre suf e hsuf]
  simp [scan, he]

/-- **C10_xff_rightmost_untrusted** — if every hop right of `e` is trusted and `e` parses to
    an address outside the trusted ranges, the answer is that address (in `IP.String` form),
    whatever stands left of `e`. -/
theorem C10_xff_rightmost_untrusted (d : Str) (pre suf : List Str) (e : Str) (ip : IP)
    (hsuf : ∀ t ∈ suf, TrustedTok cfg parse t) (he : parse (norm e) = some ip)
    (hu : trust cfg ip = false) :
    xffList cfg parse d (pre ++ e :: suf) = ipString ip := by
  unfold xffList
  rw [xffList_split cfg parse d pre suf e hsuf]
  simp [scan, he, hu]

/-- `e` is the decisive hop: it does not parse, or it parses to an untrusted address -/
def Decisive (e : Str) : Prop :=
  parse (norm e) = none ∨ ∃ ip, parse (norm e) = some ip ∧ trust cfg ip = false

/-- **C10_xff_suffix** — entries left of the decisive hop never matter: for all prefixes
    `pre`, `pre'` (any number of entries with any content) the extractor gives the same answer
    on `pre ++ [e] ++ suf` and `pre' ++ [e] ++ suf` when all of `suf` is trusted and `e` is
    untrusted or unparsable.  (The last element of the list is the peer address.) -/
theorem C10_xff_suffix (d : Str) (pre pre' suf : List Str) (e : Str)
    (hsuf : ∀ t ∈ suf, TrustedTok cfg parse t) (he : Decisive cfg parse e) :
    xffList cfg parse d (pre ++ e :: suf) = xffList cfg parse d (pre' ++ e :: suf) := by
  rcases he with he | ⟨ip, he, hu⟩
  · rw [C10_xff_unparsable cfg parse d pre suf e hsuf he,
      C10_xff_unparsable cfg parse d pre' suf e hsuf he]
  · rw [C10_xff_rightmost_untrusted cfg parse d pre suf e ip hsuf he hu,
      C10_xff_rightmost_untrusted cfg parse d pre' suf e ip hsuf he hu]

/-- **C10_xff_suffix_requests** — the same at the level of requests: two requests from the
    same peer whose X-Forwarded-For headers (any number of lines) agree from the decisive hop
    to the right get the same answer. -/
theorem C10_xff_suffix_requests (req req' : Req) (pre pre' suf : List Str) (e : Str)
    (hra : req.remoteAddr = req'.remoteAddr) (hne : req.xff ≠ []) (hne' : req'.xff ≠ [])
    (h : entries req.xff (peerOf req.remoteAddr) = pre ++ e :: suf)
    (h' : entries req'.xff (peerOf req'.remoteAddr) = pre' ++ e :: suf)
    (hsuf : ∀ t ∈ suf, TrustedTok cfg parse t) (he : Decisive cfg parse e) :
    extractXFF cfg parse req = extractXFF cfg parse req' := by
  simp only [extractXFF, xffOf, hne, hne', if_false, h, h']
  rw [← hra]
  exact C10_xff_suffix cfg parse _ pre pre' suf e hsuf he

/-- **C10_xff_untrusted_peer** — the peer counts as the right-most hop: when the peer itself
    is untrusted or unparsable, no X-Forwarded-For content changes the answer; it is the peer
    address (literally, or in `IP.String` form when a header is present). -/
theorem C10_xff_untrusted_peer (req : Req) (he : Decisive cfg parse (peerOf req.remoteAddr)) :
    extractXFF cfg parse req = peerOf req.remoteAddr ∨
    ∃ ip, parse (norm (peerOf req.remoteAddr)) = some ip ∧ extractXFF cfg parse req = ipString ip := by
  simp only [extractXFF, xffOf]
  split
  · exact .inl rfl
  · simp only [entries]
    rcases he with he | ⟨ip, he, hu⟩
    · left
      have := C10_xff_unparsable cfg parse (peerOf req.remoteAddr)
        (splitOnChar ',' (joinWith ',' req.xff)) [] (peerOf req.remoteAddr) (by simp) he
      simpa using this
    · right
      refine ⟨ip, he, ?_⟩
      have := C10_xff_rightmost_untrusted cfg parse (peerOf req.remoteAddr)
        (splitOnChar ',' (joinWith ',' req.xff)) [] (peerOf req.remoteAddr) ip (by simp) he hu
      simpa using this

/-- **C10_xff_all_trusted** — documented best effort: when every hop including the peer is
    trusted the answer is the left-most entry (normalised). -/
theorem C10_xff_all_trusted (d : Str) (ips : List Str)
    (h : ∀ t ∈ ips, TrustedTok cfg parse t) :
    xffList cfg parse d ips = trimSpace (norm (ips.headD [])) := by
  have : scan cfg parse d ips.reverse = none := by
    have := scan_trusted_append cfg parse d ips.reverse [] (fun t ht => h t (by simpa using ht))
    simpa [scan] using this
  simp [xffList, this]

/-! ## the result is a valid IP literal whenever the peer address is -/

/-- contract of `net.ParseIP` / `IP.String` used below (checked on every token by the harness):
    the canonical text of a parsed address parses, and a parsable text has no surrounding
    white space -/
structure ParseContract (parse : Str → Option IP) : Prop where
  string_parses : ∀ s ip, parse s = some ip → (parse (ipString ip)).isSome = true
  no_space : ∀ s, (parse s).isSome = true → trimSpace s = s

theorem xffList_valid (hc : ParseContract parse) (d : Str) (ips : List Str) (hne : ips ≠ [])
    (hd : (parse d).isSome = true) : (parse (xffList cfg parse d ips)).isSome = true := by
  unfold xffList
  split
  · rename_i r hr
    -- the scan stopped: at an unparsable hop (peer) or at an untrusted hop (its canonical text)
    have : ∀ ts, scan cfg parse d ts = some r → (parse r).isSome = true := by
      intro ts
      induction ts with
      | nil => simp [scan]
      | cons t ts ih =>
        simp only [scan]
        split
        · intro h; cases h; exact hd
        · rename_i ip hp
          split
          · exact ih
          · intro h; cases h; exact hc.string_parses _ _ hp
    exact this _ hr
  · rename_i hr
    have hall := scan_none cfg parse d _ hr
    cases ips with
    | nil => exact absurd rfl hne
    | cons t ts =>
      obtain ⟨ip, hp, _⟩ := hall t (by simp)
      have hs : (parse (norm t)).isSome = true := by simp [hp]
      simp only [List.headD_cons]
      rw [hc.no_space _ hs]; exact hs

/-- **C10_valid_literal** — for every extractor, configuration and request: if the peer
    address is a valid IP literal, so is the reported client address. -/
theorem C10_valid_literal (hc : ParseContract parse) (e : Ext) (req : Req)
    (hd : (parse (peerOf req.remoteAddr)).isSome = true) :
    (parse (realIPCtx e cfg parse req)).isSome = true := by
  cases e with
  | direct => exact hd
  | realIP =>
    simp only [realIPCtx, extractRealIP, realIPOf]
    split
    · exact hd
    · split
      · split
        · rename_i ip hp; rw [hp]; rfl
        · exact hd
      · exact hd
  | xff =>
    simp only [realIPCtx, extractXFF, xffOf]
    split
    · exact hd
    · exact xffList_valid cfg parse hc _ _ (by simp [entries]) hd


/-! ## non-vacuity: concrete instances meet the hypotheses -/

section Examples

def b4 (a b c d : Nat) : IP := [0, 0, 0, 0, 0, 0, 0, 0, 0, 0, 0xff, 0xff, BitVec.ofNat 8 a, BitVec.ofNat 8 b, BitVec.ofNat 8 c, BitVec.ofNat 8 d]

/-- a finite stand-in for `net.ParseIP` -/
def exParse (s : Str) : Option IP :=
  if s = "10.0.0.1".toList then some (b4 10 0 0 1)
  else if s = "10.0.0.2".toList then some (b4 10 0 0 2)
  else if s = "8.8.8.8".toList then some (b4 8 8 8 8)
  else if s = "::1".toList then some loopback6
  else if s = "172.32.0.1".toList then some (b4 172 32 0 1)
  else none

def exCfg : Cfg := ⟨true, true, true, []⟩

-- classification: both sides of the 172.16/12 borders, the other ranges, mapped and plain IPv6
example : isPrivate [172, 15, 255, 255] = false ∧ isPrivate [172, 16, 0, 0] = true ∧
    isPrivate [172, 31, 255, 255] = true ∧ isPrivate [172, 32, 0, 0] = false ∧
    isPrivate (b4 192 168 1 1) = true ∧ isPrivate (b4 192 169 1 1) = false ∧
    isPrivate [0xfd, 0, 0, 0, 0, 0, 0, 0, 0, 0, 0, 0, 0, 0, 0, 1] = true ∧
    isPrivate [0xfe, 0, 0, 0, 0, 0, 0, 0, 0, 0, 0, 0, 0, 0, 0, 1] = false ∧
    isLoopback (b4 127 9 9 9) = true ∧ isLoopback loopback6 = true ∧
    isLinkLocal [0xfe, 0xbf, 0, 0, 0, 0, 0, 0, 0, 0, 0, 0, 0, 0, 0, 1] = true ∧
    isLinkLocal [0xfe, 0xc0, 0, 0, 0, 0, 0, 0, 0, 0, 0, 0, 0, 0, 0, 1] = false := by decide

example : RFCPrivate (addrOf (b4 172 20 1 1)) := by
  rw [← C10_private_all]; decide

-- C10_realip: a trusted peer with a valid header is a case where the result differs from the peer
example : extractRealIP exCfg exParse ⟨"10.0.0.1:80".toList, ["[8.8.8.8]".toList], []⟩ = "8.8.8.8".toList ∧
    extractRealIP exCfg exParse ⟨"10.0.0.1:80".toList, ["[8.8.8.8]".toList], []⟩ ≠ peerOf "10.0.0.1:80".toList := by
  decide

-- an untrusted peer: the same header is ignored
example : extractRealIP exCfg exParse ⟨"8.8.8.8:80".toList, ["10.0.0.2".toList], []⟩ = "8.8.8.8".toList := by decide

-- C10_xff_suffix: hypotheses are satisfiable and the result is the decisive hop
example :
    Decisive exCfg exParse " 8.8.8.8".toList ∧
    (∀ t ∈ ["[10.0.0.2]".toList, "10.0.0.1".toList], TrustedTok exCfg exParse t) ∧
    xffList exCfg exParse "10.0.0.1".toList (["10.0.0.1".toList] ++ " 8.8.8.8".toList :: ["[10.0.0.2]".toList, "10.0.0.1".toList])
      = "8.8.8.8".toList ∧
    xffList exCfg exParse "10.0.0.1".toList (["evil".toList, "::1".toList] ++ " 8.8.8.8".toList :: ["[10.0.0.2]".toList, "10.0.0.1".toList])
      = "8.8.8.8".toList := by
  refine ⟨.inr ⟨b4 8 8 8 8, by decide, by decide⟩, ?_, by decide, by decide⟩
  intro t ht
  simp only [List.mem_cons, List.not_mem_nil, or_false] at ht
  rcases ht with rfl | rfl
  · exact ⟨b4 10 0 0 2, by decide, by decide⟩
  · exact ⟨b4 10 0 0 1, by decide, by decide⟩

-- an unparsable entry met during the scan falls back to the peer
example : extractXFF exCfg exParse ⟨"10.0.0.1:80".toList, [], ["8.8.8.8, bogus".toList, "10.0.0.2".toList]⟩
    = "10.0.0.1".toList := by decide

-- every hop trusted: left-most entry
example : extractXFF exCfg exParse ⟨"[::1]:80".toList, [], [" 10.0.0.2 , 10.0.0.1".toList]⟩ = "10.0.0.2".toList := by decide

-- with private-network trust switched off the nearest private hop is the answer
example : extractXFF ⟨true, true, false, []⟩ exParse ⟨"[::1]:80".toList, [], [" 8.8.8.8 , 10.0.0.1".toList]⟩
    = "10.0.0.1".toList := by decide

-- the parse contract of C10_valid_literal is satisfiable
example : ParseContract exParse := by
  constructor
  · intro s ip h
    unfold exParse at h
    repeat' split at h
    all_goals first | (cases h; decide) | cases h
  · intro s h
    unfold exParse at h
    repeat' split at h
    all_goals first | (subst_vars; decide) | cases h

end Examples

end C10
