import EchoModel.C12
/-!
# C12 — theorems about the CSRF model

All statements quantify over every configuration (token length, parsed lookup list, cookie
name) and every request (method string, cookies, headers, query, body, random stream).
-/
namespace C12

/-! ## randomString -/

def isLetter (ch : Nat) : Bool := (65 ≤ ch && ch ≤ 90) || (97 ≤ ch && ch ≤ 122)

/-- the accepted bytes of a stream, in order -/
def acc (l : List Nat) : List Nat := l.filter accepted

theorem acc_append (a b : List Nat) : acc (a ++ b) = acc a ++ acc b := by simp [acc]

theorem scanChunk_spec (l : List Nat) : ∀ need : Nat,
    (scanChunk need l).1 = ((acc l).take need).map letterOf ∧
    (scanChunk need l).2 = need - ((acc l).take need).length := by
  induction l with
  | nil => intro need; cases need <;> simp [scanChunk, acc]
  | cons rb r ih =>
    intro need
    cases need with
    | zero => simp [scanChunk]
    | succ n =>
      simp only [scanChunk]
      by_cases ha : accepted rb = true
      · simp only [ha, ite_true]
        by_cases hn : n = 0
        · subst hn; simp [acc, ha]
        · simp only [hn, ite_false]
          have := ih n
          simp only [acc, List.filter_cons, ha, ite_true, List.take_succ_cons, List.map_cons,
            List.length_cons] at this ⊢
          constructor
          · rw [this.1]
          · rw [this.2]; omega
      · have := ih (n + 1)
        simp only [ha, acc, List.filter_cons] at this ⊢
        simpa using this

theorem fillLoop_spec (chunk : Nat) : ∀ (fuel need : Nat) (stream : List Nat) (s : List Nat),
    fillLoop chunk fuel need stream = some s →
      s = ((acc stream).take need).map letterOf ∧ s.length = need := by
  intro fuel
  induction fuel with
  | zero => intro need stream s h; simp [fillLoop] at h
  | succ fuel ih =>
    intro need stream s h
    simp only [fillLoop] at h
    split at h
    · simp at h
    · have hsc := scanChunk_spec (stream.take chunk) need
      have hsplit : acc stream = acc (stream.take chunk) ++ acc (stream.drop chunk) := by
        rw [← acc_append, List.take_append_drop]
      obtain ⟨hout, hleft⟩ := hsc
      rw [hout, hleft] at h
      generalize acc (stream.take chunk) = A at h hsplit
      generalize hB : acc (stream.drop chunk) = B at hsplit
      simp only [List.length_take] at h
      split at h
      · next h0 =>
        simp only [Option.some.injEq] at h
        subst h
        have hlen : need ≤ A.length := by omega
        rw [hsplit, List.take_append_of_le_length hlen]
        simp [List.length_take]; omega
      · next h0 =>
        split at h
        · next rest hrest =>
          simp only [Option.some.injEq] at h
          subst h
          obtain ⟨hr1, hr2⟩ := ih _ (stream.drop chunk) rest hrest
          have hlen : A.length < need := by omega
          have hmin : min need A.length = A.length := by omega
          have htake : A.take need = A := List.take_of_length_le (by omega)
          rw [hmin] at hr1 hr2
          rw [hsplit, List.take_append, htake, List.map_append, hr1, hB]
          refine ⟨rfl, ?_⟩
          simp only [List.length_append, List.length_map]
          rw [hB] at hr1
          rw [hr1] at hr2
          simp only [List.length_map] at hr2
          omega
        · simp at h

theorem charset_getD_mem : ∀ j, j < 52 → charset.getD j 0 ∈ charset := by decide

theorem letterOf_mem (rb : Nat) : letterOf rb ∈ charset :=
  charset_getD_mem (rb % 52) (Nat.mod_lt _ (by decide))

theorem charset_letters : ∀ ch ∈ charset, isLetter ch = true := by decide

/-- **C12_random** — when `randomString n` returns, the token has exactly `n` characters, all
    ASCII letters, and it is the image under `b ↦ charset[b % 52]` of the first `n`
    *accepted* bytes (`≤ 207`) of the random stream, whatever the buffering: it is a function
    of the random stream alone (not of the request). -/
theorem C12_random (n : Nat) (stream : List Nat) (s : Str) (h : randomString n stream = some s) :
    s.length = n ∧ (∀ ch ∈ s, isLetter ch = true) ∧
    s = ((stream.filter accepted).take n).map letterOf := by
  obtain ⟨h1, h2⟩ := fillLoop_spec _ _ _ _ _ h
  refine ⟨h2, ?_, h1⟩
  intro ch hch
  rw [h1] at hch
  simp only [List.mem_map] at hch
  obtain ⟨b, _, rfl⟩ := hch
  exact charset_letters _ (letterOf_mem b)

/-- **C12_random_uniform** — the rejection rule removes exactly the bias: a byte is accepted
    iff it is below `208 = 4 * 52`, every one of the 52 letters has exactly 4 accepted bytes
    mapped to it, and the 52 letters are distinct.  (So uniformly distributed bytes give
    uniformly distributed letters; the probabilistic conclusion itself is not formalised.) -/
theorem C12_random_uniform :
    (∀ b, b < 256 → (accepted b = true ↔ b < 208)) ∧
    (∀ j, j < 52 → ((List.range 256).filter (fun b => accepted b && (letterOf b == charset.getD j 0))).length = 4) ∧
    charset.Nodup ∧ charset.length = 52 := by
  refine ⟨?_, ?_, ?_, ?_⟩
  · intro b _
    have : maxByte = 207 := by decide
    simp [accepted, this]; omega
  · decide
  · decide
  · decide

/-- the source can run dry only if it does not hold `n` acceptable bytes in whole buffers;
    concrete non-vacuity: a stream of 5 zero bytes yields "AAAA" for n = 4 -/
example : randomString 4 [0, 0, 0, 0, 0] = some (lit "AAAA") := by decide
example : randomString 4 [255, 51, 52, 207, 208, 0, 0, 0, 0, 25] = some (lit "zAzA") := by decide
example : randomString 4 [0, 0, 0, 0] = none := by decide   -- buffer is 5 bytes: short read

/-! ## the validation loop -/

theorem anyMatch_iff (token : Str) (toks : List Str) : anyMatch token toks = true ↔ token ∈ toks := by
  induction toks with
  | nil => simp [anyMatch]
  | cons t ts ih =>
    simp only [anyMatch, List.mem_cons]
    by_cases h : token = t
    · simp [h]
    · simp [h, ih]

/-- some extractor returns a token equal to `token` -/
def hasMatch (token : Str) (r : Req) (es : List Extractor) : Bool :=
  es.any (fun e => match extract r e with | some toks => anyMatch token toks | none => false)

theorem hasMatch_cons (token : Str) (r : Req) (e : Extractor) (es : List Extractor) :
    hasMatch token r (e :: es) =
      ((match extract r e with | some toks => anyMatch token toks | none => false) ||
        hasMatch token r es) := by
  simp [hasMatch]

/-- closed form of the `outer:` loop -/
theorem validate_eq (token : Str) (r : Req) (es : List Extractor) : ∀ st : Loop,
    validate token r es st =
      if hasMatch token r es then { matched := true, lastExtractorErr := false, lastTokenErr := false }
      else { matched := st.matched
             lastExtractorErr := st.lastExtractorErr || es.any (fun e => (extract r e).isNone)
             lastTokenErr := st.lastTokenErr || es.any (fun e => (extract r e).isSome) } := by
  induction es with
  | nil => intro st; simp [validate, hasMatch]
  | cons e es ih =>
    intro st
    rw [hasMatch_cons]
    simp only [validate, List.any_cons]
    split
    · next hx =>
      simp only [hx, Bool.false_or, Option.isNone_none, Option.isSome_none]
      rw [ih]
      cases hasMatch token r es <;> simp
    · next toks hx =>
      simp only [hx, Option.isNone_some, Option.isSome_some, Bool.false_or]
      by_cases hm : anyMatch token toks = true
      · simp [hm]
      · simp only [hm, Bool.false_or]
        rw [ih]
        cases hasMatch token r es <;> simp

theorem hasMatch_iff (token : Str) (r : Req) (es : List Extractor) :
    hasMatch token r es = true ↔ ∃ e ∈ es, ∃ toks, extract r e = some toks ∧ token ∈ toks := by
  simp only [hasMatch, List.any_eq_true]
  constructor
  · rintro ⟨e, he, h⟩
    cases hx : extract r e with
    | none => simp [hx] at h
    | some toks =>
      simp only [hx] at h
      exact ⟨e, he, toks, hx, (anyMatch_iff _ _).mp h⟩
  · rintro ⟨e, he, toks, hx, hm⟩
    exact ⟨e, he, by simp [hx, (anyMatch_iff _ _).mpr hm]⟩

/-! ## where a token can be found in a request -/

/-- the request holds `tok` at the lookup location `e` -/
def heldAt (r : Req) (e : Extractor) (tok : Str) : Prop :=
  match e with
  | .header name pfx =>
    ∃ v ∈ valuesOf name r.headers, v.drop pfx.length = tok ∧
      (pfx ≠ [] → equalFold (v.take pfx.length) pfx = true ∧ v.length > pfx.length)
  | .query name => tok ∈ valuesOf name r.query
  | .form name => tok ∈ valuesOf name r.form ∨ tok ∈ valuesOf name r.query
  | .param name => tok ∈ valuesOf name r.params
  | .cookie name => tok ∈ valuesOf name r.cookies

theorem headerScan_held (pfx : Str) (vals : List Str) : ∀ (i : Nat) (tok : Str),
    tok ∈ headerScan pfx i vals → ∃ v ∈ vals, v.drop pfx.length = tok ∧
      (pfx ≠ [] → equalFold (v.take pfx.length) pfx = true ∧ v.length > pfx.length) := by
  induction vals with
  | nil => intro i tok h; simp [headerScan] at h
  | cons v vs ih =>
    intro i tok h
    simp only [headerScan] at h
    split at h
    · next hp =>
      have hp' : pfx = [] := List.eq_nil_of_length_eq_zero hp
      simp only [List.mem_cons] at h
      rcases h with h | h
      · exact ⟨v, List.mem_cons_self, by simp [hp, h], fun hne => absurd hp' hne⟩
      · split at h
        · simp at h
        · obtain ⟨w, hw, hd⟩ := ih _ _ h
          exact ⟨w, List.mem_cons_of_mem _ hw, hd⟩
    · split at h
      · next hc =>
        simp only [Bool.and_eq_true, decide_eq_true_eq] at hc
        simp only [List.mem_cons] at h
        rcases h with h | h
        · exact ⟨v, List.mem_cons_self, h.symm, fun _ => ⟨hc.2, hc.1⟩⟩
        · split at h
          · simp at h
          · obtain ⟨w, hw, hd⟩ := ih _ _ h
            exact ⟨w, List.mem_cons_of_mem _ hw, hd⟩
      · obtain ⟨w, hw, hd⟩ := ih _ _ h
        exact ⟨w, List.mem_cons_of_mem _ hw, hd⟩

theorem cookieScan_held (name : Str) (cs : List (Str × Str)) : ∀ (i : Nat) (tok : Str),
    tok ∈ cookieScan name i cs → tok ∈ valuesOf name cs := by
  induction cs with
  | nil => intro i tok h; simp [cookieScan] at h
  | cons ck cs ih =>
    intro i tok h
    simp only [cookieScan] at h
    simp only [valuesOf, List.filter_cons]
    split at h
    · next hn =>
      simp only [hn, decide_true, ite_true, List.map_cons, List.mem_cons]
      simp only [List.mem_cons] at h
      rcases h with rfl | h
      · exact Or.inl rfl
      · split at h
        · simp at h
        · exact Or.inr (ih _ _ h)
    · next hn =>
      simp only [hn, decide_false]
      exact ih _ _ h

/-- every client token an extractor returns is really held by the request at that location -/
theorem extract_held (r : Req) (e : Extractor) (toks : List Str) (tok : Str)
    (h : extract r e = some toks) (hm : tok ∈ toks) : heldAt r e tok := by
  cases e with
  | header name pfx =>
    simp only [extract] at h
    split at h
    · simp at h
    · split at h
      · simp at h
      · simp only [Option.some.injEq] at h; subst h
        exact headerScan_held pfx _ 0 tok hm
  | query name =>
    simp only [extract] at h
    split at h
    · simp at h
    · simp only [Option.some.injEq] at h; subst h
      exact List.mem_of_mem_take hm
  | form name =>
    simp only [extract] at h
    split at h
    · simp at h
    · simp only [Option.some.injEq] at h; subst h
      have := List.mem_of_mem_take hm
      simp only [formValues] at this
      split at this
      · simp only [List.mem_append] at this
        exact this.symm
      · simp only [List.mem_append] at this
        rcases this with h1 | h1
        · split at h1
          · exact Or.inl h1
          · simp at h1
        · exact Or.inr h1
  | param name =>
    simp only [extract] at h
    split at h
    · simp at h
    · simp only [Option.some.injEq] at h; subst h
      exact cookieScan_held name _ 0 tok hm
  | cookie name =>
    simp only [extract] at h
    split at h
    · simp at h
    · simp only [Option.some.injEq] at h; subst h
      exact cookieScan_held name _ 0 tok hm

/-! ## the property -/

theorem tokenOf_spec (c : Cfg) (r : Req) (t : Str) (h : tokenOf c r = some t) :
    (findCookie c.cookieName r.cookies = some t) ∨
    (findCookie c.cookieName r.cookies = none ∧ randomString c.tokenLength r.rnd = some t) := by
  unfold tokenOf at h
  cases hc : findCookie c.cookieName r.cookies with
  | none => simp only [hc] at h; exact Or.inr ⟨rfl, h⟩
  | some v => simp only [hc, Option.some.injEq] at h; subst h; exact Or.inl rfl

/-- **C12_unsafe_needs_match** — a request with an unsafe method that reaches the handler
    carries, at one of the configured lookup locations, exactly the token of the request; and
    that token is the CSRF cookie's value if the request has the cookie.  The only other way
    is a request *without* the cookie that presents exactly the string `randomString` is
    about to produce from the random stream (a function of the stream alone, `C12_random`;
    that `crypto/rand` cannot be predicted is outside the model).

    `c.extractors ≠ []`: a TokenLookup whose sources are all unknown words (e.g. "headr:…")
    yields no extractor at all and then nothing is validated — the property quantifies over
    header/form/query lookups, which always yield one. -/
theorem C12_unsafe_needs_match (c : Cfg) (r : Req) (hne : c.extractors ≠ [])
    (hunsafe : safeMethod r.method = false) (sc ctx : Str) (h : serve c r = .passed sc ctx) :
    (∃ e ∈ c.extractors, heldAt r e sc) ∧
    (findCookie c.cookieName r.cookies = some sc ∨
      (findCookie c.cookieName r.cookies = none ∧ randomString c.tokenLength r.rnd = some sc)) := by
  unfold serve at h
  cases ht : tokenOf c r with
  | none => simp [ht] at h
  | some token =>
    simp only [ht, hunsafe, Bool.false_eq_true, ite_false] at h
    split at h
    · simp at h
    · next h403 =>
      split at h
      · simp at h
      · next h400 =>
        simp only [Result.passed.injEq] at h
        obtain ⟨rfl, rfl⟩ := h
        refine ⟨?_, tokenOf_spec c r _ ht⟩
        rw [validate_eq] at h403 h400
        by_cases hm : hasMatch token r c.extractors = true
        · obtain ⟨e, he, toks, hx, hmem⟩ := (hasMatch_iff _ _ _).mp hm
          exact ⟨e, he, extract_held r e toks token hx hmem⟩
        · -- no match: with at least one extractor one of the two flags is set
          simp only [hm] at h403 h400
          exfalso
          cases hes : c.extractors with
          | nil => exact hne hes
          | cons e es =>
            rw [hes] at h403 h400
            simp only [List.any_cons] at h403 h400
            cases hx : extract r e <;> simp [hx] at h403 h400

/-- **C12_reject_4xx** — an unsafe request whose token is not held at any configured lookup
    location is rejected with 403 (some location offered tokens, none equal) or 400 (no
    location offered anything) — through the configured ErrorHandler (`handlerStatus`: nil, or
    a custom one that writes its own response and returns nil, or returns its own error); in
    every case the handler does not run (`Result.rejected` carries no handler observation: in
    the model the handler runs exactly in `Result.passed`). -/
theorem C12_reject_4xx (c : Cfg) (r : Req) (hne : c.extractors ≠ [])
    (hunsafe : safeMethod r.method = false) (token : Str) (ht : tokenOf c r = some token)
    (hno : ∀ e ∈ c.extractors, ¬ heldAt r e token) :
    (serve c r = .rejected (handlerStatus c 403) ∧ ∃ e ∈ c.extractors, (extract r e).isSome) ∨
    (serve c r = .rejected (handlerStatus c 400) ∧ ∀ e ∈ c.extractors, extract r e = none) := by
  unfold serve
  simp only [ht, hunsafe, Bool.false_eq_true, ite_false]
  have hm : ¬ hasMatch token r c.extractors = true := by
    intro hm
    obtain ⟨e, he, toks, hx, hmem⟩ := (hasMatch_iff _ _ _).mp hm
    exact hno e he (extract_held r e toks token hx hmem)
  rw [validate_eq]
  simp only [hm]
  by_cases hs : c.extractors.any (fun e => (extract r e).isSome) = true
  · left
    simp only [hs, Bool.or_true, ite_true, true_and]
    simpa [List.any_eq_true] using hs
  · right
    have hall : ∀ e ∈ c.extractors, extract r e = none := by
      intro e he
      cases hx : extract r e with
      | none => rfl
      | some toks => exact absurd (List.any_eq_true.mpr ⟨e, he, by simp [hx]⟩) hs
    have hn : c.extractors.any (fun e => (extract r e).isNone) = true := by
      cases hes : c.extractors with
      | nil => exact absurd hes hne
      | cons e es => simp [hall e (by simp [hes])]
    simp only [hs, hn]
    exact ⟨by simp, hall⟩

theorem handlerStatus_4xx (c : Cfg) (s : Nat) (h : s = 400 ∨ s = 403) :
    400 ≤ handlerStatus c s ∧ handlerStatus c s < 500 := by
  unfold handlerStatus
  split <;> omega

/-- every rejection is a 4xx: 400 or 403 with the default (nil) ErrorHandler, the custom
    handler's own 4xx otherwise; and only unsafe methods are ever rejected -/
theorem C12_reject_status (c : Cfg) (r : Req) (s : Nat) (h : serve c r = .rejected s) :
    (s = handlerStatus c 400 ∨ s = handlerStatus c 403) ∧ (400 ≤ s ∧ s < 500) ∧
    (c.errorHandler = 0 → s = 400 ∨ s = 403) ∧ safeMethod r.method = false := by
  unfold serve at h
  cases ht : tokenOf c r with
  | none => simp [ht] at h
  | some token =>
    by_cases hs : safeMethod r.method = true
    · simp [ht, hs] at h
    · have hs' : safeMethod r.method = false := by simpa using hs
      simp only [ht, hs', Bool.false_eq_true, ite_false] at h
      have key : s = handlerStatus c 400 ∨ s = handlerStatus c 403 := by
        split at h
        · simp only [Result.rejected.injEq] at h; exact Or.inr h.symm
        · split at h
          · simp only [Result.rejected.injEq] at h; exact Or.inl h.symm
          · simp at h
      refine ⟨key, ?_, ?_, hs'⟩
      · rcases key with k | k
        · rw [k]; exact handlerStatus_4xx c 400 (Or.inl rfl)
        · rw [k]; exact handlerStatus_4xx c 403 (Or.inr rfl)
      · intro h0
        simpa [handlerStatus, h0] using key

/-- **C12_safe_passes** — GET, HEAD, OPTIONS and TRACE (exactly these strings) always pass,
    whatever cookie and client tokens the request carries. -/
theorem C12_safe_passes (c : Cfg) (r : Req) (token : Str) (ht : tokenOf c r = some token)
    (hsafe : r.method = lit "GET" ∨ r.method = lit "HEAD" ∨ r.method = lit "OPTIONS" ∨ r.method = lit "TRACE") :
    serve c r = .passed token token := by
  have : safeMethod r.method = true := by
    unfold safeMethod
    rcases hsafe with h | h | h | h <;> simp [h]
  simp [serve, ht, this]

/-- the safe-method switch is exact: nothing but the four strings is safe -/
theorem C12_safe_exact (m : Str) :
    safeMethod m = true ↔ (m = lit "GET" ∨ m = lit "HEAD" ∨ m = lit "OPTIONS" ∨ m = lit "TRACE") := by
  simp [safeMethod, or_assoc]

example : safeMethod (lit "get") = false ∧ safeMethod (lit "GET ") = false ∧
    safeMethod (lit "") = false ∧ safeMethod (lit "Options") = false := by decide

/-- **C12_publish** — every passed request gets a Set-Cookie with the token and finds the
    same token in its context; the token is the request cookie's value when there is one,
    otherwise a fresh string of the configured length made of ASCII letters only. -/
theorem C12_publish (c : Cfg) (r : Req) (sc ctx : Str) (h : serve c r = .passed sc ctx) :
    sc = ctx ∧
    (∀ v, findCookie c.cookieName r.cookies = some v → sc = v) ∧
    (findCookie c.cookieName r.cookies = none →
      randomString c.tokenLength r.rnd = some sc ∧ sc.length = c.tokenLength ∧
      ∀ ch ∈ sc, isLetter ch = true) := by
  unfold serve at h
  cases ht : tokenOf c r with
  | none => simp [ht] at h
  | some token =>
    have hpass : sc = token ∧ ctx = token := by
      simp only [ht] at h
      split at h
      · simp only [Result.passed.injEq] at h; exact ⟨h.1.symm, h.2.symm⟩
      · split at h
        · simp at h
        · split at h
          · simp at h
          · simp only [Result.passed.injEq] at h; exact ⟨h.1.symm, h.2.symm⟩
    obtain ⟨rfl, rfl⟩ := hpass
    refine ⟨rfl, ?_, ?_⟩
    · intro v hv
      rcases tokenOf_spec c r _ ht with h1 | ⟨h1, _⟩
      · rw [hv] at h1; simpa using h1.symm
      · rw [hv] at h1; simp at h1
    · intro hnone
      rcases tokenOf_spec c r _ ht with h1 | ⟨_, h2⟩
      · rw [hnone] at h1; simp at h1
      · obtain ⟨hl, hlet, _⟩ := C12_random _ _ _ h2
        exact ⟨h2, hl, hlet⟩

/-- the fresh token does not depend on the request (only on the random stream and the
    configured length): two requests that differ in everything but `rnd` get the same one -/
theorem C12_fresh_independent (c : Cfg) (r r' : Req) (h : r.rnd = r'.rnd)
    (h1 : findCookie c.cookieName r.cookies = none) (h2 : findCookie c.cookieName r'.cookies = none) :
    tokenOf c r = tokenOf c r' := by
  simp [tokenOf, h1, h2, h]

/-! ## the lookup configuration -/

/-- header/query/form lookups always produce at least one extractor, all of those kinds -/
example : createExtractors (lit "header:X-CSRF-Token,form:csrf,query:csrf") =
    some [.header (lit "X-Csrf-Token") [], .form (lit "csrf"), .query (lit "csrf")] := by decide
example : createExtractors (lit "header:Authorization:Bearer ") =
    some [.header (lit "Authorization") (lit "Bearer ")] := by decide
/-- a misspelt source is dropped without an error: no extractor, nothing is validated -/
example : createExtractors (lit "headr:X-CSRF-Token") = some [] := by decide
example : createExtractors (lit "header") = none := by decide

/-! ## non-vacuity: concrete requests -/

def cfgDefault : Cfg := { tokenLength := 4, extractors := [.header (lit "X-Csrf-Token") []], cookieName := lit "_csrf" }
/-- a custom ErrorHandler that writes 418 and returns nil: still rejected, handler not run -/
def cfgCustomEH : Cfg := { cfgDefault with errorHandler := 1 }

def reqOK : Req :=
  ⟨lit "POST", [(lit "_csrf", lit "tokn")], [(lit "X-Csrf-Token", lit "tokn")], [], [], [], [], false⟩
def reqNear : Req :=
  ⟨lit "POST", [(lit "_csrf", lit "tokn")], [(lit "X-Csrf-Token", lit "tokN")], [], [], [], [], false⟩
def reqMissing : Req := ⟨lit "post", [(lit "_csrf", lit "tokn")], [], [], [], [], [], false⟩
def reqFresh : Req := ⟨lit "GET", [], [], [], [], [0, 1, 26, 51, 0], [], false⟩

example : serve cfgDefault reqOK = .passed (lit "tokn") (lit "tokn") := by decide
example : serve cfgDefault reqNear = .rejected 403 := by decide
example : serve cfgDefault reqMissing = .rejected 400 := by decide
example : serve cfgCustomEH reqNear = .rejected 418 ∧ serve cfgCustomEH reqOK = .passed (lit "tokn") (lit "tokn") := by decide
example : serve cfgDefault reqFresh = .passed (lit "ABaz") (lit "ABaz") := by decide
example : cfgDefault.extractors ≠ [] ∧ safeMethod reqOK.method = false := by decide

/-- a `form:` lookup finds the token in the multipart body of a DELETE request, but not in a
    urlencoded body of the same request (net/http parses that for POST/PUT/PATCH only) -/
def cfgForm : Cfg := { tokenLength := 4, extractors := [.form (lit "csrf")], cookieName := lit "_csrf" }
example :
    serve cfgForm ⟨lit "DELETE", [(lit "_csrf", lit "tokn")], [], [], [(lit "csrf", lit "tokn")], [], [], true⟩
      = .passed (lit "tokn") (lit "tokn") ∧
    serve cfgForm ⟨lit "DELETE", [(lit "_csrf", lit "tokn")], [], [], [(lit "csrf", lit "tokn")], [], [], false⟩
      = .rejected 400 := by decide

end C12
