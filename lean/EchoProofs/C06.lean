import EchoModel.C06
/-!
# C06 — theorems about the response model

Everything is stated for ALL handler programs (`List Op`, any length), all initial pending
statuses (`200` after `reset`, `0` after `NewResponse`, or anything else) and all capacities
of the underlying writer (so for every pattern of short writes).

* `Inv` — the bookkeeping invariant (committed ↔ headers out, status/size = what was sent,
  at most one `WriteHeader` call, the trace is accepted by the hook/order specification
  `Scan`), `C06_inv`: it holds after every program.
* `C06_first_status_wins` — the status on the wire is the one named by the independent
  specification `firstStatus` (a function of the program text only).
* `C06_late_writeHeader_ignored`, `C06_committed_stable`, `C06_ignored_status_logged` —
  after commit no operation changes what was sent or reported; ignored status writes are logged.
* `C06_seq_fresh`, `C06_inv_seq`, `C06_seq_first_status`, `C06_seq_trace_ok` — sequences of
  requests served on one recycled context (`reset` between them): every request behaves
  like one on a brand-new response; `C06_flush_without_flusher` — the F5 clause on a writer
  that cannot flush.  All theorems hold for writers with and without `http.Flusher` (`fl`).
* `Scan` — the hook/order clause of the property as an acceptor over event traces, with
  lemmas that say what acceptance means (`scan_before_once`, `scan_after_each_write`,
  `scan_no_implicit`), and their combination with `C06_inv`:
  `C06_before_hooks_once`, `C06_after_hooks_each_write`.
-/
namespace C06

/-! ## the hook / ordering clause as an acceptor over traces (specification) -/

inductive Phase where
  | idle                          -- headers not out, no before-hook has run
  | running (rest : List Nat)     -- before-hooks are running; `rest` still to run
  | out (pend : List Nat)         -- headers out; `pend` = after-hooks owed to the last body write
deriving DecidableEq, Repr

structure Scan where
  bef : List Nat := []
  aft : List Nat := []
  ph : Phase := .idle
deriving DecidableEq, Repr

def Scan.quiet (σ : Scan) : Bool :=
  match σ.ph with
  | .idle => true
  | .out [] => true
  | _ => false

def Scan.next (σ : Scan) : Ev → Option Scan
  | .regB h => if σ.quiet then some { σ with bef := σ.bef ++ [h] } else none
  | .regA h => if σ.quiet then some { σ with aft := σ.aft ++ [h] } else none
  | .runB h =>
    match σ.ph with
    | .idle =>
      (match σ.bef with
       | h' :: rest => if h' = h then some { σ with ph := .running rest } else none
       | [] => none)
    | .running (h' :: rest) => if h' = h then some { σ with ph := .running rest } else none
    | _ => none
  | .hdr _ =>
    match σ.ph with
    | .idle => if σ.bef = [] then some { σ with ph := .out [] } else none
    | .running [] => some { σ with ph := .out [] }
    | _ => none
  | .impl => none
  | .body _ =>
    match σ.ph with
    | .out [] => some { σ with ph := .out σ.aft }
    | _ => none
  | .runA h =>
    match σ.ph with
    | .out (h' :: p) => if h' = h then some { σ with ph := .out p } else none
    | _ => none
  | .rflush =>
    match σ.ph with
    | .out [] => some σ
    | _ => none
  | .warn =>
    match σ.ph with
    | .out [] => some σ
    | _ => none

def scanFrom : Scan → List Ev → Option Scan
  | σ, [] => some σ
  | σ, e :: es =>
    match σ.next e with
    | none => none
    | some σ' => scanFrom σ' es

/-- a complete trace is acceptable -/
def traceOK (tr : List Ev) : Bool :=
  match scanFrom {} tr with
  | some σ => σ.quiet
  | none => false

theorem scanFrom_append (σ : Scan) (l₁ l₂ : List Ev) :
    scanFrom σ (l₁ ++ l₂) = (scanFrom σ l₁).bind (fun σ' => scanFrom σ' l₂) := by
  induction l₁ generalizing σ with
  | nil => simp [scanFrom]
  | cons e es ih =>
    simp only [List.cons_append, scanFrom]
    cases h : σ.next e with
    | none => simp
    | some σ' => simp [ih]

theorem scan_runB (b a : List Nat) (rest : List Nat) :
    scanFrom ⟨b, a, .running rest⟩ (rest.map .runB) = some ⟨b, a, .running []⟩ := by
  induction rest with
  | nil => simp [scanFrom]
  | cons h r ih => simp [scanFrom, Scan.next, ih]

theorem scan_runB_idle (b a : List Nat) :
    scanFrom ⟨b, a, .idle⟩ (b.map .runB ++ [.hdr c]) = some ⟨b, a, .out []⟩ := by
  cases b with
  | nil => simp [scanFrom, Scan.next]
  | cons h r =>
    simp only [List.map_cons, List.cons_append, scanFrom, Scan.next, if_true]
    rw [scanFrom_append, scan_runB]
    simp [scanFrom, Scan.next]

theorem scan_runA (b a : List Nat) (pend : List Nat) :
    scanFrom ⟨b, a, .out pend⟩ (pend.map .runA) = some ⟨b, a, .out []⟩ := by
  induction pend with
  | nil => simp [scanFrom]
  | cons h r ih => simp [scanFrom, Scan.next, ih]

/-! ## the invariant -/

def bodyBytes : List Ev → Nat
  | [] => 0
  | .body k :: r => k + bodyBytes r
  | _ :: r => bodyBytes r

def hdrCalls : List Ev → List Nat
  | [] => []
  | .hdr c :: r => c :: hdrCalls r
  | _ :: r => hdrCalls r

theorem bodyBytes_append (l₁ l₂ : List Ev) : bodyBytes (l₁ ++ l₂) = bodyBytes l₁ + bodyBytes l₂ := by
  induction l₁ with
  | nil => simp [bodyBytes]
  | cons e r ih => cases e <;> simp [bodyBytes, ih] <;> omega

theorem hdrCalls_append (l₁ l₂ : List Ev) : hdrCalls (l₁ ++ l₂) = hdrCalls l₁ ++ hdrCalls l₂ := by
  induction l₁ with
  | nil => simp [hdrCalls]
  | cons e r ih => cases e <;> simp [hdrCalls, ih]

@[simp] theorem bodyBytes_runB (l : List Nat) : bodyBytes (l.map .runB) = 0 := by
  induction l <;> simp_all [bodyBytes]
@[simp] theorem bodyBytes_runA (l : List Nat) : bodyBytes (l.map .runA) = 0 := by
  induction l <;> simp_all [bodyBytes]
@[simp] theorem hdrCalls_runB (l : List Nat) : hdrCalls (l.map .runB) = [] := by
  induction l <;> simp_all [hdrCalls]
@[simp] theorem hdrCalls_runA (l : List Nat) : hdrCalls (l.map .runA) = [] := by
  induction l <;> simp_all [hdrCalls]

/-- the scanner state that corresponds to a model state between two operations -/
def scanOf (s : St) : Scan := ⟨s.before, s.after, if s.committed then .out [] else .idle⟩

/-- **the bookkeeping invariant** -/
structure Inv (s : St) : Prop where
  /-- the committed flag tells whether the headers have gone out -/
  comm : s.committed = s.raw.sent.isSome
  /-- once out: the reported status is the one sent, by the one and only `WriteHeader` call -/
  sent : s.committed = true → s.raw.sent = some s.status ∧ s.raw.calls = [s.status]
  /-- before that: the underlying writer has not been touched at all -/
  unsent : s.committed = false → s.raw.calls = [] ∧ s.raw.body = 0 ∧ s.raw.flushes = 0
  /-- the reported size is the number of body bytes the writer accepted -/
  size : s.size = s.raw.body
  /-- hooks / order: the events so far are accepted by the specification `Scan` -/
  trace : scanFrom {} s.trace = some (scanOf s)
  /-- the writer's counters agree with the recorded events -/
  bodyTrace : bodyBytes s.trace = s.raw.body
  hdrTrace : hdrCalls s.trace = s.raw.calls

theorem Inv.calls_le {s : St} (h : Inv s) : s.raw.calls.length ≤ 1 := by
  cases hc : s.committed with
  | true => simp [(h.sent hc).2]
  | false => simp [(h.unsent hc).1]

theorem inv_init (p cap : Nat) (fl : Bool) : Inv (init p cap fl) := by
  constructor <;> simp [init, scanFrom, scanOf, bodyBytes, hdrCalls]

theorem Inv.sent_none {s : St} (h : Inv s) (hc : s.committed = false) : s.raw.sent = none := by
  have h1 := h.comm
  rw [hc] at h1
  cases hx : s.raw.sent with
  | none => rfl
  | some v => rw [hx] at h1; simp at h1

/-! ### what the pieces of response.go do, case by case -/

theorem writeHeader_committed_eq {s : St} (hc : s.committed = true) (c : Nat) :
    writeHeader s c = emit s [.warn] := by
  simp [writeHeader, hc]

theorem writeHeader_uncommitted_eq {s : St} (hc : s.committed = false) (hn : s.raw.sent = none)
    (c : Nat) :
    writeHeader s c =
      { s with committed := true, status := c,
               raw := { s.raw with calls := s.raw.calls ++ [c], sent := some c, sentCt := s.ct,
                                   sentLoc := s.loc, sentDisp := s.disp },
               trace := s.trace ++ (s.before.map .runB ++ [.hdr c]) } := by
  simp [writeHeader, hc, emit, rawWriteHeader, rawSend, hn]

/-- bytes the writer accepts of an `n`-byte write -/
def accepted (t : St) (n : Nat) : Nat := min n (t.raw.cap - t.raw.body)

theorem rawWrite_sent {t : St} {v : Nat} (hs : t.raw.sent = some v) (n : Nat) :
    rawWrite t n =
      ({ t with raw := { t.raw with body := t.raw.body + accepted t n },
                trace := t.trace ++ [.body (accepted t n)] }, accepted t n) := by
  simp [rawWrite, rawImplicit, hs, emit, accepted]

theorem rawFlush_sent {t : St} {v : Nat} (hs : t.raw.sent = some v) :
    rawFlush t =
      { t with raw := { t.raw with flushes := t.raw.flushes + 1 }, trace := t.trace ++ [.rflush] } := by
  simp [rawFlush, rawImplicit, hs, emit]

theorem ensureCommitted_of_committed {s : St} (hc : s.committed = true) : ensureCommitted s = s := by
  simp [ensureCommitted, hc]

theorem write_committed_eq {t : St} {v : Nat} (hc : t.committed = true) (hs : t.raw.sent = some v)
    (n : Nat) :
    write t n =
      ({ t with size := t.size + accepted t n,
                raw := { t.raw with body := t.raw.body + accepted t n },
                trace := t.trace ++ ([.body (accepted t n)] ++ t.after.map .runA) },
       accepted t n, decide (accepted t n < n)) := by
  simp [write, ensureCommitted_of_committed hc, rawWrite_sent hs, emit]

/-! ### preservation -/

theorem inv_writeHeader {s : St} (h : Inv s) (c : Nat) : Inv (writeHeader s c) := by
  by_cases hc : s.committed = true
  · rw [writeHeader_committed_eq hc]
    have hs := h.sent hc
    exact {
      comm := by simpa [emit] using h.comm
      sent := by simpa [emit] using h.sent
      unsent := by simpa [emit] using h.unsent
      size := by simpa [emit] using h.size
      trace := by
        simp only [emit]
        rw [scanFrom_append, h.trace]
        simp [scanOf, hc, scanFrom, Scan.next]
      bodyTrace := by simpa [emit, bodyBytes_append, bodyBytes] using h.bodyTrace
      hdrTrace := by simpa [emit, hdrCalls_append, hdrCalls] using h.hdrTrace }
  · have hc : s.committed = false := by simpa using hc
    have hu := h.unsent hc
    rw [writeHeader_uncommitted_eq hc (h.sent_none hc)]
    exact {
      comm := by simp
      sent := by simp [hu.1]
      unsent := by simp
      size := by simpa using h.size
      trace := by
        simp only
        rw [scanFrom_append, h.trace]
        simp only [scanOf, hc, Option.bind]
        exact scan_runB_idle _ _
      bodyTrace := by simpa [bodyBytes_append, bodyBytes] using h.bodyTrace
      hdrTrace := by simp [hdrCalls_append, hdrCalls, h.hdrTrace, hu.1] }

theorem writeHeader_committed (s : St) (c : Nat) : (writeHeader s c).committed = true := by
  unfold writeHeader; split <;> simp_all [emit]

theorem inv_setStatus {s : St} (h : Inv s) (hc : s.committed = false) (c : Nat) :
    Inv { s with status := c } := by
  exact {
    comm := h.comm
    sent := by intro h'; simp [hc] at h'
    unsent := h.unsent
    size := h.size
    trace := by have := h.trace; simpa [scanOf] using this
    bodyTrace := h.bodyTrace
    hdrTrace := h.hdrTrace }

theorem inv_ensureCommitted {s : St} (h : Inv s) : Inv (ensureCommitted s) := by
  by_cases hc : s.committed = true
  · rw [ensureCommitted_of_committed hc]; exact h
  · have hc : s.committed = false := by simpa using hc
    unfold ensureCommitted
    rw [if_neg (by simp [hc] : ¬ s.committed = true)]
    split
    · exact inv_writeHeader (inv_setStatus h hc 200) _
    · exact inv_writeHeader h _

theorem ensureCommitted_committed (s : St) : (ensureCommitted s).committed = true := by
  unfold ensureCommitted
  by_cases hc : s.committed = true
  · simp [hc]
  · simp [hc, writeHeader_committed]

theorem inv_write_committed {t : St} (h1 : Inv t) (hc : t.committed = true) (n : Nat) :
    Inv (write t n).1 := by
  have hs := h1.sent hc
  rw [write_committed_eq hc hs.1]
  exact {
    comm := by simpa using h1.comm
    sent := by simpa using h1.sent
    unsent := by intro h'; simp [hc] at h'
    size := by simp [h1.size]
    trace := by
      simp only
      rw [scanFrom_append, h1.trace]
      simp only [scanOf, hc, Option.bind, if_true]
      rw [scanFrom_append]
      simp [scanFrom, Scan.next, scan_runA]
    bodyTrace := by
      simp only [bodyBytes_append, bodyBytes, bodyBytes_runA]
      have := h1.bodyTrace; omega
    hdrTrace := by simpa [hdrCalls_append, hdrCalls] using h1.hdrTrace }

theorem write_eq_ensure (s : St) (n : Nat) : write s n = write (ensureCommitted s) n := by
  simp [write, ensureCommitted_of_committed (ensureCommitted_committed s)]

theorem inv_write {s : St} (h : Inv s) (n : Nat) : Inv (write s n).1 := by
  rw [write_eq_ensure]
  exact inv_write_committed (inv_ensureCommitted h) (ensureCommitted_committed s) n

theorem inv_flush {s : St} (h : Inv s) : Inv (flush s) := by
  have h1 := inv_ensureCommitted h
  have hc := ensureCommitted_committed s
  unfold flush
  generalize ensureCommitted s = t at h1 hc
  have hs := h1.sent hc
  show Inv (if t.raw.canFlush = true then rawFlush t else t)
  split
  case isFalse => exact h1
  rw [rawFlush_sent hs.1]
  exact {
    comm := by simpa using h1.comm
    sent := by simpa using h1.sent
    unsent := by intro h'; simp [hc] at h'
    size := by simpa using h1.size
    trace := by
      simp only
      rw [scanFrom_append, h1.trace]
      simp [scanOf, hc, scanFrom, Scan.next]
    bodyTrace := by simpa [bodyBytes_append, bodyBytes] using h1.bodyTrace
    hdrTrace := by simpa [hdrCalls_append, hdrCalls] using h1.hdrTrace }

theorem inv_writes {s : St} (h : Inv s) (l : List Nat) : Inv (writes s l).1 := by
  induction l generalizing s with
  | nil => simpa [writes] using h
  | cons n ns ih =>
    simp only [writes]
    have := inv_write h n
    split
    · simpa using this
    · exact ih this

theorem inv_writeCT {s : St} (h : Inv s) (v : Nat) : Inv (writeCT s v) := by
  unfold writeCT
  split
  · exact {
      comm := h.comm, sent := h.sent, unsent := h.unsent, size := h.size
      trace := by have := h.trace; simpa [scanOf] using this
      bodyTrace := h.bodyTrace, hdrTrace := h.hdrTrace }
  · exact h

theorem inv_setLoc {s : St} (h : Inv s) : Inv { s with loc := true } :=
  { comm := h.comm, sent := h.sent, unsent := h.unsent, size := h.size
    trace := by have := h.trace; simpa [scanOf] using this
    bodyTrace := h.bodyTrace, hdrTrace := h.hdrTrace }

theorem inv_setDisp {s : St} (h : Inv s) (d : Nat) : Inv { s with disp := d } :=
  { comm := h.comm, sent := h.sent, unsent := h.unsent, size := h.size
    trace := by have := h.trace; simpa [scanOf] using this
    bodyTrace := h.bodyTrace, hdrTrace := h.hdrTrace }

theorem scanOf_quiet (s : St) : (scanOf s).quiet = true := by
  unfold scanOf Scan.quiet
  cases s.committed <;> simp

theorem inv_before {s : St} (h : Inv s) (k : Nat) :
    Inv (emit { s with before := s.before ++ [k] } [.regB k]) :=
  { comm := h.comm, sent := h.sent, unsent := h.unsent, size := h.size
    trace := by
      simp only [emit]
      rw [scanFrom_append, h.trace]
      cases hcm : s.committed <;> simp [scanFrom, Scan.next, scanOf, Scan.quiet, hcm]
    bodyTrace := by simpa [emit, bodyBytes_append, bodyBytes] using h.bodyTrace
    hdrTrace := by simpa [emit, hdrCalls_append, hdrCalls] using h.hdrTrace }

theorem inv_after {s : St} (h : Inv s) (k : Nat) :
    Inv (emit { s with after := s.after ++ [k] } [.regA k]) :=
  { comm := h.comm, sent := h.sent, unsent := h.unsent, size := h.size
    trace := by
      simp only [emit]
      rw [scanFrom_append, h.trace]
      cases hcm : s.committed <;> simp [scanFrom, Scan.next, scanOf, Scan.quiet, hcm]
    bodyTrace := by simpa [emit, bodyBytes_append, bodyBytes] using h.bodyTrace
    hdrTrace := by simpa [emit, hdrCalls_append, hdrCalls] using h.hdrTrace }

/-- the status preset of `context.json` (with the F6 repair) -/
def jsonPreset (s : St) (c : Nat) : St :=
  if s.committed then emit s [.warn] else { s with status := c }

theorem inv_jsonPreset {s : St} (h : Inv s) (c : Nat) : Inv (jsonPreset s c) := by
  unfold jsonPreset
  by_cases hc : s.committed = true
  · rw [if_pos hc, ← writeHeader_committed_eq hc c]; exact inv_writeHeader h c
  · rw [if_neg hc]; exact inv_setStatus h (by simpa using hc) c

theorem inv_step {s : St} (h : Inv s) (op : Op) : Inv (step s op).1 := by
  cases op with
  | writeHeader c => exact inv_writeHeader h c
  | write n => exact inv_write h n
  | flush => exact inv_flush h
  | before k => exact inv_before h k
  | after k => exact inv_after h k
  | json c k ok =>
    have h2 : Inv (jsonPreset (writeCT s ctJSON) c) := inv_jsonPreset (inv_writeCT h _) c
    simp only [step]
    split
    · exact inv_write h2 _
    · exact h2
  | blob c ct n => exact inv_write (inv_writeHeader (inv_writeCT h _) _) _
  | noContent c => exact inv_writeHeader h c
  | redirect c =>
    simp only [step]
    split
    · exact h
    · exact inv_writeHeader (inv_setLoc h) c
  | stream c chunks rerr => exact inv_writes (inv_writeHeader (inv_writeCT h _) _) _
  | xmlBlob c n => exact inv_writes (inv_writeHeader (inv_writeCT h ctXML) c) [xmlHeaderLen, n]
  | jsonpBlob c cb n => exact inv_writes (inv_writeHeader (inv_writeCT h ctJS) c) [cb + 1, n, 2]
  | flushRC => exact inv_flush h
  | flushFE => exact inv_flush h
  | unwrap => exact h
  | copy chunks rerr => exact inv_writes h (chunks.filter (· ≠ 0))
  | writeString n => exact inv_write h n
  | copyWT n => exact inv_writes h ([n].filter (· ≠ 0))
  | jsonp c cb k ok => exact inv_writes (inv_writeHeader (inv_writeCT h ctJS) c) _
  | xml c k ok => exact inv_writes (inv_writeHeader (inv_writeCT h ctXML) c) _
  | render c n ok =>
    cases ok with
    | true => exact inv_write (inv_writeHeader (inv_writeCT h _) _) _
    | false => exact h
  | file found n disp ct =>
    have hd : Inv (if disp = 0 then s else { s with disp := disp }) := by
      split
      · exact h
      · exact inv_setDisp h disp
    cases found with
    | true => exact inv_writes (inv_writeHeader (inv_writeCT hd ct) 200) _
    | false => exact hd
  | hijack => exact h

theorem inv_run {s : St} (h : Inv s) (prog : List Op) : Inv (run s prog) := by
  induction prog generalizing s with
  | nil => exact h
  | cons op ops ih => exact ih (inv_step h op)

/-- **C06_inv** — the bookkeeping invariant holds after every handler program, from every
    initial pending status and for every capacity of the underlying writer. -/
theorem C06_inv (p cap : Nat) (fl : Bool) (prog : List Op) : Inv (run (init p cap fl) prog) :=
  inv_run (inv_init p cap fl) prog

/-! ## what is sent and reported: first status wins, later status writes are ignored and logged -/

/-- the header-related view of a state: `Committed`, `Status`, what the writer sent, the
    `WriteHeader` calls it received, and the number of "already committed" warnings -/
structure HV where
  committed : Bool
  status : Nat
  sent : Option Nat
  calls : List Nat
  warns : Nat
deriving DecidableEq, Repr

def hv (s : St) : HV := ⟨s.committed, s.status, s.raw.sent, s.raw.calls, countWarn s.trace⟩

/-- headers are out with status `v` and `Committed` says so -/
def Sent (t : St) : Prop := t.committed = true ∧ ∃ v, t.raw.sent = some v

theorem Sent.of_hv {a b : St} (h : hv a = hv b) (hb : Sent b) : Sent a := by
  simp only [hv, HV.mk.injEq] at h
  obtain ⟨h1, _, h3, _⟩ := h
  exact ⟨h1 ▸ hb.1, by rw [h3]; exact hb.2⟩

theorem countWarn_append (a b : List Ev) : countWarn (a ++ b) = countWarn a + countWarn b := by
  simp [countWarn, List.count_append]

@[simp] theorem count_warn_runA (l : List Nat) : List.count Ev.warn (l.map .runA) = 0 := by
  induction l with
  | nil => rfl
  | cons h r ih => simpa [List.count_cons] using ih

@[simp] theorem count_warn_runB (l : List Nat) : List.count Ev.warn (l.map .runB) = 0 := by
  induction l with
  | nil => rfl
  | cons h r ih => simpa [List.count_cons] using ih

@[simp] theorem countWarn_runA (l : List Nat) : countWarn (l.map .runA) = 0 := count_warn_runA l
@[simp] theorem countWarn_runB (l : List Nat) : countWarn (l.map .runB) = 0 := count_warn_runB l

theorem hv_writeHeader_sent {t : St} (ht : Sent t) (c : Nat) :
    hv (writeHeader t c) = { hv t with warns := (hv t).warns + 1 } := by
  rw [writeHeader_committed_eq ht.1]
  simp [hv, emit, countWarn]

theorem hv_write_sent {t : St} (ht : Sent t) (n : Nat) : hv (write t n).1 = hv t := by
  obtain ⟨hc, v, hs⟩ := ht
  rw [write_committed_eq hc hs]
  simp [hv, countWarn]

theorem hv_flush_sent {t : St} (ht : Sent t) : hv (flush t) = hv t := by
  obtain ⟨hc, v, hs⟩ := ht
  unfold flush
  rw [ensureCommitted_of_committed hc]
  show hv (if t.raw.canFlush = true then rawFlush t else t) = hv t
  split
  · rw [rawFlush_sent hs]
    simp [hv, countWarn]
  · rfl

theorem hv_writes_sent {t : St} (ht : Sent t) (l : List Nat) : hv (writes t l).1 = hv t := by
  induction l generalizing t with
  | nil => rfl
  | cons n ns ih =>
    simp only [writes]
    have h1 := hv_write_sent ht n
    split
    · simpa using h1
    · rw [ih (Sent.of_hv h1 ht)]; exact h1

theorem hv_writeCT (t : St) (v : Nat) : hv (writeCT t v) = hv t := by
  unfold writeCT; split <;> rfl

theorem Sent.writeCT {t : St} (ht : Sent t) (v : Nat) : Sent (writeCT t v) :=
  Sent.of_hv (hv_writeCT t v) ht

theorem Sent.writeHeader {t : St} (ht : Sent t) (c : Nat) : Sent (writeHeader t c) := by
  rw [writeHeader_committed_eq ht.1]; exact ⟨ht.1, ht.2⟩

/-- does the operation carry a status code that it tries to set? -/
def carriesStatus : Op → Bool
  | .writeHeader _ | .json _ _ _ | .blob _ _ _ | .noContent _ | .stream _ _ _ | .xmlBlob _ _
  | .jsonpBlob _ _ _ | .jsonp _ _ _ _ | .xml _ _ _ => true
  | .redirect c => !(decide (c < 300 ∨ c > 308))
  | .render _ _ ok => ok          -- without a rendered page no status write is attempted
  | .file found _ _ _ => found    -- ServeContent's `WriteHeader(200)`; a missing file attempts none
  | .write _ | .flush | .before _ | .after _ | .flushRC | .flushFE | .unwrap | .copy _ _ | .writeString _ | .copyWT _
  | .hijack => false

/-- one operation on a response whose headers are out -/
theorem hv_step_sent {s : St} (hs : Sent s) (op : Op) :
    hv (step s op).1 =
      { hv s with warns := (hv s).warns + (if carriesStatus op then 1 else 0) } := by
  cases op with
  | writeHeader c => simpa [carriesStatus, step] using hv_writeHeader_sent hs c
  | write n => simpa [carriesStatus, step] using hv_write_sent hs n
  | flush => simpa [carriesStatus, step] using hv_flush_sent hs
  | before k => simp [carriesStatus, step, hv, emit, countWarn]
  | after k => simp [carriesStatus, step, hv, emit, countWarn]
  | json c k ok =>
    have h1 : Sent (writeCT s ctJSON) := hs.writeCT _
    have h2 : hv (jsonPreset (writeCT s ctJSON) c)
        = { hv s with warns := (hv s).warns + 1 } := by
      unfold jsonPreset
      rw [if_pos h1.1, ← writeHeader_committed_eq h1.1 c, hv_writeHeader_sent h1, hv_writeCT]
    have h3 : Sent (jsonPreset (writeCT s ctJSON) c) := by
      unfold jsonPreset
      rw [if_pos h1.1, ← writeHeader_committed_eq h1.1 c]; exact h1.writeHeader c
    simp only [step, carriesStatus, if_true]
    split
    · exact (hv_write_sent h3 _).trans h2
    · exact h2
  | blob c ct n =>
    have h1 := (hs.writeCT ct).writeHeader c
    have : hv (step s (.blob c ct n)).1 = hv (write (writeHeader (writeCT s ct) c) n).1 := rfl
    rw [this, hv_write_sent h1, hv_writeHeader_sent (hs.writeCT ct), hv_writeCT]
    simp [carriesStatus]
  | noContent c => simpa [carriesStatus, step] using hv_writeHeader_sent hs c
  | redirect c =>
    simp only [step, carriesStatus]
    split
    · rename_i hbad; simp [hbad]
    · rename_i hok
      have h1 : Sent { s with loc := true } := hs
      rw [hv_writeHeader_sent h1]
      simp [hok, hv]
  | stream c chunks rerr =>
    have h1 := (hs.writeCT ctStream).writeHeader c
    have : hv (step s (.stream c chunks rerr)).1
        = hv (writes (writeHeader (writeCT s ctStream) c) (chunks.filter (· ≠ 0))).1 := rfl
    rw [this, hv_writes_sent h1, hv_writeHeader_sent (hs.writeCT _), hv_writeCT]
    simp [carriesStatus]
  | xmlBlob c n =>
    have h1 := (hs.writeCT ctXML).writeHeader c
    have : hv (step s (.xmlBlob c n)).1
        = hv (writes (writeHeader (writeCT s ctXML) c) [xmlHeaderLen, n]).1 := rfl
    rw [this, hv_writes_sent h1, hv_writeHeader_sent (hs.writeCT _), hv_writeCT]
    simp [carriesStatus]
  | jsonpBlob c cb n =>
    have h1 := (hs.writeCT ctJS).writeHeader c
    have : hv (step s (.jsonpBlob c cb n)).1
        = hv (writes (writeHeader (writeCT s ctJS) c) [cb + 1, n, 2]).1 := rfl
    rw [this, hv_writes_sent h1, hv_writeHeader_sent (hs.writeCT _), hv_writeCT]
    simp [carriesStatus]
  | flushRC => simpa [carriesStatus, step] using hv_flush_sent hs
  | flushFE => simpa [carriesStatus, step] using hv_flush_sent hs
  | unwrap => simp [carriesStatus, step]
  | copy chunks rerr =>
    have : hv (step s (.copy chunks rerr)).1 = hv (writes s (chunks.filter (· ≠ 0))).1 := rfl
    rw [this, hv_writes_sent hs]
    simp [carriesStatus]
  | writeString n => simpa [carriesStatus, step] using hv_write_sent hs n
  | copyWT n =>
    have : hv (step s (.copyWT n)).1 = hv (writes s ([n].filter (· ≠ 0))).1 := rfl
    rw [this, hv_writes_sent hs]
    simp [carriesStatus]
  | jsonp c cb k ok =>
    have h1 := (hs.writeCT ctJS).writeHeader c
    have : hv (step s (.jsonp c cb k ok)).1
        = hv (writes (writeHeader (writeCT s ctJS) c)
            (if ok then [cb + 1, k + 3, 2] else [cb + 1])).1 := rfl
    rw [this, hv_writes_sent h1, hv_writeHeader_sent (hs.writeCT _), hv_writeCT]
    simp [carriesStatus]
  | xml c k ok =>
    have h1 := (hs.writeCT ctXML).writeHeader c
    have : hv (step s (.xml c k ok)).1
        = hv (writes (writeHeader (writeCT s ctXML) c)
            (if ok then [xmlHeaderLen, k + 17] else [xmlHeaderLen])).1 := rfl
    rw [this, hv_writes_sent h1, hv_writeHeader_sent (hs.writeCT _), hv_writeCT]
    simp [carriesStatus]
  | render c n ok =>
    cases ok with
    | true =>
      have h1 := (hs.writeCT ctHTML).writeHeader c
      have : hv (step s (.render c n true)).1
          = hv (write (writeHeader (writeCT s ctHTML) c) n).1 := rfl
      rw [this, hv_write_sent h1, hv_writeHeader_sent (hs.writeCT _), hv_writeCT]
      simp [carriesStatus]
    | false => simp [carriesStatus, step]
  | file found n disp ct =>
    have hd : hv (if disp = 0 then s else { s with disp := disp }) = hv s := by split <;> rfl
    have hsd : Sent (if disp = 0 then s else { s with disp := disp }) := Sent.of_hv hd hs
    cases found with
    | true =>
      have h1 := (hsd.writeCT ct).writeHeader 200
      have : hv (step s (.file true n disp ct)).1
          = hv (writes (writeHeader (writeCT (if disp = 0 then s else { s with disp := disp }) ct) 200)
              ([n].filter (· ≠ 0))).1 := rfl
      rw [this, hv_writes_sent h1, hv_writeHeader_sent (hsd.writeCT _), hv_writeCT, hd]
      simp [carriesStatus]
    | false =>
      have : hv (step s (.file false n disp ct)).1
          = hv (if disp = 0 then s else { s with disp := disp }) := rfl
      rw [this, hd]
      simp [carriesStatus]
  | hijack => simp [carriesStatus, step]

theorem Inv.toSent {s : St} (h : Inv s) (hc : s.committed = true) : Sent s :=
  ⟨hc, s.status, (h.sent hc).1⟩

/-- **C06_late_writeHeader_ignored** — `WriteHeader` on a committed response changes nothing
    on the underlying writer and nothing in `Status`/`Size`/`Committed`; it only logs. -/
theorem C06_late_writeHeader_ignored (s : St) (hc : s.committed = true) (c : Nat) :
    (writeHeader s c).raw = s.raw ∧ (writeHeader s c).status = s.status ∧
    (writeHeader s c).size = s.size ∧ (writeHeader s c).committed = true ∧
    (writeHeader s c).trace = s.trace ++ [.warn] := by
  rw [writeHeader_committed_eq hc]
  simp [emit, hc]

/-- **C06_committed_stable** — once the headers are out, NO operation (status write, body
    write, flush, helper, hook registration) changes the committed flag, the reported status,
    the status that was sent, or the list of `WriteHeader` calls the underlying writer
    received; a status-carrying operation is logged exactly once, the others not at all. -/
theorem C06_committed_stable {s : St} (h : Inv s) (hc : s.committed = true) (op : Op) :
    let s' := (step s op).1
    s'.committed = true ∧ s'.status = s.status ∧ s'.raw.sent = s.raw.sent ∧
    s'.raw.calls = s.raw.calls ∧
    countWarn s'.trace = countWarn s.trace + (if carriesStatus op then 1 else 0) := by
  have := hv_step_sent (h.toSent hc) op
  simp only [hv, HV.mk.injEq] at this
  obtain ⟨h1, h2, h3, h4, h5⟩ := this
  exact ⟨h1.trans hc, h2, h3, h4, h5⟩

/-- **C06_ignored_status_logged** — a status write on a committed response is logged. -/
theorem C06_ignored_status_logged {s : St} (h : Inv s) (hc : s.committed = true) (op : Op)
    (hop : carriesStatus op = true) :
    countWarn (step s op).1.trace = countWarn s.trace + 1 := by
  have := (C06_committed_stable h hc op).2.2.2.2
  simpa [hop] using this

theorem hv_run_sent {s : St} (h : Inv s) (hc : s.committed = true) (prog : List Op) :
    (run s prog).committed = true ∧ (run s prog).status = s.status ∧
    (run s prog).raw.sent = s.raw.sent ∧ (run s prog).raw.calls = s.raw.calls := by
  induction prog generalizing s with
  | nil => exact ⟨hc, rfl, rfl, rfl⟩
  | cons op ops ih =>
    obtain ⟨h1, h2, h3, h4, _⟩ := C06_committed_stable h hc op
    obtain ⟨g1, g2, g3, g4⟩ := ih (inv_step h op) h1
    exact ⟨g1, g2.trans h2, g3.trans h3, g4.trans h4⟩

/-! ### first status wins: an independent specification read off the program text -/

/-- the status `Write`/`Flush` commit with when nothing was set: `Status == 0` becomes 200 -/
def pend (p : Nat) : Nat := if p = 0 then 200 else p

inductive Eff where
  | commits (c : Nat)    -- the operation makes the headers go out with status `c`
  | pending (p : Nat)    -- the headers stay in; the pending status is `p` afterwards
deriving DecidableEq, Repr

/-- effect of an operation on an UNCOMMITTED response with pending status `p` -/
def opEffect (p : Nat) : Op → Eff
  | .writeHeader c => .commits c
  | .write _ => .commits (pend p)
  | .flush => .commits (pend p)
  | .before _ => .pending p
  | .after _ => .pending p
  | .json c _ ok => if ok then .commits (pend c) else .pending c
  | .blob c _ _ => .commits c
  | .noContent c => .commits c
  | .redirect c => if c < 300 ∨ c > 308 then .pending p else .commits c
  | .stream c _ _ => .commits c
  | .xmlBlob c _ => .commits c
  | .jsonpBlob c _ _ => .commits c
  | .flushRC => .commits (pend p)
  | .flushFE => .commits (pend p)
  | .unwrap => .pending p
  | .copy chunks _ => if chunks.filter (· ≠ 0) = [] then .pending p else .commits (pend p)
  | .writeString _ => .commits (pend p)
  | .copyWT n => if [n].filter (· ≠ 0) = [] then .pending p else .commits (pend p)
  | .jsonp c _ _ _ => .commits c         -- also when the value cannot be serialised
  | .xml c _ _ => .commits c             -- also when the value cannot be encoded
  | .render c _ ok => if ok then .commits c else .pending p
  | .file found _ _ _ => if found then .commits 200 else .pending p
  | .hijack => .pending p

/-- the first status set by a program started with pending status `p` (`none`: the program
    never sends anything) -/
def firstStatus : Nat → List Op → Option Nat
  | _, [] => none
  | p, op :: ops =>
    match opEffect p op with
    | .commits c => some c
    | .pending p' => firstStatus p' ops

/-- header view right after the commit with status `c` -/
def committedWith (s : St) (c : Nat) : HV := ⟨true, c, some c, [c], countWarn s.trace⟩

theorem hv_writeHeader_unsent {s : St} (h : Inv s) (hc : s.committed = false) (c : Nat) :
    hv (writeHeader s c) = committedWith s c := by
  rw [writeHeader_uncommitted_eq hc (h.sent_none hc)]
  simp [hv, committedWith, (h.unsent hc).1, countWarn]

theorem sent_of_hv_committedWith {t s : St} {c : Nat} (h : hv t = committedWith s c) : Sent t := by
  simp only [hv, committedWith, HV.mk.injEq] at h
  exact ⟨h.1, c, h.2.2.1⟩

theorem hv_ensureCommitted_unsent {s : St} (h : Inv s) (hc : s.committed = false) :
    hv (ensureCommitted s) = committedWith s (pend s.status) := by
  unfold ensureCommitted
  rw [if_neg (by simp [hc] : ¬ s.committed = true)]
  unfold pend
  split
  · rename_i h0
    have := hv_writeHeader_unsent (inv_setStatus h hc 200) hc 200
    simpa [committedWith, h0] using this
  · rename_i h0
    simpa [h0] using hv_writeHeader_unsent h hc s.status

theorem hv_write_unsent {s : St} (h : Inv s) (hc : s.committed = false) (n : Nat) :
    hv (write s n).1 = committedWith s (pend s.status) := by
  rw [write_eq_ensure]
  have h1 := hv_ensureCommitted_unsent h hc
  rw [hv_write_sent (sent_of_hv_committedWith h1)]
  exact h1

theorem hv_flush_unsent {s : St} (h : Inv s) (hc : s.committed = false) :
    hv (flush s) = committedWith s (pend s.status) := by
  have h1 := hv_ensureCommitted_unsent h hc
  have hs := sent_of_hv_committedWith h1
  have : flush s = flush (ensureCommitted s) := by
    simp only [flush, ensureCommitted_of_committed (ensureCommitted_committed s)]
  rw [this, hv_flush_sent hs]
  exact h1

/-- a non-empty sequence of writes on an uncommitted response commits with the pending status -/
theorem hv_writes_unsent_cons {s : St} (h : Inv s) (hc : s.committed = false) (n : Nat) (ns : List Nat) :
    hv (writes s (n :: ns)).1 = committedWith s (pend s.status) := by
  have h1 := hv_write_unsent h hc n
  simp only [writes]
  split
  · simpa using h1
  · rw [hv_writes_sent (sent_of_hv_committedWith h1)]; exact h1

/-- content type, `WriteHeader(c)`, then any sequence of writes (the shape of every helper
    that names its status), on an uncommitted response: commits with `c` -/
theorem hv_serve_unsent {t : St} (h : Inv t) (hc : t.committed = false) (ct c : Nat) (l : List Nat) :
    hv (writes (writeHeader (writeCT t ct) c) l).1 = committedWith t c := by
  have hc1 : (writeCT t ct).committed = false := by
    have := congrArg HV.committed (hv_writeCT t ct); simpa [hv, hc] using this
  have htr : countWarn (writeCT t ct).trace = countWarn t.trace := by
    have := congrArg HV.warns (hv_writeCT t ct); simpa [hv] using this
  have h1 := hv_writeHeader_unsent (inv_writeCT h ct) hc1 c
  rw [hv_writes_sent (sent_of_hv_committedWith h1), h1]
  simp [committedWith, htr]

/-- one operation on an uncommitted response does what `opEffect` says -/
theorem step_effect {s : St} (h : Inv s) (hc : s.committed = false) (op : Op) :
    match opEffect s.status op with
    | .commits c => hv (step s op).1 = committedWith s c
    | .pending p' => (step s op).1.committed = false ∧ (step s op).1.status = p' := by
  cases op with
  | writeHeader c => exact hv_writeHeader_unsent h hc c
  | write n => exact hv_write_unsent h hc n
  | flush => exact hv_flush_unsent h hc
  | before k => exact ⟨hc, rfl⟩
  | after k => exact ⟨hc, rfl⟩
  | json c k ok =>
    have hc1 : (writeCT s ctJSON).committed = false := by
      have := congrArg HV.committed (hv_writeCT s ctJSON); simpa [hv, hc] using this
    have hp : jsonPreset (writeCT s ctJSON) c = { writeCT s ctJSON with status := c } := by
      unfold jsonPreset; rw [if_neg (by simp [hc1])]
    have hi : Inv { writeCT s ctJSON with status := c } := inv_setStatus (inv_writeCT h _) hc1 c
    have htr : countWarn (writeCT s ctJSON).trace = countWarn s.trace := by
      have := congrArg HV.warns (hv_writeCT s ctJSON); simpa [hv] using this
    cases ok with
    | true =>
      have : hv (step s (.json c k true)).1
          = hv (write (jsonPreset (writeCT s ctJSON) c) (k + 3)).1 := rfl
      simp only [opEffect, if_true]
      rw [this, hp, hv_write_unsent hi hc1]
      simp [committedWith, htr]
    | false =>
      have : (step s (.json c k false)).1 = jsonPreset (writeCT s ctJSON) c := rfl
      simp only [opEffect, Bool.false_eq_true, if_false]
      rw [this, hp]
      exact ⟨hc1, rfl⟩
  | blob c ct n =>
    have hc1 : (writeCT s ct).committed = false := by
      have := congrArg HV.committed (hv_writeCT s ct); simpa [hv, hc] using this
    have htr : countWarn (writeCT s ct).trace = countWarn s.trace := by
      have := congrArg HV.warns (hv_writeCT s ct); simpa [hv] using this
    have h1 := hv_writeHeader_unsent (inv_writeCT h ct) hc1 c
    have : hv (step s (.blob c ct n)).1 = hv (write (writeHeader (writeCT s ct) c) n).1 := rfl
    simp only [opEffect]
    rw [this, hv_write_sent (sent_of_hv_committedWith h1), h1]
    simp [committedWith, htr]
  | noContent c => exact hv_writeHeader_unsent h hc c
  | redirect c =>
    by_cases hbad : c < 300 ∨ c > 308
    · simp only [opEffect, step, hbad, if_true]
      exact ⟨hc, trivial⟩
    · simp only [opEffect, step, hbad, if_false]
      have := hv_writeHeader_unsent (inv_setLoc h) hc c
      simpa [committedWith] using this
  | stream c chunks rerr =>
    have hc1 : (writeCT s ctStream).committed = false := by
      have := congrArg HV.committed (hv_writeCT s ctStream); simpa [hv, hc] using this
    have htr : countWarn (writeCT s ctStream).trace = countWarn s.trace := by
      have := congrArg HV.warns (hv_writeCT s ctStream); simpa [hv] using this
    have h1 := hv_writeHeader_unsent (inv_writeCT h ctStream) hc1 c
    have : hv (step s (.stream c chunks rerr)).1
        = hv (writes (writeHeader (writeCT s ctStream) c) (chunks.filter (· ≠ 0))).1 := rfl
    simp only [opEffect]
    rw [this, hv_writes_sent (sent_of_hv_committedWith h1), h1]
    simp [committedWith, htr]
  | xmlBlob c n =>
    have hc1 : (writeCT s ctXML).committed = false := by
      have := congrArg HV.committed (hv_writeCT s ctXML); simpa [hv, hc] using this
    have htr : countWarn (writeCT s ctXML).trace = countWarn s.trace := by
      have := congrArg HV.warns (hv_writeCT s ctXML); simpa [hv] using this
    have h1 := hv_writeHeader_unsent (inv_writeCT h ctXML) hc1 c
    have : hv (step s (.xmlBlob c n)).1
        = hv (writes (writeHeader (writeCT s ctXML) c) [xmlHeaderLen, n]).1 := rfl
    simp only [opEffect]
    rw [this, hv_writes_sent (sent_of_hv_committedWith h1), h1]
    simp [committedWith, htr]
  | jsonpBlob c cb n =>
    have hc1 : (writeCT s ctJS).committed = false := by
      have := congrArg HV.committed (hv_writeCT s ctJS); simpa [hv, hc] using this
    have htr : countWarn (writeCT s ctJS).trace = countWarn s.trace := by
      have := congrArg HV.warns (hv_writeCT s ctJS); simpa [hv] using this
    have h1 := hv_writeHeader_unsent (inv_writeCT h ctJS) hc1 c
    have : hv (step s (.jsonpBlob c cb n)).1
        = hv (writes (writeHeader (writeCT s ctJS) c) [cb + 1, n, 2]).1 := rfl
    simp only [opEffect]
    rw [this, hv_writes_sent (sent_of_hv_committedWith h1), h1]
    simp [committedWith, htr]
  | flushRC => exact hv_flush_unsent h hc
  | flushFE => exact hv_flush_unsent h hc
  | unwrap => exact ⟨hc, rfl⟩
  | copy chunks rerr =>
    have : (step s (.copy chunks rerr)).1 = (writes s (chunks.filter (· ≠ 0))).1 := rfl
    simp only [opEffect]
    cases hl : chunks.filter (· ≠ 0) with
    | nil =>
      simp only [if_true]
      rw [this, hl]
      exact ⟨hc, rfl⟩
    | cons n ns =>
      simp only [List.cons_ne_nil, if_false]
      rw [this, hl]
      exact hv_writes_unsent_cons h hc n ns
  | writeString n => exact hv_write_unsent h hc n
  | copyWT k =>
    have : (step s (.copyWT k)).1 = (writes s ([k].filter (· ≠ 0))).1 := rfl
    simp only [opEffect]
    cases hl : [k].filter (· ≠ 0) with
    | nil =>
      simp only [if_true]
      rw [this, hl]
      exact ⟨hc, rfl⟩
    | cons n ns =>
      simp only [List.cons_ne_nil, if_false]
      rw [this, hl]
      exact hv_writes_unsent_cons h hc n ns
  | jsonp c cb k ok =>
    have hc1 : (writeCT s ctJS).committed = false := by
      have := congrArg HV.committed (hv_writeCT s ctJS); simpa [hv, hc] using this
    have htr : countWarn (writeCT s ctJS).trace = countWarn s.trace := by
      have := congrArg HV.warns (hv_writeCT s ctJS); simpa [hv] using this
    have h1 := hv_writeHeader_unsent (inv_writeCT h ctJS) hc1 c
    have : hv (step s (.jsonp c cb k ok)).1
        = hv (writes (writeHeader (writeCT s ctJS) c)
            (if ok then [cb + 1, k + 3, 2] else [cb + 1])).1 := rfl
    simp only [opEffect]
    rw [this, hv_writes_sent (sent_of_hv_committedWith h1), h1]
    simp [committedWith, htr]
  | xml c k ok =>
    have hc1 : (writeCT s ctXML).committed = false := by
      have := congrArg HV.committed (hv_writeCT s ctXML); simpa [hv, hc] using this
    have htr : countWarn (writeCT s ctXML).trace = countWarn s.trace := by
      have := congrArg HV.warns (hv_writeCT s ctXML); simpa [hv] using this
    have h1 := hv_writeHeader_unsent (inv_writeCT h ctXML) hc1 c
    have : hv (step s (.xml c k ok)).1
        = hv (writes (writeHeader (writeCT s ctXML) c)
            (if ok then [xmlHeaderLen, k + 17] else [xmlHeaderLen])).1 := rfl
    simp only [opEffect]
    rw [this, hv_writes_sent (sent_of_hv_committedWith h1), h1]
    simp [committedWith, htr]
  | render c n ok =>
    cases ok with
    | true =>
      have hc1 : (writeCT s ctHTML).committed = false := by
        have := congrArg HV.committed (hv_writeCT s ctHTML); simpa [hv, hc] using this
      have htr : countWarn (writeCT s ctHTML).trace = countWarn s.trace := by
        have := congrArg HV.warns (hv_writeCT s ctHTML); simpa [hv] using this
      have h1 := hv_writeHeader_unsent (inv_writeCT h ctHTML) hc1 c
      have : hv (step s (.render c n true)).1
          = hv (write (writeHeader (writeCT s ctHTML) c) n).1 := rfl
      simp only [opEffect, if_true]
      rw [this, hv_write_sent (sent_of_hv_committedWith h1), h1]
      simp [committedWith, htr]
    | false => exact ⟨hc, rfl⟩
  | file found n disp ct =>
    have hd : hv (if disp = 0 then s else { s with disp := disp }) = hv s := by split <;> rfl
    have hid : Inv (if disp = 0 then s else { s with disp := disp }) := by
      split
      · exact h
      · exact inv_setDisp h disp
    have hcd : (if disp = 0 then s else { s with disp := disp }).committed = false := by
      have := congrArg HV.committed hd; simpa [hv, hc] using this
    have hsd : (if disp = 0 then s else { s with disp := disp }).status = s.status := by
      have := congrArg HV.status hd; simpa [hv] using this
    have htd : countWarn (if disp = 0 then s else { s with disp := disp }).trace
        = countWarn s.trace := by
      have := congrArg HV.warns hd; simpa [hv] using this
    cases found with
    | true =>
      have : hv (step s (.file true n disp ct)).1
          = hv (writes (writeHeader (writeCT (if disp = 0 then s else { s with disp := disp }) ct) 200)
              ([n].filter (· ≠ 0))).1 := rfl
      simp only [opEffect, if_true]
      rw [this, hv_serve_unsent hid hcd]
      simp [committedWith, htd]
    | false =>
      have : (step s (.file false n disp ct)).1
          = (if disp = 0 then s else { s with disp := disp }) := rfl
      simp only [opEffect, Bool.false_eq_true, if_false]
      rw [this]
      exact ⟨hcd, hsd⟩
  | hijack => exact ⟨hc, rfl⟩

theorem first_status_run {s : St} (h : Inv s) (hc : s.committed = false) (prog : List Op) :
    (run s prog).raw.sent = firstStatus s.status prog ∧
    (run s prog).raw.calls = (firstStatus s.status prog).toList ∧
    (∀ c, firstStatus s.status prog = some c → (run s prog).status = c) := by
  induction prog generalizing s with
  | nil =>
    exact ⟨h.sent_none hc, (h.unsent hc).1, by intro c hcc; simp [firstStatus] at hcc⟩
  | cons op ops ih =>
    have he := step_effect h hc op
    simp only [firstStatus]
    show (run (step s op).1 ops).raw.sent = _ ∧ (run (step s op).1 ops).raw.calls = _ ∧ _
    cases hop : opEffect s.status op with
    | commits c =>
      rw [hop] at he
      simp only [hv, committedWith, HV.mk.injEq] at he
      obtain ⟨e1, e2, e3, e4, _⟩ := he
      obtain ⟨g1, g2, g3, g4⟩ := hv_run_sent (inv_step h op) e1 ops
      refine ⟨g3.trans e3, by simpa using g4.trans e4, ?_⟩
      intro c' hcc
      simp only [Option.some.injEq] at hcc
      exact hcc ▸ (g2.trans e2)
    | pending p' =>
      rw [hop] at he
      obtain ⟨e1, e2⟩ := he
      have := ih (inv_step h op) e1
      rw [e2] at this
      exact this

/-- **C06_first_status_wins** — for every program: the status the underlying writer sent is
    the first status the program set (`firstStatus`, a function of the program text alone);
    the writer received exactly that one `WriteHeader` call (or none at all if the program
    never sends), and `Response.Status` reports it at the end of the program, whatever later
    operations tried to set. -/
theorem C06_first_status_wins (p cap : Nat) (fl : Bool) (prog : List Op) :
    (run (init p cap fl) prog).raw.sent = firstStatus p prog ∧
    (run (init p cap fl) prog).raw.calls = (firstStatus p prog).toList ∧
    (∀ c, firstStatus p prog = some c → (run (init p cap fl) prog).status = c) :=
  first_status_run (inv_init p cap fl) rfl prog

/-! ## what acceptance by `Scan` means (lemmas about the specification itself, for ANY trace) -/

def isRegB? : Ev → Option Nat | .regB h => some h | _ => none
def isRunB? : Ev → Option Nat | .runB h => some h | _ => none
def isRegA? : Ev → Option Nat | .regA h => some h | _ => none
/-- before-hooks registered / executed / after-hooks registered in a trace, in order -/
def regBs (l : List Ev) : List Nat := l.filterMap isRegB?
def runBs (l : List Ev) : List Nat := l.filterMap isRunB?
def regAs (l : List Ev) : List Nat := l.filterMap isRegA?
/-- events that may precede the headers: hook registrations and before-hook executions -/
def isPre : Ev → Bool
  | .regB _ | .regA _ | .runB _ => true
  | _ => false

theorem regBs_append (a b : List Ev) : regBs (a ++ b) = regBs a ++ regBs b := by simp [regBs]
theorem runBs_append (a b : List Ev) : runBs (a ++ b) = runBs a ++ runBs b := by simp [runBs]
theorem regAs_append (a b : List Ev) : regAs (a ++ b) = regAs a ++ regAs b := by simp [regAs]

def isHdr? : Ev → Option Nat | .hdr c => some c | _ => none

theorem regBs_snoc (a : List Ev) (e : Ev) : regBs (a ++ [e]) = regBs a ++ (isRegB? e).toList := by
  rw [regBs_append]; cases e <;> rfl
theorem runBs_snoc (a : List Ev) (e : Ev) : runBs (a ++ [e]) = runBs a ++ (isRunB? e).toList := by
  rw [runBs_append]; cases e <;> rfl
theorem regAs_snoc (a : List Ev) (e : Ev) : regAs (a ++ [e]) = regAs a ++ (isRegA? e).toList := by
  rw [regAs_append]; cases e <;> rfl
theorem hdrCalls_snoc (a : List Ev) (e : Ev) : hdrCalls (a ++ [e]) = hdrCalls a ++ (isHdr? e).toList := by
  rw [hdrCalls_append]; cases e <;> rfl

theorem pre_snoc {acc : List Ev} {x : Ev} (h : ∀ e ∈ acc, isPre e = true) (hx : isPre x = true) :
    ∀ e ∈ acc ++ [x], isPre e = true := by
  intro e he
  simp only [List.mem_append, List.mem_singleton] at he
  rcases he with he | he
  · exact h e he
  · exact he ▸ hx

/-- what the scanner knows after having accepted `acc` (from the empty state) -/
def GoodPh : Phase → List Ev → Prop
  | .idle, acc => runBs acc = [] ∧ hdrCalls acc = [] ∧ ∀ e ∈ acc, isPre e = true
  | .running rest, acc => runBs acc ++ rest = regBs acc ∧ hdrCalls acc = [] ∧ ∀ e ∈ acc, isPre e = true
  | .out _, acc => hdrCalls acc ≠ []

structure Good (σ : Scan) (acc : List Ev) : Prop where
  bef : σ.bef = regBs acc
  aft : σ.aft = regAs acc
  ph : GoodPh σ.ph acc

theorem good_init : Good {} [] := ⟨rfl, rfl, by simp [GoodPh, runBs, hdrCalls]⟩

local macro "ss" : tactic =>
  `(tactic| simp [regBs_snoc, runBs_snoc, regAs_snoc, hdrCalls_snoc, isRegB?, isRunB?, isRegA?, isHdr?])

theorem good_step {σ σ' : Scan} {acc : List Ev} {e : Ev} (g : Good σ acc)
    (h : σ.next e = some σ') : Good σ' (acc ++ [e]) := by
  obtain ⟨b, a, ph⟩ := σ
  obtain ⟨gb, ga, gp⟩ := g
  simp only at gb ga gp
  subst gb; subst ga
  -- every accepted event other than `hdr` keeps an `out` phase good
  have outKeep : ∀ (e : Ev), hdrCalls acc ≠ [] → hdrCalls (acc ++ [e]) ≠ [] := by
    intro e hne; rw [hdrCalls_snoc]; simp [hne]
  cases e with
  | regB k =>
    cases ph with
    | idle =>
      simp [Scan.next, Scan.quiet] at h; subst h
      obtain ⟨g1, g2, g3⟩ := gp
      exact ⟨by ss, by ss, by ss; exact g1, by ss; exact g2, pre_snoc g3 rfl⟩
    | running rest => simp [Scan.next, Scan.quiet] at h
    | out pend =>
      cases pend with
      | nil =>
        simp [Scan.next, Scan.quiet] at h; subst h
        exact ⟨by ss, by ss, outKeep _ gp⟩
      | cons x xs => simp [Scan.next, Scan.quiet] at h
  | regA k =>
    cases ph with
    | idle =>
      simp [Scan.next, Scan.quiet] at h; subst h
      obtain ⟨g1, g2, g3⟩ := gp
      exact ⟨by ss, by ss, by ss; exact g1, by ss; exact g2, pre_snoc g3 rfl⟩
    | running rest => simp [Scan.next, Scan.quiet] at h
    | out pend =>
      cases pend with
      | nil =>
        simp [Scan.next, Scan.quiet] at h; subst h
        exact ⟨by ss, by ss, outKeep _ gp⟩
      | cons x xs => simp [Scan.next, Scan.quiet] at h
  | runB k =>
    cases ph with
    | idle =>
      obtain ⟨g1, g2, g3⟩ := gp
      cases hb : regBs acc with
      | nil => simp [Scan.next, hb] at h
      | cons x xs =>
        simp only [Scan.next, hb] at h
        split at h
        · rename_i hx
          simp at h; subst h; subst hx
          exact ⟨by ss; exact hb.symm, by ss, by ss; rw [g1, hb]; rfl, by ss; exact g2, pre_snoc g3 rfl⟩
        · simp at h
    | running rest =>
      obtain ⟨g1, g2, g3⟩ := gp
      cases rest with
      | nil => simp [Scan.next] at h
      | cons x xs =>
        simp only [Scan.next] at h
        split at h
        · rename_i hx
          simp at h; subst h; subst hx
          exact ⟨by ss, by ss, by ss; simpa using g1, by ss; exact g2, pre_snoc g3 rfl⟩
        · simp at h
    | out pend => simp [Scan.next] at h
  | hdr c =>
    have hne : hdrCalls (acc ++ [Ev.hdr c]) ≠ [] := by rw [hdrCalls_snoc]; simp [isHdr?]
    cases ph with
    | idle =>
      simp only [Scan.next] at h
      split at h
      · simp at h; subst h
        exact ⟨by ss, by ss, hne⟩
      · simp at h
    | running rest =>
      cases rest with
      | nil =>
        simp [Scan.next] at h; subst h
        exact ⟨by ss, by ss, hne⟩
      | cons x xs => simp [Scan.next] at h
    | out pend => simp [Scan.next] at h
  | impl => simp [Scan.next] at h
  | body k =>
    cases ph with
    | idle => simp [Scan.next] at h
    | running rest => simp [Scan.next] at h
    | out pend =>
      cases pend with
      | nil =>
        simp [Scan.next] at h; subst h
        exact ⟨by ss, by ss, outKeep _ gp⟩
      | cons x xs => simp [Scan.next] at h
  | runA k =>
    cases ph with
    | idle => simp [Scan.next] at h
    | running rest => simp [Scan.next] at h
    | out pend =>
      cases pend with
      | nil => simp [Scan.next] at h
      | cons x xs =>
        simp only [Scan.next] at h
        split at h
        · simp at h; subst h
          exact ⟨by ss, by ss, outKeep _ gp⟩
        · simp at h
  | rflush =>
    cases ph with
    | idle => simp [Scan.next] at h
    | running rest => simp [Scan.next] at h
    | out pend =>
      cases pend with
      | nil =>
        simp [Scan.next] at h; subst h
        exact ⟨by ss, by ss, outKeep _ gp⟩
      | cons x xs => simp [Scan.next] at h
  | warn =>
    cases ph with
    | idle => simp [Scan.next] at h
    | running rest => simp [Scan.next] at h
    | out pend =>
      cases pend with
      | nil =>
        simp [Scan.next] at h; subst h
        exact ⟨by ss, by ss, outKeep _ gp⟩
      | cons x xs => simp [Scan.next] at h

theorem good_scan (l : List Ev) : ∀ (σ σ' : Scan) (acc : List Ev), Good σ acc →
    scanFrom σ l = some σ' → Good σ' (acc ++ l) := by
  induction l with
  | nil => intro σ σ' acc g h; simp [scanFrom] at h; subst h; simpa using g
  | cons e es ih =>
    intro σ σ' acc g h
    simp only [scanFrom] at h
    cases hn : σ.next e with
    | none => simp [hn] at h
    | some σ1 =>
      simp only [hn] at h
      have := ih σ1 σ' (acc ++ [e]) (good_step g hn) h
      simpa using this

/-- once the headers are out, the scanner accepts no before-hook execution and no further
    `WriteHeader` call -/
theorem scan_out_forever (post : List Ev) : ∀ (σ σ' : Scan), (∃ p, σ.ph = .out p) →
    scanFrom σ post = some σ' → runBs post = [] ∧ hdrCalls post = [] ∧ ∃ p, σ'.ph = .out p := by
  induction post with
  | nil => intro σ σ' hp h; simp [scanFrom] at h; subst h; exact ⟨rfl, rfl, hp⟩
  | cons e es ih =>
    intro σ σ' hp h
    obtain ⟨b, a, ph⟩ := σ
    obtain ⟨p, hp⟩ := hp
    simp only at hp; subst hp
    simp only [scanFrom] at h
    cases hn : Scan.next ⟨b, a, .out p⟩ e with
    | none => simp [hn] at h
    | some σ1 =>
      simp only [hn] at h
      have key : (∃ p', σ1.ph = .out p') ∧ isRunB? e = none ∧ isHdr? e = none := by
        cases e <;> cases p <;> simp [Scan.next, Scan.quiet] at hn <;>
          first
          | (subst hn; exact ⟨⟨_, rfl⟩, rfl, rfl⟩)
          | (obtain ⟨_, hn⟩ := hn; subst hn; exact ⟨⟨_, rfl⟩, rfl, rfl⟩)
      obtain ⟨k1, k2, k3⟩ := key
      obtain ⟨i1, i2, i3⟩ := ih σ1 σ' k1 h
      refine ⟨?_, ?_, i3⟩
      · have : runBs (e :: es) = (isRunB? e).toList ++ runBs es := by cases e <;> rfl
        rw [this, k2, i1]; rfl
      · have : hdrCalls (e :: es) = (isHdr? e).toList ++ hdrCalls es := by cases e <;> rfl
        rw [this, k3, i2]; rfl

/-- **meaning of acceptance, before-hooks**: in an accepted trace, whatever precedes the
    (first) `WriteHeader` call consists only of hook registrations and before-hook
    executions; the before-hooks executed there are exactly the before-hooks registered
    there, each once, in registration order; and after it no before-hook runs and no second
    `WriteHeader` call reaches the writer. -/
theorem scan_before_once {pre post : List Ev} {c : Nat} {σ : Scan}
    (h : scanFrom {} (pre ++ .hdr c :: post) = some σ) :
    runBs pre = regBs pre ∧ (∀ e ∈ pre, isPre e = true) ∧ runBs post = [] ∧ hdrCalls post = [] := by
  rw [scanFrom_append] at h
  cases h1 : scanFrom {} pre with
  | none => simp [h1] at h
  | some σ1 =>
    simp only [h1, Option.bind, scanFrom] at h
    have g := good_scan pre {} σ1 [] good_init h1
    simp only [List.nil_append] at g
    obtain ⟨b, a, ph⟩ := σ1
    obtain ⟨gb, ga, gp⟩ := g
    simp only at gb ga gp
    cases hn : Scan.next ⟨b, a, ph⟩ (.hdr c) with
    | none => simp [hn] at h
    | some σ2 =>
      simp only [hn] at h
      cases ph with
      | idle =>
        simp only [Scan.next] at hn
        split at hn
        · rename_i hb
          simp at hn; subst hn
          obtain ⟨g1, _, g3⟩ := gp
          obtain ⟨o1, o2, _⟩ := scan_out_forever post _ σ ⟨[], rfl⟩ h
          exact ⟨by rw [g1, ← gb, hb], g3, o1, o2⟩
        · simp at hn
      | running rest =>
        cases rest with
        | nil =>
          simp [Scan.next] at hn; subst hn
          obtain ⟨g1, _, g3⟩ := gp
          obtain ⟨o1, o2, _⟩ := scan_out_forever post _ σ ⟨[], rfl⟩ h
          exact ⟨by simpa using g1, g3, o1, o2⟩
        | cons x xs => simp [Scan.next] at hn
      | out p => simp [Scan.next] at hn

/-- after a body write the scanner only comes back to a quiet state through the executions
    of exactly the owed after-hooks, in order, immediately -/
theorem scan_pending_consumed (pend : List Nat) : ∀ (post : List Ev) (b a : List Nat) (σ' : Scan),
    scanFrom ⟨b, a, .out pend⟩ post = some σ' → σ'.quiet = true → pend.map .runA <+: post := by
  induction pend with
  | nil => intro post b a σ' _ _; simp
  | cons x xs ih =>
    intro post b a σ' h hq
    cases post with
    | nil => simp [scanFrom] at h; subst h; simp [Scan.quiet] at hq
    | cons e es =>
      simp only [scanFrom] at h
      cases hn : Scan.next ⟨b, a, .out (x :: xs)⟩ e with
      | none => simp [hn] at h
      | some σ1 =>
        simp only [hn] at h
        cases e <;> simp [Scan.next, Scan.quiet] at hn
        obtain ⟨hx, hn⟩ := hn
        subst hn; subst hx
        have := ih es b a σ' h hq
        simpa using this

/-- **meaning of acceptance, after-hooks**: in an accepted complete trace every body write
    happens after the headers went out and is immediately followed by the execution of
    exactly the after-hooks registered before it, each once, in registration order. -/
theorem scan_after_each_write {pre post : List Ev} {k : Nat} {σ : Scan}
    (h : scanFrom {} (pre ++ .body k :: post) = some σ) (hq : σ.quiet = true) :
    (regAs pre).map .runA <+: post ∧ hdrCalls pre ≠ [] := by
  rw [scanFrom_append] at h
  cases h1 : scanFrom {} pre with
  | none => simp [h1] at h
  | some σ1 =>
    simp only [h1, Option.bind, scanFrom] at h
    have g := good_scan pre {} σ1 [] good_init h1
    simp only [List.nil_append] at g
    obtain ⟨b, a, ph⟩ := σ1
    obtain ⟨gb, ga, gp⟩ := g
    simp only at gb ga gp
    cases hn : Scan.next ⟨b, a, ph⟩ (.body k) with
    | none => simp [hn] at h
    | some σ2 =>
      simp only [hn] at h
      cases ph with
      | idle => simp [Scan.next] at hn
      | running rest => simp [Scan.next] at hn
      | out p =>
        cases p with
        | nil =>
          simp [Scan.next] at hn; subst hn
          exact ⟨ga ▸ scan_pending_consumed a post b a σ h hq, gp⟩
        | cons x xs => simp [Scan.next] at hn

/-- an accepted trace contains no implicit send, and flushes only after the headers -/
theorem scan_no_implicit (tr : List Ev) : ∀ (σ σ' : Scan), scanFrom σ tr = some σ' → Ev.impl ∉ tr := by
  induction tr with
  | nil => intro _ _ _; simp
  | cons e es ih =>
    intro σ σ' h
    simp only [scanFrom] at h
    cases hn : σ.next e with
    | none => simp [hn] at h
    | some σ1 =>
      simp only [hn] at h
      have := ih σ1 σ' h
      cases e <;> simp_all [Scan.next]

theorem scan_flush_after_headers {pre post : List Ev} {σ : Scan}
    (h : scanFrom {} (pre ++ .rflush :: post) = some σ) : hdrCalls pre ≠ [] := by
  rw [scanFrom_append] at h
  cases h1 : scanFrom {} pre with
  | none => simp [h1] at h
  | some σ1 =>
    simp only [h1, Option.bind, scanFrom] at h
    have g := good_scan pre {} σ1 [] good_init h1
    simp only [List.nil_append] at g
    obtain ⟨b, a, ph⟩ := σ1
    obtain ⟨_, _, gp⟩ := g
    cases hn : Scan.next ⟨b, a, ph⟩ .rflush with
    | none => simp [hn] at h
    | some σ2 =>
      cases ph with
      | idle => simp [Scan.next] at hn
      | running rest => simp [Scan.next] at hn
      | out p => exact gp

/-! ## the hook clauses for every program -/

/-- the trace of every program is accepted by the specification, and ends quiet -/
theorem C06_trace_ok (p cap : Nat) (fl : Bool) (prog : List Op) : traceOK (run (init p cap fl) prog).trace = true := by
  have h := (C06_inv p cap fl prog).trace
  simp only [traceOK, h]
  exact scanOf_quiet _

/-- **C06_before_hooks_once** — for every program: if the underlying writer received a
    `WriteHeader(c)` call, then before that call nothing but hook registrations and
    before-hook executions happened (no body byte, no flush, no after-hook, no implicit
    send), the before-hooks that ran are exactly those registered before it — once each, in
    order — and afterwards no before-hook runs again and no further `WriteHeader` call
    reaches the writer. -/
theorem C06_before_hooks_once (p cap : Nat) (fl : Bool) (prog : List Op) (pre post : List Ev) (c : Nat)
    (htr : (run (init p cap fl) prog).trace = pre ++ .hdr c :: post) :
    runBs pre = regBs pre ∧ (∀ e ∈ pre, isPre e = true) ∧ runBs post = [] ∧ hdrCalls post = [] := by
  have h := (C06_inv p cap fl prog).trace
  rw [htr] at h
  exact scan_before_once h

/-- before-hooks never run while the response stays uncommitted -/
theorem C06_before_hooks_not_without_headers (p cap : Nat) (fl : Bool) (prog : List Op)
    (hc : (run (init p cap fl) prog).committed = false) :
    runBs (run (init p cap fl) prog).trace = [] ∧ ∀ e ∈ (run (init p cap fl) prog).trace, isPre e = true := by
  have h := (C06_inv p cap fl prog).trace
  have g := good_scan _ {} _ [] good_init h
  simp only [List.nil_append] at g
  have gp := g.ph
  simp only [scanOf, hc, Bool.false_eq_true, if_false, GoodPh] at gp
  exact ⟨gp.1, gp.2.2⟩

/-- **C06_after_hooks_each_write** — for every program: every body write that reaches the
    underlying writer comes after the headers and is immediately followed by the execution
    of exactly the after-hooks registered up to then, once each, in registration order. -/
theorem C06_after_hooks_each_write (p cap : Nat) (fl : Bool) (prog : List Op) (pre post : List Ev) (k : Nat)
    (htr : (run (init p cap fl) prog).trace = pre ++ .body k :: post) :
    (regAs pre).map .runA <+: post ∧ hdrCalls pre ≠ [] := by
  have h := (C06_inv p cap fl prog).trace
  rw [htr] at h
  exact scan_after_each_write h (scanOf_quiet _)

/-- **C06_headers_at_most_once** — for every program the underlying writer receives at most
    one `WriteHeader` call, never has to send an implicit 200 of its own, and is flushed only
    after the headers. -/
theorem C06_headers_at_most_once (p cap : Nat) (fl : Bool) (prog : List Op) :
    (run (init p cap fl) prog).raw.calls.length ≤ 1 ∧ Ev.impl ∉ (run (init p cap fl) prog).trace :=
  ⟨(C06_inv p cap fl prog).calls_le, scan_no_implicit _ _ _ (C06_inv p cap fl prog).trace⟩

/-- **C06_committed_iff_headers_out**, **C06_status_size_match** — the state clauses of the
    invariant, spelled out for every program. -/
theorem C06_committed_iff_headers_out (p cap : Nat) (fl : Bool) (prog : List Op) :
    (run (init p cap fl) prog).committed = true ↔ ∃ c, (run (init p cap fl) prog).raw.sent = some c := by
  have h := (C06_inv p cap fl prog).comm
  rw [h, Option.isSome_iff_exists]

theorem C06_status_size_match (p cap : Nat) (fl : Bool) (prog : List Op) (c : Nat)
    (hs : (run (init p cap fl) prog).raw.sent = some c) :
    (run (init p cap fl) prog).status = c ∧
    (run (init p cap fl) prog).size = (run (init p cap fl) prog).raw.body ∧
    (run (init p cap fl) prog).size = bodyBytes (run (init p cap fl) prog).trace := by
  have h := C06_inv p cap fl prog
  have hc : (run (init p cap fl) prog).committed = true := by rw [h.comm, hs]; rfl
  have := (h.sent hc).1
  rw [hs] at this
  exact ⟨(Option.some.inj this).symm, h.size, h.size.trans h.bodyTrace.symm⟩

/-! ## the header block goes out once: what it carried is fixed at commit time -/

/-- what the header block carried when it went out: Content-Type, Location, Content-Disposition -/
def sh (s : St) : Nat × Bool × Nat := (s.raw.sentCt, s.raw.sentLoc, s.raw.sentDisp)

theorem sh_writeHeader_sent {t : St} (ht : Sent t) (c : Nat) : sh (writeHeader t c) = sh t := by
  rw [writeHeader_committed_eq ht.1]; rfl

theorem sh_write_sent {t : St} (ht : Sent t) (n : Nat) : sh (write t n).1 = sh t := by
  obtain ⟨hc, v, hs⟩ := ht
  rw [write_committed_eq hc hs]; rfl

theorem sh_flush_sent {t : St} (ht : Sent t) : sh (flush t) = sh t := by
  obtain ⟨hc, v, hs⟩ := ht
  unfold flush
  rw [ensureCommitted_of_committed hc]
  show sh (if t.raw.canFlush = true then rawFlush t else t) = sh t
  split
  · rw [rawFlush_sent hs]; rfl
  · rfl

theorem sh_writes_sent {t : St} (ht : Sent t) (l : List Nat) : sh (writes t l).1 = sh t := by
  induction l generalizing t with
  | nil => rfl
  | cons n ns ih =>
    simp only [writes]
    have h1 := sh_write_sent ht n
    split
    · simpa using h1
    · rw [ih (Sent.of_hv (hv_write_sent ht n) ht)]; exact h1

theorem sh_writeCT (t : St) (v : Nat) : sh (writeCT t v) = sh t := by
  unfold writeCT; split <;> rfl

/-- content type, `WriteHeader`, writes — on a response whose headers are out -/
theorem sh_serve_sent {t : St} (ht : Sent t) (ct c : Nat) (l : List Nat) :
    sh (writes (writeHeader (writeCT t ct) c) l).1 = sh t := by
  rw [sh_writes_sent ((ht.writeCT ct).writeHeader c), sh_writeHeader_sent (ht.writeCT ct), sh_writeCT]

theorem sh_step_sent {s : St} (hs : Sent s) (op : Op) : sh (step s op).1 = sh s := by
  cases op with
  | writeHeader c => exact sh_writeHeader_sent hs c
  | write n => exact sh_write_sent hs n
  | flush => exact sh_flush_sent hs
  | before k => rfl
  | after k => rfl
  | json c k ok =>
    have h1 : Sent (writeCT s ctJSON) := hs.writeCT _
    have h3 : Sent (jsonPreset (writeCT s ctJSON) c) := by
      unfold jsonPreset
      rw [if_pos h1.1, ← writeHeader_committed_eq h1.1 c]; exact h1.writeHeader c
    have h2 : sh (jsonPreset (writeCT s ctJSON) c) = sh s := by
      unfold jsonPreset
      rw [if_pos h1.1, ← writeHeader_committed_eq h1.1 c, sh_writeHeader_sent h1, sh_writeCT]
    simp only [step]
    split
    · exact (sh_write_sent h3 _).trans h2
    · exact h2
  | blob c ct n =>
    have h1 := (hs.writeCT ct).writeHeader c
    show sh (write (writeHeader (writeCT s ct) c) n).1 = sh s
    rw [sh_write_sent h1, sh_writeHeader_sent (hs.writeCT ct), sh_writeCT]
  | noContent c => exact sh_writeHeader_sent hs c
  | redirect c =>
    simp only [step]
    split
    · rfl
    · have h1 : Sent { s with loc := true } := hs
      exact sh_writeHeader_sent h1 c
  | stream c chunks rerr => exact sh_serve_sent hs _ c _
  | xmlBlob c n => exact sh_serve_sent hs ctXML c [xmlHeaderLen, n]
  | jsonpBlob c cb n => exact sh_serve_sent hs ctJS c [cb + 1, n, 2]
  | flushRC => exact sh_flush_sent hs
  | flushFE => exact sh_flush_sent hs
  | unwrap => rfl
  | copy chunks rerr => exact sh_writes_sent hs _
  | writeString n => exact sh_write_sent hs n
  | copyWT n => exact sh_writes_sent hs _
  | jsonp c cb k ok => exact sh_serve_sent hs _ c _
  | xml c k ok => exact sh_serve_sent hs _ c _
  | render c n ok =>
    cases ok with
    | true =>
      have h1 := (hs.writeCT ctHTML).writeHeader c
      show sh (write (writeHeader (writeCT s ctHTML) c) n).1 = sh s
      rw [sh_write_sent h1, sh_writeHeader_sent (hs.writeCT _), sh_writeCT]
    | false => rfl
  | file found n disp ct =>
    have hd : hv (if disp = 0 then s else { s with disp := disp }) = hv s := by split <;> rfl
    have hsd : Sent (if disp = 0 then s else { s with disp := disp }) := Sent.of_hv hd hs
    have hh : sh (if disp = 0 then s else { s with disp := disp }) = sh s := by split <;> rfl
    cases found with
    | true => exact (sh_serve_sent hsd ct 200 _).trans hh
    | false => exact hh
  | hijack => rfl

theorem run_append (s : St) (a b : List Op) : run s (a ++ b) = run (run s a) b := by
  simp [run, List.foldl_append]

theorem sh_run_sent {s : St} (h : Inv s) (hc : s.committed = true) (prog : List Op) :
    sh (run s prog) = sh s := by
  induction prog generalizing s with
  | nil => rfl
  | cons op ops ih =>
    have h1 := (C06_committed_stable h hc op).1
    exact (ih (inv_step h op) h1).trans (sh_step_sent (h.toSent hc) op)

/-- **C06_sent_headers_stable** — the header block goes out once: whatever a program does
    after the commit (helpers that set Content-Type, Redirect setting Location,
    Attachment/Inline setting Content-Disposition), the Content-Type / Location /
    Content-Disposition the underlying writer sent stay what they were at commit time. -/
theorem C06_sent_headers_stable (p cap : Nat) (fl : Bool) (prog later : List Op)
    (hc : (run (init p cap fl) prog).committed = true) :
    sh (run (init p cap fl) (prog ++ later)) = sh (run (init p cap fl) prog) := by
  rw [run_append]
  exact sh_run_sent (C06_inv p cap fl prog) hc later

/-- **C06_headers_snapshot_at_commit** — the commit takes the header map as it is at that
    moment: a Content-Disposition put there by an earlier `Attachment` of a missing file
    goes out with it. -/
theorem C06_headers_snapshot_at_commit {s : St} (h : Inv s) (hc : s.committed = false) (c : Nat) :
    sh (writeHeader s c) = (s.ct, s.loc, s.disp) := by
  rw [writeHeader_uncommitted_eq hc (h.sent_none hc)]; rfl

/-! ## a writer without `http.Flusher`, `Hijack` -/

theorem ensureCommitted_raw_static (s : St) :
    (ensureCommitted s).raw.canFlush = s.raw.canFlush ∧ (ensureCommitted s).raw.flushes = s.raw.flushes ∧
    (ensureCommitted s).raw.body = s.raw.body := by
  unfold ensureCommitted writeHeader rawWriteHeader
  by_cases hc : s.committed = true
  · simp [hc]
  · by_cases h0 : s.status = 0 <;> simp [hc, h0, emit, rawSend] <;> split <;> simp

/-- **C06_flush_without_flusher** — the F5 clause on a writer that cannot flush: `Flush`
    (which panics there) has committed exactly like a `Write` would have — `Committed` is
    true, the invariant holds in the state the recovering caller sees — and the underlying
    writer received no flush and no body byte. -/
theorem C06_flush_without_flusher {s : St} (h : Inv s) (hf : s.raw.canFlush = false) :
    flush s = ensureCommitted s ∧ (flush s).committed = true ∧ Inv (flush s) ∧
    (flush s).raw.flushes = s.raw.flushes ∧ (flush s).raw.body = s.raw.body := by
  have hs := ensureCommitted_raw_static s
  have he : flush s = ensureCommitted s := by
    show (if (ensureCommitted s).raw.canFlush = true then rawFlush (ensureCommitted s)
          else ensureCommitted s) = ensureCommitted s
    rw [hs.1, hf]; rfl
  rw [he]
  exact ⟨rfl, ensureCommitted_committed s, inv_ensureCommitted h, hs.2.1, hs.2.2⟩

/-- **C06_hijack_touches_nothing** — `Response.Hijack` leaves the whole state alone. -/
theorem C06_hijack_touches_nothing (s : St) : (step s .hijack).1 = s := rfl

/-! ## sequences of requests on one recycled context -/

/-- **reset_eq_init** — `Context.Reset` (response.reset on a fresh writer) leaves NOTHING of
    the earlier request: the state is the initial one with pending status 200. -/
theorem reset_eq_init (s : St) (cap : Nat) (fl : Bool) : reset s cap fl = init 200 cap fl := rfl

theorem runSnaps_fst (s : St) (ops : List Op) : (runSnaps s ops).1 = run s ops := by
  induction ops generalizing s with
  | nil => rfl
  | cons o os ih =>
    show (runSnaps (step s o).1 os).1 = run (step s o).1 os
    exact ih _

/-- the driver's `runSeqObs` visits the states of `runSeq` -/
theorem runSeqObs_fst (cap : Nat) (fl : Bool) (s : St) (progs : List (List Op)) :
    (runSeqObs cap fl s progs).map (·.1) = runSeq cap fl s progs := by
  induction progs generalizing s with
  | nil => rfl
  | cons p ps ih =>
    simp only [runSeqObs, runSeq, List.map_cons, runSnaps_fst]
    rw [ih]

theorem runSeq_getElem? (cap : Nat) (fl : Bool) (s0 : St) (progs : List (List Op)) (i : Nat) :
    (runSeq cap fl s0 progs)[i]? =
      (progs[i]?).map (fun prog => run (if i = 0 then s0 else init 200 cap fl) prog) := by
  induction progs generalizing s0 i with
  | nil => simp [runSeq]
  | cons p ps ih =>
    cases i with
    | zero => simp [runSeq]
    | succ j =>
      simp only [runSeq, List.getElem?_cons_succ]
      rw [ih, reset_eq_init]
      simp

/-- **C06_seq_fresh** — on a recycled context, the `i`-th request of ANY sequence of handler
    programs ends in exactly the state a brand-new response would end in (pending status 200
    for every request after the first): hooks, status, size, committed flag, header map —
    nothing of an earlier request survives, whatever that request did or left undone. -/
theorem C06_seq_fresh (p cap : Nat) (fl : Bool) (progs : List (List Op)) (i : Nat) :
    (runSeq cap fl (init p cap fl) progs)[i]? =
      (progs[i]?).map (fun prog => run (init (if i = 0 then p else 200) cap fl) prog) := by
  rw [runSeq_getElem?]
  cases i <;> simp

theorem runSeq_length (cap : Nat) (fl : Bool) (s0 : St) (progs : List (List Op)) :
    (runSeq cap fl s0 progs).length = progs.length := by
  induction progs generalizing s0 with
  | nil => rfl
  | cons p ps ih => simp [runSeq, ih]

/-- **C06_inv_seq** — the bookkeeping invariant holds at the end of every request of every
    sequence of requests served on one context. -/
theorem C06_inv_seq (p cap : Nat) (fl : Bool) (progs : List (List Op)) :
    ∀ s ∈ runSeq cap fl (init p cap fl) progs, Inv s := by
  intro s hs
  obtain ⟨i, hi, rfl⟩ := List.getElem_of_mem hs
  have h := C06_seq_fresh p cap fl progs i
  rw [List.getElem?_eq_getElem hi] at h
  cases hp : progs[i]? with
  | none => rw [hp] at h; simp at h
  | some prog =>
    rw [hp] at h
    simp only [Option.map_some, Option.some.injEq] at h
    rw [h]
    exact C06_inv _ cap fl prog

/-- **C06_seq_first_status** — the `i`-th request sends the first status ITS OWN program
    sets (`firstStatus` started from 200, from `p` for the very first request): a status
    preset by an earlier request that never committed is not sent, and `Status` reports the
    status of this request. -/
theorem C06_seq_first_status (p cap : Nat) (fl : Bool) (progs : List (List Op)) (i : Nat)
    (prog : List Op) (s : St) (hp : progs[i]? = some prog)
    (hs : (runSeq cap fl (init p cap fl) progs)[i]? = some s) :
    s.raw.sent = firstStatus (if i = 0 then p else 200) prog ∧
    s.raw.calls = (firstStatus (if i = 0 then p else 200) prog).toList ∧
    (∀ c, firstStatus (if i = 0 then p else 200) prog = some c → s.status = c) := by
  rw [C06_seq_fresh, hp] at hs
  simp only [Option.map_some, Option.some.injEq] at hs
  subst hs
  exact C06_first_status_wins _ cap fl prog

/-- **C06_seq_trace_ok** — the events recorded during each request ALONE are accepted by the
    hook/order specification started from the empty state: before/after-hooks registered by
    an earlier request never run in a later one. -/
theorem C06_seq_trace_ok (p cap : Nat) (fl : Bool) (progs : List (List Op)) :
    ∀ s ∈ runSeq cap fl (init p cap fl) progs, traceOK s.trace = true := by
  intro s hs
  have h := (C06_inv_seq p cap fl progs s hs).trace
  simp only [traceOK, h]
  exact scanOf_quiet _

/-! ## non-vacuity: concrete programs that exercise the hypotheses -/

/-- flush first, then a late status, with hooks: 200 goes out once, the hook runs before it -/
example : (run (init 200 100) [.before 7, .flush, .writeHeader 404, .write 3]).trace
    = [.regB 7, .runB 7, .hdr 200, .rflush, .warn, .body 3] := by decide
example : firstStatus 200 [.before 7, .flush, .writeHeader 404, .write 3] = some 200 := by decide
/-- helper after commit (F6 shape): status stays what was sent, the late status is logged -/
example : hv (run (init 200 100) [.blob 200 1 2, .json 500 2 true])
    = ⟨true, 200, some 200, [200], 1⟩ := by decide
/-- unserialisable JSON presets the pending status; the next write sends it -/
example : firstStatus 200 [.json 418 0 false, .after 1, .write 1] = some 418 := by decide
/-- a short write: 5 bytes offered, capacity 3 — Size counts what was written -/
example : (run (init 0 3) [.after 2, .write 5]).size = 3 ∧
    (run (init 0 3) [.after 2, .write 5]).trace = [.regA 2, .hdr 200, .body 3, .runA 2] := by decide
/-- the hypotheses of the trace theorems are met by a real trace split -/
example : (run (init 200 100) [.after 1, .before 2, .jsonpBlob 201 2 4]).trace
    = [.regA 1, .regB 2, .runB 2] ++ .hdr 201 :: [.body 3, .runA 1, .body 4, .runA 1, .body 2, .runA 1] := by
  decide

/-- a first flush issued through http.ResponseController commits like `Flush` itself: the
    before-hook runs, 200 goes out once, the later status is ignored and logged -/
example : (run (init 200 100) [.before 7, .flushRC, .writeHeader 404]).trace
    = [.regB 7, .runB 7, .hdr 200, .rflush, .warn] := by decide
/-- io.Copy into the response: every chunk is a `Write`, so the after-hook runs after each -/
example : (run (init 200 100) [.after 1, .copy [2, 0, 3] false]).trace
    = [.regA 1, .hdr 200, .body 2, .runA 1, .body 3, .runA 1] := by decide
example : firstStatus 0 [.unwrap, .copy [0] false, .copy [0, 4] true, .writeHeader 500] = some 200 := by decide

/-! ### round 4 operations -/

/-- JSONP commits BEFORE serialising: an unserialisable value leaves a committed 201 response
    with `cb(` (3 bytes) written; the later status write is ignored and logged -/
example : (run (init 200 100) [.jsonp 201 2 0 false, .writeHeader 500]).trace
    = [.hdr 201, .body 3, .warn] := by decide
example : (step (init 200 100) (.jsonp 201 2 0 false)).2.err = true := by decide
/-- XML: header (39 bytes) then the element in one write; short write inside the element -/
example : (run (init 200 45) [.after 1, .xml 202 3 true]).trace
    = [.regA 1, .hdr 202, .body 39, .runA 1, .body 6, .runA 1] := by decide
example : firstStatus 200 [.xml 418 0 false, .writeHeader 500] = some 418 := by decide
/-- Render without a (working) renderer touches nothing; with one it is HTMLBlob -/
example : firstStatus 200 [.render 500 4 false, .render 203 4 true] = some 203 := by decide
example : step (init 200 9) (.render 203 4 true) = step (init 200 9) (.blob 203 ctHTML 4) := by decide
/-- Attachment of a missing file leaves Content-Disposition in the header map; it goes out
    with the later commit.  A found file commits with 200 whatever was pending. -/
example : (run (init 200 100) [.file false 0 1 7, .blob 201 1 2]).raw.sentDisp = 1 := by decide
example : firstStatus 200 [.json 202 0 false, .file true 5 0 7] = some 200 := by decide
example : (run (init 200 100) [.before 3, .file true 5 2 7, .file true 2 0 7]).trace
    = [.regB 3, .runB 3, .hdr 200, .body 5, .warn, .body 2] := by decide
/-- the hypothesis of `C06_sent_headers_stable` is met; a late Inline does not change what went out -/
example : (run (init 200 100) [.file false 0 1 7, .blob 201 1 2]).committed = true ∧
    sh (run (init 200 100) ([.file false 0 1 7, .blob 201 1 2] ++ [.file true 3 2 7, .redirect 302]))
      = (1, false, 1) := by decide
/-- Hijack changes nothing, before or after commit -/
example : run (init 0 5) [.hijack, .write 1, .hijack] = run (init 0 5) [.write 1] := by decide
/-- flush on a writer without http.Flusher: commits (hook runs, 200 out), no flush reaches
    the writer, the later status write is ignored and logged -/
example : (run (init 200 100 false) [.before 7, .flush, .writeHeader 404]).trace
    = [.regB 7, .runB 7, .hdr 200, .warn] := by decide
example : (step (init 200 100 false) .flushRC).2.err = true ∧
    (step (init 200 100 true) .flushRC).2.err = false := by decide
example : (init 200 100 false).raw.canFlush = false := rfl

/-! ### sequences -/

/-- request A presets 202 and never commits, registers hooks; request B just writes: B sends
    200, none of A's hooks run in B -/
example : (runSeq 100 true (init 200 100) [[.before 1, .after 2, .json 202 0 false], [.write 2]]).map
      (fun s => (s.raw.sent, s.trace))
    = [(none, [.regB 1, .regA 2]), (some 200, [.hdr 200, .body 2])] := by decide
/-- request A commits 404 with 5 bytes; request B starts from Size 0 / uncommitted -/
example : (runSeq 100 true (init 0 100) [[.blob 404 1 5], [.hijack], [.flush]]).map
      (fun s => (s.committed, s.status, s.size))
    = [(true, 404, 5), (false, 200, 0), (true, 200, 0)] := by decide
/-- the hypotheses of `C06_seq_first_status` are met by a concrete sequence -/
example : ([[.json 202 0 false], [.write 2]] : List (List Op))[1]? = some [.write 2] ∧
    ((runSeq 100 true (init 200 100) [[.json 202 0 false], [.write 2]])[1]?).map (·.raw.sent)
      = some (some 200) := by decide
/-- what a `reset` that forgot the pending status of an uncommitted response would do (the
    shape of an early return when `!Committed`): the second request goes out with 202 -/
example : (run { reset (run (init 200 100) [.json 202 0 false]) 100 true with status := 202 } [.write 2]).raw.sent
    = some 202 := by decide

/-! ## the unrepaired code violates the invariant (F5, F6)

`Response.Flush` as it was (forwarding without committing) and `Context.json` as it was
(unconditional status preset), plugged into the same model, break `Inv` on two-step
programs — which is what the harness observed on the unchanged tree. -/

def flushUnfixed (s : St) : St := rawFlush s

/-- F5: `Flush` then `WriteHeader(404)`: the writer sent 200 (implicitly), received a second
    call, and `Committed` was false in between -/
example : ¬ Inv (flushUnfixed (init 200 10)) := by
  intro h; have := h.comm; revert this; decide
example : (writeHeader (flushUnfixed (init 200 10)) 404).raw.calls = [404] ∧
    (writeHeader (flushUnfixed (init 200 10)) 404).raw.sent = some 200 ∧
    (writeHeader (flushUnfixed (init 200 10)) 404).status = 404 := by decide

def jsonUnfixed (s : St) (c k : Nat) : St := (write { writeCT s ctJSON with status := c } (k + 3)).1

/-- F6: `String(200)` then `JSON(500)`: `Status` says 500, the wire says 200 -/
example : ¬ Inv (jsonUnfixed (step (init 200 100) (.blob 200 1 2)).1 500 2) := by
  intro h; have := (h.sent (by decide)).1; revert this; decide

/-! ## a writer that refuses invalid status codes (round 5)

`stepS strict` is what the driver runs.  For a writer that accepts every code (`strict =
false`), for a committed response and for valid codes it IS `step`, so every theorem above
applies to what the driver computes.  On a refusing writer an invalid code aborts the commit. -/

theorem stepS_lenient (s : St) (op : Op) : stepS false s op = step s op := rfl

theorem runS_lenient (s : St) (prog : List Op) : runS false s prog = run s prog := rfl

theorem runSnapsS_lenient (s : St) (prog : List Op) : runSnapsS false s prog = runSnaps s prog := by
  induction prog generalizing s with
  | nil => rfl
  | cons o os ih => simp [runSnapsS, runSnaps, stepS_lenient, ih]

/-- the driver's function on a lenient writer is the proven one -/
theorem runSeqObsS_lenient (cap : Nat) (fl : Bool) (s : St) (progs : List (List Op)) :
    runSeqObsS false cap fl s progs = runSeqObs cap fl s progs := by
  induction progs generalizing s with
  | nil => rfl
  | cons p ps ih => simp [runSeqObsS, runSeqObs, runSnapsS_lenient, ih]

theorem stepS_committed (b : Bool) {s : St} (hc : s.committed = true) (op : Op) :
    stepS b s op = step s op := by
  simp [stepS, hc]

/-- valid codes never meet the refusal -/
theorem stepS_valid (b : Bool) (s s' : St) (op : Op) (c : Nat)
    (ha : commitAttempt s op = some (s', c)) (hv : validCode c = true) :
    stepS b s op = step s op := by
  unfold stepS
  split
  · simp [ha, hv]
  · rfl

/-- the helper's preparations before its `WriteHeader` call touch neither the writer nor the
    hooks nor the recording -/
theorem commitAttempt_frame {s s' : St} {op : Op} {c : Nat} (ha : commitAttempt s op = some (s', c)) :
    s'.raw = s.raw ∧ s'.committed = s.committed ∧ s'.size = s.size ∧ s'.before = s.before ∧
    s'.after = s.after ∧ s'.trace = s.trace := by
  have hw : ∀ v, (writeCT s v).raw = s.raw ∧ (writeCT s v).committed = s.committed ∧
      (writeCT s v).size = s.size ∧ (writeCT s v).before = s.before ∧
      (writeCT s v).after = s.after ∧ (writeCT s v).trace = s.trace := by
    intro v; unfold writeCT; split <;> simp
  cases op <;> simp only [commitAttempt, Option.some.injEq, Prod.mk.injEq] at ha <;>
    (try (simp at ha; done))
  case writeHeader => obtain ⟨rfl, _⟩ := ha; simp
  case noContent => obtain ⟨rfl, _⟩ := ha; simp
  case write => obtain ⟨rfl, _⟩ := ha; simp
  case flush => obtain ⟨rfl, _⟩ := ha; simp
  case flushRC => obtain ⟨rfl, _⟩ := ha; simp
  case flushFE => obtain ⟨rfl, _⟩ := ha; simp
  case copy ch e =>
    split at ha
    · simp at ha
    · simp only [Option.some.injEq, Prod.mk.injEq] at ha; obtain ⟨rfl, _⟩ := ha; simp
  case writeString => obtain ⟨rfl, _⟩ := ha; simp
  case copyWT k =>
    split at ha
    · simp at ha
    · simp only [Option.some.injEq, Prod.mk.injEq] at ha; obtain ⟨rfl, _⟩ := ha; simp
  case json c' k ok =>
    split at ha
    · simp only [Option.some.injEq, Prod.mk.injEq] at ha; obtain ⟨rfl, _⟩ := ha; simpa using hw ctJSON
    · simp at ha
  case blob c' ct n => obtain ⟨rfl, _⟩ := ha; exact hw ct
  case stream => obtain ⟨rfl, _⟩ := ha; exact hw ctStream
  case xmlBlob => obtain ⟨rfl, _⟩ := ha; exact hw ctXML
  case xml => obtain ⟨rfl, _⟩ := ha; exact hw ctXML
  case jsonpBlob => obtain ⟨rfl, _⟩ := ha; exact hw ctJS
  case jsonp => obtain ⟨rfl, _⟩ := ha; exact hw ctJS
  case render c' n ok =>
    split at ha
    · simp only [Option.some.injEq, Prod.mk.injEq] at ha; obtain ⟨rfl, _⟩ := ha; exact hw ctHTML
    · simp at ha

/-- **C06_refused_commit** — on a writer that refuses invalid codes, an operation whose commit
    carries one leaves: `Committed = false`, the writer untouched (no call recorded, nothing
    sent, no byte), `Size` unchanged, `Status` = the refused code, the before-hooks run once
    (in order) and nothing else recorded; the operation fails.  In particular `Committed` still
    tells the truth about the headers. -/
theorem C06_refused_commit {s s' : St} {op : Op} {c : Nat} (hc : s.committed = false)
    (ha : commitAttempt s op = some (s', c)) (hv : validCode c = false) :
    let r := stepS true s op
    r.1.committed = false ∧ r.1.raw = s.raw ∧ r.1.size = s.size ∧ r.1.status = c ∧
    r.1.trace = s.trace ++ s.before.map .runB ∧ r.2.err = true := by
  obtain ⟨f1, f2, f3, f4, _, f6⟩ := commitAttempt_frame ha
  simp [stepS, hc, ha, hv, abortCommit, emit, f1, f2, f3, f4, f6]

/-- the invariant survives a refused commit as long as no before-hook is registered … -/
theorem inv_stepS_nohooks (b : Bool) {s : St} (h : Inv s) (hb : s.before = []) (op : Op) :
    Inv (stepS b s op).1 := by
  unfold stepS
  split
  · rename_i hg
    have hc : s.committed = false := by
      cases hcm : s.committed <;> simp_all
    split
    · rename_i s' c ha
      split
      · exact inv_step h op
      · obtain ⟨f1, f2, f3, f4, f5, f6⟩ := commitAttempt_frame ha
        have h' : Inv s' :=
          { comm := by rw [f1, f2]; exact h.comm
            sent := by rw [f2]; intro hx; simp [hc] at hx
            unsent := by rw [f1, f2]; exact h.unsent
            size := by rw [f1, f3]; exact h.size
            trace := by rw [f6]; have := h.trace; simpa [scanOf, f2, f4, f5] using this
            bodyTrace := by rw [f1, f6]; exact h.bodyTrace
            hdrTrace := by rw [f1, f6]; exact h.hdrTrace }
        have := inv_setStatus h' (by rw [f2]; exact hc) c
        simpa [abortCommit, emit, f4, hb] using this
    · exact inv_step h op
  · exact inv_step h op

theorem writeHeader_before (s : St) (c : Nat) : (writeHeader s c).before = s.before := by
  unfold writeHeader
  split
  · simp [emit]
  · simp only [emit, rawWriteHeader, rawSend]
    split <;> rfl

theorem ensureCommitted_before (s : St) : (ensureCommitted s).before = s.before := by
  unfold ensureCommitted
  split
  · rfl
  · split <;> simp [writeHeader_before]

theorem write_before (s : St) (n : Nat) : (write s n).1.before = s.before := by
  simp only [write, rawWrite, rawImplicit, emit]
  split <;> simp [ensureCommitted_before, rawSend]

theorem writes_before (s : St) (l : List Nat) : (writes s l).1.before = s.before := by
  induction l generalizing s with
  | nil => rfl
  | cons n ns ih =>
    simp only [writes]
    split
    · simpa using write_before s n
    · rw [ih]; exact write_before s n

theorem flush_before (s : St) : (flush s).before = s.before := by
  simp only [flush, rawFlush, rawImplicit, emit]
  split
  · split <;> simp [ensureCommitted_before, rawSend]
  · exact ensureCommitted_before s

theorem writeCT_before (s : St) (v : Nat) : (writeCT s v).before = s.before := by
  unfold writeCT; split <;> rfl

def isBefore : Op → Bool
  | .before _ => true
  | _ => false

/-- only `Response.Before` registers before-hooks -/
theorem step_before (s : St) (op : Op) (hop : isBefore op = false) : (step s op).1.before = s.before := by
  cases op <;> simp only [isBefore] at hop <;> simp only [step]
  case before => cases hop
  case writeHeader => exact writeHeader_before _ _
  case write => exact write_before _ _
  case flush => exact flush_before _
  case after => simp [emit]
  case json c k ok =>
    split
    · rw [write_before]; split <;> simp [emit, writeCT_before]
    · split <;> simp [emit, writeCT_before]
  case blob => rw [write_before, writeHeader_before, writeCT_before]
  case noContent => exact writeHeader_before _ _
  case redirect => split <;> simp [writeHeader_before]
  case stream => rw [writes_before, writeHeader_before, writeCT_before]
  case xmlBlob => rw [writes_before, writeHeader_before, writeCT_before]
  case jsonpBlob => rw [writes_before, writeHeader_before, writeCT_before]
  case flushRC => exact flush_before _
  case flushFE => exact flush_before _
  case copy => exact writes_before _ _
  case writeString => exact write_before _ _
  case copyWT => exact writes_before _ _
  case jsonp => rw [writes_before, writeHeader_before, writeCT_before]
  case xml => rw [writes_before, writeHeader_before, writeCT_before]
  case render c n ok =>
    split
    · rw [write_before, writeHeader_before, writeCT_before]
    · rfl
  case file found n disp ct =>
    split
    · rw [writes_before, writeHeader_before, writeCT_before]; split <;> rfl
    · split <;> rfl

theorem stepS_before (b : Bool) (s : St) (op : Op) (hop : isBefore op = false) :
    (stepS b s op).1.before = s.before := by
  unfold stepS
  split
  · split
    · rename_i s' c ha
      split
      · exact step_before s op hop
      · simp [abortCommit, emit, (commitAttempt_frame ha).2.2.2.1]
    · exact step_before s op hop
  · exact step_before s op hop

/-- **C06_inv_strict_nohooks** — … so for every program that registers no before-hook the
    bookkeeping invariant holds on a refusing writer too, whatever codes it uses and however
    often its commits are refused (the program going on after each refusal, as under Recover). -/
theorem C06_inv_strict_nohooks (p cap : Nat) (fl : Bool) (prog : List Op)
    (hp : ∀ op ∈ prog, isBefore op = false) : Inv (runS true (init p cap fl) prog) := by
  suffices H : ∀ (s : St), Inv s → s.before = [] → Inv (runS true s prog) from
    H _ (inv_init p cap fl) rfl
  induction prog with
  | nil => intro s h _; exact h
  | cons op ops ih =>
    intro s h hb
    have hop := hp op (List.mem_cons_self)
    exact ih (fun o ho => hp o (List.mem_cons_of_mem _ ho)) _ (inv_stepS_nohooks true h hb op)
      ((stepS_before true s op hop).trans hb)

/-! With a before-hook registered the full invariant FAILS after a refused commit: the hook has
run, the headers have not gone out, and the hook will run again at the next commit (under
Recover: when the error handler sends its 500).  The harness therefore does not combine
refusing writers with before-hooks in C06 (reported as an observation in DELIVERY-r5). -/
example : ¬ Inv (runS true (init 200 9) [.before 1, .writeHeader 0]) := by
  intro h; have := h.trace; revert this; decide
example : (runS true (init 200 9) [.before 1, .writeHeader 0, .writeHeader 500]).trace
    = [.regB 1, .runB 1, .runB 1, .hdr 500] := by decide

/-- non-vacuity: a refused `String(0, …)` (zero-valued config field) leaves an uncommitted,
    untouched response with `Status = 0`; the following `Write` sends 200 -/
example : let s := runS true (init 200 9) [.blob 0 1 2]
    s.committed = false ∧ s.raw.calls = [] ∧ s.raw.sent = none ∧ s.status = 0 ∧ s.ct = 1 := by decide
example : (runS true (init 200 9) [.blob 0 1 2, .write 1]).raw.sent = some 200 := by decide
/-- a refused 1000 stays pending: the next implicit commit is refused again -/
example : (runS true (init 200 9) [.noContent 1000, .write 1, .flush]).raw.calls = [] ∧
    (runS true (init 200 9) [.noContent 1000, .write 1, .writeHeader 204]).raw.calls = [204] := by decide
/-- an accepting writer sends whatever it is given, and `Status` says so -/
example : let s := runS false (init 200 9) [.noContent 1000, .writeHeader 204]
    s.raw.sent = some 1000 ∧ s.status = 1000 ∧ s.raw.calls = [1000] := by decide
/-- the hypotheses of `C06_refused_commit` -/
example : commitAttempt (init 200 9) (.json 99 4 true) = some ({ writeCT (init 200 9) ctJSON with status := 99 }, 99) ∧
    validCode 99 = false ∧ validCode 0 = false ∧ validCode 1000 = false ∧ validCode 100 = true ∧ validCode 999 = true := by
  decide

/-! ## the optional-interface probes land in `Write` (round 6) -/

/-- **C06_writeString_is_write** — `io.WriteString` into the response is `Response.Write`:
    same state, same recording, same return values (so commit, Size and hooks are Write's). -/
theorem C06_writeString_is_write (s : St) (n : Nat) : step s (.writeString n) = step s (.write n) := rfl

/-- **C06_copyWT_is_copy** — `io.Copy` from a source with `WriteTo` is one `Write` of
    everything: the same as copying from a reader that hands out one chunk. -/
theorem C06_copyWT_is_copy (s : St) (n : Nat) : step s (.copyWT n) = step s (.copy [n] false) := by
  simp [step]

/-- whichever probe is the first to touch an uncommitted response, the commit is complete:
    headers out once with the pending status, `Committed` true, `Status` = what was sent -/
theorem C06_probe_commits {s : St} (h : Inv s) (hc : s.committed = false) (op : Op)
    (hop : op = .writeString n ∨ op = .copyWT (n + 1) ∨ op = .copy [n + 1] false ∨ op = .flushRC ∨ op = .flushFE) :
    hv (step s op).1 = committedWith s (pend s.status) := by
  have := step_effect h hc op
  rcases hop with rfl | rfl | rfl | rfl | rfl <;> simpa [opEffect] using this

example : (run (init 0 100) [.before 1, .after 2, .writeString 3, .copyWT 0, .copyWT 2]).trace
    = [.regB 1, .regA 2, .runB 1, .hdr 200, .body 3, .runA 2, .body 2, .runA 2] := by decide
example : firstStatus 200 [.json 202 0 false, .copyWT 0, .copyWT 4, .writeHeader 500] = some 202 := by decide

end C06
