import EchoModel.C17
/-!
# C17 — theorems: generated redirects stay on the same host

The statements quantify over *every* request path (arbitrary characters, arbitrary length),
every query string, every redirect code, every directory tree and every `*` parameter value.
`browserView` is the preprocessing of the WHATWG URL parser (strip leading/trailing C0
control or space, then remove every ASCII tab or newline).
-/
namespace C17

/-! ## the property, spelled out as a `Prop` -/

/-- what the property demands of a `Location` value: as a browser reads it, it starts with
    `/`, its second character is neither `/` nor `\`, and it has no scheme -/
def SameHost (loc : List Char) : Prop :=
  let l := browserView loc
  l.head? = some '/' ∧ l[1]? ≠ some '/' ∧ l[1]? ≠ some '\\' ∧ hasScheme l = false

/-- weaker form for request paths that start with `\` (or are `*`): the value has no scheme
    and its first two characters are not both slashes/backslashes, so a browser resolves it
    against the URL that was asked without taking a host from it -/
def StaysOnHost (loc : List Char) : Prop :=
  let l := browserView loc
  hasScheme l = false ∧ ¬ (∃ c0 c1 r, l = c0 :: c1 :: r ∧ isSlash c0 = true ∧ isSlash c1 = true)

/-- the query suffix the slash middlewares append -/
def queryPart (q : List Char) : List Char := if q.isEmpty then [] else '?' :: q

theorem withQuery_eq (p q : List Char) : withQuery p q = p ++ queryPart q := by
  unfold withQuery queryPart; split <;> simp

/-! ## list helpers -/

theorem head_filter_not (p : Char → Bool) (l : List Char) :
    (l.filter (fun c => !p c)).head? = (l.dropWhile p).head? := by
  induction l with
  | nil => rfl
  | cons a l ih =>
    by_cases h : p a = true
    · simp [List.filter, List.dropWhile, h, ih]
    · have h' : p a = false := by simpa using h
      simp [List.filter, List.dropWhile, h']

theorem stripTrailing_cons_keep (p : Char → Bool) (c : Char) (r : List Char) (h : p c = false) :
    stripTrailing p (c :: r) = c :: stripTrailing p r := by
  simp only [stripTrailing]
  split
  · next heq => simp [h, heq]
  · rfl

theorem stripTrailing_prefix (p : Char → Bool) (l : List Char) :
    ∃ t, l = stripTrailing p l ++ t := by
  induction l with
  | nil => exact ⟨[], rfl⟩
  | cons c r ih =>
    obtain ⟨t, ht⟩ := ih
    simp only [stripTrailing]
    split
    · next heq =>
      split
      · exact ⟨c :: r, rfl⟩
      · exact ⟨r, rfl⟩
    · next r' hne =>
      refine ⟨t, ?_⟩
      simp only [List.cons_append]
      congr 1

theorem dropWhile_head_append (p : Char → Bool) (a t : List Char) (c : Char)
    (h : (a.dropWhile p).head? = some c) : ((a ++ t).dropWhile p).head? = some c := by
  induction a with
  | nil => simp at h
  | cons x a ih =>
    by_cases hx : p x = true
    · simp only [List.cons_append, List.dropWhile, hx] at h ⊢
      exact ih h
    · have hx' : p x = false := by simpa using hx
      simp only [List.cons_append, List.dropWhile, hx'] at h ⊢
      simpa using h

theorem dropWhile_append_stop (f : Char → Bool) (a : List Char) (b : Char) (c : List Char)
    (hb : f b = false) : (a ++ b :: c).dropWhile f = a.dropWhile f ++ b :: c := by
  induction a with
  | nil => simp [List.dropWhile, hb]
  | cons x a ih =>
    by_cases hx : f x = true
    · simp [List.dropWhile, hx, ih]
    · have hx' : f x = false := by simpa using hx
      simp [List.dropWhile, hx']

theorem dropWhile_head_not (f : Char → Bool) (l : List Char) (c : Char)
    (h : (l.dropWhile f).head? = some c) : f c = false := by
  induction l with
  | nil => simp at h
  | cons x l ih =>
    by_cases hx : f x = true
    · simp only [List.dropWhile, hx] at h; exact ih h
    · have hx' : f x = false := by simpa using hx
      simp only [List.dropWhile, hx', List.head?_cons, Option.some.injEq] at h
      subst h; exact hx'

/-- the first character a browser will see after the first one: tabs and newlines skipped -/
def firstSig (r : List Char) : Option Char := (r.dropWhile isTabNL).head?

/-! ## how the browser reads a value that starts with `/` or `\` -/

theorem browserView_cons (c : Char) (r : List Char) (h0 : isC0Space c = false) (h1 : isTabNL c = false) :
    browserView (c :: r) = c :: (stripTrailing isC0Space r).filter (fun c => !isTabNL c) := by
  simp [browserView, List.dropWhile, h0, stripTrailing_cons_keep _ _ _ h0, h1]

theorem view_second (r : List Char) (c : Char)
    (h : ((stripTrailing isC0Space r).filter (fun c => !isTabNL c)).head? = some c) :
    firstSig r = some c := by
  rw [head_filter_not] at h
  obtain ⟨t, ht⟩ := stripTrailing_prefix isC0Space r
  unfold firstSig
  rw [ht]
  exact dropWhile_head_append _ _ _ _ h

theorem getElem1_cons (c : Char) (f : List Char) : (c :: f)[1]? = f.head? := by
  cases f <;> simp

/-- a value `/ r` whose first significant character after the slash is not a slash is read
    as a path-absolute reference -/
theorem sameHost_of_firstSig (r : List Char)
    (h : ∀ c, firstSig r = some c → isSlash c = false) : SameHost ('/' :: r) := by
  unfold SameHost
  rw [browserView_cons '/' r (by decide) (by decide)]
  refine ⟨rfl, ?_, ?_, ?_⟩
  · rw [getElem1_cons]
    intro hc
    have := h _ (view_second r _ hc)
    simp [isSlash] at this
  · rw [getElem1_cons]
    intro hc
    have := h _ (view_second r _ hc)
    simp [isSlash] at this
  · simp [hasScheme, isAlpha]

theorem staysOnHost_of_firstSig (r : List Char)
    (h : ∀ c, firstSig r = some c → isSlash c = false) : StaysOnHost ('\\' :: r) := by
  unfold StaysOnHost
  rw [browserView_cons '\\' r (by decide) (by decide)]
  refine ⟨by simp [hasScheme, isAlpha], ?_⟩
  rintro ⟨c0, c1, t, heq, _, h1⟩
  simp only [List.cons.injEq] at heq
  obtain ⟨_, hf⟩ := heq
  have hc : ((stripTrailing isC0Space r).filter (fun c => !isTabNL c)).head? = some c1 := by
    rw [hf]; rfl
  have := h _ (view_second r _ hc)
  rw [this] at h1
  exact Bool.noConfusion h1

theorem SameHost.staysOnHost {loc : List Char} (h : SameHost loc) : StaysOnHost loc := by
  unfold SameHost at h
  unfold StaysOnHost
  obtain ⟨h0, h1, h2, h3⟩ := h
  refine ⟨h3, ?_⟩
  rintro ⟨c0, c1, t, heq, _, hc1⟩
  rw [heq] at h1 h2
  simp [isSlash] at hc1 h1 h2
  rcases hc1 with rfl | rfl
  · exact h1 rfl
  · exact h2 rfl

/-! ## sanitizeURI -/

/-- the shape of every result of `sanitizeURI` on an input that starts with a slash or
    backslash: the first character is kept or becomes `/`, and the first significant character
    after it is not a slash or backslash -/
theorem sanitize_shape (c0 : Char) (rest : List Char) (h0 : isSlash c0 = true) :
    ∃ c r, sanitizeURI (c0 :: rest) = c :: r ∧ (c = c0 ∨ c = '/') ∧
      ∀ x, firstSig r = some x → isSlash x = false := by
  simp only [sanitizeURI, h0, if_true]
  split
  · next heq =>
    refine ⟨c0, rest, rfl, Or.inl rfl, ?_⟩
    intro x hx
    simp [firstSig, heq] at hx
  · next c1 t heq =>
    split
    · next hs =>
      refine ⟨'/', (c0 :: rest).dropWhile isLead, rfl, Or.inr rfl, ?_⟩
      intro x hx
      unfold firstSig at hx
      have hx1 := dropWhile_head_not _ _ _ hx
      -- x is the head of `dropWhile isTabNL (dropWhile isLead …)`, whose head is not `isLead`
      cases hd : (c0 :: rest).dropWhile isLead with
      | nil => rw [hd] at hx; simp at hx
      | cons y ys =>
        have hy : isLead y = false := dropWhile_head_not isLead (c0 :: rest) y (by rw [hd]; rfl)
        have hyt : isTabNL y = false := by
          simp only [isLead, Bool.or_eq_false_iff] at hy; exact hy.2
        rw [hd] at hx
        simp only [List.dropWhile, hyt, List.head?_cons, Option.some.injEq] at hx
        subst hx
        simp only [isLead, Bool.or_eq_false_iff] at hy; exact hy.1
    · next hs =>
      refine ⟨c0, rest, rfl, Or.inl rfl, ?_⟩
      intro x hx
      simp only [firstSig, heq, List.head?_cons, Option.some.injEq] at hx
      subst hx
      simpa using hs

/-- **the sanitiser is sufficient**: every value that starts with `/` is, after
    `sanitizeURI`, a path-absolute reference for a browser — for all continuations -/
theorem C17_sanitize_same_host (uri : List Char) (h : uri.head? = some '/') :
    SameHost (sanitizeURI uri) := by
  cases uri with
  | nil => simp at h
  | cons c0 rest =>
    simp only [List.head?_cons, Option.some.injEq] at h
    subst h
    obtain ⟨c, r, heq, hc, hr⟩ := sanitize_shape '/' rest (by decide)
    rw [heq]
    rcases hc with rfl | rfl <;> exact sameHost_of_firstSig r hr

/-- a value that starts with `\` never starts an authority after `sanitizeURI` -/
theorem C17_sanitize_backslash (uri : List Char) (h : uri.head? = some '\\') :
    StaysOnHost (sanitizeURI uri) := by
  cases uri with
  | nil => simp at h
  | cons c0 rest =>
    simp only [List.head?_cons, Option.some.injEq] at h
    subst h
    obtain ⟨c, r, heq, hc, hr⟩ := sanitize_shape '\\' rest (by decide)
    rw [heq]
    rcases hc with rfl | rfl
    · exact staysOnHost_of_firstSig r hr
    · exact (sameHost_of_firstSig r hr).staysOnHost

/-- `sanitizeURI` never touches anything from the first character on that is not a slash,
    backslash, tab or newline: in particular the query string is preserved -/
theorem sanitize_suffix (a : List Char) (b : Char) (c : List Char) (hb : isLead b = false) :
    ∃ pre, sanitizeURI (a ++ b :: c) = pre ++ b :: c := by
  cases a with
  | nil => exact ⟨[], by
      have : isSlash b = false := by
        simp only [isLead, Bool.or_eq_false_iff] at hb; exact hb.1
      simp [sanitizeURI, this]⟩
  | cons c0 rest =>
    simp only [List.cons_append, sanitizeURI]
    split
    · split
      · exact ⟨c0 :: rest, rfl⟩
      · split
        · refine ⟨'/' :: (c0 :: rest).dropWhile isLead, ?_⟩
          have := dropWhile_append_stop isLead (c0 :: rest) b c hb
          simp only [List.cons_append] at this
          rw [this]; rfl
        · exact ⟨c0 :: rest, rfl⟩
    · exact ⟨c0 :: rest, rfl⟩

/-- an *ordinary* path: `/`, then (possibly after tabs/newlines, which a browser ignores) a
    character that is not a slash or backslash.  `/users`, `/a/b/`, `/x.y` … -/
def Ordinary (p : List Char) : Prop :=
  ∃ r c, p = '/' :: r ∧ firstSig r = some c ∧ isSlash c = false

theorem sanitize_ordinary (p s : List Char) (ho : Ordinary p) : sanitizeURI (p ++ s) = p ++ s := by
  obtain ⟨r, c, rfl, hc, hs⟩ := ho
  have hh : ((r ++ s).dropWhile isTabNL).head? = some c := dropWhile_head_append _ _ _ _ hc
  simp only [List.cons_append, sanitizeURI]
  have : isSlash '/' = true := by decide
  simp only [this, if_true]
  split
  · next heq => rw [heq] at hh
  · next c1 t heq =>
    rw [heq] at hh
    simp only [List.head?_cons, Option.some.injEq] at hh
    subst hh
    simp [hs]

/-! ## the components -/

def Op.path : Op → List Char
  | .add _ p _ _ => p
  | .remove _ p _ _ => p
  | .static _ _ up => up

theorem redirect_loc {code : Nat} {url : List Char} {code' : Nat} {loc : List Char}
    (h : redirect code url = .redirect code' loc) : loc = url ∧ code' = code := by
  unfold redirect at h
  split at h
  · exact Out.noConfusion h
  · injection h with h1 h2; exact ⟨h2.symm, h1.symm⟩

/-- the only redirect of the static handler: `URL.Path` + `/`, sanitised -/
theorem staticServe_loc {t : Tree} {p up : List Char} {code : Nat} {loc : List Char}
    (h : staticServe t p up = .redirect code loc) : loc = sanitizeURI (up ++ ['/']) := by
  simp only [staticServe] at h
  split at h
  · exact Out.noConfusion h
  · split at h
    · exact (redirect_loc h).1
    · -- no redirect from fsFile
      unfold fsFile at h
      split at h
      · exact Out.noConfusion h
      · exact Out.noConfusion h
      · split at h <;> exact Out.noConfusion h

/-- every `Location` a component can emit is `sanitizeURI` of a value that keeps the first
    character of the request path -/
theorem location_form (op : Op) (code : Nat) (loc : List Char) (h : runOp op = .redirect code loc) :
    ∃ u, loc = sanitizeURI u ∧ (op.path ≠ [] → u.head? = op.path.head?) ∧ (op.path = [] → u.head? = some '/') := by
  cases op with
  | add c p q ru =>
    simp only [runOp, addSlash] at h
    split at h
    · split at h
      · obtain ⟨hl, _⟩ := redirect_loc h
        refine ⟨_, hl, ?_, ?_⟩
        · intro hp
          rw [withQuery_eq]
          cases p with
          | nil => exact absurd rfl hp
          | cons x xs => simp [Op.path]
        · intro hp
          simp only [Op.path] at hp
          subst hp
          rw [withQuery_eq]; simp
      · exact Out.noConfusion h
    · exact Out.noConfusion h
  | remove c p q ru =>
    simp only [runOp, removeSlash] at h
    split at h
    · next hcond =>
      split at h
      · obtain ⟨hl, _⟩ := redirect_loc h
        refine ⟨_, hl, ?_, ?_⟩
        · intro _
          rw [withQuery_eq]
          simp only [Bool.and_eq_true, decide_eq_true_eq] at hcond
          cases p with
          | nil => simp at hcond
          | cons x xs =>
            cases xs with
            | nil => simp at hcond
            | cons y ys => simp [Op.path, List.dropLast]
        · intro hp
          simp only [Op.path] at hp
          subst hp
          simp at hcond
      · exact Out.noConfusion h
    · exact Out.noConfusion h
  | static t param up =>
    simp only [runOp, staticDir] at h
    split at h
    · exact Out.noConfusion h
    · next p _ =>
      have hl := staticServe_loc h
      refine ⟨_, hl, ?_, ?_⟩
      · intro hp
        cases up with
        | nil => exact absurd rfl hp
        | cons x xs => simp [Op.path]
      · intro hp
        simp only [Op.path] at hp
        subst hp
        simp

/-- **C17_same_host** — for every request whose path starts with `/` (every path a server can
    see except `""` and `*`), whichever of the four components answers it, with whatever
    redirect code, query string, directory tree and wildcard value: if a redirect is produced,
    its `Location`, as a browser reads it, starts with `/`, does not continue with `/` or `\`,
    and has no scheme. -/
theorem C17_same_host (op : Op) (hp : op.path.head? = some '/')
    (code : Nat) (loc : List Char) (h : runOp op = .redirect code loc) : SameHost loc := by
  obtain ⟨u, hl, hu, _⟩ := location_form op code loc h
  subst hl
  apply C17_sanitize_same_host
  rw [hu (by intro hn; rw [hn] at hp; simp at hp)]
  exact hp

/-- the same for an empty request path (absolute-form target without path): the only
    redirect is AddTrailingSlash's, to `/` -/
theorem C17_same_host_empty (op : Op) (hp : op.path = [])
    (code : Nat) (loc : List Char) (h : runOp op = .redirect code loc) : SameHost loc := by
  obtain ⟨u, hl, _, hu⟩ := location_form op code loc h
  subst hl
  exact C17_sanitize_same_host u (hu hp)

/-- request paths that start with `\` (cannot come from net/http, but `sanitizeURI` provides
    for them): the `Location` never names another host -/
theorem C17_backslash_path (op : Op) (hp : op.path.head? = some '\\')
    (code : Nat) (loc : List Char) (h : runOp op = .redirect code loc) : StaysOnHost loc := by
  obtain ⟨u, hl, hu, _⟩ := location_form op code loc h
  subst hl
  apply C17_sanitize_backslash
  rw [hu (by intro hn; rw [hn] at hp; simp at hp)]
  exact hp

/-- `OPTIONS *`: AddTrailingSlash answers `*/`, a relative reference -/
theorem C17_star_path (code : Nat) (q ru : List Char) (code' : Nat) (loc : List Char)
    (h : addSlash code ['*'] q ru = .redirect code' loc) : StaysOnHost loc := by
  simp only [addSlash] at h
  split at h
  · split at h
    · obtain ⟨hl, _⟩ := redirect_loc h
      subst hl
      rw [withQuery_eq]
      have hs : sanitizeURI (['*'] ++ ['/'] ++ queryPart q) = '*' :: '/' :: queryPart q := by
        simp [sanitizeURI, isSlash]
      rw [hs]
      unfold StaysOnHost
      rw [browserView_cons '*' _ (by decide) (by decide)]
      refine ⟨by simp [hasScheme, isAlpha], ?_⟩
      rintro ⟨c0, c1, t, heq, h0, _⟩
      simp only [List.cons.injEq] at heq
      rw [← heq.1] at h0
      exact absurd h0 (by decide)
    · exact Out.noConfusion h
  · exact Out.noConfusion h

/-- **C17_ordinary** (AddTrailingSlash) — an ordinary path without trailing slash is redirected
    to exactly the path + `/` + the unchanged query -/
theorem C17_ordinary_add (code : Nat) (p q ru : List Char) (ho : Ordinary p)
    (hs : endsWithSlash p = false) (hc : 300 ≤ code ∧ code ≤ 308) :
    addSlash code p q ru = .redirect code (p ++ ['/'] ++ queryPart q) := by
  have hne : (code != 0) = true := by simp; omega
  have hr : (code < 300 || code > 308) = false := by simp; omega
  simp only [addSlash, hs, Bool.not_false, if_true, hne, redirect, hr, withQuery_eq]
  rw [List.append_assoc, sanitize_ordinary p _ ho]
  simp

theorem dropLast_append_slash (p : List Char) : (p ++ ['/']).dropLast = p := by
  simp

theorem endsWithSlash_append (p : List Char) : endsWithSlash (p ++ ['/']) = true := by
  simp [endsWithSlash]

/-- **C17_ordinary** (RemoveTrailingSlash) — an ordinary path followed by `/` is redirected to
    exactly the path + the unchanged query -/
theorem C17_ordinary_remove (code : Nat) (p q ru : List Char) (ho : Ordinary p)
    (hc : 300 ≤ code ∧ code ≤ 308) :
    removeSlash code (p ++ ['/']) q ru = .redirect code (p ++ queryPart q) := by
  have hne : (code != 0) = true := by simp; omega
  have hr : (code < 300 || code > 308) = false := by simp; omega
  have hlen : (p ++ ['/']).length > 1 := by
    obtain ⟨r, c, rfl, _, _⟩ := ho
    simp
  simp only [removeSlash, endsWithSlash_append, hlen, decide_true, Bool.and_true, if_true,
    dropLast_append_slash, hne, redirect, hr, withQuery_eq]
  rw [sanitize_ordinary p _ ho]
  simp

/-- forwarding mode (`RedirectCode` 0): the next handler sees the same target, unsanitised -/
theorem C17_ordinary_forward (p q ru : List Char) (hs : endsWithSlash p = false) :
    addSlash 0 p q ru = .next (p ++ ['/']) (p ++ ['/'] ++ queryPart q) ∧
    (p ≠ [] → removeSlash 0 (p ++ ['/']) q ru = .next p (p ++ queryPart q)) := by
  constructor
  · simp [addSlash, hs, withQuery_eq]
  · intro hp
    have hlen : (p ++ ['/']).length > 1 := by
      cases p with
      | nil => exact absurd rfl hp
      | cons _ _ => simp
    simp [removeSlash, endsWithSlash_append, withQuery_eq, hp]

/-- paths that need no change are handed on untouched (no redirect at all) -/
theorem C17_no_change (code : Nat) (p q ru : List Char) :
    (endsWithSlash p = true → addSlash code p q ru = .next p ru) ∧
    (endsWithSlash p = false → removeSlash code p q ru = .next p ru) := by
  constructor
  · intro h; simp [addSlash, h]
  · intro h; simp [removeSlash, h]

/-- **C17_query_preserved** — whatever the path, the query string arrives in the `Location`
    unchanged, behind a `?` -/
theorem C17_query_preserved (op : Op) (code : Nat) (loc : List Char)
    (h : runOp op = .redirect code loc) :
    match op with
    | .add _ _ q _ => q ≠ [] → ∃ pre, loc = pre ++ '?' :: q
    | .remove _ _ q _ => q ≠ [] → ∃ pre, loc = pre ++ '?' :: q
    | .static _ _ _ => True := by
  have hq : isLead '?' = false := by decide
  cases op with
  | add c p q ru =>
    intro hne
    simp only [runOp, addSlash] at h
    split at h
    · split at h
      · obtain ⟨hl, _⟩ := redirect_loc h
        subst hl
        have : withQuery (p ++ ['/']) q = (p ++ ['/']) ++ '?' :: q := by
          cases q with
          | nil => exact absurd rfl hne
          | cons _ _ => simp [withQuery]
        rw [this]
        exact sanitize_suffix _ _ _ hq
      · exact Out.noConfusion h
    · exact Out.noConfusion h
  | remove c p q ru =>
    intro hne
    simp only [runOp, removeSlash] at h
    split at h
    · split at h
      · obtain ⟨hl, _⟩ := redirect_loc h
        subst hl
        have : withQuery p.dropLast q = p.dropLast ++ '?' :: q := by
          cases q with
          | nil => exact absurd rfl hne
          | cons _ _ => simp [withQuery]
        rw [this]
        exact sanitize_suffix _ _ _ hq
      · exact Out.noConfusion h
    · exact Out.noConfusion h
  | static t param up => trivial

/-- the repair is stable: sanitising twice changes nothing more -/
theorem C17_sanitize_idempotent (uri : List Char) :
    sanitizeURI (sanitizeURI uri) = sanitizeURI uri := by
  cases uri with
  | nil => rfl
  | cons c0 rest =>
    by_cases h0 : isSlash c0 = true
    · obtain ⟨c, r, heq, hc, hr⟩ := sanitize_shape c0 rest h0
      rw [heq]
      have hcs : isSlash c = true := by rcases hc with rfl | rfl <;> first | exact h0 | decide
      simp only [sanitizeURI, hcs, if_true]
      split
      · rfl
      · next c1 t heq1 =>
        have : isSlash c1 = false := hr c1 (by simp [firstSig, heq1])
        simp [this]
    · have h0' : isSlash c0 = false := by simpa using h0
      simp [sanitizeURI, h0']

/-! ## the spec predicates printed by the driver are the `Prop`s above -/

theorem sameHost_iff (loc : List Char) : sameHost loc = true ↔ SameHost loc := by
  unfold sameHost SameHost
  cases hv : browserView loc with
  | nil => simp
  | cons a t =>
    cases t with
    | nil => simp
    | cons b t' =>
      simp only [List.head?_cons, List.drop_succ_cons, List.drop_zero, Bool.and_eq_true,
        beq_iff_eq, Option.some.injEq, Bool.not_eq_eq_eq_not, Bool.not_true,
        List.getElem?_cons_succ, List.getElem?_cons_zero, ne_eq]
      constructor
      · rintro ⟨⟨ha, hb⟩, hs⟩
        simp only [isSlash, Bool.or_eq_false_iff, beq_eq_false_iff_ne, ne_eq] at hb
        exact ⟨ha, hb.1, hb.2, hs⟩
      · rintro ⟨ha, h1, h2, hs⟩
        refine ⟨⟨ha, ?_⟩, hs⟩
        simp only [isSlash, Bool.or_eq_false_iff, beq_eq_false_iff_ne, ne_eq]
        exact ⟨h1, h2⟩

/-! ## F10: the sanitiser as it was before the repair (kept only as a witness) -/

/-- `sanitizeURI` at the pinned commit: only the first two bytes were inspected -/
def sanitizeURIBefore (uri : List Char) : List Char :=
  match uri with
  | c0 :: c1 :: _ => if isSlash c0 && isSlash c1 then '/' :: uri.dropWhile isSlash else uri
  | _ => uri

/-- F10: `GET /%09/example.com` through AddTrailingSlash — the old sanitiser let the target
    through, and a browser reads `//example.com/` -/
example : sameHost (sanitizeURIBefore "/\t/example.com/".toList) = false := by decide
example : browserView (sanitizeURIBefore "/\t/example.com/".toList) = "//example.com/".toList := by decide
/-- …and the repaired one does not -/
example : sanitizeURI "/\t/example.com/".toList = "/example.com/".toList := by decide

/-! ## non-vacuity -/

-- a hostile path through each component produces a redirect, and the hypotheses hold
example : runOp (.add 301 "/\t/example.com".toList "next=//evil.com".toList []) =
    .redirect 301 "/example.com/?next=//evil.com".toList := by decide
example : runOp (.remove 308 "/\\\n/example.com/".toList [] []) =
    .redirect 308 "/example.com".toList := by decide
example : runOp (.static ⟨[".".toList], []⟩ "%09/example.com/%2e%2e/%2e%2e".toList "/\t/example.com/../..".toList) =
    .redirect 301 "/example.com/../../".toList := by decide
example : (Op.add 301 "/\t/example.com".toList [] []).path.head? = some '/' := by decide
-- an ordinary path
example : Ordinary "/users".toList := ⟨"users".toList, 'u', rfl, by decide, by decide⟩
example : addSlash 302 "/users".toList "a=1".toList [] = .redirect 302 "/users/?a=1".toList := by decide
example : removeSlash 302 "/users/".toList "a=1".toList [] = .redirect 302 "/users?a=1".toList := by decide
-- SameHost is not trivially true: the classic attack values fail it
example : sameHost "//example.com/".toList = false := by decide
example : sameHost "/\\example.com/".toList = false := by decide
example : sameHost " \t/\n/example.com/".toList = false := by decide
example : sameHost "https://example.com/".toList = false := by decide
example : sameHost "/example.com/".toList = true := by decide

/-! ## every public entry point (round 4)

`Req` covers the four constructors of the slash middlewares (with an arbitrary `Skipper`
answer), the static handler with and without path unescaping — and therefore `Echo.Static`,
`Echo.StaticFS`, `Group.Static`, `Group.StaticFS` at ANY mount point: below literal prefixes,
below path parameters (`/:site/*`, where the first segment of the request path is chosen by the
client) — and a slash middleware in front of a static route. -/

def Req.path : Req → List Char
  | .slash _ p _ _ => p
  | .static _ _ _ up => up
  | .preStatic _ p _ _ _ _ _ _ => p

theorem ite_op_path (b : Bool) (c : Nat) (p q u : List Char) :
    (if b = true then Op.add c p q u else Op.remove c p q u).path = p := by
  cases b <;> rfl

theorem slashMw_eq_runOp (k : SlashCtor) (p q u : List Char) (hs : k.config.skip = false) :
    slashMw k p q u = runOp (if k.isAdd then .add k.config.code p q u else .remove k.config.code p q u) := by
  unfold slashMw
  simp only [hs, Bool.false_eq_true, if_false]
  split <;> rfl

/-- what a slash middleware hands on starts with the same character as the request path
    (or is `/` for the empty path) -/
theorem slashMw_next_head {k : SlashCtor} {p q u p' u' : List Char}
    (h : slashMw k p q u = .next p' u') :
    (p ≠ [] → p'.head? = p.head?) ∧ (p = [] → p' = [] ∨ p' = ['/']) := by
  unfold slashMw at h
  split at h
  · injection h with h1 _; subst h1; exact ⟨fun _ => rfl, fun h => Or.inl h⟩
  · split at h
    · simp only [addSlash] at h
      split at h
      · split at h
        · unfold redirect at h; split at h <;> exact Out.noConfusion h
        · injection h with h1 _; subst h1
          refine ⟨?_, fun hp => by subst hp; exact Or.inr rfl⟩
          intro hp
          cases p with
          | nil => exact absurd rfl hp
          | cons x xs => rfl
      · injection h with h1 _; subst h1; exact ⟨fun _ => rfl, fun h => Or.inl h⟩
    · simp only [removeSlash] at h
      split at h
      · next hcond =>
        split at h
        · unfold redirect at h; split at h <;> exact Out.noConfusion h
        · injection h with h1 _; subst h1
          simp only [Bool.and_eq_true, decide_eq_true_eq] at hcond
          refine ⟨?_, fun hp => by subst hp; simp at hcond⟩
          intro _
          cases p with
          | nil => simp at hcond
          | cons x xs =>
            cases xs with
            | nil => simp at hcond
            | cons y ys => simp [List.dropLast]
      · injection h with h1 _; subst h1; exact ⟨fun _ => rfl, fun h => Or.inl h⟩

theorem staticHandler_loc {d : Bool} {t : Tree} {param up : List Char} {code : Nat} {loc : List Char}
    (h : staticHandler d t param up = .redirect code loc) : loc = sanitizeURI (up ++ ['/']) := by
  unfold staticHandler at h
  split at h
  · exact staticServe_loc h
  · simp only [staticDir] at h
    split at h
    · exact Out.noConfusion h
    · exact staticServe_loc h

theorem head_append_slash (up : List Char) :
    (up ≠ [] → (up ++ ['/']).head? = up.head?) ∧ (up = [] → (up ++ ['/']).head? = some '/') := by
  cases up <;> simp

/-- every `Location` any entry point can emit is `sanitizeURI` of a value that keeps the first
    character of the request path -/
theorem req_location_form (r : Req) (code : Nat) (loc : List Char) (h : runReq r = .redirect code loc) :
    ∃ u, loc = sanitizeURI u ∧ (r.path ≠ [] → u.head? = r.path.head?) ∧ (r.path = [] → u.head? = some '/') := by
  cases r with
  | slash k p q u =>
    simp only [runReq] at h
    by_cases hs : k.config.skip = true
    · simp [slashMw, hs] at h
    · rw [slashMw_eq_runOp k p q u (by simpa using hs)] at h
      obtain ⟨x, hx, h1, h2⟩ := location_form _ code loc h
      rw [ite_op_path] at h1 h2
      exact ⟨x, hx, h1, h2⟩
  | static d t param up =>
    simp only [runReq] at h
    exact ⟨_, staticHandler_loc h, (head_append_slash up).1, (head_append_slash up).2⟩
  | preStatic k p q u d t routed param =>
    simp only [runReq] at h
    split at h
    · next p' u' hn =>
      split at h
      · obtain ⟨h1, h2⟩ := slashMw_next_head hn
        refine ⟨_, staticHandler_loc h, ?_, ?_⟩
        · intro hp
          have hp' : p'.head? = p.head? := h1 hp
          have hne : p' ≠ [] := by
            intro he; rw [he] at hp'
            cases p with
            | nil => exact hp rfl
            | cons _ _ => simp at hp'
          rw [(head_append_slash p').1 hne]; exact hp'
        · intro hp
          rcases h2 hp with he | he <;> subst he <;> rfl
      · exact Out.noConfusion h
    · next hne =>
      -- the slash middleware itself answered
      by_cases hs : k.config.skip = true
      · simp [slashMw, hs] at h
      · rw [slashMw_eq_runOp k p q u (by simpa using hs)] at h
        obtain ⟨x, hx, h1, h2⟩ := location_form _ code loc h
        rw [ite_op_path] at h1 h2
        exact ⟨x, hx, h1, h2⟩

/-- **C17_req_same_host** — `C17_same_host` for every public entry point: whichever constructor
    built the slash middleware, whatever its `Skipper` answers, wherever the static route is
    mounted (any `*` value), with or without path unescaping, with or without a slash middleware
    in front of the static route: a redirect for a request path that starts with `/` carries a
    `Location` that a browser reads as a path on the same host. -/
theorem C17_req_same_host (r : Req) (hp : r.path.head? = some '/')
    (code : Nat) (loc : List Char) (h : runReq r = .redirect code loc) : SameHost loc := by
  obtain ⟨u, hl, hu, _⟩ := req_location_form r code loc h
  subst hl
  apply C17_sanitize_same_host
  rw [hu (by intro hn; rw [hn] at hp; simp at hp)]
  exact hp

theorem C17_req_same_host_empty (r : Req) (hp : r.path = [])
    (code : Nat) (loc : List Char) (h : runReq r = .redirect code loc) : SameHost loc := by
  obtain ⟨u, hl, _, hu⟩ := req_location_form r code loc h
  subst hl
  exact C17_sanitize_same_host u (hu hp)

/-- **C17_plain_ctor_forwards** — `AddTrailingSlash()` and `RemoveTrailingSlash()` never produce
    a `Location` at all: they rewrite the path and hand the request on -/
theorem C17_plain_ctor_forwards (p q u : List Char) :
    slashMw .add p q u = addSlash 0 p q u ∧ slashMw .remove p q u = removeSlash 0 p q u ∧
    (∀ code loc, slashMw .add p q u ≠ .redirect code loc) ∧
    (∀ code loc, slashMw .remove p q u ≠ .redirect code loc) := by
  refine ⟨rfl, rfl, ?_, ?_⟩
  · intro code loc h
    simp only [slashMw, SlashCtor.config, SlashCtor.isAdd, Bool.false_eq_true, if_false, if_true, addSlash] at h
    split at h <;> simp at h
  · intro code loc h
    simp only [slashMw, SlashCtor.config, SlashCtor.isAdd, Bool.false_eq_true, if_false, removeSlash] at h
    split at h <;> simp at h

/-- **C17_skipped_untouched** — a request the `Skipper` excludes reaches the next handler as it came -/
theorem C17_skipped_untouched (k : SlashCtor) (p q u : List Char) (h : k.config.skip = true) :
    slashMw k p q u = .next p u := by
  simp [slashMw, h]

/-- the second clause of the property, for the configured constructors: ordinary paths, valid
    code, `Skipper` not excluding the request -/
theorem C17_ordinary_ctor (code : Nat) (p q ru : List Char) (ho : Ordinary p)
    (hc : 300 ≤ code ∧ code ≤ 308) :
    (endsWithSlash p = false →
      slashMw (.addWith ⟨false, code⟩) p q ru = .redirect code (p ++ ['/'] ++ queryPart q)) ∧
    slashMw (.removeWith ⟨false, code⟩) (p ++ ['/']) q ru = .redirect code (p ++ queryPart q) :=
  ⟨fun hs => C17_ordinary_add code p q ru ho hs hc, C17_ordinary_remove code p q ru ho hc⟩

-- non-vacuity: the mount below a path parameter (`e.Group("/:site").Static("/", root)`,
-- request `/%5Cexample.com/a`): the router binds `*` = `a`, `URL.Path` is `/\example.com/a`
example : runReq (.static false ⟨[".".toList, "a".toList], []⟩ "a".toList "/\\example.com/a".toList) =
    .redirect 301 "/example.com/a/".toList := by decide
-- RemoveTrailingSlash() in front of a root mount: `//example.com/../../` loses its slash and
-- the static handler answers for the directory `.`
example : runReq (.preStatic .remove "//example.com/../".toList [] [] false ⟨[".".toList], []⟩ true
    "/example.com/..".toList) = .redirect 301 "/example.com/../".toList := by decide
example : runReq (.slash (.addWith ⟨true, 301⟩) "//example.com".toList [] "/x".toList) =
    .next "//example.com".toList "/x".toList := by decide
example : runReq (.static true ⟨[".".toList, "%2e%2e".toList], []⟩ "%2e%2e".toList "//%2e%2e".toList) =
    .redirect 301 "/%2e%2e/".toList := by decide

/-! ## parts of the URL that are present but empty (round 5) -/

/-- **C17_url_same_host** — whatever else the request URL carries (a bare `?`, a `RawPath`, a
    fragment, a host): a redirect of a slash middleware for a path starting with `/` stays on
    the host -/
theorem C17_url_same_host (k : SlashCtor) (u : URL) (ru : List Char) (hp : u.path.head? = some '/')
    (code : Nat) (loc : List Char) (h : slashURL k u ru = .redirect code loc) : SameHost loc :=
  C17_req_same_host (.slash k u.path u.queryString ru) hp code loc h

/-- the answer is a function of `Path` and `RawQuery` alone -/
theorem C17_url_parts_ignored (k : SlashCtor) (u u' : URL) (ru : List Char)
    (hp : u.path = u'.path) (hq : u.rawQuery = u'.rawQuery) : slashURL k u ru = slashURL k u' ru := by
  unfold slashURL URL.queryString; rw [hp, hq]

/-- **C17_bare_query** — a request target that ends in a bare `?` (empty query, `ForceQuery` set or
    not): for an ordinary path the target is exactly the path with the slash added or removed —
    not the original path, and without a `?` -/
theorem C17_bare_query (code : Nat) (u : URL) (ru : List Char) (ho : Ordinary u.path)
    (hq : u.rawQuery = []) (hc : 300 ≤ code ∧ code ≤ 308) :
    (endsWithSlash u.path = false →
      slashURL (.addWith ⟨false, code⟩) u ru = .redirect code (u.path ++ ['/'])) ∧
    slashURL (.removeWith ⟨false, code⟩) { u with path := u.path ++ ['/'] } ru = .redirect code u.path := by
  have h := C17_ordinary_ctor code u.path [] ru ho hc
  simp only [queryPart, List.isEmpty_nil, if_true, List.append_nil] at h
  unfold slashURL URL.queryString
  simp only [hq]
  exact h

example : slashURL (.addWith ⟨false, 301⟩) { path := "//example.com".toList, forceQuery := true } [] =
    .redirect 301 "/example.com/".toList := by decide
example : slashURL (.addWith ⟨false, 301⟩)
    { path := "/users".toList, forceQuery := true, fragment := "f".toList,
      host := "evil.com".toList, rawPath := "/users".toList } [] = .redirect 301 "/users/".toList := by decide

/-! ## protocol version, Host header, and sequences of requests (round 7) -/

/-- **C17_request_same_host** — whatever protocol version the request names (HTTP/1.0, 0.9, 2),
    with or without a `Host` header, over TLS or not: the redirect of a slash middleware for a path
    starting with `/` is a path on the same host (in particular never `scheme://…`) -/
theorem C17_request_same_host (k : SlashCtor) (u : URL) (conn : Conn) (ru : List Char)
    (hp : u.path.head? = some '/') (code : Nat) (loc : List Char)
    (h : slashRequest k u conn ru = .redirect code loc) : SameHost loc :=
  C17_url_same_host k u ru hp code loc h

theorem C17_conn_ignored (k : SlashCtor) (u : URL) (conn conn' : Conn) (ru : List Char) :
    slashRequest k u conn ru = slashRequest k u conn' ru := rfl

/-- **C17_query_bytes** — the query string is copied byte for byte, whatever its bytes are
    (`%`, `%zz`, `;`, `&&`, `=` — nothing is parsed): for an ordinary path and a valid code the
    target is exactly path ± `/` followed by `?` and the query -/
theorem C17_query_bytes (code : Nat) (p q ru : List Char) (ho : Ordinary p) (hq : q ≠ [])
    (hc : 300 ≤ code ∧ code ≤ 308) :
    (endsWithSlash p = false →
      slashMw (.addWith ⟨false, code⟩) p q ru = .redirect code (p ++ '/' :: '?' :: q)) ∧
    slashMw (.removeWith ⟨false, code⟩) (p ++ ['/']) q ru = .redirect code (p ++ '?' :: q) := by
  have h := C17_ordinary_ctor code p q ru ho hc
  have hqp : queryPart q = '?' :: q := by
    cases q with
    | nil => exact absurd rfl hq
    | cons _ _ => rfl
  rw [hqp] at h
  constructor
  · intro hs; have := h.1 hs; simpa using this
  · exact h.2

/-- **C17_seq_independent** — in a sequence of requests through one application every answer is
    the answer to that request alone: nothing of an earlier request (its query, its path, its
    target) can show up in a later `Location` -/
theorem C17_seq_independent (before after : List Req) (r : Req) :
    (runSeq (before ++ r :: after))[before.length]? = some (runReq r) := by
  simp [runSeq]

/-- **C17_seq_same_host** — every redirect in a sequence, for a request path starting with `/`,
    stays on the host -/
theorem C17_seq_same_host (rs : List Req) (i : Nat) (r : Req) (hr : rs[i]? = some r)
    (hp : r.path.head? = some '/') (code : Nat) (loc : List Char)
    (h : (runSeq rs)[i]? = some (.redirect code loc)) : SameHost loc := by
  simp only [runSeq, List.getElem?_map, hr, Option.map_some, Option.some.injEq] at h
  exact C17_req_same_host r hp code loc h

-- `/search?q=first` then `/search?q=second` through one AddTrailingSlash instance
example : runSeq [.slash (.addWith ⟨false, 301⟩) "/search".toList "q=first".toList [],
                  .slash (.addWith ⟨false, 301⟩) "/search".toList "q=second".toList []] =
    [.redirect 301 "/search/?q=first".toList, .redirect 301 "/search/?q=second".toList] := by decide
-- a query that url.ParseQuery rejects
example : slashMw (.addWith ⟨false, 301⟩) "/users".toList "discount=100%".toList [] =
    .redirect 301 "/users/?discount=100%".toList := by decide
-- HTTP/1.0 without Host
example : slashRequest (.addWith ⟨false, 301⟩) { path := "/example.com/x".toList } ⟨1, 0, [], false⟩ [] =
    .redirect 301 "/example.com/x/".toList := by decide

/-! ## requests that name a regular file (round 8)

The index page `index.html` is the one file name the static handler gives a meaning of its own (it is what a
directory request is answered with).  Asked for by name it is a regular file like any other: the handler serves
it and produces no `Location` at all — whatever `URL.Path` looked like, so also for `//example.com/../index.html`.
The only redirect of the handler is the directory redirect, and it is `sanitizeURI (URL.Path ++ "/")`. -/

/-- **C17_static_file_no_redirect** — a request whose cleaned file name is a regular file of the tree is answered
    with that file, for every request path: no redirect, hence no `Location`. -/
theorem C17_static_file_no_redirect (t : Tree) (p up : List Char)
    (h : stat t (clean (trimPrefixSlash p)) = .file) : staticServe t p up = .file := by
  simp only [staticServe, h, fsFile]
  simp

/-- **C17_static_redirect_only_dir** — if the static handler (with or without path unescaping) redirects, then the
    name asked for is a DIRECTORY of the tree, the request path does not end in `/`, the code is 301 and the
    target is the sanitised request path plus `/`.  In particular no file name (no `…/index.html`) is ever
    redirected. -/
theorem C17_static_redirect_only_dir (d : Bool) (t : Tree) (param up : List Char) (code : Nat) (loc : List Char)
    (h : staticHandler d t param up = .redirect code loc) :
    ∃ p, (if d then some param else pathUnescape param) = some p ∧
      stat t (clean (trimPrefixSlash p)) = .dir ∧ endsWithSlash up = false ∧ up ≠ [] ∧
      code = 301 ∧ loc = sanitizeURI (up ++ ['/']) := by
  have key : ∀ p, staticServe t p up = .redirect code loc →
      stat t (clean (trimPrefixSlash p)) = .dir ∧ endsWithSlash up = false ∧ up ≠ [] ∧
      code = 301 ∧ loc = sanitizeURI (up ++ ['/']) := by
    intro p hs
    simp only [staticServe] at hs
    split at hs
    · exact Out.noConfusion hs
    · next st hne =>
      split at hs
      · next hc =>
        simp only [Bool.and_eq_true, beq_iff_eq, Bool.not_eq_true', List.isEmpty_eq_false_iff] at hc
        obtain ⟨hl, hcode⟩ := redirect_loc hs
        exact ⟨hc.1.1, hc.2, hc.1.2, hcode, hl⟩
      · unfold fsFile at hs
        split at hs
        · exact Out.noConfusion hs
        · exact Out.noConfusion hs
        · split at hs <;> exact Out.noConfusion hs
  unfold staticHandler at h
  cases d with
  | true => simp only [if_true] at h ⊢; exact ⟨param, rfl, key param h⟩
  | false =>
    simp only [Bool.false_eq_true, if_false, staticDir] at h ⊢
    split at h
    · exact Out.noConfusion h
    · next p hp => exact ⟨p, hp, key p h⟩

-- the index page behind a prefix that looks like another host and is cancelled by a dot segment: served, not redirected
example : runReq (.static false ⟨[".".toList, "a".toList], ["index.html".toList, "a/index.html".toList]⟩
    "/example.com/%2e%2e/index.html".toList "//example.com/../index.html".toList) = .file := by decide
example : runReq (.static false ⟨[".".toList, "a".toList], ["index.html".toList, "a/index.html".toList]⟩
    "\\example.com/../a/index.html".toList "/\\example.com/../a/index.html".toList) = .file := by decide
-- the directory of that index page IS redirected, and the target is sanitised
example : runReq (.static false ⟨[".".toList, "a".toList], ["index.html".toList, "a/index.html".toList]⟩
    "/example.com/../a".toList "//example.com/../a".toList) = .redirect 301 "/example.com/../a/".toList := by decide

end C17
