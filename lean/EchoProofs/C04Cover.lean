import EchoProofs.Tree.Covered
/-!
# C04 — group middleware covers the whole prefix

"Group middleware runs for every request under the group's prefix that is not claimed by a route
registered outside the group — including requests that end in 404 inside the group."

Mechanism: `Group.Use` registers two `RouteNotFound` catch-all routes, `prefix` and `prefix/*`, that carry
the group's middleware list.  So the router never answers a request under the prefix with its OWN 404 / 405 /
OPTIONS handler (which would carry no group middleware): the request is always dispatched to a *registered
route* — one of the group's catch-alls at the latest.

* `CatchAll`, `CInv`, `run_cinv`    registration invariant: every group with a non-empty middleware list has
                                    its two catch-all routes, with exactly that list, among the routes
* `C04_group_covers_prefix`         request level: the selection is a registered route
* `C04_group_covers_layers`         hence the layers that go in are Pre ++ Use ++ snapshot of a registered route
* `C04_group_catchall`              the group's catch-alls carry the group's current list

Hypotheses on the program, beyond `PfxOKOp`: `NoHostTwice` (an `Echo.Host(name)` call installs a FRESH router
for `name`, dropping the catch-alls of groups already created under it) and `NoEmptyHost` (the model files
the default router under the empty host name, so `Host("")` would drop the default router's routes; with
`ops = [.group none "/g" [3], .host [] []]` the statement is false in the model).
-/
set_option linter.unusedSimpArgs false
set_option linter.unusedVariables false
namespace C04
open Router Router.Spec Router.Tree

/-- the two catch-all routes of group `g`, with the group's current middleware list, are registered -/
def CatchAll (c : Cfg) (g : Group) : Prop :=
  (⟨g.host, routeNotFound, normalizeSlash g.pfx, 0, true, g.mws⟩ : RouteRec) ∈ c.routes
  ∧ (⟨g.host, routeNotFound, normalizeSlash (g.pfx ++ "/*".toList), 0, true, g.mws⟩ : RouteRec) ∈ c.routes

/-- the registration invariant -/
structure CInv (c : Cfg) : Prop where
  hostOK : ∀ g ∈ c.groups, g.host = [] ∨ g.host ∈ c.hosts
  pfxOK : ∀ g ∈ c.groups, PfxOK g.pfx
  cover : ∀ g ∈ c.groups, g.mws ≠ [] → CatchAll c g

def hostName : Op → Option Str
  | .host n _ => some n
  | _ => none

/-- the names handed to `Echo.Host`, in order -/
def hostNames (ops : List Op) : List Str := ops.filterMap hostName

/-- no host router is created twice -/
def NoHostTwice (ops : List Op) : Prop := (hostNames ops).Nodup
/-- no host router is created for the empty name (the key of the default router in the model) -/
def NoEmptyHost (ops : List Op) : Prop := [] ∉ hostNames ops

instance (ops : List Op) : Decidable (NoHostTwice ops) := by unfold NoHostTwice; infer_instance
instance (ops : List Op) : Decidable (NoEmptyHost ops) := by unfold NoEmptyHost; infer_instance

theorem mem_addRoute {c : Cfg} {host method path : Str} {hid : Nat} {fails : Bool} {mws : List Mw} {r : RouteRec} :
    r ∈ (addRoute c host method path hid fails mws).routes ↔
      r ∈ c.routes ∨ r = ⟨if c.hosts.contains host then host else [], method, normalizeSlash path, hid, fails, mws⟩ := by
  simp [addRoute]

theorem CatchAll.mono {c c' : Cfg} {g : Group} (h : CatchAll c g) (hr : ∀ r ∈ c.routes, r ∈ c'.routes) :
    CatchAll c' g := ⟨hr _ h.1, hr _ h.2⟩

/-- `Group.Use` keeps the invariant: the updated group gets fresh catch-alls with its new list -/
theorem groupUse_cinv {c : Cfg} (h : CInv c) (gid : Nat) (ms : List Mw) : CInv (groupUse c gid ms) := by
  unfold groupUse
  cases hg : c.groups[gid]? with
  | none => exact h
  | some g =>
    simp only
    have hgm : g ∈ c.groups := List.mem_of_getElem? hg
    have hho := h.hostOK g hgm
    split
    · -- the list is still empty: nothing is registered
      rename_i hemp
      refine ⟨?_, ?_, ?_⟩
      · intro g' hg'
        rcases mem_set_iff hg' with rfl | hg'
        · exact hho
        · exact h.hostOK g' hg'
      · intro g' hg'
        rcases mem_set_iff hg' with rfl | hg'
        · exact h.pfxOK g hgm
        · exact h.pfxOK g' hg'
      · intro g' hg' hne
        rcases mem_set_iff hg' with rfl | hg'
        · simp only [List.isEmpty_iff] at hemp
          exact absurd hemp hne
        · exact h.cover g' hg' hne
    · refine ⟨?_, ?_, ?_⟩
      · intro g' hg'
        simp only [addRoute] at hg'
        rcases mem_set_iff hg' with rfl | hg'
        · exact hho
        · exact h.hostOK g' hg'
      · intro g' hg'
        simp only [addRoute] at hg'
        rcases mem_set_iff hg' with rfl | hg'
        · exact h.pfxOK g hgm
        · exact h.pfxOK g' hg'
      · intro g' hg' hne
        have hkey : (if c.hosts.contains g.host then g.host else []) = g.host := addRoute_host c g.host hho
        simp only [addRoute] at hg'
        rcases mem_set_iff hg' with rfl | hg'
        · constructor
          · simp only [addRoute, List.mem_append, List.mem_singleton, hkey]
            exact Or.inl (Or.inr trivial)
          · simp only [addRoute, List.mem_append, List.mem_singleton, hkey]
            exact Or.inr trivial
        · apply (h.cover g' hg' hne).mono
          intro r hr
          simp only [addRoute, List.mem_append]
          exact Or.inl (Or.inl hr)

theorem getLast_groups {gs : List Group} {g0 g : Group}
    (hg : (gs ++ [g0])[(gs ++ [g0]).length - 1]? = some g) : g = g0 := by
  simp only [List.length_append, List.length_singleton, Nat.add_sub_cancel] at hg
  rw [List.getElem?_append_right (Nat.le_refl _)] at hg
  simp only [Nat.sub_self, List.getElem?_cons_zero, Option.some.injEq] at hg
  exact hg.symm

/-- one registration step keeps the invariant -/
theorem exec_cinv {c : Cfg} (h : CInv c) (op : Op) (hpo : PfxOKOp op)
    (hho : ∀ name ms, op = .host name ms → name ∉ c.hosts ∧ name ≠ []) : CInv (exec c op) := by
  cases op with
  | pre m => exact ⟨h.hostOK, h.pfxOK, h.cover⟩
  | use j => exact ⟨h.hostOK, h.pfxOK, h.cover⟩
  | host name ms =>
    obtain ⟨hnew, hne⟩ := hho name ms rfl
    simp only [exec]
    apply groupUse_cinv
    refine ⟨?_, ?_, ?_⟩
    · intro g hg
      simp only [List.mem_append, List.mem_singleton] at hg
      rcases hg with hg | rfl
      · rcases h.hostOK g hg with h1 | h1
        · exact Or.inl h1
        · right
          split
          · exact h1
          · exact List.mem_append_left _ h1
      · right
        simp only
        split
        · rename_i hc; simpa using hc
        · simp
    · intro g hg
      simp only [List.mem_append, List.mem_singleton] at hg
      rcases hg with hg | rfl
      · exact h.pfxOK g hg
      · exact Or.inl rfl
    · intro g hg hmws
      simp only [List.mem_append, List.mem_singleton] at hg
      rcases hg with hg | rfl
      · -- an older group is not under the new host, so its catch-alls survive the fresh router
        have hgh : g.host ≠ name := by
          rcases h.hostOK g hg with h1 | h1
          · rw [h1]; exact fun h => hne h.symm
          · exact fun h => hnew (h ▸ h1)
        obtain ⟨c1, c2⟩ := h.cover g hg hmws
        constructor
        · simp only [List.mem_filter]
          exact ⟨c1, by simpa using hgh⟩
        · simp only [List.mem_filter]
          exact ⟨c2, by simpa using hgh⟩
      · exact absurd rfl hmws
  | group parent pfx ms =>
    simp only [exec]
    simp only [PfxOKOp] at hpo
    cases parent with
    | none =>
      simp only
      apply groupUse_cinv
      refine ⟨?_, ?_, ?_⟩
      · intro g hg
        simp only [List.mem_append, List.mem_singleton] at hg
        rcases hg with hg | rfl
        · exact h.hostOK g hg
        · exact Or.inl rfl
      · intro g hg
        simp only [List.mem_append, List.mem_singleton] at hg
        rcases hg with hg | rfl
        · exact h.pfxOK g hg
        · exact hpo
      · intro g hg hmws
        simp only [List.mem_append, List.mem_singleton] at hg
        rcases hg with hg | rfl
        · exact h.cover g hg hmws
        · exact absurd rfl hmws
    | some p =>
      simp only
      cases hp : c.groups[p]? with
      | none => exact h
      | some gp =>
        simp only
        have hgpm : gp ∈ c.groups := List.mem_of_getElem? hp
        apply groupUse_cinv
        refine ⟨?_, ?_, ?_⟩
        · intro g hg
          simp only [List.mem_append, List.mem_singleton] at hg
          rcases hg with hg | rfl
          · exact h.hostOK g hg
          · exact h.hostOK gp hgpm
        · intro g hg
          simp only [List.mem_append, List.mem_singleton] at hg
          rcases hg with hg | rfl
          · exact h.pfxOK g hg
          · exact pfxOK_append (h.pfxOK gp hgpm) hpo
        · intro g hg hmws
          simp only [List.mem_append, List.mem_singleton] at hg
          rcases hg with hg | rfl
          · exact h.cover g hg hmws
          · exact absurd rfl hmws
  | groupUse g ms => exact groupUse_cinv h g ms
  | add g method path hid fails ms =>
    simp only [exec]
    have hadd : ∀ host method path hid fails mws, CInv (addRoute c host method path hid fails mws) := by
      intro host method path hid fails mws
      refine ⟨h.hostOK, h.pfxOK, ?_⟩
      intro g hg hmws
      apply (h.cover g hg hmws).mono
      intro r hr
      exact mem_addRoute.mpr (Or.inl hr)
    cases g with
    | none => exact hadd _ _ _ _ _ _
    | some gid =>
      simp only
      split
      · exact h
      · exact hadd _ _ _ _ _ _

theorem cinv_init : CInv {} :=
  ⟨by intro g hg; simp at hg, by intro g hg; simp at hg, by intro g hg; simp at hg⟩

theorem exec_hosts (c : Cfg) (op : Op) :
    ∀ n ∈ (exec c op).hosts, n ∈ c.hosts ∨ hostName op = some n := by
  have hadd : ∀ (c : Cfg) host method path hid fails mws,
      (addRoute c host method path hid fails mws).hosts = c.hosts := fun _ _ _ _ _ _ _ => rfl
  have hgu : ∀ (c : Cfg) gid ms, (groupUse c gid ms).hosts = c.hosts := by
    intro c gid ms
    unfold groupUse
    split
    · rfl
    · simp only
      split
      · rfl
      · rfl
  intro n hn
  cases op with
  | pre m => exact Or.inl hn
  | use j => exact Or.inl hn
  | host name ms =>
    simp only [exec, hgu] at hn
    split at hn
    · exact Or.inl hn
    · simp only [List.mem_append, List.mem_singleton] at hn
      rcases hn with hn | hn
      · exact Or.inl hn
      · exact Or.inr (by rw [hn]; rfl)
  | group parent pfx ms =>
    simp only [exec] at hn
    cases parent with
    | none => simp only [hgu] at hn; exact Or.inl hn
    | some p =>
      simp only at hn
      split at hn
      · exact Or.inl hn
      · simp only [hgu] at hn; exact Or.inl hn
  | groupUse g ms => simp only [exec, hgu] at hn; exact Or.inl hn
  | add g method path hid fails ms =>
    simp only [exec] at hn
    cases g with
    | none => exact Or.inl hn
    | some gid =>
      simp only at hn
      split at hn
      · exact Or.inl hn
      · exact Or.inl hn

/-- the invariant along a whole program -/
theorem run_cinv (ops : List Op) (hpo : ∀ op ∈ ops, PfxOKOp op) : ∀ (c : Cfg), CInv c →
    (∀ n ∈ c.hosts, n ∉ hostNames ops) → NoHostTwice ops → NoEmptyHost ops → CInv (ops.foldl exec c) := by
  induction ops with
  | nil => intro c h _ _ _; exact h
  | cons op ops ih =>
    intro c h hfresh hnd hne
    simp only [List.foldl_cons]
    have hstep : CInv (exec c op) := by
      apply exec_cinv h op (hpo op (by simp))
      intro name ms hop
      subst hop
      constructor
      · intro hmem
        exact hfresh name hmem (by simp [hostNames, hostName])
      · intro hn
        apply hne
        simp [hostNames, hostName, hn]
    have hnd' : NoHostTwice ops ∧ (∀ n, hostName op = some n → n ∉ hostNames ops) := by
      unfold NoHostTwice hostNames at hnd ⊢
      cases hop : hostName op with
      | none =>
        simp only [List.filterMap_cons, hop] at hnd
        exact ⟨hnd, by intro n hn; cases hn⟩
      | some n =>
        simp only [List.filterMap_cons, hop, List.nodup_cons] at hnd
        refine ⟨hnd.2, ?_⟩
        intro n' hn'
        simp only [Option.some.injEq] at hn'
        rw [← hn']; exact hnd.1
    apply ih (fun o ho => hpo o (List.mem_cons_of_mem _ ho)) _ hstep _ hnd'.1
    · intro hmem
      apply hne
      unfold hostNames at hmem ⊢
      simp only [List.filterMap_cons]
      split
      · exact hmem
      · exact List.mem_cons_of_mem _ hmem
    · intro n hn
      rcases exec_hosts c op n hn with h1 | h1
      · intro hmem
        apply hfresh n h1
        unfold hostNames at hmem ⊢
        simp only [List.filterMap_cons]
        split
        · exact hmem
        · exact List.mem_cons_of_mem _ hmem
      · exact hnd'.2 n h1

/-- **C04_group_catchall** — after any registration program (no host created twice, no host with the empty
    name), every group with a non-empty middleware list has both catch-all routes, carrying exactly the
    group's current list, among the registered routes -/
theorem C04_group_catchall (ops : List Op) (hpo : ∀ op ∈ ops, PfxOKOp op) (hnd : NoHostTwice ops)
    (hne : NoEmptyHost ops) (g : Group) (hg : g ∈ (run ops).groups) (hmws : g.mws ≠ []) :
    CatchAll (run ops) g :=
  (run_cinv ops hpo {} cinv_init (by intro n hn; simp at hn) hnd hne).cover g hg hmws

/-! ### request level -/

theorem mem_tableOf_of_mem {c : Cfg} {h : Str} {r : RouteRec} (hr : r ∈ c.routes) (hh : r.host = h) :
    ∃ idx, (⟨r.method, r.path, idx⟩ : Route) ∈ tableOf c h := by
  obtain ⟨i, hi⟩ := List.mem_iff_getElem?.mp hr
  refine ⟨i, ?_⟩
  unfold tableOf
  refine List.mem_map.mpr ⟨(r, i), List.mem_filter.mpr ⟨List.mk_mem_zipIdx_iff_getElem?.mpr hi, ?_⟩, rfl⟩
  simpa using hh

theorem normalizeSlash_slash (x : Str) : normalizeSlash ('/' :: x) = '/' :: x := by
  simp [normalizeSlash]

theorem plain_slash : Plain ['/'] := by decide

theorem plain_append {a b : Str} (ha : Plain a) (hb : Plain b) : Plain (a ++ b) := by
  intro ch hch
  rcases List.mem_append.mp hch with h | h
  · exact ha ch h
  · exact hb ch h

/-- the router of the group's host dispatches every request under the group's prefix -/
theorem covers_find (c : Cfg) (hinv : CInv c) (g : Group) (hg : g ∈ c.groups) (hmws : g.mws ≠ [])
    (hpl : Plain g.pfx) (hok : okTable (tableOf c g.host) = true) (method p' : Str)
    (hp : (g.pfx ≠ [] ∧ (p' = g.pfx ∨ (g.pfx ++ ['/']) <+: p')) ∨ (g.pfx = [] ∧ ['/'] <+: p')) :
    ∃ rm vals, find (build (tableOf c g.host)) method p'
      (List.replicate (maxParam (tableOf c g.host)) []) = .dispatch rm vals := by
  obtain ⟨c1, c2⟩ := hinv.cover g hg hmws
  obtain ⟨i1, hi1⟩ := mem_tableOf_of_mem c1 rfl
  obtain ⟨i2, hi2⟩ := mem_tableOf_of_mem c2 rfl
  simp only at hi1 hi2
  have hstar : "/*".toList = ['/', '*'] := rfl
  rcases hp with ⟨hne, hp⟩ | ⟨hemp, hp⟩
  · obtain ⟨x, hx⟩ : ∃ x, g.pfx = '/' :: x := by
      rcases hinv.pfxOK g hg with h | h
      · exact absurd h hne
      · cases hq : g.pfx with
        | nil => exact absurd hq hne
        | cons a x =>
          rw [hq] at h
          simp only [List.head?_cons, Option.some.injEq] at h
          exact ⟨x, by rw [h]⟩
    rcases hp with hp | hp
    · exact find_covered _ hok _ hi1 rfl g.pfx p' hpl
        (Or.inr ⟨by simp only [normalizeSlash_idem]; rw [hx, normalizeSlash_slash], hp⟩) method _ (Nat.le_refl _)
    · refine find_covered _ hok _ hi2 rfl (g.pfx ++ ['/']) p' (plain_append hpl plain_slash)
        (Or.inl ⟨?_, hp⟩) method _ (Nat.le_refl _)
      simp only [normalizeSlash_idem]
      rw [hx, hstar]
      simp [normalizeSlash]
  · refine find_covered _ hok _ hi2 rfl ['/'] p' plain_slash (Or.inl ⟨?_, hp⟩) method _ (Nat.le_refl _)
    simp only [normalizeSlash_idem]
    rw [hemp, hstar]
    simp [normalizeSlash]

/-- **C04_group_covers_prefix** — for every registration program (prefixes empty or starting with `/`, no
    host router created twice, none for the empty name), every group `g` with a non-empty middleware list
    and a literal prefix, and every request for the group's host whose path — as the Pre chain left it — is
    the prefix itself or lies below `prefix/`: the router answers with a REGISTERED route (handler id
    `idx` into `routes`), never with its own 404 / 405 / OPTIONS handler.  Needs every pattern registered
    for that host to be representable (`okTable`); routes may be registered more than once. -/
theorem C04_group_covers_prefix (ops : List Op) (hpo : ∀ op ∈ ops, PfxOKOp op) (hnd : NoHostTwice ops)
    (hne : NoEmptyHost ops) (g : Group) (hg : g ∈ (run ops).groups) (hmws : g.mws ≠ []) (hpl : Plain g.pfx)
    (host method path : Str)
    (hh : (if (run ops).hosts.contains host then host else []) = g.host)
    (hok : okTable (tableOf (run ops) g.host) = true)
    (hp : (g.pfx ≠ [] ∧ (rewriteAll (run ops).pre path = g.pfx
              ∨ (g.pfx ++ ['/']) <+: rewriteAll (run ops).pre path))
          ∨ (g.pfx = [] ∧ ['/'] <+: rewriteAll (run ops).pre path)) :
    ∃ (idx : Nat) (r : RouteRec), (run ops).routes[idx]? = some r ∧
      selected (run ops) host method (rewriteAll (run ops).pre path) =
        (if r.hid = 0 then (.rtr 404, true, r.mws) else (.hnd r.hid, r.fails, r.mws)) := by
  have hinv := run_cinv ops hpo {} cinv_init (by intro n hn; simp at hn) hnd hne
  generalize hc : run ops = c at *
  have hc' : ops.foldl exec {} = c := hc
  rw [hc'] at hinv
  generalize rewriteAll c.pre path = p' at *
  obtain ⟨rm, vals, hfind⟩ := covers_find c hinv g hg hmws hpl hok method p' hp
  obtain ⟨rt, hrt, hhid, _, _⟩ := tree_dispatch_registered (tableOf c g.host) method p'
    (maxParam (tableOf c g.host)) (Nat.le_refl _) hok rm vals hfind
  obtain ⟨r, hget, _, _, _⟩ := mem_tableOf (dedupLast_subset _ _ hrt)
  rw [hhid] at hget
  refine ⟨rm.hid, r, hget, ?_⟩
  unfold selected
  simp only [hh, hfind, hget]

/-- **C04_group_covers_layers** — consequently the middleware that go in for such a request are
    Pre ++ Use ++ the snapshot of a registered route (for the group's own catch-alls: the group's list) -/
theorem C04_group_covers_layers (ops : List Op) (hpo : ∀ op ∈ ops, PfxOKOp op) (hnd : NoHostTwice ops)
    (hne : NoEmptyHost ops) (g : Group) (hg : g ∈ (run ops).groups) (hmws : g.mws ≠ []) (hpl : Plain g.pfx)
    (host method path : Str)
    (hh : (if (run ops).hosts.contains host then host else []) = g.host)
    (hok : okTable (tableOf (run ops) g.host) = true)
    (hp : (g.pfx ≠ [] ∧ (rewriteAll (run ops).pre path = g.pfx
              ∨ (g.pfx ++ ['/']) <+: rewriteAll (run ops).pre path))
          ∨ (g.pfx = [] ∧ ['/'] <+: rewriteAll (run ops).pre path)) :
    ∃ r ∈ (run ops).routes,
      enterIds (serve (run ops) host method path) = (run ops).pre.map (·.id) ++ (run ops).use ++ r.mws := by
  obtain ⟨idx, r, hget, hsel⟩ := C04_group_covers_prefix ops hpo hnd hne g hg hmws hpl host method path hh hok hp
  refine ⟨r, List.mem_of_getElem? hget, ?_⟩
  rw [C04_enter_order, layers, hsel]
  split <;> rfl

/-! ### non-vacuity: the `demo` program of `C04.lean` (group `/g` with `[3]`, a route, later `Use [5]`) -/

/-- the group of `demo` after the program ran: its list is `[3, 5]` -/
def demoGroup : Group := ⟨[], "/g".toList, [3, 5]⟩

theorem demoGroup_mem : demoGroup ∈ (run demo).groups :=
  List.mem_of_getElem? (i := 0) rfl

theorem demo_pfxOK : ∀ op ∈ demo, PfxOKOp op := by
  intro op hop
  simp only [demo, List.mem_cons, List.mem_nil_iff, or_false] at hop
  rcases hop with rfl | rfl | rfl | rfl | rfl <;> simp [PfxOKOp, PfxOK]

example : NoHostTwice demo ∧ NoEmptyHost demo := by decide
example : CatchAll (run demo) demoGroup :=
  C04_group_catchall demo demo_pfxOK (by decide) (by decide) demoGroup demoGroup_mem (by decide)

/-- `GET /g/missing` matches no handler route, yet it is answered by a registered route … -/
theorem demo_covered : ∃ (idx : Nat) (r : RouteRec), (run demo).routes[idx]? = some r ∧
    selected (run demo) [] "GET".toList (rewriteAll (run demo).pre "/g/missing".toList) =
      (if r.hid = 0 then (.rtr 404, true, r.mws) else (.hnd r.hid, r.fails, r.mws)) :=
  C04_group_covers_prefix demo demo_pfxOK (by decide) (by decide) demoGroup demoGroup_mem (by decide) (by decide)
    [] "GET".toList "/g/missing".toList (by decide) (by decide) (Or.inl ⟨by decide, Or.inr (by decide)⟩)

/-- … namely the refreshed catch-all `/g/*` (route 5), which carries the group's current list `[3, 5]` -/
example : (selected (run demo) [] "GET".toList "/g/missing".toList).2.2 = [3, 5] := by decide +kernel
example : (selected (run demo) [] "DELETE".toList "/g".toList).2.2 = [3, 5] := by decide +kernel

/-- without the hypothesis on host names the statement fails in the model: `Host("")` replaces the router
    the model files the default routes under -/
example : (selected (run [.group none "/g".toList [3], .host [] []]) [] "GET".toList "/g/x".toList).2.2 = [] := by
  decide +kernel

end C04
